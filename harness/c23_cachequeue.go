package main

// C23 — transaction cache: real storage.BadgerStore cache methods (CacheQueueTransaction,
// CacheStoreTransaction, CacheRetrieveTransactions, CacheRemoveTransactions, CacheGetTransaction)
// on a real Badger directory against lean/Mixin/Model/CacheQueue.lean.
//
// Transactions are numbered 1..c23K in the byte order of their payload hashes (so that the order of
// equal-timestamp queue keys is the order of the numbers); a body is one of three differently
// signed envelopes of the payload, named by the first signature byte.
//
// Property mode (independent of the model): per hash, retrievals returning it never outnumber the
// queueings issued for it; a retrieval has no duplicate, respects the limit, returns only hashes
// that have a body and keeps that body; a removed hash has no body; a hash queued while its order
// key was absent is returned by the next exhaustive retrieval unless removed in between.

import (
	"fmt"
	"os"
	"sort"
	"strconv"
	"strings"
	"sync"

	"github.com/MixinNetwork/mixin/common"
	"github.com/MixinNetwork/mixin/config"
	"github.com/MixinNetwork/mixin/crypto"
	"github.com/MixinNetwork/mixin/storage"
)

const c23K = 12

type c23World struct {
	dir    string
	store  *storage.BadgerStore
	hashes []crypto.Hash // index id-1
	ids    map[crypto.Hash]int
	extras [][]byte
}

var c23W *c23World

func verifCustom() *config.Custom {
	c := &config.Custom{}
	c.Node.CacheTTL = 7200
	c.Node.KernelOprationPeriod = 700
	c.Node.MemoryCacheSize = 16
	return c
}

func c23Tx(extra []byte, variant int) *common.VersionedTransaction {
	tx := common.NewTransactionV5(common.XINAssetId)
	tx.Extra = extra
	tx.Inputs = []*common.Input{{Genesis: extra}} // persistable without UTXOs to lock
	ver := tx.AsVersioned()
	if variant > 0 {
		sig := crypto.Signature{byte(variant)}
		ver.SignaturesMap = []map[uint16]*crypto.Signature{{0: &sig}}
	}
	return ver
}

func c23Variant(ver *common.VersionedTransaction) int {
	if len(ver.SignaturesMap) == 0 || ver.SignaturesMap[0][0] == nil {
		return 0
	}
	return int(ver.SignaturesMap[0][0][0])
}

// scratchDir makes a directory for a Badger store: on tmpfs when there is one (the snapshots
// database syncs every commit), else under the harness scratch directory. Removed at exit.
func scratchDir(st *State, prefix string) string {
	base := st.Dir
	if fi, err := os.Stat("/dev/shm"); err == nil && fi.IsDir() && os.Getenv("VERIF_NO_SHM") == "" {
		base = "/dev/shm"
	}
	dir, err := os.MkdirTemp(base, "verif-"+prefix)
	if err != nil {
		dir, err = os.MkdirTemp(st.Dir, prefix)
		if err != nil {
			panic(err)
		}
	}
	atExit = append(atExit, func() { os.RemoveAll(dir) })
	return dir
}

func c23Open(dir string) *storage.BadgerStore {
	st, err := storage.NewBadgerStore(verifCustom(), dir)
	if err != nil {
		panic("harness: NewBadgerStore: " + err.Error())
	}
	return st
}

func c23Get(st *State) *c23World {
	if c23W != nil {
		return c23W
	}
	w := &c23World{ids: map[crypto.Hash]int{}}
	type ent struct {
		h crypto.Hash
		e []byte
	}
	var es []ent
	for i := 0; i < c23K; i++ {
		e := []byte(fmt.Sprintf("verif-c23-%d", i))
		es = append(es, ent{c23Tx(e, 0).PayloadHash(), e})
	}
	sort.Slice(es, func(i, j int) bool { return string(es[i].h[:]) < string(es[j].h[:]) })
	for i, e := range es {
		w.hashes = append(w.hashes, e.h)
		w.extras = append(w.extras, e.e)
		w.ids[e.h] = i + 1
	}
	w.dir = scratchDir(st, "c23-")
	w.store = c23Open(w.dir)
	c23W = w
	return w
}

func (w *c23World) tx(id, variant int) *common.VersionedTransaction {
	return c23Tx(w.extras[id-1], variant)
}

// per-case oracle state of property mode
type c23Oracle struct {
	queued   map[int]int  // queue ops (and raw queue keys) issued per hash
	returned map[int]int  // times returned by a retrieval
	expect   map[int]bool // queued with absent order key, not yet returned or removed
	fresh    map[int]bool // returned by a retrieval and not queued since
}

func c23Or(st *State) *c23Oracle {
	if o, ok := st.V["or"].(*c23Oracle); ok {
		return o
	}
	o := &c23Oracle{queued: map[int]int{}, returned: map[int]int{}, expect: map[int]bool{}, fresh: map[int]bool{}}
	st.V["or"] = o
	return o
}

func c23IDs(w *c23World, hs []crypto.Hash) []int {
	var out []int
	for _, h := range hs {
		out = append(out, w.ids[h])
	}
	return out
}

func joinInts(xs []int) string {
	if len(xs) == 0 {
		return "-"
	}
	ss := make([]string, len(xs))
	for i, x := range xs {
		ss[i] = strconv.Itoa(x)
	}
	return strings.Join(ss, ",")
}

func atoi(s string) int {
	n, err := strconv.Atoi(s)
	if err != nil {
		panic("harness: bad integer in op line: " + s)
	}
	return n
}

func execCacheQueue(st *State, line string) Result {
	t := strings.Fields(line)
	res := Result{Tags: []string{t[0]}}
	w := c23Get(st)
	or := c23Or(st)
	fail := func(key, desc string) {
		if res.PropKey == "" {
			res.PropKey, res.PropDesc = "C23:"+key, desc
		}
	}
	must := func(err error) {
		if err != nil {
			panic("harness: storage error: " + err.Error())
		}
	}
	out, panicked, msg := Catch(func() string {
		switch t[0] {
		case "reset":
			must(w.store.VerifCacheWipe())
			return "ok"
		case "reopen":
			must(w.store.Close())
			w.store = c23Open(w.dir)
			return "ok"
		case "dump":
			q, o, p, err := w.store.VerifCacheDump()
			must(err)
			var qs []crypto.Hash
			for _, k := range q {
				qs = append(qs, k.Hash)
			}
			oi := c23IDs(w, o)
			sort.Ints(oi)
			var ps []string
			pi := c23IDs(w, p)
			sort.Ints(pi)
			for _, id := range pi {
				ver, err := w.store.CacheGetTransaction(w.hashes[id-1])
				must(err)
				ps = append(ps, fmt.Sprintf("%d:%d", id, c23Variant(ver)))
			}
			pstr := "-"
			if len(ps) > 0 {
				pstr = strings.Join(ps, " ")
			}
			return fmt.Sprintf("q %s o %s p %s", joinInts(c23IDs(w, qs)), joinInts(oi), pstr)
		case "store":
			id, v := atoi(t[1]), atoi(t[2])
			q0, _, _, err := w.store.VerifCacheDump()
			must(err)
			must(w.store.CacheStoreTransaction(w.tx(id, v)))
			q1, _, _, err := w.store.VerifCacheDump()
			must(err)
			if len(q0) != len(q1) {
				fail("store-made-eligible", "CacheStoreTransaction changed the queue")
			}
			ver, err := w.store.CacheGetTransaction(w.hashes[id-1])
			must(err)
			if ver == nil || ver.PayloadHash() != w.hashes[id-1] {
				fail("store-no-body", "no body after CacheStoreTransaction")
			}
			return "ok"
		case "queue":
			id, v := atoi(t[1]), atoi(t[2])
			q0, o0, _, err := w.store.VerifCacheDump()
			must(err)
			had := false
			for _, h := range o0 {
				had = had || h == w.hashes[id-1]
			}
			must(w.store.CacheQueueTransaction(w.tx(id, v)))
			or.queued[id]++
			q1, _, _, err := w.store.VerifCacheDump()
			must(err)
			old := map[storage.VerifQueueKey]bool{}
			for _, k := range q0 {
				old[k] = true
			}
			ts := uint64(0)
			for _, k := range q1 {
				if !old[k] {
					ts = k.Timestamp
				}
			}
			if or.fresh[id] { // re-queueing after retrieval must make it eligible again
				or.expect[id] = true
				delete(or.fresh, id)
				res.Tags = append(res.Tags, "queue:after-retrieve")
			}
			if !had {
				or.expect[id] = true
				res.Tags = append(res.Tags, "queue:effective")
			} else {
				res.Tags = append(res.Tags, "queue:order-exists")
			}
			res.LeanIn = fmt.Sprintf("queue %d %d %d", id, v, ts)
			return "ok"
		case "rawq":
			id, ts := atoi(t[1]), atoi(t[2])
			must(w.store.VerifCacheSetQueueKey(uint64(ts), w.hashes[id-1]))
			or.queued[id]++
			return "ok"
		case "retrieve":
			limit := atoi(t[1])
			q0, _, _, err := w.store.VerifCacheDump()
			must(err)
			txs, err := w.store.CacheRetrieveTransactions(limit)
			must(err)
			seen := map[int]bool{}
			var parts []string
			for _, ver := range txs {
				id := w.ids[ver.PayloadHash()]
				if seen[id] {
					fail("retrieve-dup", fmt.Sprintf("retrieval returned transaction %d twice", id))
				}
				seen[id] = true
				or.returned[id]++
				if or.returned[id] > or.queued[id] {
					fail("returned-more-than-queued", fmt.Sprintf("transaction %d returned %d times, queued %d times", id, or.returned[id], or.queued[id]))
				}
				delete(or.expect, id)
				or.fresh[id] = true
				v := c23Variant(ver)
				back, err := w.store.CacheGetTransaction(ver.PayloadHash())
				must(err)
				if back == nil || c23Variant(back) != v {
					fail("retrieve-lost-body", fmt.Sprintf("body of transaction %d not kept by retrieval", id))
				}
				parts = append(parts, fmt.Sprintf("%d:%d", id, v))
			}
			if len(txs) > limit && !(limit < 0 && len(txs) == 0) {
				fail("retrieve-over-limit", fmt.Sprintf("limit %d, returned %d", limit, len(txs)))
			}
			if limit >= len(q0) {
				for id := range or.expect {
					fail("queued-not-retrieved", fmt.Sprintf("transaction %d queued but not returned by an exhaustive retrieval", id))
				}
				q1, _, _, err := w.store.VerifCacheDump()
				must(err)
				if len(q1) != 0 && limit > len(q0) {
					fail("retrieve-not-consuming", "exhaustive retrieval left queue keys")
				}
			}
			if len(txs) > 0 {
				res.Tags = append(res.Tags, "retrieve:nonempty")
			}
			if len(txs) == limit && limit > 0 {
				res.Tags = append(res.Tags, "retrieve:limit-hit")
			}
			if len(parts) == 0 {
				return "ok 0"
			}
			return fmt.Sprintf("ok %d %s", len(parts), strings.Join(parts, " "))
		case "remove":
			n := atoi(t[1])
			var hs []crypto.Hash
			for i := 0; i < n; i++ {
				id := atoi(t[2+i])
				hs = append(hs, w.hashes[id-1])
				delete(or.expect, id)
			}
			must(w.store.CacheRemoveTransactions(hs))
			for _, h := range hs {
				ver, err := w.store.CacheGetTransaction(h)
				must(err)
				if ver != nil {
					fail("remove-keeps-body", fmt.Sprintf("transaction %d still has a body after removal", w.ids[h]))
				}
			}
			if n > 100 {
				res.Tags = append(res.Tags, "remove:multi-batch")
			}
			return "ok"
		case "get":
			id := atoi(t[1])
			ver, err := w.store.CacheGetTransaction(w.hashes[id-1])
			must(err)
			if ver == nil {
				return "ok none"
			}
			if ver.PayloadHash() != w.hashes[id-1] {
				fail("get-wrong-body", "body stored under another payload hash")
			}
			return fmt.Sprintf("ok %d", c23Variant(ver))
		case "conc":
			return c23Conc(w, or, t[1:], fail, &res)
		}
		panic("harness: unknown op " + t[0])
	})
	if panicked && strings.HasPrefix(msg, "harness:") {
		panic(msg)
	}
	res.Out = out
	res.Nontrivial = t[0] == "retrieve" || t[0] == "conc" || t[0] == "get"
	return res
}

// c23Conc runs the worker op lists concurrently against the store, re-issues queue ops that ended
// in ErrConflict, drains the queue and returns the schedule-independent observable.
func c23Conc(w *c23World, or *c23Oracle, toks []string, fail func(string, string), res *Result) string {
	var workers [][]string
	cur := []string{}
	for _, tk := range toks {
		if tk == "/" {
			workers = append(workers, cur)
			cur = []string{}
			continue
		}
		cur = append(cur, tk)
	}
	workers = append(workers, cur)
	var mu sync.Mutex
	returned := map[int]int{}
	queuedOps := map[int]int{}
	var failedQueue [][2]int
	conflicts := 0
	var wg sync.WaitGroup
	for _, ops := range workers {
		wg.Add(1)
		go func(ops []string) {
			defer wg.Done()
			for _, op := range ops {
				f := strings.Split(op, ":")
				switch f[0] {
				case "s":
					id, v := atoi(f[1]), atoi(f[2])
					if err := w.store.CacheStoreTransaction(w.tx(id, v)); err != nil {
						mu.Lock()
						conflicts++
						mu.Unlock()
					}
				case "q":
					id, v := atoi(f[1]), atoi(f[2])
					mu.Lock()
					queuedOps[id]++
					mu.Unlock()
					if err := w.store.CacheQueueTransaction(w.tx(id, v)); err != nil {
						mu.Lock()
						conflicts++
						failedQueue = append(failedQueue, [2]int{id, v})
						mu.Unlock()
					}
				case "r":
					limit := atoi(f[1])
					txs, err := w.store.CacheRetrieveTransactions(limit)
					mu.Lock()
					if err != nil {
						conflicts++
					} else {
						seen := map[int]bool{}
						for _, ver := range txs {
							id := w.ids[ver.PayloadHash()]
							if seen[id] {
								fail("retrieve-dup", fmt.Sprintf("concurrent retrieval returned transaction %d twice", id))
							}
							seen[id] = true
							returned[id]++
						}
						if len(txs) > limit && limit >= 0 {
							fail("retrieve-over-limit", fmt.Sprintf("concurrent: limit %d, returned %d", limit, len(txs)))
						}
					}
					mu.Unlock()
				case "g":
					id := atoi(f[1])
					ver, err := w.store.CacheGetTransaction(w.hashes[id-1])
					if err == nil && ver != nil && ver.PayloadHash() != w.hashes[id-1] {
						mu.Lock()
						fail("get-wrong-body", "concurrent get returned another payload")
						mu.Unlock()
					}
				default:
					panic("harness: bad conc op " + op)
				}
			}
		}(ops)
	}
	wg.Wait()
	for _, fq := range failedQueue {
		if err := w.store.CacheQueueTransaction(w.tx(fq[0], fq[1])); err != nil {
			panic("harness: sequential queue failed: " + err.Error())
		}
	}
	drain, err := w.store.CacheRetrieveTransactions(1 << 20)
	if err != nil {
		panic("harness: drain failed: " + err.Error())
	}
	for _, ver := range drain {
		returned[w.ids[ver.PayloadHash()]]++
	}
	var all []int
	for id, n := range returned {
		all = append(all, id)
		if n > queuedOps[id]+or.queued[id]-or.returned[id] {
			fail("returned-more-than-queued", fmt.Sprintf("concurrent: transaction %d returned %d times, %d queueings outstanding", id, n, queuedOps[id]+or.queued[id]-or.returned[id]))
		}
	}
	for id, n := range queuedOps {
		or.queued[id] += n
	}
	for id, n := range returned {
		or.returned[id] += n
		delete(or.expect, id)
		or.fresh[id] = true
	}
	sort.Ints(all)
	q, o, p, err := w.store.VerifCacheDump()
	if err != nil {
		panic("harness: dump failed: " + err.Error())
	}
	pi := c23IDs(w, p)
	sort.Ints(pi)
	if conflicts > 0 {
		res.Tags = append(res.Tags, "conc:conflict")
	}
	return fmt.Sprintf("ok ret %s bodies %s q %d o %d", joinInts(all), joinInts(pi), len(q), len(o))
}

func genCacheQueue(r *Rand, i int, tier string) []string {
	lines := []string{"reset"}
	k := r.Range(1, c23K)
	if r.Chance(1, 3) {
		k = r.Range(1, 3)
	}
	id := func() int { return r.Range(1, k) }
	variant := func() int { return r.Range(1, 3) }
	if i%10 == 9 { // concurrent case
		n := r.Range(2, 6)
		// sequential prefix so that the concurrent phase starts from a non-empty state
		for j := 0; j < r.Intn(4); j++ {
			lines = append(lines, fmt.Sprintf("queue %d %d", id(), variant()))
		}
		var toks []string
		fixed := map[int]int{}
		for wk := 0; wk < n; wk++ {
			if wk > 0 {
				toks = append(toks, "/")
			}
			for j := 0; j < r.Range(1, 8); j++ {
				h := id()
				if _, ok := fixed[h]; !ok {
					fixed[h] = variant()
				}
				switch r.Intn(6) {
				case 0:
					toks = append(toks, fmt.Sprintf("s:%d:%d", h, fixed[h]))
				case 1, 2:
					toks = append(toks, fmt.Sprintf("q:%d:%d", h, fixed[h]))
				case 3, 4:
					toks = append(toks, fmt.Sprintf("r:%d", r.Range(0, 4)))
				default:
					toks = append(toks, fmt.Sprintf("g:%d", h))
				}
			}
		}
		lines = append(lines, "conc "+strings.Join(toks, " "))
		lines = append(lines, "retrieve 300")
		return lines
	}
	nops := r.Range(3, 40)
	reopens := 0
	if r.Chance(1, 20) { // close + reopen of the Badger directory costs ~1.5 s
		reopens = 1
	}
	for j := 0; j < nops; j++ {
		switch r.Intn(16) {
		case 0, 1, 2, 3, 4:
			lines = append(lines, fmt.Sprintf("queue %d %d", id(), variant()))
		case 5, 6:
			lines = append(lines, fmt.Sprintf("store %d %d", id(), variant()))
		case 7, 8, 9:
			lim := Pick(r, []int{0, 1, 1, 2, 2, 3, 5, k - 1, k, k + 1, 255, 256, 300, -1})
			lines = append(lines, fmt.Sprintf("retrieve %d", lim))
		case 10, 11:
			n := r.Range(0, 3)
			if r.Chance(1, 40) {
				n = Pick(r, []int{99, 100, 101, 102, 201, 202})
			}
			parts := []string{"remove", strconv.Itoa(n)}
			for x := 0; x < n; x++ {
				parts = append(parts, strconv.Itoa(id()))
			}
			lines = append(lines, strings.Join(parts, " "))
		case 12:
			lines = append(lines, fmt.Sprintf("get %d", id()))
		case 13:
			lines = append(lines, "dump")
		case 14:
			if reopens > 0 {
				reopens--
				lines = append(lines, "reopen")
			} else {
				lines = append(lines, fmt.Sprintf("get %d", id()))
			}
		default:
			// raw queue keys: duplicates of a hash, equal timestamps, keys below and above "now"
			ts := Pick(r, []int{0, 1, 1, 2, 7, 7, 1 << 40, 1 << 62})
			lines = append(lines, fmt.Sprintf("rawq %d %d", id(), ts))
		}
	}
	lines = append(lines, "dump", "retrieve 300", "dump")
	return lines
}

func init() {
	Register(&Subsystem{
		Name: "cachequeue",
		Rule: "random histories of queue/store/retrieve/remove/get (+ raw queue keys, reopen of the Badger directory, every tenth case a concurrent phase) over 1..12 payloads with 3 signed variants; non-trivial = retrieve/get/conc results",
		Gen:  genCacheQueue,
		Exec: execCacheQueue,
		Corpus: [][]string{
			// remove leaves the queue key: a later store re-arms it; duplicates of one hash in the queue
			{"reset", "queue 1 1", "remove 1 1", "store 1 2", "retrieve 5", "dump"},
			{"reset", "queue 1 1", "remove 1 1", "queue 1 2", "dump", "retrieve 1", "dump", "queue 1 3", "retrieve 1", "retrieve 1", "dump"},
			{"reset", "store 2 1", "retrieve 10", "queue 2 2", "get 2", "retrieve 10", "get 2", "queue 2 3", "get 2", "retrieve 0", "retrieve -1", "retrieve 1"},
			{"reset", "rawq 1 5", "rawq 2 5", "rawq 1 5", "rawq 3 4", "store 1 1", "store 2 1", "dump", "retrieve 1", "dump", "retrieve 9", "dump"},
		},
	})
}
