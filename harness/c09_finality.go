package main

// C09 — a snapshot is final only with a threshold certificate from historical keys.
//
// Cases reuse the membership machinery (real kernel.Node around a generated history). `sign`
// produces a real CoSi signature with the repository's crypto (CosiCommitNonce,
// CosiAggregateCommitment, Response, AggregateResponse) by the holders of the masked keys of
// ConsensusKeys(round, ts); `fin` hands a snapshot carrying that signature (or a mutated one, a
// different hash, a different mask, another timestamp/round) to the real verifyFinalization.
// The Lean model gets the signature validity answers as an oracle table computed by the real
// FullVerify (threshold 1) on the key vectors at the certificate timestamp and the legacy timestamp.
// Each `fin` runs on two nodes with the same state: one whose ristretto cache persists over the case
// (repeated lines hit it), one whose cache is cleared first. Property mode: cached = fresh; an
// accepted snapshot carries a threshold certificate of in-range keys that verifies; a certificate
// that was altered after signing is never accepted.

import (
	"fmt"
	"math/bits"
	"strings"
	"time"

	"github.com/MixinNetwork/mixin/common"
	"github.com/MixinNetwork/mixin/config"
	"github.com/MixinNetwork/mixin/crypto"
	"github.com/MixinNetwork/mixin/kernel"
	"github.com/dgraph-io/ristretto/v2"
)

const finHackHash = "b5a9ab66e3b5d24328f8f87bc38e90f0c426dc38413200bb8ecf7f5b8607a5f9" // kernel.mainnetNodeRemovalHackSnapshotHash

type finSig struct {
	sig    crypto.Signature
	mask   uint64
	hash   crypto.Hash
	keys   []crypto.Key // the public keys that actually signed, in mask order
	honest bool
}

type finState struct {
	sigs   map[string]*finSig
	node2  *kernel.Node // same state, cache cleared before every verification
	chain2 *kernel.Chain
	cache1 *ristretto.Cache[[]byte, any]
	cache2 *ristretto.Cache[[]byte, any]
	chainF []string
}

var finCaches [2]*ristretto.Cache[[]byte, any]

func finCache(i int) *ristretto.Cache[[]byte, any] {
	if finCaches[i] == nil {
		c, err := ristretto.NewCache(&ristretto.Config[[]byte, any]{NumCounters: 1e5, MaxCost: 1 << 26, BufferItems: 64})
		if err != nil {
			panic(err)
		}
		finCaches[i] = c
	}
	return finCaches[i]
}

type detReader struct {
	seed []byte
	ctr  uint64
}

func (d *detReader) Read(b []byte) (int, error) {
	for off := 0; off < len(b); {
		h := crypto.Blake3Hash(append(append([]byte{}, d.seed...), byte(d.ctr), byte(d.ctr>>8), byte(d.ctr>>16)))
		d.ctr++
		off += copy(b[off:], h[:])
	}
	return len(b), nil
}

func finHash(seed string) crypto.Hash {
	if seed == "hack" {
		h, _ := crypto.HashFromString(finHackHash)
		return h
	}
	return crypto.Blake3Hash([]byte("verif snapshot " + seed))
}

func maskIdx(mask uint64) []int {
	var out []int
	for i := 0; i < 64; i++ {
		if mask&(1<<uint(i)) != 0 {
			out = append(out, i)
		}
	}
	return out
}

// real CoSi signature by the holders of publics[i], i in idxs, over hash
func finCosiSign(publics []*crypto.Key, idxs []int, hash crypto.Hash, label string) (*crypto.CosiSignature, bool) {
	if len(idxs) == 0 {
		return nil, false
	}
	rd := &detReader{seed: []byte("nonce " + label + hash.String())}
	nonces := map[int]*crypto.CosiNonce{}
	commitments := map[int]*crypto.Key{}
	privs := map[int]*crypto.Key{}
	for _, i := range idxs {
		memKeysMu.Lock()
		k := memByPub[*publics[i]]
		memKeysMu.Unlock()
		if k == nil {
			return nil, false
		}
		p := k.priv
		privs[i] = &p
		n := crypto.CosiCommitNonce(rd)
		c := n.Public()
		nonces[i], commitments[i] = n, &c
	}
	cosi, err := crypto.CosiAggregateCommitment(commitments)
	if err != nil {
		return nil, false
	}
	responses := map[int]*[32]byte{}
	for _, i := range idxs {
		r, err := nonces[i].Response(cosi, privs[i], publics, hash)
		if err != nil {
			return nil, false
		}
		responses[i] = r
	}
	if err := cosi.AggregateResponse(publics, responses, hash, true); err != nil {
		return nil, false
	}
	return cosi, true
}

func finGet(st *State) *finState {
	if v, ok := st.V["fin"].(*finState); ok {
		return v
	}
	v := &finState{sigs: map[string]*finSig{}}
	st.V["fin"] = v
	return v
}

func finCertTs(hashSeed string, ts uint64) uint64 {
	if hashSeed == "hack" {
		return ts - uint64(time.Minute)
	}
	return ts
}

func finExec(st *State, line string) Result {
	f := goPart(line)
	if len(f) == 0 {
		return Result{Out: "bad-op"}
	}
	fs := finGet(st)
	switch f[0] {
	case "reset":
		finCache(0).Clear()
		finCache(1).Clear()
		finCache(0).Wait()
		finCache(1).Wait()
	case "init":
		res, _ := memExecCommon(st, f)
		ms := memGet(st)
		// the case's own persistent cache instead of the shared one, and the twin node
		epoch := u64(f[1])
		net, self, signer := crypto.Hash(unhx32(f[2])), crypto.Hash(unhx32(f[3])), crypto.Key(unhx32(f[4]))
		var ids []crypto.Hash
		for _, x := range f[6:] {
			ids = append(ids, crypto.Hash(unhx32(x)))
		}
		ms.node = kernel.VerifNewNode(epoch, net, self, ms.store, finCache(0), ids)
		ms.node.VerifSetSigner(signer)
		fs.node2 = kernel.VerifNewNode(epoch, net, self, ms.store, finCache(1), ids)
		fs.node2.VerifSetSigner(signer)
		return res
	case "load":
		res, _ := memExecCommon(st, f)
		if err := fs.node2.LoadConsensusNodes(); err != nil {
			panic(err)
		}
		return res
	case "chain":
		res, _ := memExecCommon(st, f)
		if f[1] == "state" {
			fs.chain2 = fs.node2.VerifChain(crypto.Hash{}, true)
		} else {
			memSetClock(u64(f[3]))
			fs.chain2 = fs.node2.VerifChain(crypto.Hash(unhx32(f[2])), false)
			kernel.TestMockReset()
		}
		return res
	case "flush": // drop every remembered verification (eviction)
		finCache(0).Clear()
		finCache(0).Wait()
		return Result{Out: "ok", Tags: []string{"flush"}}
	case "sign": // sign label round ts maskhex hashseed
		ms := memGet(st)
		round, ts := u64(f[2]), u64(f[3])
		mask := u64hex(f[4])
		hash := finHash(f[5])
		_, publics := ms.chain.ConsensusKeys(round, finCertTs(f[5], ts))
		var idxs []int
		var eff uint64 // the bits that really have a signer
		for _, i := range maskIdx(mask) {
			if i < len(publics) {
				idxs = append(idxs, i)
				eff |= 1 << uint(i)
			}
		}
		s := &finSig{mask: eff, hash: hash}
		if cosi, ok := finCosiSign(publics, idxs, hash, f[1]); ok {
			s.sig = cosi.Signature
			s.honest = true
			for _, i := range idxs {
				s.keys = append(s.keys, *publics[i])
			}
		}
		fs.sigs[f[1]] = s
		return Result{Out: "ok", Tags: []string{fmt.Sprintf("sign:honest=%t", s.honest)}}
	case "fin":
		return finVerify(st, fs, f)
	}
	if res, ok := memExecCommon(st, f); ok {
		return res
	}
	return Result{Out: "bad-op"}
}

func u64hex(s string) uint64 {
	var v uint64
	if _, err := fmt.Sscanf(s, "%x", &v); err != nil {
		panic("harness: bad hex mask " + s)
	}
	return v
}

func fmtFin(signers []crypto.Hash, ok bool) string {
	var sb strings.Builder
	b := 0
	if ok {
		b = 1
	}
	fmt.Fprintf(&sb, "ok %d %d", b, len(signers))
	for _, id := range signers {
		sb.WriteString(" " + hx(id[:]))
	}
	return sb.String()
}

// fin version sigref maskhex hashseed ts round mut
func finVerify(st *State, fs *finState, f []string) Result {
	ms := memGet(st)
	version := uint8(u64(f[1]))
	mask := u64hex(f[3])
	hash := finHash(f[4])
	ts, round, mut := u64(f[5]), u64(f[6]), int(u64(f[7]))
	var cs *crypto.CosiSignature
	var signed *finSig
	switch f[2] {
	case "nil":
	case "zero":
		cs = &crypto.CosiSignature{Mask: mask}
	default:
		signed = fs.sigs[f[2]]
		if signed == nil {
			panic("harness: unknown signature label " + f[2])
		}
		cs = &crypto.CosiSignature{Signature: signed.sig, Mask: mask}
		switch mut {
		case 1:
			cs.Signature[5] ^= 0x10
		case 2:
			cs.Signature[40] ^= 0x01
		}
	}
	mk := func() *common.Snapshot {
		s := &common.Snapshot{Version: version, RoundNumber: round, Timestamp: ts, Hash: hash}
		if cs != nil {
			c := *cs
			s.Signature = &c
		}
		return s
	}
	var res Result
	out, _, _ := Catch(func() string {
		signers, ok := ms.chain.VerifVerifyFinalization(mk())
		return fmtFin(signers, ok)
	})
	finCache(0).Wait()
	finCache(1).Clear()
	finCache(1).Wait()
	fresh, _, _ := Catch(func() string {
		signers, ok := fs.chain2.VerifVerifyFinalization(mk())
		return fmtFin(signers, ok)
	})
	res.Out = out
	accepted := strings.HasPrefix(out, "ok 1")
	res.Nontrivial = cs != nil && mask != 0
	res.Tags = []string{fmt.Sprintf("fin:accepted=%t", accepted)}

	// oracle table for the model, and the independent soundness check
	cts := finCertTs(f[4], ts)
	var oracle []string
	sound, soundPrimary := false, false
	validBelow := "" // a vector the signature verifies against although the mask is below that vector's threshold
	sameKeys := false // some evaluated key vector selects exactly the set of keys that signed
	hasSig := 0
	var sigN string = "0"
	if cs != nil {
		hasSig = 1
		sigN = hx(cs.Signature[:])
		vectors := []uint64{cts}
		epoch := ms.epoch
		if cts >= epoch {
			hour := (cts - epoch) / memHour % 24
			if hour >= config.KernelNodeAcceptTimeBegin && hour <= config.KernelNodeAcceptTimeEnd {
				vectors = append(vectors, cts-(hour+1-config.KernelNodeAcceptTimeBegin)*memHour)
			}
		}
		seen := map[string]bool{}
		for vi, vts := range vectors {
			_, publics := ms.chain.ConsensusKeys(round, vts)
			idx := maskIdx(mask)
			inRange := len(idx) > 0
			for _, i := range idx {
				if i >= len(publics) {
					inRange = false
				}
			}
			if !inRange {
				continue
			}
			if signed != nil && len(signed.keys) == len(idx) {
				// the aggregate key is a plain sum: a certificate is bound to the SET of keys
				set := map[crypto.Key]bool{}
				for _, k := range signed.keys {
					set[k] = true
				}
				eq := true
				for _, i := range idx {
					if !set[*publics[i]] {
						eq = false
					}
				}
				if eq {
					sameKeys = true
				}
			}
			probe := &crypto.CosiSignature{Signature: cs.Signature, Mask: mask}
			valid := probe.FullVerify(publics, 1, hash) == nil
			var sb strings.Builder
			fmt.Fprintf(&sb, "%d", len(idx))
			for _, i := range idx {
				sb.WriteString(" " + hx(publics[i][:]))
			}
			key := sb.String()
			if !seen[key] {
				seen[key] = true
				v := 0
				if valid {
					v = 1
				}
				oracle = append(oracle, fmt.Sprintf("%s %d", key, v))
			}
			thr := ms.node.ConsensusThreshold(vts, true)
			legacyAllowed := vi == 0 || (ms.mainnet && cts < memForkAt)
			if d := bits.OnesCount64(mask) - thr; d >= -1 && d <= 1 && valid {
				res.Tags = append(res.Tags, fmt.Sprintf("fin:valid-sig:vector%d:bits-thr=%+d", vi, d))
			}
			if valid && bits.OnesCount64(mask) < thr {
				validBelow = fmt.Sprintf("the signature verifies against the %d-key vector of timestamp %d whose threshold is %d, the mask has %d bits", len(publics), vts, thr, bits.OnesCount64(mask))
			}
			if valid && bits.OnesCount64(mask) >= thr && legacyAllowed {
				sound = true
				if vi == 0 {
					soundPrimary = true
				}
			}
		}
	}
	hack := 0
	if f[4] == "hack" {
		hack = 1
	}
	res.LeanIn = fmt.Sprintf("%s | fin %d %d %x %s %s %d %d %d %s", strings.Join(f, " "), version, hasSig, mask, sigN, hx(hash[:]), hack, ts, round,
		strings.Join(oracle, " "))
	res.LeanIn = strings.TrimRight(res.LeanIn, " ")

	altered := signed != nil && (mut != 0 || !signed.honest || !sameKeys || hash != signed.hash)
	switch {
	case out != fresh:
		res.PropKey = "C09:cached-differs-from-fresh"
		res.PropDesc = fmt.Sprintf("verifyFinalization with the case's cache: %.120q, with an empty cache: %.120q", out, fresh)
	case accepted && !sound && validBelow != "":
		res.PropKey = "C09:accepted-below-threshold-of-verified-vector"
		res.PropDesc = fmt.Sprintf("accepted as final: %s (mask %x ts %d round %d)", validBelow, mask, ts, round)
	case accepted && !sound:
		res.PropKey = "C09:final-without-threshold-certificate"
		res.PropDesc = fmt.Sprintf("accepted as final but no key vector at the certificate timestamp has popcount(mask) >= threshold, all bits in range and a valid aggregate signature (mask %x ts %d round %d)", mask, ts, round)
	case accepted && (altered || signed == nil):
		res.PropKey = "C09:altered-certificate-accepted"
		res.PropDesc = fmt.Sprintf("accepted although mask/signature/hash differ from what was signed (mask %x, mut %d)", mask, mut)
	case !accepted && soundPrimary && version == common.SnapshotVersionCommonEncoding && cts >= ms.epoch:
		res.PropKey = "C09:valid-certificate-rejected"
		res.PropDesc = fmt.Sprintf("a threshold certificate that verifies was rejected (mask %x ts %d round %d)", mask, ts, round)
	}
	if accepted {
		res.Tags = append(res.Tags, fmt.Sprintf("fin:signers=%d", bits.OnesCount64(mask)))
	} else if signed != nil && !altered {
		res.Tags = append(res.Tags, "fin:honest-rejected(below threshold or other key set)")
	}
	if altered {
		res.Tags = append(res.Tags, "fin:altered")
	}
	return res
}

// ---------------------------------------------------------------- generator

// finMaskSweep: the certificate `lb` (signed for `mask`) replayed with every single mask bit 0..63
// flipped in turn (full) or with the high and boundary bits flipped, and with groups of high bits set:
// positions outside the key vector included. Every one of them must be rejected.
func finMaskSweep(r *Rand, lb string, mask uint64, hs string, ts, round uint64, n int, full bool) []string {
	var lines []string
	add := func(m uint64) {
		if m != mask {
			lines = append(lines, fmt.Sprintf("fin 2 %s %x %s %d %d 0", lb, m, hs, ts, round))
		}
	}
	if full {
		for b := 0; b < 64; b++ {
			add(mask ^ (1 << uint(b)))
		}
	} else {
		for _, b := range []int{63, 62, 61, 56, 48, 32, n - 1, n, n + 1, r.Intn(64)} {
			if b >= 0 && b < 64 {
				add(mask ^ (1 << uint(b)))
			}
		}
	}
	for _, g := range []uint64{1 << 63, 3 << 62, 0xff << 56, 0xffffffff << 32, ^uint64(0) << uint(n%64), 1<<63 | 1<<uint(n%64)} {
		add(mask | g)
	}
	return lines
}

// finGenThresholdCase: the removal scenario of memGenLegacyScenario; real certificates of exactly
// t-1, t, t+1 signers for the threshold t of each key vector verifyFinalization may use (the vector at
// the snapshot timestamp, and in legacy mode the longer vector of the hour before the window).
func finGenThresholdCase(r *Rand) []string {
	legacy := r.Chance(2, 3)
	sc := memGenLegacyScenario(r, legacy)
	h := sc.h
	lines := []string{"reset", h.initLine(Pick(r, h.genesis)), h.loadLine(r, h.recs), "chain state"}
	type vec struct {
		signTs uint64
		n      int
	}
	vecs := []vec{{sc.snapTs, sc.g - 1}}
	if legacy {
		vecs = append(vecs, vec{sc.lts, sc.g})
	}
	label := 0
	swept := false
	round := uint64(r.Range(1, 2))
	for _, v := range vecs {
		t := v.n*2/3 + 1
		for _, k := range []int{t - 1, t, t + 1} {
			if k < 1 || k > v.n {
				continue
			}
			// a random k-subset of the n positions
			pos := make([]int, v.n)
			for i := range pos {
				pos[i] = i
			}
			for i := len(pos) - 1; i > 0; i-- {
				j := r.Intn(i + 1)
				pos[i], pos[j] = pos[j], pos[i]
			}
			var mask uint64
			for _, b := range pos[:k] {
				mask |= 1 << uint(b)
			}
			label++
			lb := fmt.Sprintf("t%d", label)
			hs := fmt.Sprintf("h%d", r.Intn(1000))
			fin := fmt.Sprintf("fin 2 %s %x %s %d %d 0", lb, mask, hs, sc.snapTs, round)
			lines = append(lines, fmt.Sprintf("sign %s %d %d %x %s", lb, round, v.signTs, mask, hs), fin)
			if r.Chance(1, 3) {
				lines = append(lines, fin)
			}
			if k >= t && !swept {
				swept = true
				lines = append(lines, finMaskSweep(r, lb, mask, hs, sc.snapTs, round, v.n, true)...)
				lines = append(lines, fin)
			}
		}
	}
	return lines
}

func finGen(r *Rand, i int, tier string) []string {
	if i%5 == 4 {
		return finGenThresholdCase(r)
	}
	h := memGenHistory(r, tier)
	if len(h.genesis) > 24 && tier != "thorough" {
		h.genesis = h.genesis[:24]
		var recs []memRec
		for _, rc := range h.recs {
			if rc.key < 24 || rc.key >= len(h.genesis) {
				recs = append(recs, rc)
			}
		}
		h.recs = recs
	}
	self := Pick(r, h.genesis)
	lines := []string{"reset", h.initLine(self), h.loadLine(r, h.recs)}
	times := h.queryTimes(r)
	nchains := 1 + r.Intn(2)
	label := 0
	for c := 0; c < nchains; c++ {
		lines = append(lines, h.chainLine(r, times))
		for q := r.Range(2, 5); q > 0; q-- {
			ts := Pick(r, times)
			round := uint64(r.Intn(3))
			n := len(h.genesis) + 2
			if n > 63 {
				n = 63
			}
			// mask: a random subset around two thirds of the plausible key count, sometimes all,
			// sometimes sparse, sometimes with a bit beyond the vector
			var mask uint64
			switch x := r.Intn(10); {
			case x < 5:
				for b := 0; b < n; b++ {
					if r.Chance(3, 4) {
						mask |= 1 << uint(b)
					}
				}
			case x < 7:
				mask = (uint64(1) << uint(len(h.genesis))) - 1
			case x < 8:
				mask = (uint64(1) << uint(len(h.genesis)*2/3+1)) - 1
			case x < 9:
				mask = (uint64(1) << uint(len(h.genesis)*2/3)) - 1
			default:
				mask = r.U64()
			}
			hs := fmt.Sprintf("h%d", r.Intn(1000))
			if h.mainnet && r.Chance(1, 8) {
				hs = "hack"
			}
			label++
			lb := fmt.Sprintf("s%d", label)
			signTs := ts
			if r.Chance(1, 6) {
				signTs = Pick(r, times) // signed under the key set of another instant
			}
			lines = append(lines, fmt.Sprintf("sign %s %d %d %x %s", lb, round, signTs, mask, hs))
			fin := func(version int, ref string, m uint64, hseed string, t uint64, rd uint64, mut int) string {
				return fmt.Sprintf("fin %d %s %x %s %d %d %d", version, ref, m, hseed, t, rd, mut)
			}
			honest := fin(2, lb, mask, hs, ts, round, 0)
			lines = append(lines, honest)
			if label == 1 && signTs == ts {
				lines = append(lines, finMaskSweep(r, lb, mask, hs, ts, round, len(h.genesis), r.Chance(1, 8))...)
			}
			for k := r.Intn(4); k > 0; k-- {
				switch r.Intn(11) {
				case 9: // altered first on a cold cache, then the honest one, then the altered one again
					bad := fin(2, lb, mask^(1<<uint(r.Intn(n))), hs, ts, round, 0)
					lines = append(lines, "flush", bad, honest, bad)
				case 10: // an altered certificate asked twice (a remembered failure must stay a failure)
					bad := fin(2, lb, mask, hs, ts, round, 1+r.Intn(2))
					lines = append(lines, bad, bad)
				case 0:
					lines = append(lines, honest) // cache hit
				case 1:
					lines = append(lines, fin(2, lb, mask^(1<<uint(r.Intn(n))), hs, ts, round, 0))
				case 2:
					lines = append(lines, fin(2, lb, mask, hs, ts, round, 1+r.Intn(2)))
				case 3:
					lines = append(lines, fin(2, lb, mask, hs+"x", ts, round, 0))
				case 4:
					lines = append(lines, fin(2, lb, mask, hs, Pick(r, times), round, 0))
				case 5:
					lines = append(lines, fin(Pick(r, []int{0, 1, 3}), lb, mask, hs, ts, round, 0))
				case 6:
					lines = append(lines, fin(2, Pick(r, []string{"nil", "zero"}), mask, hs, ts, round, 0))
				case 7:
					lines = append(lines, fin(2, lb, mask, hs, ts, uint64(r.Intn(3)), 0))
				case 8:
					lines = append(lines, "flush", honest)
				}
			}
			if r.Chance(1, 3) {
				lines = append(lines, honest)
			}
		}
	}
	return lines
}

func init() {
	Register(&Subsystem{
		Name: "finality",
		Rule: "case = generated membership history in a real kernel.Node, one or two chains, 2–5 real CoSi certificates (signed by the holders of the masked keys of ConsensusKeys(round, ts) with the repository's crypto) each verified by the real verifyFinalization as signed, repeated (cache hit), after a cache flush, and altered (mask bit flipped, signature bit flipped, other hash, other timestamp/round/version, missing signature; for one certificate per case every single mask bit 0..63 or the high/boundary bits flipped and groups of high bits set); 1 case in 5: a removal inside the node-operation window (mainnet before the fork, mainnet after, other networks) with certificates of exactly t-1, t, t+1 signers for the threshold of the current and of the legacy key vector; non-trivial = a verification of a snapshot that carries a signature and a non-zero mask",
		Gen:  finGen,
		Exec: finExec,
	})
}
