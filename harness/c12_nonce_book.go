package main

// C12, chain level: kernel/cosi.go cosiRetrieveRandom / retainUsedCosiNonce on a bare Chain
// (hook kernel.VerifC12NewNonceChain) against Mixin.Nonce.retrieve. Nonces are named by small
// numbers (their seed), snapshots by numbers.

import (
	"bytes"
	"fmt"
	"strings"

	"github.com/MixinNetwork/mixin/crypto"
	"github.com/MixinNetwork/mixin/kernel"
)

const c12NonceBookRetained = 1024 * 128 // the local constant maximumRetainedNonces of retainUsedCosiNonce

type c12NonceBook struct {
	chain   *kernel.Chain
	chainId crypto.Hash
	names   map[crypto.Key]int // commitment -> name
	handed  map[int]int        // nonce name -> snapshot it was handed out for
}

func c12BookNonce(name int) *crypto.CosiNonce {
	seed := bytes.Repeat([]byte{byte(name), byte(name >> 8), 0x5a, 0xc3}, 16)
	return crypto.CosiCommitNonce(bytes.NewReader(seed))
}

func c12BookSnap(s int) crypto.Hash {
	var h crypto.Hash
	h[0], h[1], h[31] = byte(s), byte(s>>8), 0x77
	return h
}

func c12ExecNonceBook(ns *c12NonceState, t []string, res Result) Result {
	switch t[0] {
	case "book": // book <maxRetained> name*
		var max int
		fmt.Sscan(t[1], &max)
		if max != c12NonceBookRetained {
			panic("harness: book bound must be the constant of retainUsedCosiNonce")
		}
		b := &c12NonceBook{names: map[crypto.Key]int{}, handed: map[int]int{}}
		b.chainId[0], b.chainId[1] = 0xc1, 0x2
		var nodeId crypto.Hash
		nodeId[0] = 0xee
		b.chain = kernel.VerifC12NewNonceChain(b.chainId, nodeId)
		for _, tok := range t[2:] {
			var name int
			fmt.Sscan(tok, &name)
			n := c12BookNonce(name)
			b.chain.CosiRandoms[n.Public()] = n
			b.names[n.Public()] = name
		}
		ns.book = b
		res.Out = "ok"
	case "retrieve": // retrieve <snap> <name>
		b := ns.book
		if b == nil {
			panic("harness: retrieve without book")
		}
		var snap, name int
		fmt.Sscan(t[1], &snap)
		fmt.Sscan(t[2], &name)
		commitment := c12BookNonce(name).Public()
		var got *crypto.CosiNonce
		out, _, _ := Catch(func() string {
			got = b.chain.VerifC12CosiRetrieveRandom(c12BookSnap(snap), b.chainId, &commitment)
			return ""
		})
		if out == "panic" {
			res.Out = "panic"
			res.PropKey, res.PropDesc = "C12:book-panic", "cosiRetrieveRandom panicked"
			return res
		}
		head := "nil"
		if got != nil {
			head = fmt.Sprintf("ok %d", b.names[got.Public()])
			if got.Public() != commitment {
				res.PropKey, res.PropDesc = "C12:nonce-wrong-commitment", "nonce handed out for another commitment"
			}
			n := b.names[got.Public()]
			if prev, ok := b.handed[n]; ok && prev != snap {
				res.PropKey, res.PropDesc = "C12:nonce-rebound", fmt.Sprintf("nonce %d handed out for snapshots %d and %d", n, prev, snap)
			}
			b.handed[n] = snap
			if _, still := b.chain.CosiRandoms[commitment]; still {
				res.PropKey, res.PropDesc = "C12:nonce-still-available", "handed-out nonce is still in CosiRandoms"
			}
			res.Nontrivial = true
		}
		var us []string
		for _, h := range b.chain.VerifC12UsedRandomsOrder() {
			u := b.chain.UsedRandoms[h]
			nm := "?"
			if u != nil {
				nm = fmt.Sprint(b.names[u.Public()])
			}
			us = append(us, fmt.Sprintf("%d:%s", int(h[0])|int(h[1])<<8, nm))
		}
		res.Out = fmt.Sprintf("%s r=%d n=%d u=%s", head, len(b.chain.CosiRandoms), len(b.chain.UsedRandoms), strings.Join(us, " "))
		res.Tags = append(res.Tags, "retrieve:"+strings.Fields(head)[0])
	}
	return res
}

func c12GenNonceBook(r *Rand) []string {
	m := 1 + r.Intn(8)
	var names []string
	for i := 1; i <= m; i++ {
		names = append(names, fmt.Sprint(i))
	}
	lines := []string{fmt.Sprintf("book %d %s", c12NonceBookRetained, strings.Join(names, " "))}
	for j := 4 + r.Intn(12); j > 0; j-- {
		lines = append(lines, fmt.Sprintf("retrieve %d %d", 1+r.Intn(4), r.Intn(m+2)))
	}
	return lines
}
