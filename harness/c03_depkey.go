package main

// C03 — the deposit slot key. `depkey <chain> <tx> <index>`: the real DepositData.UniqueKey
// must equal Sha256(text).ForNetwork(chain) for the text rendered here (the same rendering the
// Lean model proves injective; the two renderings are diffed), and within a case two deposits
// that differ in chain, transaction id or index must never share a unique key.

import (
	"fmt"
	"strconv"
	"strings"

	"github.com/MixinNetwork/mixin/common"
	"github.com/MixinNetwork/mixin/crypto"
)

func execDepkey(st *State, line string) Result {
	if line == "reset" {
		return Result{Out: "ok"}
	}
	f := strings.Fields(line)
	if len(f) != 4 || f[0] != "depkey" {
		return Result{Out: "bad-op"}
	}
	cb, tx := UnHex(f[1]), UnHex(f[2])
	idx, err := strconv.ParseUint(f[3], 10, 64)
	if len(cb) != 32 || err != nil {
		return Result{Out: "bad-op"}
	}
	var chain crypto.Hash
	copy(chain[:], cb)
	d := &common.DepositData{Chain: chain, AssetKey: "k", Transaction: string(tx), Index: idx, Amount: common.NewInteger(1)}
	var key crypto.Hash
	if out, p, _ := Catch(func() string { key = d.UniqueKey(); return "" }); p {
		return Result{Out: out, PropKey: "C03:deposit-key-panic", PropDesc: "UniqueKey panicked"}
	}
	text := f[1] + ":" + string(tx) + ":" + strconv.FormatUint(idx, 10)
	res := Result{Out: "ok " + Hex([]byte(text)), Tags: []string{"depkey"}}
	if crypto.Sha256Hash([]byte(text)).ForNetwork(chain) != key {
		res.PropKey, res.PropDesc = "C03:deposit-key-rendering", "UniqueKey is not Sha256(chain:tx:index).ForNetwork(chain)"
	}
	seen, _ := st.V["depkeys"].(map[crypto.Hash]string)
	if seen == nil {
		seen = map[crypto.Hash]string{}
		st.V["depkeys"] = seen
	}
	id := f[1] + " " + f[2] + " " + f[3]
	if old, ok := seen[key]; ok && old != id {
		res.PropKey, res.PropDesc = "C03:deposit-key-collision", fmt.Sprintf("deposits (%s) and (%s) share one unique key", old, id)
		res.Nontrivial = true
	}
	seen[key] = id
	if strings.ContainsAny(string(tx), ":0123456789") {
		res.Nontrivial = true
		res.Tags = append(res.Tags, "tx-with-colon-or-digit")
	}
	return res
}

func genDepkey(r *Rand, i int, tier string) []string {
	lines := []string{"reset"}
	chains := [][]byte{common.EthereumAssetId[:], common.BitcoinAssetId[:], r.Bytes(32)}
	base := []string{"0xabc", "tx", "a:b", "9", "", ":", "1:1"}
	txs := []string{Pick(r, base)}
	if r.Chance(1, 3) {
		txs[0] = string(r.Bytes(r.Range(0, 12)))
	}
	// neighbours that move digits and colons between the transaction id and the index
	b := txs[0]
	for _, suf := range []string{":1", ":11", "1", ":", "::", ":1:1", ":0"} {
		if r.Chance(2, 3) {
			txs = append(txs, b+suf)
		}
	}
	idxs := []uint64{0, 1, 11, 10, 111, r.U64(), ^uint64(0)}
	n := r.Range(6, 20)
	for k := 0; k < n; k++ {
		lines = append(lines, fmt.Sprintf("depkey %s %s %d", Hex(Pick(r, chains)), Hex([]byte(Pick(r, txs))), Pick(r, idxs)))
	}
	return lines
}

func init() {
	Register(&Subsystem{
		Name: "depkey",
		Rule: "a case = 6-20 deposits over 3 chains, a transaction id and its neighbours obtained by appending ':' and digits, indices 0/1/10/11/111/random/max; non-trivial = the id contains ':' or a digit, or two deposits collided",
		Gen:  genDepkey,
		Exec: execDepkey,
		Corpus: [][]string{{"reset",
			"depkey " + Hex(common.EthereumAssetId[:]) + " " + Hex([]byte("0xabc:1")) + " 1",
			"depkey " + Hex(common.EthereumAssetId[:]) + " " + Hex([]byte("0xabc")) + " 11",
			"depkey " + Hex(common.EthereumAssetId[:]) + " " + Hex([]byte("0xabc:1:1")) + " 0",
			"depkey " + Hex(common.BitcoinAssetId[:]) + " " + Hex([]byte("0xabc")) + " 11",
			"depkey " + Hex(common.BitcoinAssetId[:]) + " - 18446744073709551615",
		}},
	})
}
