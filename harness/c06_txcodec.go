package main

// C06 — transaction codec: real common.Encoder / common.Decoder / UnmarshalVersionedTransaction /
// Marshal / PayloadMarshal / PayloadHash against lean/Mixin/Model/TxCodec.lean.
//
// A transaction travels between the two sides as a flat token list (the "spec", documented
// in lean/Mixin/Driver/TxCodec.lean). It is never produced by the codec under test.
//
//   enc <spec>  build the SignedTransaction (repository constructors where the shape
//               allows, struct fields otherwise), observe Encoder.EncodeTransaction,
//               VersionedTransaction.Marshal and PayloadMarshal
//   dec <hex>   observe Decoder.DecodeTransaction (field dump) and UnmarshalVersionedTransaction
//   big <n> <b> one-input transaction with an n-byte extra (size gate / extra limit)
//   alias <when> <how> <layout> <hex>
//               buffer-ownership sequence: decode from a buffer the caller keeps (exact slice,
//               slice with spare capacity, or a window in the middle of a larger frame), overwrite
//               the buffer (<how>) either before any accessor is called or after a first
//               PayloadHash / PayloadMarshal / Marshal (<when>), then observe PayloadMarshal,
//               PayloadHash, Marshal, the field dump, and Marshal again after the returned slice
//               was overwritten too. The model is pure, so it answers with the values of the
//               original bytes.
//
// Property mode (independent of the model):
//   C06:remarshal          an accepted byte string does not re-marshal to itself
//   C06:roundtrip          unmarshal(marshal(tx)) is not field-equal to tx / other PayloadHash
//   C06:hash-preimage      PayloadHash != blake3(PayloadMarshal)
//   C06:hash-auth          PayloadHash changes when only the signatures change
//   C06:hash-insensitive   PayloadHash/PayloadMarshal unchanged after a payload field changed
//   C06:encode-undecodable the encoder's own output of an in-limits transaction is rejected
//   C06:hash-aliases-buffer  PayloadMarshal/PayloadHash of a decoded transaction follow the caller's
//                            input buffer (or a previously returned slice) instead of the content
//   C06:marshal-aliases-buffer  same for Marshal
//   C06:fields-alias-buffer  decoded fields change when the input buffer is overwritten
//   C06:marshal-returns-alias  overwriting the slice returned by Marshal changes a later Marshal /
//                            PayloadMarshal / PayloadHash, or encoded bytes follow the field slices
//   C06:hash-stale-cache     a fresh AsVersioned() of a SignedTransaction whose payload fields were
//                            reassigned still answers with the old hash
//
// Ownership rules the checks assume (read off the code and its callers):
//   * the argument of UnmarshalVersionedTransaction belongs to the caller (p2p passes windows of
//     network frames, storage passes badger values): nothing may be retained;
//   * Marshal() returns a fresh slice owned by the caller;
//   * PayloadMarshal() returns the object's own cache (ver.pmbytes); every caller in the repository
//     only reads it, so writing into it is outside the API and is not exercised;
//   * pmbytes/hash memoise per VersionedTransaction object: changing payload fields of the same
//     object after the first PayloadHash is not defined by the code (the repository always builds
//     the Transaction completely and then calls AsVersioned(), which starts with empty caches);
//     what is exercised instead is that a *new* AsVersioned() sees the new content, and that
//     attaching signatures after hashing (what SignInput/AggregateSign do) keeps hash and payload.

import (
	"bytes"
	"fmt"
	"math/big"
	"sort"
	"strconv"
	"strings"

	"github.com/MixinNetwork/mixin/common"
	"github.com/MixinNetwork/mixin/crypto"
)

// ---------------------------------------------------------------- harness-side value

type tDeposit struct {
	Chain, AssetKey, Transaction []byte
	Index                        uint64
	Amount                       *big.Int
}
type tMint struct {
	Group  []byte
	Batch  uint64
	Amount *big.Int
}
type tInput struct {
	Hash    []byte
	Index   uint64
	Genesis []byte
	Deposit *tDeposit
	Mint    *tMint
}
type tWithdrawal struct{ Address, Tag []byte }
type tOutput struct {
	Type       uint8
	Amount     *big.Int
	Keys       [][]byte
	Mask       []byte
	Script     []byte
	Withdrawal *tWithdrawal
}
type tEntry struct {
	Index uint16
	Sig   []byte
}
type tAgg struct {
	Sig     []byte
	Signers []int
}
type tTx struct {
	Version uint8
	Asset   []byte
	Inputs  []*tInput
	Outputs []*tOutput
	Refs    [][]byte
	Extra   []byte
	Agg     *tAgg
	Sigs    [][]tEntry // each sorted by index, distinct
}

func (t *tTx) spec() string {
	var w []string
	p := func(s ...string) { w = append(w, s...) }
	u := func(x uint64) string { return strconv.FormatUint(x, 10) }
	p(u(uint64(t.Version)), Hex(t.Asset), u(uint64(len(t.Inputs))))
	for _, in := range t.Inputs {
		p(Hex(in.Hash), u(in.Index), Hex(in.Genesis))
		if d := in.Deposit; d != nil {
			p("D", Hex(d.Chain), Hex(d.AssetKey), Hex(d.Transaction), u(d.Index), d.Amount.String())
		} else {
			p("-")
		}
		if m := in.Mint; m != nil {
			p("M", Hex(m.Group), u(m.Batch), m.Amount.String())
		} else {
			p("-")
		}
	}
	p(u(uint64(len(t.Outputs))))
	for _, o := range t.Outputs {
		p(u(uint64(o.Type)), o.Amount.String(), u(uint64(len(o.Keys))))
		for _, k := range o.Keys {
			p(Hex(k))
		}
		p(Hex(o.Mask), Hex(o.Script))
		if x := o.Withdrawal; x != nil {
			p("W", Hex(x.Address), Hex(x.Tag))
		} else {
			p("-")
		}
	}
	p(u(uint64(len(t.Refs))))
	for _, r := range t.Refs {
		p(Hex(r))
	}
	p(Hex(t.Extra))
	if a := t.Agg; a != nil {
		p("A", Hex(a.Sig), u(uint64(len(a.Signers))))
		for _, s := range a.Signers {
			p(strconv.Itoa(s))
		}
	} else {
		p("-")
	}
	p(u(uint64(len(t.Sigs))))
	for _, m := range t.Sigs {
		p(u(uint64(len(m))))
		for _, e := range m {
			p(u(uint64(e.Index)), Hex(e.Sig))
		}
	}
	return strings.Join(w, " ")
}

type cursor struct {
	t []string
	i int
}

func (c *cursor) tok() string {
	if c.i >= len(c.t) {
		panic("harness: spec too short")
	}
	c.i++
	return c.t[c.i-1]
}
func (c *cursor) u64() uint64 {
	v, err := strconv.ParseUint(c.tok(), 10, 64)
	if err != nil {
		panic("harness: bad number in spec")
	}
	return v
}
func (c *cursor) big() *big.Int { return parseBig(c.tok()) }
func (c *cursor) hex() []byte   { return UnHex(c.tok()) }

func parseSpec(toks []string) *tTx {
	c := &cursor{t: toks}
	t := &tTx{Version: uint8(c.u64()), Asset: c.hex()}
	for n := c.u64(); n > 0; n-- {
		in := &tInput{Hash: c.hex(), Index: c.u64(), Genesis: c.hex()}
		if c.tok() == "D" {
			in.Deposit = &tDeposit{Chain: c.hex(), AssetKey: c.hex(), Transaction: c.hex(), Index: c.u64(), Amount: c.big()}
		}
		if c.tok() == "M" {
			in.Mint = &tMint{Group: c.hex(), Batch: c.u64(), Amount: c.big()}
		}
		t.Inputs = append(t.Inputs, in)
	}
	for n := c.u64(); n > 0; n-- {
		o := &tOutput{Type: uint8(c.u64()), Amount: c.big()}
		for k := c.u64(); k > 0; k-- {
			o.Keys = append(o.Keys, c.hex())
		}
		o.Mask, o.Script = c.hex(), c.hex()
		if c.tok() == "W" {
			o.Withdrawal = &tWithdrawal{Address: c.hex(), Tag: c.hex()}
		}
		t.Outputs = append(t.Outputs, o)
	}
	for n := c.u64(); n > 0; n-- {
		t.Refs = append(t.Refs, c.hex())
	}
	t.Extra = c.hex()
	if c.tok() == "A" {
		a := &tAgg{Sig: c.hex()}
		for n := c.u64(); n > 0; n-- {
			a.Signers = append(a.Signers, int(c.u64()))
		}
		t.Agg = a
	}
	for n := c.u64(); n > 0; n-- {
		m := []tEntry{}
		for k := c.u64(); k > 0; k-- {
			m = append(m, tEntry{Index: uint16(c.u64()), Sig: c.hex()})
		}
		t.Sigs = append(t.Sigs, m)
	}
	if c.i != len(toks) {
		panic("harness: trailing tokens in spec")
	}
	return t
}

func h32(b []byte) (h crypto.Hash) {
	if len(b) != 32 {
		panic("harness: hash length")
	}
	copy(h[:], b)
	return
}
func k32(b []byte) (k crypto.Key) {
	if len(b) != 32 {
		panic("harness: key length")
	}
	copy(k[:], b)
	return
}
func s64(b []byte) (s crypto.Signature) {
	if len(b) != 64 {
		panic("harness: signature length")
	}
	copy(s[:], b)
	return
}

// toGo builds the repository value. Constructors are used wherever the shape permits.
func (t *tTx) toGo() *common.SignedTransaction {
	var tx *common.Transaction
	if t.Version == common.TxVersionHashSignature {
		tx = common.NewTransactionV5(h32(t.Asset))
	} else {
		tx = &common.Transaction{Version: t.Version, Asset: h32(t.Asset)}
	}
	for _, in := range t.Inputs {
		plain := len(in.Genesis) == 0 && in.Deposit == nil && in.Mint == nil
		switch {
		case plain && len(tx.Inputs) < common.SliceCountLimit:
			tx.AddInput(h32(in.Hash), uint(in.Index))
		default:
			gi := &common.Input{Hash: h32(in.Hash), Index: uint(in.Index)}
			if len(in.Genesis) > 0 {
				gi.Genesis = in.Genesis
			}
			if d := in.Deposit; d != nil {
				gi.Deposit = &common.DepositData{Chain: h32(d.Chain), AssetKey: string(d.AssetKey),
					Transaction: string(d.Transaction), Index: d.Index, Amount: c06Integer(d.Amount)}
			}
			if m := in.Mint; m != nil {
				gi.Mint = &common.MintData{Group: string(m.Group), Batch: m.Batch, Amount: c06Integer(m.Amount)}
			}
			tx.Inputs = append(tx.Inputs, gi)
		}
	}
	for _, o := range t.Outputs {
		g := &common.Output{Type: o.Type, Amount: c06Integer(o.Amount), Mask: k32(o.Mask), Keys: make([]*crypto.Key, 0)}
		if len(o.Script) > 0 {
			g.Script = common.Script(o.Script)
		}
		for _, k := range o.Keys {
			kk := k32(k)
			g.Keys = append(g.Keys, &kk)
		}
		if w := o.Withdrawal; w != nil {
			g.Withdrawal = &common.WithdrawalData{Address: string(w.Address), Tag: string(w.Tag)}
		}
		tx.Outputs = append(tx.Outputs, g)
	}
	for _, r := range t.Refs {
		tx.References = append(tx.References, h32(r))
	}
	if len(t.Extra) > 0 {
		tx.Extra = t.Extra
	}
	signed := &common.SignedTransaction{Transaction: *tx}
	if a := t.Agg; a != nil {
		signed.AggregatedSignature = &common.AggregatedSignature{Signers: a.Signers, Signature: s64(a.Sig)}
	}
	for _, m := range t.Sigs {
		gm := make(map[uint16]*crypto.Signature, len(m))
		for _, e := range m {
			s := s64(e.Sig)
			gm[e.Index] = &s
		}
		signed.SignaturesMap = append(signed.SignaturesMap, gm)
	}
	return signed
}

// c06Integer builds a common.Integer from any non-negative big.Int. Values that need more
// than 65535 bytes cannot pass through the length-prefixed decoder trick of integerFromBig
// (the two-byte length wraps); they go through the decimal parser (value = units of 10^-8).
func c06Integer(n *big.Int) common.Integer {
	if len(n.Bytes()) <= 65535 {
		return integerFromBig(n)
	}
	q, r := new(big.Int).QuoRem(n, pow10_8, new(big.Int))
	return common.NewIntegerFromString(fmt.Sprintf("%s.%08d", q.String(), r.Int64()))
}

func cp(b []byte) []byte { return append([]byte{}, b...) }

func fromGo(s *common.SignedTransaction) *tTx {
	t := &tTx{Version: s.Version, Asset: cp(s.Asset[:]), Extra: cp(s.Extra)}
	for _, in := range s.Inputs {
		ti := &tInput{Hash: cp(in.Hash[:]), Index: uint64(in.Index), Genesis: cp(in.Genesis)}
		if d := in.Deposit; d != nil {
			ti.Deposit = &tDeposit{Chain: cp(d.Chain[:]), AssetKey: []byte(d.AssetKey), Transaction: []byte(d.Transaction),
				Index: d.Index, Amount: integerToBig(d.Amount)}
		}
		if m := in.Mint; m != nil {
			ti.Mint = &tMint{Group: []byte(m.Group), Batch: m.Batch, Amount: integerToBig(m.Amount)}
		}
		t.Inputs = append(t.Inputs, ti)
	}
	for _, o := range s.Outputs {
		to := &tOutput{Type: o.Type, Amount: integerToBig(o.Amount), Mask: cp(o.Mask[:]), Script: cp(o.Script)}
		for _, k := range o.Keys {
			to.Keys = append(to.Keys, cp(k[:]))
		}
		if w := o.Withdrawal; w != nil {
			to.Withdrawal = &tWithdrawal{Address: []byte(w.Address), Tag: []byte(w.Tag)}
		}
		t.Outputs = append(t.Outputs, to)
	}
	for _, r := range s.References {
		t.Refs = append(t.Refs, cp(r[:]))
	}
	if a := s.AggregatedSignature; a != nil {
		t.Agg = &tAgg{Sig: cp(a.Signature[:]), Signers: append([]int{}, a.Signers...)}
	}
	for _, gm := range s.SignaturesMap {
		m := []tEntry{}
		for i, sig := range gm {
			m = append(m, tEntry{Index: i, Sig: cp(sig[:])})
		}
		sort.Slice(m, func(a, b int) bool { return m[a].Index < m[b].Index })
		t.Sigs = append(t.Sigs, m)
	}
	return t
}

// ---------------------------------------------------------------- loose encoder (non-canonical stream)

type knobs struct {
	padInt       int  // leading zero bytes in front of every Integer
	unsortSigs   bool // write signature entries in decreasing index order
	dupSig       bool // repeat the first entry of each signature map (count adjusted)
	forceSparse  bool
	forceOrd     bool
	maskTrail    int // extra zero bytes at the end of an ordinary mask
	sigCountBump int // announce this many more signature maps than written
	trailing     []byte
	badMagic     bool // 0x7776 instead of 0x7777 in the first optional field met
	outType0     byte // first byte of the output type
}

type lw struct{ b []byte }

func (w *lw) raw(b []byte) { w.b = append(w.b, b...) }
func (w *lw) u16(v int)    { w.b = append(w.b, byte(v>>8), byte(v)) }
func (w *lw) u32(v int)    { w.b = append(w.b, byte(v>>24), byte(v>>16), byte(v>>8), byte(v)) }
func (w *lw) u64(v uint64) {
	for i := 7; i >= 0; i-- {
		w.b = append(w.b, byte(v>>(8*uint(i))))
	}
}
func (w *lw) bytes(b []byte) { w.u16(len(b)); w.raw(b) }
func (w *lw) integer(v *big.Int, pad int) {
	b := v.Bytes()
	w.u16(len(b) + pad)
	w.raw(make([]byte, pad))
	w.raw(b)
}

func (t *tTx) loose(k knobs) []byte {
	w := &lw{}
	mg := func() {
		if k.badMagic {
			w.raw([]byte{0x77, 0x76})
			k.badMagic = false
		} else {
			w.raw([]byte{0x77, 0x77})
		}
	}
	w.raw([]byte{0x77, 0x77, 0, t.Version})
	w.raw(t.Asset)
	w.u16(len(t.Inputs))
	for _, in := range t.Inputs {
		w.raw(in.Hash)
		w.u16(int(in.Index))
		w.bytes(in.Genesis)
		if d := in.Deposit; d != nil {
			mg()
			w.raw(d.Chain)
			w.bytes(d.AssetKey)
			w.bytes(d.Transaction)
			w.u64(d.Index)
			w.integer(d.Amount, k.padInt)
		} else {
			w.raw([]byte{0, 0})
		}
		if m := in.Mint; m != nil {
			mg()
			w.bytes(m.Group)
			w.u64(m.Batch)
			w.integer(m.Amount, k.padInt)
		} else {
			w.raw([]byte{0, 0})
		}
	}
	w.u16(len(t.Outputs))
	for _, o := range t.Outputs {
		w.raw([]byte{k.outType0, o.Type})
		w.integer(o.Amount, k.padInt)
		w.u16(len(o.Keys))
		for _, kk := range o.Keys {
			w.raw(kk)
		}
		w.raw(o.Mask)
		w.bytes(o.Script)
		if x := o.Withdrawal; x != nil {
			mg()
			w.bytes(x.Address)
			w.bytes(x.Tag)
		} else {
			w.raw([]byte{0, 0})
		}
	}
	w.u16(len(t.Refs))
	for _, r := range t.Refs {
		w.raw(r)
	}
	w.u32(len(t.Extra))
	w.raw(t.Extra)
	if a := t.Agg; a != nil {
		w.u16(0xffff)
		w.u16(0xff01)
		w.raw(a.Sig)
		max := 0
		if len(a.Signers) > 0 {
			max = a.Signers[len(a.Signers)-1]
		}
		sparse := len(a.Signers) > 0 && max/8+1 > len(a.Signers)*2
		if k.forceSparse {
			sparse = true
		}
		if k.forceOrd {
			sparse = false
		}
		if sparse {
			w.raw([]byte{1})
			w.u16(len(a.Signers))
			for _, s := range a.Signers {
				w.u16(s)
			}
		} else {
			w.raw([]byte{0})
			var masks []byte
			if len(a.Signers) > 0 {
				masks = make([]byte, max/8+1)
				for _, s := range a.Signers {
					masks[s/8] |= 1 << (uint(s) % 8)
				}
			}
			masks = append(masks, make([]byte, k.maskTrail)...)
			w.bytes(masks)
		}
	} else {
		w.u16(len(t.Sigs) + k.sigCountBump)
		for _, m := range t.Sigs {
			es := append([]tEntry{}, m...)
			if k.unsortSigs {
				for i, j := 0, len(es)-1; i < j; i, j = i+1, j-1 {
					es[i], es[j] = es[j], es[i]
				}
			}
			if k.dupSig && len(es) > 0 {
				es = append(es, es[0])
			}
			w.u16(len(es))
			for _, e := range es {
				w.u16(int(e.Index))
				w.raw(e.Sig)
			}
		}
	}
	w.raw(k.trailing)
	return w.b
}

// ---------------------------------------------------------------- generators

func genBig(r *Rand) *big.Int {
	switch r.Intn(8) {
	case 0:
		return big.NewInt(0)
	case 1:
		return big.NewInt(int64(r.Intn(300)))
	case 2:
		k := uint(8 * r.Range(1, 12))
		n := new(big.Int).Lsh(big.NewInt(1), k)
		return n.Add(n, big.NewInt(int64(r.Range(-1, 1))))
	case 3:
		return new(big.Int).SetBytes(r.Bytes(r.Range(1, 40)))
	default:
		return new(big.Int).SetUint64(r.U64() >> uint(r.Intn(64)))
	}
}

func genShort(r *Rand, max int) []byte {
	if r.Chance(1, 3) {
		return nil
	}
	return r.Bytes(r.Range(1, max))
}

func genSigners(r *Rand) []int {
	var s []int
	switch r.Intn(7) {
	case 0:
		return nil
	case 1: // dense prefix
		n := r.Range(1, 40)
		for i := 0; i < n; i++ {
			if r.Chance(4, 5) {
				s = append(s, i)
			}
		}
	case 2: // few signers far apart (sparse)
		n := r.Range(1, 5)
		x := 0
		for i := 0; i < n; i++ {
			x += r.Range(1, 3000)
			s = append(s, x)
		}
	case 3: // around the sparse/ordinary boundary: max/8+1 vs 2*len
		n := r.Range(1, 6)
		max := (2*n-1)*8 + r.Range(-9, 9)
		if max < n-1 {
			max = n - 1
		}
		for i := 0; i < n-1; i++ {
			s = append(s, i)
		}
		s = append(s, max)
	case 4: // top of the range
		s = []int{r.Range(0, 7), 65535 - r.Intn(9)}
		if s[1] == 65535 && r.Bool() {
			s = []int{65535}
		}
	case 5: // one byte, random bits
		b := r.Intn(256)
		for j := 0; j < 8; j++ {
			if b&(1<<uint(j)) != 0 {
				s = append(s, j)
			}
		}
	default:
		n := r.Range(1, 12)
		x := -1
		for i := 0; i < n; i++ {
			x += r.Range(1, 20)
			s = append(s, x)
		}
	}
	return s
}

func genSigMap(r *Rand, n int) []tEntry {
	seen := map[uint16]bool{}
	m := []tEntry{}
	for len(m) < n {
		var i uint16
		switch r.Intn(4) {
		case 0:
			i = uint16(r.Intn(4))
		case 1:
			i = uint16(65535 - r.Intn(3))
		default:
			i = uint16(r.Intn(300))
		}
		if seen[i] {
			continue
		}
		seen[i] = true
		m = append(m, tEntry{Index: i, Sig: r.Bytes(64)})
	}
	sort.Slice(m, func(a, b int) bool { return m[a].Index < m[b].Index })
	return m
}

var genAddrs []common.Address

func genOutput(r *Rand, pos int) *tOutput {
	o := &tOutput{Type: Pick(r, []uint8{0, 0, 0, 0xa1, 0xa3, 0xa4, 0xa6, 0xa9, 0xaa, 0xb1, 0xb2, uint8(r.Intn(256))}),
		Amount: genBig(r), Mask: r.Bytes(32), Script: genShort(r, 6)}
	if r.Chance(1, 3) {
		// the repository's own constructor: real ghost keys for real addresses
		if genAddrs == nil {
			for i := 0; i < 4; i++ {
				seed := bytes.Repeat([]byte{byte(i + 1)}, 64)
				genAddrs = append(genAddrs, common.NewAddressFromSeed(seed))
			}
		}
		n := r.Range(1, 3)
		var acc []*common.Address
		for i := 0; i < n; i++ {
			acc = append(acc, &genAddrs[r.Intn(len(genAddrs))])
		}
		tx := common.NewTransactionV5(crypto.Hash{})
		for i := 0; i < pos%3; i++ {
			tx.Outputs = append(tx.Outputs, &common.Output{})
		}
		tx.AddOutputWithType(o.Type, acc, common.NewThresholdScript(uint8(r.Range(1, n))), c06Integer(o.Amount), r.Bytes(64))
		g := tx.Outputs[len(tx.Outputs)-1]
		o.Mask, o.Script = cp(g.Mask[:]), cp(g.Script)
		for _, k := range g.Keys {
			o.Keys = append(o.Keys, cp(k[:]))
		}
	} else {
		n := Pick(r, []int{0, 0, 1, 1, 2, 3, 5})
		for i := 0; i < n; i++ {
			o.Keys = append(o.Keys, r.Bytes(32))
		}
	}
	if r.Chance(1, 5) {
		o.Withdrawal = &tWithdrawal{Address: genShort(r, 40), Tag: genShort(r, 10)}
	}
	return o
}

func genInput(r *Rand) *tInput {
	in := &tInput{Hash: r.Bytes(32), Index: uint64(Pick(r, []int{0, 0, 1, 2, 255, 256, 1023, 1024, r.Intn(1025)}))}
	switch r.Intn(8) {
	case 0:
		in.Genesis = genShort(r, 40)
	case 1:
		in.Hash = make([]byte, 32)
		in.Index = 0
		in.Deposit = &tDeposit{Chain: r.Bytes(32), AssetKey: genShort(r, 42), Transaction: genShort(r, 64),
			Index: r.U64() >> uint(r.Intn(64)), Amount: genBig(r)}
	case 2:
		in.Hash = make([]byte, 32)
		in.Index = 0
		in.Mint = &tMint{Group: Pick(r, [][]byte{[]byte("UNIVERSAL"), []byte("KERNELNODE"), nil, r.Bytes(3)}),
			Batch: r.U64() >> uint(r.Intn(64)), Amount: genBig(r)}
	case 3:
		if r.Chance(1, 4) { // everything at once (the codec allows it)
			in.Genesis = genShort(r, 8)
			in.Deposit = &tDeposit{Chain: r.Bytes(32), AssetKey: genShort(r, 5), Transaction: genShort(r, 5), Index: r.U64(), Amount: genBig(r)}
			in.Mint = &tMint{Group: genShort(r, 9), Batch: r.U64(), Amount: genBig(r)}
		}
	}
	return in
}

// structurally valid transaction (every limit respected)
func genValidTx(r *Rand, tier string) *tTx {
	t := &tTx{Version: common.TxVersionHashSignature, Asset: r.Bytes(32)}
	nin := Pick(r, []int{0, 1, 1, 1, 2, 3, 5})
	nout := Pick(r, []int{0, 1, 1, 2, 2, 3, 6})
	for i := 0; i < nin; i++ {
		t.Inputs = append(t.Inputs, genInput(r))
	}
	for i := 0; i < nout; i++ {
		t.Outputs = append(t.Outputs, genOutput(r, i))
	}
	for n := Pick(r, []int{0, 0, 0, 1, 2, 4}); n > 0; n-- {
		t.Refs = append(t.Refs, r.Bytes(32))
	}
	switch r.Intn(10) {
	case 0, 1, 2:
	case 3:
		t.Extra = r.Bytes(Pick(r, []int{255, 256, 257}))
	case 4:
		if r.Chance(1, 8) {
			t.Extra = bytes.Repeat([]byte{byte(r.Intn(256))}, Pick(r, []int{65535, 65536, 65537}))
		}
	default:
		t.Extra = r.Bytes(r.Range(1, 64))
	}
	switch r.Intn(5) {
	case 0:
	case 1, 2:
		t.Agg = &tAgg{Sig: r.Bytes(64), Signers: genSigners(r)}
	default:
		for n := r.Range(1, 3); n > 0; n-- {
			t.Sigs = append(t.Sigs, genSigMap(r, Pick(r, []int{0, 1, 1, 2, 3, 5})))
		}
	}
	return t
}

// push one dimension to (or just past) the encoder's / decoder's limit
func genBoundaryTx(r *Rand, tier string) *tTx {
	t := genValidTx(r, tier)
	switch r.Intn(14) {
	case 0:
		t.Version = Pick(r, []uint8{0, 4, 6, 255})
	case 1:
		if len(t.Inputs) == 0 {
			t.Inputs = append(t.Inputs, genInput(r))
		}
		t.Inputs[0].Index = uint64(Pick(r, []int{1024, 1025, 65535, 65536, 70000}))
	case 2:
		n := Pick(r, []int{255, 256, 257})
		t.Inputs = nil
		for i := 0; i < n; i++ {
			t.Inputs = append(t.Inputs, &tInput{Hash: r.Bytes(32), Index: uint64(i)})
		}
	case 3:
		n := Pick(r, []int{255, 256, 257})
		t.Outputs = nil
		for i := 0; i < n; i++ {
			t.Outputs = append(t.Outputs, &tOutput{Amount: big.NewInt(int64(i)), Mask: r.Bytes(32)})
		}
	case 4:
		n := Pick(r, []int{255, 256, 257, 300})
		t.Refs = nil
		for i := 0; i < n; i++ {
			t.Refs = append(t.Refs, r.Bytes(32))
		}
	case 5:
		o := genOutput(r, 0)
		o.Keys = nil
		for n := Pick(r, []int{255, 256, 257}); n > 0; n-- {
			o.Keys = append(o.Keys, r.Bytes(32))
		}
		t.Outputs = append(t.Outputs, o)
	case 6: // both kinds of authorization data present: the encoder writes the aggregate only
		t.Agg = &tAgg{Sig: r.Bytes(64), Signers: genSigners(r)}
		t.Sigs = [][]tEntry{genSigMap(r, 2)}
	case 7:
		t.Agg = nil
		t.Sigs = nil
		for n := Pick(r, []int{255, 256, 257}); n > 0; n-- {
			t.Sigs = append(t.Sigs, genSigMap(r, r.Intn(2)))
		}
	case 8: // invalid signer lists (encoder panics)
		t.Sigs = nil
		t.Agg = &tAgg{Sig: r.Bytes(64), Signers: Pick(r, [][]int{{1, 1}, {2, 1}, {0, 65536}, {65536}, {5, 3, 9}, {0, 0}})}
	case 9:
		o := genOutput(r, 0)
		o.Script = r.Bytes(Pick(r, []int{255, 256, 1000}))
		t.Outputs = append(t.Outputs, o)
	case 10:
		in := genInput(r)
		in.Genesis = r.Bytes(Pick(r, []int{64, 65535}))
		if r.Chance(1, 3) {
			in.Genesis = r.Bytes(65536)
		}
		t.Inputs = append(t.Inputs, in)
	case 11:
		if tier == "thorough" && r.Chance(1, 40) {
			n := Pick(r, []int{65535, 65536})
			v := new(big.Int).Lsh(big.NewInt(1), uint(8*n-1))
			t.Outputs = append(t.Outputs, &tOutput{Amount: v, Mask: r.Bytes(32)})
		}
	case 12:
		o := genOutput(r, 0)
		o.Withdrawal = &tWithdrawal{Address: r.Bytes(Pick(r, []int{1, 65535, 65536})), Tag: genShort(r, 3)}
		t.Outputs = append(t.Outputs, o)
	case 13:
		t.Agg = nil
		t.Sigs = [][]tEntry{genSigMap(r, Pick(r, []int{10, 40}))}
	}
	return t
}

func encodeOrNil(t *tTx) []byte {
	var b []byte
	Catch(func() string {
		b = common.NewEncoder().EncodeTransaction(t.toGo())
		return ""
	})
	return b
}

func genBytesCase(r *Rand, tier string) []byte {
	t := genValidTx(r, tier)
	if len(t.Extra) > 300 {
		t.Extra = t.Extra[:r.Range(0, 300)]
	}
	b := encodeOrNil(t)
	if b == nil {
		return []byte{0x77, 0x77, 0, 5}
	}
	switch r.Intn(12) {
	case 0: // untouched valid encoding
	case 1, 2: // truncation
		b = b[:r.Intn(len(b)+1)]
	case 3, 4, 5: // single byte replaced
		i := r.Intn(len(b))
		b[i] = byte(r.U64())
	case 6: // single bit
		i := r.Intn(len(b))
		b[i] ^= 1 << uint(r.Intn(8))
	case 7: // ±1 on a byte (length fields, counts)
		i := r.Intn(len(b))
		if r.Bool() {
			b[i]++
		} else {
			b[i]--
		}
	case 8: // trailing bytes
		b = append(b, r.Bytes(r.Range(1, 3))...)
	case 9: // byte inserted / deleted
		i := r.Intn(len(b))
		if r.Bool() {
			b = append(b[:i], append([]byte{byte(r.U64())}, b[i:]...)...)
		} else {
			b = append(b[:i], b[i+1:]...)
		}
	case 10: // mutate in the tail (authorization data)
		i := len(b) - 1 - r.Intn(min(len(b), 80))
		b[i] = Pick(r, []byte{0, 1, 2, 0xff, byte(r.U64())})
	default: // arbitrary bytes behind a valid header
		n := r.Range(0, 120)
		b = append([]byte{0x77, 0x77, 0, Pick(r, []byte{5, 5, 5, 4, 6})}, r.Bytes(n)...)
		if r.Chance(1, 3) {
			for i := 4; i < len(b); i++ {
				if r.Chance(3, 4) {
					b[i] = 0
				}
			}
		}
	}
	return b
}

func genNonCanonical(r *Rand, tier string) []byte {
	t := genValidTx(r, tier)
	if len(t.Extra) > 300 {
		t.Extra = t.Extra[:r.Range(0, 300)]
	}
	var k knobs
	switch r.Intn(12) {
	case 0: // leading zeros in amounts
		if len(t.Outputs) == 0 {
			t.Outputs = append(t.Outputs, genOutput(r, 0))
		}
		k.padInt = r.Range(1, 3)
	case 1:
		t.Agg = nil
		t.Sigs = [][]tEntry{genSigMap(r, r.Range(2, 4))}
		k.unsortSigs = true
	case 2:
		t.Agg = nil
		t.Sigs = [][]tEntry{genSigMap(r, r.Range(1, 3))}
		k.dupSig = true
	case 3:
		t.Sigs = nil
		t.Agg = &tAgg{Sig: r.Bytes(64), Signers: genSigners(r)}
		k.forceSparse = true
	case 4:
		t.Sigs = nil
		t.Agg = &tAgg{Sig: r.Bytes(64), Signers: genSigners(r)}
		k.forceOrd = true
	case 5:
		t.Sigs = nil
		t.Agg = &tAgg{Sig: r.Bytes(64), Signers: genSigners(r)}
		k.forceOrd = true
		k.maskTrail = r.Range(1, 3)
	case 6: // more signature maps announced than the decoder will read
		t.Agg = nil
		t.Sigs = nil
		for i := 0; i < 256; i++ {
			t.Sigs = append(t.Sigs, genSigMap(r, 0))
		}
		k.sigCountBump = Pick(r, []int{1, 2, 100, 65534 - 256})
	case 7: // fewer maps than announced
		t.Agg = nil
		t.Sigs = [][]tEntry{genSigMap(r, 1)}
		k.sigCountBump = r.Range(1, 2)
	case 8:
		k.trailing = Pick(r, [][]byte{{0}, {0, 0}, {1}})
	case 9:
		k.badMagic = true
	case 10:
		if len(t.Outputs) == 0 {
			t.Outputs = append(t.Outputs, genOutput(r, 0))
		}
		k.outType0 = byte(r.Range(1, 255))
	case 11: // signer beyond 65535 reachable only through an ordinary mask
		t.Sigs = nil
		t.Agg = &tAgg{Sig: r.Bytes(64), Signers: []int{3, 65536 + r.Intn(64)}}
		k.forceOrd = true
	}
	return t.loose(k)
}

// ---------------------------------------------------------------- executor

func lineHash(line string) *Rand {
	h := crypto.Blake3Hash([]byte(line))
	var s uint64
	for i := 0; i < 8; i++ {
		s = s<<8 | uint64(h[i])
	}
	return NewRand(s)
}

// change exactly one payload field of t (in place); returns a label
func mutatePayload(t *tTx, r *Rand) string {
	for {
		switch r.Intn(14) {
		case 0:
			t.Asset[r.Intn(32)] ^= 1 << uint(r.Intn(8))
			return "asset"
		case 1:
			if len(t.Inputs) > 0 {
				in := t.Inputs[r.Intn(len(t.Inputs))]
				switch r.Intn(3) {
				case 0:
					in.Hash[r.Intn(32)] ^= 0x10
					return "input.hash"
				case 1:
					if in.Index < 1024 {
						in.Index++
					} else {
						in.Index--
					}
					return "input.index"
				default:
					in.Genesis = append(cp(in.Genesis), 7)
					return "input.genesis"
				}
			}
		case 2:
			for _, in := range t.Inputs {
				if d := in.Deposit; d != nil {
					switch r.Intn(5) {
					case 0:
						d.Chain[3] ^= 1
					case 1:
						d.AssetKey = append(cp(d.AssetKey), 'x')
					case 2:
						d.Transaction = append(cp(d.Transaction), 'y')
					case 3:
						d.Index ^= 1 << uint(r.Intn(64))
					default:
						d.Amount = new(big.Int).Add(d.Amount, big.NewInt(1))
					}
					return "input.deposit"
				}
			}
		case 3:
			for _, in := range t.Inputs {
				if m := in.Mint; m != nil {
					switch r.Intn(3) {
					case 0:
						m.Group = append(cp(m.Group), 'z')
					case 1:
						m.Batch ^= 1 << uint(r.Intn(64))
					default:
						m.Amount = new(big.Int).Add(m.Amount, big.NewInt(1))
					}
					return "input.mint"
				}
			}
		case 4:
			if len(t.Inputs) > 0 {
				in := t.Inputs[r.Intn(len(t.Inputs))]
				if in.Deposit == nil {
					in.Deposit = &tDeposit{Chain: make([]byte, 32), Amount: big.NewInt(0)}
					return "input.deposit-presence"
				}
				in.Deposit = nil
				return "input.deposit-presence"
			}
		case 5:
			if len(t.Outputs) > 0 {
				o := t.Outputs[r.Intn(len(t.Outputs))]
				switch r.Intn(5) {
				case 0:
					o.Type ^= 1
					return "output.type"
				case 1:
					o.Amount = new(big.Int).Add(o.Amount, big.NewInt(1))
					return "output.amount"
				case 2:
					o.Mask[r.Intn(32)] ^= 4
					return "output.mask"
				case 3:
					o.Script = append(cp(o.Script), 1)
					return "output.script"
				default:
					if len(o.Keys) > 0 {
						o.Keys[r.Intn(len(o.Keys))][5] ^= 8
						return "output.key"
					}
					o.Keys = append(o.Keys, make([]byte, 32))
					return "output.keys"
				}
			}
		case 6:
			if len(t.Outputs) > 0 {
				o := t.Outputs[r.Intn(len(t.Outputs))]
				if o.Withdrawal == nil {
					o.Withdrawal = &tWithdrawal{}
					return "output.withdrawal-presence"
				}
				if r.Bool() {
					o.Withdrawal.Address = append(cp(o.Withdrawal.Address), 'a')
				} else {
					o.Withdrawal.Tag = append(cp(o.Withdrawal.Tag), 't')
				}
				return "output.withdrawal"
			}
		case 7:
			if len(t.Refs) > 0 {
				t.Refs[r.Intn(len(t.Refs))][9] ^= 2
				return "reference"
			}
		case 8:
			if len(t.Refs) < 256 {
				t.Refs = append(t.Refs, make([]byte, 32))
				return "references+"
			}
		case 9:
			if len(t.Extra) > 0 {
				t.Extra = cp(t.Extra)
				t.Extra[r.Intn(len(t.Extra))] ^= 0x80
				return "extra"
			}
		case 10:
			t.Extra = append(cp(t.Extra), 0)
			return "extra+"
		case 11:
			if len(t.Inputs) > 1 { // order matters
				a, b := t.Inputs[0], t.Inputs[1]
				if a.spec() != b.spec() {
					t.Inputs[0], t.Inputs[1] = b, a
					return "inputs-order"
				}
			}
		case 12:
			if len(t.Outputs) < 256 {
				t.Outputs = append(t.Outputs, &tOutput{Amount: big.NewInt(0), Mask: make([]byte, 32)})
				return "outputs+"
			}
		case 13:
			if len(t.Inputs) < 256 {
				t.Inputs = append(t.Inputs, &tInput{Hash: make([]byte, 32)})
				return "inputs+"
			}
		}
	}
}

func (in *tInput) spec() string {
	return (&tTx{Asset: nil, Inputs: []*tInput{in}}).spec()
}

func ver(s *common.SignedTransaction) *common.VersionedTransaction {
	return &common.VersionedTransaction{SignedTransaction: *s}
}

var aliasWhen = []string{"first", "afterhash", "afterpayload", "aftermarshal", "never"}
var aliasHow = []string{"zero", "inc", "flip", "other"}
var aliasLayout = []string{"exact", "spare", "middle"}

// scribble overwrites a buffer the way a caller recycling it would.
func scribble(b []byte, how string, r *Rand) {
	switch how {
	case "zero":
		for i := range b {
			b[i] = 0
		}
	case "inc":
		for i := range b {
			b[i]++
		}
	case "flip":
		if len(b) > 0 {
			b[r.Intn(len(b))] ^= 0x55
		}
	case "other": // the next message lands in the same buffer: another valid encoding, repeated
		o := (&tTx{Version: 5, Asset: bytes.Repeat([]byte{0xbb}, 32), Extra: []byte("next message")}).loose(knobs{})
		for i := range b {
			b[i] = o[i%len(o)]
		}
	default:
		panic("harness: unknown scribble kind " + how)
	}
}

func oneOf(x string, set []string) bool {
	for _, y := range set {
		if x == y {
			return true
		}
	}
	return false
}

func sameOrHex(b, orig []byte) string {
	if bytes.Equal(b, orig) {
		return "same"
	}
	return Hex(b)
}

func execAlias(line string, t []string) Result {
	res := Result{Tags: []string{"alias"}}
	when, how, layout := t[1], t[2], t[3]
	if !oneOf(when, aliasWhen) || !oneOf(how, aliasHow) || !oneOf(layout, aliasLayout) {
		panic("harness: bad alias op")
	}
	orig := UnHex(t[4])
	r := lineHash(line)
	// the caller's buffer
	var frame, buf []byte
	switch layout {
	case "exact":
		frame = make([]byte, len(orig))
		buf = frame
	case "spare":
		frame = make([]byte, len(orig)+64)
		buf = frame[:len(orig)]
	default:
		frame = make([]byte, len(orig)+24)
		buf = frame[9 : 9+len(orig) : 9+len(orig)]
	}
	copy(buf, orig)
	var v *common.VersionedTransaction
	un, _, _ := Catch(func() string {
		x, err := common.UnmarshalVersionedTransaction(buf)
		if err != nil {
			return "reject"
		}
		v = x
		return "ok"
	})
	if v == nil {
		res.Out = "tx=" + un
		res.Tags = append(res.Tags, "alias:reject")
		return res
	}
	signed := v.AggregatedSignature != nil || len(v.SignaturesMap) > 0
	res.Tags = append(res.Tags, "alias:"+when, "alias:"+how, "alias:"+layout, "alias:"+map[bool]string{true: "signed", false: "unsigned"}[signed])
	res.Nontrivial = true
	// what a decode of a private copy answers (the reference, independent of the model)
	ref, err := common.UnmarshalVersionedTransaction(append([]byte{}, orig...))
	if err != nil {
		res.PropKey, res.PropDesc = "C06:hash-aliases-buffer", "a private copy of accepted bytes is rejected"
		res.Out = "tx=ok"
		return res
	}
	refPM := append([]byte{}, ref.PayloadMarshal()...)
	refH := ref.PayloadHash()
	fields0 := fromGo(&v.SignedTransaction).spec()

	out, pan, _ := Catch(func() string {
		switch when {
		case "afterhash":
			_ = v.PayloadHash()
		case "afterpayload":
			_ = v.PayloadMarshal()
		case "aftermarshal":
			_ = v.Marshal()
		}
		if when != "never" {
			scribble(frame, how, r)
		}
		pm := v.PayloadMarshal()
		h := v.PayloadHash()
		m := v.Marshal()
		mKeep := append([]byte{}, m...)
		fields := "same"
		if fromGo(&v.SignedTransaction).spec() != fields0 {
			fields = "changed"
			res.PropKey, res.PropDesc = "C06:fields-alias-buffer", "decoded fields changed when the input buffer was overwritten"
		}
		hs := "pm"
		if h != crypto.Blake3Hash(pm) {
			hs = "other"
		}
		if !bytes.Equal(pm, refPM) || h != refH {
			res.PropKey = "C06:hash-aliases-buffer"
			res.PropDesc = fmt.Sprintf("decoded from a %s buffer, buffer overwritten (%s, %s): PayloadMarshal/PayloadHash differ from those of a decode of the same bytes; payload now %s",
				layout, how, when, clip(Hex(pm)))
		} else if !bytes.Equal(m, orig) {
			res.PropKey, res.PropDesc = "C06:marshal-aliases-buffer", "Marshal of the decoded transaction differs from the accepted bytes after the input buffer was overwritten"
		}
		// the slice Marshal returned belongs to the caller: overwrite it, ask again
		scribble(m, how, r)
		m2 := v.Marshal()
		if res.PropKey == "" && (!bytes.Equal(m2, mKeep) || !bytes.Equal(v.PayloadMarshal(), refPM) || v.PayloadHash() != refH) {
			res.PropKey, res.PropDesc = "C06:marshal-returns-alias", "overwriting the slice returned by Marshal changed a later Marshal/PayloadMarshal/PayloadHash"
		}
		return "tx=ok payload=" + sameOrHex(pm, orig) + " marshal=" + sameOrHex(mKeep, orig) + " hash=" + hs + " fields=" + fields + " remarshal=" + sameOrHex(m2, orig)
	})
	if pan {
		res.PropKey, res.PropDesc = "C06:hash-aliases-buffer", "accessor panicked after the input buffer was overwritten"
	}
	res.Out = out
	return res
}

func execTxCodec(_ *State, line string) Result {
	t := strings.Fields(line)
	res := Result{}
	switch t[0] {
	case "alias":
		return execAlias(line, t)
	case "enc":
		tt := parseSpec(t[1:])
		var encB, marB, payB []byte
		e, ep, _ := Catch(func() string { encB = common.NewEncoder().EncodeTransaction(tt.toGo()); return Hex(encB) })
		m, mp, _ := Catch(func() string { marB = ver(tt.toGo()).Marshal(); return Hex(marB) })
		p, pp, _ := Catch(func() string { payB = ver(tt.toGo()).PayloadMarshal(); return Hex(payB) })
		if !mp && !ep && bytes.Equal(encB, marB) {
			m = "same"
		}
		res.Out = "enc=" + e + " marshal=" + m + " payload=" + p
		res.Tags = append(res.Tags, "enc", "enc:"+map[bool]string{true: "encoder-panic", false: "encoder-ok"}[ep],
			"enc:"+map[bool]string{true: "marshal-panic", false: "marshal-ok"}[mp])
		if tt.Agg != nil {
			a := tt.Agg
			kind := "agg-empty"
			if len(a.Signers) > 0 {
				kind = "agg-ordinary"
				if !ep && len(encB) > 0 && a.Signers[len(a.Signers)-1]/8+1 > 2*len(a.Signers) {
					kind = "agg-sparse"
				}
			}
			res.Tags = append(res.Tags, "enc:"+kind)
		} else if len(tt.Sigs) > 0 {
			res.Tags = append(res.Tags, "enc:sigmaps")
		} else {
			res.Tags = append(res.Tags, "enc:unsigned")
		}
		res.Nontrivial = !mp
		_ = pp
		if mp {
			if !ep && txInLimits(tt) {
				res.PropKey, res.PropDesc = "C06:encode-undecodable", "the encoder's output of an in-limits transaction is rejected by UnmarshalVersionedTransaction"
			}
			return res
		}
		// --- property mode on the real code
		want := tt.canonicalSpec()
		back, err := common.UnmarshalVersionedTransaction(marB)
		if err != nil {
			res.PropKey, res.PropDesc = "C06:roundtrip", "unmarshal(marshal(tx)) fails"
			return res
		}
		if got := fromGo(&back.SignedTransaction).spec(); got != want {
			res.PropKey, res.PropDesc = "C06:roundtrip", "unmarshal(marshal(tx)) differs: "+clip(got)+" vs "+clip(want)
			return res
		}
		v0 := ver(tt.toGo())
		h0 := v0.PayloadHash()
		if back.PayloadHash() != h0 {
			res.PropKey, res.PropDesc = "C06:roundtrip", "PayloadHash differs after unmarshal(marshal(tx))"
			return res
		}
		if h0 != crypto.Blake3Hash(payB) {
			res.PropKey, res.PropDesc = "C06:hash-preimage", "PayloadHash is not the hash of PayloadMarshal"
			return res
		}
		r := lineHash(line)
		// other authorization data, same payload
		alt := parseSpec(t[1:])
		switch r.Intn(3) {
		case 0:
			alt.Agg, alt.Sigs = nil, nil
		case 1:
			alt.Agg, alt.Sigs = &tAgg{Sig: r.Bytes(64), Signers: genSigners(r)}, nil
		default:
			alt.Agg, alt.Sigs = nil, [][]tEntry{genSigMap(r, r.Range(1, 3))}
		}
		if alt.spec() != tt.spec() {
			res.Tags = append(res.Tags, "prop:auth-changed")
			if ver(alt.toGo()).PayloadHash() != h0 {
				res.PropKey, res.PropDesc = "C06:hash-auth", "PayloadHash depends on the authorization data"
				return res
			}
		}
		// one payload field changed
		mut := parseSpec(t[1:])
		label := mutatePayload(mut, r)
		res.Tags = append(res.Tags, "prop:mut:"+label)
		var mh crypto.Hash
		var mb []byte
		_, mpan, _ := Catch(func() string { v := ver(mut.toGo()); mb = v.PayloadMarshal(); mh = v.PayloadHash(); return "" })
		if !mpan && (bytes.Equal(mb, payB) || mh == h0) {
			res.PropKey, res.PropDesc = "C06:hash-insensitive", "payload field "+label+" changed but PayloadMarshal/PayloadHash did not"
			return res
		}
		// --- ownership of slices on the encode side
		// (a) Marshal's result is the caller's: overwriting it must not reach the object
		own := parseSpec(t[1:])
		vo := ver(own.toGo())
		m1 := vo.Marshal()
		scribble(m1, "inc", r)
		if !bytes.Equal(vo.Marshal(), marB) || !bytes.Equal(vo.PayloadMarshal(), payB) || vo.PayloadHash() != h0 {
			res.PropKey, res.PropDesc = "C06:marshal-returns-alias", "overwriting the slice returned by Marshal changed a later Marshal/PayloadMarshal/PayloadHash"
			return res
		}
		// (b) encoded bytes are copies: overwriting the field slices afterwards must not reach them
		own2 := parseSpec(t[1:])
		v2 := ver(own2.toGo())
		m2, p2 := v2.Marshal(), v2.PayloadMarshal()
		scribble(own2.Extra, "inc", r)
		for _, in := range own2.Inputs {
			scribble(in.Genesis, "inc", r)
		}
		for _, o := range own2.Outputs {
			scribble(o.Script, "inc", r)
		}
		if !bytes.Equal(m2, marB) || !bytes.Equal(p2, payB) {
			res.PropKey, res.PropDesc = "C06:marshal-returns-alias", "bytes returned by Marshal/PayloadMarshal follow the field slices they were encoded from"
			return res
		}
		// (c) caches are per VersionedTransaction object: after the payload fields of the
		// SignedTransaction are reassigned, a new AsVersioned() must answer for the new content
		if !mpan && tt.Version == common.TxVersionHashSignature {
			s := tt.toGo()
			if s.AsVersioned().PayloadHash() != h0 {
				res.PropKey, res.PropDesc = "C06:hash-stale-cache", "AsVersioned().PayloadHash() differs from a direct VersionedTransaction"
				return res
			}
			g := mut.toGo()
			s.Version, s.Asset, s.Inputs, s.Outputs, s.References, s.Extra = g.Version, g.Asset, g.Inputs, g.Outputs, g.References, g.Extra
			if s.AsVersioned().PayloadHash() != mh {
				res.PropKey, res.PropDesc = "C06:hash-stale-cache", "payload field "+label+" reassigned, a new AsVersioned() still answers with another content's hash"
				return res
			}
		}
		// (d) hash first, attach the authorization data afterwards (what SignInput/AggregateSign do)
		if alt.spec() != tt.spec() {
			bare := parseSpec(t[1:])
			bare.Agg, bare.Sigs = nil, nil
			vb := ver(bare.toGo())
			hb := vb.PayloadHash()
			ag := alt.toGo()
			vb.AggregatedSignature, vb.SignaturesMap = ag.AggregatedSignature, ag.SignaturesMap
			var late, fresh []byte
			_, lp, _ := Catch(func() string { late = vb.Marshal(); fresh = ver(alt.toGo()).Marshal(); return "" })
			if !lp {
				res.Tags = append(res.Tags, "prop:sign-after-hash")
				back2, err := common.UnmarshalVersionedTransaction(late)
				if hb != h0 || vb.PayloadHash() != h0 || !bytes.Equal(late, fresh) || err != nil || back2.PayloadHash() != h0 ||
					!bytes.Equal(back2.PayloadMarshal(), payB) {
					res.PropKey, res.PropDesc = "C06:hash-auth", "hash taken before the signatures were attached: Marshal/PayloadHash disagree with a transaction built with the signatures from the start"
					return res
				}
			}
		}
		return res
	case "dec":
		b := UnHex(t[1])
		raw, _, _ := Catch(func() string {
			s, err := common.NewDecoder(b).DecodeTransaction()
			if err != nil {
				return "reject"
			}
			return "ok " + fromGo(s).spec()
		})
		var v *common.VersionedTransaction
		un, _, _ := Catch(func() string {
			x, err := common.UnmarshalVersionedTransaction(b)
			if err != nil {
				return "reject"
			}
			v = x
			return "ok"
		})
		res.Out = "raw=" + raw + " tx=" + un
		cls := "dec:raw-reject"
		if raw != "reject" && raw != "panic" {
			cls = "dec:noncanonical"
			if un == "ok" {
				cls = "dec:accept"
			}
		}
		res.Tags = append(res.Tags, "dec", cls)
		res.Nontrivial = cls != "dec:raw-reject"
		if v != nil {
			if a := v.AggregatedSignature; a != nil {
				res.Tags = append(res.Tags, "dec:accept-agg")
			} else if len(v.SignaturesMap) > 0 {
				res.Tags = append(res.Tags, "dec:accept-sigmaps")
			}
			// b belongs to this caller: recycle it before the first accessor is called
			fields0 := fromGo(&v.SignedTransaction).spec()
			scribble(b, "inc", nil)
			if fromGo(&v.SignedTransaction).spec() != fields0 {
				res.PropKey, res.PropDesc = "C06:fields-alias-buffer", "decoded fields changed when the input buffer was overwritten"
				return res
			}
			re, rp, _ := Catch(func() string { return Hex(v.Marshal()) })
			if rp || re != t[1] {
				res.PropKey, res.PropDesc = "C06:remarshal", "accepted bytes do not re-marshal to themselves: "+clip(re)
				return res
			}
			pm, pp, _ := Catch(func() string { return Hex(v.PayloadMarshal()) })
			if ref, err := common.UnmarshalVersionedTransaction(UnHex(t[1])); !pp && (err != nil || Hex(ref.PayloadMarshal()) != pm || ref.PayloadHash() != v.PayloadHash()) {
				res.PropKey, res.PropDesc = "C06:hash-aliases-buffer", "input buffer overwritten after decoding: PayloadMarshal/PayloadHash differ from those of a decode of the same bytes; payload now "+clip(pm)
				return res
			}
			if pp || v.PayloadHash() != crypto.Blake3Hash(UnHex(pm)) {
				res.PropKey, res.PropDesc = "C06:hash-preimage", "PayloadHash is not the hash of PayloadMarshal"
				return res
			}
			// the payload encoding is itself an accepted, signature-free transaction with the same payload
			pv, err := common.UnmarshalVersionedTransaction(UnHex(pm))
			if err != nil || pv.AggregatedSignature != nil || len(pv.SignaturesMap) != 0 || pv.PayloadHash() != v.PayloadHash() {
				res.PropKey, res.PropDesc = "C06:hash-auth", "PayloadMarshal is not the signature-free encoding of the same payload"
			}
		}
		return res
	case "big":
		n, _ := strconv.Atoi(t[1])
		f, _ := strconv.Atoi(t[2])
		tx := common.NewTransactionV5(h32(bytes.Repeat([]byte{1}, 32)))
		tx.AddInput(h32(bytes.Repeat([]byte{2}, 32)), 0)
		tx.Extra = bytes.Repeat([]byte{byte(f)}, n)
		var b []byte
		_, p, _ := Catch(func() string { b = common.NewEncoder().EncodeTransaction(&common.SignedTransaction{Transaction: *tx}); return "" })
		res.Tags = append(res.Tags, "big")
		if p {
			res.Out = "enc=panic"
			return res
		}
		raw, dec := "ok", "ok"
		if _, err := common.NewDecoder(b).DecodeTransaction(); err != nil {
			raw = "reject"
		}
		if _, err := common.UnmarshalVersionedTransaction(b); err != nil {
			dec = "reject"
		}
		res.Out = fmt.Sprintf("enc=%d raw=%s tx=%s", len(b), raw, dec)
		res.Nontrivial = true
		return res
	}
	panic("harness: unknown op " + t[0])
}

func clip(s string) string {
	if len(s) > 300 {
		return s[:300] + "…"
	}
	return s
}

// canonicalSpec: what a decoded copy must dump as (when both kinds of authorization data
// are present only the aggregate is encoded).
func (t *tTx) canonicalSpec() string {
	c := *t
	if c.Agg != nil {
		c.Sigs = nil
	}
	return c.spec()
}

// every count within the decoder's limits (so marshal must succeed once the encoder did)
func txInLimits(t *tTx) bool {
	if t.Version != 5 || len(t.Inputs) > 256 || len(t.Outputs) > 256 || len(t.Refs) > 256 || len(t.Sigs) > 256 {
		return false
	}
	for _, o := range t.Outputs {
		if len(o.Keys) > 256 {
			return false
		}
	}
	return len(t.spec()) < 2*(4<<20) // far below the size gate
}

// buffer-ownership sequences: mostly accepted encodings (half of them unsigned, as deposit,
// mint and genesis transactions travel), some mutated / non-canonical ones
func genAliasCase(r *Rand, tier string) string {
	var b []byte
	switch r.Intn(8) {
	case 0:
		b = genBytesCase(r, tier)
	case 1:
		b = genNonCanonical(r, tier)
	default:
		t := genValidTx(r, tier)
		if len(t.Extra) > 300 {
			t.Extra = t.Extra[:r.Range(0, 300)]
		}
		if r.Bool() {
			t.Agg, t.Sigs = nil, nil
		}
		b = encodeOrNil(t)
		if b == nil {
			b = []byte{0x77, 0x77, 0, 5}
		}
	}
	return "alias " + Pick(r, aliasWhen) + " " + Pick(r, aliasHow) + " " + Pick(r, aliasLayout) + " " + Hex(b)
}

func init() {
	mk := func(t *tTx) string { return "enc " + t.spec() }
	z32, s64z := make([]byte, 32), make([]byte, 64)
	base := func() *tTx {
		return &tTx{Version: 5, Asset: bytes.Repeat([]byte{0xaa}, 32),
			Inputs:  []*tInput{{Hash: bytes.Repeat([]byte{1}, 32), Index: 3}},
			Outputs: []*tOutput{{Type: 0, Amount: big.NewInt(100000000), Keys: [][]byte{bytes.Repeat([]byte{2}, 32)}, Mask: bytes.Repeat([]byte{3}, 32), Script: []byte{0xff, 0xfe, 1}}}}
	}
	withAgg := func(s []int) *tTx { t := base(); t.Agg = &tAgg{Sig: s64z, Signers: s}; return t }
	withSigs := func(m ...[]tEntry) *tTx { t := base(); t.Sigs = m; return t }
	e := func(i uint16) tEntry { return tEntry{Index: i, Sig: bytes.Repeat([]byte{byte(i)}, 64)} }
	lo := func(t *tTx, k knobs) string { return "dec " + Hex(t.loose(k)) }
	many := func(n int) [][]tEntry {
		var m [][]tEntry
		for i := 0; i < n; i++ {
			m = append(m, []tEntry{})
		}
		return m
	}
	_ = z32
	Register(&Subsystem{
		Name: "txcodec",
		Rule: "enc: random transactions (0-6 inputs incl. genesis/deposit/mint, 0-6 outputs incl. constructor-built ghost keys and withdrawals, " +
			"references, extras around 256 and 65536, signature maps, aggregate signatures with dense/sparse/boundary signer sets) " +
			"plus one-dimension-at-the-limit variants (256/257 items, index 1024/1025, versions 4/6, invalid signer lists); " +
			"dec: valid encodings, their truncations, single byte/bit changes, insertions, deletions, trailing bytes, arbitrary bytes, " +
			"and a non-canonical stream (padded integers, unsorted/duplicate signature entries, wrong mask kind, trailing mask bytes, over-announced maps); " +
			"alias: accepted encodings (half unsigned) and some rejected ones, decoded from an exact / spare-capacity / mid-frame buffer that is " +
			"overwritten (zero, +1, one byte, next message) before the first accessor or after a first PayloadHash/PayloadMarshal/Marshal; " +
			"non-trivial = marshal succeeded (enc), the raw decoder accepted (dec) or the transaction was accepted (alias); distinct = distinct op line",
		Corpus: [][]string{
			{mk(base()), mk(withAgg(nil)), mk(withAgg([]int{0, 1, 2})), mk(withAgg([]int{500})), mk(withAgg([]int{0, 31})), mk(withAgg([]int{0, 32})),
				mk(withAgg([]int{65535})), mk(withSigs([]tEntry{e(0), e(1)}, []tEntry{})), mk(withSigs([]tEntry{e(65535)}))},
			{lo(base(), knobs{}), lo(base(), knobs{padInt: 1}), lo(withSigs([]tEntry{e(1), e(2)}), knobs{unsortSigs: true}),
				lo(withSigs([]tEntry{e(1)}), knobs{dupSig: true}), lo(withAgg(nil), knobs{forceSparse: true}),
				lo(withAgg([]int{0, 1, 2}), knobs{forceSparse: true}), lo(withAgg([]int{500}), knobs{forceOrd: true}),
				lo(withAgg([]int{1}), knobs{forceOrd: true, maskTrail: 1}), lo(withSigs(many(256)...), knobs{sigCountBump: 44}),
				lo(withSigs(many(256)...), knobs{}), lo(base(), knobs{trailing: []byte{0}}),
				lo(withAgg([]int{3, 65536}), knobs{forceOrd: true}), lo(withAgg([]int{65535}), knobs{forceOrd: true}),
				"dec -", "dec 77770005", "dec 7777"},
			// around config.TransactionMaximumSize (88 bytes of framing + extra) and ExtraSizeStorageCapacity
			func() []string {
				var c []string
				for _, w := range aliasWhen {
					for k, l := range aliasLayout {
						c = append(c, "alias "+w+" "+aliasHow[k%len(aliasHow)]+" "+l+" "+Hex(base().loose(knobs{})),
							"alias "+w+" other "+l+" "+Hex(withSigs([]tEntry{e(0), e(1)}).loose(knobs{})),
							"alias "+w+" zero "+l+" "+Hex(withAgg([]int{0, 1, 2}).loose(knobs{})))
					}
				}
				return append(c, "alias first inc exact "+Hex(base().loose(knobs{padInt: 1})), "alias first inc exact -")
			}(),
			{"big 0 0", "big 65536 1", "big 300000 7", "big 4194216 1", "big 4194217 1", "big 4194304 2", "big 4194305 2"},
		},
		Gen: func(r *Rand, i int, tier string) []string {
			switch r.Intn(12) {
			case 0, 1, 2:
				return []string{"enc " + genValidTx(r, tier).spec()}
			case 3:
				return []string{"enc " + genBoundaryTx(r, tier).spec()}
			case 4, 5, 6, 7:
				return []string{"dec " + Hex(genBytesCase(r, tier))}
			case 8, 9:
				return []string{genAliasCase(r, tier)}
			default:
				return []string{"dec " + Hex(genNonCanonical(r, tier))}
			}
		},
		Exec: execTxCodec,
	})
}
