import Mixin.Prelude.Proto
import Mixin.Model.NodeOps
import Mixin.Driver.Election
/-! Line-protocol driver for the node-operation acceptance model (C29). -/
namespace Mixin.Driver.NodeOps
open Mixin.Proto Mixin.Election Mixin.NodeOps
open Mixin.Driver.Election (hashNat natHash parseRecs u64? parseState)

structure St where
  env : OpsEnv
  lock : Option OpLock

def empty : St := ⟨⟨[], 0, [], [], 0⟩, none⟩

def parseKeys : List String → Option (List Keys)
  | [] => some []
  | a :: b :: c :: rest =>
    match hashNat a, hashNat b, hashNat c, parseKeys rest with
    | some a, some b, some c, some r => some (⟨a, b, c⟩ :: r)
    | _, _, _, _ => none
  | _ => none

def parseStored : List String → Option (List Stored)
  | [] => some []
  | h :: a :: e :: l :: k1 :: k2 :: rest =>
    match hashNat h, a.toNat?, hashNat e, l.toNat?, hashNat k1, hashNat k2, parseStored rest with
    | some h, some a, some e, some l, some k1, some k2, some r => some (⟨h, a, e, l, k1, k2⟩ :: r)
    | _, _, _, _, _, _, _ => none
  | _ => none

/-- `hash amount input extra key1 signerId rest` -/
def parseTx : List String → Option OpTx
  | [h, a, i, e, k, s, r] =>
    match hashNat h, a.toNat?, hashNat i, hashNat e, hashNat k, hashNat s, hashNat r with
    | some h, some a, some i, some e, some k, some s, some r => some ⟨h, a, i, e, k, s, r + 1⟩
    | _, _, _, _, _, _, _ => none
  | _ => none

def flag : String → Option Bool
  | "0" => some false
  | "1" => some true
  | _ => none

def showD : Decision → String
  | .accept => "accept"
  | .reject => "reject"
  | .panic => "panic"

def canonNat (s : String) : Option Nat := if s = "-" then some 0 else (hashNat s).map (· + 1)

/-- split a token list at every "|" -/
def sections (t : List String) : List (List String) :=
  t.foldr (fun x acc => if x = "|" then [] :: acc else match acc with | [] => [[x]] | h :: r => (x :: h) :: r) [[]]

def counted {α : Type} (parse : List String → Option (List α)) : List String → Option (List α)
  | [] => none
  | k :: rest => match k.toNat?, parse rest with
    | some k, some l => if l.length = k then some l else none
    | _, _ => none

/-- who validates and when: `own` = the snapshot is the validating node's own, `ts0` = the
    snapshot carries no timestamp yet, `clock` = the validating node's wall clock -/
structure Clk where
  own : Bool
  ts0 : Bool
  clock : Nat

def Clk.self (c : Clk) (snapNode : Nat) : Nat := if c.own then snapNode else snapNode + 1
def Clk.snapTs (c : Clk) (ts : Nat) : Nat := if c.ts0 then 0 else ts

def stepC (c : Clk) (st : St) (t : List String) : St × String :=
  match t with
  | ["reset"] => (empty, "ok")
  | "world" :: e :: g :: "|" :: rest =>
    match u64? e, u64? g, sections rest with
    | some e, some g, [a, b, c] =>
      match counted parseRecs a, counted parseKeys b, counted parseStored c with
      | some recs, some ks, some ss => (⟨⟨recs, e, ks, ss, g⟩, none⟩, "ok")
      | _, _, _ => (st, "bad-op")
    | _, _, _ => (st, "bad-op")
  | "hist" :: e :: k :: rest =>
    match u64? e, k.toNat?, parseRecs rest with
    | some e, some k, some recs =>
      if recs.length = k then ({ st with env := { st.env with epoch := e, hist := recs } }, "ok") else (st, "bad-op")
    | _, _, _ => (st, "bad-op")
  | "keys" :: k :: rest =>
    match k.toNat?, parseKeys rest with
    | some k, some ks => if ks.length = k then ({ st with env := { st.env with keys := ks } }, "ok") else (st, "bad-op")
    | _, _ => (st, "bad-op")
  | "stored" :: k :: rest =>
    match k.toNat?, parseStored rest with
    | some k, some ss => if ss.length = k then ({ st with env := { st.env with stored := ss } }, "ok") else (st, "bad-op")
    | _, _ => (st, "bad-op")
  | ["graph", ts] =>
    match u64? ts with
    | some ts => ({ st with env := { st.env with graphTs := ts } }, "ok")
    | none => (st, "bad-op")
  | "pledge" :: p :: ts :: fin :: rest =>
    match hashNat p, u64? ts, flag fin, parseTx rest with
    | some p, some ts, some fin, some tx =>
      let (d, l) := validatePledgeSnap (c.self p) c.clock st.env st.lock p (c.snapTs ts) fin tx
      ({ st with lock := l }, showD d)
    | _, _, _, _ => (st, "bad-op")
  | "cancel" :: ts :: fin :: rest =>
    match u64? ts, flag fin, parseTx rest with
    | some ts, some fin, some tx =>
      let (d, l) := validateCancelSnap (c.self 1) c.clock st.env st.lock 1 (c.snapTs ts) fin tx
      ({ st with lock := l }, showD d)
    | _, _, _ => (st, "bad-op")
  | "accept" :: ex :: iid :: itx :: hs :: round :: ts :: fut :: fin :: canon :: rest =>
    match flag ex, flag hs, round.toNat?, u64? ts, flag fut, flag fin, canonNat canon, parseTx rest with
    | some ex, some hs, some round, some ts, some fut, some fin, some canon, some tx =>
      let info : Option (Option Rec) :=
        if iid = "-" then some none else
        match hashNat iid, hashNat itx with
        | some i, some x => some (some ⟨i, x, 0, .pledging⟩)
        | _, _ => none
      match info with
      | some info => (st, showD (validateAcceptSnap (c.self 1) c.clock st.env ⟨ex, info, hs⟩ round 1 (c.snapTs ts) fut fin canon tx))
      | none => (st, "bad-op")
    | _, _, _, _, _, _, _, _ => (st, "bad-op")
  | "remove" :: p :: ts :: fin :: canon :: rest =>
    match hashNat p, u64? ts, flag fin, canonNat canon, parseTx rest with
    | some p, some ts, some fin, some canon, some tx => (st, showD (validateRemoveSnap (c.self p) c.clock st.env p (c.snapTs ts) fin canon tx))
    | _, _, _, _, _ => (st, "bad-op")
  | _ => (st, "bad-op")

/-- `clk <own> <ts0> <clock> <op …>` runs `op` as validated by a node whose clock shows `clock`;
    a bare op is a timestamped snapshot of another node -/
def step (st : St) (t : List String) : St × String :=
  match t with
  | "clk" :: o :: z :: ck :: inner =>
    match flag o, flag z, u64? ck with
    | some o, some z, some ck => stepC ⟨o, z, ck⟩ st inner
    | _, _, _ => (st, "bad-op")
  | _ => stepC ⟨false, false, 0⟩ st t

def run : IO Unit := runLoop empty step

end Mixin.Driver.NodeOps
