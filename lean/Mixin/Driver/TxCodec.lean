import Mixin.Prelude.Proto
import Mixin.Model.TxCodec
/-!
Line-protocol driver for the transaction codec model (C06), subsystem `txcodec`.

A transaction travels as a flat token list (the "spec"; the same text is the field dump):

    <version> <asset>
    <#in>  { <hash> <index> <genesis> (D <chain> <assetkey> <txhash> <index> <amount> | -)
                                       (M <group> <batch> <amount> | -) }
    <#out> { <type> <amount> <#keys> <key>* <mask> <script> (W <address> <tag> | -) }
    <#refs> <ref>*   <extra>
    (A <sig> <#signers> <signer>* | -)
    <#maps> { <#entries> (<index> <sig>)* }          entries in increasing index order

bytes are lowercase hex (`-` = empty), numbers decimal.

    enc <spec>   →  enc=<hex|panic> marshal=<same|hex|panic> payload=<hex|panic>
    dec <hex>    →  raw=<reject | ok <spec>> tx=<ok|reject|panic>
    big <n> <b>  →  transaction with one input and an extra of n bytes b: marshal length / decision
    alias <when> <how> <layout> <hex>
                 →  tx=reject | tx=ok payload=<same|hex> marshal=<same|hex> hash=pm fields=same remarshal=same
       buffer-ownership sequence on the Go side (decode from a caller-kept buffer, overwrite the
       buffer before/after the first accessor). The model is a pure function of the bytes, so
       its answer ignores <when>/<how>/<layout>: payload / marshal are those of the decoded
       value (`same` = equal to the input bytes), the hash is the hash of that payload.
-/
namespace Mixin.Driver.TxCodec
open Mixin.TxCodec

abbrev B := List UInt8

/-- tail-recursive hex parser (extras can be long) -/
def hexGo : List Char → Array UInt8 → Option (Array UInt8)
  | [], acc => some acc
  | [_], _ => none
  | a :: b :: rest, acc =>
    match Mixin.Proto.hexVal a, Mixin.Proto.hexVal b with
    | some x, some y => hexGo rest (acc.push (x * 16 + y).toUInt8)
    | _, _ => none

def unhex (s : String) : Option B :=
  if s = "-" then some [] else (hexGo s.toList #[]).map (·.toList)

def hexDigit (n : Nat) : Char := Mixin.Proto.hexChar n

def hex (b : B) : String :=
  if b.isEmpty then "-" else
  String.ofList (b.foldl (fun (acc : Array Char) x => (acc.push (hexDigit (x.toNat / 16))).push (hexDigit (x.toNat % 16))) #[]).toList

/-! ### spec parser -/

abbrev P := StateT (List String) Option

def tok : P String := do
  match (← get) with
  | [] => failure
  | t :: r => set r; pure t

def pNat : P Nat := do
  let t ← tok
  match t.toNat? with
  | some n => pure n
  | none => failure

def pHex : P B := do
  let t ← tok
  match unhex t with
  | some b => pure b
  | none => failure

def pMany {α : Type} (p : P α) : Nat → P (List α)
  | 0 => pure []
  | n + 1 => do
    let x ← p
    let xs ← pMany p n
    pure (x :: xs)

def pCounted {α : Type} (p : P α) : P (List α) := do
  let n ← pNat
  if n > 100000 then failure
  pMany p n

def pOpt {α : Type} (mark : String) (p : P α) : P (Option α) := do
  let t ← tok
  if t = mark then
    let x ← p
    pure (some x)
  else if t = "-" then pure none
  else failure

def pDeposit : P Deposit := do
  let chain ← pHex; let ak ← pHex; let th ← pHex; let oi ← pNat; let amt ← pNat
  pure { chain := chain, assetKey := ak, transaction := th, index := oi, amount := amt }

def pMint : P Mint := do
  let g ← pHex; let b ← pNat; let amt ← pNat
  pure { group := g, batch := b, amount := amt }

def pInput : P Input := do
  let h ← pHex; let i ← pNat; let g ← pHex
  let d ← pOpt "D" pDeposit
  let m ← pOpt "M" pMint
  pure { hash := h, index := i, genesis := g, deposit := d, mint := m }

def pWithdrawal : P Withdrawal := do
  let a ← pHex; let t ← pHex
  pure { address := a, tag := t }

def pOutput : P Output := do
  let t ← pNat
  if t > 255 then failure
  let amt ← pNat
  let keys ← pCounted pHex
  let mask ← pHex
  let script ← pHex
  let w ← pOpt "W" pWithdrawal
  pure { type := t.toUInt8, amount := amt, keys := keys, mask := mask, script := script, withdrawal := w }

def pAgg : P AggSig := do
  let sig ← pHex
  let signers ← pCounted pNat
  pure { signers := signers, sig := sig }

def pEntry : P (Nat × B) := do
  let i ← pNat; let s ← pHex
  pure (i, s)

def pTx : P Tx := do
  let v ← pNat
  if v > 255 then failure
  let asset ← pHex
  let ins ← pCounted pInput
  let outs ← pCounted pOutput
  let refs ← pCounted pHex
  let extra ← pHex
  let agg ← pOpt "A" pAgg
  let sigs ← pCounted (pCounted pEntry)
  pure { version := v.toUInt8, asset := asset, inputs := ins, outputs := outs, references := refs,
         extra := extra, agg := agg, sigs := sigs }

def parseTx (t : List String) : Option Tx :=
  match pTx.run t with
  | some (tx, []) => if rep tx then some tx else none
  | _ => none

/-! ### spec printer -/

def join (l : List String) : String := " ".intercalate l

def showOpt {α : Type} (mark : String) (f : α → List String) : Option α → List String
  | none => ["-"]
  | some x => mark :: f x

def showInput (i : Input) : List String :=
  [hex i.hash, toString i.index, hex i.genesis] ++
  showOpt "D" (fun (d : Deposit) => [hex d.chain, hex d.assetKey, hex d.transaction, toString d.index, toString d.amount]) i.deposit ++
  showOpt "M" (fun (m : Mint) => [hex m.group, toString m.batch, toString m.amount]) i.mint

def showOutput (o : Output) : List String :=
  [toString o.type.toNat, toString o.amount, toString o.keys.length] ++ o.keys.map hex ++
  [hex o.mask, hex o.script] ++
  showOpt "W" (fun (w : Withdrawal) => [hex w.address, hex w.tag]) o.withdrawal

def showTx (tx : Tx) : List String :=
  [toString tx.version.toNat, hex tx.asset, toString tx.inputs.length] ++ tx.inputs.flatMap showInput ++
  [toString tx.outputs.length] ++ tx.outputs.flatMap showOutput ++
  [toString tx.references.length] ++ tx.references.map hex ++ [hex tx.extra] ++
  showOpt "A" (fun (a : AggSig) => [hex a.sig, toString a.signers.length] ++ a.signers.map toString) tx.agg ++
  [toString tx.sigs.length] ++
  tx.sigs.flatMap (fun m => toString m.length :: m.flatMap (fun e => [toString e.1, hex e.2]))

def showBytesOpt : Option B → String
  | none => "panic"
  | some b => hex b

def step (t : List String) : String :=
  match t with
  | "enc" :: spec =>
    match parseTx spec with
    | none => "bad-op"
    | some tx =>
      let e := encoderChecked tx
      let m := marshal tx
      let ms := if m.isSome && m == e then "same" else showBytesOpt m
      s!"enc={showBytesOpt e} marshal={ms} payload={showBytesOpt (payloadMarshal tx)}"
  | ["dec", h] =>
    match unhex h with
    | none => "bad-op"
    | some b =>
      match decodeRaw b with
      | none => "raw=reject tx=reject"
      | some tx =>
        let v := if !guards tx then "panic" else if (decodeTx b).isSome then "ok" else "reject"
        s!"raw=ok {join (showTx tx)} tx={v}"
  | ["alias", w, h, l, hx] =>
    if !(["first", "afterhash", "afterpayload", "aftermarshal", "never"].contains w) ||
       !(["zero", "inc", "flip", "other"].contains h) || !(["exact", "spare", "middle"].contains l) then "bad-op" else
    match unhex hx with
    | none => "bad-op"
    | some b =>
      match decodeTx b with
      | none => "tx=reject"
      | some tx =>
        let same (x : Option B) : String :=
          match x with
          | none => "panic"
          | some y => if y == b then "same" else hex y
        s!"tx=ok payload={same (payloadMarshal tx)} marshal={same (marshal tx)} hash=pm fields=same remarshal={same (marshal tx)}"
  | ["big", n, f] =>
    match n.toNat?, f.toNat? with
    | some n, some f =>
      if n > 5000000 || f > 255 then "bad-op" else
      let tx : Tx := { version := 5, asset := List.replicate 32 1,
                       inputs := [{ hash := List.replicate 32 2, index := 0, genesis := [], deposit := none, mint := none }],
                       outputs := [], references := [], extra := List.replicate n f.toUInt8, agg := none, sigs := [] }
      match encoderChecked tx with
      | none => "enc=panic"
      | some b =>
        let d := if (decodeTx b).isSome then "ok" else "reject"
        let r := if (decodeRaw b).isSome then "ok" else "reject"
        s!"enc={b.length} raw={r} tx={d}"
    | _, _ => "bad-op"
  | _ => "bad-op"

def run : IO Unit := Mixin.Proto.runPure step

end Mixin.Driver.TxCodec
