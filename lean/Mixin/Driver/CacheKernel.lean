import Mixin.Prelude.Proto
import Mixin.Model.CacheKernel
import Mixin.Driver.CacheQueue
/-! Line-protocol driver for the kernel callers of the transaction cache (C23).

    reset | kq n (h v ts)×n | ks n (h v)×n | rq h v valid ts | persist h v | finalize h
    and every line of the `cachequeue` driver (retrieve, get, remove, dump, reopen), applied to the cache. -/
namespace Mixin.Driver.CacheKernel
open Mixin.Proto Mixin.CacheQueue Mixin.CacheKernel

def triples : List Nat → Option (List (Hash × Body × Nat))
  | [] => some []
  | h :: v :: ts :: r => (triples r).map (fun l => (h, v, ts) :: l)
  | _ => none

def pairs : List Nat → Option (List (Hash × Body))
  | [] => some []
  | h :: v :: r => (pairs r).map (fun l => (h, v) :: l)
  | _ => none

def stepLine (k : K) (t : List String) : K × String :=
  match t with
  | ["reset"] => (emptyK, "ok")
  | "kq" :: n :: rest =>
    match n.toNat?, rest.mapM (·.toNat?) with
    | some n, some nums =>
      match triples nums with
      | some l => if l.length = n then (kernelQueue k l, "ok") else (k, "bad-op")
      | none => (k, "bad-op")
    | _, _ => (k, "bad-op")
  | "ks" :: n :: rest =>
    match n.toNat?, rest.mapM (·.toNat?) with
    | some n, some nums =>
      match pairs nums with
      | some l => if l.length = n then (kernelStore k l, "ok") else (k, "bad-op")
      | none => (k, "bad-op")
    | _, _ => (k, "bad-op")
  | ["rq", h, v, valid, ts] =>
    match h.toNat?, v.toNat?, valid.toNat?, ts.toNat? with
    | some h, some v, some valid, some ts =>
      if valid > 1 then (k, "bad-op") else
      let r := rpcQueue k h v (valid == 1) ts
      (r.1, if r.2 then "ok" else "err")
    | _, _, _, _ => (k, "bad-op")
  | ["persist", h, _] =>
    match h.toNat? with
    | some h => (persistTx k h, "ok")
    | none => (k, "bad-op")
  | ["finalize", h] =>
    match h.toNat? with
    | some h => (finalizeTx k h, "ok")
    | none => (k, "bad-op")
  | _ =>
    let r := Mixin.Driver.CacheQueue.stepLine k.c t
    ({ k with c := r.1 }, r.2)

def run : IO Unit := runLoop emptyK stepLine

end Mixin.Driver.CacheKernel
