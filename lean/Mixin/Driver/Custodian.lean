import Mixin.Prelude.Proto
import Mixin.Model.Custodian
/-! Line-protocol driver for the custodian-update model (C34). -/
namespace Mixin.Driver.Custodian
open Mixin.Proto Mixin.Custodian

def bits (s : String) : Option (List Bool) :=
  if s = "-" then some [] else
  s.toList.foldr (fun c acc => match acc with
    | none => none
    | some l => if c = '1' then some (true :: l) else if c = '0' then some (false :: l) else none) (some [])

/-- the signature oracle: answers of the real `Verify` for the queries the code can make on
    this input (payee and custodian signature of each 353-byte entry, approval signature) -/
def mkV (extra : Bytes) (P C : List Bool) (approval : Option (Bytes × Bool)) : Verifier :=
  let nodesExtra := slice extra 64 (extra.length - 64)
  let cs := chunks (nodesExtra.length / nodeExtraSize) nodesExtra
  let tbl : List ((Bytes × Bytes × Bytes) × Bool) :=
    ((cs.zip (P.zip C)).flatMap (fun (c, p, q) =>
      let n : Node := ⟨c⟩
      [((n.payeeSpend, n.signed, n.payeeSig), p), ((n.custSpend, n.signed, n.custSig), q)]))
    ++ (match approval with
        | some (k, a) => [((k, extra.take (extra.length - 64), extra.drop (extra.length - 64)), a)]
        | none => [])
  fun k m s => (tbl.lookup (k, m, s)).getD false

def chunkCount (extra : Bytes) : Nat :=
  if extra.length < 64 + nodeExtraSize * nodesMinimumCount + 64 then 0
  else if (extra.length - 128) % nodeExtraSize ≠ 0 then 0
  else (extra.length - 128) / nodeExtraSize

def showReq (r : Request) : String :=
  s!"ok {toHex r.custodian} {toHex r.signature} {r.nodes.length} " ++
    toHex (r.nodes.flatMap (fun n => n.custAddr ++ n.payeeAddr))

def parseOutputs : Nat → List String → Option (List Output × List String)
  | 0, rest => some ([], rest)
  | n + 1, ty :: am :: ks :: sc :: rest =>
    match ty.toNat?, am.toNat?, ks.toNat?, parseHex sc, parseOutputs n rest with
    | some ty, some am, some ks, some sc, some (os, rest') =>
      some ({ type := ty, amount := am, keys := ks, script := sc } :: os, rest')
    | _, _, _, _, _ => none
  | _, _ => none

def parsePairs : Nat → List String → Option (List (Bytes × Bytes))
  | 0, [] => some []
  | n + 1, a :: b :: rest =>
    match parseHex a, parseHex b, parsePairs n rest with
    | some a, some b, some r => some ((a, b) :: r)
    | _, _, _ => none
  | _, _ => none

def parseStore : List String → Option StoreRead
  | ["err"] => some .error
  | ["none"] => some .none
  | "found" :: c :: n :: rest =>
    match parseHex c, n.toNat? with
    | some c, some n => (parsePairs n rest).map (fun ps => .found { custodian := c, nodes := ps })
    | _, _ => none
  | _ => none

def showOutcome : Outcome → String
  | .accept => "accept"
  | .reject => "reject"
  | .panic => "panic"

def step (t : List String) : String :=
  match t with
  | ["parse", g, eh, p, c] =>
    match parseHex eh, bits p, bits c with
    | some extra, some P, some C =>
      if g ≠ "0" ∧ g ≠ "1" then "bad-op" else
      let k := chunkCount extra
      if P.length ≠ k ∨ C.length ≠ k then "bad-op" else
      match parseExtra (mkV extra P C none) (g = "1") extra with
      | some r => showReq r
      | none => "reject"
    | _, _, _ => "bad-op"
  | ["encode", c, p, id, s1, s2, s3] =>
    match parseHex c, parseHex p, parseHex id, parseHex s1, parseHex s2, parseHex s3 with
    | some c, some p, some id, some s1, some s2, some s3 => "ok " ++ toHex (encodeNode c p id s1 s2 s3)
    | _, _, _, _, _, _ => "bad-op"
  | "validate" :: xin :: ver :: asset :: nout :: rest =>
    match parseHex xin, ver.toNat?, parseHex asset, nout.toNat? with
    | some xin, some ver, some asset, some nout =>
      match parseOutputs nout rest with
      | some (outs, eh :: p :: c :: a :: storeToks) =>
        match parseHex eh, bits p, bits c, parseStore storeToks with
        | some extra, some P, some C, some store =>
          let k := chunkCount extra
          if P.length ≠ k ∨ C.length ≠ k then "bad-op" else
          if a ≠ "0" ∧ a ≠ "1" ∧ a ≠ "-" then "bad-op" else
          let approval := match store with
            | .found prev => if a = "-" then none else some (prev.custodian.take 32, a = "1")
            | _ => none
          let V := mkV extra P C approval
          showOutcome (validate V xin { version := ver, asset := asset, outputs := outs, extra := extra } store)
        | _, _, _, _ => "bad-op"
      | _ => "bad-op"
    | _, _, _, _ => "bad-op"
  | _ => "bad-op"

def run : IO Unit := runPure step

end Mixin.Driver.Custodian
