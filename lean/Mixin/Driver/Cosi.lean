import Mixin.Prelude.Proto
import Mixin.Model.Cosi
/-! Line-protocol driver for the CoSi model (C13). State: key vector + current CosiSignature. -/
namespace Mixin.Driver.Cosi
open Mixin.Proto Mixin.Cosi

def parsePt (s : String) : Option Pt :=
  if s.startsWith "x" then some Pt.bad else s.toNat?.map Pt.dl

def showPt : Pt → String
  | .bad => "x"
  | .dl d => toString d

def parsePts : List String → Option (List Pt)
  | [] => some []
  | t :: r => do let p ← parsePt t; let ps ← parsePts r; pure (p :: ps)

/-- pairs `index point` -/
def parseIdxPts : List String → Option (List (Int × Pt))
  | [] => some []
  | [_] => none
  | i :: p :: r => do
    let i ← parseInt i; let p ← parsePt p; let rest ← parseIdxPts r; pure ((i, p) :: rest)

/-- pairs `index scalar|n` -/
def parseIdxScalars : List String → Option (List (Int × Option Nat))
  | [] => some []
  | [_] => none
  | i :: s :: r => do
    let i ← parseInt i
    let s ← (if s = "n" then some none else s.toNat?.map some)
    let rest ← parseIdxScalars r
    pure ((i, s) :: rest)

/-- challenge token: decimal, or `-` when the real `Challenge` failed -/
def parseChal (s : String) : Option Nat := if s = "-" then some 0 else s.toNat?

structure St where
  publics : List Pt := []
  sig : Option Sig := none

def step (st : St) (t : List String) : St × String :=
  match t with
  | ["reset"] => ({}, "ok")
  | "pub" :: ps =>
    match parsePts ps with
    | some l => ({ st with publics := l }, "ok")
    | none => (st, "bad-op")
  | ["msg", _] => (st, "ok")
  | "commit" :: r =>
    match parseIdxPts r with
    | none => (st, "bad-op")
    | some l =>
      match commit l with
      | none => (st, "err")
      | some c => ({ st with sig := some c }, s!"ok {c.mask} {showPt c.R}")
  | ["setmask", m] =>
    match m.toNat?, st.sig with
    | some m, some c => ({ st with sig := some { c with mask := m } }, "ok")
    | some _, none => (st, "nosig")
    | none, _ => (st, "bad-op")
  | ["setsig", r, s] =>
    match parsePt r, s.toNat?, st.sig with
    | some r, some s, some c => ({ st with sig := some { c with R := r, S := s } }, "ok")
    | some _, some _, none => (st, "nosig")
    | _, _, _ => (st, "bad-op")
  | ["challenge"] =>
    match st.sig with
    | none => (st, "nosig")
    | some c => (st, if challengeOk c st.publics then "ok" else "err")
  | "aggresp" :: x :: strict :: r =>
    match parseChal x, strict.toNat?, parseIdxScalars r, st.sig with
    | some x, some b, some l, some c =>
      match aggregateResponse c st.publics l x (b != 0) with
      | none => (st, "err")
      | some c' => ({ st with sig := some c' }, s!"ok {c'.S}")
    | some _, some _, some _, none => (st, "nosig")
    | _, _, _, _ => (st, "bad-op")
  | ["vresp", x, signer, s] =>
    match parseChal x, parseInt signer, (if s = "n" then some none else s.toNat?.map some), st.sig with
    | some x, some i, some s, some c => (st, if verifyResponse c st.publics i s x then "ok" else "err")
    | some _, some _, some _, none => (st, "nosig")
    | _, _, _, _ => (st, "bad-op")
  | ["fullverify", x, th] =>
    match parseChal x, parseInt th, st.sig with
    | some x, some th, some c => (st, if fullVerify c st.publics th x then "ok" else "err")
    | some _, some _, none => (st, "nosig")
    | _, _, _ => (st, "bad-op")
  | ["resp", x, y, z] =>
    match (if x = "-" then some none else x.toNat?.map some), y.toNat?, z.toNat? with
    | some x, some y, some z =>
      match response x y z with
      | some s => (st, s!"ok {s}")
      | none => (st, "err")
    | _, _, _ => (st, "bad-op")
  | _ => (st, "bad-op")

def run : IO Unit := runLoop ({} : St) step

end Mixin.Driver.Cosi
