import Mixin.Prelude.Proto
import Mixin.Model.Mint
/-! Line-protocol driver for the mint model (C25). -/
namespace Mixin.Driver.Mint
open Mixin.Proto Mixin.Mint

def showOpt : Option Nat → String
  | some n => s!"ok {n}"
  | none => "panic"

def nats (l : List String) : Option (List Nat) :=
  l.foldr (fun s acc => match s.toNat?, acc with
    | some n, some r => some (n :: r)
    | _, _ => none) (some [])

/-- `k x1 … xk rest` -/
def takeList (l : List Nat) : Option (List Nat × List Nat) :=
  match l with
  | [] => none
  | k :: r => if r.length < k then none else some (r.take k, r.drop k)

def pairs : List Nat → Option (List (Nat × Nat))
  | [] => some []
  | [_] => none
  | a :: b :: r => (pairs r).map (fun t => (a, b) :: t)

def joinNats (l : List Nat) : String := " ".intercalate (l.map toString)

def showDist : DistOut → String
  | .ok s => if s.isEmpty then "ok" else "ok " ++ joinNats s
  | .err => "err"
  | .panic => "panic"

def oneDay : Nat := 24 * hourNs

structure DistArgs where
  epoch : Nat
  ts : Nat
  thr : Nat
  n : Nat
  today : List Nat
  spaces : List Nat
  works : List (Nat × Nat)

/-- `epoch ts thr n  k today…  k spaces…  k (lead sign)…` -/
def parseDistArgs (l : List Nat) : Option DistArgs :=
  match l with
  | epoch :: ts :: thr :: n :: r =>
    match takeList r with
    | some (today, r1) =>
      match takeList r1 with
      | some (spaces, r2) =>
        match r2 with
        | k :: r3 =>
          if r3.length ≠ 2 * k then none else
          match pairs r3 with
          | some w => some ⟨epoch, ts, thr, n, today, spaces, w⟩
          | none => none
        | [] => none
      | none => none
    | none => none
  | _ => none

def runDist (a : DistArgs) (base : Nat) : DistOut :=
  distribute a.n ((a.ts / oneDay : Nat) - (a.epoch / oneDay : Nat) : Int) a.today a.spaces a.works base a.thr

def step (t : List String) : String :=
  match t with
  | ["consts"] =>
    s!"ok {params.pool} {yearOf params (10 ^ 20)} {params.days} {legacyEnding} {mintTimeBegin} {mintTimeEnd}"
  | ["horizon"] => s!"ok {horizonYear params}"
  | ["batch", b] => match b.toNat? with | some b => showOpt (mintBatchSize params b) | none => "bad-op"
  | ["pool", b] => match b.toNat? with | some b => showOpt (poolSize params b) | none => "bad-op"
  | ["multi", a, b] =>
    match a.toNat?, b.toNat? with
    | some a, some b => showOpt (mintMulti params a b)
    | _, _ => "bad-op"
  | ["possible", e, ts, vo, lb, la] =>
    match nats [e, ts, vo, lb, la] with
    | some [e, ts, vo, lb, la] =>
      if vo > 1 then "bad-op" else
      match mintPossibility params e ts (vo == 1) lb la with
      | some (b, a) => s!"ok {b} {a}"
      | none => "panic"
    | _ => "bad-op"
  | "dist" :: base :: rest =>
    match base.toNat?, nats rest with
    | some base, some l =>
      match parseDistArgs l with
      | some a => showDist (runDist a base)
      | none => "bad-op"
    | _, _ => "bad-op"
  | "build" :: vo :: lb :: la :: rest =>
    match nats [vo, lb, la], nats rest with
    | some [vo, lb, la], some l =>
      if vo > 1 then "bad-op" else
      match parseDistArgs l with
      | some a =>
        match mintPossibility params a.epoch a.ts (vo == 1) lb la with
        | none => "panic"
        | some (batch, amount) =>
          match buildOutputs batch amount (runDist a) with
          | .nil => "nil"
          | .panic => "panic"
          | .tx k s li => s!"tx {joinNats k} | {s} {li}"
      | none => "bad-op"
    | _, _ => "bad-op"
  | _ => "bad-op"

def run : IO Unit := runPure step

end Mixin.Driver.Mint
