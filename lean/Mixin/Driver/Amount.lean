import Mixin.Prelude.Proto
import Mixin.Model.Amount
/-! Line-protocol driver for the amount model (C33). -/
namespace Mixin.Driver.Amount
open Mixin.Proto Mixin.Amount

def showOpt : Option Nat → String
  | some n => s!"ok {n}"
  | none => "panic"

def bytesToChars (b : Bytes) : List Char := b.map (fun x => Char.ofNat x.toNat)
def charsToBytes (c : List Char) : Bytes := c.map (fun x => x.toNat.toUInt8)

def nat2 (a b : String) : Option (Nat × Nat) :=
  match a.toNat?, b.toNat? with
  | some x, some y => some (x, y)
  | _, _ => none

def step (t : List String) : String :=
  match t with
  | ["parse", h] =>
    match parseHex h with
    | some b => showOpt (parseDecimal (bytesToChars b))
    | none => "bad-op"
  | ["print", n] =>
    match n.toNat? with
    | some k => "ok " ++ toHex (charsToBytes (printAmount k))
    | none => "bad-op"
  | ["json", n] =>
    match n.toNat? with
    | some k =>
      let txt := printAmount k
      match parseDecimal txt with
      | some v => "ok " ++ toHex (charsToBytes (['"'] ++ txt ++ ['"'])) ++ s!" {v}"
      | none => "panic"
    | none => "bad-op"
  | ["ofuint", n] =>
    match n.toNat? with
    | some k => s!"ok {ofUint k}"
    | none => "bad-op"
  | ["add", a, b] => match nat2 a b with | some (x, y) => showOpt (add x y) | none => "bad-op"
  | ["sub", a, b] => match nat2 a b with | some (x, y) => showOpt (sub x y) | none => "bad-op"
  | ["count", a, b] => match nat2 a b with | some (x, y) => showOpt (count x y) | none => "bad-op"
  | ["cmp", a, b] => match nat2 a b with | some (x, y) => s!"ok {cmp x y}" | none => "bad-op"
  | ["sign", a] => match a.toNat? with | some x => s!"ok {sign x}" | none => "bad-op"
  | ["mul", a, k] =>
    match a.toNat?, parseInt k with
    | some x, some y => showOpt (mul x y)
    | _, _ => "bad-op"
  | ["div", a, k] =>
    match a.toNat?, parseInt k with
    | some x, some y => showOpt (div x y)
    | _, _ => "bad-op"
  | ["product", a, b, z] =>
    match a.toNat?, b.toNat?, z.toNat? with
    | some x, some y, some w =>
      match ration x y with
      | some r => s!"ok {r.product w}"
      | none => "panic"
    | _, _, _ => "bad-op"
  | ["rcmp", a, b, c, d] =>
    match nat2 a b, nat2 c d with
    | some (x, y), some (u, v) =>
      match ration x y, ration u v with
      | some r, some s => s!"ok {r.cmp s}"
      | _, _ => "panic"
    | _, _ => "bad-op"
  | _ => "bad-op"

def run : IO Unit := runPure step

end Mixin.Driver.Amount
