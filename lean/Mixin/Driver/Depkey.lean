import Mixin.Prelude.Proto
import Mixin.Model.DepositKey
/-! Driver for the deposit key text: `depkey <chain hex(32 bytes)> <tx hex> <index>` answers
`ok <hex of the text>`. Bytes of the transaction string travel as Latin-1 characters. -/
namespace Mixin.Driver.Depkey
open Mixin.Proto

def step (t : List String) : String :=
  match t with
  | ["reset"] => "ok"
  | ["depkey", c, x, i] =>
    match parseHex c, parseHex x, i.toNat? with
    | some cb, some xb, some n =>
      if cb.length ≠ 32 then "bad-op" else
      let chain := (toHex cb).toList
      let tx := xb.map (fun b => Char.ofNat b.toNat)
      let out := Mixin.DepositKey.text chain tx n
      "ok " ++ toHex (out.map (fun ch => ch.toNat.toUInt8))
    | _, _, _ => "bad-op"
  | _ => "bad-op"

def run : IO Unit := runPure step

end Mixin.Driver.Depkey
