import Mixin.Prelude.Proto
import Mixin.Model.AggSig
/-! Line-protocol driver for the aggregate-signature model (C14). Stateless apart from the key vector. -/
namespace Mixin.Driver.AggSig
open Mixin.Proto Mixin.Cosi
open Mixin.AggSig (transcript sign verify)

def parsePt (s : String) : Option Pt :=
  if s.startsWith "x" then some Pt.bad else s.toNat?.map Pt.dl

structure St where
  publics : List Pt := []
  keyBytes : List Bytes := []

/-- key tokens `dlog:hex32` / `x:hex32` / `n` (nil pointer) -/
def parseKey (s : String) : Option (Pt × Bytes) :=
  if s = "n" then some (Pt.bad, []) else
  match s.splitOn ":" with
  | [d, h] => do let p ← parsePt d; let b ← parseHex h; pure (p, b)
  | _ => none

def parseKeys : List String → Option (List (Pt × Bytes))
  | [] => some []
  | t :: r => do let k ← parseKey t; let ks ← parseKeys r; pure (k :: ks)

def parseInts (s : String) : Option (List Int) :=
  if s = "-" then some [] else (s.splitOn ",").mapM parseInt

def parseNatList (s : String) : Option (List Nat) :=
  if s = "-" then some [] else (s.splitOn ",").mapM (·.toNat?)

def parsePrivs (s : String) : Option (List (Option Nat)) :=
  if s = "-" then some [] else
  (s.splitOn ",").mapM (fun t => if t = "n" then some none else t.toNat?.map some)

def step (st : St) (t : List String) : St × String :=
  match t with
  | ["reset"] => ({}, "ok")
  | "pub" :: ks =>
    match parseKeys ks with
    | some l => ({ publics := l.map (·.1), keyBytes := l.map (·.2) }, "ok")
    | none => (st, "bad-op")
  | ["transcript", signers] =>
    match parseInts signers with
    | some sg =>
      match transcript st.publics st.keyBytes sg with
      | some b => (st, "ok " ++ toHex b)
      | none => (st, "err")
    | none => (st, "bad-op")
  -- sign <signers> <privs> <seed hex> <msg> <w list> <z> <x>
  | ["sign", signers, privs, seed, _msg, w, z, x] =>
    match parseInts signers, parsePrivs privs, parseHex seed, parseNatList w, z.toNat?, x.toNat? with
    | some sg, some ps, some sd, some w, some z, some x =>
      match sign ps st.publics sg sd.length w z x with
      | some (Pt.dl r, s) => (st, s!"ok {r} {s}")
      | some (Pt.bad, s) => (st, s!"ok x {s}")
      | none => (st, "err")
    | _, _, _, _, _, _ => (st, "bad-op")
  -- verify <signers> <R|n> <S> <msg> <w list> <x>
  | ["verify", signers, r, s, _msg, w, x] =>
    if r = "n" then (st, "err") else
    match parseInts signers, parsePt r, s.toNat?, parseNatList w, x.toNat? with
    | some sg, some r, some s, some w, some x =>
      (st, if verify r s st.publics sg w x then "ok" else "err")
    | _, _, _, _, _ => (st, "bad-op")
  | _ => (st, "bad-op")

def run : IO Unit := runLoop ({} : St) step

end Mixin.Driver.AggSig
