import Mixin.Prelude.Proto
import Mixin.Model.RoundHash
/-! Line-protocol driver for the round hash model (C18).

    rh  <node> <number> <n> v:ts:hash …     common.ComputeRoundHash
    rhs <node> <number> <n> v:ts:hash …     storage.computeRoundHash
    fin <node> <number> <n> v:ts:hash …     kernel CacheRound.asFinal

    The hash function is instantiated with the identity, so the "hash" printed is the exact
    byte sequence `node ‖ be64(number) ‖ h₁ ‖ h₂ ‖ …` in the order the function hashes; the
    harness prints the same sequence from the order the real code left the slice in and checks
    (property mode) that real blake3 chained along that order gives the real result. -/
namespace Mixin.Driver.RoundHash
open Mixin.Proto hiding Bytes
open Mixin.BytesSnap Mixin.RoundHash

def parseSnap (s : String) : Option Snap :=
  match s.splitOn ":" with
  | [v, ts, h] =>
    match v.toNat?, ts.toNat?, parseHex h with
    | some v, some ts, some h =>
      if v < 256 ∧ ts < 2 ^ 64 ∧ h.length = 32 then some ⟨v, ts, h, 0⟩ else none
    | _, _, _ => none
  | _ => none

def parseSnaps (l : List String) : Option (List Snap) :=
  l.foldr (fun s acc =>
    match parseSnap s, acc with
    | some x, some r => some (x :: r)
    | _, _ => none) (some [])

def showRes : Option (Nat × Nat × Bytes) → String
  | none => "panic"
  | some (s, e, h) => s!"ok {s} {e} {toHex h}"

def step (t : List String) : String :=
  match t with
  -- concurrent batch: the model is a pure function, so concurrency cannot change any answer;
  -- a well-formed batch is "ok" (the harness compares every concurrent result on the real code)
  | ["conc", seed, g, iters] =>
    match seed.toNat?, g.toNat?, iters.toNat? with
    | some sd, some g, some it =>
      if sd < 2 ^ 64 ∧ 2 ≤ g ∧ g ≤ 64 ∧ 1 ≤ it ∧ it ≤ 100000 then "ok" else "bad-op"
    | _, _, _ => "bad-op"
  | op :: node :: number :: n :: rest =>
    match parseHex node, number.toNat?, n.toNat?, parseSnaps rest with
    | some node, some number, some n, some snaps =>
      if node.length ≠ 32 ∨ number ≥ 2 ^ 64 ∨ n ≠ snaps.length then "bad-op"
      else if op = "rh" then showRes (computeRoundHash id node number snaps)
      else if op = "rhs" then
        showRes (computeRoundHashStorage id node number (snaps.map (fun s => ⟨s, 0⟩)))
      else if op = "fin" then
        match asFinal id node number snaps with
        | none => "panic"
        | some none => "nil"
        | some (some r) => showRes (some r)
      else "bad-op"
    | _, _, _, _ => "bad-op"
  | _ => "bad-op"

def run : IO Unit := runPure step

end Mixin.Driver.RoundHash
