import Mixin.Prelude.Proto
import Mixin.Model.SnapCodec
/-! Line-protocol driver for the snapshot codec model (C07).

    dec <hex>                                       decode, dump fields, classify re-encoding
    enc <v> <node> <round> <refs> <txs> <ts> <sig> <topo>   VersionedMarshal
    pay <v> <node> <round> <refs> <txs> <ts> <sig>          versionedPayload
    heq <7 fields> <7 fields>                       payloads equal?
    hmut <7 fields> <7 fields>                      same, asked of one object mutated in place

    refs: `-` or `self:ext`; txs: `-` or comma-joined hex; sig: `-` or `mask:hex`. -/
namespace Mixin.Driver.SnapCodec
open Mixin.Proto hiding Bytes
open Mixin.BytesSnap Mixin.SnapCodec

def parseRefs (s : String) : Option (Option RoundLink) :=
  if s = "-" then some none else
  match s.splitOn ":" with
  | [a, b] =>
    match parseHex a, parseHex b with
    | some x, some y => some (some ⟨x, y⟩)
    | _, _ => none
  | _ => none

def parseTxs (s : String) : Option (List Bytes) :=
  if s = "-" then some [] else
  (s.splitOn ",").foldr (fun h acc =>
    match parseHex h, acc with
    | some x, some l => some (x :: l)
    | _, _ => none) (some [])

def parseSig (s : String) : Option (Option CosiSig) :=
  if s = "-" then some none else
  match s.splitOn ":" with
  | [m, b] =>
    match m.toNat?, parseHex b with
    | some x, some y => some (some ⟨x, y⟩)
    | _, _ => none
  | _ => none

def parseSnap (v node round refs txs ts sig : String) : Option Snapshot :=
  match v.toNat?, parseHex node, round.toNat?, parseRefs refs, parseTxs txs, ts.toNat?, parseSig sig with
  | some v, some n, some r, some rl, some t, some ts, some sg =>
    let okRl : Bool := match rl with
      | none => true
      | some l => l.self.length == 32 && l.ext.length == 32
    let okSg : Bool := match sg with
      | none => true
      | some c => decide (c.mask < 2 ^ 64) && c.sig.length == 64
    if v < 256 ∧ n.length = 32 ∧ r < 2 ^ 64 ∧ ts < 2 ^ 64 ∧ t.all (fun h => h.length == 32)
      ∧ okRl ∧ okSg
    then some ⟨v, n, r, rl, t, ts, sg⟩ else none
  | _, _, _, _, _, _, _ => none

def showRefs : Option RoundLink → String
  | none => "-"
  | some r => toHex r.self ++ ":" ++ toHex r.ext

def showTxs (l : List Bytes) : String :=
  if l.isEmpty then "-" else ",".intercalate (l.map toHex)

def showSig : Option CosiSig → String
  | none => "-"
  | some c => s!"{c.mask}:" ++ toHex c.sig

def showSnap (s : Snapshot) : String :=
  s!"{s.version} {toHex s.nodeId} {s.round} {showRefs s.refs} {showTxs s.txs} {s.ts} {showSig s.sig}"

def showBytes : Option Bytes → String
  | some b => "ok " ++ toHex b
  | none => "panic"

def payloadsEqual : Option Snapshot → Option Snapshot → String
  | some s, some s' =>
    match versionedPayload s, versionedPayload s' with
    | some p, some p' => if p = p' then "eq" else "ne"
    | _, _ => "panic"
  | _, _ => "bad-op"

def step (t : List String) : String :=
  match t with
  | ["dec", h] =>
    match parseHex h with
    | none => "bad-op"
    | some b =>
      match unmarshalVersionedSnapshot b with
      | none => "reject"
      | some (s, topo) =>
        let cls :=
          match versionedMarshal s topo, encodeSnapshotPayload s true with
          | some full, some body =>
            if full = b then "full" else if body = b ∧ topo = 0 then "nosuffix" else "noncanon"
          | _, _ => "unencodable"
        s!"ok {showSnap s} {topo} {cls}"
  | ["enc", v, node, round, refs, txs, ts, sig, topo] =>
    match parseSnap v node round refs txs ts sig, topo.toNat? with
    | some s, some tp => if tp < 2 ^ 64 then showBytes (versionedMarshal s tp) else "bad-op"
    | _, _ => "bad-op"
  | ["pay", v, node, round, refs, txs, ts, sig] =>
    match parseSnap v node round refs txs ts sig with
    | some s => showBytes (versionedPayload s)
    | none => "bad-op"
  | ["heq", v, node, round, refs, txs, ts, sig, v', node', round', refs', txs', ts', sig'] =>
    payloadsEqual (parseSnap v node round refs txs ts sig) (parseSnap v' node' round' refs' txs' ts' sig')
  -- the same question asked of one object mutated in place after its Hash field was filled:
  -- in the model the hash is a function of the payload, so the answer is the same
  | ["hmut", v, node, round, refs, txs, ts, sig, v', node', round', refs', txs', ts', sig'] =>
    payloadsEqual (parseSnap v node round refs txs ts sig) (parseSnap v' node' round' refs' txs' ts' sig')
  | _ => "bad-op"

def run : IO Unit := runPure step

end Mixin.Driver.SnapCodec
