import Mixin.Prelude.Proto
import Mixin.Model.ConsensusChainCodes
/-! Line-protocol driver for the consensus-chain model (C28).

Lines are `op args… | oracle…`: the part before `|` is what the Go harness executes, the
part after it carries what the harness observed of the inputs (resolved timestamps, payload
hashes, `TransactionType()` codes, reference heads) — never a decision. -/
namespace Mixin.Driver.ConsensusChain
open Mixin.Proto Mixin.ConsensusChain
open Mixin.Facts

def codes : Codes := realCodes

structure DState where
  st : Store
  mainnet : Bool
  forkAt : Nat

def init : DState := ⟨⟨[], []⟩, false, 0⟩

def env (d : DState) : Env := { mainnet := d.mainnet, forkAt := d.forkAt, hack := none }

def bytesToNat (b : Bytes) : Nat := b.foldl (fun acc x => acc * 256 + x.toNat) 0

def natToBytes (n : Nat) : (len : Nat) → Bytes
  | 0 => []
  | len + 1 => natToBytes (n / 256) len ++ [(n % 256).toUInt8]

def hash32 (s : String) : Option Nat :=
  match parseHex s with
  | some b => if b.length == 32 then some (bytesToNat b) else none
  | none => none

def hex4 (n : Nat) : String := toHex (natToBytes (n / 2 ^ 224) 4)

def bit (s : String) : Option Bool :=
  if s == "1" then some true else if s == "0" then some false else none

/-- `hash:type:mintSole:out0:isGenesis:nrefs:ref0` -/
def parseTx (s : String) : Option Tx :=
  match s.splitOn ":" with
  | [h, t, m, o, g, n, r] =>
    match hash32 h, t.toNat?, bit m, bit g, n.toNat? with
    | some h, some t, some m, some g, some n =>
      let out0 : Option (Option Nat) := if o == "-" then some none else o.toNat?.map some
      let refs : Option (List Nat) :=
        if n == 0 then (if r == "-" then some [] else none)
        else (hash32 r).map (fun x => x :: List.replicate (n - 1) 0)
      match out0, refs with
      | some o, some rs => some ⟨h, t, m, o, g, rs⟩
      | _, _ => none
    | _, _, _, _, _ => none
  | _ => none

def parseTxs : List String → Option (List Tx)
  | [] => some []
  | s :: rest =>
    match parseTx s, parseTxs rest with
    | some t, some ts => some (t :: ts)
    | _, _ => none

def showRec (r : CRec) : String :=
  let v := match r.val with | some x => hex4 x | none => "-"
  s!"{r.ts}:{hex4 r.snap}:{v}"

def dump (st : Store) : String :=
  if st.recs.isEmpty then "recs=-" else "recs=" ++ ",".intercalate (st.recs.map showRec)

def showD : Decision → String
  | .accept => "accept" | .reject => "reject" | .panic => "panic"

def bits (l : List Bool) : String := String.ofList (l.map (fun b => if b then '1' else '0'))

/-- what the per-type validator stage answered (only read when the model reaches that stage) -/
def tvOf (s : String) : Option String :=
  if s == "accept" || s == "reject" || s == "panic" then some s else none

def splitBar (t : List String) : List String × List String :=
  (t.takeWhile (· ≠ "|"), (t.dropWhile (· ≠ "|")).drop 1)

def step (d : DState) (t : List String) : DState × String :=
  let (op, orc) := splitBar t
  match op, orc with
  | ["reset"], [] => (init, "ok")
  | ["mode", m], [f] =>
    match bit m, f.toNat? with
    | some b, some k => ({ d with mainnet := b, forkAt := k }, "ok")
    | _, _ => (d, "bad-op")
  | ["clear"], [] =>
    if d.mainnet then (d, "bad-op") else ({ d with st := { d.st with recs := [] } }, "ok")
  | ["genesis"], [ts, sh, tx] =>
    match ts.toNat?, hash32 sh, parseTx tx with
    | some ts, some sh, some tx =>
      let snap : Snap := ⟨sh, ts, [tx.hash]⟩
      match writeConsensus codes (addBody d.st snap) snap tx none with
      | .ok st => ({ d with st := st }, "ok " ++ dump st)
      | .panic => (d, "panic " ++ dump d.st)
    | _, _, _ => (d, "bad-op")
  | "ksnap" :: fin :: self :: round :: _ts :: _k :: _specs, ots :: sh :: tvs :: rest =>
    -- oracle: ts, snapshot hash, answer of the per-type validator (only read when it is
    -- reached), n, n transaction hashes of the snapshot, then the found transactions
    match bit fin, bit self, round.toNat?, ots.toNat?, hash32 sh, tvOf tvs, rest with
    | some fin, some self, some round, some ts, some sh, some tv, ns :: rest2 =>
      match ns.toNat? with
      | some n =>
        let hs := (rest2.take n).map hash32
        if hs.length != n || hs.any Option.isNone then (d, "bad-op") else
        match parseTxs (rest2.drop n) with
        | some found =>
          let snap : Snap := ⟨sh, ts, hs.filterMap id⟩
          let k := validateKernel codes (env d) d.st snap self round found fin
          let ks := match k with
            | .accept => "accept" | .reject => "reject" | .panic => "panic"
            | .typeCheck => tv
          (d, s!"k={ks} b={bits (found.map (fun t => isBatchable codes t.ttype))}")
        | none => (d, "bad-op")
      | none => (d, "bad-op")
    | _, _, _, _, _, _, _ => (d, "bad-op")
  | ["cref", _ts, _spec], [ots, tx] =>
    match ots.toNat?, parseTx tx with
    | some ts, some tx => (d, "r=" ++ showD (validateRefs codes d.st (env d).hack ts tx))
    | _, _ => (d, "bad-op")
  | ["cwrite", _ts, body, shape, _spec], [ots, sh, other, tx] =>
    match ots.toNat?, hash32 sh, hash32 other, parseTx tx, bit body with
    | some ts, some sh, some other, some tx, some body =>
      let txs? : Option (List Nat) :=
        if shape == "S" then some [tx.hash] else if shape == "D" then some [other]
        else if shape == "M" then some [tx.hash, other] else if shape == "E" then some [] else none
      match txs? with
      | some txs =>
        let snap : Snap := ⟨sh, ts, txs⟩
        let st0 := if body then addBody d.st snap else d.st
        match writeConsensus codes st0 snap tx none with
        | .ok st => ({ d with st := st }, "ok " ++ dump st)
        | .panic => ({ d with st := st0 }, "panic " ++ dump st0)
      | none => (d, "bad-op")
    | _, _, _, _, _ => (d, "bad-op")
  | ["cop", _ts, _spec], [ots, sh, tx] =>
    match ots.toNat?, hash32 sh, parseTx tx with
    | some ts, some sh, some tx =>
      let snap : Snap := ⟨sh, ts, [tx.hash]⟩
      match validateRefs codes d.st (env d).hack ts tx with
      | .accept =>
        let st1 := addBody d.st snap
        if isConsensusType codes tx.ttype then
          match writeWithHack codes (env d) st1 snap tx with
          | .ok st2 => ({ d with st := st2 }, "r=accept w=ok " ++ dump st2)
          | .panic => ({ d with st := st1 }, "r=accept w=panic " ++ dump st1)
        else ({ d with st := st1 }, "r=accept w=- " ++ dump st1)
      | r => (d, s!"r={showD r} w=- " ++ dump d.st)
    | _, _, _ => (d, "bad-op")
  | _, _ => (d, "bad-op")

def run : IO Unit := runLoop init step

end Mixin.Driver.ConsensusChain
