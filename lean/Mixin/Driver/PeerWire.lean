import Mixin.Prelude.Proto
import Mixin.Model.PeerWire
import Mixin.Driver.PeerMsg
/-!
Line-protocol driver for the transport-plus-parser model (C08, `p2p/quic.go` in front of
`parseNetworkMessage`).

    wire <hex> <ck-table> <tx-table> <snap-table>   Send → Receive → parse
    trunc <k> <hex>                                  Receive on the first k bytes of the frame, then end of stream
    b-…                                              the builder ops of `peermsg`
-/
namespace Mixin.Driver.PeerWire
open Mixin.Proto Mixin.PeerMsg Mixin.PeerWire
open Mixin.Driver.PeerMsg (parseBoolTable parseSnapTable mkOracle showRes showMsg)

def step (t : List String) : String :=
  match t with
  | ["wire", h, ck, tx, sn] =>
    match parseHex h, parseBoolTable ck, parseBoolTable tx, parseSnapTable sn with
    | some d, some ck, some tx, some sn =>
      match sendFrame d with
      | none => "send-error"
      | some f =>
        let r0 := showRes showMsg (receiveParse (mkOracle ck tx sn false) f)
        let r1 := showRes showMsg (receiveParse (mkOracle ck tx sn true) f)
        if r0 = r1 then r0 else "oracle-miss"
    | _, _, _, _ => "bad-op"
  | ["trunc", k, h] =>
    match k.toNat?, parseHex h with
    | some k, some d =>
      match sendFrame d with
      | none => "bad-op"
      | some f =>
        if k < 1 ∨ k > f.length then "bad-op" else
        match receiveFrame (f.take k) with
        | .ok data _ => "ok " ++ toHex data
        | _ => "reject"
    | _, _ => "bad-op"
  | _ => Mixin.Driver.PeerMsg.step t

def run : IO Unit := runPure step

end Mixin.Driver.PeerWire
