import Mixin.Prelude.Proto
import Mixin.Model.ConsensusEffectsCodes
/-! Line-protocol driver for the class-vs-effects model (C28, subsystem `consensusfx`).
`fx <nonce> <U|D> <output letters>`: a transaction that is valid in every respect other than
the types of its outputs. The model answers its class, batchability, the verdict of `Validate`
for the batchable classes, and what finalizing it inside a two-transaction snapshot does to the
membership / custodian state and to the consensus head: nothing. -/
namespace Mixin.Driver.ConsensusFx
open Mixin.Proto Mixin.ConsensusEffects
open Mixin.Facts

def otypeOf (c : Char) : Option OType :=
  match c with
  | 's' => some .script | 'w' => some .wSubmit | 'c' => some .wClaim | 'p' => some .pledge
  | 'x' => some .cancel | 'a' => some .accept | 'r' => some .remove | 'u' => some .custUpdate
  | 'l' => some .custSlash | 'o' => some (.other 127)
  | _ => none

def outsOf (s : String) : Option (List OType) :=
  s.toList.foldr (fun c acc => match otypeOf c, acc with
    | some o, some l => some (o :: l)
    | _, _ => none) (some [])

def step (t : List String) : String :=
  match t with
  | ["reset"] => "ok"
  | ["fx", _nonce, inp, letters] =>
    let ins? : Option (List InKind) :=
      if inp == "U" then some [.utxo] else if inp == "D" then some [.deposit] else none
    match ins?, outsOf letters with
    | some ins, some outs =>
      if outs.isEmpty then "bad-op" else
      let cls := classOf ins outs
      let b := cls.batchable
      let tail := "nodes=same cust=same head=same"
      if !b then s!"t={cls.code} b=0 v=- k=- fin=- {tail}"
      else if shapeValid cls outs then s!"t={cls.code} b=1 v=accept k=accept fin=ok {tail}"
      else s!"t={cls.code} b=1 v=reject k=- fin=- {tail}"
    | _, _ => "bad-op"
  | _ => "bad-op"

def run : IO Unit := runPure step

end Mixin.Driver.ConsensusFx
