import Mixin.Prelude.Proto
import Mixin.Model.Graph
/-! Line-protocol driver for the storage half of the round-graph model (C20): the Badger
    transactions `StartNewRound` / `UpdateEmptyHeadRound` driven directly, also with arguments the
    kernel never passes.

    reset
    ids   n id…                                   the node ids whose links are printed
    start <node> <number> <self> <ext> <finalStart>
    empty <node> <number> <self> <ext>
    result: ok|panic, then  N <round at node>  S <round at self>  L <links node→ids…>
    a round prints as  number/ts/node/hash/refs.self/refs.ext, `-` when absent, `!` when
    readRound panics on it (stored hash zero). -/
namespace Mixin.Driver.Graphstore
open Mixin.Proto Mixin.Graph

structure St where
  s : Store
  ids : List Nat

def bytesVal (b : Bytes) : Nat := b.foldl (fun acc x => acc * 256 + x.toNat) 0
def parseHash (s : String) : Option Nat := (parseHex s).map bytesVal

def parseAll (l : List String) : Option (List Nat) :=
  l.foldr (fun s acc => match parseHash s, acc with
    | some x, some r => some (x :: r)
    | _, _ => none) (some [])

def emptyStore : Store := { rounds := fun _ => none, links := fun _ _ => 0 }

def showRound (s : Store) (k : Nat) : String :=
  if badRec s k then "!" else
  match s.rounds k with
  | none => "-"
  | some r =>
    match r.refs with
    | none => s!"{r.number}/{r.ts}/{r.node}/{r.hash}/-/-"
    | some rf => s!"{r.number}/{r.ts}/{r.node}/{r.hash}/{rf.self}/{rf.ext}"

def dump (st : St) (node self : Nat) : String :=
  s!"N {showRound st.s node} S {showRound st.s self} L" ++
    String.join (st.ids.map (fun x => s!" {st.s.links node x}"))

def step (st : St) (t : List String) : St × String :=
  match t with
  | ["reset"] => ({ s := emptyStore, ids := [] }, "ok")
  | "ids" :: n :: rest =>
    match n.toNat?, parseAll rest with
    | some n, some ids => if ids.length = n then ({ st with ids := ids }, "ok") else (st, "bad-op")
    | _, _ => (st, "bad-op")
  | ["start", nd, num, sf, ex, fs] =>
    match parseHash nd, num.toNat?, parseHash sf, parseHash ex, fs.toNat? with
    | some nd, some num, some sf, some ex, some fs =>
      match storeStartNewRound st.s nd num ⟨sf, ex⟩ fs with
      | some s' => let st' := { st with s := s' }; (st', "ok " ++ dump st' nd sf)
      | none => (st, "panic " ++ dump st nd sf)
    | _, _, _, _, _ => (st, "bad-op")
  | ["empty", nd, num, sf, ex] =>
    match parseHash nd, num.toNat?, parseHash sf, parseHash ex with
    | some nd, some num, some sf, some ex =>
      match storeUpdateEmptyHead st.s nd num ⟨sf, ex⟩ with
      | some s' => let st' := { st with s := s' }; (st', "ok " ++ dump st' nd sf)
      | none => (st, "panic " ++ dump st nd sf)
    | _, _, _, _ => (st, "bad-op")
  | _ => (st, "bad-op")

def run : IO Unit := runLoop ({ s := emptyStore, ids := [] } : St) step

end Mixin.Driver.Graphstore
