import Mixin.Prelude.Proto
import Mixin.Model.Ledger
/-! Line-protocol driver for the ledger model (C15, C16, C17). -/
namespace Mixin.Driver.Ledger
open Mixin.Proto Mixin.Ledger

structure D where
  st : State := {}
  pool : List (Id × Tx) := []
  caps : List (Id × Nat) := []
  assets : List Id := []
  xin : Id := 0
  fee : Nat := 0
  opq : Nat := 0
  badAkeys : List Id := []
  badDeps : List Id := []

def D.params (d : D) : Params :=
  { cap := fun a => (aget d.caps a).getD 0, xin := d.xin, claimFee := d.fee,
    akeyOk := fun k => !d.badAkeys.contains k, depTxOk := fun k => !d.badDeps.contains k }

def splitOn1 (s : String) (c : Char) : List String :=
  if s = "-" then [] else s.split (· == c) |>.toList |>.map (·.toString)

def allSome {α : Type} : List (Option α) → Option (List α)
  | [] => some []
  | none :: _ => none
  | some a :: r => (allSome r).map (a :: ·)

def nats (xs : List String) : Option (List Nat) := allSome (xs.map (·.toNat?))

def outTypeOf : String → Option OutType
  | "s" => some .script | "w" => some .withdrawalSubmit | "c" => some .withdrawalClaim
  | "p" => some .nodePledge | "a" => some .nodeAccept | "n" => some .nodeCancel
  | "r" => some .nodeRemove | "u" => some .custodianUpdate | "x" => some .custodianSlash
  | "z" => some .unknown | _ => none

def outTypeStr : OutType → String
  | .script => "s" | .withdrawalSubmit => "w" | .withdrawalClaim => "c" | .nodePledge => "p"
  | .nodeAccept => "a" | .nodeCancel => "n" | .nodeRemove => "r" | .custodianUpdate => "u"
  | .custodianSlash => "x" | .unknown => "z"

def parseInput (s : String) : Option Input :=
  match splitOn1 s ':' with
  | ["g"] => some .genesis
  | ["u", h, i] => do some (.utxo (← h.toNat?) (← i.toNat?))
  | ["d", k, c, a, m] => do some (.deposit (← k.toNat?) (← c.toNat?) (← a.toNat?) (← m.toNat?))
  | ["m", b, a] => do some (.mint (← b.toNat?) (← a.toNat?))
  | _ => none

def parseOutput (s : String) : Option Output :=
  match splitOn1 s ':' with
  | [t, a, ks] => do some ⟨← outTypeOf t, ← a.toNat?, ← nats (splitOn1 ks '+')⟩
  | _ => none

def parseBool : String → Option Bool
  | "1" => some true | "0" => some false | _ => none

def parseTx (t : List String) : Option Tx :=
  match t with
  | [id, asset, sigok, custok, _nonce, ins, outs, refs] => do
    some { id := ← id.toNat?, asset := ← asset.toNat?,
           inputs := ← allSome ((splitOn1 ins ',').map parseInput),
           outputs := ← allSome ((splitOn1 outs ',').map parseOutput),
           refs := ← nats (splitOn1 refs ','),
           sigOk := ← parseBool sigok, custOk := ← parseBool custok }
  | _ => none

def failStr : Option Fail → String
  | none => "ok" | some .err => "err" | some .panic => "panic"

def joinWith (sep : String) : List String → String
  | [] => "-"
  | x :: r => r.foldl (fun acc y => acc ++ sep ++ y) x

def natList (xs : List Nat) : String := joinWith "+" (xs.map toString)

def insertSorted (x : String) : List String → List String
  | [] => [x]
  | y :: r => if x < y then x :: y :: r else y :: insertSorted x r

def sortStrings (xs : List String) : List String := xs.foldl (fun acc x => insertSorted x acc) []

def insertNat (x : Nat) : List Nat → List Nat
  | [] => [x]
  | y :: r => if x < y then x :: y :: r else y :: insertNat x r

def sortNats (xs : List Nat) : List Nat := xs.foldl (fun acc x => insertNat x acc) []

def optId : Option Id → String
  | none => "0" | some t => toString t

def dump (d : D) : String :=
  let s := d.st
  let ls : List String :=
    s.utxo.map (fun (k, u) => s!"U:{k.1}:{k.2}:{u.asset}:{outTypeStr u.typ}:{u.amount}:{natList u.keys}:{optId u.lock}") ++
    s.ghost.map (fun (k, t) => s!"G:{k}:{t}") ++
    s.deposit.map (fun (k, t) => s!"D:{k}:{t}") ++
    s.mint.map (fun (b, (a, t)) => s!"M:{b}:{a}:{t}") ++
    s.txs.map (fun (k, _) => s!"T:{k}") ++
    s.fin.map (fun (k, v) => s!"F:{k}:{v}") ++
    s.assetInfo.map (fun (k, (c, a)) => s!"I:{k}:{c}:{a}") ++
    s.total.map (fun (k, v) => s!"A:{k}:{v}") ++
    s.withdrawal.map (fun (k, v) => s!"W:{k}:{v}") ++
    s.unique.map (fun ((t, n), _) => s!"Q:{t}:{n}") ++
    s.snaps.map (fun (k, sn) => s!"S:{k}:{sn.node}:{sn.round}:{sn.ts}:{natList (sortNats sn.txs)}") ++
    s.topo.map (fun (k, v) => s!"O:{k}:{v}") ++
    s.snapTopo.map (fun (k, v) => s!"P:{k}:{v}") ++
    s.work.map (fun ((n, r, ts), (sn, sg)) => s!"K:{n}:{r}:{ts}:{sn}:{sg}") ++
    [s!"X:{d.opq}"]
  joinWith " " (sortStrings ls)

def parseSnap (t : List String) : Option (Snap × Nat) :=
  match t with
  | [id, node, round, ts, topo, sg, txs] => do
    some (⟨← id.toNat?, ← node.toNat?, ← round.toNat?, ← ts.toNat?, ← topo.toNat?, ← nats (splitOn1 txs ',')⟩,
          ← sg.toNat?)
  | _ => none

def step (d : D) (t : List String) : D × String :=
  match t with
  | ["reset"] => ({}, "ok")
  | ["config", x, f] =>
    match x.toNat?, f.toNat? with
    | some x, some f => ({ d with xin := x, fee := f }, "ok")
    | _, _ => (d, "bad-op")
  | ["asset", a, c] =>
    match a.toNat?, c.toNat? with
    | some a, some c => ({ d with caps := aset d.caps a c, assets := d.assets ++ [a] }, "ok")
    | _, _ => (d, "bad-op")
  | ["badakey", n] =>
    match n.toNat? with
    | some n => ({ d with badAkeys := n :: d.badAkeys }, "ok")
    | none => (d, "bad-op")
  | ["baddep", n] =>
    match n.toNat? with
    | some n => ({ d with badDeps := n :: d.badDeps }, "ok")
    | none => (d, "bad-op")
  | ["opaque", n] =>
    match n.toNat? with
    | some n => ({ d with opq := n }, "ok")
    | none => (d, "bad-op")
  | "tx" :: rest =>
    match parseTx rest with
    | some tx => ({ d with pool := aset d.pool tx.id tx }, "ok")
    | none => (d, "bad-op")
  | ["ginfo", a, c, k] =>
    match a.toNat?, c.toNat?, k.toNat? with
    | some a, some c, some k =>
      match writeAssetInfo d.st a (c, k) with
      | .ok s => ({ d with st := s }, "ok")
      | .error _ => (d, "err")
    | _, _, _ => (d, "bad-op")
  | "gsnap" :: rest =>
    -- one iteration of LoadGenesis: writeTransaction, writeSnapshot, writeSnapshotWork(nil)
    match parseSnap rest with
    | some (sn, sg) =>
      match sn.txs with
      | [txh] =>
        match aget d.pool txh with
        | some tx =>
          let r := do
            let s1 ← writeTransactionInner d.st tx
            let s2 ← writeSnapshotInner d.params.cap s1 sn
            pure (writeSnapshotWork s2 sn sg)
          match r with
          | .ok s => ({ d with st := s }, "ok")
          | .error e => (d, failStr (some e))
        | none => (d, "bad-op")
      | _ => (d, "bad-op")
    | none => (d, "bad-op")
  | ["validate", id, fork] =>
    match id.toNat?, parseBool fork with
    | some id, some fork =>
      match aget d.pool id with
      | some tx =>
        let (ok, s) := validate d.params d.st tx fork
        ({ d with st := s }, if ok then "ok" else "reject")
      | none => (d, "bad-op")
    | _, _ => (d, "bad-op")
  | ["lock", id, fork] =>
    match id.toNat?, parseBool fork with
    | some id, some fork =>
      match aget d.pool id with
      | some tx =>
        let (f, s) := LockInputs d.st tx fork
        ({ d with st := s }, match f with | none => "ok" | some .err => "reject" | some .panic => "panic")
      | none => (d, "bad-op")
    | _, _ => (d, "bad-op")
  | ["put", id] =>
    match id.toNat? with
    | some id =>
      match aget d.pool id with
      | some tx =>
        let (f, s) := WriteTransaction d.st tx
        ({ d with st := s }, match f with | none => "ok" | some .err => "reject" | some .panic => "panic")
      | none => (d, "bad-op")
    | none => (d, "bad-op")
  | "snap" :: rest =>
    match parseSnap rest with
    | some (sn, sg) =>
      let (f, s) := WriteSnapshot d.params.cap d.st sn sg
      ({ d with st := s }, failStr f)
    | none => (d, "bad-op")
  | "kvalidate" :: rest =>
    match rest.reverse with
    | fin :: revSnap =>
      match parseSnap revSnap.reverse, parseBool fin with
      | some (sn, _), some finalized =>
        match allSome (sn.txs.map (aget d.pool)) with
        | some members =>
          let (f, s) := kernelValidate d.params sn.id (decide (sn.txs.length > 1)) finalized members d.st
          ({ d with st := s }, match f with | none => "ok" | some .err => "reject" | some .panic => "panic")
        | none => (d, "bad-op")
      | _, _ => (d, "bad-op")
    | [] => (d, "bad-op")
  | "ksnap" :: rest =>
    -- TopoWrite: WriteSnapshot, and a panic on an error as well
    match parseSnap rest with
    | some (sn, sg) =>
      let (f, s) := WriteSnapshot d.params.cap d.st sn sg
      ({ d with st := s }, match f with | none => "ok" | some _ => "crash")
    | none => (d, "bad-op")
  | "csnap" :: _n :: rest =>
    -- queued writers: the snapshots arrive in the order in which the real writers committed
    let rec go (fuel : Nat) (ts : List String) (st : State) (acc : List String) : Option (State × List String) :=
      match fuel with
      | 0 => none
      | fuel + 1 =>
        match ts with
        | [] => some (st, acc.reverse)
        | a :: b :: c :: e :: g :: h :: i :: more =>
          match parseSnap [a, b, c, e, g, h, i] with
          | some (sn, sg) =>
            let (f, s) := WriteSnapshot d.params.cap st sn sg
            go fuel more s (failStr f :: acc)
          | none => none
        | _ => none
    match go (rest.length + 1) rest d.st [] with
    | some (s, outs) => ({ d with st := s }, joinWith " " outs)
    | none => (d, "bad-op")
  | ["nop"] => (d, "skip")
  | ["persist", id, fork] =>
    match id.toNat?, parseBool fork with
    | some id, some fork =>
      match aget d.pool id with
      | some tx =>
        match LockInputs d.st tx fork with
        | (some .err, _) => (d, "reject")
        | (some .panic, _) => (d, "panic")
        | (none, s1) =>
          let (f, s2) := WriteTransaction s1 tx
          ({ d with st := s2 }, match f with | none => "ok" | some .err => "reject" | some .panic => "panic")
      | none => (d, "bad-op")
    | _, _ => (d, "bad-op")
  | ["dump"] => (d, dump d)
  | ["supply"] =>
    (d, joinWith " " (d.assets.map (fun a => s!"{a}:{readTotal d.st a}:{unspent d.st a}")))
  | _ => (d, "bad-op")

def run : IO Unit := runLoop ({} : D) step

end Mixin.Driver.Ledger
