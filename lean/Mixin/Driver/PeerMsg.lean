import Mixin.Prelude.Proto
import Mixin.Model.PeerMsg
/-!
Line-protocol driver for the peer-message model (C08).

    parse <version> <hex> <ck-table> <tx-table> <snap-table>
    txpl <hex> <tx-table>                 parseTransactionsPayload
    points <hex>                          unmarshalSyncPoints
    b-…                                   builders (see `step`)
    huge …                                Go-only property-mode probe, answered `skip`

Tables carry the oracle answers computed by the harness with the real decoders:
`_` is the empty table, otherwise comma separated `key:answer`.  The model is run twice,
once answering every *missing* key negatively and once positively; when the two results
differ the line's table was incomplete and the driver answers `oracle-miss` (never a guess).
-/
namespace Mixin.Driver.PeerMsg
open Mixin.Proto Mixin.PeerMsg

def splitOn1 (s : String) (c : String) : List String := s.splitOn c

def parseList (s : String) : Option (List Bytes) :=
  if s = "_" then some [] else (s.splitOn ",").mapM parseHex

def parseBoolTable (s : String) : Option (List (Bytes × Bool)) :=
  if s = "_" then some [] else
  (s.splitOn ",").mapM (fun e =>
    match e.splitOn ":" with
    | [k, "0"] => (parseHex k).map (fun b => (b, false))
    | [k, "1"] => (parseHex k).map (fun b => (b, true))
    | _ => none)

def parseSnapAnswer (s : String) : Option (Option SnapInfo) :=
  if s = "x" then some none else
  match s.splitOn "/" with
  | [body, "-", "0"] => (parseHex body).map (fun b => some { body := b, cosi := none })
  | [body, sg, mask] =>
    match parseHex body, parseHex sg, mask.toNat? with
    | some b, some g, some m => some (some { body := b, cosi := some (g, m) })
    | _, _, _ => none
  | _ => none

def parseSnapTable (s : String) : Option (List (Bytes × Option SnapInfo)) :=
  if s = "_" then some [] else
  (s.splitOn ",").mapM (fun e =>
    match e.splitOn ":" with
    | [k, a] =>
      match parseHex k, parseSnapAnswer a with
      | some b, some r => some (b, r)
      | _, _ => none
    | _ => none)

def lookup {β : Type} (tbl : List (Bytes × β)) (k : Bytes) : Option β :=
  match tbl.find? (fun e => e.1 == k) with
  | some e => some e.2
  | none => none

def dummySnap : SnapInfo := { body := [0xde, 0xad], cosi := some (zeros 64, 1) }

def mkOracle (ck tx : List (Bytes × Bool)) (sn : List (Bytes × Option SnapInfo)) (dflt : Bool) : Oracle :=
  { checkKey := fun k => (lookup ck k).getD dflt
    tx := fun b => (lookup tx b).getD dflt
    snap := fun b => match lookup sn b with
      | some r => r
      | none => if dflt then some dummySnap else none }

def showList (l : List Bytes) : String :=
  if l.isEmpty then "_" else ",".intercalate (l.map toHex)

def showSnap : Option SnapInfo → String
  | none => "-"
  | some i =>
    match i.cosi with
    | none => toHex i.body ++ "/-/0"
    | some (g, m) => toHex i.body ++ "/" ++ toHex g ++ "/" ++ toString m

def showPoints (l : List SyncPoint) : String :=
  if l.isEmpty then "_" else
  ",".intercalate (l.map (fun p => toHex p.nodeId ++ "/" ++ toString p.number ++ "/" ++ toHex p.hash))

def showMsg (m : Msg) : String :=
  s!"ok t={m.type.toNat} v={m.version.toNat} snap={showSnap m.snapshot} sh={toHex m.snapshotHash} " ++
  s!"txs={showList m.transactions} th={toHex m.transactionHash} cs={toHex m.cosiSig} cm={m.cosiMask} " ++
  s!"com={toHex m.commitment} cha={toHex m.challenge} rsp={toHex m.response} want={showList m.wantTxs} " ++
  s!"coms={showList m.commitments} graph={showPoints m.graph} data={toHex m.data} uns={toHex m.unsigned} " ++
  s!"sig={match m.signature with | some s => toHex s | none => "-"}"

def showRes {α : Type} (f : α → String) : Res α → String
  | .ok a => f a
  | .reject => "reject"
  | .panic => "panic"

def showBuilt : Option Bytes → String
  | some b => "ok " ++ toHex b
  | none => "panic"

def parsePoint (s : String) : Option SyncPoint :=
  match s.splitOn "/" with
  | [n, num, h] =>
    match parseHex n, num.toNat?, parseHex h with
    | some a, some b, some c => some { nodeId := a, number := b, hash := c }
    | _, _, _ => none
  | _ => none

def parsePoints (s : String) : Option (List SyncPoint) :=
  if s = "_" then some [] else (s.splitOn ",").mapM parsePoint

def step (t : List String) : String :=
  match t with
  | ["parse", v, h, ck, tx, sn] =>
    match v.toNat?, parseHex h, parseBoolTable ck, parseBoolTable tx, parseSnapTable sn with
    | some v, some b, some ck, some tx, some sn =>
      if v ≥ 256 then "bad-op" else
      let r0 := showRes showMsg (parse (mkOracle ck tx sn false) v.toUInt8 b)
      let r1 := showRes showMsg (parse (mkOracle ck tx sn true) v.toUInt8 b)
      if r0 = r1 then r0 else "oracle-miss"
    | _, _, _, _, _ => "bad-op"
  | ["txpl", h, tx] =>
    match parseHex h, parseBoolTable tx with
    | some b, some tx =>
      let r0 := showRes (fun l => "ok " ++ showList l) (parseTransactionsPayload (mkOracle [] tx [] false) b)
      let r1 := showRes (fun l => "ok " ++ showList l) (parseTransactionsPayload (mkOracle [] tx [] true) b)
      if r0 = r1 then r0 else "oracle-miss"
    | _, _ => "bad-op"
  | ["points", h] =>
    match parseHex h with
    | some b => showRes (fun l => "ok " ++ showPoints l) (unmarshalSyncPoints b)
    | none => "bad-op"
  | ["b-auth", d] =>
    match parseHex d with
    | some d => showBuilt (some (buildAuthenticationMessage d))
    | none => "bad-op"
  | ["b-ann", _, sg, r, sn] =>
    match parseHex sg, parseHex r, parseHex sn with
    | some sg, some r, some sn => showBuilt (some (buildAnnouncement sg r sn))
    | _, _, _ => "bad-op"
  | ["b-com", _, sg, h, r, w] =>
    match parseHex sg, parseHex h, parseHex r, parseList w with
    | some sg, some h, some r, some w => showBuilt (some (buildCommitment sg h r w))
    | _, _, _, _ => "bad-op"
  | ["b-txc", h, cs, m, txs] =>
    match parseHex h, parseHex cs, m.toNat?, parseList txs with
    | some h, some cs, some m, some txs => showBuilt (buildTransactionChallenge h cs m txs)
    | _, _, _, _ => "bad-op"
  | ["b-full", sn, c, ch, txs] =>
    match parseHex sn, parseHex c, parseHex ch, parseList txs with
    | some sn, some c, some ch, some txs => showBuilt (buildFullChallenge sn c ch txs)
    | _, _, _, _ => "bad-op"
  | ["b-rsp", h, si] =>
    match parseHex h, parseHex si with
    | some h, some si => showBuilt (some (buildResponse h si))
    | _, _ => "bad-op"
  | ["b-fin", sn] =>
    match parseHex sn with
    | some sn => showBuilt (some (buildFinalization sn))
    | none => "bad-op"
  | ["b-conf", h] =>
    match parseHex h with
    | some h => showBuilt (some (buildSnapshotConfirm h))
    | none => "bad-op"
  | ["b-tx", x] =>
    match parseHex x with
    | some x => showBuilt (some (buildTransaction x))
    | none => "bad-op"
  | ["b-txs", typ, txs] =>
    match typ.toNat?, parseList txs with
    | some typ, some txs => if typ ≥ 256 then "bad-op" else showBuilt (buildTransactions txs typ.toUInt8)
    | _, _ => "bad-op"
  | ["b-req", h] =>
    match parseHex h with
    | some h => showBuilt (some (buildTransactionRequest h))
    | none => "bad-op"
  | ["b-graph", _, sg, pts] =>
    match parseHex sg, parsePoints pts with
    | some sg, some pts => showBuilt (buildGraph sg pts)
    | _, _ => "bad-op"
  | ["b-pre", _, sg, keys] =>
    match parseHex sg, parseList keys with
    | some sg, some keys => showBuilt (buildCommitments sg keys)
    | _, _ => "bad-op"
  | ["huge", _, _] => "skip"
  | _ => "bad-op"

def run : IO Unit := runPure step

end Mixin.Driver.PeerMsg
