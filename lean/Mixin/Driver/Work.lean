import Mixin.Prelude.Proto
import Mixin.Model.Work
/-! Line-protocol driver for the round-work model (C26).

    reset | reopen | submit (or submitx: same, marks a malformed call) node round credit n (hash ts k s1 … sk)×n | works node day
    | offset node | ckpt node -/
namespace Mixin.Driver.Work
open Mixin.Proto Mixin.Work

def parseSnaps : Nat → List Nat → Option (List Snap)
  | 0, [] => some []
  | 0, _ => none
  | n + 1, h :: ts :: k :: rest =>
    if rest.length < k then none else
    match parseSnaps n (rest.drop k) with
    | some r => some ({ hash := h, ts := ts, signers := rest.take k } :: r)
    | none => none
  | _ + 1, _ => none

def showNats (l : List Nat) : String :=
  if l.isEmpty then "-" else ",".intercalate (l.map toString)

def submitLine (s : S) (node round credit n : String) (rest : List String) : S × String :=
    match node.toNat?, round.toNat?, credit.toNat?, n.toNat?, rest.mapM (·.toNat?) with
    | some node, some round, some credit, some n, some nums =>
      if credit > 1 then (s, "bad-op") else
      match parseSnaps n nums with
      | some snaps =>
        match writeRoundWork s node round snaps (credit == 1) with
        | some s' => (s', "ok")
        | none => (s, "panic")
      | none => (s, "bad-op")
    | _, _, _, _, _ => (s, "bad-op")

def stepLine (s : S) (t : List String) : S × String :=
  match t with
  | ["reset"] => (empty, "ok")
  | ["reopen"] => (s, "ok")
  | "submitx" :: node :: round :: credit :: n :: rest => submitLine s node round credit n rest
  | "submit" :: node :: round :: credit :: n :: rest => submitLine s node round credit n rest
  | ["works", node, d] =>
    match node.toNat?, d.toNat? with
    | some node, some d => (s, s!"ok {getC (node, d) s.lead} {getC (node, d) s.sign}")
    | _, _ => (s, "bad-op")
  | ["offset", node] =>
    match node.toNat? with
    | some node => (s, s!"ok {(readOff node s.off).1}")
    | none => (s, "bad-op")
  | ["ckpt", node] =>
    match node.toNat? with
    | some node => (s, s!"ok {(readOff node s.off).1} {showNats (readOff node s.off).2}")
    | none => (s, "bad-op")
  | _ => (s, "bad-op")

def run : IO Unit := runLoop empty stepLine

end Mixin.Driver.Work
