import Mixin.Prelude.Proto
import Mixin.Model.Work
/-! Line-protocol driver for the round-work model (C26).

    reset | reopen | submit (or submitx: same, marks a malformed call) node round credit n (hash ts k s1 … sk)×n | works node day
    | offset node | ckpt node
    | rec node round id ts k s1 … sk (work record) | readr node round | subr node round credit
    | conc <submissions of goroutine 1 separated by |> / <goroutine 2> / … -/
namespace Mixin.Driver.Work
open Mixin.Proto Mixin.Work

def parseSnaps : Nat → List Nat → Option (List Snap)
  | 0, [] => some []
  | 0, _ => none
  | n + 1, h :: ts :: k :: rest =>
    if rest.length < k then none else
    match parseSnaps n (rest.drop k) with
    | some r => some ({ hash := h, ts := ts, signers := rest.take k } :: r)
    | none => none
  | _ + 1, _ => none

def showNats (l : List Nat) : String :=
  if l.isEmpty then "-" else ",".intercalate (l.map toString)

def parseSubmit (node round credit n : String) (rest : List String) :
    Option (Nat × Nat × Bool × List Snap) :=
  match node.toNat?, round.toNat?, credit.toNat?, n.toNat?, rest.mapM (·.toNat?) with
  | some node, some round, some credit, some n, some nums =>
    if credit > 1 then none else
    match parseSnaps n nums with
    | some snaps => some (node, round, credit == 1, snaps)
    | none => none
  | _, _, _, _, _ => none

def submitLine (x : SR) (node round credit n : String) (rest : List String) : SR × String :=
  match parseSubmit node round credit n rest with
  | some (node, round, credit, snaps) =>
    match submitSR x node round snaps credit with
    | some x' => (x', "ok")
    | none => (x, "panic")
  | none => (x, "bad-op")

/-- split a token list at a separator token -/
def splitAt (sep : String) (l : List String) : List (List String) :=
  let r := l.foldr (fun t (acc : List String × List (List String)) =>
    if t = sep then ([], acc.1 :: acc.2) else (t :: acc.1, acc.2)) ([], [])
  r.1 :: r.2

/-- `conc`: goroutines separated by `/`, the consecutive submissions of one goroutine by `|`.
    Every goroutine has its own proposer, so the calls commute; they are applied one after the
    other. Output: one letter per call (o = stored, p = panic), goroutines separated by `/`. -/
def concLine (x : SR) (toks : List String) : Option (SR × String) :=
  let groups := (splitAt "/" toks).map (splitAt "|")
  let rec runGroup (x : SR) (out : String) : List (List String) → Option (SR × String)
    | [] => some (x, out)
    | sub :: rest =>
      match sub with
      | node :: round :: credit :: n :: r =>
        match parseSubmit node round credit n r with
        | some (node, round, credit, snaps) =>
          match submitSR x node round snaps credit with
          | some x' => runGroup x' (out ++ "o") rest
          | none => runGroup x (out ++ "p") rest
        | none => none
      | _ => none
  let rec runAll (x : SR) (outs : List String) : List (List (List String)) → Option (SR × List String)
    | [] => some (x, outs.reverse)
    | g :: rest =>
      match runGroup x "" g with
      | some (x', o) => runAll x' (o :: outs) rest
      | none => none
  match runAll x [] groups with
  | some (x', outs) => some (x', "ok " ++ "/".intercalate outs)
  | none => none

def showSnap (w : Snap) : String := s!"{w.hash}:{w.ts}:{showNats w.signers}"

def stepLine (x : SR) (t : List String) : SR × String :=
  match t with
  | ["reset"] => (emptySR, "ok")
  | ["reopen"] => (x, "ok")
  | "submitx" :: node :: round :: credit :: n :: rest => submitLine x node round credit n rest
  | "submit" :: node :: round :: credit :: n :: rest => submitLine x node round credit n rest
  | "conc" :: toks =>
    match concLine x toks with
    | some r => r
    | none => (x, "bad-op")
  | "rec" :: node :: round :: id :: ts :: k :: sg =>
    match node.toNat?, round.toNat?, id.toNat?, ts.toNat?, k.toNat?, sg.mapM (·.toNat?) with
    | some node, some round, some id, some ts, some k, some sg =>
      if k = sg.length then (writeWork x node round ts id sg, "ok") else (x, "bad-op")
    | _, _, _, _, _, _ => (x, "bad-op")
  | ["readr", node, round] =>
    match node.toNat?, round.toNat? with
    | some node, some round =>
      let l := readWorks x node round
      (x, if l.isEmpty then "ok 0" else s!"ok {l.length} " ++ " ".intercalate (l.map showSnap))
    | _, _ => (x, "bad-op")
  | ["subr", node, round, credit] =>
    match node.toNat?, round.toNat?, credit.toNat? with
    | some node, some round, some credit =>
      if credit > 1 then (x, "bad-op") else
      match submitRead x node round (credit == 1) with
      | some x' => (x', "ok")
      | none => (x, "panic")
    | _, _, _ => (x, "bad-op")
  | ["works", node, d] =>
    match node.toNat?, d.toNat? with
    | some node, some d => (x, s!"ok {getC (node, d) x.s.lead} {getC (node, d) x.s.sign}")
    | _, _ => (x, "bad-op")
  | ["offset", node] =>
    match node.toNat? with
    | some node => (x, s!"ok {(readOff node x.s.off).1}")
    | none => (x, "bad-op")
  | ["ckpt", node] =>
    match node.toNat? with
    | some node => (x, s!"ok {(readOff node x.s.off).1} {showNats (readOff node x.s.off).2}")
    | none => (x, "bad-op")
  | _ => (x, "bad-op")

def run : IO Unit := runLoop emptySR stepLine

end Mixin.Driver.Work
