import Mixin.Prelude.Proto
import Mixin.Model.Locks
import Mixin.Facts.Generated
/-! Line-protocol driver for the lock / ghost-key / finalization model (C03, C04).

All arguments are decimal numbers.  Transaction ids: `0` the zero hash, `101…` the hard-coded
ghost-key fork exceptions (as many as the source lists, taken from the regenerated facts),
anything else an ordinary hash.  Every op answers `<ok|reject|panic>|<sorted dump>`. -/
namespace Mixin.Driver.Locks
open Mixin.Proto Mixin.KV Mixin.Locks

/-- the 64-character string literals inside a printed function body -/
def quoted64 (src : String) : List String :=
  let parts := src.splitOn "\""
  -- odd positions are inside quotes
  let rec odd : List String → Bool → List String
    | [], _ => []
    | p :: r, inside => if inside && p.length == 64 then p :: odd r (!inside) else odd r (!inside)
  odd parts false

def exceptionHashes : List String := quoted64 Mixin.Facts.Gen.storage_lockGhostKey_src

/-- output types: which ones finalization materialises / skips (case table of `UnspentOutputs`)
    and which have a side effect (switch of `writeUTXO`); values are the regenerated constants,
    the tables are pinned in `Mixin.Facts.ExpectedC04`. -/
def outKinds : OutKinds :=
  let g := Mixin.Facts.Gen.common_OutputTypeScript
  { materialized := [g, Mixin.Facts.Gen.common_OutputTypeNodePledge, Mixin.Facts.Gen.common_OutputTypeNodeCancel,
      Mixin.Facts.Gen.common_OutputTypeNodeAccept, Mixin.Facts.Gen.common_OutputTypeNodeRemove,
      Mixin.Facts.Gen.common_OutputTypeWithdrawalClaim, Mixin.Facts.Gen.common_OutputTypeCustodianUpdateNodes],
    skipped := [Mixin.Facts.Gen.common_OutputTypeWithdrawalSubmit, Mixin.Facts.Gen.common_OutputTypeCustodianSlashNodes],
    sideTypes := [Mixin.Facts.Gen.common_OutputTypeNodePledge, Mixin.Facts.Gen.common_OutputTypeNodeCancel,
      Mixin.Facts.Gen.common_OutputTypeNodeAccept, Mixin.Facts.Gen.common_OutputTypeNodeRemove,
      Mixin.Facts.Gen.common_OutputTypeCustodianUpdateNodes, Mixin.Facts.Gen.common_OutputTypeWithdrawalClaim] }

def cfg : Cfg := { exc := (List.range exceptionHashes.length).map (· + 101), nodes := [1, 2], kinds := outKinds }

structure St where
  s : Store := {}
  txs : List Tx := []

def nats (l : List String) : Option (List Nat) := l.mapM String.toNat?

def render (s : Store) : String :=
  let es : List String :=
    s.utxo.map (fun p => s!"U{p.1.1}.{p.1.2}={p.2}") ++
    s.deposit.map (fun p => s!"D{p.1}={p.2}") ++
    s.mint.map (fun p => s!"M{p.1}={p.2.1}.{p.2.2}") ++
    s.tx.map (fun p => s!"T{p.1}") ++
    s.fin.map (fun p => s!"F{p.1}") ++
    s.ghost.map (fun p => s!"G{p.1}={p.2}") ++
    s.unique.map (fun p => s!"Q{p.1.1}.{p.1.2}")
  let sorted := es.mergeSort (fun a b => !(b < a))
  if sorted.isEmpty then "-" else ",".intercalate sorted

def showRes (st : St) (r : Res) : St × String :=
  match r with
  | .ok s' => ({ st with s := s' }, "ok|" ++ render s')
  | .err => (st, "reject|" ++ render st.s)
  | .panic => (st, "panic|" ++ render st.s)

/-- `n` inputs, three numbers each: kind a b -/
def parseIns : Nat → List Nat → Option (List In × List Nat)
  | 0, r => some ([], r)
  | n + 1, k :: a :: b :: r =>
    let i? : Option In := match k with
      | 0 => some .genesis
      | 1 => some (.deposit a)
      | 2 => some (.mint a b)
      | 3 => some (.utxo a b)
      | _ => none
    match i?, parseIns n r with
    | some i, some (is, r') => some (i :: is, r')
    | _, _ => none
  | _, _ => none

/-- `n` outputs: `typ nkeys k…` each -/
def parseOuts : Nat → List Nat → Option (List OutSpec × List Nat)
  | 0, r => some ([], r)
  | n + 1, typ :: nk :: r =>
    if r.length < nk then none else
    match parseOuts n (r.drop nk) with
    | some (os, r') => some ({ typ := typ, keys := r.take nk } :: os, r')
    | none => none
  | _, _ => none

def sideOf : Nat → Option Side
  | 0 => some .ok
  | 1 => some .err
  | 2 => some .panic
  | _ => none

def parsePairs : List Nat → Option (List (Nat × Nat))
  | [] => some []
  | a :: b :: r => (parsePairs r).map ((a, b) :: ·)
  | _ => none

def findTx (st : St) (id : Nat) : Option Tx := st.txs.find? (·.id == id)

def boolOf : Nat → Option Bool
  | 0 => some false
  | 1 => some true
  | _ => none

def outCfg : OutCfg :=
  { limit := Mixin.Facts.Gen.common_SliceCountLimit,
    kernelTypes := [Mixin.Facts.Gen.common_OutputTypeWithdrawalSubmit, Mixin.Facts.Gen.common_OutputTypeWithdrawalClaim,
      Mixin.Facts.Gen.common_OutputTypeNodePledge, Mixin.Facts.Gen.common_OutputTypeNodeCancel,
      Mixin.Facts.Gen.common_OutputTypeNodeAccept],
    keyValid := fun k => k < 900 }

/-- `n` outputs: typ amount scriptOk scriptEmpty maskHas maskValid withdrawal nkeys k… -/
def parseVOuts : Nat → List Nat → Option (List Out × List Nat)
  | 0, r => some ([], r)
  | n + 1, typ :: amt :: so :: se :: mh :: mv :: wd :: nk :: r =>
    if r.length < nk then none else
    match boolOf so, boolOf se, boolOf mh, boolOf mv, boolOf wd, parseVOuts n (r.drop nk) with
    | some so, some se, some mh, some mv, some wd, some (os, r') =>
      some ({ typ := typ, amount := amt, keys := r.take nk, scriptOk := so, scriptEmpty := se,
              maskHas := mh, maskValid := mv, withdrawal := wd } :: os, r')
    | _, _, _, _, _, _ => none
  | _, _ => none

/-- one storage call line → model call -/
def parseOp (st : St) (t : List String) : Option Op :=
  match t with
  | "lockutxos" :: rest =>
    match nats rest with
    | some (tx :: f :: n :: r) =>
      match boolOf f, parsePairs r with
      | some fork, some ps => if ps.length ≠ n then none else some (.lockUTXOs ps tx fork)
      | _, _ => none
    | _ => none
  | ["lockdep", d, tx, f] =>
    match nats [d, tx, f] with
    | some [d, tx, f] => (boolOf f).map (fun fork => .lockDeposit d tx fork)
    | _ => none
  | ["lockmint", b, a, tx, f] =>
    match nats [b, a, tx, f] with
    | some [b, a, tx, f] => (boolOf f).map (fun fork => .lockMint b a tx fork)
    | _ => none
  | "lockghost" :: rest =>
    match nats rest with
    | some (tx :: f :: n :: ks) =>
      match boolOf f with
      | some fork => if ks.length ≠ n then none else some (.lockGhostKeys ks tx fork)
      | none => none
    | _ => none
  | ["writetx", id] => id.toNat?.bind (findTx st) |>.map .writeTx
  | "snapshot" :: rest =>
    -- snapshot node n id… [! side]   (side: what the harness observed of the side effects)
    let (body, side?) : List String × Option Side :=
      match rest.reverse with
      | fl :: "!" :: rb => (rb.reverse, fl.toNat?.bind sideOf)
      | _ => (rest, some .ok)
    match nats body, side? with
    | some (node :: n :: ids), some side =>
      if ids.length ≠ n then none else (ids.mapM (findTx st)).map (fun txs => .snapshot node txs side)
    | _, _ => none
  | _ => none

def resTag : Res → String
  | .ok _ => "ok"
  | .err => "reject"
  | .panic => "panic"

/-- split a token list at the separator token -/
def splitTok (sep : String) : List String → List (List String)
  | [] => [[]]
  | t :: r =>
    match splitTok sep r with
    | [] => [[t]]
    | g :: gs => if t = sep then [] :: g :: gs else (t :: g) :: gs

/-- `call… => res` -/
def parseObserved (st : St) (seg : List String) : Option (Op × String) :=
  match seg.reverse with
  | res :: "=>" :: rcall => (parseOp st rcall.reverse).map (fun op => (op, res))
  | _ => none

/-- is there a sequential order of the atomic model calls that returns the observed result
    classes and ends in the observed dump?  Depth-first over the remaining calls, pruned as soon
    as a result class differs. -/
def searchOrder : Nat → List (Op × String) → Store → String → Option Store
  | _, [], s, final => if render s = final then some s else none
  | 0, _, _, _ => none
  | fuel + 1, calls, s, final =>
    (List.range calls.length).findSome? fun i =>
      match calls[i]? with
      | none => none
      | some (op, res) =>
        let r := exec cfg s op
        if resTag r ≠ res then none
        else
          let s' := match r with | .ok s' => s' | _ => s
          searchOrder fuel (calls.eraseIdx i) s' final

def step (st : St) (t : List String) : St × String :=
  match t with
  | ["reset"] => ({}, "ok")
  | ["fulldump"] => (st, "ok|" ++ render st.s)
  | ["exceptions"] => (st, "ok " ++ " ".intercalate exceptionHashes)
  | "deftx" :: rest =>
    match nats rest with
    | some (id :: _actor :: nin :: r) =>
      match parseIns nin r with
      | some (ins, nout :: r') =>
        match parseOuts nout r' with
        | some (outs, []) =>
          if (findTx st id).isSome then (st, "bad-op")
          else ({ st with txs := { id := id, ins := ins, outs := outs } :: st.txs }, "ok")
        | _ => (st, "bad-op")
      | _ => (st, "bad-op")
    | _ => (st, "bad-op")
  | "race" :: n :: ";" :: rest =>
    -- race n ; call => res ; … ; final dump
    let segs := splitTok ";" rest
    match segs.reverse with
    | ["final", dump] :: rcalls =>
      match rcalls.reverse.mapM (parseObserved st), n.toNat? with
      | some calls, some k =>
        if calls.length ≠ k ∨ k > 8 then (st, "bad-op") else
        match searchOrder (k + 1) calls st.s dump with
        | some s' => ({ st with s := s' }, "ok|" ++ render s')
        | none => (st, "not-linearizable|" ++ render st.s)
      | _, _ => (st, "bad-op")
    | _ => (st, "bad-op")
  | "vout" :: rest =>
    -- vout tx fork inputAmount nout {output}*
    match nats rest with
    | some (tx :: f :: ia :: nout :: r) =>
      match boolOf f, parseVOuts nout r with
      | some fork, some (outs, []) => showRes st (validateOutputs cfg.exc outCfg st.s outs tx ia fork)
      | _, _ => (st, "bad-op")
    | _ => (st, "bad-op")
  | _ =>
    match parseOp st t with
    | some op => showRes st (exec cfg st.s op)
    | none => (st, "bad-op")

def run : IO Unit := runLoop ({} : St) step

end Mixin.Driver.Locks
