import Mixin.Driver.Recovery
/-! Driver of subsystem `ledgercrash` (C22): same model and step function as `recovery`; a
    `cut` reports the validator totals and the key counts of the restarted store. -/
namespace Mixin.Driver.Ledgercrash

def run : IO Unit := Mixin.Proto.runLoop ({} : Mixin.Driver.Recovery.St) (Mixin.Driver.Recovery.step true)

end Mixin.Driver.Ledgercrash
