import Mixin.Prelude.Proto
import Mixin.Model.BatchVerify
/-! Line-protocol driver for the batch-verification model (C02, `batchverify` stream). -/
namespace Mixin.Driver.BatchVerify
open Mixin.Proto Mixin.Cosi Mixin.BatchVerify

def parsePt (s : String) : Option Pt :=
  if s.startsWith "x" then some Pt.bad else s.toNat?.map Pt.dl

def parseNats : List String → Option (List Nat)
  | [] => some []
  | t :: r => do let n ← t.toNat?; let ns ← parseNats r; pure (n :: ns)

/-- `n` groups of `A R s len` -/
def parseEntries : Nat → List String → Option (List (String × String × Nat × Nat) × List String)
  | 0, rest => some ([], rest)
  | n + 1, a :: r :: s :: l :: rest => do
    let s ← s.toNat?; let l ← l.toNat?
    let (es, rest') ← parseEntries n rest
    pure ((a, r, s, l) :: es, rest')
  | _, _ => none

def mkEntries (raw : List (String × String × Nat × Nat)) (cs : List Nat) : Option (List Entry) :=
  match raw, cs with
  | [], _ => some []
  | (a, r, s, l) :: raw', c :: cs' => do
    let A ← parsePt a; let R ← parsePt r
    let es ← mkEntries raw' cs'
    pure ({ keyNil := a == "xnil", sigNil := r == "xnil", A := A, sigLen := l, R := R, s := s, c := c } :: es)
  | _ :: _, [] => none

def showB (b : Bool) : String := if b then "ok" else "reject"

/-- after the entries: n coefficients, then n challenges -/
def splitTail (n : Nat) (rest : List String) : Option (List Nat × List Nat) :=
  if rest.length ≠ 2 * n then none else do
    let zs ← parseNats (rest.take n); let cs ← parseNats (rest.drop n); pure (zs, cs)

def step (t : List String) : String :=
  match t with
  -- vbatch <msg> <zaware> <n> (A R s len)*n z*n c*n : BatchVerifier.add* ; Verify
  | "vbatch" :: _msg :: _zaware :: n :: rest =>
    match n.toNat? with
    | none => "bad-op"
    | some n =>
      match parseEntries n rest with
      | none => "bad-op"
      | some (raw, tail) =>
        match splitTail n tail with
        | none => "bad-op"
        | some (zs, cs) =>
          match mkEntries raw cs with
          | none => "bad-op"
          | some es => showB (verifierVerify es zs)
  -- bbatch <msg> <zaware> <nk> <ns> (A R s len)*nk z*nk c*nk : BatchVerify(msg, keys, sigs)
  | "bbatch" :: _msg :: _zaware :: nk :: ns :: rest =>
    match nk.toNat?, ns.toNat? with
    | some nk, some ns =>
      match parseEntries nk rest with
      | none => "bad-op"
      | some (raw, tail) =>
        match splitTail nk tail with
        | none => "bad-op"
        | some (zs, cs) =>
          match mkEntries raw cs with
          | none => "bad-op"
          | some es => showB (batchVerify nk ns es zs)
    | _, _ => "bad-op"
  | _ => "bad-op"

def run : IO Unit := runPure step

end Mixin.Driver.BatchVerify
