import Mixin.Prelude.Proto
import Mixin.Model.Graph
/-! Line-protocol driver for the round-graph model (C20), kernel level.

    reset                                          forget everything
    init n (id fnum fhash fstart cnum self ext)×n m (key hash node number ts hasrefs self ext)×m
          initial chains (in-memory state as loaded from genesis) and ROUND records; links are 0
    snap  <cid> <hash> <start>                     cache round of cid now closes to (hash,start)
    start <cid> <self> <ext> <finalized> <oracle> <ts>  startNewRoundAndPersist
    empty <cid> <self> <ext> <strict> <oracle> <ts>     updateEmptyHeadRoundAndPersist
          (ts only feeds the strict checks, i.e. the oracle: ignored by the model)
    after a `panic` the process is gone: every further line of the case answers `dead`.

    Hashes travel as hex; printed as decimal numbers. Result line:
      <res> F fnum fhash fstart C cnum self ext closing L mem-links… H number self ext D durable-links… R number ts node
-/
namespace Mixin.Driver.Graph
open Mixin.Proto Mixin.Graph

structure St where
  w : World
  ids : List Nat
  dead : Bool

def bytesVal (b : Bytes) : Nat := b.foldl (fun acc x => acc * 256 + x.toNat) 0
def parseHash (s : String) : Option Nat := (parseHex s).map bytesVal
def parseBool (s : String) : Option Bool := if s = "1" then some true else if s = "0" then some false else none

def emptyChain : Chain :=
  { finalNumber := 0, finalHash := 0, finalStart := 0, cacheNumber := 0, cacheRefs := ⟨0, 0⟩,
    closing := none, links := fun _ => 0 }

def emptyWorld : World :=
  { store := { rounds := fun _ => none, links := fun _ _ => 0 }, chains := fun _ => emptyChain }

def showRec : Option RoundRec → String
  | none => "-"
  | some r => s!"{r.number} {r.ts} {r.node}"

def dump (st : St) (cid : Nat) : String :=
  let c := st.w.chains cid
  let closing := match c.closing with | none => "-" | some (h, _) => toString h
  let mem := String.join (st.ids.map (fun x => s!" {c.links x}"))
  let dur := String.join (st.ids.map (fun x => s!" {st.w.store.links cid x}"))
  let head := match st.w.store.rounds cid with
    | none => "-"
    | some r => match r.refs with
      | none => s!"{r.number} - -"
      | some rf => s!"{r.number} {rf.self} {rf.ext}"
  s!"F {c.finalNumber} {c.finalHash} {c.finalStart} C {c.cacheNumber} {c.cacheRefs.self} {c.cacheRefs.ext} {closing} L{mem} H {head} D{dur} R {showRec (st.w.store.rounds c.finalHash)}"

partial def parseChains (n : Nat) (t : List String) (w : World) (ids : List Nat) :
    Option (World × List Nat × List String) :=
  if n = 0 then some (w, ids.reverse, t) else
  match t with
  | id :: fn :: fh :: fs :: cn :: sf :: ex :: rest =>
    match parseHash id, fn.toNat?, parseHash fh, fs.toNat?, cn.toNat?, parseHash sf, parseHash ex with
    | some id, some fn, some fh, some fs, some cn, some sf, some ex =>
      let c : Chain := { finalNumber := fn, finalHash := fh, finalStart := fs, cacheNumber := cn,
                         cacheRefs := ⟨sf, ex⟩, closing := none, links := fun _ => 0 }
      parseChains (n - 1) rest (setChain w id c w.store) (id :: ids)
    | _, _, _, _, _, _, _ => none
  | _ => none

partial def parseRecs (m : Nat) (t : List String) (s : Store) : Option Store :=
  if m = 0 then (if t.isEmpty then some s else none) else
  match t with
  | k :: h :: nd :: num :: ts :: hr :: sf :: ex :: rest =>
    match parseHash k, parseHash h, parseHash nd, num.toNat?, ts.toNat?, parseBool hr, parseHash sf, parseHash ex with
    | some k, some h, some nd, some num, some ts, some hr, some sf, some ex =>
      parseRecs (m - 1) rest (writeRound s k { hash := h, node := nd, number := num, ts := ts,
                                               refs := if hr then some ⟨sf, ex⟩ else none })
    | _, _, _, _, _, _, _, _ => none
  | _ => none

def parseReset (t : List String) : Option St :=
  match t with
  | n :: rest =>
    match n.toNat? with
    | none => none
    | some n =>
      match parseChains n rest emptyWorld [] with
      | some (w, ids, m :: rest') =>
        match m.toNat? with
        | some m =>
          match parseRecs m rest' w.store with
          | some s => some { w := { w with store := s }, ids := ids, dead := false }
          | none => none
        | none => none
      | _ => none
  | _ => none

def step (st : St) (t : List String) : St × String :=
  match t with
  | ["reset"] => ({ w := emptyWorld, ids := [], dead := false }, "ok")
  | "init" :: rest =>
    match parseReset rest with
    | some st' => (st', "ok")
    | none => (st, "bad-op")
  | _ =>
  if st.dead then (st, "dead") else
  match t with
  | ["snap", c, h, s] =>
    match parseHash c, parseHash h, s.toNat? with
    | some c, some h, some s =>
      let st' := { st with w := addSnapshots st.w c h s }
      (st', "ok " ++ dump st' c)
    | _, _, _ => (st, "bad-op")
  | ["start", c, sf, ex, f, o, _ts] =>
    match parseHash c, parseHash sf, parseHash ex, parseBool f, parseBool o with
    | some c, some sf, some ex, some f, some o =>
      match startNewRound st.w c ⟨sf, ex⟩ f o with
      | .ok (w', dummy) =>
        let st' := { st with w := w' }
        (st', (if dummy then "ok-dummy " else "ok ") ++ dump st' c)
      | .error .err => (st, "err " ++ dump st c)
      | .error .panic => ({ st with dead := true }, "panic")
    | _, _, _, _, _ => (st, "bad-op")
  | ["empty", c, sf, ex, f, o, _ts] =>
    match parseHash c, parseHash sf, parseHash ex, parseBool f, parseBool o with
    | some c, some sf, some ex, some f, some o =>
      match updateEmptyHead st.w c ⟨sf, ex⟩ f o with
      | .ok w' =>
        let st' := { st with w := w' }
        (st', "ok " ++ dump st' c)
      | .error .err => (st, "err " ++ dump st c)
      | .error .panic => ({ st with dead := true }, "panic")
    | _, _, _, _, _ => (st, "bad-op")
  | _ => (st, "bad-op")

def run : IO Unit := runLoop ({ w := emptyWorld, ids := [], dead := false } : St) step

end Mixin.Driver.Graph
