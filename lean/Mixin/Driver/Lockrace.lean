import Mixin.Driver.Locks
/-! Concurrent stream of C03/C04: same protocol as `locks` plus the `race` op (several calls
issued by concurrent goroutines; the driver searches a sequential order of the atomic model
calls that explains the observed results and the final dump). -/
namespace Mixin.Driver.Lockrace

def run : IO Unit := Mixin.Driver.Locks.run

end Mixin.Driver.Lockrace
