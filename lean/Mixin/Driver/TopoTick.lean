import Mixin.Driver.Topology
/-! Driver of the `topotick` stream (C35): the same line protocol as `topology`; the stream waits
    for a real statistics tick of `TopoStats` between writes. -/
namespace Mixin.Driver.TopoTick

def run : IO Unit := Mixin.Driver.Topology.run

end Mixin.Driver.TopoTick
