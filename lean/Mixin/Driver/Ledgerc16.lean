import Mixin.Driver.Ledger
/-! Same model driver as `ledger`; the Go side reports a different property oracle under this name. -/
namespace Mixin.Driver.Ledgerc16
def run : IO Unit := Mixin.Driver.Ledger.run
end Mixin.Driver.Ledgerc16
