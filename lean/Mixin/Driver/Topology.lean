import Mixin.Prelude.Proto
import Mixin.Model.Topology
/-! Line-protocol driver for the topology model (C35).

    reset | raw order h | boot | write h | stop | reopen | since off count | lookup h | last | nsince off count | tick -/
namespace Mixin.Driver.Topology
open Mixin.Proto Mixin.Topology

def showOut : Out → String
  | .ok => "ok"
  | .panic => "panic"
  | .nonode => "nonode"
  | .err => "err"
  | .order o => s!"ok {o}"
  | .list l => if l.isEmpty then "ok 0" else s!"ok {l.length} " ++ " ".intercalate (l.map (fun e => s!"{e.1}:{e.2}"))
  | .found none => "ok none"
  | .found (some (o, h)) => s!"ok {o} {h}"

def parseOp (t : List String) : Option Op :=
  match t with
  | ["raw", o, h] => match o.toNat?, h.toNat? with
    | some o, some h => some (.raw o h) | _, _ => none
  | ["boot"] => some .boot
  | ["write", h] => h.toNat?.map .write
  | ["stop"] => some .stop
  | ["reopen"] => some .stop
  | ["since", a, b] => match a.toNat?, b.toNat? with
    | some a, some b => some (.since a b) | _, _ => none
  | ["lookup", h] => h.toNat?.map .lookup
  | ["last"] => some .last
  | ["nsince", a, b] => match a.toNat?, b.toNat? with
    | some a, some b => some (.nsince a b) | _, _ => none
  | ["tick"] => some .tick
  | _ => none

def stepLine (s : S) (t : List String) : S × String :=
  match t with
  | ["reset"] => (empty, "ok")
  | _ =>
    match parseOp t with
    | some op => let r := step s op; (r.1, showOut r.2)
    | none => (s, "bad-op")

def run : IO Unit := runLoop empty stepLine

end Mixin.Driver.Topology
