import Mixin.Prelude.Proto
import Mixin.Model.Membership
import Mixin.Model.Finality
/-! Line-protocol driver for the membership model (C10, C11; reused by the finality driver).

A line is `<go part> | <model part>` or just `<model part>`: the Go harness reads what is before
the bar (symbolic references to its own store), the model reads what follows it (the concrete
values the Go side resolved). 32-byte values travel as hexadecimal numbers without leading zeros. -/
namespace Mixin.Driver.Membership
open Mixin.Proto Mixin.Membership

def hexNat (s : String) : Option Nat :=
  if s.isEmpty then none else
  s.toList.foldl (fun acc ch => match acc, hexVal ch with
    | some a, some v => some (a * 16 + v)
    | _, _ => none) (some 0)

def natHex (n : Nat) : String := String.ofList (Nat.toDigits 16 n)

def parseState : String → Option NState
  | "P" => some .pledging
  | "A" => some .accepted
  | "R" => some .removed
  | "C" => some .cancelled
  | "U" => some .unset
  | _ => none

def showState : NState → String
  | .pledging => "P"
  | .accepted => "A"
  | .removed => "R"
  | .cancelled => "C"
  | .unset => "U"

def parseRecs : Nat → List String → Option (List Rec)
  | 0, [] => some []
  | 0, _ => none
  | k + 1, ts :: id :: sg :: py :: st :: tx :: rest =>
    match ts.toNat?, hexNat id, hexNat sg, hexNat py, parseState st, hexNat tx, parseRecs k rest with
    | some ts, some id, some sg, some py, some st, some tx, some more =>
      some ({ ts := ts, id := id, signer := sg, payee := py, state := st, tx := tx } :: more)
    | _, _, _, _, _, _, _ => none
  | _, _ => none

def parseHexList : Nat → List String → Option (List Nat)
  | 0, [] => some []
  | 0, _ => none
  | k + 1, x :: rest =>
    match hexNat x, parseHexList k rest with
    | some v, some more => some (v :: more)
    | _, _ => none
  | _, _ => none

def showCNode (cn : CNode) : String :=
  s!"{cn.idx}:{cn.rc.ts}:{natHex cn.rc.id}:{natHex cn.rc.signer}:{natHex cn.rc.payee}:{showState cn.rc.state}:{natHex cn.rc.tx}"

def showList (l : List CNode) : String :=
  l.foldl (fun acc cn => acc ++ " " ++ showCNode cn) s!"ok {l.length}"

def showOpt : Option CNode → String
  | some cn => "ok " ++ showCNode cn
  | none => "ok -"

def parseBool : String → Option Bool
  | "0" => some false
  | "1" => some true
  | _ => none

structure St where
  node : Node := default
  chain : Chain := ⟨none⟩
deriving Inhabited

def modelPart (t : List String) : List String :=
  match t.dropWhile (· ≠ "|") with
  | _ :: rest => rest
  | [] => t

def C := genConsts

def step (s : St) (t0 : List String) : St × String :=
  let t := modelPart t0
  match t with
  | ["reset"] => (default, "ok")
  | "init" :: epoch :: net :: self :: selfSigner :: g :: gids =>
    match epoch.toNat?, some (net == Mixin.Facts.Gen.config_KernelNetworkId), hexNat self, hexNat selfSigner, g.toNat? with
    | some e, some m, some sf, some ss, some g =>
      match parseHexList g gids with
      | some ids => ({ node := { epoch := e, mainnet := m, self := sf, selfSigner := ss, genesis := ids, all := [] },
                       chain := ⟨none⟩ }, "ok")
      | none => (s, "bad-op")
    | _, _, _, _, _ => (s, "bad-op")
  | "load" :: n :: rest =>
    match n.toNat? with
    | some n =>
      match parseRecs n rest with
      | some recs =>
        let node := s.node.load recs
        ({ s with node := node },
         node.all.foldl (fun acc r => acc ++ s!" {r.ts}:{natHex r.id}:{showState r.state}") s!"ok {node.all.length}")
      | none => (s, "bad-op")
    | none => (s, "bad-op")
  | ["chain", "state"] => ({ s with chain := ⟨none⟩ }, "ok -")
  | ["chain", "id", id, now] =>
    match hexNat id, now.toNat? with
    | some id, some now =>
      let ch := loadChain s.node id now false
      ({ s with chain := ch }, showOpt ch.pledging)
    | _, _ => (s, "bad-op")
  | ["list", thr, acc] =>
    match thr.toNat?, parseBool acc with
    | some thr, some acc => (s, showList (s.node.list thr acc))
    | _, _ => (s, "bad-op")
  | ["seq", thr, acc] =>
    match thr.toNat?, parseBool acc with
    | some thr, some acc => (s, showList (nodeSeq s.node.all thr acc))
    | _, _ => (s, "bad-op")
  | ["keys", round, ts] =>
    match round.toNat?, ts.toNat? with
    | some round, some ts =>
      let ks := consensusKeys C s.node s.chain round ts
      (s, ks.foldl (fun acc k => acc ++ s!" {natHex k.1}:{natHex k.2}") s!"ok {ks.length}")
    | _, _ => (s, "bad-op")
  | ["thr", ts, final] =>
    match ts.toNat?, parseBool final with
    | some ts, some final => (s, s!"ok {consensusThreshold C s.node ts final}")
    | _, _ => (s, "bad-op")
  | ["pledging", ts] =>
    match ts.toNat? with
    | some ts => (s, showOpt (pledgingNode s.node ts))
    | none => (s, "bad-op")
  | ["removing", ts] =>
    match ts.toNat? with
    | some ts => (s, showOpt (removingAt C s.node ts))
    | none => (s, "bad-op")
  | ["elect", op, now] =>
    match op.toNat?, now.toNat? with
    | some op, some now =>
      match electSnapshotNode C s.node op now with
      | some id => (s, s!"ok {natHex id}")
      | none => (s, "panic")
    | _, _ => (s, "bad-op")
  | ["c10", round, ts] =>
    match round.toNat?, ts.toNat? with
    | some round, some ts =>
      (s, s!"ok {(consensusKeys C s.node s.chain round ts).length} {consensusThreshold C s.node ts true}")
    | _, _ => (s, "bad-op")
  | ["c10f", round, ts, hack] =>
    match round.toNat?, ts.toNat?, parseBool hack with
    | some round, some ts, some hack =>
      let cts := if hack then ts - Mixin.Finality.genFConsts.minute else ts
      let as := Mixin.Finality.finalizationAttempts C s.node s.chain round cts
      (s, as.foldl (fun acc a => acc ++ s!" {a.1.length} {a.2}") s!"ok {as.length}")
    | _, _, _ => (s, "bad-op")
  | _ => (s, "bad-op")

def run : IO Unit := runLoop (default : St) step

end Mixin.Driver.Membership
