import Mixin.Prelude.Proto
import Mixin.Model.Recovery
/-! Line-protocol driver for the crash/restart model (C21: subsystem `recovery`). The step
    function is shared with `Mixin.Driver.Ledgercrash` (C22). -/
namespace Mixin.Driver.Recovery
open Mixin.Proto Mixin.Recovery

structure St where
  defs : List Tx := []
  kv : Option KV := none

def nats (l : List String) : Option (List Nat) := l.mapM (·.toNat?)

def dedupCount {α : Type} [BEq α] (l : List α) : Nat := l.eraseDups.length

def digest (kv : KV) : String :=
  " ".intercalate ([kv.txs.length, kv.fins.length, dedupCount (kv.utxos.map (·.1)), kv.deposits.length,
    kv.mints.length, kv.snaps.length, kv.uniques.length, kv.topo.length, kv.snaptopo.length,
    dedupCount (kv.rounds.map (·.1)), dedupCount (kv.links.map (·.1)), kv.cons.length].map toString)

def showRes (st : St) (r : Res) : St × String :=
  match r with
  | .ok kv => ({ st with kv := some kv }, "ok " ++ digest kv)
  | .reject => (st, "reject " ++ (match st.kv with | some kv => digest kv | none => ""))
  | .panic => (st, "panic")

def pairs : List Nat → List (Nat × Nat)
  | a :: b :: rest => (a, b) :: pairs rest
  | _ => []

def consDump (kv : KV) : String :=
  ",".intercalate (kv.cons.map (fun c => s!"{c.ts}:{c.snap}:{c.next}"))

def cutLine (ledger : Bool) (kv : KV) : String :=
  match restart kv with
  | none => "fail topo=0"
  | some r =>
    if ledger then s!"ok topo={r.topoCounter} total={r.total} invalid=0 {digest r.kv}"
    else s!"ok marker={(lastCons r.kv).map (·.snap) |>.getD 0} topo={r.topoCounter} cons={consDump r.kv}"

def step (ledger : Bool) (st : St) (t : List String) : St × String :=
  match t with
  | ["reset"] => ({}, "ok")
  | ["genesis", n] =>
    match n.toNat? with
    | some k => ({ defs := [], kv := some (genesis k) }, "ok " ++ digest (genesis k))
    | none => (st, "bad-op")
  | ["genesis", n, sync] =>   -- second field: fsync per commit on/off in the harness, not durable state
    match n.toNat?, sync.toNat? with
    | some k, some _ => ({ defs := [], kv := some (genesis k) }, "ok " ++ digest (genesis k))
    | _, _ => (st, "bad-op")
  | "tx" :: rest =>
    match nats rest with
    | some (id :: kind :: ref0 :: outs :: key :: n :: ins) =>
      if ins.length != 2 * n || (st.defs.any (·.id == id)) then (st, "bad-op")
      else ({ st with defs := { id := id, kind := kind, ref0 := ref0, outs := outs, key := key, inputs := pairs ins } :: st.defs }, "ok")
    | _ => (st, "bad-op")
  | op :: rest =>
    match st.kv, nats rest with
    | some kv, some a =>
      match op, a with
      | "lock", [t] =>
        match st.defs.find? (·.id == t) with
        | some tx => showRes st (lockInputs kv tx)
        | none => (st, "bad-op")
      | "wtx", [t] =>
        match st.defs.find? (·.id == t) with
        | some tx => showRes st (writeTx kv tx)
        | none => (st, "bad-op")
      | "round", c :: n :: k :: r1 =>
        let self := r1.take k
        match r1.drop k with
        | e :: en :: m :: r2 =>
          if r2.length != m + 1 || n == 0 then (st, "bad-op")
          else showRes st (startNewRound kv c n (.final c (n - 1) self) (.final e en (r2.take m)))
        | _ => (st, "bad-op")
      | "snap", s :: c :: r :: ts :: o :: k :: txs =>
        if txs.length != k then (st, "bad-op")
        else showRes st (writeSnapshot kv { id := s, node := c, round := r, ts := ts, txs := txs } o)
      | "mark", [s] => showRes st (markSnap kv s)
      | "fill", k :: t0 :: s0 :: d0 :: ts0 :: o0 :: m :: cs =>
        if cs.length != m || m == 0 then (st, "bad-op")
        else
          match fill kv t0 s0 d0 ts0 o0 cs k 0 with
          | (kv1, 0) => ({ st with kv := some kv1 }, "ok " ++ digest kv1)
          | (kv1, 1) => ({ st with kv := some kv1 }, "reject " ++ digest kv1)
          | (kv1, _) => ({ st with kv := some kv1 }, "panic")
      | "cut", [] => (st, cutLine ledger kv)
      | _, _ => (st, "bad-op")
    | _, _ => (st, "bad-op")
  | _ => (st, "bad-op")

def run : IO Unit := runLoop ({} : St) (step false)

end Mixin.Driver.Recovery
