import Mixin.Prelude.Proto
import Mixin.Model.Nonce
/-! Line-protocol driver for the nonce model (C12). -/
namespace Mixin.Driver.Nonce
open Mixin.Proto Mixin.Cosi Mixin.Nonce

structure St where
  privs : List Nat := []
  variants : List (Nat × Option Nat) := []     -- variant id ↦ challenge
  nonce : Option State := none
  book : Book := { randoms := [], used := [], order := [] }
  maxRetained : Nat := 0

def showOutcome : Outcome → String
  | .err => "err"
  | .reuse => "reuse"
  | .ok s => s!"ok:{s}"

def parseNats : List String → Option (List Nat)
  | [] => some []
  | t :: r => do let n ← t.toNat?; let ns ← parseNats r; pure (n :: ns)

def chalOf (st : St) (v : Nat) : Option (Option Nat) := st.variants.lookup v

def lookupAll (st : St) : List Nat → Option (List (Option Nat))
  | [] => some []
  | v :: r => do let c ← chalOf st v; let cs ← lookupAll st r; pure (c :: cs)

/-- move element number `k` of a list to the front -/
def toFront {α} (l : List α) (k : Nat) : List α :=
  match l[k]? with
  | some a => a :: (l.take k ++ l.drop (k + 1))
  | none => l

def showBook (b : Book) : String :=
  let u := b.order.map (fun s => match b.used.lookup s with | some c => s!"{s}:{c}" | none => s!"{s}:?")
  s!"r={b.randoms.length} n={b.used.length} u={" ".intercalate u}"

def step (st : St) (t : List String) : St × String :=
  match t with
  | ["reset"] => ({}, "ok")
  | "pub" :: ps =>
    match parseNats ps with
    | some l => ({ st with privs := l }, "ok")
    | none => (st, "bad-op")
  | ["badpub", _, _] => (st, "ok")   -- only changes which variants have a challenge
  | "variant" :: id :: rest =>
    -- `variant id <msg> <n> (i r)* <challenge|->`: only id and the oracle challenge matter here
    match id.toNat?, rest.getLast? with
    | some id, some c =>
      match (if c = "-" then some none else c.toNat?.map some) with
      | some c => ({ st with variants := (id, c) :: st.variants }, "ok")
      | none => (st, "bad-op")
    | _, _ => (st, "bad-op")
  | ["new", _, z] =>
    match z.toNat? with
    | some z => ({ st with nonce := some (fresh z) }, s!"ok {z % ell}")
    | none => (st, "bad-op")
  | ["respond", _, signer, v] =>
    match signer.toNat?, v.toNat?, st.nonce with
    | some i, some v, some n =>
      match st.privs[i]?, chalOf st v with
      | some y, some x =>
        let (n', o) := respond n x y
        ({ st with nonce := some n' }, showOutcome o)
      | _, _ => (st, "bad-op")
    | some _, some _, none => (st, "nononce")
    | _, _, _ => (st, "bad-op")
  | "race" :: signer :: first :: vs =>
    -- all goroutines use private key `signer`; `first` is the goroutine observed to have won
    match signer.toNat?, first.toNat?, parseNats vs, st.nonce with
    | some i, some f, some vs, some n =>
      match st.privs[i]?, lookupAll st vs with
      | some y, some cs =>
        if vs.isEmpty || f ≥ vs.length then (st, "bad-op") else
        -- linearisation: the winner first, then everybody in goroutine order
        let (n1, _) := respond n (cs.getD f none) y
        let (n2, os) := Mixin.Nonce.run n1 (cs.map (fun c => (c, y)))
        ({ st with nonce := some n2 }, " ".intercalate (os.map showOutcome))
      | _, _ => (st, "bad-op")
    | some _, some _, some _, none => (st, "nononce")
    | _, _, _, _ => (st, "bad-op")
  | "book" :: maxr :: rs =>
    match maxr.toNat?, parseNats rs with
    | some m, some rs => ({ st with maxRetained := m, book := { randoms := rs, used := [], order := [] } }, "ok")
    | _, _ => (st, "bad-op")
  | ["retrieve", snap, c] =>
    match snap.toNat?, c.toNat? with
    | some s, some c =>
      let (b, r) := retrieve st.maxRetained st.book s c
      ({ st with book := b }, (match r with | some k => s!"ok {k}" | none => "nil") ++ " " ++ showBook b)
    | _, _ => (st, "bad-op")
  | _ => (st, "bad-op")

def run : IO Unit := runLoop ({} : St) step

end Mixin.Driver.Nonce
