import Mixin.Prelude.Proto
import Mixin.Model.Auth
/-!
Line-protocol driver for the authentication model (C30).

    auth <netid> <recipient> <msg> <timeout> <now> <id-table> <verify-table>
    build <netid> <seed> <flag> <recipient> <now> <key> <sig>

`netid` and `seed` only matter to the Go side (they determine the oracle answers / the key).
id-table: `_` or `key:id`; verify-table: `_` or `key:prefix:sig:0|1`.  Missing oracle
entries make the driver answer `oracle-miss` when the result depends on them.
-/
namespace Mixin.Driver.Auth
open Mixin.Proto Mixin.Auth

def parseIdTable (s : String) : Option (List (Bytes × Bytes)) :=
  if s = "_" then some [] else
  match s.splitOn ":" with
  | [k, v] => match parseHex k, parseHex v with
    | some k, some v => some [(k, v)]
    | _, _ => none
  | _ => none

def parseVerTable (s : String) : Option (List (Bytes × Bytes × Bytes × Bool)) :=
  if s = "_" then some [] else
  match s.splitOn ":" with
  | [k, p, g, b] =>
    match parseHex k, parseHex p, parseHex g with
    | some k, some p, some g =>
      if b = "1" then some [(k, p, g, true)] else if b = "0" then some [(k, p, g, false)] else none
    | _, _, _ => none
  | _ => none

def mkOracle (ids : List (Bytes × Bytes)) (vers : List (Bytes × Bytes × Bytes × Bool)) (dflt : Bool) : Oracle :=
  { idOf := fun k => match ids.find? (fun e => e.1 == k) with
      | some e => e.2
      | none => if dflt then [1] else [2]
    verify := fun k p g => match vers.find? (fun e => e.1 == k && e.2.1 == p && e.2.2.1 == g) with
      | some e => e.2.2.2
      | none => dflt }

def showTok : Option Token → String
  | none => "reject"
  | some t => s!"ok {toHex t.peerId} {t.timestamp} {if t.isRelayer then 1 else 0} {toHex t.data}"

def step (t : List String) : String :=
  match t with
  | ["auth", _, r, m, to, now, ids, vers] =>
    match parseHex r, parseHex m, parseInt to, parseInt now, parseIdTable ids, parseVerTable vers with
    | some r, some m, some to, some now, some ids, some vers =>
      let a := showTok (authenticateAs (mkOracle ids vers false) r m to now)
      let b := showTok (authenticateAs (mkOracle ids vers true) r m to now)
      if a = b then a else "oracle-miss"
    | _, _, _, _, _, _ => "bad-op"
  | ["build", _, _, f, r, now, k, g] =>
    match parseHex r, parseInt now, parseHex k, parseHex g with
    | some r, some now, some k, some g =>
      if f = "1" then "ok " ++ toHex (buildAuth now r k true g)
      else if f = "0" then "ok " ++ toHex (buildAuth now r k false g)
      else "bad-op"
    | _, _, _, _ => "bad-op"
  | _ => "bad-op"

def run : IO Unit := runPure step

end Mixin.Driver.Auth
