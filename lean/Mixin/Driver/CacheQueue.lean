import Mixin.Prelude.Proto
import Mixin.Model.CacheQueue
/-! Line-protocol driver for the transaction cache model (C23).

    reset | reopen | rawq h ts (raw queue key) | store h v | queue h v ts | retrieve limit | remove n h1 … hn | get h | dump
    conc <worker ops…>   worker ops: s:h:v  q:h:v  r:limit  g:h   `/` separates workers -/
namespace Mixin.Driver.CacheQueue
open Mixin.Proto Mixin.CacheQueue

def nats (l : List String) : Option (List Nat) := l.mapM (·.toNat?)

def showPairs (l : List (Hash × Body)) : String :=
  " ".intercalate (l.map (fun e => s!"{e.1}:{e.2}"))

def showNats (l : List Nat) : String :=
  if l.isEmpty then "-" else ",".intercalate (l.map toString)

def sortNats (l : List Nat) : List Nat := (l.toArray.qsort (· < ·)).toList

def dedup (l : List Nat) : List Nat := l.foldl (fun acc x => if x ∈ acc then acc else acc ++ [x]) []

def dump (s : S) : String :=
  let p := (s.payload.toArray.qsort (fun a b => a.1 < b.1)).toList
  s!"q {showNats (s.queue.map (·.2))} o {showNats (sortNats s.order)} p {if p.isEmpty then "-" else showPairs p}"

/-- one worker op of a `conc` line; queue ops get the running counter as timestamp -/
def concOp (tok : String) (clock : Nat) : Option Op :=
  match tok.splitOn ":" with
  | ["s", h, v] => match h.toNat?, v.toNat? with
    | some h, some v => some (.store h v) | _, _ => none
  | ["q", h, v] => match h.toNat?, v.toNat? with
    | some h, some v => some (.queue h v clock) | _, _ => none
  | ["r", l] => match parseInt l with
    | some l => some (.retrieve l.toNat) | none => none
  | ["g", h] => match h.toNat? with
    | some h => some (.get h) | none => none
  | _ => none

/-- Run the worker ops one after the other (any interleaving yields the same canonical line),
    then drain the queue. Canonical observable: sorted set of hashes ever returned, sorted set of
    hashes with a body, and the (empty) queue/order index. -/
def conc (s : S) (toks : List String) : Option (S × String) :=
  let rec go (s : S) (clock : Nat) (ret : List Nat) : List String → Option (S × List Nat)
    | [] => some (s, ret)
    | "/" :: r => go s clock ret r
    | t :: r =>
      match concOp t clock with
      | none => none
      | some op =>
        let x := step s op
        let ret' := match x.2 with
          | .txs l => ret ++ l.map (·.1)
          | _ => ret
        go x.1 (clock + 1) ret' r
  match go s (1 <<< 62) [] toks with
  | none => none
  | some (s1, ret) =>
    let d := retrieve s1 (s1.queue.length + 1)
    let all := sortNats (dedup (ret ++ d.2.map (·.1)))
    let s2 := d.1
    some (s2, s!"ok ret {showNats all} bodies {showNats (sortNats (s2.payload.map (·.1)))} q {s2.queue.length} o {s2.order.length}")

def stepLine (s : S) (t : List String) : S × String :=
  match t with
  | ["reset"] => (empty, "ok")
  | ["reopen"] => (s, "ok")
  | ["dump"] => (s, dump s)
  | ["store", h, v] =>
    match h.toNat?, v.toNat? with
    | some h, some v => ((step s (.store h v)).1, "ok")
    | _, _ => (s, "bad-op")
  | ["queue", h, v, ts] =>
    match h.toNat?, v.toNat?, ts.toNat? with
    | some h, some v, some ts => ((step s (.queue h v ts)).1, "ok")
    | _, _, _ => (s, "bad-op")
  | ["rawq", h, ts] =>
    match h.toNat?, ts.toNat? with
    | some h, some ts => ({ s with queue := insertKey (ts, h) s.queue }, "ok")
    | _, _ => (s, "bad-op")
  | ["retrieve", l] =>
    match parseInt l with
    | some l =>
      let r := retrieve s l.toNat
      (r.1, if r.2.isEmpty then "ok 0" else s!"ok {r.2.length} {showPairs r.2}")
    | none => (s, "bad-op")
  | "remove" :: n :: hs =>
    match n.toNat?, nats hs with
    | some n, some hs => if n = hs.length then ((step s (.remove hs)).1, "ok") else (s, "bad-op")
    | _, _ => (s, "bad-op")
  | ["get", h] =>
    match h.toNat? with
    | some h => (s, match lookup h s.payload with | some v => s!"ok {v}" | none => "ok none")
    | none => (s, "bad-op")
  | "conc" :: toks =>
    match conc s toks with
    | some (s', o) => (s', o)
    | none => (s, "bad-op")
  | _ => (s, "bad-op")

def run : IO Unit := runLoop empty stepLine

end Mixin.Driver.CacheQueue
