import Mixin.Prelude.Proto
import Mixin.Model.Validate
/-!
  Line-protocol driver for the validation model (C01, C02, C05).

  A case is `reset`, ledger lines (each answered `ok`), then one `validate …` line.
    utxo  hash index type asset amount lock mask script nkeys k…
    stx   hash payloadHash fin txType extraId signerAddr signerSpend nin (h i)… nout OUT…
    node  signerAddr signerSpend payeeSpend state tx
    cust  key addr n (caddr paddr)…
    mint  batch amount tx
    asset id chain assetKey balance
    dlock uniq tx
    glock key tx
    validate fork version asset hash payloadSize cap extraLen extraId extra64 extraSpend
             nin IN… nout OUT… nref r… SIGS AGG ORACLE
  IN   = hash index genesis (- | d chain akOk ak txOk uniq amount) (- | m universal batch amount)
  OUT  = type amount withdrawal mask script nkeys k…
  SIGS = - | n (m (idx sig)…)…          AGG = - | sig n signer…
  ORACLE = nK id… nV (key sig)… aggAnswer nAggKeys k… claimSig updSig scalarOk ghostEq
           (- | custAddr n (caddr paddr)…)
  Ids and integers are decimal; scripts are hex. A later ledger line with the same key replaces
  an earlier one (entries are prepended, lookups take the first match).
    batch n b…   (individual Verify answers of a signature batch)
    lock hash n (h i)…   (the listed outputs become locked by that payload hash)
-/
namespace Mixin.Driver.Validate
open Mixin.Proto Mixin.Validate

abbrev P := StateT (List String) Option

def tok : P String := fun s => match s with | [] => none | t :: r => some (t, r)
def nat : P Nat := do let t ← tok; match t.toNat? with | some n => pure n | none => failure
def bool : P Bool := do let n ← nat; if n == 0 then pure false else if n == 1 then pure true else failure
def script : P (List Nat) := do
  let t ← tok
  match parseHex t with | some b => pure (b.map (·.toNat)) | none => failure
def rep {α} (p : P α) : Nat → P (List α)
  | 0 => pure []
  | n + 1 => do let x ← p; let xs ← rep p n; pure (x :: xs)
def listOf {α} (p : P α) : P (List α) := do let n ← nat; rep p n
def pair {α β} (p : P α) (q : P β) : P (α × β) := do let a ← p; let b ← q; pure (a, b)
def peekDash : P Bool := fun s => match s with | "-" :: r => some (true, r) | _ => some (false, s)

def output : P Output := do
  let type ← nat; let amount ← nat; let withdrawal ← bool; let mask ← nat; let sc ← script
  let keys ← listOf nat
  pure { type, amount, keys, mask, script := sc, withdrawal }

def deposit : P (Option Deposit) := do
  if ← peekDash then pure none else
  let t ← tok
  if t != "d" then failure else
  let chain ← nat; let assetKeyOk ← bool; let assetKey ← nat; let txOk ← bool; let uniq ← nat
  let amount ← nat
  pure (some { chain, assetKeyOk, assetKey, txOk, uniq, amount })

def mint : P (Option Mint) := do
  if ← peekDash then pure none else
  let t ← tok
  if t != "m" then failure else
  let universal ← bool; let batch ← nat; let amount ← nat
  pure (some { universal, batch, amount })

def input : P Input := do
  let hash ← nat; let index ← nat; let genesis ← bool; let d ← deposit; let m ← mint
  pure { hash, index, genesis, deposit := d, mint := m }

def sigs : P (Option (List (List (Nat × Id)))) := do
  if ← peekDash then pure none else
  let l ← listOf (listOf (pair nat nat))
  pure (some l)

def agg : P (Option (List Nat × Id)) := do
  if ← peekDash then pure none else
  let sig ← nat; let signers ← listOf nat
  pure (some (signers, sig))

def updParse : P (Option UpdParse) := do
  if ← peekDash then pure none else
  let custodian ← nat; let nodes ← listOf (pair nat nat)
  pure (some { custodian, nodes })

def oracle (tx : Tx) : P Oracle := do
  let valid ← listOf nat
  let pairs ← listOf (pair nat nat)
  let aggAns ← bool
  let aggKeys ← listOf nat
  let claimSig ← bool; let updSig ← bool; let scalarOk ← bool; let ghostEq ← bool
  let up ← updParse
  pure {
    checkKey := fun k => valid.contains k
    verify := fun k s => pairs.contains (k, s)
    -- the harness answers exactly one aggregate query: the concatenated key list it computed
    -- itself, with the transaction's own signers and signature
    aggVerify := fun keys signers sig =>
      aggAns && keys == aggKeys && tx.agg == some (signers, sig)
    claimSig, updSig, updParse := up, scalarOk, ghostEq }

def validateLine : P (Tx × Oracle × Bool) := do
  let fork ← bool; let version ← nat; let asset ← nat; let hash ← nat; let payloadSize ← nat
  let cap ← nat; let extraLen ← nat; let extraId ← nat; let extra64 ← nat; let extraSpend ← nat
  let inputs ← listOf input
  let outputs ← listOf output
  let references ← listOf nat
  let sg ← sigs
  let ag ← agg
  let tx : Tx := { version, asset, inputs, outputs, references, extraLen, extraId, extra64,
                   extraSpend, sigs := sg, agg := ag, hash, payloadSize, cap }
  let o ← oracle tx
  pure (tx, o, fork)

def finish {α} (p : P α) (t : List String) : Option α :=
  match p t with
  | some (a, []) => some a
  | _ => none

def siteName : Site → String
  | .GetExtraLimit => "GetExtraLimit" | .Validate => "Validate"
  | .validateUTXO => "validateUTXO" | .validateInputs => "validateInputs"
  | .validateMint => "validateMint" | .verifyDepositData => "verifyDepositData"
  | .validateDeposit => "validateDeposit" | .validateWithdrawalClaim => "validateWithdrawalClaim"
  | .validateNodeCancel => "validateNodeCancel" | .validateNodeAccept => "validateNodeAccept"
  | .validateNodeRemove => "validateNodeRemove"
  | .validateCustodianUpdateNodes => "validateCustodianUpdateNodes"
  | .NodeTransactionExtraAsSigner => "NodeTransactionExtraAsSigner"
  | .validateWithdrawalSubmit => "validateWithdrawalSubmit"
  | .validateNodePledge => "validateNodePledge"

def showOutcome : Outcome → String
  | .accept i o => s!"accept {i} {o}"
  | .reject => "reject"
  | .panic s => "panic " ++ siteName s

def step (L : Ledger) (t : List String) : Ledger × String :=
  match t with
  | ["reset"] => ({}, "ok")
  | "utxo" :: r =>
    match finish (do
      let hash ← nat; let index ← nat; let type ← nat; let asset ← nat; let amount ← nat
      let lock ← nat; let mask ← nat; let sc ← script; let keys ← listOf nat
      pure ({ hash, index, type, asset, amount, keys, mask, script := sc, lock } : Utxo)) r with
    | some u => ({ L with utxos := u :: L.utxos }, "ok")
    | none => (L, "bad-op")
  | "stx" :: r =>
    match finish (do
      let hash ← nat; let payloadHash ← nat; let finalized ← bool; let txType ← nat
      let extraId ← nat; let signerAddr ← nat; let signerSpend ← nat
      let inputs ← listOf (pair nat nat); let outputs ← listOf output
      pure ({ hash, payloadHash, finalized, txType, extraId, signerAddr, signerSpend, inputs,
              outputs } : StoredTx)) r with
    | some s => ({ L with txs := s :: L.txs }, "ok")
    | none => (L, "bad-op")
  | "node" :: r =>
    match finish (do
      let signerAddr ← nat; let signerSpend ← nat; let payeeSpend ← nat; let state ← nat
      let tx ← nat
      pure ({ signerAddr, signerSpend, payeeSpend, state, tx } : NodeRec)) r with
    | some n => ({ L with nodes := L.nodes ++ [n] }, "ok")
    | none => (L, "bad-op")
  | "cust" :: r =>
    match finish (do
      let key ← nat; let addr ← nat; let nodes ← listOf (pair nat nat)
      pure ({ key, addr, nodes } : Custodian)) r with
    | some c => ({ L with custodian := some c }, "ok")
    | none => (L, "bad-op")
  | "mint" :: r =>
    match finish (do let b ← nat; let a ← nat; let t ← nat; pure (b, a, t)) r with
    | some m => ({ L with mintDist := some m }, "ok")
    | none => (L, "bad-op")
  | "asset" :: r =>
    match finish (do
      let id ← nat; let chain ← nat; let assetKey ← nat; let balance ← nat
      pure ({ id, chain, assetKey, balance } : AssetRec)) r with
    | some a => ({ L with assets := a :: L.assets }, "ok")
    | none => (L, "bad-op")
  | "dlock" :: r =>
    match finish (pair nat nat) r with
    | some p => ({ L with depositLocks := p :: L.depositLocks }, "ok")
    | none => (L, "bad-op")
  | "glock" :: r =>
    match finish (pair nat nat) r with
    | some p => ({ L with ghostLocks := p :: L.ghostLocks }, "ok")
    | none => (L, "bad-op")
  | "validate" :: r =>
    match finish validateLine r with
    | some (tx, o, fork) => (L, showOutcome (validate L o tx fork))
    | none => (L, "bad-op")
  | "lock" :: r =>
    -- LockUTXOs: the listed outputs get locked by the given payload hash
    match finish (do let h ← nat; let ins ← listOf (pair nat nat); pure (h, ins)) r with
    | some (h, ins) =>
      ({ L with utxos := L.utxos.map (fun u =>
          if ins.contains (u.hash, u.index) then { u with lock := h } else u) }, "ok")
    | none => (L, "bad-op")
  | "batch" :: r =>
    -- BatchVerify is modelled as the conjunction of the individual answers over a non-empty batch
    match finish (listOf bool) r with
    | some bs => (L, s!"ok {!bs.isEmpty && bs.all id}")
    | none => (L, "bad-op")
  | _ => (L, "bad-op")

def run : IO Unit := runLoop ({} : Ledger) step

end Mixin.Driver.Validate
