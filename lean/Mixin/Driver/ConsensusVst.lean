import Mixin.Driver.ConsensusChain
/-! Line-protocol driver for `validateSnapshotTransaction` sequences (C28, subsystem
`consensusvst`). Transactions are declared once (`def`, `defg`) and referred to by `#id`; the
model tracks where each body lives (cache / persistent store / nowhere). Every other line is
handled by the consensus-chain driver on the same store. -/
namespace Mixin.Driver.ConsensusVst
open Mixin.Proto Mixin.ConsensusChain
open Mixin.Driver.ConsensusChain (DState codes env parseTx hash32 bit splitBar bits)

structure Entry where
  id : String
  tx : Tx
  loc : Loc

structure VState where
  d : DState
  table : List Entry

def init : VState := ⟨Mixin.Driver.ConsensusChain.init, []⟩

def lookup (t : List Entry) (id : String) : Option Entry := t.find? (fun e => e.id == id)

def setLoc (t : List Entry) (h : Nat) (f : Loc → Loc) : List Entry :=
  t.map (fun e => if e.tx.hash == h then { e with loc := f e.loc } else e)

def define (t : List Entry) (e : Entry) : List Entry :=
  -- a body already known under another symbol keeps its place
  let loc := match t.find? (fun x => x.tx.hash == e.tx.hash) with
    | some x => x.loc
    | none => e.loc
  t.filter (fun x => x.id != e.id) ++ [{ e with loc := loc }]

def showD : Decision → String
  | .accept => "accept" | .reject => "reject" | .panic => "panic"

def lookupAll (t : List Entry) : List String → Option (List Entry)
  | [] => some []
  | i :: rest =>
    match lookup t i, lookupAll t rest with
    | some e, some es => some (e :: es)
    | _, _ => none

def bitsOf (s : String) : Option (List Bool) :=
  s.toList.foldr (fun c acc => match acc with
    | none => none
    | some l => if c == '1' then some (true :: l) else if c == '0' then some (false :: l) else none) (some [])

/-- `1` valid, `0` error, `p` panic -/
def validOf (s : String) : Option (List (Bool × Bool)) :=
  s.toList.foldr (fun c acc => match acc with
    | none => none
    | some l => if c == '1' then some ((true, false) :: l) else if c == '0' then some ((false, false) :: l)
      else if c == 'p' then some ((false, true) :: l) else none) (some [])

def mkItems : List Entry → List (Bool × Bool) → List Bool → List Item
  | e :: es, v :: vs, l :: ls => ⟨e.tx, e.loc, v.1, v.2, l⟩ :: mkItems es vs ls
  | _, _, _ => []

def step (v : VState) (t : List String) : VState × String :=
  let (op, orc) := splitBar t
  match op, orc with
  | ["reset"], [] => (init, "ok")
  | ["def", id, _spec], [tx] =>
    match parseTx tx with
    | some tx => ({ v with table := define v.table ⟨id, tx, .absent⟩ }, "ok")
    | none => (v, "bad-op")
  | ["defg", id, _i], [tx, fin] =>
    match parseTx tx, hash32 fin with
    | some tx, some f => ({ v with table := define v.table ⟨id, tx, .persisted (some f)⟩ }, "ok")
    | _, _ => (v, "bad-op")
  | ["cache", id], [] =>
    match lookup v.table id with
    | some e =>
      ({ v with table := setLoc v.table e.tx.hash (fun l => match l with | .absent => .cached | x => x) }, "ok")
    | none => (v, "bad-op")
  | ["persist", id], [r] =>
    match lookup v.table id with
    | some e =>
      if r == "ok" then
        ({ v with table := setLoc v.table e.tx.hash (fun l => match l with | .persisted f => .persisted f | _ => .persisted none) }, "ok")
      else if r == "error" then (v, "error") else (v, "bad-op")
    | none => (v, "bad-op")
  | "vst" :: fin :: self :: round :: _ts :: _k :: _ids, [ots, sh, tv, order, valid, lock] =>
    match bit fin, bit self, round.toNat?, ots.toNat?, hash32 sh, bit tv, validOf valid, bitsOf lock,
      lookupAll v.table (order.splitOn ",") with
    | some fin, some self, some round, some ts, some sh, some tv, some valid, some lock, some es =>
      if valid.length != es.length || lock.length != es.length then (v, "bad-op") else
      let items := mkItems es valid lock
      let snap : Snap := ⟨sh, ts, es.map (·.tx.hash)⟩
      let r := validateSnapshotTx codes (env v.d) v.d.st snap self round fin tv items
      let table' := r.newly.foldl (fun t h => setLoc t h (fun _ => .persisted none)) v.table
      let after := es.map (fun e => match (table'.find? (fun x => x.tx.hash == e.tx.hash)).map (·.loc) with
        | some (.persisted _) => true
        | _ => false)
      let fm := if r.decision == .accept then s!" found={r.found.length} missing={r.missing}" else ""
      ({ v with table := table' }, s!"d={showD r.decision}{fm} p={bits after}")
    | _, _, _, _, _, _, _, _, _ => (v, "bad-op")
  | _, _ =>
    let (d', out) := Mixin.Driver.ConsensusChain.step v.d t
    ({ v with d := d' }, out)

def run : IO Unit := runLoop init step

end Mixin.Driver.ConsensusVst
