import Mixin.Prelude.Proto
import Mixin.Model.Membership
import Mixin.Model.CustodianLookup
import Mixin.Driver.Membership
/-! Line-protocol driver for C11: the membership ops of `Mixin.Driver.Membership` plus records written
one by one through the real storage writers (`wnode`, accepted or rejected by the real code, the
verdict travels in the model part) and the custodian history (`cwrite`, `cread`, `cfresh`). -/
namespace Mixin.Driver.Views
open Mixin.Proto Mixin.Membership Mixin.CustodianLookup Mixin.Driver.Membership

structure VSt where
  m : St := default
  pending : List Rec := []                     -- records the real store accepted so far
  cstore : List Entry := []
  ccache : Cache := []
  parses : List ((Nat × Bool) × Option Nat) := []   -- oracle: ParseCustodianUpdateNodesExtra answers
deriving Inhabited

def parseOf (tbl : List ((Nat × Bool) × Option Nat)) : Parse := fun tx g =>
  match tbl.find? (fun e => e.1 == (tx, g)) with
  | some e => e.2
  | none => none

def optNat (s : String) : Option (Option Nat) :=
  if s == "-" then some none else s.toNat?.map some

def showFound : Option Found → String
  | none => "ok -"
  | some f => s!"ok {f.content} {natHex f.tx} {f.ts}"

def step (s : VSt) (t0 : List String) : VSt × String :=
  let t := modelPart t0
  match t with
  | ["reset"] => (default, "ok")
  | "rinit" :: rest =>
    let (m', out) := Mixin.Driver.Membership.step s.m ("init" :: rest)
    ({ (default : VSt) with m := m' }, out)
  | ["wnode", verdict, ts, id, sg, py, st, tx] =>
    match parseRecs 1 [ts, id, sg, py, st, tx] with
    | some [r] =>
      if verdict == "ok" then ({ s with pending := s.pending ++ [r] }, "ok")
      else if verdict == "reject" then (s, "reject")
      else (s, "bad-op")
    | _ => (s, "bad-op")
  | ["rload"] =>
    let node := s.m.node.load s.pending
    ({ s with m := { s.m with node := node } },
     node.all.foldl (fun acc r => acc ++ s!" {r.ts}:{natHex r.id}:{showState r.state}") s!"ok {node.all.length}")
  | ["cwrite", verdict, ts, tx, pg, pn] =>
    match ts.toNat?, hexNat tx, optNat pg, optNat pn with
    | some ts, some tx, some pg, some pn =>
      if verdict == "ok" then
        ({ s with cstore := insertKey ⟨ts, tx⟩ s.cstore,
                  parses := ((tx, true), pg) :: ((tx, false), pn) :: s.parses }, "ok")
      else if verdict == "reject" || verdict == "panic" then (s, verdict)
      else (s, "bad-op")
    | _, _, _, _ => (s, "bad-op")
  | "cread" :: ts :: _ =>
    match ts.toNat? with
    | some ts =>
      match readCustodian (parseOf s.parses) s.cstore ts (some s.ccache) with
      | some (f, some c') => ({ s with ccache := c' }, showFound f)
      | some (f, none) => (s, showFound f)
      | none => (s, "reject")
    | none => (s, "bad-op")
  | ["nomemo"] => (s, "ok")
  | ["cfresh"] => ({ s with ccache := [] }, "ok")
  | _ =>
    let (m', out) := Mixin.Driver.Membership.step s.m t
    ({ s with m := m' }, out)

def run : IO Unit := runLoop (default : VSt) step

end Mixin.Driver.Views
