import Mixin.Prelude.Proto
import Mixin.Model.Base58
import Mixin.Model.Keys
/-! Line-protocol driver for the codec / ghost-key model (C32). -/
namespace Mixin.Driver.Keys
open Mixin.Proto Mixin.Keys

def bit (s : String) : Option Bool :=
  if s = "1" then some true else if s = "0" then some false else none

def kindLen (k : String) : Option Nat :=
  if k = "key" then some 32 else if k = "hash" then some 32 else if k = "sig" then some 64 else none

def showO : Option Nat → String
  | some n => toString n
  | none => "panic"

def optNat (s : String) : Option (Option Nat) :=
  if s = "-" then some none else s.toNat?.map some

def takeNats : Nat → List String → Option (List Nat × List String)
  | 0, rest => some ([], rest)
  | k + 1, x :: rest =>
    match x.toNat?, takeNats k rest with
    | some v, some (vs, r) => some (v :: vs, r)
    | _, _ => none
  | _, _ => none

def parseOuts : Nat → List String → Option (List TxOutDl × List String)
  | 0, rest => some ([], rest)
  | n + 1, sc :: mask :: k :: rest =>
    match bit sc, mask.toNat?, k.toNat? with
    | some sc, some mask, some k =>
      match takeNats k rest with
      | some (keys, rest') =>
        match parseOuts n rest' with
        | some (os, r) => some (⟨sc, mask, keys⟩ :: os, r)
        | none => none
      | none => none
    | _, _, _ => none
  | _, _ => none

def parseHs : Nat → List String → Option (List (Nat × Nat × Nat))
  | 0, [] => some []
  | m + 1, a :: b :: c :: rest =>
    match a.toNat?, b.toNat?, c.toNat?, parseHs m rest with
    | some a, some b, some c, some r => some ((a, b, c) :: r)
    | _, _, _, _ => none
  | _, _ => none

def step (t : List String) : String :=
  match t with
  | ["b58enc", h] =>
    match parseHex h with
    | some b => "ok " ++ toHex (Base58.encode b)
    | none => "bad-op"
  | ["b58dec", h] =>
    match parseHex h with
    | some s => "ok " ++ toHex (Base58.decode s)
    | none => "bad-op"
  | ["aprint", sp, vw, hh] =>
    match parseHex sp, parseHex vw, parseHex hh with
    | some spend, some view, some h =>
      let H : Bytes → Bytes := fun m => if m = prefixXIN ++ spend ++ view then h else []
      "ok " ++ toHex (addrPrint H spend view)
    | _, _, _ => "bad-op"
  | ["aparse", sh, hh, c1, c2] =>
    match parseHex sh, parseHex hh with
    | some s, some h =>
      let data := Base58.decode (s.drop 3)
      let need := s.take 3 = prefixXIN ∧ data.length = 68
      if need ∧ (h.length ≠ 32 ∨ bit c1 = none ∨ bit c2 = none) then "bad-op" else
      let H : Bytes → Bytes := fun m => if m = prefixXIN ++ data.take 64 then h else []
      let ck : Bytes → Bool := fun k =>
        if k = data.take 32 then (bit c1).getD false
        else if k = (data.drop 32).take 32 then (bit c2).getD false else false
      match addrParse H ck s with
      | some (a, b) => "ok " ++ toHex a ++ " " ++ toHex b
      | none => "reject"
    | _, _ => "bad-op"
  | ["hexparse", "cosi", sh] =>
    match parseHex sh with
    | some s =>
      match cosiParse s with
      | some (sig, mask) => "ok " ++ toHex sig ++ s!" {mask}"
      | none => "reject"
    | none => "bad-op"
  | ["hexparse", k, sh] =>
    match kindLen k, parseHex sh with
    | some n, some s =>
      match fixedParse n s with
      | some b => "ok " ++ toHex b
      | none => "reject"
    | _, _ => "bad-op"
  | ["hexprint", "cosi", bh, m] =>
    match parseHex bh, m.toNat? with
    | some b, some mask => if b.length = 64 ∧ mask < 2 ^ 64 then "ok " ++ toHex (cosiPrint b mask) else "bad-op"
    | _, _ => "bad-op"
  | ["hexprint", k, bh] =>
    match kindLen k, parseHex bh with
    | some n, some b => if b.length = n then "ok " ++ toHex (hexEncode b) else "bad-op"
    | _, _ => "bad-op"
  | "viewtx" :: n :: rest =>
    -- viewtx <n> {<script 0|1> <mask> <k> <key dlog>*k}*n <m> {<mask> <index> <hs>}*m
    match n.toNat? with
    | some n =>
      match parseOuts n rest with
      | some (outs, m :: tbl) =>
        match m.toNat? with
        | some m =>
          match parseHs m tbl with
          | some table =>
            let hs : Nat → Nat → Option Nat := fun mask i =>
              (table.find? (fun e => e.1 == mask && e.2.1 == i)).map (fun e => e.2.2)
            match viewTx hs outs with
            | some res => "ok" ++ res.foldl (fun acc ks => acc ++ " " ++ ",".intercalate (ks.map toString) ++ ";") ""
            | none => "bad-oracle"
          | none => "bad-op"
        | none => "bad-op"
      | _ => "bad-op"
    | none => "bad-op"
  | ["ghost", a, b, r, rr, hs1, hs2] =>
    match a.toNat?, b.toNat?, r.toNat?, rr.toNat?, optNat hs1, optNat hs2 with
    | some a, some b, some r, some rr, some hs1, some hs2 =>
      -- "-" = the real code could not compute the hash (it panicked decoding the point);
      -- the model must then not need it
      let h1 := hs1.getD 0
      let h2 := hs2.getD 0
      let pub := derivePub? a b h1
      let priv := derivePriv? rr h2 b
      let view := match pub with
        | some p => viewOut? p rr h2
        | none => none
      if (pub.isSome ∧ hs1.isNone) ∨ (priv.isSome ∧ hs2.isNone) then "bad-op" else
      -- Hs is a function of the shared point: equal shared points must come with equal hashes
      if (r * a) % ell = (a * rr) % ell ∧ hs1.isSome ∧ hs2.isSome ∧ hs1 ≠ hs2 then "bad-oracle" else
      s!"ok {showO priv} {showO pub} {showO view}"
    | _, _, _, _, _, _ => "bad-op"
  | _ => "bad-op"

def run : IO Unit := runPure step

end Mixin.Driver.Keys
