import Mixin.Prelude.Proto
import Mixin.Model.Requeue
/-! Line-protocol driver for the proposal bookkeeping model (C24). -/
namespace Mixin.Driver.Requeue
open Mixin.Proto Mixin.Requeue

def nats (ts : List String) : Option (List Nat) := ts.mapM (·.toNat?)

def insertSorted (x : Nat) : List Nat → List Nat
  | [] => [x]
  | h :: t => if x ≤ h then x :: h :: t else h :: insertSorted x t
def sortNat (l : List Nat) : List Nat := l.foldr insertSorted []

def insertPair (x : Nat × Nat) : List (Nat × Nat) → List (Nat × Nat)
  | [] => [x]
  | h :: t => if x.1 ≤ h.1 then x :: h :: t else h :: insertPair x t

def joinNat (xs : List Nat) : String := ",".intercalate (xs.map toString)

def dump (st : St) : String :=
  let vs := (st.vers.map (fun e => (e.1, e.2.id))).foldr insertPair []
  s!"aggs:{joinNat (sortNat (st.aggs.map (·.snap.hash)))} vers:{",".intercalate (vs.map (fun e => s!"{e.1}={e.2}"))} queue:{joinNat (sortNat st.queue)}"

def step (st : St) (t : List String) : St × String :=
  match t with
  | ["reset"] => ({}, "ok")
  | ["tx", id, kind] =>
    match id.toNat? with
    | some x =>
      match kind with
      | "c" => ({ st with bodies := x :: st.bodies }, "ok")
      | "p" => ({ st with bodies := x :: st.bodies }, "ok")
      | "f" => ({ st with bodies := x :: st.bodies, finalized := x :: st.finalized }, "ok")
      | "m" => (st, "ok")
      | "q" => ({ st with bodies := x :: st.bodies, queue := st.queue ++ [x] }, "ok")
      | _ => (st, "bad-op")
    | none => (st, "bad-op")
  | "agg" :: rest =>
    match nats rest with
    | some (h :: r :: ts :: c :: rs :: b :: n :: txs) =>
      if txs.length = n then
        ({ st with aggs := st.aggs ++ [{ snap := { hash := h, round := r, ts := ts, txs := txs }, commitments := c, responses := rs, base := b }] }, "ok")
      else (st, "bad-op")
    | _ => (st, "bad-op")
  | "ver" :: rest =>
    match nats rest with
    | some [k, vid, r, ts] => ({ st with vers := insert st.vers k { id := vid, round := r, ts := ts } }, "ok")
    | _ => (st, "bad-op")
  | ["expire", now] =>
    match now.toNat? with
    | some now => let st' := expire now roundGap st; (st', dump st')
    | none => (st, "bad-op")
  | "retry" :: rest =>
    match nats rest with
    | some (h :: n :: txs) =>
      if txs.length = n then let st' := retry st { hash := h, round := 0, ts := 0, txs := txs }; (st', dump st')
      else (st, "bad-op")
    | _ => (st, "bad-op")
  | "abandon" :: rest =>
    match nats rest with
    | some (h :: n :: txs) =>
      if txs.length = n then let st' := abandon st { hash := h, round := 0, ts := 0, txs := txs }; (st', dump st')
      else (st, "bad-op")
    | _ => (st, "bad-op")
  | "resetround" :: rest =>
    match nats rest with
    | some (n :: owned) =>
      if owned.length = n then let st' := resetRound st owned; (st', dump st') else (st, "bad-op")
    | _ => (st, "bad-op")
  | "announceat" :: rest =>
    match nats rest with
    | some (h :: r :: ts :: vid :: b :: rts :: cft :: n :: txs) =>
      if txs.length = n && decide (ts < cft + roundGap) then
        let st' := announceAt roundGap st { hash := h, round := r, ts := ts, txs := txs } vid b rts cft
        (st', dump st')
      else (st, "bad-op")
    | _ => (st, "bad-op")
  | "selfsanity" :: rest =>
    match nats rest with
    | some (n :: txs) =>
      if txs.length = n then
        match sanityFinalizedElsewhere st txs with
        | some st' => (st', dump st')
        | none => (st, "bad-op")
      else (st, "bad-op")
    | _ => (st, "bad-op")
  | "announce" :: rest =>
    match nats rest with
    | some (h :: r :: ts :: vid :: b :: n :: txs) =>
      if txs.length = n then
        let st' := announce roundGap st { hash := h, round := r, ts := ts, txs := txs } vid b
        (st', dump st')
      else (st, "bad-op")
    | _ => (st, "bad-op")
  | _ => (st, "bad-op")

def run : IO Unit := runLoop {} step

end Mixin.Driver.Requeue
