import Mixin.Prelude.Proto
import Mixin.Model.Finality
import Mixin.Driver.Membership
/-! Line-protocol driver for C09: membership ops plus `sign` (no-op for the model) and `fin`
(`verifyFinalization` with the signature oracle given as a table of (selected keys ↦ verdict) pairs
computed by the real crypto). -/
namespace Mixin.Driver.Finality
open Mixin.Proto Mixin.Membership Mixin.Finality Mixin.Driver.Membership

structure FSt where
  m : St := default
  table : Table := []
deriving Inhabited

/-- oracle entries: `k key1 … keyk verdict` repeated -/
partial def parseOracle : List String → Option (List (List Nat × Bool))
  | [] => some []
  | k :: rest =>
    match k.toNat? with
    | none => none
    | some k =>
      match parseHexList k (rest.take k), (rest.drop k) with
      | some ks, v :: more =>
        match parseBool v, parseOracle more with
        | some b, some tl => some ((ks, b) :: tl)
        | _, _ => none
      | _, _ => none

def oracleOf (tbl : List (List Nat × Bool)) : Oracle := fun ks _ _ =>
  match tbl.find? (fun e => e.1 == ks) with
  | some e => e.2
  | none => false

def showResult (r : List Nat × Bool) : String :=
  r.1.foldl (fun acc id => acc ++ " " ++ natHex id) s!"ok {if r.2 then 1 else 0} {r.1.length}"

def step (s : FSt) (t0 : List String) : FSt × String :=
  let t := modelPart t0
  match t with
  | ["reset"] => (default, "ok")
  | "sign" :: _ => (s, "ok")
  | ["flush"] => ({ s with table := [] }, "ok")
  | "fin" :: version :: hasSig :: mask :: sig :: hash :: hack :: ts :: round :: oracle =>
    match version.toNat?, parseBool hasSig, hexNat mask, hexNat sig, hexNat hash, parseBool hack, ts.toNat?, round.toNat?,
          parseOracle oracle with
    | some version, some hasSig, some mask, some sig, some hash, some hack, some ts, some round, some otbl =>
      let snap : Snap := ⟨version, hasSig, mask, sig, hash, hack, ts, round⟩
      let (r, t') := verifyFinalization C genFConsts (oracleOf otbl) s.m.node s.m.chain s.table snap
      ({ s with table := t' }, showResult r)
    | _, _, _, _, _, _, _, _, _ => (s, "bad-op")
  | _ =>
    let (m', out) := Mixin.Driver.Membership.step s.m t
    ({ s with m := m' }, out)

def run : IO Unit := runLoop (default : FSt) step

end Mixin.Driver.Finality
