import Mixin.Prelude.Proto
import Mixin.Model.Round
import Mixin.Facts.Generated
/-! Line-protocol driver for the live-round model (C19).

    reset                                  forget the round
    new <number>                           new empty round
    v <add> <round> <hash> <ts> <k> tx…    validateSnapshot(s, add)      → panic | reject | ok <dump>
    push <round> <hash> <ts> <k> tx…       append without validation     → ok <dump>
    gap                                    Gap()                         → panic | ok start end
    final                                  asFinal()                     → nil | panic | ok start end

    Hashes travel as hex and are printed as the decimal value of their big-endian bytes. -/
namespace Mixin.Driver.Round
open Mixin.Proto Mixin.Round

def gapC : Nat := Mixin.Facts.Gen.config_SnapshotRoundGap
def dayC : Nat := Mixin.Facts.Gen.kernel_OneDay

def bytesVal (b : Bytes) : Nat := b.foldl (fun acc x => acc * 256 + x.toNat) 0

def parseHash (s : String) : Option Nat := (parseHex s).map bytesVal

def parseAll (l : List String) : Option (List Nat) :=
  l.foldr (fun s acc => match parseHash s, acc with
    | some x, some r => some (x :: r)
    | _, _ => none) (some [])

def parseSnap (t : List String) : Option Snap :=
  match t with
  | rn :: h :: ts :: k :: txs =>
    match rn.toNat?, parseHash h, ts.toNat?, k.toNat?, parseAll txs with
    | some rn, some h, some ts, some k, some txs =>
      -- domain: snapshots whose payload hash is computable (computed at admission):
      -- 1..255 distinct transactions, exactly one in round 0
      if k = txs.length ∧ 1 ≤ k ∧ k ≤ Mixin.Facts.Gen.common_SnapshotTransactionsMaximum ∧
          (rn = 0 → k = 1) ∧ txs.eraseDups.length = k
      then some { hash := h, ts := ts, txs := txs, round := rn } else none
    | _, _, _, _, _ => none
  | _ => none

def showSnap (s : Snap) : String :=
  s!"{s.ts}/{s.hash}/" ++ "+".intercalate ((s.txs.map toString).mergeSort (fun a b => decide (a ≤ b)))

def dump (r : Round) : String :=
  let items := (r.snaps.map showSnap).mergeSort (fun a b => decide (a ≤ b))
  s!"ok {r.snaps.length}" ++ String.join (items.map (fun x => " " ++ x))

def step (r : Round) (t : List String) : Round × String :=
  match t with
  | ["reset"] => ({ number := 0, snaps := [] }, "ok")
  | ["new", n] =>
    match n.toNat? with
    | some n => ({ number := n, snaps := [] }, "ok 0")
    | none => (r, "bad-op")
  | "v" :: add :: rest =>
    match (if add = "1" then some true else if add = "0" then some false else none), parseSnap rest with
    | some add, some s =>
      match validateSnapshot gapC dayC r s add with
      | .panic => (r, "panic")
      | .reject => (r, "reject")
      | .ok r' => (r', dump r')
    | _, _ => (r, "bad-op")
  | "push" :: rest =>
    match parseSnap rest with
    | some s => let r' := { r with snaps := r.snaps ++ [s] }; (r', dump r')
    | none => (r, "bad-op")
  | ["gap"] =>
    match gapOf gapC r.snaps with
    | none => (r, "panic")
    | some (a, b) => (r, s!"ok {a} {b}")
  | ["final"] =>
    match asFinal gapC r with
    | .nil => (r, "nil")
    | .panic => (r, "panic")
    | .ok a b => (r, s!"ok {a} {b}")
  | _ => (r, "bad-op")

def run : IO Unit := runLoop ({ number := 0, snaps := [] } : Round) step

end Mixin.Driver.Round
