import Mixin.Prelude.Proto
import Mixin.Model.Election
/-! Line-protocol driver for the election model (C29). State: epoch and node-state history. -/
namespace Mixin.Driver.Election
open Mixin.Proto Mixin.Election

structure St where
  epoch : Nat
  hist : List Rec

def hashNat (s : String) : Option Nat :=
  match parseHex s with
  | some b => if b.length = 32 then some (b.foldl (fun acc x => acc * 256 + x.toNat) 0) else none
  | none => none

def natHash (n : Nat) : String :=
  toHex ((List.range 32).map (fun i => (n / 256 ^ (31 - i) % 256).toUInt8))

def parseState : String → Option NState
  | "P" => some .pledging
  | "A" => some .accepted
  | "R" => some .removed
  | "C" => some .cancelled
  | _ => none

def parseRecs : List String → Option (List Rec)
  | [] => some []
  | id :: tx :: ts :: st :: rest =>
    match hashNat id, hashNat tx, ts.toNat?, parseState st, parseRecs rest with
    | some i, some t, some n, some s, some r => some (⟨i, t, n, s⟩ :: r)
    | _, _, _, _, _ => none
  | _ => none

def showGate : Gate → String
  | .reject => "reject"
  | .pass => "pass"
  | .panic => "panic"

def showRec : Option Rec → String
  | some r => "ok " ++ natHash r.id
  | none => "none"

def u64? (s : String) : Option Nat :=
  match s.toNat? with
  | some n => if n < two64 then some n else none
  | none => none

def step (st : St) (t : List String) : St × String :=
  match t with
  | ["reset"] => (⟨0, []⟩, "ok")
  | "hist" :: e :: k :: rest =>
    match u64? e, k.toNat?, parseRecs rest with
    | some e, some k, some recs => if recs.length = k then (⟨e, recs⟩, "ok") else (st, "bad-op")
    | _, _, _ => (st, "bad-op")
  | ["list", ts, ao] =>
    match u64? ts with
    | some ts =>
      if ao ≠ "0" ∧ ao ≠ "1" then (st, "bad-op") else
      let l := nodesList st.hist ts (ao == "1")
      (st, if l.isEmpty then "ok" else "ok " ++ " ".intercalate (l.map (fun r => natHash r.id)))
    | none => (st, "bad-op")
  | ["elect", op, now] =>
    match op.toNat?, u64? now with
    | some op, some now =>
      if op > 255 then (st, "bad-op") else
      (st, match elect st.hist st.epoch op now with
        | .zero => "zero"
        | .panic => "panic"
        | .id n => "id " ++ natHash n)
    | _, _ => (st, "bad-op")
  | ["remove", id, now, old] =>
    match hashNat id, u64? now, (if old = "-" then some none else (hashNat old).map some) with
    | some id, some now, some old => (st, showRec (checkRemove st.hist st.epoch id now old))
    | _, _, _ => (st, "bad-op")
  | ["removeby", id, now, old] =>
    match hashNat id, u64? now, (if old = "-" then some none else (hashNat old).map some) with
    | some id, some now, some old =>
      if electedIs st.hist st.epoch Mixin.Facts.Gen.common_TransactionTypeNodeRemove now id = .panic then (st, "panic")
      else (st, showRec (removeBy st.hist st.epoch now id old))
    | _, _, _ => (st, "bad-op")
  | ["hours", ts] =>
    match u64? ts with
    | some ts => (st, s!"ok accept={acceptHour st.epoch ts} pledge={pledgeHour st.epoch ts}")
    | none => (st, "bad-op")
  | ["removing", ts] =>
    match u64? ts with
    | some ts => (st, showRec (removingAt st.hist st.epoch ts))
    | none => (st, "bad-op")
  | ["prepare", now, epoch] =>
    match u64? now, u64? epoch with
    | some now, some epoch =>
      (st, match prepareRemovalTime now epoch with | some t => s!"ok {t}" | none => "none")
    | _, _ => (st, "bad-op")
  | ["pledge", id, ts] =>
    match hashNat id, u64? ts with
    | some id, some ts => (st, showGate (pledgeGate st.hist st.epoch ts id))
    | _, _ => (st, "bad-op")
  | ["custodian", id, ts] =>
    match hashNat id, u64? ts with
    | some id, some ts => (st, showGate (custodianGate st.hist st.epoch ts id))
    | _, _ => (st, "bad-op")
  | ["cancel", ts] =>
    match u64? ts with
    | some ts => (st, showGate (cancelGate st.hist st.epoch ts))
    | none => (st, "bad-op")
  | ["clk", o, z, ck, op, id, ts] =>
    -- `op` ∈ pledge | custodian | cancel, validated by a node whose clock shows `ck`;
    -- o = the snapshot is the validator's own, z = it carries no timestamp yet
    match hashNat id, u64? ts, u64? ck with
    | some id, some ts, some ck =>
      if (o ≠ "0" ∧ o ≠ "1") ∨ (z ≠ "0" ∧ z ≠ "1") then (st, "bad-op") else
      let self := if o = "1" then id else id + 1
      let snapTs := if z = "1" then 0 else ts
      match op with
      | "pledge" => (st, showGate (pledgeGateSnap self ck st.hist st.epoch id snapTs))
      | "custodian" => (st, showGate (custodianGateSnap self ck st.hist st.epoch id snapTs))
      | "cancel" => (st, showGate (cancelGateSnap self ck st.hist st.epoch id snapTs))
      | _ => (st, "bad-op")
    | _, _, _ => (st, "bad-op")
  | ["consts"] =>
    (st, s!"ok {minNodes} {mintBegin} {mintEnd} {acceptBegin} {acceptEnd} {pledgePeriodMin} {acceptPeriodMin} {acceptPeriodMax} {electOps}")
  | _ => (st, "bad-op")

def run : IO Unit := runLoop (⟨0, []⟩ : St) step

end Mixin.Driver.Election
