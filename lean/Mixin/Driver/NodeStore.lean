import Mixin.Prelude.Proto
import Mixin.Model.NodeStore
import Mixin.Facts.Generated
/-! Line-protocol driver for the membership-history model (C27). -/
namespace Mixin.Driver.NodeStore
open Mixin.Proto Mixin.NodeStore

/-- the periods are taken from the regenerated constants of `config/reader.go` -/
def cfg : Cfg :=
  { pledgePeriod := Mixin.Facts.Gen.config_KernelNodePledgePeriodMinimum
    acceptPeriod := Mixin.Facts.Gen.config_KernelNodeAcceptPeriodMinimum }

def bytesToNat (b : Bytes) : Nat := b.foldl (fun acc x => acc * 256 + x.toNat) 0

def natToBytes (n : Nat) : (len : Nat) → Bytes
  | 0 => []
  | len + 1 => natToBytes (n / 256) len ++ [(n % 256).toUInt8]

def key32 (s : String) : Option Nat :=
  match parseHex s with
  | some b => if b.length == 32 then some (bytesToNat b) else none
  | none => none

def hex32 (n : Nat) : String := toHex (natToBytes n 32)
def hex4 (n : Nat) : String := toHex (natToBytes (n / 2 ^ 224) 4)

def stateName : NState → String
  | .pledging => Mixin.Facts.Gen.common_NodeStatePledging
  | .accepted => Mixin.Facts.Gen.common_NodeStateAccepted
  | .removed => Mixin.Facts.Gen.common_NodeStateRemoved
  | .cancelled => Mixin.Facts.Gen.common_NodeStateCancelled

def showShort (r : Rec) : String :=
  s!"{r.ts}:{hex4 r.signer}:{hex4 r.payee}:{hex4 r.tx}:{stateName r.state}"

def showFull (r : Rec) : String :=
  s!"{r.ts}:{hex32 r.signer}:{hex32 r.payee}:{hex32 r.tx}:{stateName r.state}"

def dump (f : Rec → String) : Option (List Rec) → String
  | none => "panic"
  | some [] => "-"
  | some l => ",".intercalate (l.map f)

def maxU64 : Nat := 2 ^ 64 - 1

def after (s : Store) (d : String) : String :=
  s!"{d} all={dump showShort (readAll s maxU64 true)} latest={dump showShort (readAll s maxU64 false)}"

def apply (s : Store) (o : Op) : Store × String :=
  match write cfg s o with
  | .ok s' => (s', after s' "ok")
  | .reject => (s, after s "reject")
  | .panic => (s, after s "panic")

def parseOp (k : OpKind) (a b t ts : String) : Option Op :=
  match key32 a, key32 b, key32 t, ts.toNat? with
  | some x, some y, some z, some n => if n < 2 ^ 64 then some ⟨k, x, y, z, n⟩ else none
  | _, _, _, _ => none

def doOp (s : Store) (k : OpKind) (a b t ts : String) : Store × String :=
  match parseOp k a b t ts with
  | some o => apply s o
  | none => (s, "bad-op")

def step (s : Store) (t : List String) : Store × String :=
  match t with
  | ["reset"] => ([], "ok")
  | ["pledge", a, b, x, ts] => doOp s .pledge a b x ts
  | ["accept", a, b, x, ts] => doOp s .accept a b x ts
  | ["cancel", a, b, x, ts] => doOp s .cancel a b x ts
  | ["remove", a, b, x, ts] => doOp s .remove a b x ts
  | ["genesis", a, b, x, ts] => doOp s .genesis a b x ts
  | ["read", thr, ws] =>
    match thr.toNat?, ws with
    | some n, "1" => (s, dump showFull (readAll s n true))
    | some n, "0" => (s, dump showFull (readAll s n false))
    | _, _ => (s, "bad-op")
  | _ => (s, "bad-op")

def run : IO Unit := runLoop ([] : Store) step

end Mixin.Driver.NodeStore
