import Mixin.Prelude.Proto
import Mixin.Model.MintAccept
import Mixin.Driver.Election
import Mixin.Driver.Mint
/-! Line-protocol driver for the mint acceptance model (C25 on top of C29). -/
namespace Mixin.Driver.MintAccept
open Mixin.Proto Mixin.Election Mixin.Mint Mixin.MintAccept
open Mixin.Driver.Election (hashNat natHash parseRecs u64?)

/-- per node id: today's lead work, space checkpoint batch, yesterday's (lead, sign) -/
structure NodeWork where
  id : Nat
  today : Nat
  space : Nat
  lead : Nat
  sign : Nat

structure St where
  epoch : Nat
  hist : List Rec
  works : List NodeWork
  lastBatch : Nat
  lastAmount : Nat
  total : Nat

def parseWorks : List String → Option (List NodeWork)
  | [] => some []
  | id :: a :: b :: c :: d :: rest =>
    match hashNat id, a.toNat?, b.toNat?, c.toNat?, d.toNat?, parseWorks rest with
    | some i, some a, some b, some c, some d, some r => some (⟨i, a, b, c, d⟩ :: r)
    | _, _, _, _, _, _ => none
  | _ => none

def lookupWork (ws : List NodeWork) (id : Nat) : NodeWork :=
  match ws.find? (fun w => w.id == id) with
  | some w => w
  | none => ⟨id, 0, 0, 0, 0⟩

/-- the store reads of the validator at `ts`, in accepted-list order -/
def envAt (st : St) (ts thr canon : Nat) : MintEnv :=
  let acc := (nodesList st.hist ts true).map (fun r => lookupWork st.works r.id)
  { hist := st.hist, epoch := st.epoch, lastBatch := st.lastBatch, lastAmount := st.lastAmount,
    today := acc.map (·.today), spaces := acc.map (·.space), works := acc.map (fun w => (w.lead, w.sign)),
    thr := thr, canonRest := canon }

def restNat (s : String) : Option Nat := if s = "-" then some 0 else (hashNat s).map (· + 1)

def showDecision : Decision → String
  | .accept => "accept"
  | .reject => "reject"
  | .panic => "panic"

def stepC (own ts0 : Bool) (clock : Nat) (st : St) (t : List String) : St × String :=
  let self := fun (p : Nat) => if own then p else p + 1
  let snapTs := fun (ts : Nat) => if ts0 then 0 else ts
  match t with
  | ["reset"] => (⟨0, [], [], 0, 0, 0⟩, "ok")
  | "hist" :: e :: k :: rest =>
    match u64? e, k.toNat?, parseRecs rest with
    | some e, some k, some recs => if recs.length = k then ({ st with epoch := e, hist := recs }, "ok") else (st, "bad-op")
    | _, _, _ => (st, "bad-op")
  | "works" :: k :: rest =>
    match k.toNat?, parseWorks rest with
    | some k, some ws => if ws.length = k then ({ st with works := ws }, "ok") else (st, "bad-op")
    | _, _ => (st, "bad-op")
  | ["last", b, a] =>
    match b.toNat?, a.toNat? with
    | some b, some a => ({ st with lastBatch := b, lastAmount := a, total := 0 }, "ok")
    | _, _ => (st, "bad-op")
  | "mint" :: p :: ts :: thr :: canon :: cb :: ca :: cr :: k :: outs =>
    match hashNat p, u64? ts, thr.toNat?, restNat canon, cb.toNat?, ca.toNat?, restNat cr, k.toNat?,
      Mixin.Driver.Mint.nats outs with
    | some p, some ts, some thr, some canon, some cb, some ca, some cr, some k, some outs =>
      if outs.length ≠ k then (st, "bad-op") else
      (st, showDecision (validateMintSnap (self p) clock (envAt st (opTime (self p) clock p (snapTs ts)) thr canon) p (snapTs ts) ⟨cb, ca, outs, cr⟩))
    | _, _, _, _, _, _, _, _, _ => (st, "bad-op")
  | ["mintnew", p, ts, thr, canon] =>
    match hashNat p, u64? ts, thr.toNat?, restNat canon with
    | some p, some ts, some thr, some canon =>
      let env := envAt st ts thr canon
      match buildMint env ts false with
      | .panic => (st, "panic")
      | .nil => (st, "nil")
      | .tx b =>
        match validateMint env p ts b with
        | .accept =>
          ({ st with lastBatch := b.batch, lastAmount := b.amount, total := st.total + b.amount },
            s!"accept {b.batch} {b.amount} {st.total + b.amount}")
        | d => (st, showDecision d)
    | _, _, _, _ => (st, "bad-op")
  | _ => (st, "bad-op")

def step (st : St) (t : List String) : St × String :=
  match t with
  | "clk" :: o :: z :: ck :: inner =>
    match o, z, u64? ck with
    | "0", "0", some ck => stepC false false ck st inner
    | "0", "1", some ck => stepC false true ck st inner
    | "1", "0", some ck => stepC true false ck st inner
    | "1", "1", some ck => stepC true true ck st inner
    | _, _, _ => (st, "bad-op")
  | _ => stepC false false 0 st t

def run : IO Unit := runLoop (⟨0, [], [], 0, 0, 0⟩ : St) step

end Mixin.Driver.MintAccept
