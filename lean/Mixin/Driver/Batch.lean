import Mixin.Prelude.Proto
import Mixin.Model.Batch
/-! Line-protocol driver for the batcher / builders / framing model (C31). -/
namespace Mixin.Driver.Batch
open Mixin.Proto Mixin.Batch

def nats (ts : List String) : Option (List Nat) := ts.mapM (·.toNat?)

def bool01 : Nat → Option Bool
  | 0 => some false
  | 1 => some true
  | _ => none

def parseTxs : Nat → List Nat → Option (List QTx)
  | 0, [] => some []
  | n + 1, id :: p :: e :: b :: f :: v :: el :: rest => do
    let b ← bool01 b; let f ← bool01 f; let v ← bool01 v; let el ← bool01 el
    let r ← parseTxs n rest
    pure ({ id := id, payload := p, env := e, batchable := b, finalized := f, valid := v, elected := el } :: r)
  | _, _ => none

def insertGroup (g : List QTx) : List (List QTx) → List (List QTx)
  | [] => [g]
  | h :: t =>
    if (g.head?.map (·.id)).getD 0 ≤ (h.head?.map (·.id)).getD 0 then g :: h :: t else h :: insertGroup g t

def sortGroups (gs : List (List QTx)) : List (List QTx) := gs.foldr insertGroup []

def joinNat (xs : List Nat) : String := ",".intercalate (xs.map toString)

def showOpt : Option Nat → String
  | some n => s!"ok {n}"
  | none => "panic"

def envsOf (k : String) (rest : List String) : Option (List Nat) := do
  let k ← k.toNat?
  let es ← nats rest
  if es.length = k then some es else none

def popOut (txs : List QTx) : String :=
  let gs := sortGroups (popGroups txs)
  let gstr := gs.map (fun g => s!" g:{joinNat (g.map (·.id))}:{(bundleMsg snapTxMax (g.map (·.env))).getD 0}")
  s!"ok n={min txs.length snapTxMax}{String.join gstr} stale:{joinNat (staleOf .envelope (threshold maxSize) snapTxMax txs)}"

def stateless (t : List String) : String :=
  match t with
  | "build" :: "bundle" :: k :: rest =>
    match envsOf k rest with | some es => showOpt (bundleMsg snapTxMax es) | none => "bad-op"
  | "build" :: "challenge" :: k :: rest =>
    match envsOf k rest with | some es => showOpt (challengeMsg snapTxMax es) | none => "bad-op"
  | "build" :: "fullchallenge" :: refs :: ntx :: k :: rest =>
    match refs.toNat?.bind bool01, ntx.toNat?, envsOf k rest with
    | some r, some n, some es => showOpt (fullChallengeMsg snapTxMax r n es)
    | _, _, _ => "bad-op"
  | ["build", "announcement", refs, ntx] =>
    match refs.toNat?.bind bool01, ntx.toNat? with
    | some r, some n => s!"ok {announcementMsg r n}"
    | _, _ => "bad-op"
  | ["build", "finalization", refs, ntx] =>
    match refs.toNat?.bind bool01, ntx.toNat? with
    | some r, some n => s!"ok {finalizationMsg r n}"
    | _, _ => "bad-op"
  | ["build", "commitment", n] =>
    match n.toNat? with | some n => s!"ok {commitmentMsg n}" | none => "bad-op"
  | ["srccheck"] => "ok dominated"
  | ["build", "response"] => s!"ok {responseMsg}"
  | ["build", "relay", n] =>
    match n.toNat? with | some n => showOpt (relayMsg maxSize n) | none => "bad-op"
  | ["send", h] =>
    match parseHex h with
    | some d => match frame maxSize frameVersion d with | some f => "ok " ++ toHex f | none => "reject"
    | none => "bad-op"
  | ["recv", limit, h] =>
    match limit.toNat?, parseHex h with
    | some l, some s =>
      match receive maxSize frameVersion l s with
      | .ok d _ => "ok " ++ toHex d
      | _ => "reject"
    | _, _ => "bad-op"
  | ["big", n] =>
    match n.toNat? with
    | some n => if sendAccepts maxSize n then s!"ok {n}" else "reject"
    | none => "bad-op"
  | ["bighdr", limit, size] =>
    match limit.toNat?, size.toNat? with
    | some l, some n =>
      if n ≥ 4294967296 then "bad-op" else
      match receive maxSize frameVersion l (frameVersion.toUInt8 :: 0 :: be32 n) with
      | .ok _ _ => "ok"
      | .shortBody _ => "reject a=1"
      | _ => "reject a=0"
    | _, _ => "bad-op"
  | _ => "bad-op"

/-- state: the transactions queued since `reset`, in queue order -/
def step (q : List QTx) (t : List String) : List QTx × String :=
  match t with
  | ["reset"] => ([], "ok")
  | "mk" :: rest =>
    match nats rest with
    | some ns =>
      match parseTxs 1 ns with
      | some [tx] => (q ++ [tx], "ok")
      | _ => (q, "bad-op")
    | none => (q, "bad-op")
  | ["run"] => ([], popOut q)
  | _ => (q, stateless t)

def run : IO Unit := runLoop [] step

end Mixin.Driver.Batch
