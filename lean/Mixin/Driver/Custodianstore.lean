import Mixin.Prelude.Proto
import Mixin.Model.Custodian
import Mixin.Model.CustodianStore
/-! Line-protocol driver for the custodian history / kernel validator model (C34, stateful). -/
namespace Mixin.Driver.Custodianstore
open Mixin.Proto Mixin.Custodian Mixin.CustodianStore

abbrev Table := List ((Bytes × Bytes × Bytes) × Bool)

structure St where
  store : Store := Store.empty
  cache : Cache := []
  tbl : Table := []

def bits (s : String) : Option (List Bool) :=
  if s = "-" then some [] else
  s.toList.foldr (fun c acc => match acc with
    | none => none
    | some l => if c = '1' then some (true :: l) else if c = '0' then some (false :: l) else none) (some [])

def chunkCount (extra : Bytes) : Nat :=
  if extra.length < 64 + nodeExtraSize * nodesMinimumCount + 64 then 0
  else if (extra.length - 128) % nodeExtraSize ≠ 0 then 0
  else (extra.length - 128) / nodeExtraSize

def extraChunks (extra : Bytes) : List Bytes :=
  let nodesExtra := slice extra 64 (extra.length - 64)
  chunks (nodesExtra.length / nodeExtraSize) nodesExtra

/-- answers of the real `Verify` for the payee / custodian signatures of every entry -/
def sigTable (extra : Bytes) (P C : List Bool) : Table :=
  ((extraChunks extra).zip (P.zip C)).flatMap (fun (c, p, q) =>
    let n : Node := ⟨c⟩
    [((n.payeeSpend, n.signed, n.payeeSig), p), ((n.custSpend, n.signed, n.custSig), q)])

def verifier (t : Table) : Verifier := fun k m s => (t.lookup (k, m, s)).getD false

def showFound : Option (Option Found × Option Cache) → String
  | none => "err"
  | some (none, _) => "none"
  | some (some f, _) =>
    s!"found {f.ts} {toHex f.tx} {toHex f.req.custodian} {toHex f.req.signature} {f.req.nodes.length} " ++
      toHex (f.req.nodes.flatMap (fun n => n.custAddr ++ n.payeeAddr))

def showW : WriteOutcome → String
  | .written => "written"
  | .unchanged => "unchanged"
  | .error => "error"
  | .panic => "panic"

def showKeys (es : List Entry) : String :=
  es.foldl (fun acc e => acc ++ s!" {e.ts}:" ++ toHex (e.tx.take 8)) s!"{es.length}"

def showOutcome : Outcome → String
  | .accept => "accept"
  | .reject => "reject"
  | .panic => "panic"

def parseKNodes : Nat → List String → Option (List KNode)
  | 0, [] => some []
  | n + 1, a :: b :: c :: rest =>
    match parseHex a, parseHex b, parseHex c, parseKNodes n rest with
    | some a, some b, some c, some r => some (⟨a, b, c⟩ :: r)
    | _, _, _, _ => none
  | _, _ => none

def bit (s : String) : Option Bool := if s = "1" then some true else if s = "0" then some false else none

def step (st : St) (t : List String) : St × String :=
  match t with
  | ["reset"] => ({}, "ok")
  | ["reopen"] => ({ st with cache := [] }, "ok")
  | ["fin", hh, g, ts, eh, p, c] =>
    match parseHex hh, bit g, ts.toNat?, parseHex eh, bits p, bits c with
    | some hash, some g, some ts, some extra, some P, some C =>
      let k := chunkCount extra
      if P.length ≠ k ∨ C.length ≠ k then (st, "bad-op") else
      let tbl := st.tbl ++ sigTable extra P C
      let (o, s') := finalize (verifier tbl) st.store hash extra g ts
      ({ st with store := s', tbl := tbl }, showW o ++ " " ++ showKeys s'.entries)
    | _, _, _, _, _, _ => (st, "bad-op")
  | ["read", ts, mode] =>
    match ts.toNat? with
    | some ts =>
      if mode = "n" then (st, showFound (readCustodian (verifier st.tbl) st.store ts none))
      else if mode = "c" then
        let r := readCustodian (verifier st.tbl) st.store ts (some st.cache)
        let cache' := match r with
          | some (_, some c') => c'
          | _ => st.cache
        ({ st with cache := cache' }, showFound r)
      else (st, "bad-op")
    | none => (st, "bad-op")
  | ["cval", xin, ver, asset, ty, am, ks, sc, ts, eh, p, c, a] =>
    -- common-level validation against the stored history at `ts`
    match parseHex xin, ver.toNat?, parseHex asset, ty.toNat?, am.toNat?, ks.toNat?, parseHex sc with
    | some xin, some ver, some asset, some ty, some am, some ks, some sc =>
      match ts.toNat?, parseHex eh, bits p, bits c with
      | some ts, some extra, some P, some C =>
        let k := chunkCount extra
        if P.length ≠ k ∨ C.length ≠ k then (st, "bad-op") else
        if a ≠ "0" ∧ a ≠ "1" ∧ a ≠ "-" then (st, "bad-op") else
        let tbl0 := st.tbl ++ sigTable extra P C
        let r := readCustodian (verifier tbl0) st.store ts (some st.cache)
        let cache' := match r with
          | some (_, some c') => c'
          | _ => st.cache
        let tbl := match r with
          | some (some f, _) =>
            if a = "-" then tbl0 else
            tbl0 ++ [((f.req.custodian.take 32, extra.take (extra.length - 64), extra.drop (extra.length - 64)), a == "1")]
          | _ => tbl0
        let tx : Tx := { version := ver, asset := asset, outputs := [⟨ty, am, ks, sc⟩], extra := extra }
        ({ st with cache := cache', tbl := tbl }, showOutcome (validate (verifier tbl) xin tx (storeReadOf r)))
      | _, _, _, _ => (st, "bad-op")
    | _, _, _, _, _, _, _ => (st, "bad-op")
  | "kval" :: gate :: fin :: ts :: gts :: thr :: eh :: p :: c :: a :: sg :: nall :: rest =>
    match bit gate, bit fin, ts.toNat?, gts.toNat?, thr.toNat?, parseHex eh with
    | some gate, some fin, some ts, some gts, some thr, some extra =>
      match bits p, bits c, bits sg, nall.toNat? with
      | some P, some C, some S, some nall =>
        match parseKNodes nall rest with
        | some all =>
          let k := chunkCount extra
          if P.length ≠ k ∨ C.length ≠ k ∨ S.length ≠ k then (st, "bad-op") else
          if a ≠ "0" ∧ a ≠ "1" ∧ a ≠ "-" then (st, "bad-op") else
          let tbl0 := st.tbl ++ sigTable extra P C
          let r := readCustodian (verifier tbl0) st.store ts (some st.cache)
          let cache' := match r with
            | some (_, some c') => c'
            | _ => st.cache
          let tbl1 := match r with
            | some (some f, _) =>
              if a = "-" then tbl0 else
              tbl0 ++ [((f.req.custodian.take 32, extra.take (extra.length - 64), extra.drop (extra.length - 64)), a == "1")]
            | _ => tbl0
          -- signer signatures: answer for the node the filter finds for each entry
          let tbl := tbl1 ++ ((extraChunks extra).zip S).flatMap (fun (ch, b) =>
            let n : Node := ⟨ch⟩
            match nodeFilter all n.nodeId with
            | some cn => [((cn.signer, n.signed, n.signerSig), b)]
            | none => [])
          ({ st with cache := cache', tbl := tbl },
            showOutcome (kernelValidate (verifier tbl) gate fin ts gts thr extra (storeReadOf r) all))
        | none => (st, "bad-op")
      | _, _, _, _ => (st, "bad-op")
    | _, _, _, _, _, _ => (st, "bad-op")
  | _ => (st, "bad-op")

def run : IO Unit := runLoop ({} : St) step

end Mixin.Driver.Custodianstore
