import Mixin.Model.PeerMsg
/-! Helper lemmas for C08 (slices, big-endian numbers, loops of the peer-message parser). -/
namespace Mixin.PeerMsg
open Mixin.Proto (Bytes)

theorem slice_eq_some {b : Bytes} {lo hi : Nat} {r : Bytes} (h : slice b lo hi = some r) :
    lo ≤ hi ∧ hi ≤ b.length ∧ r = (b.drop lo).take (hi - lo) := by
  unfold slice at h
  split at h
  · next hc => simp at h; exact ⟨hc.1, hc.2, h.symm⟩
  · simp at h

theorem slice_eq_none {b : Bytes} {lo hi : Nat} (h : slice b lo hi = none) :
    ¬ (lo ≤ hi ∧ hi ≤ b.length) := by
  unfold slice at h
  split at h
  · simp at h
  · assumption

theorem sliceFrom_eq_some {b : Bytes} {lo : Nat} {r : Bytes} (h : sliceFrom b lo = some r) :
    lo ≤ b.length ∧ r = b.drop lo := by
  unfold sliceFrom at h
  split at h
  · next hc => simp at h; exact ⟨hc, h.symm⟩
  · simp at h

theorem sliceFrom_eq_none {b : Bytes} {lo : Nat} (h : sliceFrom b lo = none) : ¬ lo ≤ b.length := by
  unfold sliceFrom at h
  split at h
  · simp at h
  · assumption

/-! ### totality of the loops -/

theorem parseTxLoop_total (O : Oracle) : ∀ (n : Nat) (data : Bytes), parseTxLoop O n data ≠ .panic := by
  intro n
  induction n with
  | zero => intro data; unfold parseTxLoop; split <;> simp
  | succ n ih =>
    intro data
    unfold parseTxLoop
    split
    · simp
    · next h4 =>
      split
      · next hs => have := slice_eq_none hs; omega
      · next h hs =>
        split
        · next hs2 => have := sliceFrom_eq_none hs2; omega
        · next rest hs2 =>
          obtain ⟨_, rfl⟩ := sliceFrom_eq_some hs2
          try dsimp only
          split
          · simp
          · next hsz =>
            simp only [List.length_drop] at hsz
            split
            · next hs3 => have := slice_eq_none hs3; omega
            · next txb hs3 =>
              split
              · simp
              · split
                · next hs4 => have := sliceFrom_eq_none hs4; omega
                · next d' hs4 =>
                  have := ih d'
                  split <;> simp_all

theorem parseTransactionsPayload_total (O : Oracle) (data : Bytes) :
    parseTransactionsPayload O data ≠ .panic := by
  unfold parseTransactionsPayload
  split
  · simp
  · next c t =>
    split
    · next hs => have := sliceFrom_eq_none hs; simp at this
    · exact parseTxLoop_total O _ _


theorem unmarshalSyncPoints_total (b : Bytes) : unmarshalSyncPoints b ≠ .panic := by
  unfold unmarshalSyncPoints
  split
  · simp
  · split
    · next hs => have := slice_eq_none hs; omega
    · split
      · simp
      · split
        · next hs => have := sliceFrom_eq_none hs; omega
        · split
          · simp
          · try dsimp only
            split
            · simp
            · split <;> simp

theorem preCommitLoop_total (O : Oracle) (data : Bytes) :
    ∀ (n i : Nat), i + n ≤ 1024 → 67 + 32 * (i + n) ≤ data.length + 32 →
      preCommitLoop O data n i ≠ .panic := by
  intro n
  induction n with
  | zero => intro i _ _; simp [preCommitLoop]
  | succ n ih =>
    intro i h1 h2
    unfold preCommitLoop
    split
    · next hs =>
      have := sliceFrom_eq_none hs
      simp only [u16] at this
      omega
    · try dsimp only
      split
      · simp
      · have := ih (i + 1) (by omega) (by omega)
        split <;> simp_all

theorem wantLoop_total (txs : Bytes) :
    ∀ (n i : Nat), (i + n) * 32 ≤ txs.length + 32 → wantLoop txs n i ≠ .panic := by
  intro n
  induction n with
  | zero => intro i _; simp [wantLoop]
  | succ n ih =>
    intro i h1
    unfold wantLoop
    split
    · next hs => have := sliceFrom_eq_none hs; omega
    · have h2 : (i + 1 + n) * 32 ≤ txs.length + 32 := by omega
      have := ih (i + 1) h2
      split <;> simp_all


/-! ### totality of each `case` -/

theorem parsePreCommitments_total (O : Oracle) (msg : Msg) (data : Bytes) :
    parsePreCommitments O msg data ≠ .panic := by
  unfold parsePreCommitments
  split
  · simp
  · split
    · next hs => have := slice_eq_none hs; omega
    · split
      · next hs => have := slice_eq_none hs; omega
      · next cb _ =>
        try dsimp only
        split
        · simp
        · split
          · next hs => have := sliceFrom_eq_none hs; omega
          · next rest hs =>
            obtain ⟨_, rfl⟩ := sliceFrom_eq_some hs
            split
            · simp
            · next hc hl =>
              simp only [List.length_drop, ne_eq, Decidable.not_not] at hl
              have := preCommitLoop_total O data (beNat cb) 0 (by omega) (by omega)
              split
              · simp
              · simp_all
              · split
                · next hs => have := sliceFrom_eq_none hs; omega
                · simp

theorem parseGraph_total (msg : Msg) (data : Bytes) : parseGraph msg data ≠ .panic := by
  unfold parseGraph
  split
  · simp
  · split
    · next hs => have := sliceFrom_eq_none hs; omega
    · split
      · next hs => have := sliceFrom_eq_none hs; omega
      · next u hs =>
        have := unmarshalSyncPoints_total u
        split <;> simp_all

theorem parseAuthentication_total (msg : Msg) (data : Bytes) : parseAuthentication msg data ≠ .panic := by
  unfold parseAuthentication authenticationMessageSize
  split
  · simp
  · split
    · next hs => have := sliceFrom_eq_none hs; omega
    · simp

theorem parseSnapshotConfirm_total (msg : Msg) (data : Bytes) : parseSnapshotConfirm msg data ≠ .panic := by
  unfold parseSnapshotConfirm
  split
  · simp
  · split
    · next hs => have := sliceFrom_eq_none hs; omega
    · simp

theorem parseTransactionRequest_total (msg : Msg) (data : Bytes) : parseTransactionRequest msg data ≠ .panic := by
  unfold parseTransactionRequest
  split
  · simp
  · split
    · next hs => have := sliceFrom_eq_none hs; omega
    · simp

theorem parseTransaction_total (O : Oracle) (msg : Msg) (data : Bytes) (h : 1 ≤ data.length) :
    parseTransaction O msg data ≠ .panic := by
  unfold parseTransaction
  split
  · next hs => have := sliceFrom_eq_none hs; omega
  · split <;> simp

theorem parseBundle_total (O : Oracle) (msg : Msg) (data : Bytes) (h : 1 ≤ data.length) :
    parseBundle O msg data ≠ .panic := by
  unfold parseBundle
  split
  · next hs => have := sliceFrom_eq_none hs; omega
  · next d _ =>
    have := parseTransactionsPayload_total O d
    split <;> simp_all

theorem parseAnnouncement_total (O : Oracle) (msg : Msg) (data : Bytes) (h : 1 ≤ data.length) :
    parseAnnouncement O msg data ≠ .panic := by
  unfold parseAnnouncement
  split
  · next hs => have := sliceFrom_eq_none hs; omega
  · next d1 hs =>
    obtain ⟨_, rfl⟩ := sliceFrom_eq_some hs
    simp only [List.length_drop]
    split
    · simp
    · split
      · next hs => have := slice_eq_none hs; omega
      · split
        · next hs => have := sliceFrom_eq_none hs; omega
        · try dsimp only
          split
          · simp
          · split
            · next hs => have := sliceFrom_eq_none hs; omega
            · split <;> simp

theorem parseCommitment_total (O : Oracle) (msg : Msg) (data : Bytes) (h : 1 ≤ data.length) :
    parseCommitment O msg data ≠ .panic := by
  unfold parseCommitment
  split
  · next hs => have := sliceFrom_eq_none hs; omega
  · next d1 hs =>
    obtain ⟨_, rfl⟩ := sliceFrom_eq_some hs
    simp only [List.length_drop]
    split
    · simp
    · split
      · next hs => have := slice_eq_none hs; omega
      · split
        · next hs => have := sliceFrom_eq_none hs; omega
        · split
          · next hs => have := sliceFrom_eq_none hs; omega
          · try dsimp only
            split
            · simp
            · split
              · next hs => have := sliceFrom_eq_none hs; omega
              · next txs hs =>
                split
                · split
                  · simp
                  · next hm =>
                    have := wantLoop_total txs (txs.length / 32) 0 (by omega)
                    split <;> simp_all
                · simp

theorem parseFullChallenge_total (O : Oracle) (msg : Msg) (data : Bytes) (h : 1 ≤ data.length) :
    parseFullChallenge O msg data ≠ .panic := by
  unfold parseFullChallenge
  split
  · next hs => have := sliceFrom_eq_none hs; omega
  · next d1 hs =>
    obtain ⟨_, rfl⟩ := sliceFrom_eq_some hs
    simp only [List.length_drop]
    split
    · simp
    · split
      · next hs => have := slice_eq_none hs; omega
      · try dsimp only
        split
        · next hs => have := sliceFrom_eq_none hs; omega
        · next r5 hs =>
          obtain ⟨_, rfl⟩ := sliceFrom_eq_some hs
          simp only [List.length_drop]
          split
          · simp
          · split
            · next hs => have := slice_eq_none hs; omega
            · split
              · simp
              · split
                · simp
                · split
                  · next hs => have := sliceFrom_eq_none hs; omega
                  · next r hs =>
                    obtain ⟨_, rfl⟩ := sliceFrom_eq_some hs
                    simp only [List.length_drop]
                    split
                    · simp
                    · split
                      · next hs => have := slice_eq_none hs; omega
                      · try dsimp only
                        split
                        · simp
                        · split
                          · next hs => have := slice_eq_none hs; omega
                          · try dsimp only
                            split
                            · simp
                            · split
                              · next hs => have := sliceFrom_eq_none hs; omega
                              · next pl _ =>
                                have := parseTransactionsPayload_total O pl
                                split <;> simp_all

theorem parseTransactionChallenge_total (O : Oracle) (msg : Msg) (data : Bytes) (h : 1 ≤ data.length) :
    parseTransactionChallenge O msg data ≠ .panic := by
  unfold parseTransactionChallenge
  split
  · next hs => have := sliceFrom_eq_none hs; omega
  · next d1 hs =>
    obtain ⟨_, rfl⟩ := sliceFrom_eq_some hs
    simp only [List.length_drop]
    split
    · simp
    · split
      · next hs => have := sliceFrom_eq_none hs; omega
      · split
        · next hs => have := slice_eq_none hs; omega
        · split
          · next hs => have := sliceFrom_eq_none hs; omega
          · next pl _ =>
            have := parseTransactionsPayload_total O pl
            split <;> simp_all

theorem parseResponse_total (msg : Msg) (data : Bytes) (h : 1 ≤ data.length) :
    parseResponse msg data ≠ .panic := by
  unfold parseResponse
  split
  · next hs => have := sliceFrom_eq_none hs; omega
  · next d1 hs =>
    obtain ⟨_, rfl⟩ := sliceFrom_eq_some hs
    simp only [List.length_drop]
    split
    · simp
    · split
      · next hs => have := sliceFrom_eq_none hs; omega
      · simp

theorem parseFinalization_total (O : Oracle) (msg : Msg) (data : Bytes) (h : 1 ≤ data.length) :
    parseFinalization O msg data ≠ .panic := by
  unfold parseFinalization
  split
  · next hs => have := sliceFrom_eq_none hs; omega
  · split <;> simp

theorem parseConsumers_total (msg : Msg) (data : Bytes) (h : 1 ≤ data.length) :
    parseConsumers msg data ≠ .panic := by
  unfold parseConsumers
  split
  · next hs => have := sliceFrom_eq_none hs; omega
  · simp

end Mixin.PeerMsg
