import Mixin.Model.PeerMsg
/-! Helper lemmas for C08 (slices, big-endian numbers, loops of the peer-message parser). -/
namespace Mixin.PeerMsg
open Mixin.Proto (Bytes)

theorem slice_eq_some {b : Bytes} {lo hi : Nat} {r : Bytes} (h : slice b lo hi = some r) :
    lo ≤ hi ∧ hi ≤ b.length ∧ r = (b.drop lo).take (hi - lo) := by
  unfold slice at h
  split at h
  · next hc => simp at h; exact ⟨hc.1, hc.2, h.symm⟩
  · simp at h

theorem slice_eq_none {b : Bytes} {lo hi : Nat} (h : slice b lo hi = none) :
    ¬ (lo ≤ hi ∧ hi ≤ b.length) := by
  unfold slice at h
  split at h
  · simp at h
  · assumption

theorem sliceFrom_eq_some {b : Bytes} {lo : Nat} {r : Bytes} (h : sliceFrom b lo = some r) :
    lo ≤ b.length ∧ r = b.drop lo := by
  unfold sliceFrom at h
  split at h
  · next hc => simp at h; exact ⟨hc, h.symm⟩
  · simp at h

theorem sliceFrom_eq_none {b : Bytes} {lo : Nat} (h : sliceFrom b lo = none) : ¬ lo ≤ b.length := by
  unfold sliceFrom at h
  split at h
  · simp at h
  · assumption

/-! ### totality of the loops -/

theorem parseTxLoop_total (O : Oracle) : ∀ (n : Nat) (data : Bytes), parseTxLoop O n data ≠ .panic := by
  intro n
  induction n with
  | zero => intro data; unfold parseTxLoop; split <;> simp
  | succ n ih =>
    intro data
    unfold parseTxLoop
    split
    · simp
    · next h4 =>
      split
      · next hs => have := slice_eq_none hs; omega
      · next h hs =>
        split
        · next hs2 => have := sliceFrom_eq_none hs2; omega
        · next rest hs2 =>
          obtain ⟨_, rfl⟩ := sliceFrom_eq_some hs2
          try dsimp only
          split
          · simp
          · next hsz =>
            simp only [List.length_drop] at hsz
            split
            · next hs3 => have := slice_eq_none hs3; omega
            · next txb hs3 =>
              split
              · simp
              · split
                · next hs4 => have := sliceFrom_eq_none hs4; omega
                · next d' hs4 =>
                  have := ih d'
                  split <;> simp_all

theorem parseTransactionsPayload_total (O : Oracle) (data : Bytes) :
    parseTransactionsPayload O data ≠ .panic := by
  unfold parseTransactionsPayload
  split
  · simp
  · next c t =>
    split
    · next hs => have := sliceFrom_eq_none hs; simp at this
    · exact parseTxLoop_total O _ _


theorem unmarshalSyncPoints_total (b : Bytes) : unmarshalSyncPoints b ≠ .panic := by
  unfold unmarshalSyncPoints
  split
  · simp
  · split
    · next hs => have := slice_eq_none hs; omega
    · split
      · simp
      · split
        · next hs => have := sliceFrom_eq_none hs; omega
        · split
          · simp
          · try dsimp only
            split
            · simp
            · split <;> simp

theorem preCommitLoop_total (O : Oracle) (data : Bytes) :
    ∀ (n i : Nat), i + n ≤ 1024 → 67 + 32 * (i + n) ≤ data.length + 32 →
      preCommitLoop O data n i ≠ .panic := by
  intro n
  induction n with
  | zero => intro i _ _; simp [preCommitLoop]
  | succ n ih =>
    intro i h1 h2
    unfold preCommitLoop
    split
    · next hs =>
      have := sliceFrom_eq_none hs
      simp only [u16] at this
      omega
    · try dsimp only
      split
      · simp
      · have := ih (i + 1) (by omega) (by omega)
        split <;> simp_all

theorem wantLoop_total (txs : Bytes) :
    ∀ (n i : Nat), (i + n) * 32 ≤ txs.length + 32 → wantLoop txs n i ≠ .panic := by
  intro n
  induction n with
  | zero => intro i _; simp [wantLoop]
  | succ n ih =>
    intro i h1
    unfold wantLoop
    split
    · next hs => have := sliceFrom_eq_none hs; omega
    · have h2 : (i + 1 + n) * 32 ≤ txs.length + 32 := by omega
      have := ih (i + 1) h2
      split <;> simp_all


/-! ### totality of each `case` -/

theorem parsePreCommitments_total (O : Oracle) (msg : Msg) (data : Bytes) :
    parsePreCommitments O msg data ≠ .panic := by
  unfold parsePreCommitments
  split
  · simp
  · split
    · next hs => have := slice_eq_none hs; omega
    · split
      · next hs => have := slice_eq_none hs; omega
      · next cb _ =>
        try dsimp only
        split
        · simp
        · split
          · next hs => have := sliceFrom_eq_none hs; omega
          · next rest hs =>
            obtain ⟨_, rfl⟩ := sliceFrom_eq_some hs
            split
            · simp
            · next hc hl =>
              simp only [List.length_drop, ne_eq, Decidable.not_not] at hl
              have := preCommitLoop_total O data (beNat cb) 0 (by omega) (by omega)
              split
              · simp
              · simp_all
              · split
                · next hs => have := sliceFrom_eq_none hs; omega
                · simp

theorem parseGraph_total (msg : Msg) (data : Bytes) : parseGraph msg data ≠ .panic := by
  unfold parseGraph
  split
  · simp
  · split
    · next hs => have := sliceFrom_eq_none hs; omega
    · split
      · next hs => have := sliceFrom_eq_none hs; omega
      · next u hs =>
        have := unmarshalSyncPoints_total u
        split <;> simp_all

theorem parseAuthentication_total (msg : Msg) (data : Bytes) : parseAuthentication msg data ≠ .panic := by
  unfold parseAuthentication authenticationMessageSize
  split
  · simp
  · split
    · next hs => have := sliceFrom_eq_none hs; omega
    · simp

theorem parseSnapshotConfirm_total (msg : Msg) (data : Bytes) : parseSnapshotConfirm msg data ≠ .panic := by
  unfold parseSnapshotConfirm
  split
  · simp
  · split
    · next hs => have := sliceFrom_eq_none hs; omega
    · simp

theorem parseTransactionRequest_total (msg : Msg) (data : Bytes) : parseTransactionRequest msg data ≠ .panic := by
  unfold parseTransactionRequest
  split
  · simp
  · split
    · next hs => have := sliceFrom_eq_none hs; omega
    · simp

theorem parseTransaction_total (O : Oracle) (msg : Msg) (data : Bytes) (h : 1 ≤ data.length) :
    parseTransaction O msg data ≠ .panic := by
  unfold parseTransaction
  split
  · next hs => have := sliceFrom_eq_none hs; omega
  · split <;> simp

theorem parseBundle_total (O : Oracle) (msg : Msg) (data : Bytes) (h : 1 ≤ data.length) :
    parseBundle O msg data ≠ .panic := by
  unfold parseBundle
  split
  · next hs => have := sliceFrom_eq_none hs; omega
  · next d _ =>
    have := parseTransactionsPayload_total O d
    split <;> simp_all

theorem parseAnnouncement_total (O : Oracle) (msg : Msg) (data : Bytes) (h : 1 ≤ data.length) :
    parseAnnouncement O msg data ≠ .panic := by
  unfold parseAnnouncement
  split
  · next hs => have := sliceFrom_eq_none hs; omega
  · next d1 hs =>
    obtain ⟨_, rfl⟩ := sliceFrom_eq_some hs
    simp only [List.length_drop]
    split
    · simp
    · split
      · next hs => have := slice_eq_none hs; omega
      · split
        · next hs => have := sliceFrom_eq_none hs; omega
        · try dsimp only
          split
          · simp
          · split
            · next hs => have := sliceFrom_eq_none hs; omega
            · split <;> simp

theorem parseCommitment_total (O : Oracle) (msg : Msg) (data : Bytes) (h : 1 ≤ data.length) :
    parseCommitment O msg data ≠ .panic := by
  unfold parseCommitment
  split
  · next hs => have := sliceFrom_eq_none hs; omega
  · next d1 hs =>
    obtain ⟨_, rfl⟩ := sliceFrom_eq_some hs
    simp only [List.length_drop]
    split
    · simp
    · split
      · next hs => have := slice_eq_none hs; omega
      · split
        · next hs => have := sliceFrom_eq_none hs; omega
        · split
          · next hs => have := sliceFrom_eq_none hs; omega
          · try dsimp only
            split
            · simp
            · split
              · next hs => have := sliceFrom_eq_none hs; omega
              · next txs hs =>
                split
                · split
                  · simp
                  · next hm =>
                    have := wantLoop_total txs (txs.length / 32) 0 (by omega)
                    split <;> simp_all
                · simp

theorem parseFullChallenge_total (O : Oracle) (msg : Msg) (data : Bytes) (h : 1 ≤ data.length) :
    parseFullChallenge O msg data ≠ .panic := by
  unfold parseFullChallenge
  split
  · next hs => have := sliceFrom_eq_none hs; omega
  · next d1 hs =>
    obtain ⟨_, rfl⟩ := sliceFrom_eq_some hs
    simp only [List.length_drop]
    split
    · simp
    · split
      · next hs => have := slice_eq_none hs; omega
      · try dsimp only
        split
        · next hs => have := sliceFrom_eq_none hs; omega
        · next r5 hs =>
          obtain ⟨_, rfl⟩ := sliceFrom_eq_some hs
          simp only [List.length_drop]
          split
          · simp
          · split
            · next hs => have := slice_eq_none hs; omega
            · split
              · simp
              · split
                · simp
                · split
                  · next hs => have := sliceFrom_eq_none hs; omega
                  · next r hs =>
                    obtain ⟨_, rfl⟩ := sliceFrom_eq_some hs
                    simp only [List.length_drop]
                    split
                    · simp
                    · split
                      · next hs => have := slice_eq_none hs; omega
                      · try dsimp only
                        split
                        · simp
                        · split
                          · next hs => have := slice_eq_none hs; omega
                          · try dsimp only
                            split
                            · simp
                            · split
                              · next hs => have := sliceFrom_eq_none hs; omega
                              · next pl _ =>
                                have := parseTransactionsPayload_total O pl
                                split <;> simp_all

theorem parseTransactionChallenge_total (O : Oracle) (msg : Msg) (data : Bytes) (h : 1 ≤ data.length) :
    parseTransactionChallenge O msg data ≠ .panic := by
  unfold parseTransactionChallenge
  split
  · next hs => have := sliceFrom_eq_none hs; omega
  · next d1 hs =>
    obtain ⟨_, rfl⟩ := sliceFrom_eq_some hs
    simp only [List.length_drop]
    split
    · simp
    · split
      · next hs => have := sliceFrom_eq_none hs; omega
      · split
        · next hs => have := slice_eq_none hs; omega
        · split
          · next hs => have := sliceFrom_eq_none hs; omega
          · next pl _ =>
            have := parseTransactionsPayload_total O pl
            split <;> simp_all

theorem parseResponse_total (msg : Msg) (data : Bytes) (h : 1 ≤ data.length) :
    parseResponse msg data ≠ .panic := by
  unfold parseResponse
  split
  · next hs => have := sliceFrom_eq_none hs; omega
  · next d1 hs =>
    obtain ⟨_, rfl⟩ := sliceFrom_eq_some hs
    simp only [List.length_drop]
    split
    · simp
    · split
      · next hs => have := sliceFrom_eq_none hs; omega
      · simp

theorem parseFinalization_total (O : Oracle) (msg : Msg) (data : Bytes) (h : 1 ≤ data.length) :
    parseFinalization O msg data ≠ .panic := by
  unfold parseFinalization
  split
  · next hs => have := sliceFrom_eq_none hs; omega
  · split <;> simp

theorem parseConsumers_total (msg : Msg) (data : Bytes) (h : 1 ≤ data.length) :
    parseConsumers msg data ≠ .panic := by
  unfold parseConsumers
  split
  · next hs => have := sliceFrom_eq_none hs; omega
  · simp


/-! ### slices of concrete concatenations (used by the build → parse theorems) -/

theorem sliceFrom_zero (l : Bytes) : sliceFrom l 0 = some l := by simp [sliceFrom]

theorem sliceFrom_cons (x : UInt8) (l : Bytes) (n : Nat) :
    sliceFrom (x :: l) (n + 1) = sliceFrom l n := by
  simp [sliceFrom]

theorem sliceFrom_append {a : Bytes} (b : Bytes) {m : Nat} (h : a.length ≤ m) :
    sliceFrom (a ++ b) m = sliceFrom b (m - a.length) := by
  unfold sliceFrom
  have e : List.drop m (a ++ b) = List.drop (m - a.length) b := by
    rw [List.drop_append]
    simp [List.drop_eq_nil_of_le h]
  have hl : (a ++ b).length = a.length + b.length := List.length_append
  by_cases hc : m ≤ (a ++ b).length
  · have hc' : m - a.length ≤ b.length := by omega
    rw [if_pos hc, if_pos hc', e]
  · have hc' : ¬ m - a.length ≤ b.length := by omega
    rw [if_neg hc, if_neg hc']

theorem slice_cons (x : UInt8) (l : Bytes) (lo hi : Nat) :
    slice (x :: l) (lo + 1) (hi + 1) = slice l lo hi := by
  simp [slice]

theorem slice_append {a : Bytes} (b : Bytes) {lo hi : Nat} (h : a.length ≤ lo) (h2 : lo ≤ hi) :
    slice (a ++ b) lo hi = slice b (lo - a.length) (hi - a.length) := by
  unfold slice
  have e : List.drop lo (a ++ b) = List.drop (lo - a.length) b := by
    rw [List.drop_append]
    simp [List.drop_eq_nil_of_le h]
  have e2 : hi - a.length - (lo - a.length) = hi - lo := by omega
  have hl : (a ++ b).length = a.length + b.length := List.length_append
  by_cases hc : lo ≤ hi ∧ hi ≤ (a ++ b).length
  · have hc' : lo - a.length ≤ hi - a.length ∧ hi - a.length ≤ b.length := by omega
    rw [if_pos hc, if_pos hc', e, e2]
  · have hc' : ¬ (lo - a.length ≤ hi - a.length ∧ hi - a.length ≤ b.length) := by omega
    rw [if_neg hc, if_neg hc']

theorem slice_prefix {a : Bytes} (b : Bytes) {hi : Nat} (h : a.length = hi) :
    slice (a ++ b) 0 hi = some a := by
  subst h
  simp [slice]

theorem slice_prefix' {a : Bytes} {hi : Nat} (h : a.length = hi) :
    slice a 0 hi = some a := by
  subst h
  simp [slice]

theorem copyN_append {a : Bytes} (b : Bytes) {n : Nat} (h : a.length = n) : copyN n (a ++ b) = a := by
  subst h
  simp [copyN, zeros]

theorem copyN_exact {a : Bytes} {n : Nat} (h : a.length = n) : copyN n a = a := by
  subst h
  simp [copyN, zeros]

theorem length_beBytes (n v : Nat) : (beBytes n v).length = n := by
  induction n generalizing v with
  | zero => simp [beBytes]
  | succ n ih => simp [beBytes, ih]

theorem beNat_append_single (l : Bytes) (x : UInt8) : beNat (l ++ [x]) = beNat l * 256 + x.toNat := by
  simp [beNat, List.foldl_append]

theorem beNat_beBytes (n v : Nat) : beNat (beBytes n v) = v % 256 ^ n := by
  induction n generalizing v with
  | zero => simp [beBytes, beNat, Nat.mod_one]
  | succ n ih =>
    simp only [beBytes, beNat_append_single, ih]
    have h1 : (UInt8.ofNat (v % 256)).toNat = v % 256 := by
      simp [UInt8.toNat_ofNat']
    rw [h1, Nat.pow_succ, Nat.mul_comm (256 ^ n) 256, Nat.mod_mul]
    omega


/-! ### the loops on what the builders produce -/

theorem flatten_length32 (ws : List Bytes) (h : ∀ w ∈ ws, w.length = 32) :
    ws.flatten.length = ws.length * 32 := by
  induction ws with
  | nil => simp
  | cons w t ih =>
    have hw : w.length = 32 := h w (by simp)
    have ht : ∀ x ∈ t, x.length = 32 := fun x hx => h x (by simp [hx])
    simp [ih ht, hw]
    omega

theorem flatten_split (pre : List Bytes) (w : Bytes) (ws : List Bytes) :
    (pre ++ w :: ws).flatten = pre.flatten ++ (w ++ ws.flatten) := by
  simp

theorem wantLoop_flatten (ws : List Bytes) :
    ∀ (pre : List Bytes), (∀ w ∈ pre ++ ws, w.length = 32) →
      wantLoop ((pre ++ ws).flatten) ws.length pre.length = .ok ws := by
  induction ws with
  | nil => intro pre _; simp [wantLoop]
  | cons w t ih =>
    intro pre h
    have hpre : pre.flatten.length = pre.length * 32 :=
      flatten_length32 pre (fun x hx => h x (by simp [hx]))
    have hw : w.length = 32 := h w (by simp)
    have hrec := ih (pre ++ [w]) (by simpa using h)
    have e1 : pre ++ [w] ++ t = pre ++ w :: t := by simp
    have e2 : (pre ++ [w]).length = pre.length + 1 := by simp
    rw [e1, e2] at hrec
    simp only [List.length_cons]
    unfold wantLoop
    rw [hrec, flatten_split, sliceFrom_append _ (by omega), hpre, Nat.sub_self, sliceFrom_zero]
    simp [copyN_append _ hw]

theorem u16_offset {i : Nat} (h : i < 1024) : u16 (67 + u16 (32 * i)) = 67 + 32 * i := by
  unfold u16; omega

theorem preCommitLoop_flatten (O : Oracle) (data : Bytes) (ws : List Bytes) :
    ∀ (pre : List Bytes),
      (∀ j, sliceFrom data (67 + j) = sliceFrom ((pre ++ ws).flatten) j) →
      (∀ w ∈ pre ++ ws, w.length = 32) → (∀ w ∈ ws, O.checkKey w = true) →
      pre.length + ws.length ≤ 1024 →
      preCommitLoop O data ws.length pre.length = .ok ws := by
  induction ws with
  | nil => intro pre _ _ _ _; simp [preCommitLoop]
  | cons w t ih =>
    intro pre hd h hk hn
    have hpre : pre.flatten.length = pre.length * 32 :=
      flatten_length32 pre (fun x hx => h x (by simp [hx]))
    have hw : w.length = 32 := h w (by simp)
    have e1 : pre ++ [w] ++ t = pre ++ w :: t := by simp
    have e2 : (pre ++ [w]).length = pre.length + 1 := by simp
    have hrec := ih (pre ++ [w]) (by rw [e1]; exact hd) (by rw [e1]; exact h)
      (fun x hx => hk x (by simp [hx])) (by simp at hn ⊢; omega)
    rw [e2] at hrec
    simp only [List.length_cons] at hn ⊢
    unfold preCommitLoop
    rw [hrec, u16_offset (by omega), hd, flatten_split, sliceFrom_append _ (by omega), hpre,
      Nat.mul_comm 32, Nat.sub_self, sliceFrom_zero]
    simp [copyN_append _ hw, hk w (by simp)]

theorem parseTxLoop_flatten (O : Oracle) (txs : List Bytes) (hk : ∀ t ∈ txs, O.tx t = true)
    (hl : ∀ t ∈ txs, t.length < 2 ^ 32) :
    parseTxLoop O txs.length ((txs.map (fun pl => beBytes 4 pl.length ++ pl)).flatten) = .ok txs := by
  induction txs with
  | nil => simp [parseTxLoop]
  | cons t r ih =>
    have hrec := ih (fun x hx => hk x (by simp [hx])) (fun x hx => hl x (by simp [hx]))
    have ht : t.length < 2 ^ 32 := hl t (by simp)
    have hb : (beBytes 4 t.length).length = 4 := length_beBytes _ _
    have hsz : beNat (beBytes 4 t.length) = t.length := by
      rw [beNat_beBytes]; exact Nat.mod_eq_of_lt (by simpa using ht)
    simp only [List.map_cons, List.flatten_cons, List.length_cons, List.append_assoc]
    unfold parseTxLoop
    have hlen : ¬ (beBytes 4 t.length ++ (t ++ (r.map (fun pl => beBytes 4 pl.length ++ pl)).flatten)).length < 4 := by
      simp [hb]
    rw [if_neg hlen, slice_prefix _ hb]
    simp only [hsz]
    rw [sliceFrom_append _ (by omega), hb, Nat.sub_self, sliceFrom_zero]
    have hlen2 : ¬ (t ++ (r.map (fun pl => beBytes 4 pl.length ++ pl)).flatten).length < t.length := by
      simp
    simp only [hlen2, if_false]
    rw [slice_append _ (by omega) (by omega), hb, Nat.sub_self, Nat.add_sub_cancel_left, slice_prefix _ rfl]
    simp only [hk t (by simp), Bool.not_true, Bool.false_eq_true, if_false]
    rw [sliceFrom_append _ (by omega), hb, Nat.add_sub_cancel_left, sliceFrom_append _ (by omega), Nat.sub_self,
      sliceFrom_zero]
    simp only [hrec]

theorem readN_append {a : Bytes} (b : Bytes) {n : Nat} (h : a.length = n) : readN n (a ++ b) = some (a, b) := by
  subst h
  simp [readN]

theorem readPoints_flatten (ps : List SyncPoint) (extra : Bytes)
    (h : ∀ p ∈ ps, p.nodeId.length = 32 ∧ p.hash.length = 32 ∧ p.number < 2 ^ 64) :
    readPoints ps.length ((ps.map encodePoint).flatten ++ extra) = some ps := by
  induction ps with
  | nil => simp [readPoints]
  | cons p r ih =>
    have hrec := ih (fun x hx => h x (by simp [hx]))
    obtain ⟨h1, h2, h3⟩ := h p (by simp)
    have hb : (beBytes 8 p.number).length = 8 := length_beBytes _ _
    have hn : beNat (beBytes 8 p.number) = p.number := by
      rw [beNat_beBytes]; exact Nat.mod_eq_of_lt (by simpa using h3)
    simp only [List.map_cons, List.flatten_cons, List.length_cons, encodePoint, List.append_assoc]
    unfold readPoints
    rw [readN_append _ h1]
    simp only
    rw [readN_append _ hb]
    simp only
    rw [readN_append _ h2]
    simp only [hrec, hn]


/-! ### every `case` keeps the type byte and the version it was given -/

theorem parsePreCommitments_type {O : Oracle} {msg m : Msg} {data : Bytes} (h : parsePreCommitments O msg data = .ok m) :
    m.type = msg.type ∧ m.version = msg.version := by
  unfold parsePreCommitments at h
  repeat' (first | split at h | dsimp only at h)
  all_goals (try (simp at h))
  all_goals (try (subst h; simp_all))

theorem parseGraph_type {O : Oracle} {msg m : Msg} {data : Bytes} (h : parseGraph msg data = .ok m) :
    m.type = msg.type ∧ m.version = msg.version := by
  unfold parseGraph at h
  repeat' (first | split at h | dsimp only at h)
  all_goals (try (simp at h))
  all_goals (try (subst h; simp_all))

theorem parsePing_type {O : Oracle} {msg m : Msg} {data : Bytes} (h : parsePing msg data = .ok m) :
    m.type = msg.type ∧ m.version = msg.version := by
  unfold parsePing at h
  repeat' (first | split at h | dsimp only at h)
  all_goals (try (simp at h))
  all_goals (try (subst h; simp_all))

theorem parseAuthentication_type {O : Oracle} {msg m : Msg} {data : Bytes} (h : parseAuthentication msg data = .ok m) :
    m.type = msg.type ∧ m.version = msg.version := by
  unfold parseAuthentication at h
  repeat' (first | split at h | dsimp only at h)
  all_goals (try (simp at h))
  all_goals (try (subst h; simp_all))

theorem parseSnapshotConfirm_type {O : Oracle} {msg m : Msg} {data : Bytes} (h : parseSnapshotConfirm msg data = .ok m) :
    m.type = msg.type ∧ m.version = msg.version := by
  unfold parseSnapshotConfirm at h
  repeat' (first | split at h | dsimp only at h)
  all_goals (try (simp at h))
  all_goals (try (subst h; simp_all))

theorem parseTransaction_type {O : Oracle} {msg m : Msg} {data : Bytes} (h : parseTransaction O msg data = .ok m) :
    m.type = msg.type ∧ m.version = msg.version := by
  unfold parseTransaction at h
  repeat' (first | split at h | dsimp only at h)
  all_goals (try (simp at h))
  all_goals (try (subst h; simp_all))

theorem parseBundle_type {O : Oracle} {msg m : Msg} {data : Bytes} (h : parseBundle O msg data = .ok m) :
    m.type = msg.type ∧ m.version = msg.version := by
  unfold parseBundle at h
  repeat' (first | split at h | dsimp only at h)
  all_goals (try (simp at h))
  all_goals (try (subst h; simp_all))

theorem parseTransactionRequest_type {O : Oracle} {msg m : Msg} {data : Bytes} (h : parseTransactionRequest msg data = .ok m) :
    m.type = msg.type ∧ m.version = msg.version := by
  unfold parseTransactionRequest at h
  repeat' (first | split at h | dsimp only at h)
  all_goals (try (simp at h))
  all_goals (try (subst h; simp_all))

theorem parseAnnouncement_type {O : Oracle} {msg m : Msg} {data : Bytes} (h : parseAnnouncement O msg data = .ok m) :
    m.type = msg.type ∧ m.version = msg.version := by
  unfold parseAnnouncement at h
  repeat' (first | split at h | dsimp only at h)
  all_goals (try (simp at h))
  all_goals (try (subst h; simp_all))

theorem parseCommitment_type {O : Oracle} {msg m : Msg} {data : Bytes} (h : parseCommitment O msg data = .ok m) :
    m.type = msg.type ∧ m.version = msg.version := by
  unfold parseCommitment at h
  repeat' (first | split at h | dsimp only at h)
  all_goals (try (simp at h))
  all_goals (try (subst h; simp_all))

theorem parseFullChallenge_type {O : Oracle} {msg m : Msg} {data : Bytes} (h : parseFullChallenge O msg data = .ok m) :
    m.type = msg.type ∧ m.version = msg.version := by
  unfold parseFullChallenge at h
  repeat' (first | split at h | dsimp only at h)
  all_goals (try (simp at h))
  all_goals (try (subst h; simp_all))

theorem parseTransactionChallenge_type {O : Oracle} {msg m : Msg} {data : Bytes} (h : parseTransactionChallenge O msg data = .ok m) :
    m.type = msg.type ∧ m.version = msg.version := by
  unfold parseTransactionChallenge at h
  repeat' (first | split at h | dsimp only at h)
  all_goals (try (simp at h))
  all_goals (try (subst h; simp_all))

theorem parseResponse_type {O : Oracle} {msg m : Msg} {data : Bytes} (h : parseResponse msg data = .ok m) :
    m.type = msg.type ∧ m.version = msg.version := by
  unfold parseResponse at h
  repeat' (first | split at h | dsimp only at h)
  all_goals (try (simp at h))
  all_goals (try (subst h; simp_all))

theorem parseFinalization_type {O : Oracle} {msg m : Msg} {data : Bytes} (h : parseFinalization O msg data = .ok m) :
    m.type = msg.type ∧ m.version = msg.version := by
  unfold parseFinalization at h
  repeat' (first | split at h | dsimp only at h)
  all_goals (try (simp at h))
  all_goals (try (subst h; simp_all))

theorem parseRelay_type {O : Oracle} {msg m : Msg} {data : Bytes} (h : parseRelay msg data = .ok m) :
    m.type = msg.type ∧ m.version = msg.version := by
  unfold parseRelay at h
  repeat' (first | split at h | dsimp only at h)
  all_goals (try (simp at h))
  all_goals (try (subst h; simp_all))

theorem parseConsumers_type {O : Oracle} {msg m : Msg} {data : Bytes} (h : parseConsumers msg data = .ok m) :
    m.type = msg.type ∧ m.version = msg.version := by
  unfold parseConsumers at h
  repeat' (first | split at h | dsimp only at h)
  all_goals (try (simp at h))
  all_goals (try (subst h; simp_all))

/-! ### points that must be valid curve points -/

theorem parseAnnouncement_ok {O : Oracle} {msg m : Msg} {data : Bytes} (h : parseAnnouncement O msg data = .ok m) :
    O.checkKey m.commitment = true := by
  unfold parseAnnouncement at h
  repeat' (first | split at h | dsimp only at h)
  all_goals (try (simp at h))
  all_goals (subst h; simp_all)

theorem parseCommitment_ok {O : Oracle} {msg m : Msg} {data : Bytes} (h : parseCommitment O msg data = .ok m) :
    O.checkKey m.commitment = true := by
  unfold parseCommitment at h
  repeat' (first | split at h | dsimp only at h)
  all_goals (try (simp at h))
  all_goals (subst h; simp_all)

theorem parseFullChallenge_ok {O : Oracle} {msg m : Msg} {data : Bytes} (h : parseFullChallenge O msg data = .ok m) :
    O.checkKey m.commitment = true ∧ O.checkKey m.challenge = true := by
  unfold parseFullChallenge at h
  repeat' (first | split at h | dsimp only at h)
  all_goals (try (simp at h))
  all_goals (subst h; simp_all)

theorem preCommitLoop_ok (O : Oracle) (data : Bytes) :
    ∀ (n i : Nat) (keys : List Bytes), preCommitLoop O data n i = .ok keys →
      keys.length = n ∧ ∀ k ∈ keys, O.checkKey k = true := by
  intro n
  induction n with
  | zero => intro i keys h; simp [preCommitLoop] at h; subst h; simp
  | succ n ih =>
    intro i keys h
    unfold preCommitLoop at h
    repeat' (first | split at h | dsimp only at h)
    all_goals (try (simp at h))
    next =>
      obtain ⟨h1, h2⟩ := ih _ _ (by assumption)
      subst h
      simp_all

theorem parsePreCommitments_ok {O : Oracle} {msg m : Msg} {data : Bytes}
    (h : parsePreCommitments O msg data = .ok m) : ∀ k ∈ m.commitments, O.checkKey k = true := by
  unfold parsePreCommitments at h
  repeat' (first | split at h | dsimp only at h)
  all_goals (try (simp at h))
  next =>
    subst h
    exact (preCommitLoop_ok O data _ _ _ (by assumption)).2

end Mixin.PeerMsg
