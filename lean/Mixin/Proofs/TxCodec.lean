import Mixin.Model.TxCodec
/-! Helper lemmas for C06: per-field read-after-write, list induction, masks. -/
namespace Mixin.TxCodec
open Mixin Mixin.Bytes

/-! ## generic list reader -/

theorem readMany_flatMap {α : Type} {f : Bytes → Option (α × Bytes)} {w : α → Bytes}
    (Q : Bytes → Prop) (hQ : ∀ x r, Q r → Q (w x ++ r))
    (xs : List α) (rest : Bytes) (hr : Q rest)
    (h : ∀ x ∈ xs, ∀ r, Q r → f (w x ++ r) = some (x, r)) :
    readMany f xs.length (xs.flatMap w ++ rest) = some (xs, rest) := by
  induction xs with
  | nil => simp [readMany]
  | cons a t ih =>
    have ht : ∀ x ∈ t, ∀ r, Q r → f (w x ++ r) = some (x, r) :=
      fun x hx => h x (List.mem_cons_of_mem _ hx)
    have hq : Q (t.flatMap w ++ rest) := by
      clear ih h ht
      induction t with
      | nil => simpa using hr
      | cons b u ihu => simp only [List.flatMap_cons, List.append_assoc]; exact hQ _ _ ihu
    simp only [List.length_cons, readMany, List.flatMap_cons, List.append_assoc]
    rw [h a (List.mem_cons_self) _ hq]
    simp only
    rw [ih ht]

theorem readMagic_magic (rest : Bytes) : readMagic (magic ++ rest) = some (true, rest) := by
  unfold readMagic
  rw [readN_append_pos (n := 2) (a := magic) rfl (by decide)]
  simp

theorem readMagic_null (rest : Bytes) : readMagic (null ++ rest) = some (false, rest) := by
  unfold readMagic
  rw [readN_append_pos (n := 2) (a := null) rfl (by decide)]
  simp [null, magic]

/-- turn a Bool guard into arithmetic facts (first remove `decide`, then unfold the constants) -/
macro "unbool" " at " h:ident : tactic =>
  `(tactic| (simp only [Bool.and_eq_true, decide_eq_true_eq, beq_iff_eq, List.all_eq_true,
               Option.all_some, Option.all_none] at $h:ident;
             try simp only [maxEncodingInt, inputIndexLimit, sliceCountLimit, extraCapacity] at $h:ident))

theorem readOptDeposit_enc {d : Option Deposit} {rest : Bytes} (hne : rest ≠ [])
    (hrep : d.all repDeposit = true) (hg : d.all guardsDeposit = true) :
    readOptDeposit (encOptDeposit d ++ rest) = some (d, rest) := by
  cases d with
  | none => simp [readOptDeposit, encOptDeposit, readMagic_null]
  | some d =>
    simp only [Option.all_some, repDeposit, guardsDeposit] at hrep hg
    unbool at hrep
    unbool at hg
    obtain ⟨hc, hi⟩ := hrep
    obtain ⟨⟨hak, hth⟩, hamt⟩ := hg
    simp only [readOptDeposit, encOptDeposit, encDeposit, List.append_assoc, readMagic_magic,
      readDeposit, Option.bind_eq_bind, Option.bind_some, if_true]
    rw [readN_append_pos hc (by decide)]
    simp only [Option.bind_some]
    rw [readBytes_write (by omega)]
    simp only [Option.bind_some]
    rw [readBytes_write (by omega)]
    simp only [Option.bind_some]
    rw [readU64_write hi]
    simp only [Option.bind_some]
    rw [readInteger_write (by omega) hne]
    simp

theorem readOptMint_enc {m : Option Mint} {rest : Bytes} (hne : rest ≠ [])
    (hrep : m.all repMint = true) (hg : m.all guardsMint = true) :
    readOptMint (encOptMint m ++ rest) = some (m, rest) := by
  cases m with
  | none => simp [readOptMint, encOptMint, readMagic_null]
  | some m =>
    simp only [Option.all_some, repMint, guardsMint] at hrep hg
    unbool at hrep
    unbool at hg
    obtain ⟨hg1, hg2⟩ := hg
    simp only [readOptMint, encOptMint, encMint, List.append_assoc, readMagic_magic,
      readMint, Option.bind_eq_bind, Option.bind_some, if_true]
    rw [readBytes_write (by omega)]
    simp only [Option.bind_some]
    rw [readU64_write hrep]
    simp only [Option.bind_some]
    rw [readInteger_write (by omega) hne]
    simp

theorem encOptMint_ne_nil (m : Option Mint) (rest : Bytes) : encOptMint m ++ rest ≠ [] := by
  cases m <;> simp [encOptMint, encMint, null, magic]

theorem readInput_enc {i : Input} {rest : Bytes} (hne : rest ≠ [])
    (hrep : repInput i = true) (hg : guardsInput i = true) :
    readInput (encInput i ++ rest) = some (i, rest) := by
  simp only [repInput, guardsInput, Bool.and_eq_true] at hrep hg
  obtain ⟨⟨hh, hrd⟩, hrm⟩ := hrep
  obtain ⟨⟨⟨hi, hgen⟩, hgd⟩, hgm⟩ := hg
  unbool at hh
  unbool at hi
  unbool at hgen
  simp only [readInput, encInput, List.append_assoc, Option.bind_eq_bind]
  rw [readN_append_pos hh (by decide)]
  simp only [Option.bind_some]
  rw [readU16_write (by omega)]
  simp only [Option.bind_some]
  rw [if_neg (by simp only [inputIndexLimit]; omega)]
  rw [readBytes_write (by omega)]
  simp only [Option.bind_some]
  rw [readOptDeposit_enc (encOptMint_ne_nil _ _) hrd hgd]
  simp only [Option.bind_some]
  rw [readOptMint_enc hne hrm hgm]
  simp

theorem readOptWithdrawal_enc {w : Option Withdrawal} (rest : Bytes)
    (hg : w.all guardsWithdrawal = true) :
    readOptWithdrawal (encOptWithdrawal w ++ rest) = some (w, rest) := by
  cases w with
  | none => simp [readOptWithdrawal, encOptWithdrawal, readMagic_null]
  | some w =>
    simp only [Option.all_some, guardsWithdrawal] at hg
    unbool at hg
    obtain ⟨hg1, hg2⟩ := hg
    simp only [readOptWithdrawal, encOptWithdrawal, List.append_assoc, readMagic_magic,
      Option.bind_eq_bind, Option.bind_some, if_true]
    rw [readBytes_write (by omega)]
    simp only [Option.bind_some]
    rw [readBytes_write (by omega)]
    simp

theorem readOutputType_enc (t : UInt8) (rest : Bytes) :
    readOutputType ([0x00, t] ++ rest) = some (t, rest) := by
  unfold readOutputType
  rw [readN_append_pos (n := 2) (a := [0x00, t]) rfl (by decide)]
  simp

theorem readKeys_enc (keys : List Bytes) (rest : Bytes) (h : ∀ k ∈ keys, k.length = 32) :
    readMany (readN 32) keys.length (keys.flatten ++ rest) = some (keys, rest) := by
  have := readMany_flatMap (f := readN 32) (w := id) (fun _ => True) (fun _ _ _ => trivial) keys rest trivial
    (fun k hk r _ => readN_append_pos (h k hk) (by decide))
  rwa [List.flatMap_id] at this

theorem writeU16_ne_nil (v : Nat) (rest : Bytes) : writeU16 v ++ rest ≠ [] := by
  simp [writeU16, be, beAux]

theorem readOutputL_enc {lim : Nat} {o : Output} (rest : Bytes)
    (hrep : repOutput o = true) (hg : guardsOutput o = true) (hk : o.keys.length ≤ lim) :
    readOutputL lim (encOutput o ++ rest) = some (o, rest) := by
  simp only [repOutput, guardsOutput, Bool.and_eq_true] at hrep hg
  obtain ⟨hkeys, hmask⟩ := hrep
  obtain ⟨⟨⟨hamt, hkl⟩, hscr⟩, hw⟩ := hg
  unbool at hkeys
  unbool at hmask
  unbool at hamt
  unbool at hkl
  unbool at hscr
  simp only [readOutputL, encOutput, List.append_assoc, Option.bind_eq_bind]
  rw [readOutputType_enc]
  simp only [Option.bind_some]
  rw [readInteger_write (by omega) (writeU16_ne_nil _ _)]
  simp only [Option.bind_some]
  rw [readU16_write (by omega)]
  simp only [Option.bind_some]
  rw [if_neg (by omega)]
  rw [readKeys_enc _ _ hkeys]
  simp only [Option.bind_some]
  rw [readN_append_pos hmask (by decide)]
  simp only [Option.bind_some]
  rw [readBytes_write (by omega)]
  simp only [Option.bind_some]
  rw [readOptWithdrawal_enc _ hw]
  simp

/-! ## signature maps -/

theorem sortedKeysFrom_iff (prev : Option Nat) (l : SigMap) :
    sortedKeysFrom prev l = true ↔
      (∀ p, prev = some p → ∀ e ∈ l, p < e.1) ∧ l.Pairwise (fun a b => a.1 < b.1) := by
  induction l generalizing prev with
  | nil => simp [sortedKeysFrom]
  | cons e r ih =>
    obtain ⟨k, v⟩ := e
    simp only [sortedKeysFrom, Bool.and_eq_true, ih, List.pairwise_cons, List.mem_cons]
    constructor
    · rintro ⟨hp, hk, hr⟩
      refine ⟨?_, fun e he => hk k rfl e he, hr⟩
      intro p hp' e he
      subst hp'
      simp only [decide_eq_true_eq] at hp
      rcases he with rfl | he
      · exact hp
      · exact Nat.lt_trans hp (hk k rfl e he)
    · rintro ⟨hp, hk, hr⟩
      refine ⟨?_, fun p hp' e he => by cases hp'; exact hk e he, hr⟩
      cases prev with
      | none => rfl
      | some p => simpa using hp p rfl (k, v) (Or.inl rfl)

theorem sigInsert_append (m : SigMap) (k : Nat) (v : Bytes) (h : ∀ e ∈ m, e.1 < k) :
    sigInsert k v m = m ++ [(k, v)] := by
  induction m with
  | nil => rfl
  | cons e r ih =>
    obtain ⟨k', v'⟩ := e
    have hk : k' < k := h (k', v') (List.mem_cons_self)
    simp only [sigInsert, List.cons_append]
    rw [if_neg (by omega), if_neg (by omega), ih (fun e he => h e (List.mem_cons_of_mem _ he))]

theorem readSigEntries_enc (l : SigMap) (acc : SigMap) (rest : Bytes)
    (hacc : ∀ a ∈ acc, ∀ e ∈ l, a.1 < e.1)
    (hs : l.Pairwise (fun a b => a.1 < b.1))
    (hv : ∀ e ∈ l, e.1 < 65536 ∧ e.2.length = 64) :
    readSigEntries l.length acc (l.flatMap encSigEntry ++ rest) = some (acc ++ l, rest) := by
  induction l generalizing acc with
  | nil => simp [readSigEntries]
  | cons e r ih =>
    obtain ⟨k, v⟩ := e
    have ⟨hk, hl⟩ := hv (k, v) (List.mem_cons_self)
    simp only at hk hl
    rw [List.pairwise_cons] at hs
    simp only [List.length_cons, readSigEntries, List.flatMap_cons, encSigEntry, List.append_assoc]
    rw [readU16_write hk]
    simp only
    rw [readN_append_pos hl (by decide)]
    simp only
    rw [sigInsert_append _ _ _ (fun a ha => hacc a ha (k, v) (List.mem_cons_self))]
    rw [ih (acc ++ [(k, v)]) ?_ hs.2 (fun e he => hv e (List.mem_cons_of_mem _ he))]
    · simp
    · intro a ha e he
      rw [List.mem_append] at ha
      rcases ha with ha | ha
      · exact hacc a ha e (List.mem_cons_of_mem _ he)
      · simp only [List.mem_singleton] at ha
        subst ha
        exact hs.1 e he

theorem readSignatures_enc {m : SigMap} (rest : Bytes) (hrep : repSigMap m = true)
    (hl : m.length ≤ 65535) :
    readSignatures (encSigs m ++ rest) = some (m, rest) := by
  simp only [repSigMap, Bool.and_eq_true, sortedKeysFrom_iff] at hrep
  obtain ⟨⟨_, hs⟩, hv⟩ := hrep
  unbool at hv
  simp only [readSignatures, encSigs, List.append_assoc, Option.bind_eq_bind]
  rw [readU16_write (by omega)]
  simp only [Option.bind_some]
  rw [readSigEntries_enc m [] _ (by simp) hs hv]
  simp

/-! ## aggregated signature: signer lists and masks -/

theorem validSignersFrom_iff (prev : Option Nat) (l : List Nat) :
    validSignersFrom prev l = true ↔
      (∀ p, prev = some p → ∀ x ∈ l, p < x) ∧ l.Pairwise (· < ·) ∧ ∀ x ∈ l, x ≤ 65535 := by
  induction l generalizing prev with
  | nil => simp [validSignersFrom]
  | cons s r ih =>
    simp only [validSignersFrom, Bool.and_eq_true, ih, List.pairwise_cons, List.mem_cons]
    constructor
    · rintro ⟨⟨hp, hs⟩, hk, hr, hb⟩
      have hs := of_decide_eq_true hs
      simp only [maxEncodingInt] at hs
      refine ⟨?_, ⟨fun x hx => hk s rfl x hx, hr⟩, ?_⟩
      · intro p hp' x hx
        subst hp'
        simp only [decide_eq_true_eq] at hp
        rcases hx with rfl | hx
        · exact hp
        · exact Nat.lt_trans hp (hk s rfl x hx)
      · intro x hx
        rcases hx with rfl | hx
        · exact hs
        · exact hb x hx
    · rintro ⟨hp, ⟨hk, hr⟩, hb⟩
      refine ⟨⟨?_, ?_⟩, fun p hp' x hx => by cases hp'; exact hk x hx, hr, fun x hx => hb x (Or.inr hx)⟩
      · cases prev with
        | none => rfl
        | some p => simpa using hp p rfl s (Or.inl rfl)
      · have := hb s (Or.inl rfl)
        simp only [maxEncodingInt]
        exact decide_eq_true this

theorem sorted_ext : ∀ (l1 l2 : List Nat), l1.Pairwise (· < ·) → l2.Pairwise (· < ·) →
    (∀ x, x ∈ l1 ↔ x ∈ l2) → l1 = l2 := by
  intro l1
  induction l1 with
  | nil =>
    intro l2 _ _ h
    cases l2 with
    | nil => rfl
    | cons b r => exact absurd ((h b).2 List.mem_cons_self) (by simp)
  | cons a t ih =>
    intro l2 h1 h2 h
    cases l2 with
    | nil => exact absurd ((h a).1 List.mem_cons_self) (by simp)
    | cons b r =>
      rw [List.pairwise_cons] at h1 h2
      have ha : a = b ∨ a ∈ r := by simpa using (h a).1 List.mem_cons_self
      have hb : b = a ∨ b ∈ t := by simpa using (h b).2 List.mem_cons_self
      have hab : a = b := by
        rcases ha with ha | ha
        · exact ha
        · rcases hb with hb | hb
          · exact hb.symm
          · have := h1.1 b hb
            have := h2.1 a ha
            omega
      subst hab
      congr 1
      apply ih r h1.2 h2.2
      intro x
      constructor
      · intro hx
        have : x = a ∨ x ∈ r := by simpa using (h x).1 (List.mem_cons_of_mem _ hx)
        rcases this with rfl | this
        · exact absurd (h1.1 x hx) (Nat.lt_irrefl _)
        · exact this
      · intro hx
        have : x = a ∨ x ∈ t := by simpa using (h x).2 (List.mem_cons_of_mem _ hx)
        rcases this with rfl | this
        · exact absurd (h2.1 x hx) (Nat.lt_irrefl _)
        · exact this

/-- bit number `k` of a mask (bit `k % 8` of byte `k / 8`), `false` beyond the end -/
def bitAt (bytes : Bytes) (k : Nat) : Bool :=
  match bytes[k / 8]? with
  | some c => c.toNat.testBit (k % 8)
  | none => false

theorem mem_byteBits (i : Nat) (c : UInt8) (k : Nat) :
    k ∈ byteBits i c ↔ i * 8 ≤ k ∧ k < i * 8 + 8 ∧ c.toNat.testBit (k - i * 8) = true := by
  simp only [byteBits, List.mem_filterMap, List.mem_range]
  constructor
  · rintro ⟨j, hj, hf⟩
    split at hf
    · rename_i hb
      simp only [Option.some.injEq] at hf
      subst hf
      refine ⟨by omega, by omega, ?_⟩
      have : i * 8 + j - i * 8 = j := by omega
      rw [this]; exact hb
    · cases hf
  · rintro ⟨h1, h2, h3⟩
    refine ⟨k - i * 8, by omega, ?_⟩
    rw [if_pos h3]
    congr 1
    omega

theorem byteBits_sorted (i : Nat) (c : UInt8) : (byteBits i c).Pairwise (· < ·) := by
  unfold byteBits
  apply List.Pairwise.filterMap _ _ List.pairwise_lt_range
  intro a a' haa b hb b' hb'
  split at hb
  · split at hb'
    · simp only [Option.some.injEq] at hb hb'
      omega
    · cases hb'
  · cases hb

theorem mem_maskSignersFrom (i : Nat) (bytes : Bytes) (k : Nat) :
    k ∈ maskSignersFrom i bytes ↔ i * 8 ≤ k ∧ bitAt bytes (k - i * 8) = true := by
  induction bytes generalizing i with
  | nil => simp [maskSignersFrom, bitAt]
  | cons c r ih =>
    simp only [maskSignersFrom, List.mem_append, mem_byteBits, ih]
    unfold bitAt
    constructor
    · rintro (⟨h1, h2, h3⟩ | ⟨h1, h2⟩)
      · refine ⟨h1, ?_⟩
        have h0 : (k - i * 8) / 8 = 0 := by omega
        have h4 : (k - i * 8) % 8 = k - i * 8 := by omega
        rw [h0, h4]
        simpa using h3
      · refine ⟨by omega, ?_⟩
        have h0 : (k - i * 8) / 8 = (k - (i + 1) * 8) / 8 + 1 := by omega
        have h4 : (k - i * 8) % 8 = (k - (i + 1) * 8) % 8 := by omega
        rw [h0, h4, List.getElem?_cons_succ]
        exact h2
    · rintro ⟨h1, h2⟩
      by_cases hlt : k < i * 8 + 8
      · left
        refine ⟨h1, hlt, ?_⟩
        have h0 : (k - i * 8) / 8 = 0 := by omega
        have h4 : (k - i * 8) % 8 = k - i * 8 := by omega
        rw [h0, h4] at h2
        simpa using h2
      · right
        refine ⟨by omega, ?_⟩
        have h0 : (k - i * 8) / 8 = (k - (i + 1) * 8) / 8 + 1 := by omega
        have h4 : (k - i * 8) % 8 = (k - (i + 1) * 8) % 8 := by omega
        rw [h0, h4, List.getElem?_cons_succ] at h2
        exact h2

theorem maskSignersFrom_sorted (i : Nat) (bytes : Bytes) :
    (maskSignersFrom i bytes).Pairwise (· < ·) := by
  induction bytes generalizing i with
  | nil => simp [maskSignersFrom]
  | cons c r ih =>
    simp only [maskSignersFrom]
    rw [List.pairwise_append]
    refine ⟨byteBits_sorted i c, ih (i + 1), ?_⟩
    intro a ha b hb
    rw [mem_byteBits] at ha
    rw [mem_maskSignersFrom] at hb
    omega

theorem shift_toNat (a : Nat) (h : a < 8) : ((1 : UInt8) <<< UInt8.ofNat a).toNat = 2 ^ a := by
  have key : ∀ a : Fin 8, ((1 : UInt8) <<< UInt8.ofNat a.val).toNat = 2 ^ a.val := by decide
  exact key ⟨a, h⟩

theorem testBit_xorBit (c : UInt8) (a b : Nat) (ha : a < 8) :
    (c ^^^ ((1 : UInt8) <<< UInt8.ofNat a)).toNat.testBit b = (c.toNat.testBit b ^^ decide (a = b)) := by
  rw [UInt8.toNat_xor, Nat.testBit_xor, shift_toNat a ha, Nat.testBit_two_pow]

theorem bitAt_xorBit (bytes : Bytes) (m k : Nat) (hm : m / 8 < bytes.length) :
    bitAt (xorBit bytes m) k = (bitAt bytes k ^^ decide (m = k)) := by
  unfold bitAt xorBit
  rw [List.getElem?_modify]
  by_cases h : m / 8 = k / 8
  · have hk : k / 8 < bytes.length := by omega
    rw [List.getElem?_eq_getElem hk]
    simp only [Option.map_eq_map, Option.map_some, if_pos h]
    rw [testBit_xorBit _ _ _ (Nat.mod_lt _ (by decide))]
    congr 1
    have : (m % 8 = k % 8) ↔ (m = k) := by omega
    exact decide_eq_decide.mpr this
  · have hne : m ≠ k := fun e => h (by rw [e])
    cases hb : bytes[k / 8]? with
    | none => simp [hne]
    | some c => simp [h, hne]

theorem length_foldl_xorBit (l : List Nat) (init : Bytes) :
    (l.foldl xorBit init).length = init.length := by
  induction l generalizing init with
  | nil => rfl
  | cons a r ih => rw [List.foldl_cons, ih]; simp [xorBit]

theorem bitAt_foldl_xorBit (l : List Nat) (init : Bytes) (k : Nat)
    (hl : ∀ m ∈ l, m / 8 < init.length) (hnd : l.Pairwise (· < ·)) :
    bitAt (l.foldl xorBit init) k = (bitAt init k ^^ decide (k ∈ l)) := by
  induction l generalizing init with
  | nil => simp
  | cons a r ih =>
    rw [List.pairwise_cons] at hnd
    rw [List.foldl_cons, ih (xorBit init a) (by
      intro m hm
      simp only [xorBit, List.length_modify]
      exact hl m (List.mem_cons_of_mem _ hm)) hnd.2]
    rw [bitAt_xorBit _ _ _ (hl a List.mem_cons_self)]
    by_cases hka : a = k
    · subst hka
      have : a ∉ r := fun h => Nat.lt_irrefl _ (hnd.1 a h)
      simp [this]
    · have : ¬ k = a := fun e => hka e.symm
      simp [hka, this]

theorem bitAt_replicate_zero (n k : Nat) : bitAt (List.replicate n (0 : UInt8)) k = false := by
  unfold bitAt
  rw [List.getElem?_replicate]
  by_cases h : k / 8 < n <;> simp [h]

theorem le_lastOr0 (l : List Nat) (h : l.Pairwise (· < ·)) : ∀ x ∈ l, x ≤ lastOr0 l := by
  induction l with
  | nil => simp
  | cons a r ih =>
    rw [List.pairwise_cons] at h
    cases r with
    | nil => simp [lastOr0]
    | cons b u =>
      intro x hx
      have hb : b ≤ lastOr0 (b :: u) := ih h.2 b List.mem_cons_self
      simp only [lastOr0]
      rcases List.mem_cons.mp hx with rfl | hx
      · have := h.1 b List.mem_cons_self
        omega
      · exact ih h.2 x hx

/-- reading back the ordinary mask the encoder builds gives the signer list -/
theorem maskSigners_maskBytes (s : List Nat) (hs : s.Pairwise (· < ·)) :
    maskSignersFrom 0 (maskBytes s (lastOr0 s / 8 + 1)) = s := by
  apply sorted_ext _ _ (maskSignersFrom_sorted _ _) hs
  intro k
  have hbound : ∀ m ∈ s, m / 8 < (List.replicate (lastOr0 s / 8 + 1) (0 : UInt8)).length := by
    intro m hm
    have := le_lastOr0 s hs m hm
    simp only [List.length_replicate]
    omega
  rw [mem_maskSignersFrom, maskBytes, Nat.zero_mul, Nat.sub_zero,
    bitAt_foldl_xorBit _ _ _ hbound hs, bitAt_replicate_zero]
  simp

theorem readSparse_enc (s : List Nat) (rest : Bytes) (h : ∀ x ∈ s, x ≤ 65535) :
    readMany readU16 s.length (s.flatMap writeU16 ++ rest) = some (s, rest) :=
  readMany_flatMap (f := readU16) (w := writeU16) (fun _ => True) (fun _ _ _ => trivial) s rest trivial
    (fun x hx r _ => readU16_write (by have := h x hx; omega) r)

theorem validSigners_iff (s : List Nat) :
    validSigners s = true ↔ s.length ≤ 65535 ∧ s.Pairwise (· < ·) ∧ ∀ x ∈ s, x ≤ 65535 := by
  simp only [validSigners, Bool.and_eq_true, validSignersFrom_iff]
  constructor
  · rintro ⟨h1, _, h2, h3⟩
    have h1 := of_decide_eq_true h1
    simp only [maxEncodingInt] at h1
    exact ⟨h1, h2, h3⟩
  · rintro ⟨h1, h2, h3⟩
    exact ⟨decide_eq_true (by simp only [maxEncodingInt]; exact h1), by simp, h2, h3⟩

theorem readAgg_enc (a : AggSig) (rest : Bytes) (hsig : a.sig.length = 64)
    (hg : guardsAgg a = true) :
    readAgg (a.sig ++ encMask a.signers ++ rest) = some (a, rest) := by
  obtain ⟨signers, sig⟩ := a
  simp only at hsig
  simp only [guardsAgg, Bool.or_eq_true] at hg
  simp only [readAgg, List.append_assoc, Option.bind_eq_bind]
  rw [readN_append_pos hsig (by decide)]
  simp only [Option.bind_some]
  by_cases hemp : signers = []
  · subst hemp
    simp [encMask, readByte, readBytes, readU16_write, maskSignersFrom, validSigners, validSignersFrom]
  · have hv : validSigners signers = true := by
      rcases hg with hg | hg
      · cases signers with
        | nil => exact absurd rfl hemp
        | cons _ _ => simp at hg
      · exact hg
    have hv' := (validSigners_iff signers).mp hv
    obtain ⟨hlen, hsorted, hbound⟩ := hv'
    have hne : signers.isEmpty = false := by
      cases signers with
      | nil => exact absurd rfl hemp
      | cons _ _ => rfl
    unfold encMask
    rw [hne]
    simp only [Bool.false_eq_true, if_false]
    by_cases hsp : useSparse signers = true
    · rw [if_pos hsp]
      simp only [List.append_assoc, List.cons_append, List.nil_append, readByte, Option.bind_some,
        if_true]
      rw [readU16_write (by omega)]
      simp only [Option.bind_some]
      rw [readSparse_enc _ _ hbound]
      simp [hv]
    · rw [if_neg hsp]
      have hlast : lastOr0 signers ≤ 65535 := by
        cases signers with
        | nil => exact absurd rfl hemp
        | cons x r =>
          have : ∀ l : List Nat, l ≠ [] → lastOr0 l ∈ l := by
            intro l
            induction l with
            | nil => intro h; exact absurd rfl h
            | cons y u ih =>
              intro _
              cases u with
              | nil => simp [lastOr0]
              | cons z w =>
                simp only [lastOr0]
                exact List.mem_cons_of_mem _ (ih (by simp))
          exact hbound _ (this _ (by simp))
      have hmb : writeU16 (lastOr0 signers / 8 + 1) ++ maskBytes signers (lastOr0 signers / 8 + 1)
          = writeBytes (maskBytes signers (lastOr0 signers / 8 + 1)) := by
        simp [writeBytes, maskBytes, length_foldl_xorBit]
      simp only [List.append_assoc, List.cons_append, List.nil_append, readByte, Option.bind_some]
      rw [if_pos trivial]
      rw [← List.append_assoc, hmb, readBytes_write (by
        simp only [maskBytes, length_foldl_xorBit, List.length_replicate]; omega)]
      simp only [Option.bind_some]
      rw [maskSigners_maskBytes _ hsorted]
      simp [hv]

theorem readSigMaps_enc (sigs : List SigMap) (rest : Bytes)
    (hrep : ∀ m ∈ sigs, repSigMap m = true) (hl : ∀ m ∈ sigs, m.length ≤ 65535) :
    readMany readSignatures sigs.length (sigs.flatMap encSigs ++ rest) = some (sigs, rest) :=
  readMany_flatMap (f := readSignatures) (w := encSigs) (fun _ => True) (fun _ _ _ => trivial) sigs rest trivial
    (fun m hm r _ => readSignatures_enc r (hrep m hm) (hl m hm))

theorem readAuth_enc (agg : Option AggSig) (sigs : List SigMap) (rest : Bytes)
    (hrep : repAuth agg sigs = true) (hg : guardsAuth agg sigs = true)
    (hc1 : sigs.length ≤ sliceCountLimit) (hc2 : (agg.isNone || sigs.isEmpty) = true) :
    readAuth (encAuth agg sigs ++ rest) = some ((agg, sigs), rest) := by
  simp only [repAuth, Bool.and_eq_true] at hrep
  obtain ⟨hra, hrs⟩ := hrep
  cases agg with
  | some a =>
    have hs : sigs = [] := by
      cases sigs with
      | nil => rfl
      | cons _ _ => simp at hc2
    subst hs
    simp only [Option.all_some] at hra
    unbool at hra
    simp only [guardsAuth] at hg
    simp only [readAuth, encAuth, encAgg, List.append_assoc, Option.bind_eq_bind]
    rw [readU16_write (by decide)]
    simp only [Option.bind_some, if_true]
    rw [readU16_write (by decide)]
    simp only [Option.bind_some, if_true]
    have := readAgg_enc a rest hra hg
    simp only [List.append_assoc] at this
    rw [this]
    simp
  | none =>
    simp only [guardsAuth, Bool.and_eq_true] at hg
    obtain ⟨hsl, hml⟩ := hg
    unbool at hsl
    unbool at hml
    unbool at hrs
    simp only [sliceCountLimit] at hc1
    simp only [readAuth, encAuth, List.append_assoc, Option.bind_eq_bind]
    rw [readU16_write (by omega)]
    simp only [Option.bind_some]
    rw [if_neg (by simp only [maxEncodingInt]; omega)]
    by_cases h0 : sigs.length > 0
    · rw [if_pos h0]
      have : min sigs.length sliceCountLimit = sigs.length := by
        simp only [sliceCountLimit]; omega
      rw [this, readSigMaps_enc sigs rest hrs hml]
      simp
    · rw [if_neg h0]
      have : sigs = [] := List.eq_nil_of_length_eq_zero (by omega)
      subst this
      simp

/-! ## payload and whole transaction -/

theorem readCounted_enc {α : Type} {f : Bytes → Option (α × Bytes)} (lim : Nat) (xs : List α)
    (body rest : Bytes) (h1 : xs.length ≤ lim) (h2 : xs.length < 65536)
    (h : readMany f xs.length (body ++ rest) = some (xs, rest)) :
    readCounted lim f (writeU16 xs.length ++ (body ++ rest)) = some (xs, rest) := by
  unfold readCounted
  rw [readU16_write h2]
  simp only
  rw [if_neg (by omega), h]

theorem readExtra_enc (extra rest : Bytes) (h : extra.length ≤ 4194304) :
    readExtra (writeU32 extra.length ++ (extra ++ rest)) = some (extra, rest) := by
  unfold readExtra
  rw [readU32_write (by omega)]
  simp only
  rw [if_neg (by simp only [extraCapacity]; omega)]
  by_cases h0 : extra.length > 0
  · rw [if_pos h0]
    exact readN_append_pos rfl h0
  · rw [if_neg h0]
    have : extra = [] := List.eq_nil_of_length_eq_zero (by omega)
    subst this
    rfl

theorem readVersion_enc (rest : Bytes) :
    readVersion (magic ++ ([0x00, txVersion] ++ rest)) = some (txVersion, rest) := by
  unfold readVersion
  rw [← List.append_assoc, readN_append_pos (n := 4) (a := magic ++ [0x00, txVersion]) rfl (by decide)]
  simp

theorem readPayloadL_enc (lim : Nat) (p : Payload) (rest : Bytes)
    (hrep : repPayload p = true) (hg : guardsPayload p = true)
    (hl1 : p.inputs.length ≤ lim) (hl2 : p.outputs.length ≤ lim) (hl3 : p.references.length ≤ lim)
    (hl4 : ∀ o ∈ p.outputs, o.keys.length ≤ lim) :
    readPayloadL lim (encPayload p ++ rest) = some (p, rest) := by
  obtain ⟨version, asset, inputs, outputs, references, extra⟩ := p
  simp only [repPayload, guardsPayload, guardsBody, Bool.and_eq_true] at hrep hg
  simp only at hl1 hl2 hl3 hl4
  obtain ⟨⟨⟨hasset, hrin⟩, hrout⟩, hrref⟩ := hrep
  obtain ⟨hver, ⟨⟨⟨⟨⟨hgil, hgin⟩, hgol⟩, hgout⟩, hgrl⟩, hgel⟩⟩ := hg
  unbool at hasset
  unbool at hrin
  unbool at hrout
  unbool at hrref
  unbool at hver
  unbool at hgil
  unbool at hgin
  unbool at hgol
  unbool at hgout
  unbool at hgrl
  unbool at hgel
  subst hver
  simp only [readPayloadL, encPayload, List.append_assoc, Option.bind_eq_bind]
  rw [readVersion_enc]
  simp only [Option.bind_some]
  rw [readN_append_pos hasset (by decide)]
  simp only [Option.bind_some]
  rw [readCounted_enc lim inputs _ _ hl1 (by omega)
    (readMany_flatMap (f := readInput) (w := encInput) (fun r => r ≠ [])
      (fun x r hr => by simp [hr]) inputs _ (writeU16_ne_nil _ _)
      (fun i hi r hr => readInput_enc hr (hrin i hi) (hgin i hi)))]
  simp only [Option.bind_some]
  rw [readCounted_enc lim outputs _ _ hl2 (by omega)
    (readMany_flatMap (f := readOutputL lim) (w := encOutput) (fun _ => True)
      (fun _ _ _ => trivial) outputs _ trivial
      (fun o ho r _ => readOutputL_enc r (hrout o ho) (hgout o ho) (hl4 o ho)))]
  simp only [Option.bind_some]
  rw [readCounted_enc lim references _ _ hl3 (by omega) (readKeys_enc references _ hrref)]
  simp only [Option.bind_some]
  rw [readExtra_enc _ _ hgel]
  simp

theorem decodeRaw_enc (tx : Tx) (hwf : WF tx) (hc : canon tx = true) :
    decodeRaw (encodeTx tx) = some tx := by
  obtain ⟨hrep, hg⟩ := hwf
  simp only [rep, guards, canon, Bool.and_eq_true] at hrep hg hc
  obtain ⟨⟨⟨hc1, hc2⟩, hc3⟩, hc4⟩ := hc
  unbool at hc1
  unbool at hc2
  unbool at hc3
  have hgp := hg.1
  simp only [guardsPayload, guardsBody, Bool.and_eq_true] at hgp
  obtain ⟨_, ⟨⟨⟨⟨⟨hgil, _⟩, hgol⟩, _⟩, _⟩, _⟩⟩ := hgp
  unbool at hgil
  unbool at hgol
  simp only [decodeRaw, encodeTx, readPayload, Option.bind_eq_bind]
  rw [readPayloadL_enc sliceCountLimit tx.toPayload _ hrep.1 hg.1 (by simpa [sliceCountLimit] using hgil)
    (by simpa [sliceCountLimit] using hgol) (by simpa [sliceCountLimit] using hc1)
    (by simpa [sliceCountLimit] using hc2)]
  simp only [Option.bind_some]
  have := readAuth_enc tx.agg tx.sigs [] hrep.2 hg.2 (by simpa [sliceCountLimit] using hc3) hc4
  rw [List.append_nil] at this
  rw [this]
  simp

theorem decodeTx_enc (tx : Tx) (hwf : WF tx) (hc : Canon tx) :
    decodeTx (encodeTx tx) = some tx := by
  unfold decodeTx
  rw [if_neg (by have := hc.2; omega), decodeRaw_enc tx hwf hc.1]
  simp
