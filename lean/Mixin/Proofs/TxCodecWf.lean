import Mixin.Proofs.TxCodec
/-! Inversion lemmas for C06 `decode_wf`: whatever a reader returns satisfies the
    representation invariants and the encoder's panic guards. -/
namespace Mixin.TxCodec
open Mixin Mixin.Bytes

theorem byteLen_le {v n : Nat} (h : v < 256 ^ n) : byteLen v ≤ n := by
  unfold byteLen bitLen
  by_cases h0 : v = 0
  · simp [h0]
  · rw [if_neg h0]
    have h2 : (256 : Nat) ^ n = 2 ^ (8 * n) := by rw [Nat.pow_mul]
    rw [h2] at h
    have := (Nat.log2_lt h0).mpr h
    omega

theorem readBytes_some {s b r : Bytes} (h : readBytes s = some (b, r)) : b.length ≤ 65535 := by
  unfold readBytes at h
  split at h
  · cases h
  · rename_i l s' hl
    have hl' := (readU16_some hl).2
    split at h
    · simp only [Option.some.injEq, Prod.mk.injEq] at h
      rw [← h.1]; simp
    · have := (readN_some h).2.1
      omega

theorem readInteger_some {s r : Bytes} {v : Nat} (h : readInteger s = some (v, r)) :
    byteLen v ≤ 65535 := by
  unfold readInteger at h
  split at h
  · cases h
  · rename_i l s' hl
    have hl' := (readU16_some hl).2
    split at h
    · cases h
    · rename_i b s'' hb
      simp only [Option.some.injEq, Prod.mk.injEq] at h
      have hlen := (readN_some hb).2.1
      have := beVal_lt b
      rw [hlen] at this
      have := byteLen_le this
      rw [h.1] at this
      omega

theorem readMany_some {α : Type} {f : Bytes → Option (α × Bytes)} {P : α → Prop}
    (hf : ∀ s x r, f s = some (x, r) → P x) :
    ∀ (n : Nat) (s : Bytes) (xs : List α) (r : Bytes), readMany f n s = some (xs, r) →
      xs.length = n ∧ ∀ x ∈ xs, P x := by
  intro n
  induction n with
  | zero =>
    intro s xs r h
    simp only [readMany, Option.some.injEq, Prod.mk.injEq] at h
    rw [← h.1]; simp
  | succ n ih =>
    intro s xs r h
    simp only [readMany] at h
    split at h
    · cases h
    · rename_i x s1 hx
      split at h
      · cases h
      · rename_i ys s2 hys
        simp only [Option.some.injEq, Prod.mk.injEq] at h
        obtain ⟨rfl, _⟩ := h
        have ⟨hl, hp⟩ := ih s1 ys s2 hys
        refine ⟨by simp [hl], ?_⟩
        intro y hy
        rcases List.mem_cons.mp hy with rfl | hy
        · exact hf _ _ _ hx
        · exact hp y hy

theorem readCounted_some {α : Type} {f : Bytes → Option (α × Bytes)} {P : α → Prop} {lim : Nat}
    (hf : ∀ s x r, f s = some (x, r) → P x) {s : Bytes} {xs : List α} {r : Bytes}
    (h : readCounted lim f s = some (xs, r)) : xs.length ≤ lim ∧ ∀ x ∈ xs, P x := by
  unfold readCounted at h
  split at h
  · cases h
  · split at h
    · cases h
    · have := readMany_some hf _ _ _ _ h
      exact ⟨by omega, this.2⟩

theorem readDeposit_wf {s r : Bytes} {d : Deposit} (h : readDeposit s = some (d, r)) :
    repDeposit d = true ∧ guardsDeposit d = true := by
  simp only [readDeposit, Option.bind_eq_bind, Option.bind_eq_some_iff] at h
  obtain ⟨⟨chain, s1⟩, h1, ⟨ak, s2⟩, h2, ⟨th, s3⟩, h3, ⟨oi, s4⟩, h4, ⟨amt, s5⟩, h5, h⟩ := h
  simp only [Option.some.injEq, Prod.mk.injEq] at h
  obtain ⟨rfl, _⟩ := h
  have := (readN_some h1).2.1
  have := readBytes_some h2
  have := readBytes_some h3
  have := (readU64_some h4).2
  have := readInteger_some h5
  simp only [repDeposit, guardsDeposit, Bool.and_eq_true, beq_iff_eq, decide_eq_true_eq]
  simp only [maxEncodingInt]
  omega

theorem readMint_wf {s r : Bytes} {m : Mint} (h : readMint s = some (m, r)) :
    repMint m = true ∧ guardsMint m = true := by
  simp only [readMint, Option.bind_eq_bind, Option.bind_eq_some_iff] at h
  obtain ⟨⟨gb, s1⟩, h1, ⟨bi, s2⟩, h2, ⟨amt, s3⟩, h3, h⟩ := h
  simp only [Option.some.injEq, Prod.mk.injEq] at h
  obtain ⟨rfl, _⟩ := h
  have := readBytes_some h1
  have := (readU64_some h2).2
  have := readInteger_some h3
  simp only [repMint, guardsMint, Bool.and_eq_true, decide_eq_true_eq]
  simp only [maxEncodingInt]
  omega

theorem readOptDeposit_wf {s r : Bytes} {d : Option Deposit} (h : readOptDeposit s = some (d, r)) :
    d.all repDeposit = true ∧ d.all guardsDeposit = true := by
  simp only [readOptDeposit, Option.bind_eq_bind, Option.bind_eq_some_iff] at h
  obtain ⟨⟨hd, s1⟩, _, h⟩ := h
  cases hd with
  | false =>
    simp only [Bool.false_eq_true, if_false, Option.some.injEq, Prod.mk.injEq] at h
    rw [← h.1]; simp
  | true =>
    simp only [if_true, Option.bind_eq_some_iff] at h
    obtain ⟨⟨d', s2⟩, h2, h⟩ := h
    simp only [Option.some.injEq, Prod.mk.injEq] at h
    rw [← h.1]
    simpa using readDeposit_wf h2

theorem readOptMint_wf {s r : Bytes} {m : Option Mint} (h : readOptMint s = some (m, r)) :
    m.all repMint = true ∧ m.all guardsMint = true := by
  simp only [readOptMint, Option.bind_eq_bind, Option.bind_eq_some_iff] at h
  obtain ⟨⟨hd, s1⟩, _, h⟩ := h
  cases hd with
  | false =>
    simp only [Bool.false_eq_true, if_false, Option.some.injEq, Prod.mk.injEq] at h
    rw [← h.1]; simp
  | true =>
    simp only [if_true, Option.bind_eq_some_iff] at h
    obtain ⟨⟨d', s2⟩, h2, h⟩ := h
    simp only [Option.some.injEq, Prod.mk.injEq] at h
    rw [← h.1]
    simpa using readMint_wf h2

theorem readInput_wf (s : Bytes) (i : Input) (r : Bytes) (h : readInput s = some (i, r)) :
    repInput i = true ∧ guardsInput i = true := by
  simp only [readInput, Option.bind_eq_bind, Option.bind_eq_some_iff] at h
  obtain ⟨⟨hash, s1⟩, h1, ⟨ii, s2⟩, h2, h⟩ := h
  split at h
  · cases h
  · rename_i hii
    simp only [Option.bind_eq_some_iff] at h
    obtain ⟨⟨gb, s3⟩, h3, ⟨d, s4⟩, h4, ⟨m, s5⟩, h5, h⟩ := h
    simp only [Option.some.injEq, Prod.mk.injEq] at h
    obtain ⟨rfl, _⟩ := h
    have := (readN_some h1).2.1
    have := readBytes_some h3
    have hd := readOptDeposit_wf h4
    have hm := readOptMint_wf h5
    simp only [repInput, guardsInput, Bool.and_eq_true, beq_iff_eq, decide_eq_true_eq, hd, hm]
    simp only [inputIndexLimit, maxEncodingInt, and_true] at hii ⊢
    omega

theorem readOptWithdrawal_wf {s r : Bytes} {w : Option Withdrawal}
    (h : readOptWithdrawal s = some (w, r)) : w.all guardsWithdrawal = true := by
  simp only [readOptWithdrawal, Option.bind_eq_bind, Option.bind_eq_some_iff] at h
  obtain ⟨⟨hd, s1⟩, _, h⟩ := h
  cases hd with
  | false =>
    simp only [Bool.false_eq_true, if_false, Option.some.injEq, Prod.mk.injEq] at h
    rw [← h.1]; simp
  | true =>
    simp only [if_true, Option.bind_eq_some_iff] at h
    obtain ⟨⟨ab, s2⟩, h2, ⟨tb, s3⟩, h3, h⟩ := h
    simp only [Option.some.injEq, Prod.mk.injEq] at h
    rw [← h.1]
    have := readBytes_some h2
    have := readBytes_some h3
    simp only [Option.all_some, guardsWithdrawal, Bool.and_eq_true, decide_eq_true_eq]
    simp only [maxEncodingInt]
    omega

theorem readOutputL_wf (lim : Nat) (hlim : lim ≤ 65535) (s : Bytes) (o : Output) (r : Bytes)
    (h : readOutputL lim s = some (o, r)) :
    repOutput o = true ∧ guardsOutput o = true ∧ o.keys.length ≤ lim := by
  simp only [readOutputL, Option.bind_eq_bind, Option.bind_eq_some_iff] at h
  obtain ⟨⟨t, s1⟩, _, ⟨amt, s2⟩, h2, ⟨kc, s3⟩, h3, h⟩ := h
  split at h
  · cases h
  · rename_i hkc
    simp only [Option.bind_eq_some_iff] at h
    obtain ⟨⟨keys, s4⟩, h4, ⟨mask, s5⟩, h5, ⟨sb, s6⟩, h6, ⟨w, s7⟩, h7, h⟩ := h
    simp only [Option.some.injEq, Prod.mk.injEq] at h
    obtain ⟨rfl, _⟩ := h
    have := readInteger_some h2
    have hk := readMany_some (P := fun k : Bytes => k.length = 32)
      (fun s x r hx => (readN_some hx).2.1) _ _ _ _ h4
    have hmask := (readN_some h5).2.1
    have := readBytes_some h6
    have hw := readOptWithdrawal_wf h7
    have hkl := hk.1
    refine ⟨?_, ?_, by simp only; omega⟩
    · simp only [repOutput, Bool.and_eq_true, beq_iff_eq, List.all_eq_true]
      exact ⟨hk.2, hmask⟩
    · simp only [guardsOutput, Bool.and_eq_true, decide_eq_true_eq, hw]
      simp only [maxEncodingInt, and_true]
      omega

/-! ### signature maps -/

theorem mem_sigInsert {k : Nat} {v : Bytes} {m : SigMap} {e : Nat × Bytes}
    (h : e ∈ sigInsert k v m) : e = (k, v) ∨ e ∈ m := by
  induction m with
  | nil => simp [sigInsert] at h; exact Or.inl h
  | cons a r ih =>
    obtain ⟨k', v'⟩ := a
    simp only [sigInsert] at h
    split at h
    · rcases List.mem_cons.mp h with h | h
      · exact Or.inl h
      · exact Or.inr h
    · split at h
      · rcases List.mem_cons.mp h with h | h
        · exact Or.inl h
        · exact Or.inr (List.mem_cons_of_mem _ h)
      · rcases List.mem_cons.mp h with h | h
        · exact Or.inr (h ▸ List.mem_cons_self)
        · rcases ih h with h | h
          · exact Or.inl h
          · exact Or.inr (List.mem_cons_of_mem _ h)

theorem sigInsert_sorted {k : Nat} {v : Bytes} {m : SigMap}
    (h : m.Pairwise (fun a b => a.1 < b.1)) : (sigInsert k v m).Pairwise (fun a b => a.1 < b.1) := by
  induction m with
  | nil => simp [sigInsert]
  | cons a r ih =>
    obtain ⟨k', v'⟩ := a
    rw [List.pairwise_cons] at h
    simp only [sigInsert]
    split
    · rename_i hlt
      rw [List.pairwise_cons]
      refine ⟨?_, List.pairwise_cons.mpr h⟩
      intro e he
      rcases List.mem_cons.mp he with rfl | he
      · exact hlt
      · exact Nat.lt_trans hlt (h.1 e he)
    · split
      · rename_i heq
        rw [List.pairwise_cons]
        refine ⟨?_, h.2⟩
        intro e he
        have := h.1 e he
        simp only at this ⊢
        omega
      · rename_i hnlt hne
        rw [List.pairwise_cons]
        refine ⟨?_, ih h.2⟩
        intro e he
        rcases mem_sigInsert he with rfl | he
        · simp only; omega
        · exact h.1 e he

theorem readSigEntries_wf (n : Nat) (acc : SigMap) (s : Bytes) (m : SigMap) (r : Bytes)
    (h : readSigEntries n acc s = some (m, r))
    (hs : acc.Pairwise (fun a b => a.1 < b.1))
    (hv : ∀ e ∈ acc, e.1 < 65536 ∧ e.2.length = 64) :
    m.Pairwise (fun a b => a.1 < b.1) ∧ ∀ e ∈ m, e.1 < 65536 ∧ e.2.length = 64 := by
  induction n generalizing acc s with
  | zero =>
    simp only [readSigEntries, Option.some.injEq, Prod.mk.injEq] at h
    rw [← h.1]; exact ⟨hs, hv⟩
  | succ n ih =>
    simp only [readSigEntries] at h
    split at h
    · cases h
    · rename_i si s1 h1
      split at h
      · cases h
      · rename_i sig s2 h2
        apply ih _ _ h (sigInsert_sorted hs)
        intro e he
        rcases mem_sigInsert he with rfl | he
        · exact ⟨(readU16_some h1).2, (readN_some h2).2.1⟩
        · exact hv e he

theorem readSignatures_wf (s : Bytes) (m : SigMap) (r : Bytes) (h : readSignatures s = some (m, r)) :
    repSigMap m = true ∧ m.length ≤ 65535 := by
  simp only [readSignatures, Option.bind_eq_bind, Option.bind_eq_some_iff] at h
  obtain ⟨⟨sc, s1⟩, h1, ⟨m', s2⟩, h2, h⟩ := h
  split at h
  · cases h
  · rename_i hlen
    simp only [Option.some.injEq, Prod.mk.injEq] at h
    obtain ⟨rfl, _⟩ := h
    have hsc := (readU16_some h1).2
    have ⟨hs, hv⟩ := readSigEntries_wf _ _ _ _ _ h2 (by simp) (by simp)
    simp only at hlen
    refine ⟨?_, by omega⟩
    simp only [repSigMap, Bool.and_eq_true, sortedKeysFrom_iff, List.all_eq_true, decide_eq_true_eq,
      beq_iff_eq]
    exact ⟨⟨by simp, hs⟩, hv⟩

theorem readAgg_wf {s r : Bytes} {a : AggSig} (h : readAgg s = some (a, r)) :
    a.sig.length = 64 ∧ guardsAgg a = true := by
  simp only [readAgg, Option.bind_eq_bind, Option.bind_eq_some_iff] at h
  obtain ⟨⟨sig, s1⟩, h1, ⟨typ, s2⟩, _, ⟨signers, s3⟩, _, h⟩ := h
  split at h
  · rename_i hv
    simp only [Option.some.injEq, Prod.mk.injEq] at h
    obtain ⟨rfl, _⟩ := h
    exact ⟨(readN_some h1).2.1, by simp only [guardsAgg, Bool.or_eq_true]; exact Or.inr hv⟩
  · cases h

theorem readAuth_wf {s r : Bytes} {agg : Option AggSig} {sigs : List SigMap}
    (h : readAuth s = some ((agg, sigs), r)) :
    repAuth agg sigs = true ∧ guardsAuth agg sigs = true ∧
      sigs.length ≤ sliceCountLimit ∧ (agg.isNone || sigs.isEmpty) = true := by
  simp only [readAuth, Option.bind_eq_bind, Option.bind_eq_some_iff] at h
  obtain ⟨⟨sl, s1⟩, h1, h⟩ := h
  have hsl := (readU16_some h1).2
  split at h
  · simp only [Option.bind_eq_some_iff] at h
    obtain ⟨⟨pre, s2⟩, _, h⟩ := h
    split at h
    · simp only [Option.bind_eq_some_iff] at h
      obtain ⟨⟨js, s3⟩, h3, h⟩ := h
      simp only [Option.some.injEq, Prod.mk.injEq] at h
      obtain ⟨⟨rfl, rfl⟩, _⟩ := h
      have ⟨ha, hg⟩ := readAgg_wf h3
      simp [repAuth, guardsAuth, ha, hg, sliceCountLimit]
    · cases h
  · rename_i hne
    split at h
    · rename_i hpos
      simp only [Option.bind_eq_some_iff] at h
      obtain ⟨⟨sms, s2⟩, h2, h⟩ := h
      simp only [Option.some.injEq, Prod.mk.injEq] at h
      obtain ⟨⟨rfl, rfl⟩, _⟩ := h
      have ⟨hl, hp⟩ := readMany_some (P := fun m : SigMap => repSigMap m = true ∧ m.length ≤ 65535)
        readSignatures_wf _ _ _ _ h2
      simp only [repAuth, guardsAuth, Option.all_none, Bool.true_and, Bool.and_eq_true, List.all_eq_true,
        decide_eq_true_eq, Option.isNone_none, Bool.true_or, and_true]
      simp only [maxEncodingInt, sliceCountLimit] at hne hl ⊢
      refine ⟨fun m hm => (hp m hm).1, ⟨by omega, fun m hm => (hp m hm).2⟩, by omega⟩
    · simp only [Option.some.injEq, Prod.mk.injEq] at h
      obtain ⟨⟨rfl, rfl⟩, _⟩ := h
      simp [repAuth, guardsAuth, maxEncodingInt, sliceCountLimit]

theorem readExtra_wf {s r extra : Bytes} (h : readExtra s = some (extra, r)) :
    extra.length ≤ extraCapacity := by
  unfold readExtra at h
  split at h
  · cases h
  · split at h
    · cases h
    · rename_i hcap
      split at h
      · have := (readN_some h).2.1
        omega
      · simp only [Option.some.injEq, Prod.mk.injEq] at h
        rw [← h.1]; simp

theorem readVersion_wf {s r : Bytes} {v : UInt8} (h : readVersion s = some (v, r)) : v = txVersion := by
  unfold readVersion at h
  split at h
  · cases h
  · split at h
    · simp only [Option.some.injEq, Prod.mk.injEq] at h
      exact h.1.symm
    · cases h

theorem readPayload_wf {s r : Bytes} {p : Payload} (h : readPayload s = some (p, r)) :
    repPayload p = true ∧ guardsPayload p = true ∧ p.references.length ≤ sliceCountLimit ∧
      ∀ o ∈ p.outputs, o.keys.length ≤ sliceCountLimit := by
  simp only [readPayload, readPayloadL, Option.bind_eq_bind, Option.bind_eq_some_iff] at h
  obtain ⟨⟨v, s1⟩, h1, ⟨asset, s2⟩, h2, ⟨ins, s3⟩, h3, ⟨outs, s4⟩, h4, ⟨refs, s5⟩, h5,
    ⟨extra, s6⟩, h6, h⟩ := h
  simp only [Option.some.injEq, Prod.mk.injEq] at h
  obtain ⟨rfl, _⟩ := h
  have hv := readVersion_wf h1
  have ha := (readN_some h2).2.1
  have ⟨hil, hi⟩ := readCounted_some (P := fun i => repInput i = true ∧ guardsInput i = true)
    readInput_wf h3
  have ⟨hol, ho⟩ := readCounted_some
    (P := fun o => repOutput o = true ∧ guardsOutput o = true ∧ o.keys.length ≤ sliceCountLimit)
    (readOutputL_wf sliceCountLimit (by decide)) h4
  have ⟨hrl, hr⟩ := readCounted_some (P := fun k : Bytes => k.length = 32)
    (fun s x r hx => (readN_some hx).2.1) h5
  have he := readExtra_wf h6
  refine ⟨?_, ?_, hrl, fun o ho' => (ho o ho').2.2⟩
  · simp only [repPayload, Bool.and_eq_true, beq_iff_eq, List.all_eq_true]
    exact ⟨⟨⟨ha, fun i hi' => (hi i hi').1⟩, fun o ho' => (ho o ho').1⟩, hr⟩
  · simp only [guardsPayload, guardsBody, Bool.and_eq_true, beq_iff_eq, List.all_eq_true,
      decide_eq_true_eq]
    refine ⟨hv, ⟨⟨⟨⟨⟨hil, fun i hi' => (hi i hi').2⟩, hol⟩, fun o ho' => (ho o ho').2.1⟩, ?_⟩, he⟩⟩
    simp only [sliceCountLimit, maxEncodingInt] at hrl ⊢
    omega

theorem decodeRaw_wf {b : Bytes} {tx : Tx} (h : decodeRaw b = some tx) :
    WF tx ∧ canon tx = true := by
  simp only [decodeRaw, Option.bind_eq_bind, Option.bind_eq_some_iff] at h
  obtain ⟨⟨p, s1⟩, h1, ⟨⟨agg, sigs⟩, s2⟩, h2, h⟩ := h
  split at h
  · simp only [Option.some.injEq] at h
    subst h
    have ⟨hrp, hgp, hrl, hkl⟩ := readPayload_wf h1
    have ⟨hra, hga, hsl, hx⟩ := readAuth_wf h2
    refine ⟨⟨?_, ?_⟩, ?_⟩
    · simp only [rep, Bool.and_eq_true]; exact ⟨hrp, hra⟩
    · simp only [guards, Bool.and_eq_true]; exact ⟨hgp, hga⟩
    · simp only [canon, Bool.and_eq_true, decide_eq_true_eq, List.all_eq_true]
      exact ⟨⟨⟨hrl, hkl⟩, hsl⟩, hx⟩
  · cases h
