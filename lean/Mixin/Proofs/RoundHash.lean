import Mixin.Model.RoundHash
import Mixin.Proofs.BytesSnap
/-! Lemmas for the round hash model (C18): the key order is a total preorder that is
    antisymmetric on keys; the model equals a specification over the sorted key list. -/
namespace Mixin.RoundHash
open Mixin.BytesSnap

/-! ### the key order -/

theorem keyLess_iff (a b : Nat × Bytes) :
    keyLess a b = true ↔ a.1 < b.1 ∨ (a.1 = b.1 ∧ bytesLt a.2 b.2 = true) := by
  unfold keyLess
  by_cases h1 : a.1 < b.1
  · rw [if_pos h1]; exact ⟨fun _ => Or.inl h1, fun _ => rfl⟩
  · by_cases h2 : a.1 > b.1
    · rw [if_neg h1, if_pos h2]
      constructor
      · intro h; cases h
      · rintro (h | ⟨h, _⟩) <;> omega
    · rw [if_neg h1, if_neg h2]
      constructor
      · intro h; exact Or.inr ⟨by omega, h⟩
      · rintro (h | ⟨_, h⟩)
        · omega
        · exact h

theorem keyLe_iff (a b : Nat × Bytes) :
    keyLe a b = true ↔ a.1 < b.1 ∨ (a.1 = b.1 ∧ bytesLe a.2 b.2 = true) := by
  unfold keyLe
  rw [Bool.not_eq_true', ← Bool.not_eq_true, keyLess_iff]
  simp only [bytesLe, Bool.not_eq_true']
  constructor
  · intro h
    by_cases h1 : a.1 < b.1
    · exact Or.inl h1
    · have h2 : ¬ b.1 < a.1 := fun hh => h (Or.inl hh)
      refine Or.inr ⟨by omega, ?_⟩
      cases hb : bytesLt b.2 a.2 with
      | false => rfl
      | true => exact absurd (Or.inr ⟨by omega, hb⟩) h
  · rintro (h | ⟨h1, h2⟩) (h' | ⟨_, h''⟩)
    · omega
    · omega
    · omega
    · rw [h2] at h''; cases h''

theorem keyLe_trans {a b c : Nat × Bytes} (h1 : keyLe a b = true) (h2 : keyLe b c = true) :
    keyLe a c = true := by
  rw [keyLe_iff] at *
  rcases h1 with h1 | ⟨e1, l1⟩ <;> rcases h2 with h2 | ⟨e2, l2⟩
  · exact Or.inl (by omega)
  · exact Or.inl (by omega)
  · exact Or.inl (by omega)
  · exact Or.inr ⟨by omega, bytesLe_trans l1 l2⟩

theorem keyLe_total (a b : Nat × Bytes) : (keyLe a b || keyLe b a) = true := by
  rw [Bool.or_eq_true, keyLe_iff, keyLe_iff]
  by_cases h1 : a.1 < b.1
  · exact Or.inl (Or.inl h1)
  · by_cases h2 : b.1 < a.1
    · exact Or.inr (Or.inl h2)
    · have he : a.1 = b.1 := by omega
      have := bytesLe_total a.2 b.2
      rw [Bool.or_eq_true] at this
      rcases this with h | h
      · exact Or.inl (Or.inr ⟨he, h⟩)
      · exact Or.inr (Or.inr ⟨he.symm, h⟩)

theorem keyLe_antisymm {a b : Nat × Bytes} (h1 : keyLe a b = true) (h2 : keyLe b a = true) :
    a = b := by
  rw [keyLe_iff] at *
  rcases h1 with h1 | ⟨e1, l1⟩ <;> rcases h2 with h2 | ⟨e2, l2⟩
  · omega
  · omega
  · omega
  · exact Prod.ext e1 (bytesLe_antisymm l1 l2)

theorem keyLe_fst {a b : Nat × Bytes} (h : keyLe a b = true) : a.1 ≤ b.1 := by
  rw [keyLe_iff] at h
  rcases h with h | ⟨h, _⟩ <;> omega

/-! ### sorting -/

def sortKeys (ks : List (Nat × Bytes)) : List (Nat × Bytes) := ks.mergeSort keyLe

theorem sortKeys_sorted (ks : List (Nat × Bytes)) :
    (sortKeys ks).Pairwise (fun a b => keyLe a b = true) :=
  List.pairwise_mergeSort (le := keyLe) (fun _ _ _ => keyLe_trans) keyLe_total ks

theorem sortKeys_perm (ks : List (Nat × Bytes)) : (sortKeys ks).Perm ks :=
  List.mergeSort_perm ks keyLe

theorem sortKeys_eq_of_perm {k₁ k₂ : List (Nat × Bytes)} (h : k₁.Perm k₂) :
    sortKeys k₁ = sortKeys k₂ :=
  List.Perm.eq_of_pairwise (le := fun a b => keyLe a b = true)
    (fun _ _ _ _ hab hba => keyLe_antisymm hab hba) (sortKeys_sorted k₁) (sortKeys_sorted k₂)
    (((sortKeys_perm k₁).trans h).trans (sortKeys_perm k₂).symm)

theorem sortSnaps_sorted {α : Type} (v : View α) (l : List α) :
    (sortSnaps v l).Pairwise (fun a b => le v a b = true) :=
  List.pairwise_mergeSort (le := le v) (fun _ _ _ => keyLe_trans) (fun a b => keyLe_total _ _) l

theorem sortSnaps_perm {α : Type} (v : View α) (l : List α) : (sortSnaps v l).Perm l :=
  List.mergeSort_perm l (le v)

/-- sorting the snapshots and projecting the keys = sorting the keys -/
theorem map_key_sortSnaps {α : Type} (v : View α) (l : List α) :
    (sortSnaps v l).map (key v) = sortKeys (l.map (key v)) := by
  apply List.Perm.eq_of_pairwise (le := fun a b => keyLe a b = true)
    (fun _ _ _ _ hab hba => keyLe_antisymm hab hba)
  · exact List.pairwise_map.mpr (sortSnaps_sorted v l)
  · exact sortKeys_sorted _
  · exact ((sortSnaps_perm v l).map (key v)).trans (sortKeys_perm _).symm

/-! ### pieces of the function body -/

theorem lastOr_mem {α : Type} (a : α) (l : List α) : lastOr a l ∈ a :: l := by
  induction l generalizing a with
  | nil => simp [lastOr]
  | cons b t ih =>
    simp only [lastOr]
    exact List.mem_cons_of_mem _ (ih b)

theorem lastOr_map {α β : Type} (f : α → β) (a : α) (l : List α) :
    lastOr (f a) (l.map f) = f (lastOr a l) := by
  induction l generalizing a with
  | nil => rfl
  | cons b t ih => simp only [List.map_cons, lastOr]; exact ih b

/-- in a sorted non-empty list no timestamp exceeds the last one -/
theorem sorted_ts_le_last {a : Nat × Bytes} {l : List (Nat × Bytes)}
    (h : (a :: l).Pairwise (fun x y => keyLe x y = true)) :
    ∀ x ∈ a :: l, x.1 ≤ (lastOr a l).1 := by
  induction l generalizing a with
  | nil => intro x hx; simp at hx; subst hx; exact Nat.le_refl _
  | cons b t ih =>
    obtain ⟨h1, h2⟩ := List.pairwise_cons.mp h
    intro x hx
    simp only [lastOr]
    rcases List.mem_cons.mp hx with rfl | hx
    · exact keyLe_fst (h1 _ (lastOr_mem b t))
    · exact ih h2 x hx

/-- … and none is below the first one -/
theorem sorted_first_le {a : Nat × Bytes} {l : List (Nat × Bytes)}
    (h : (a :: l).Pairwise (fun x y => keyLe x y = true)) :
    ∀ x ∈ a :: l, a.1 ≤ x.1 := by
  obtain ⟨h1, _⟩ := List.pairwise_cons.mp h
  intro x hx
  rcases List.mem_cons.mp hx with rfl | hx
  · exact Nat.le_refl _
  · exact keyLe_fst (h1 x hx)

theorem maxVersion_ge {α : Type} (v : View α) (v0 : Nat) (l : List α) :
    v0 ≤ maxVersion v v0 l ∧ ∀ s ∈ l, v.version s ≤ maxVersion v v0 l := by
  induction l generalizing v0 with
  | nil => exact ⟨Nat.le_refl _, fun s hs => by cases hs⟩
  | cons a t ih =>
    have hstep : maxVersion v v0 (a :: t) =
        maxVersion v (if v.version a > v0 then v.version a else v0) t := rfl
    rw [hstep]
    obtain ⟨g1, g2⟩ := ih (if v.version a > v0 then v.version a else v0)
    have hm : v0 ≤ (if v.version a > v0 then v.version a else v0) ∧
        v.version a ≤ (if v.version a > v0 then v.version a else v0) := by
      split <;> omega
    refine ⟨by omega, ?_⟩
    intro s hs
    rcases List.mem_cons.mp hs with rfl | hs
    · omega
    · exact g2 s hs

theorem chain_ok {α : Type} (v : View α) (H : Bytes → Bytes) (ver e : Nat) (h : Bytes) (l : List α)
    (hl : ∀ s ∈ l, v.version s ≤ ver ∧ v.ts s ≤ e) :
    chain v H ver e h l = some (l.foldl (fun h s => H (h ++ v.hash s)) h) := by
  induction l generalizing h with
  | nil => rfl
  | cons a t ih =>
    obtain ⟨h1, h2⟩ := hl a (by simp)
    simp only [chain, List.foldl_cons]
    rw [if_neg (by omega), if_neg (by omega)]
    exact ih _ (fun s hs => hl s (by simp [hs]))

/-! ### specification over keys -/

/-- hash chain along a key list -/
def foldKeys (H : Bytes → Bytes) (h : Bytes) (ks : List (Nat × Bytes)) : Bytes :=
  ks.foldl (fun h k => H (h ++ k.2)) h

/-- the result, given the keys already sorted -/
def specSorted (H : Bytes → Bytes) (node : Bytes) (number : Nat) :
    List (Nat × Bytes) → Option (Nat × Nat × Bytes)
  | [] => none
  | k :: ks =>
    if (lastOr k ks).1 ≥ (k.1 + roundGap) % 2 ^ 64 then none
    else some (k.1, (lastOr k ks).1, foldKeys H (H (node ++ beBytes 8 number)) (k :: ks))

/-- **Specification**: sort the (timestamp, hash) pairs, then chain the hashes. A function of
    node, number and the multiset of pairs only. -/
def spec (H : Bytes → Bytes) (node : Bytes) (number : Nat) (ks : List (Nat × Bytes)) :
    Option (Nat × Nat × Bytes) :=
  specSorted H node number (sortKeys ks)

theorem computeRoundHashG_eq_spec {α : Type} (v : View α) (H : Bytes → Bytes) (node : Bytes)
    (number : Nat) (l : List α) :
    computeRoundHashG v H node number l = spec H node number (l.map (key v)) := by
  unfold spec
  rw [← map_key_sortSnaps]
  have hs := sortSnaps_sorted v l
  unfold computeRoundHashG
  cases hsl : sortSnaps v l with
  | nil => rfl
  | cons first rest =>
    rw [hsl] at hs
    simp only [List.map_cons, specSorted]
    rw [lastOr_map (key v) first rest]
    have hk : ((first :: rest).map (key v)).Pairwise (fun a b => keyLe a b = true) :=
      List.pairwise_map.mpr hs
    have hlast := sorted_ts_le_last (a := key v first) (l := rest.map (key v)) hk
    rw [lastOr_map] at hlast
    have hmax := maxVersion_ge v (v.version first) (first :: rest)
    have hall : ∀ s ∈ first :: rest,
        v.version s ≤ maxVersion v (v.version first) (first :: rest) ∧
        v.ts s ≤ v.ts (lastOr first rest) := by
      intro s hs'
      exact ⟨hmax.2 s hs', hlast (key v s) (List.mem_map_of_mem hs')⟩
    simp only [key, chain_ok v H _ _ _ _ hall, foldKeys, List.foldl_cons, List.foldl_map]

end Mixin.RoundHash
