import Mixin.Model.SnapCodec
import Mixin.Proofs.BytesSnap
import Mixin.Facts.ExpectedC07
/-! Inversion and round-trip lemmas for the snapshot codec model (C07). -/
namespace Mixin.SnapCodec
open Mixin.BytesSnap

theorem verCommon_eq : verCommon = 2 := Mixin.Facts.ExpectedC07.snapshotVersion
theorem txMax_eq : txMax = 255 := Mixin.Facts.ExpectedC07.snapshotTransactionsMaximum

def WFRefs : Option RoundLink → Prop
  | none => True
  | some r => r.self.length = 32 ∧ r.ext.length = 32

def WFSig : Option CosiSig → Prop
  | none => True
  | some c => c.mask ≠ 0 ∧ c.mask < 2 ^ 64 ∧ c.sig.length = 64

/-- explicit byte layout of the part before the topology, given the sorted transaction list
    and the signature field `sg` -/
def layout (s : Snapshot) (sg : Bytes) : Bytes :=
  magic ++ ([0, UInt8.ofNat s.version] ++ (s.nodeId ++ (beBytes 8 s.round ++
    (encRefs s.refs ++ (beBytes 2 s.txs.length ++ (s.txs.flatten ++ (beBytes 8 s.ts ++ sg)))))))

/-! ### sub-decoders -/

theorem readRoundReferences_some {b r : Bytes} {rl : Option RoundLink}
    (h : readRoundReferences b = some (rl, r)) : b = encRefs rl ++ r ∧ WFRefs rl := by
  unfold readRoundReferences at h
  split at h
  · cases h
  · rename_i rc r0 hrc
    obtain ⟨hb, _⟩ := readU_some hrc
    split at h
    · rename_i h0
      injection h with h; injection h with h1 h2
      subst h1; subst h2; subst h0
      exact ⟨hb, trivial⟩
    · split at h
      · cases h
      · rename_i hn0 h2
        have hrc2 : rc = 2 := by simpa using h2
        split at h
        · cases h
        · rename_i self r1 hs
          split at h
          · cases h
          · rename_i ext r2 he
            injection h with h; injection h with h1 h2
            obtain ⟨hb1, hl1⟩ := readN_some hs
            obtain ⟨hb2, hl2⟩ := readN_some he
            subst h1; subst h2; subst hrc2
            refine ⟨?_, hl1, hl2⟩
            simp only [encRefs, List.append_assoc]
            rw [hb, hb1, hb2]

theorem readRoundReferences_enc (rl : Option RoundLink) (r : Bytes) (h : WFRefs rl) :
    readRoundReferences (encRefs rl ++ r) = some (rl, r) := by
  unfold readRoundReferences
  cases rl with
  | none =>
    simp only [encRefs]
    rw [readU_append r (by decide)]
    simp
  | some l =>
    obtain ⟨h1, h2⟩ := h
    simp only [encRefs, List.append_assoc]
    rw [readU_append _ (by decide)]
    simp only [show (2 : Nat) ≠ 0 by decide, if_false, ne_eq, not_true_eq_false]
    rw [readN_append _ h1]
    simp only
    rw [readN_append _ h2]

theorem readCosiSignature_some {b r : Bytes} {cs : Option CosiSig}
    (h : readCosiSignature b = some (cs, r)) :
    ∃ sg, encSig cs = some sg ∧ b = sg ++ r ∧ WFSig cs := by
  unfold readCosiSignature at h
  split at h
  · cases h
  · rename_i m r0 hm
    obtain ⟨hb, hlt⟩ := readU_some hm
    split at h
    · rename_i h0
      injection h with h; injection h with h1 h2
      subst h1; subst h2; subst h0
      exact ⟨beBytes 8 0, rfl, hb, trivial⟩
    · rename_i hn0
      split at h
      · cases h
      · rename_i sg r1 hs
        injection h with h; injection h with h1 h2
        obtain ⟨hb1, hl1⟩ := readN_some hs
        subst h1; subst h2
        refine ⟨beBytes 8 m ++ sg, ?_, ?_, hn0, by simpa using hlt, hl1⟩
        · simp [encSig, hn0]
        · rw [hb, hb1, List.append_assoc]

theorem readCosiSignature_enc (cs : Option CosiSig) (sg r : Bytes) (h : WFSig cs)
    (he : encSig cs = some sg) : readCosiSignature (sg ++ r) = some (cs, r) := by
  unfold readCosiSignature
  cases cs with
  | none =>
    simp only [encSig, Option.some.injEq] at he
    subst he
    rw [readU_append r (by decide)]
    simp
  | some c =>
    obtain ⟨h0, hlt, hl⟩ := h
    simp only [encSig, h0, if_false, Option.some.injEq] at he
    subst he
    rw [List.append_assoc, readU_append _ (by simpa using hlt)]
    simp only [h0, if_false]
    rw [readN_append _ hl]

theorem readHashes_some {n : Nat} {b r : Bytes} {hs : List Bytes}
    (h : readHashes n b = some (hs, r)) :
    b = hs.flatten ++ r ∧ hs.length = n ∧ ∀ x ∈ hs, x.length = 32 := by
  induction n generalizing b hs r with
  | zero =>
    simp only [readHashes, Option.some.injEq, Prod.mk.injEq] at h
    obtain ⟨h1, h2⟩ := h
    subst h1; subst h2
    simp
  | succ n ih =>
    unfold readHashes at h
    split at h
    · cases h
    · rename_i x r0 hx
      split at h
      · cases h
      · rename_i hs' r' hrec
        injection h with h; injection h with h1 h2
        obtain ⟨hb, hl⟩ := readN_some hx
        obtain ⟨hb', hl', hall⟩ := ih hrec
        subst h1; subst h2
        refine ⟨?_, by simp [hl'], ?_⟩
        · rw [hb, hb']; simp
        · intro y hy
          rcases List.mem_cons.mp hy with rfl | hy
          · exact hl
          · exact hall y hy

theorem readHashes_flatten (hs : List Bytes) (r : Bytes) (h : ∀ x ∈ hs, x.length = 32) :
    readHashes hs.length (hs.flatten ++ r) = some (hs, r) := by
  induction hs with
  | nil => simp [readHashes]
  | cons x xs ih =>
    have hx : x.length = 32 := h x (by simp)
    have hxs : ∀ y ∈ xs, y.length = 32 := fun y hy => h y (by simp [hy])
    simp only [List.length_cons, List.flatten_cons, List.append_assoc, readHashes]
    rw [readN_append _ hx]
    simp only
    rw [ih hxs]

/-! ### ordering of the transaction list -/

theorem strictlyIncreasing_pairwise {l : List Bytes} (h : strictlyIncreasing l = true) :
    l.Pairwise (fun a b => bytesLt a b = true) := by
  induction l with
  | nil => exact List.Pairwise.nil
  | cons a t ih =>
    cases t with
    | nil => simp
    | cons b rest =>
      simp only [strictlyIncreasing, Bool.and_eq_true] at h
      have ht := ih h.2
      refine List.Pairwise.cons ?_ ht
      intro c hc
      rcases List.mem_cons.mp hc with rfl | hc
      · exact h.1
      · exact bytesLt_trans h.1 ((List.pairwise_cons.mp ht).1 c hc)

theorem pairwise_strictlyIncreasing {l : List Bytes}
    (h : l.Pairwise (fun a b => bytesLt a b = true)) : strictlyIncreasing l = true := by
  induction l with
  | nil => rfl
  | cons a t ih =>
    cases t with
    | nil => rfl
    | cons b rest =>
      obtain ⟨h1, h2⟩ := List.pairwise_cons.mp h
      simp only [strictlyIncreasing, Bool.and_eq_true]
      exact ⟨h1 b (by simp), ih h2⟩

theorem sortTxs_of_increasing {l : List Bytes}
    (h : l.Pairwise (fun a b => bytesLt a b = true)) : sortTxs l = l := by
  unfold sortTxs
  apply List.mergeSort_of_pairwise
  exact h.imp (fun hab => bytesLe_of_lt hab)

theorem hasAdjDup_of_increasing {l : List Bytes}
    (h : l.Pairwise (fun a b => bytesLt a b = true)) : hasAdjDup l = false := by
  induction l with
  | nil => rfl
  | cons a t ih =>
    cases t with
    | nil => rfl
    | cons b rest =>
      obtain ⟨h1, h2⟩ := List.pairwise_cons.mp h
      have hab := h1 b (by simp)
      have hne : (a == b) = false := by
        cases hd : a == b with
        | false => rfl
        | true =>
          have : a = b := by simpa using hd
          subst this
          rw [bytesLt_irrefl] at hab; cases hab
      simp only [hasAdjDup, hne, Bool.false_or]
      exact ih h2

theorem readTail_some {b : Bytes} {t : Nat} (h : readTail b = some t) :
    (b = [] ∧ t = 0) ∨ (b = beBytes 8 t ∧ t < 2 ^ 64) := by
  unfold readTail at h
  split at h
  · rename_i h0
    injection h with h
    exact Or.inl ⟨List.length_eq_zero_iff.mp h0, h.symm⟩
  · split at h
    · cases h
    · split at h
      · rename_i h8
        injection h with h
        subst h
        refine Or.inr ⟨(beBytes_beNat' h8).symm, ?_⟩
        have := beNat_lt b
        rw [h8] at this
        simpa using this
      · cases h

theorem readTail_nil : readTail [] = some 0 := rfl

theorem readTail_be {t : Nat} (h : t < 2 ^ 64) : readTail (beBytes 8 t) = some t := by
  unfold readTail
  simp only [beBytes_length]
  simp only [show ¬ (8 = 0) by decide, show ¬ (8 < 8) by decide, if_false, if_true]
  rw [beNat_beBytes 8 t (by simpa using h)]


/-! ### well-formed snapshots and the two main inversions -/

/-- what the decoder guarantees about an accepted snapshot (and what the encoder needs in
    order to produce bytes the decoder accepts) -/
structure WF (s : Snapshot) : Prop where
  version : s.version = 2
  node : s.nodeId.length = 32
  round : s.round < 2 ^ 64
  refs : WFRefs s.refs
  txLen : ∀ x ∈ s.txs, x.length = 32
  count : 1 ≤ s.txs.length ∧ s.txs.length ≤ 255
  sorted : s.txs.Pairwise (fun a b => bytesLt a b = true)
  round0 : s.round = 0 → s.txs.length = 1 ∧ s.refs = none
  later : s.round ≠ 0 → s.refs.isSome = true
  ts : s.ts < 2 ^ 64
  sig : WFSig s.sig

theorem encode_of_wf {s : Snapshot} (h : WF s) {sg : Bytes} (withSig : Bool)
    (hs : encSig s.sig = some sg) (hw : withSig = false → s.sig = none) :
    encodeSnapshotPayload s withSig = some (layout s sg) := by
  unfold encodeSnapshotPayload
  have h1 : ¬ s.version < verCommon := by rw [verCommon_eq, h.version]; decide
  have h2 : ¬ (s.round = 0 ∧ s.txs.length ≠ 1) := fun ⟨a, b⟩ => b (h.round0 a).1
  have h3 : ¬ (s.txs.length < 1 ∨ s.txs.length > txMax) := by
    rw [txMax_eq]; have := h.count; omega
  have h4 : ¬ (withSig = false ∧ s.sig.isSome = true) := by
    intro ⟨a, b⟩; rw [hw a] at b; cases b
  simp only [h1, h2, h3, h4, if_false, sortTxs_of_increasing h.sorted,
    hasAdjDup_of_increasing h.sorted, hs]
  rfl

theorem checkSnapVersion_ge {hdr : Bytes} (hl : hdr.length = 4)
    (h : ¬ checkSnapVersion hdr < verCommon) :
    hdr = magic ++ [0, UInt8.ofNat 2] ∧ checkSnapVersion hdr = 2 := by
  unfold checkSnapVersion at h ⊢
  rw [verCommon_eq] at h ⊢
  have h4 : ¬ hdr.length < 4 := by omega
  simp only [h4, if_false] at h ⊢
  split at h
  · rename_i he
    have he' := he
    rw [List.take_of_length_le (by omega)] at he'
    exact ⟨he', by rw [if_pos he]⟩
  · exact absurd (by decide : (0 : Nat) < 2) h

/-- Inversion of the decoder: an accepted input is the layout of the decoded snapshot followed
    by nothing or by the 8-byte topology, and the decoded snapshot is well formed. -/
theorem decode_inv {b : Bytes} {s : Snapshot} {t : Nat}
    (h : decodeSnapshotWithTopo b = some (s, t)) :
    WF s ∧ ∃ sg, encSig s.sig = some sg ∧
      ((b = layout s sg ++ beBytes 8 t ∧ t < 2 ^ 64) ∨ (t = 0 ∧ b = layout s sg)) := by
  unfold decodeSnapshotWithTopo at h
  split at h
  · cases h
  rename_i hdr b1 hhdr
  obtain ⟨e0, l0⟩ := readN_some hhdr
  simp only at h
  split at h
  · cases h
  rename_i hver
  obtain ⟨ehdr, ever⟩ := checkSnapVersion_ge l0 hver
  split at h
  · cases h
  rename_i node b2 hnode
  obtain ⟨e1, l1⟩ := readN_some hnode
  split at h
  · cases h
  rename_i rn b3 hrn
  obtain ⟨e2, l2⟩ := readU_some hrn
  split at h
  · cases h
  rename_i rl b4 hrl
  obtain ⟨e3, l3⟩ := readRoundReferences_some hrl
  split at h
  · cases h
  rename_i tl b5 htl
  obtain ⟨e4, _⟩ := readU_some htl
  split at h
  · cases h
  rename_i hcnt
  split at h
  · cases h
  rename_i txs b6 htxs
  obtain ⟨e5, l5, a5⟩ := readHashes_some htxs
  split at h
  · cases h
  rename_i hinc
  have hsorted := strictlyIncreasing_pairwise (by simpa using hinc)
  split at h
  · cases h
  rename_i hr0
  split at h
  · cases h
  rename_i hr1
  split at h
  · cases h
  rename_i ts b7 hts
  obtain ⟨e6, l6⟩ := readU_some hts
  split at h
  · cases h
  rename_i cs b8 hcs
  obtain ⟨sg, esg, e7, l7⟩ := readCosiSignature_some hcs
  split at h
  · cases h
  rename_i topo htopo
  injection h with h; injection h with hs ht
  subst ht
  have hwf : WF s := by
    subst hs
    rw [txMax_eq] at hcnt
    refine ⟨ever, l1, by simpa using l2, l3, a5, (by show 1 ≤ txs.length ∧ txs.length ≤ 255; omega), hsorted, ?_, ?_, by simpa using l6, l7⟩
    · intro hz
      simp only at hz
      refine ⟨?_, ?_⟩
      · exact Classical.byContradiction fun hne => hr0 ⟨hz, Or.inl hne⟩
      · cases hrl' : rl with
        | none => rfl
        | some l => exact absurd ⟨hz, Or.inr (by simp [hrl'])⟩ hr0
    · intro hnz
      simp only at hnz ⊢
      cases hrl' : rl with
      | none => exact absurd ⟨hnz, by simp [hrl']⟩ hr1
      | some l => rfl
  refine ⟨hwf, sg, by subst hs; exact esg, ?_⟩
  have hlay : b = layout s sg ++ b8 := by
    subst hs
    simp only [layout, ever, List.append_assoc]
    rw [e0, ehdr, e1, e2, e3, e4, e5, e6, e7, l5]
    simp [magic]
  rcases readTail_some htopo with ⟨hb8, ht0⟩ | ⟨hb8, htlt⟩
  · right; rw [hlay, hb8]; simp [ht0]
  · left; rw [hlay, hb8]; exact ⟨rfl, htlt⟩

/-- the decoder on the layout of a well-formed snapshot followed by `tail` -/
theorem decode_layout {s : Snapshot} (h : WF s) {sg : Bytes} (hs : encSig s.sig = some sg)
    (tail : Bytes) {t : Nat} (ht : readTail tail = some t) :
    decodeSnapshotWithTopo (layout s sg ++ tail) = some (s, t) := by
  unfold decodeSnapshotWithTopo
  have hm : layout s sg ++ tail = (magic ++ [0, UInt8.ofNat 2]) ++ (s.nodeId ++ (beBytes 8 s.round ++
      (encRefs s.refs ++ (beBytes 2 s.txs.length ++ (s.txs.flatten ++ (beBytes 8 s.ts ++ (sg ++ tail))))))) := by
    simp [layout, h.version, List.append_assoc]
  rw [hm, readN_append _ (by rfl)]
  have hv : checkSnapVersion (magic ++ [0, UInt8.ofNat 2]) = 2 := by
    unfold checkSnapVersion; rw [verCommon_eq]; rfl
  simp only [hv, verCommon_eq, show ¬ (2 < 2) by decide, if_false]
  rw [readN_append _ h.node]
  simp only
  rw [readU_append _ (by simpa using h.round)]
  simp only
  rw [readRoundReferences_enc _ _ h.refs]
  simp only
  have hc := h.count
  rw [readU_append _ (by omega)]
  simp only [txMax_eq, show ¬ (s.txs.length < 1 ∨ s.txs.length > 255) by omega, if_false]
  rw [readHashes_flatten _ _ h.txLen]
  simp only [pairwise_strictlyIncreasing h.sorted]
  have g0 : ¬ (s.round = 0 ∧ (s.txs.length ≠ 1 ∨ s.refs.isSome = true)) := by
    intro ⟨hz, hor⟩
    obtain ⟨a, b⟩ := h.round0 hz
    rcases hor with hor | hor
    · exact hor a
    · rw [b] at hor; cases hor
  have g1 : ¬ (s.round ≠ 0 ∧ s.refs.isNone = true) := by
    intro ⟨hnz, hn⟩
    have := h.later hnz
    cases hr : s.refs with
    | none => rw [hr] at this; cases this
    | some l => rw [hr] at hn; cases hn
  simp only [g0, g1, if_false, Bool.true_eq_false]
  rw [readU_append _ (by simpa using h.ts)]
  simp only
  rw [readCosiSignature_enc _ _ _ h.sig hs]
  simp only [ht]
  rw [← h.version]


/-! ### canonical form of an encoder input -/

/-- the snapshot with its transaction list sorted (what the encoder leaves behind in
    `s.Transactions` and what the decoder returns) -/
def canon (s : Snapshot) : Snapshot := { s with txs := sortTxs s.txs }

theorem sortTxs_length (l : List Bytes) : (sortTxs l).length = l.length := by
  unfold sortTxs; exact List.length_mergeSort l

theorem sortTxs_sorted (l : List Bytes) :
    (sortTxs l).Pairwise (fun a b => bytesLe a b = true) := by
  unfold sortTxs
  exact List.pairwise_mergeSort (le := bytesLe) (fun _ _ _ => bytesLe_trans) bytesLe_total l

theorem sortTxs_perm (l : List Bytes) : (sortTxs l).Perm l := by
  unfold sortTxs; exact List.mergeSort_perm l _

theorem sortTxs_idem (l : List Bytes) : sortTxs (sortTxs l) = sortTxs l := by
  have h := sortTxs_sorted l
  unfold sortTxs at h ⊢
  exact List.mergeSort_of_pairwise h

theorem sortTxs_increasing_of_nodup {l : List Bytes} (h : l.Nodup) :
    (sortTxs l).Pairwise (fun a b => bytesLt a b = true) := by
  have hs := sortTxs_sorted l
  have hn : (sortTxs l).Nodup := (sortTxs_perm l).nodup_iff.mpr h
  have := hs.and hn
  refine this.imp ?_
  intro a b ⟨hle, hne⟩
  cases hlt : bytesLt a b with
  | true => rfl
  | false =>
    have hba : bytesLt b a = false := by simpa [bytesLe] using hle
    exact absurd (bytesLt_total hlt hba) hne

theorem encode_canon (s : Snapshot) (w : Bool) :
    encodeSnapshotPayload (canon s) w = encodeSnapshotPayload s w := by
  unfold encodeSnapshotPayload canon
  simp only [sortTxs_idem, sortTxs_length]

/-! ### the hashed payload -/

/-- the bytes `PayloadHash` hashes, written out -/
def payloadLayout (s : Snapshot) : Bytes :=
  magic ++ ([0, UInt8.ofNat 2] ++ (s.nodeId ++ (beBytes 8 s.round ++ (encRefs s.refs ++
    (beBytes 2 (sortTxs s.txs).length ++ ((sortTxs s.txs).flatten ++
      (beBytes 8 s.ts ++ beBytes 8 0)))))))

theorem versionedPayload_some {s : Snapshot} {p : Bytes} (h : versionedPayload s = some p) :
    s.version = 2 ∧ 1 ≤ s.txs.length ∧ s.txs.length ≤ 255 ∧ p = payloadLayout s := by
  unfold versionedPayload at h
  split at h
  · rename_i hv
    rw [verCommon_eq] at hv
    unfold encodeSnapshotPayload at h
    simp only at h
    split at h
    · cases h
    split at h
    · cases h
    split at h
    · cases h
    rename_i hc
    rw [txMax_eq] at hc
    split at h
    · cases h
    split at h
    · cases h
    simp only [encSig, Option.some.injEq] at h
    refine ⟨hv, by omega, by omega, ?_⟩
    rw [← h, hv]
    rfl
  · cases h

theorem versionedPayload_congr {s₁ s₂ : Snapshot} (hv : s₁.version = s₂.version)
    (hn : s₁.nodeId = s₂.nodeId) (hr : s₁.round = s₂.round) (hl : s₁.refs = s₂.refs)
    (ht : sortTxs s₁.txs = sortTxs s₂.txs) (hts : s₁.ts = s₂.ts) :
    versionedPayload s₁ = versionedPayload s₂ := by
  have hlen : s₁.txs.length = s₂.txs.length := by
    rw [← sortTxs_length s₁.txs, ← sortTxs_length s₂.txs, ht]
  unfold versionedPayload encodeSnapshotPayload
  simp only [hv, hn, hr, hl, ht, hts, hlen]

theorem parse_eq {α : Type} {f : Bytes → Option (α × Bytes)} {x y : Bytes} {a b : α}
    {X Y : Bytes} (hx : f x = some (a, X)) (hy : f y = some (b, Y)) (h : x = y) :
    a = b ∧ X = Y := by
  rw [h, hy] at hx
  injection hx with hx; injection hx with h1 h2
  exact ⟨h1.symm, h2.symm⟩

theorem flatten32_inj {la lb : List Bytes} {X Y : Bytes} (hlen : la.length = lb.length)
    (ha : ∀ x ∈ la, x.length = 32) (hb : ∀ x ∈ lb, x.length = 32)
    (h : la.flatten ++ X = lb.flatten ++ Y) : la = lb ∧ X = Y := by
  have h1 := readHashes_flatten la X ha
  have h2 := readHashes_flatten lb Y hb
  rw [h, hlen, h2] at h1
  injection h1 with h1; injection h1 with h3 h4
  exact ⟨h3.symm, h4.symm⟩

/-- lengths the Go types guarantee for any `Snapshot` value -/
structure Sized (s : Snapshot) : Prop where
  node : s.nodeId.length = 32
  round : s.round < 2 ^ 64
  refs : WFRefs s.refs
  txLen : ∀ x ∈ s.txs, x.length = 32
  ts : s.ts < 2 ^ 64

theorem payloadLayout_inj {s₁ s₂ : Snapshot} (w₁ : Sized s₁) (w₂ : Sized s₂)
    (c₁ : s₁.txs.length ≤ 255) (c₂ : s₂.txs.length ≤ 255)
    (h : payloadLayout s₁ = payloadLayout s₂) :
    s₁.nodeId = s₂.nodeId ∧ s₁.round = s₂.round ∧ s₁.refs = s₂.refs ∧
      sortTxs s₁.txs = sortTxs s₂.txs ∧ s₁.ts = s₂.ts := by
  unfold payloadLayout at h
  have h := List.append_cancel_left h
  have h := List.append_cancel_left h
  obtain ⟨e1, h⟩ := parse_eq (readN_append _ w₁.node) (readN_append _ w₂.node) h
  obtain ⟨e2, h⟩ := parse_eq (readU_append _ (by simpa using w₁.round))
    (readU_append _ (by simpa using w₂.round)) h
  obtain ⟨e3, h⟩ := parse_eq (readRoundReferences_enc _ _ w₁.refs)
    (readRoundReferences_enc _ _ w₂.refs) h
  have l₁ := sortTxs_length s₁.txs
  have l₂ := sortTxs_length s₂.txs
  obtain ⟨e4, h⟩ := parse_eq (readU_append (k := 2) _ (by omega))
    (readU_append (k := 2) _ (by omega)) h
  have m₁ : ∀ x ∈ sortTxs s₁.txs, x.length = 32 :=
    fun x hx => w₁.txLen x ((sortTxs_perm s₁.txs).mem_iff.mp hx)
  have m₂ : ∀ x ∈ sortTxs s₂.txs, x.length = 32 :=
    fun x hx => w₂.txLen x ((sortTxs_perm s₂.txs).mem_iff.mp hx)
  obtain ⟨e5, h⟩ := flatten32_inj e4 m₁ m₂ h
  obtain ⟨e6, _⟩ := parse_eq (readU_append _ (by simpa using w₁.ts))
    (readU_append _ (by simpa using w₂.ts)) h
  exact ⟨e1, e2, e3, e5, e6⟩

end Mixin.SnapCodec
