import Mixin.Model.Validate
/-! Inversion lemmas for the validation model (used by Props/C01, C02, C05). -/
namespace Mixin.Validate

theorem bind_ok {α β} {x : M α} {f : α → M β} {b : β} :
    (x >>= f) = .ok b ↔ ∃ a, x = .ok a ∧ f a = .ok b := by
  cases x with
  | error e => simp [bind, Except.bind]
  | ok a => simp [bind, Except.bind]

theorem bind_panic {α β} {x : M α} {f : α → M β} {s : Site} :
    (x >>= f) = .error (.panic s) ↔ x = .error (.panic s) ∨ ∃ a, x = .ok a ∧ f a = .error (.panic s) := by
  cases x with
  | error e => simp [bind, Except.bind]
  | ok a => simp [bind, Except.bind]

@[simp] theorem guardRej_ok {c : Bool} {u : Unit} : guardRej c = .ok u ↔ c = false := by
  cases c <;> simp [guardRej, rej, pure, Except.pure]

@[simp] theorem guardRej_not_panic {c : Bool} {s : Site} : guardRej c ≠ .error (.panic s) := by
  cases c <;> simp [guardRej, rej, pure, Except.pure]

@[simp] theorem guardPan_ok {c : Bool} {s : Site} {u : Unit} : guardPan c s = .ok u ↔ c = false := by
  cases c <;> simp [guardPan, pan, pure, Except.pure]

theorem guardPan_panic {c : Bool} {s s' : Site} : guardPan c s = .error (.panic s') → c = true := by
  cases c <;> simp [guardPan, pan, pure, Except.pure]

@[simp] theorem rej_ne_ok {α} {a : α} : (rej : M α) ≠ .ok a := by simp [rej]
@[simp] theorem pan_ne_ok {α} {a : α} {s} : (pan s : M α) ≠ .ok a := by simp [pan]
@[simp] theorem rej_ne_panic {α} {s} : (rej : M α) ≠ .error (.panic s) := by simp [rej]
@[simp] theorem pure_ok {α} {a b : α} : (pure a : M α) = .ok b ↔ a = b := by simp [pure, Except.pure]
@[simp] theorem pure_ne_panic {α} {a : α} {s} : (pure a : M α) ≠ .error (.panic s) := by simp [pure, Except.pure]

theorem structural_ok {tx} {u : Unit} (h : structural tx = .ok u) :
    tx.version = Facts.Gen.common_TxVersionHashSignature ∧ 1 ≤ tx.inputs.length ∧ 1 ≤ tx.outputs.length ∧
    txType tx ≠ ttUnknown := by
  unfold structural at h
  simp only [bind_ok, guardRej_ok, guardPan_ok] at h
  obtain ⟨_, h1, _, h2, _, h3, _⟩ := h
  simp only [Bool.or_eq_false_iff, decide_eq_false_iff_not, Nat.not_lt] at h3
  simp at h1 h2
  exact ⟨h1, h3.1, h3.2, h2⟩

theorem validateM_ok {L O tx fork i o} (h : validateM L O tx fork = .ok (i, o)) :
    structural tx = .ok () ∧ sigPresence tx (txType tx) = .ok () ∧
    ∃ f, validateInputs L O tx (txType tx) fork = .ok (f, i) ∧ i ≠ 0 ∧
      validateOutputs L O tx i = .ok o ∧ dispatch L O tx (txType tx) f = .ok () := by
  unfold validateM at h
  simp only [bind_ok, guardRej_ok, pure_ok] at h
  obtain ⟨_, hs, _, hp, _, _, ⟨f, i'⟩, hi, _, hz, o', ho, _, hd, heq⟩ := h
  simp at heq hz
  obtain ⟨rfl, rfl⟩ := heq
  exact ⟨hs, hp, f, hi, hz, ho, hd⟩

def accStep (a : InAcc) (inp : Input) (u : Utxo) (ks : KeySigs) : InAcc :=
  { filter := a.filter ++ [((inp.hash, inp.index), u)], amount := a.amount + u.amount,
    allKeys := a.allKeys ++ u.keys, keySigs := a.keySigs ++ ks }

/-- what a completed pass of the input loop establishes, input by input -/
def LoopSpec (L : Ledger) (tx : Tx) (tt : Nat) : Nat → List Input → InAcc → InAcc → Prop
  | _, [], a, a' => a' = a
  | k, inp :: rest, a, a' =>
    inp.genesis = false ∧ inp.mint = none ∧ inp.deposit = none ∧
    ∃ u ks, L.utxo inp.hash inp.index = some u ∧ u.asset = tx.asset ∧ 0 < u.amount ∧
      validateUTXO k u tx tt a.allKeys.length = .ok ks ∧
      LoopSpec L tx tt (k + 1) rest (accStep a inp u ks) a'

theorem add_some {x y s : Nat} (h : Amount.add x y = some s) : 0 < y ∧ s = x + y := by
  unfold Amount.add at h
  split at h <;> simp at h
  omega

theorem loop_full {L tx tt fork} : ∀ (ins : List Input) (k : Nat) (a a' : InAcc),
    inputsLoop L tx tt fork k ins a = .ok (.full a') → LoopSpec L tx tt k ins a a' := by
  intro ins
  induction ins with
  | nil => intro k a a' h; simp [inputsLoop] at h; simp [LoopSpec, h]
  | cons inp rest ih =>
    intro k a a' h
    unfold inputsLoop at h
    split at h
    · simp at h
    · rename_i hg
      split at h
      · simp at h
      · rename_i hm
        split at h
        · simp at h
        · rename_i hd
          split at h
          · simp at h
          · split at h
            · simp at h
            · rename_i u hu
              split at h
              · simp at h
              · rename_i hasset
                split at h
                · simp at h
                · simp only [bind_ok] at h
                  obtain ⟨ks, hks, h⟩ := h
                  split at h
                  · simp at h
                  · rename_i s hs
                    obtain ⟨hpos, rfl⟩ := add_some hs
                    refine ⟨by simpa using hg, hm, hd, u, ks, hu, by simpa using hasset, hpos, hks, ?_⟩
                    exact ih _ _ _ h

def Ordinary (p : Input) : Prop := p.genesis = false ∧ p.mint = none ∧ p.deposit = none

theorem loop_early {L tx tt fork} : ∀ (ins : List Input) (k : Nat) (a : InAcc) (f : Filter) (amt : Nat),
    inputsLoop L tx tt fork k ins a = .ok (.early f amt) →
    ∃ pre inp post, ins = pre ++ inp :: post ∧ (∀ p ∈ pre, Ordinary p) ∧ inp.genesis = false ∧
      ((∃ m, inp.mint = some m ∧ amt = m.amount) ∨
       (inp.mint = none ∧ ∃ d, inp.deposit = some d ∧ amt = d.amount)) := by
  intro ins
  induction ins with
  | nil => intro k a f amt h; simp [inputsLoop] at h
  | cons inp rest ih =>
    intro k a f amt h
    unfold inputsLoop at h
    split at h
    · simp at h
    · rename_i hg
      split at h
      · rename_i m hm
        simp at h
        exact ⟨[], inp, rest, rfl, by simp, by simpa using hg, Or.inl ⟨m, hm, h.2.symm⟩⟩
      · rename_i hm
        split at h
        · rename_i d hd
          simp at h
          exact ⟨[], inp, rest, rfl, by simp, by simpa using hg, Or.inr ⟨hm, d, hd, h.2.symm⟩⟩
        · rename_i hd
          split at h
          · simp at h
          · split at h
            · simp at h
            · split at h
              · simp at h
              · split at h
                · simp at h
                · simp only [bind_ok] at h
                  obtain ⟨ks, _, h⟩ := h
                  split at h
                  · simp at h
                  · obtain ⟨pre, x, post, he, hp, hx⟩ := ih _ _ _ _ h
                    refine ⟨inp :: pre, x, post, by simp [he], ?_, hx⟩
                    intro p hp'
                    rcases List.mem_cons.1 hp' with rfl | hp'
                    · exact ⟨by simpa using hg, hm, hd⟩
                    · exact hp p hp'

theorem typeOfInputs_append {pre : List Input} (h : ∀ p ∈ pre, Ordinary p) (rest : List Input) :
    typeOfInputs (pre ++ rest) = typeOfInputs rest := by
  induction pre with
  | nil => rfl
  | cons p ps ih =>
    have hp := h p (by simp)
    simp only [List.cons_append, typeOfInputs, hp.2.1, hp.2.2, hp.1]
    simpa using ih (fun q hq => h q (by simp [hq]))

theorem outputsLoop_ok {O} : ∀ (outs : List Output) (sum : Nat) (g : List Id) (sum' : Nat) (g' : List Id),
    outputsLoop O outs sum g = .ok (sum', g') →
    sum' = sum + (outs.map (·.amount)).sum ∧ ∀ o ∈ outs, 0 < o.amount := by
  intro outs
  induction outs with
  | nil => intro sum g sum' g' h; simp [outputsLoop] at h; simp [h.1]
  | cons o os ih =>
    intro sum g sum' g' h
    unfold outputsLoop at h
    simp only [bind_ok, guardRej_ok] at h
    obtain ⟨_, _, _, _, gh, _, _, _, h⟩ := h
    split at h
    · simp at h
    · rename_i s hs
      obtain ⟨hp, rfl⟩ := add_some hs
      obtain ⟨h1, h2⟩ := ih _ _ _ _ h
      refine ⟨by simp [h1]; omega, ?_⟩
      intro x hx
      rcases List.mem_cons.1 hx with rfl | hx
      · exact hp
      · exact h2 x hx

/-- the amount an input contributes: mint amount, else deposit amount, else the spent output's -/
def inputAmount (L : Ledger) (i : Input) : Nat :=
  match i.mint with
  | some m => m.amount
  | none => match i.deposit with
    | some d => d.amount
    | none => match L.utxo i.hash i.index with
      | some u => u.amount
      | none => 0

theorem loopSpec_sum {L tx tt} : ∀ (ins : List Input) (k : Nat) (a a' : InAcc),
    LoopSpec L tx tt k ins a a' →
    a'.amount = a.amount + (ins.map (inputAmount L)).sum ∧
    ∀ inp ∈ ins, Ordinary inp ∧ ∃ u, L.utxo inp.hash inp.index = some u ∧ u.asset = tx.asset := by
  intro ins
  induction ins with
  | nil => intro k a a' h; simp [LoopSpec] at h; simp [h]
  | cons inp rest ih =>
    intro k a a' h
    obtain ⟨hg, hm, hd, u, ks, hu, hasset, _, _, hrest⟩ := h
    obtain ⟨h1, h2⟩ := ih _ _ _ hrest
    refine ⟨?_, ?_⟩
    · simp [h1, accStep, inputAmount, hm, hd, hu]; omega
    · intro x hx
      rcases List.mem_cons.1 hx with rfl | hx
      · exact ⟨⟨hg, hm, hd⟩, u, hu, hasset⟩
      · exact h2 x hx

theorem loopSpec_type {L tx tt} : ∀ (ins : List Input) (k : Nat) (a a' : InAcc),
    LoopSpec L tx tt k ins a a' → typeOfInputs ins = none := by
  intro ins k a a' h
  have := (loopSpec_sum ins k a a' h).2
  have h2 := typeOfInputs_append (pre := ins) (fun p hp => (this p hp).1) []
  simpa [typeOfInputs] using h2

/-- the two ways `validateInputs` succeeds -/
theorem validateInputs_ok {L O tx tt fork f i} (h : validateInputs L O tx tt fork = .ok (f, i)) :
    (∃ fl, inputsLoop L tx tt fork 0 tx.inputs {} = .ok (.early fl i)) ∨
    (∃ a, inputsLoop L tx tt fork 0 tx.inputs {} = .ok (.full a) ∧ f = a.filter ∧ i = a.amount) := by
  unfold validateInputs at h
  simp only [bind_ok] at h
  obtain ⟨r, hr, h⟩ := h
  cases r with
  | early fl amt =>
    simp at h
    exact Or.inl ⟨fl, by rw [hr, h.2]⟩
  | full a =>
    refine Or.inr ⟨a, hr, ?_⟩
    simp only at h
    split at h
    · simp at h; exact ⟨h.1.symm, h.2.symm⟩
    · split at h
      · simp at h
      · split at h
        · split at h
          · simp at h; exact ⟨h.1.symm, h.2.symm⟩
          · simp at h
        · split at h
          · simp at h; exact ⟨h.1.symm, h.2.symm⟩
          · simp at h

theorem validateMint_one {L tx} (h : validateMint L tx = .ok ()) : ∃ x, tx.inputs = [x] := by
  unfold validateMint at h
  split at h
  · rename_i inp hi; exact ⟨inp, hi⟩
  · simp at h

theorem validateDeposit_one {L O tx} (h : validateDeposit L O tx = .ok ()) : ∃ x, tx.inputs = [x] := by
  unfold validateDeposit at h
  simp only [bind_ok, guardRej_ok] at h
  obtain ⟨_, h1, _⟩ := h
  simp at h1
  match hl : tx.inputs, h1 with
  | [x], _ => exact ⟨x, rfl⟩

theorem dispatch_mint {L O tx f} (h : dispatch L O tx ttMint f = .ok ()) : validateMint L tx = .ok () := by
  simpa [dispatch, ttMint, ttScript, Facts.Gen.common_TransactionTypeMint, Facts.Gen.common_TransactionTypeScript] using h

theorem dispatch_deposit {L O tx f} (h : dispatch L O tx ttDeposit f = .ok ()) :
    validateDeposit L O tx = .ok () := by
  simpa [dispatch, ttMint, ttScript, ttDeposit, Facts.Gen.common_TransactionTypeMint, Facts.Gen.common_TransactionTypeScript, Facts.Gen.common_TransactionTypeDeposit] using h


theorem pan_eq_panic {α} {s s' : Site} : (pan s : M α) = .error (.panic s') ↔ s = s' := by
  simp [pan]

theorem scriptValidate_np {sc n s} : scriptValidate sc n ≠ .error (.panic s) := by
  simp [scriptValidate]

theorem validateUTXO_np {i u tx tt off s} : validateUTXO i u tx tt off ≠ .error (.panic s) := by
  intro h
  unfold validateUTXO at h
  split at h
  · split at h
    · simp only [bind_panic, guardRej_not_panic, scriptValidate_np, pure_ne_panic, false_or, and_false, exists_false] at h
    · split at h
      · simp at h
      · simp only [bind_panic, guardRej_not_panic, scriptValidate_np, pure_ne_panic, false_or, and_false, exists_false] at h
  · split at h
    · split at h <;> simp at h
    · split at h
      · split at h <;> simp at h
      · simp at h

theorem sigPresence_np {tx tt s} : sigPresence tx tt ≠ .error (.panic s) := by
  unfold sigPresence; split <;> simp

theorem validateReferences_np {L tx s} : validateReferences L tx ≠ .error (.panic s) := by
  intro h
  unfold validateReferences at h
  simp only [bind_panic, guardRej_not_panic, false_or, and_false, exists_false] at h

theorem keysLoop_np {O s} : ∀ (ks g : List Id), keysLoop O ks g ≠ .error (.panic s) := by
  intro ks
  induction ks with
  | nil => intro g; simp [keysLoop]
  | cons k ks ih =>
    intro g h
    unfold keysLoop at h
    split at h
    · simp at h
    · split at h
      · simp at h
      · exact ih _ h

theorem outputsLoop_np {O s} : ∀ (outs : List Output) (sum : Nat) (g : List Id),
    outputsLoop O outs sum g ≠ .error (.panic s) := by
  intro outs
  induction outs with
  | nil => intro sum g; simp [outputsLoop]
  | cons o os ih =>
    intro sum g h
    unfold outputsLoop at h
    simp only [bind_panic, guardRej_not_panic, keysLoop_np, false_or, guardRej_ok] at h
    obtain ⟨_, _, _, _, gh, _, _, _, h⟩ := h
    split at h
    · simp at h
    · exact ih _ _ h

theorem validateOutputs_np {L O tx i s} : validateOutputs L O tx i ≠ .error (.panic s) := by
  intro h
  unfold validateOutputs at h
  simp only [bind_panic, outputsLoop_np, guardRej_not_panic, pure_ne_panic, false_or, and_false, exists_false] at h


theorem count_some {x : Nat} (h1 : priceStep ≤ x) (h2 : x < priceStep * (extraCapacity / extraStep)) :
    ∃ c, Amount.count x priceStep = some c := by
  unfold Amount.count
  have hs : priceStep = 10000 := rfl
  have hc : extraCapacity / extraStep = 4096 := by decide
  rw [hc, hs] at h2
  rw [hs] at h1 ⊢
  have hq : x / 10000 < 2 ^ 64 := by
    have : x / 10000 < 4096 := by omega
    have : (4096 : Nat) < 2 ^ 64 := by decide
    omega
  rw [if_neg (by omega), if_neg (by omega)]
  exact ⟨_, rfl⟩

theorem getExtraLimit_np {tx s} (hv : tx.version = Facts.Gen.common_TxVersionHashSignature) :
    getExtraLimit tx ≠ .error (.panic s) := by
  intro h
  unfold getExtraLimit at h
  rw [if_neg (by simp [hv])] at h
  split at h
  · simp at h
  · split at h
    · simp at h
    · split at h
      · simp at h
      · split at h
        · simp at h
        · split at h
          · simp at h
          · split at h
            · simp at h
            · rename_i out _ _ _ h1 h2
              obtain ⟨c, hc⟩ := count_some (x := out.amount) (by omega) (by omega)
              rw [hc] at h
              simp only at h
              split at h <;> simp at h

theorem structural_np {tx s} (hp : tx.payloadSize ≤ txMaxSize) : structural tx ≠ .error (.panic s) := by
  intro h
  unfold structural at h
  simp only [bind_panic, guardRej_not_panic, false_or, guardRej_ok] at h
  obtain ⟨_, hv, _, _, _, _, _, _, _, _, h⟩ := h
  have hv' : tx.version = Facts.Gen.common_TxVersionHashSignature := by simpa using hv
  rcases h with h | ⟨_, _, _, _, h⟩
  · exact getExtraLimit_np hv' h
  · rcases h with h | ⟨_, _, h⟩
    · have := guardPan_panic h
      simp at this
      omega
    · simp at h


theorem utxo_mem {L : Ledger} {h i u} (hu : L.utxo h i = some u) : u ∈ L.utxos ∧ u.hash = h ∧ u.index = i := by
  unfold Ledger.utxo at hu
  have hm := List.mem_of_find?_eq_some hu
  have hp := List.find?_some hu
  simp at hp
  exact ⟨hm, hp.1, hp.2⟩

theorem tx_mem {L : Ledger} {h t} (ht : L.tx h = some t) : t ∈ L.txs ∧ t.hash = h := by
  unfold Ledger.tx at ht
  have hm := List.mem_of_find?_eq_some ht
  have hp := List.find?_some ht
  simp at hp
  exact ⟨hm, hp⟩

theorem add_none {x y : Nat} (h : Amount.add x y = none) : y = 0 := by
  unfold Amount.add at h
  split at h <;> simp_all

theorem loop_np {L : Ledger} {tx tt fork s} (hpos : ∀ u ∈ L.utxos, 0 < u.amount) :
    ∀ (ins : List Input) (k : Nat) (a : InAcc), inputsLoop L tx tt fork k ins a ≠ .error (.panic s) := by
  intro ins
  induction ins with
  | nil => intro k a; simp [inputsLoop]
  | cons inp rest ih =>
    intro k a h
    unfold inputsLoop at h
    split at h
    · simp at h
    · split at h
      · simp at h
      · split at h
        · simp at h
        · split at h
          · simp at h
          · split at h
            · simp at h
            · rename_i u hu
              split at h
              · simp at h
              · split at h
                · simp at h
                · simp only [bind_panic, validateUTXO_np, false_or] at h
                  obtain ⟨ks, _, h⟩ := h
                  split at h
                  · rename_i hnone
                    have := add_none hnone
                    have := hpos u (utxo_mem hu).1
                    omega
                  · exact ih _ _ h

theorem validateInputs_np {L : Ledger} {O tx tt fork s} (hpos : ∀ u ∈ L.utxos, 0 < u.amount) :
    validateInputs L O tx tt fork ≠ .error (.panic s) := by
  intro h
  unfold validateInputs at h
  simp only [bind_panic, loop_np hpos, false_or] at h
  obtain ⟨r, _, h⟩ := h
  cases r with
  | early fl amt => simp at h
  | full a =>
    simp only at h
    split at h
    · simp at h
    · split at h
      · simp at h
      · split at h
        · split at h <;> simp at h
        · split at h <;> simp at h


open Mixin.Facts.Gen
/-- ledger invariants of reachable states that `validate_total` needs -/
structure LedgerInv (L : Ledger) : Prop where
  /-- stored outputs have positive amounts (validateOutputs rejects zero) -/
  utxoPos : ∀ u ∈ L.utxos, 0 < u.amount
  /-- an unspent output's creating transaction is stored, and has that output with that type -/
  utxoTx : ∀ u ∈ L.utxos, ∃ t, L.tx u.hash = some t ∧ ∃ o, t.outputs[u.index]? = some o ∧ o.type = u.type
  /-- stored transactions have at least one output (Validate rejects empty output lists) -/
  txOutputs : ∀ t ∈ L.txs, t.outputs ≠ []
  /-- node states are one of the four written by the kernel -/
  nodeStates : ∀ n ∈ L.nodes, n.state = stPledging ∨ settled n.state = true
  /-- a pledging node records its (stored) pledge transaction -/
  pledgingTx : ∀ n ∈ L.nodes, n.state = stPledging → ∃ t, L.tx n.tx = some t ∧ t.txType = ttNodePledge
  /-- the snapshot time is not before the first custodian record (custodianEpoch ≤ ts) -/
  custodian : L.custodian.isSome = true
  /-- custodian nodes have distinct custodian addresses (ParseCustodianUpdateNodesExtra) -/
  custodianNodup : ∀ c, L.custodian = some c → (c.nodes.map (·.1)).Nodup

theorem outputTxType_vals (t : Nat) : outputTxType t ≠ ttMint ∧ outputTxType t ≠ ttDeposit := by
  unfold outputTxType
  repeat' split
  all_goals decide

theorem typeOfOutputs_vals : ∀ (outs : List Output) (b : Bool),
    typeOfOutputs outs b ≠ ttMint ∧ typeOfOutputs outs b ≠ ttDeposit := by
  intro outs
  induction outs with
  | nil => intro b; unfold typeOfOutputs; split <;> decide
  | cons o os ih =>
    intro b
    unfold typeOfOutputs
    split
    · exact outputTxType_vals _
    · exact ih _

theorem typeOfInputs_vals : ∀ (ins : List Input) (t : Nat), typeOfInputs ins = some t →
    t = ttMint ∨ t = ttDeposit ∨ t = ttUnknown := by
  intro ins
  induction ins with
  | nil => intro t h; simp [typeOfInputs] at h
  | cons i is ih =>
    intro t h
    unfold typeOfInputs at h
    split at h
    · simp at h; exact Or.inl h.symm
    · split at h
      · simp at h; exact Or.inr (Or.inl h.symm)
      · split at h
        · simp at h; exact Or.inr (Or.inr h.symm)
        · exact ih t h

/-- a transaction whose type is none of mint / deposit / unknown has only ordinary inputs -/
theorem typeOfInputs_none {tx : Tx} (h1 : txType tx ≠ ttMint) (h2 : txType tx ≠ ttDeposit)
    (h3 : txType tx ≠ ttUnknown) : typeOfInputs tx.inputs = none := by
  cases h : typeOfInputs tx.inputs with
  | none => rfl
  | some t =>
    have := typeOfInputs_vals _ _ h
    simp [txType, h] at h1 h2 h3
    omega

theorem single_mint {tx : Tx} {x} (hx : tx.inputs = [x]) (ht : txType tx = ttMint) : x.mint.isSome = true := by
  by_cases hm : x.mint.isSome = true
  · exact hm
  · exfalso
    unfold txType at ht
    rw [hx] at ht
    by_cases hd : x.deposit.isSome = true
    · simp [typeOfInputs, hm, hd] at ht; revert ht; decide
    · by_cases hg : x.genesis = true
      · simp [typeOfInputs, hm, hd, hg] at ht; revert ht; decide
      · simp [typeOfInputs, hm, hd, hg] at ht
        exact (typeOfOutputs_vals _ _).1 ht

theorem single_deposit {tx : Tx} {x} (hx : tx.inputs = [x]) (ht : txType tx = ttDeposit) :
    x.deposit.isSome = true := by
  by_cases hd : x.deposit.isSome = true
  · exact hd
  · exfalso
    unfold txType at ht
    rw [hx] at ht
    by_cases hm : x.mint.isSome = true
    · simp [typeOfInputs, hm] at ht; revert ht; decide
    · by_cases hg : x.genesis = true
      · simp [typeOfInputs, hm, hd, hg] at ht; revert ht; decide
      · simp [typeOfInputs, hm, hd, hg] at ht
        exact (typeOfOutputs_vals _ _).2 ht

/-- the early return of the input loop happens only in mint / deposit typed transactions -/
theorem early_type {L tx fork fl i}
    (hl : inputsLoop L tx (txType tx) fork 0 tx.inputs {} = .ok (.early fl i)) :
    txType tx = ttMint ∨ txType tx = ttDeposit := by
  obtain ⟨pre, x, post, he, hpre, _, hx⟩ := loop_early _ _ _ _ _ hl
  have htype : typeOfInputs tx.inputs = typeOfInputs (x :: post) := by
    rw [he]; exact typeOfInputs_append hpre _
  rcases hx with ⟨m, hm, _⟩ | ⟨hm, d, hdp, _⟩
  · left; simp [txType, htype, typeOfInputs, hm]
  · right; simp [txType, htype, typeOfInputs, hm, hdp]


theorem validateScript_np {f s} : validateScript f ≠ .error (.panic s) := by simp [validateScript]

theorem validateMint_np {L tx s} (ht : txType tx = ttMint) : validateMint L tx ≠ .error (.panic s) := by
  intro h
  unfold validateMint at h
  split at h
  · rename_i inp hi
    have hm := single_mint hi ht
    simp only [bind_panic, guardRej_not_panic, false_or] at h
    obtain ⟨_, _, _, _, h⟩ := h
    split at h
    · simp_all
    · simp only [bind_panic, guardRej_not_panic, false_or] at h
      obtain ⟨_, _, h⟩ := h
      split at h
      · simp at h
      · split at h
        · simp at h
        · split at h <;> simp at h
  · simp at h

theorem verifyDepositData_np {L tx s x} (hx : tx.inputs = [x]) (hd : x.deposit.isSome = true) :
    verifyDepositData L tx ≠ .error (.panic s) := by
  intro h
  unfold verifyDepositData at h
  simp only [hx, List.head?_cons] at h
  obtain ⟨d, hd'⟩ := Option.isSome_iff_exists.1 hd
  simp only [hd'] at h
  simp only [bind_panic, guardRej_not_panic, false_or, guardRej_ok] at h
  obtain ⟨_, _, _, hz, _, _, h⟩ := h
  split at h
  · simp at h
  · split at h
    · rename_i hn
      have := add_none hn
      simp at hz
      omega
    · simp only [bind_panic, guardRej_not_panic, false_or, and_false, exists_false] at h

theorem validateDeposit_np {L : Ledger} {O tx s} (ht : txType tx = ttDeposit) (hc : L.custodian.isSome = true) :
    validateDeposit L O tx ≠ .error (.panic s) := by
  intro h
  unfold validateDeposit at h
  simp only [bind_panic, guardRej_not_panic, false_or, guardRej_ok] at h
  obtain ⟨_, h1, _, _, _, _, h⟩ := h
  have hx : ∃ x, tx.inputs = [x] := by
    simp at h1
    match hl : tx.inputs, h1 with
    | [x], _ => exact ⟨x, rfl⟩
  obtain ⟨x, hx⟩ := hx
  have hd := single_deposit hx ht
  split at h
  · simp at h
  · simp only [bind_panic, verifyDepositData_np hx hd, false_or] at h
    obtain ⟨_, _, h⟩ := h
    split at h
    · simp at h
    · split at h
      · simp_all
      · simp only [bind_panic, guardRej_not_panic, false_or] at h
        obtain ⟨_, _, h⟩ := h
        obtain ⟨d, hd'⟩ := Option.isSome_iff_exists.1 hd
        simp only [hx, List.head?_cons, Option.bind_some, hd'] at h
        split at h <;> simp at h

theorem validateWithdrawalSubmit_np {tx f s} (ho : 1 ≤ tx.outputs.length) :
    validateWithdrawalSubmit tx f ≠ .error (.panic s) := by
  intro h
  unfold validateWithdrawalSubmit at h
  simp only [bind_panic, guardRej_not_panic, false_or] at h
  obtain ⟨_, _, _, _, h⟩ := h
  split at h
  · rename_i hn
    cases ht : tx.outputs with
    | nil => simp [ht] at ho
    | cons a b => simp [ht] at hn
  · simp only [bind_panic, guardRej_not_panic, false_or, and_false, exists_false] at h

theorem validateWithdrawalClaim_np {L : Ledger} {O tx f s} (ho : 1 ≤ tx.outputs.length)
    (hc : L.custodian.isSome = true) (hto : ∀ t ∈ L.txs, t.outputs ≠ []) :
    validateWithdrawalClaim L O tx f ≠ .error (.panic s) := by
  intro h
  unfold validateWithdrawalClaim at h
  simp only [bind_panic, guardRej_not_panic, false_or] at h
  obtain ⟨_, _, _, _, _, _, h⟩ := h
  split at h
  · split at h
    · rename_i hn
      cases ht : tx.outputs with
      | nil => simp [ht] at ho
      | cons a b => simp [ht] at hn
    · simp only [bind_panic, guardRej_not_panic, false_or] at h
      obtain ⟨_, _, _, _, h⟩ := h
      split at h
      · simp at h
      · rename_i submit hs
        split at h
        · rename_i hn
          have := hto submit (tx_mem hs).1
          cases hso : submit.outputs with
          | nil => exact this hso
          | cons a b => simp [hso] at hn
        · simp only [bind_panic, guardRej_not_panic, false_or] at h
          obtain ⟨_, _, _, _, h⟩ := h
          split at h
          · simp_all
          · simp at h
  · simp at h


/-- a completed input loop over a single input -/
theorem loop_single {L tx tt fork inp a} (hx : tx.inputs = [inp])
    (hl : inputsLoop L tx tt fork 0 tx.inputs {} = .ok (.full a)) :
    ∃ u ks, L.utxo inp.hash inp.index = some u ∧ validateUTXO 0 u tx tt 0 = .ok ks ∧
      a.filter = [((inp.hash, inp.index), u)] ∧ a.keySigs = ks := by
  have h := loop_full _ _ _ _ hl
  rw [hx] at h
  obtain ⟨_, _, _, u, ks, hu, _, _, hv, hrest⟩ := h
  simp [LoopSpec] at hrest
  subst hrest
  exact ⟨u, ks, hu, by simpa using hv, by simp [accStep], by simp [accStep]⟩

/-- a non-mint, non-deposit transaction that passed validateInputs completed the loop -/
theorem inputs_full {L O tx fork f i} (h : validateInputs L O tx (txType tx) fork = .ok (f, i))
    (h1 : txType tx ≠ ttMint) (h2 : txType tx ≠ ttDeposit) :
    ∃ a, inputsLoop L tx (txType tx) fork 0 tx.inputs {} = .ok (.full a) ∧ f = a.filter ∧ i = a.amount := by
  rcases validateInputs_ok h with ⟨fl, hl⟩ | h
  · rcases early_type hl with h | h <;> contradiction
  · exact h

theorem validateNodePledge_np {L O tx fork f i s}
    (hin : validateInputs L O tx (txType tx) fork = .ok (f, i)) (ht : txType tx = ttNodePledge) :
    validateNodePledge L O tx f ≠ .error (.panic s) := by
  intro h
  obtain ⟨a, hl, hf, _⟩ := inputs_full hin (by rw [ht]; decide) (by rw [ht]; decide)
  unfold validateNodePledge at h
  simp only [bind_panic, guardRej_not_panic, false_or, guardRej_ok] at h
  obtain ⟨_, _, _, _, _, h3, h⟩ := h
  simp at h3
  obtain ⟨x, hx⟩ : ∃ x, tx.inputs = [x] := by
    match hl' : tx.inputs, h3.1 with
    | [x], _ => exact ⟨x, rfl⟩
  obtain ⟨u, ks, _, _, hfil, _⟩ := loop_single hx hl
  simp only [hx, List.head?_cons, hf, hfil] at h
  simp only [List.find?_cons, BEq.rfl] at h
  simp only [bind_panic, guardRej_not_panic, false_or, and_false, exists_false] at h

/-- the node scan never dereferences nil when every state is one the kernel writes, and it
    returns a member in PLEDGING state -/
theorem findPledging_spec {site : Site} : ∀ (nodes : List NodeRec) (p : Option NodeRec),
    (∀ n ∈ nodes, n.state = stPledging ∨ settled n.state = true) →
    (∀ s, findPledging site nodes p ≠ .error (.panic s)) ∧
    (∀ r, findPledging site nodes p = .ok (some r) → p = some r ∨ (r ∈ nodes ∧ r.state = stPledging)) := by
  intro nodes
  induction nodes with
  | nil => intro p _; simp [findPledging]
  | cons n ns ih =>
    intro p hst
    have hn := hst n (by simp)
    have ih' := fun p => ih p (fun m hm => hst m (by simp [hm]))
    unfold findPledging
    split
    · refine ⟨(ih' p).1, fun r hr => ?_⟩
      rcases (ih' p).2 r hr with h | h
      · exact Or.inl h
      · exact Or.inr ⟨by simp [h.1], h.2⟩
    · rename_i hns
      rcases hn with hn | hn
      · split
        · refine ⟨(ih' _).1, fun r hr => ?_⟩
          rcases (ih' _).2 r hr with h | h
          · simp at h; subst h; exact Or.inr ⟨by simp, hn⟩
          · exact Or.inr ⟨by simp [h.1], h.2⟩
        · rename_i hc
          have hp : p.isNone = false := by
            cases p <;> simp_all
          simp [hp]
      · simp_all

theorem validateNodeAccept_np {L : Ledger} {O tx s} (hI : LedgerInv L) :
    validateNodeAccept L O tx ≠ .error (.panic s) := by
  intro h
  unfold validateNodeAccept at h
  simp only [bind_panic, guardRej_not_panic, false_or] at h
  obtain ⟨_, _, _, _, _, _, h⟩ := h
  split at h
  · rename_i sig inp _ _
    have hfp := findPledging_spec (site := .validateNodeAccept) L.nodes none hI.nodeStates
    simp only [bind_panic, hfp.1, false_or] at h
    obtain ⟨r, hr, h⟩ := h
    cases r with
    | none => simp at h
    | some pledging =>
      rcases hfp.2 pledging hr with hc | ⟨hmem, hst⟩
      · simp at hc
      · obtain ⟨t, ht, htt⟩ := hI.pledgingTx pledging hmem hst
        simp only [bind_panic, guardRej_not_panic, false_or, guardRej_ok] at h
        obtain ⟨_, heq, h⟩ := h
        simp at heq
        rw [← heq, ht] at h
        simp only at h
        split at h
        · simp only [bind_panic, guardRej_not_panic, false_or] at h
          obtain ⟨_, _, h⟩ := h
          rw [htt] at h
          simp only [bind_panic, guardRej_not_panic, false_or, and_false, exists_false, BEq.rfl, Bool.true_or,
            Bool.not_true, Bool.false_eq_true, if_false] at h
        · simp at h
  · simp at h


theorem validateNodeRemove_np {L : Ledger} {O tx fork f i s} (hI : LedgerInv L)
    (hin : validateInputs L O tx (txType tx) fork = .ok (f, i)) (ht : txType tx = ttNodeRemove) :
    validateNodeRemove L tx ≠ .error (.panic s) := by
  intro h
  obtain ⟨a, hl, _, _⟩ := inputs_full hin (by rw [ht]; decide) (by rw [ht]; decide)
  unfold validateNodeRemove at h
  simp only [bind_panic, guardRej_not_panic, false_or] at h
  obtain ⟨_, _, _, _, _, _, h⟩ := h
  split at h
  · rename_i inp hx
    obtain ⟨u, ks, hu, _, _, _⟩ := loop_single hx hl
    obtain ⟨hm, hh, _⟩ := utxo_mem hu
    obtain ⟨t, htx, _⟩ := hI.utxoTx u hm
    rw [hh] at htx
    rw [htx] at h
    simp only [bind_panic, guardRej_not_panic, false_or] at h
    obtain ⟨_, _, h⟩ := h
    split at h
    · simp only [bind_panic, guardRej_not_panic, false_or, and_false, exists_false] at h
    · simp at h
  · simp at h

theorem nodup_reverse' {α} {l : List α} (h : l.Nodup) : l.reverse.Nodup := by
  unfold List.Nodup at *
  exact List.pairwise_reverse.2 (h.imp (fun hab => Ne.symm hab))

theorem mapOf_keys : ∀ (l : List (Id × Id)) (e : Id × Id), e ∈ mapOf l → e.1 ∈ l.map (·.1) := by
  intro l
  induction l with
  | nil => intro e h; simp [mapOf] at h
  | cons kv r ih =>
    intro e h
    obtain ⟨k, v⟩ := kv
    simp only [mapOf, List.mem_cons, List.mem_filter] at h
    rcases h with h | ⟨h, _⟩
    · simp [h]
    · simp only [List.map_cons, List.mem_cons]; exact Or.inr (ih e h)

theorem mapOf_length : ∀ (l : List (Id × Id)), (l.map (·.1)).Nodup → (mapOf l).length = l.length := by
  intro l
  induction l with
  | nil => intro _; rfl
  | cons kv r ih =>
    intro h
    obtain ⟨k, v⟩ := kv
    simp only [List.map_cons, List.nodup_cons] at h
    have hf : (mapOf r).filter (fun e => e.1 != k) = mapOf r := by
      apply List.filter_eq_self.2
      intro e he
      have := mapOf_keys r e he
      have hne : e.1 ≠ k := fun hc => h.1 (hc ▸ this)
      simpa using hne
    simp [mapOf, hf, ih h.2]

theorem validateCustodianUpdateNodes_np {L : Ledger} {O tx s} (hI : LedgerInv L) :
    validateCustodianUpdateNodes L O tx ≠ .error (.panic s) := by
  intro h
  unfold validateCustodianUpdateNodes at h
  simp only [bind_panic, guardRej_not_panic, false_or] at h
  obtain ⟨_, _, _, _, h⟩ := h
  split at h
  · simp only [bind_panic, guardRej_not_panic, false_or] at h
    obtain ⟨_, _, _, _, h⟩ := h
    split at h
    · simp at h
    · simp only [bind_panic, guardRej_not_panic, false_or] at h
      obtain ⟨_, _, h⟩ := h
      split at h
      · simp at h
      · rename_i prev hp
        simp only [bind_panic, guardRej_not_panic, false_or] at h
        obtain ⟨_, _, h⟩ := h
        have hnd := hI.custodianNodup prev hp
        have hlen : (mapOfLast prev.nodes).length = prev.nodes.length := by
          unfold mapOfLast
          rw [mapOf_length _ (by rw [List.map_reverse]; exact nodup_reverse' hnd)]
          simp
        simp only [hlen, bne_self_eq_false, Bool.false_eq_true, if_false] at h
        simp only [bind_panic, guardRej_not_panic, false_or] at h
        obtain ⟨_, _, h⟩ := h
        split at h
        · simp at h
        · simp at h
  · simp at h


theorem validateInputs_keysigs {L O tx tt fork f i a}
    (h : validateInputs L O tx tt fork = .ok (f, i))
    (hl : inputsLoop L tx tt fork 0 tx.inputs {} = .ok (.full a))
    (h1 : tt ≠ ttNodeAccept) (h2 : tt ≠ ttNodeRemove) : tx.inputs.length ≤ a.keySigs.length := by
  unfold validateInputs at h
  simp only [bind_ok] at h
  obtain ⟨r, hr, h⟩ := h
  rw [hl] at hr
  cases hr
  simp only at h
  split at h
  · rename_i hc; simp at hc; rcases hc.2 with hc | hc <;> contradiction
  · split at h
    · simp at h
    · omega

theorem validateUTXO_collects {k u tx tt off ks} (h : validateUTXO k u tx tt off = .ok ks) (hne : ks ≠ []) :
    u.type = otScript ∨ u.type = otNodeRemove := by
  unfold validateUTXO at h
  split at h
  · rename_i hc; simpa using hc
  · split at h
    · split at h <;> simp at h; exact absurd h hne
    · split at h
      · split at h <;> simp at h; exact absurd h hne
      · simp at h

theorem validateNodeCancel_np {L : Ledger} {O tx fork f i s} (hI : LedgerInv L)
    (hin : validateInputs L O tx (txType tx) fork = .ok (f, i)) (ht : txType tx = ttNodeCancel) :
    validateNodeCancel L O tx ≠ .error (.panic s) := by
  intro h
  obtain ⟨a, hl, _, _⟩ := inputs_full hin (by rw [ht]; decide) (by rw [ht]; decide)
  have hks := validateInputs_keysigs hin hl (by rw [ht]; decide) (by rw [ht]; decide)
  unfold validateNodeCancel at h
  simp only [bind_panic, guardRej_not_panic, false_or] at h
  obtain ⟨_, _, _, _, _, _, h⟩ := h
  split at h
  · rename_i sig cancel script inp _ _ hx
    -- the single input is an ordinary (signed) output, so its creating transaction cannot be a pledge
    obtain ⟨u, ks, hu, hv, _, hk⟩ := loop_single hx hl
    have hne : ks ≠ [] := by
      intro hc; rw [hx, hk, hc] at hks; simp at hks
    have hty := validateUTXO_collects hv hne
    obtain ⟨hm, hh, _⟩ := utxo_mem hu
    obtain ⟨t', htx', o, ho, hot⟩ := hI.utxoTx u hm
    rw [hh] at htx'
    simp only [bind_panic, guardRej_not_panic, false_or] at h
    obtain ⟨_, _, _, _, _, _, _, _, h⟩ := h
    have hfp := findPledging_spec (site := .validateNodeCancel) L.nodes none hI.nodeStates
    simp only [hfp.1, false_or] at h
    obtain ⟨r, hr, h⟩ := h
    cases r with
    | none => simp at h
    | some pledging =>
      simp only [bind_panic, guardRej_not_panic, false_or, guardRej_ok] at h
      obtain ⟨_, _, h⟩ := h
      rw [htx'] at h
      simp only at h
      split at h
      · rename_i po hpo
        simp only [bind_panic, guardRej_not_panic, false_or, guardRej_ok] at h
        obtain ⟨_, hpt, _⟩ := h
        rw [hpo] at ho
        have : o = po := by
          cases hi : u.index with
          | zero => simp [hi] at ho; exact ho.symm
          | succ n => simp [hi] at ho
        subst this
        simp at hpt
        rw [hpt] at hot
        rcases hty with h' | h' <;> (rw [h'] at hot; revert hot; decide)
      · simp at h
  · simp at h


def IsOrdinaryUtxo (u : Utxo) : Prop := u.type = otScript ∨ u.type = otNodeRemove

def keysOf (L : Ledger) (inp : Input) : List Id :=
  match L.utxo inp.hash inp.index with
  | some u => u.keys
  | none => []

/-- the concatenated key list `allKeys` of validateInputs -/
def allKeysOf (L : Ledger) (ins : List Input) : List Id := (ins.map (keysOf L)).flatten

/-- where input `j`'s keys start in the concatenated list -/
def offsetAt (L : Ledger) (ins : List Input) (j : Nat) : Nat := (allKeysOf L (ins.take j)).length

theorem loopSpec_keys {L tx tt} : ∀ (ins : List Input) (k : Nat) (a a' : InAcc),
    LoopSpec L tx tt k ins a a' →
    a'.allKeys = a.allKeys ++ allKeysOf L ins ∧ (∀ e ∈ a.keySigs, e ∈ a'.keySigs) ∧
    (a'.keySigs = [] → a.keySigs = []) ∧
    ∀ j inp, ins[j]? = some inp → ∃ u ks, L.utxo inp.hash inp.index = some u ∧
      validateUTXO (k + j) u tx tt (a.allKeys.length + offsetAt L ins j) = .ok ks ∧
      (∀ e ∈ ks, e ∈ a'.keySigs) := by
  intro ins
  induction ins with
  | nil => intro k a a' h; simp [LoopSpec] at h; subst h; simp [allKeysOf]
  | cons x rest ih =>
    intro k a a' h
    obtain ⟨_, _, _, u, ks, hu, _, _, hv, hrest⟩ := h
    obtain ⟨h1, h2, h3, h4⟩ := ih _ _ _ hrest
    have hk : keysOf L x = u.keys := by simp [keysOf, hu]
    refine ⟨?_, ?_, ?_, ?_⟩
    · simp [h1, accStep, allKeysOf, hk]
    · intro e he; exact h2 e (by simp [accStep, he])
    · intro hn; have := h3 hn; simp [accStep] at this; exact this.1
    · intro j inp hj
      cases j with
      | zero =>
        simp at hj; subst hj
        refine ⟨u, ks, hu, ?_, ?_⟩
        · simpa [offsetAt, allKeysOf] using hv
        · intro e he; exact h2 e (by simp [accStep, he])
      | succ j =>
        simp at hj
        obtain ⟨u', ks', hu', hv', hs'⟩ := h4 j inp hj
        refine ⟨u', ks', hu', ?_, hs'⟩
        have : (accStep a x u ks).allKeys.length + offsetAt L rest j = a.allKeys.length + offsetAt L (x :: rest) (j + 1) := by
          simp [accStep, offsetAt, allKeysOf, hk]; omega
        rw [← this, show k + (j + 1) = k + 1 + j by omega]
        exact hv'

/-- the per-input signature-map branch of validateUTXO -/
theorem validateUTXO_maps {k u tx tt off ks} (h : validateUTXO k u tx tt off = .ok ks) (hu : IsOrdinaryUtxo u)
    (hagg : tx.agg = none) :
    ∃ m, (tx.sigs.getD [])[k]? = some m ∧ (∀ p ∈ m, p.1 < u.keys.length) ∧ scriptFormatOk u.script = true ∧
      scriptThreshold u.script ≤ m.length ∧ ks = m.map (fun p => (u.keys.getD p.1 0, some p.2)) := by
  unfold validateUTXO at h
  have hc : (u.type == otScript || u.type == otNodeRemove) = true := by
    rcases hu with h' | h' <;> simp [h']
  rw [if_pos hc, hagg] at h
  simp only at h
  split at h
  · simp at h
  · rename_i m hm
    simp only [bind_ok, guardRej_ok, pure_ok, scriptValidate] at h
    obtain ⟨_, h1, _, h2, h3⟩ := h
    simp at h1 h2
    exact ⟨m, hm, fun p hp => h1 p.1 p.2 hp, h2.1, h2.2, h3.symm⟩

/-- the aggregate branch of validateUTXO -/
theorem validateUTXO_agg {k u tx tt off ks signers sig} (h : validateUTXO k u tx tt off = .ok ks)
    (hu : IsOrdinaryUtxo u) (hagg : tx.agg = some (signers, sig)) :
    signersOk signers = true ∧ scriptFormatOk u.script = true ∧
    scriptThreshold u.script ≤ (aggCollect u.keys off signers).length ∧
    ks = (aggCollect u.keys off signers).map (fun k => (k, none)) := by
  unfold validateUTXO at h
  have hc : (u.type == otScript || u.type == otNodeRemove) = true := by
    rcases hu with h' | h' <;> simp [h']
  rw [if_pos hc, hagg] at h
  simp only [bind_ok, guardRej_ok, pure_ok, scriptValidate] at h
  obtain ⟨_, h1, _, h2, h3⟩ := h
  simp at h1 h2
  exact ⟨h1, h2.1, h2.2, h3.symm⟩

def inRange (off len m : Nat) : Bool := off ≤ m && m < off + len

theorem incFrom_lt : ∀ (ms : List Nat) (m : Nat), incFrom (some m) ms = true → ∀ x ∈ ms, m < x := by
  intro ms
  induction ms with
  | nil => intro m _ x hx; simp at hx
  | cons y ys ih =>
    intro m h x hx
    simp [incFrom] at h
    rcases List.mem_cons.1 hx with rfl | hx
    · exact h.1.1
    · have := ih y h.2 x hx; omega

theorem incFrom_tail : ∀ (ms : List Nat) (p : Option Nat) (m : Nat), incFrom p (m :: ms) = true →
    incFrom (some m) ms = true := by
  intro ms p m h
  cases p <;> simp [incFrom] at h <;> exact h.2

/-- on a strictly increasing signer list the loop with `break` counts exactly the signers in range -/
theorem aggCollect_length (keys : List Id) (off : Nat) : ∀ (ms : List Nat) (p : Option Nat), incFrom p ms = true →
    (aggCollect keys off ms).length = (ms.filter (inRange off keys.length)).length := by
  intro ms
  induction ms with
  | nil => intro p _; simp [aggCollect]
  | cons m ms ih =>
    intro p h
    have ht := incFrom_tail ms p m h
    unfold aggCollect
    split
    · rename_i hge
      have : ∀ x ∈ m :: ms, inRange off keys.length x = false := by
        intro x hx
        rcases List.mem_cons.1 hx with rfl | hx
        · simp [inRange]; omega
        · have := incFrom_lt ms m ht x hx; simp [inRange]; omega
      rw [List.filter_eq_nil_iff.2 (by simpa using this)]
    · split
      · rename_i hlt
        have : inRange off keys.length m = false := by simp [inRange]; omega
        simp [this, ih _ ht]
      · have : inRange off keys.length m = true := by simp [inRange]; omega
        simp [this, ih _ ht]


theorem validateInputs_verified {L O tx tt fork f i a}
    (h : validateInputs L O tx tt fork = .ok (f, i))
    (hl : inputsLoop L tx tt fork 0 tx.inputs {} = .ok (.full a)) :
    a.keySigs = [] ∨
    match tx.agg with
    | some (signers, sig) => O.aggVerify a.allKeys signers sig = true
    | none => ∀ e ∈ a.keySigs, ∃ s, e.2 = some s ∧ O.verify e.1 s = true := by
  unfold validateInputs at h
  simp only [bind_ok] at h
  obtain ⟨r, hr, h⟩ := h
  rw [hl] at hr
  cases hr
  simp only at h
  split at h
  · rename_i hc; simp at hc; exact Or.inl hc.1
  · split at h
    · simp at h
    · right
      split at h
      · rename_i signers sig hagg
        rw [hagg]
        split at h
        · assumption
        · simp at h
      · rename_i hagg
        rw [hagg]
        split at h
        · rename_i hall
          intro e he
          have := List.all_eq_true.1 hall e he
          split at this
          · rename_i s hs; exact ⟨s, hs, this⟩
          · simp at this
        · simp at h


def inputKey (i : Input) : Id × Nat := (i.hash, i.index)

/-- the duplicate-input filter: the keys of a completed loop's filter are the old keys followed by
    the inputs' keys, and stay duplicate-free -/
theorem loop_filter_nodup {L tx tt fork} : ∀ (ins : List Input) (k : Nat) (a a' : InAcc),
    inputsLoop L tx tt fork k ins a = .ok (.full a') →
    a'.filter.map (·.1) = a.filter.map (·.1) ++ ins.map inputKey ∧
    ((a.filter.map (·.1)).Nodup → (a'.filter.map (·.1)).Nodup) := by
  intro ins
  induction ins with
  | nil => intro k a a' h; simp [inputsLoop] at h; subst h; simp
  | cons inp rest ih =>
    intro k a a' h
    unfold inputsLoop at h
    split at h
    · simp at h
    · split at h
      · simp at h
      · split at h
        · simp at h
        · split at h
          · simp at h
          · rename_i hfind
            split at h
            · simp at h
            · rename_i u hu
              split at h
              · simp at h
              · split at h
                · simp at h
                · simp only [bind_ok] at h
                  obtain ⟨ks, _, h⟩ := h
                  split at h
                  · simp at h
                  · obtain ⟨h1, h2⟩ := ih _ _ _ h
                    refine ⟨by simp [h1, inputKey], fun hnd => h2 ?_⟩
                    simp only [List.map_append, List.map_cons, List.map_nil]
                    have hnot : (inp.hash, inp.index) ∉ a.filter.map (·.1) := by
                      intro hmem
                      obtain ⟨e, he, hek⟩ := List.mem_map.1 hmem
                      apply hfind
                      rw [List.find?_isSome]
                      exact ⟨e, he, by simp [hek]⟩
                    rw [List.nodup_append]
                    refine ⟨hnd, by simp, ?_⟩
                    intro x hx y hy
                    simp at hy
                    subst hy
                    intro hxy; subst hxy; exact hnot hx


end Mixin.Validate
