import Mixin.Model.Validate
/-! Inversion lemmas for the validation model (used by Props/C01, C02, C05). -/
namespace Mixin.Validate

theorem bind_ok {α β} {x : M α} {f : α → M β} {b : β} :
    (x >>= f) = .ok b ↔ ∃ a, x = .ok a ∧ f a = .ok b := by
  cases x with
  | error e => simp [bind, Except.bind]
  | ok a => simp [bind, Except.bind]

theorem bind_panic {α β} {x : M α} {f : α → M β} {s : Site} :
    (x >>= f) = .error (.panic s) ↔ x = .error (.panic s) ∨ ∃ a, x = .ok a ∧ f a = .error (.panic s) := by
  cases x with
  | error e => simp [bind, Except.bind]
  | ok a => simp [bind, Except.bind]

@[simp] theorem guardRej_ok {c : Bool} {u : Unit} : guardRej c = .ok u ↔ c = false := by
  cases c <;> simp [guardRej, rej, pure, Except.pure]

@[simp] theorem guardRej_not_panic {c : Bool} {s : Site} : guardRej c ≠ .error (.panic s) := by
  cases c <;> simp [guardRej, rej, pure, Except.pure]

@[simp] theorem guardPan_ok {c : Bool} {s : Site} {u : Unit} : guardPan c s = .ok u ↔ c = false := by
  cases c <;> simp [guardPan, pan, pure, Except.pure]

theorem guardPan_panic {c : Bool} {s s' : Site} : guardPan c s = .error (.panic s') → c = true := by
  cases c <;> simp [guardPan, pan, pure, Except.pure]

@[simp] theorem rej_ne_ok {α} {a : α} : (rej : M α) ≠ .ok a := by simp [rej]
@[simp] theorem pan_ne_ok {α} {a : α} {s} : (pan s : M α) ≠ .ok a := by simp [pan]
@[simp] theorem rej_ne_panic {α} {s} : (rej : M α) ≠ .error (.panic s) := by simp [rej]
@[simp] theorem pure_ok {α} {a b : α} : (pure a : M α) = .ok b ↔ a = b := by simp [pure, Except.pure]
@[simp] theorem pure_ne_panic {α} {a : α} {s} : (pure a : M α) ≠ .error (.panic s) := by simp [pure, Except.pure]

end Mixin.Validate
