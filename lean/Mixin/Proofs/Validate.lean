import Mixin.Model.Validate
/-! Inversion lemmas for the validation model (used by Props/C01, C02, C05). -/
namespace Mixin.Validate

theorem bind_ok {α β} {x : M α} {f : α → M β} {b : β} :
    (x >>= f) = .ok b ↔ ∃ a, x = .ok a ∧ f a = .ok b := by
  cases x with
  | error e => simp [bind, Except.bind]
  | ok a => simp [bind, Except.bind]

theorem bind_panic {α β} {x : M α} {f : α → M β} {s : Site} :
    (x >>= f) = .error (.panic s) ↔ x = .error (.panic s) ∨ ∃ a, x = .ok a ∧ f a = .error (.panic s) := by
  cases x with
  | error e => simp [bind, Except.bind]
  | ok a => simp [bind, Except.bind]

@[simp] theorem guardRej_ok {c : Bool} {u : Unit} : guardRej c = .ok u ↔ c = false := by
  cases c <;> simp [guardRej, rej, pure, Except.pure]

@[simp] theorem guardRej_not_panic {c : Bool} {s : Site} : guardRej c ≠ .error (.panic s) := by
  cases c <;> simp [guardRej, rej, pure, Except.pure]

@[simp] theorem guardPan_ok {c : Bool} {s : Site} {u : Unit} : guardPan c s = .ok u ↔ c = false := by
  cases c <;> simp [guardPan, pan, pure, Except.pure]

theorem guardPan_panic {c : Bool} {s s' : Site} : guardPan c s = .error (.panic s') → c = true := by
  cases c <;> simp [guardPan, pan, pure, Except.pure]

@[simp] theorem rej_ne_ok {α} {a : α} : (rej : M α) ≠ .ok a := by simp [rej]
@[simp] theorem pan_ne_ok {α} {a : α} {s} : (pan s : M α) ≠ .ok a := by simp [pan]
@[simp] theorem rej_ne_panic {α} {s} : (rej : M α) ≠ .error (.panic s) := by simp [rej]
@[simp] theorem pure_ok {α} {a b : α} : (pure a : M α) = .ok b ↔ a = b := by simp [pure, Except.pure]
@[simp] theorem pure_ne_panic {α} {a : α} {s} : (pure a : M α) ≠ .error (.panic s) := by simp [pure, Except.pure]

theorem structural_ok {tx} {u : Unit} (h : structural tx = .ok u) :
    tx.version = Facts.Gen.common_TxVersionHashSignature ∧ 1 ≤ tx.inputs.length ∧ 1 ≤ tx.outputs.length ∧
    txType tx ≠ ttUnknown := by
  unfold structural at h
  simp only [bind_ok, guardRej_ok, guardPan_ok] at h
  obtain ⟨_, h1, _, h2, _, h3, _⟩ := h
  simp only [Bool.or_eq_false_iff, decide_eq_false_iff_not, Nat.not_lt] at h3
  simp at h1 h2
  exact ⟨h1, h3.1, h3.2, h2⟩

theorem validateM_ok {L O tx fork i o} (h : validateM L O tx fork = .ok (i, o)) :
    structural tx = .ok () ∧ sigPresence tx (txType tx) = .ok () ∧
    ∃ f, validateInputs L O tx (txType tx) fork = .ok (f, i) ∧ i ≠ 0 ∧
      validateOutputs L O tx i = .ok o ∧ dispatch L O tx (txType tx) f = .ok () := by
  unfold validateM at h
  simp only [bind_ok, guardRej_ok, pure_ok] at h
  obtain ⟨_, hs, _, hp, _, _, ⟨f, i'⟩, hi, _, hz, o', ho, _, hd, heq⟩ := h
  simp at heq hz
  obtain ⟨rfl, rfl⟩ := heq
  exact ⟨hs, hp, f, hi, hz, ho, hd⟩

def accStep (a : InAcc) (inp : Input) (u : Utxo) (ks : KeySigs) : InAcc :=
  { filter := a.filter ++ [((inp.hash, inp.index), u)], amount := a.amount + u.amount,
    allKeys := a.allKeys ++ u.keys, keySigs := a.keySigs ++ ks }

/-- what a completed pass of the input loop establishes, input by input -/
def LoopSpec (L : Ledger) (tx : Tx) (tt : Nat) : Nat → List Input → InAcc → InAcc → Prop
  | _, [], a, a' => a' = a
  | k, inp :: rest, a, a' =>
    inp.genesis = false ∧ inp.mint = none ∧ inp.deposit = none ∧
    ∃ u ks, L.utxo inp.hash inp.index = some u ∧ u.asset = tx.asset ∧ 0 < u.amount ∧
      validateUTXO k u tx tt a.allKeys.length = .ok ks ∧
      LoopSpec L tx tt (k + 1) rest (accStep a inp u ks) a'

theorem add_some {x y s : Nat} (h : Amount.add x y = some s) : 0 < y ∧ s = x + y := by
  unfold Amount.add at h
  split at h <;> simp at h
  omega

theorem loop_full {L tx tt fork} : ∀ (ins : List Input) (k : Nat) (a a' : InAcc),
    inputsLoop L tx tt fork k ins a = .ok (.full a') → LoopSpec L tx tt k ins a a' := by
  intro ins
  induction ins with
  | nil => intro k a a' h; simp [inputsLoop] at h; simp [LoopSpec, h]
  | cons inp rest ih =>
    intro k a a' h
    unfold inputsLoop at h
    split at h
    · simp at h
    · rename_i hg
      split at h
      · simp at h
      · rename_i hm
        split at h
        · simp at h
        · rename_i hd
          split at h
          · simp at h
          · split at h
            · simp at h
            · rename_i u hu
              split at h
              · simp at h
              · rename_i hasset
                split at h
                · simp at h
                · simp only [bind_ok] at h
                  obtain ⟨ks, hks, h⟩ := h
                  split at h
                  · simp at h
                  · rename_i s hs
                    obtain ⟨hpos, rfl⟩ := add_some hs
                    refine ⟨by simpa using hg, hm, hd, u, ks, hu, by simpa using hasset, hpos, hks, ?_⟩
                    exact ih _ _ _ h

def Ordinary (p : Input) : Prop := p.genesis = false ∧ p.mint = none ∧ p.deposit = none

theorem loop_early {L tx tt fork} : ∀ (ins : List Input) (k : Nat) (a : InAcc) (f : Filter) (amt : Nat),
    inputsLoop L tx tt fork k ins a = .ok (.early f amt) →
    ∃ pre inp post, ins = pre ++ inp :: post ∧ (∀ p ∈ pre, Ordinary p) ∧ inp.genesis = false ∧
      ((∃ m, inp.mint = some m ∧ amt = m.amount) ∨
       (inp.mint = none ∧ ∃ d, inp.deposit = some d ∧ amt = d.amount)) := by
  intro ins
  induction ins with
  | nil => intro k a f amt h; simp [inputsLoop] at h
  | cons inp rest ih =>
    intro k a f amt h
    unfold inputsLoop at h
    split at h
    · simp at h
    · rename_i hg
      split at h
      · rename_i m hm
        simp at h
        exact ⟨[], inp, rest, rfl, by simp, by simpa using hg, Or.inl ⟨m, hm, h.2.symm⟩⟩
      · rename_i hm
        split at h
        · rename_i d hd
          simp at h
          exact ⟨[], inp, rest, rfl, by simp, by simpa using hg, Or.inr ⟨hm, d, hd, h.2.symm⟩⟩
        · rename_i hd
          split at h
          · simp at h
          · split at h
            · simp at h
            · split at h
              · simp at h
              · split at h
                · simp at h
                · simp only [bind_ok] at h
                  obtain ⟨ks, _, h⟩ := h
                  split at h
                  · simp at h
                  · obtain ⟨pre, x, post, he, hp, hx⟩ := ih _ _ _ _ h
                    refine ⟨inp :: pre, x, post, by simp [he], ?_, hx⟩
                    intro p hp'
                    rcases List.mem_cons.1 hp' with rfl | hp'
                    · exact ⟨by simpa using hg, hm, hd⟩
                    · exact hp p hp'

theorem typeOfInputs_append {pre : List Input} (h : ∀ p ∈ pre, Ordinary p) (rest : List Input) :
    typeOfInputs (pre ++ rest) = typeOfInputs rest := by
  induction pre with
  | nil => rfl
  | cons p ps ih =>
    have hp := h p (by simp)
    simp only [List.cons_append, typeOfInputs, hp.2.1, hp.2.2, hp.1]
    simpa using ih (fun q hq => h q (by simp [hq]))

theorem outputsLoop_ok {O} : ∀ (outs : List Output) (sum : Nat) (g : List Id) (sum' : Nat) (g' : List Id),
    outputsLoop O outs sum g = .ok (sum', g') →
    sum' = sum + (outs.map (·.amount)).sum ∧ ∀ o ∈ outs, 0 < o.amount := by
  intro outs
  induction outs with
  | nil => intro sum g sum' g' h; simp [outputsLoop] at h; simp [h.1]
  | cons o os ih =>
    intro sum g sum' g' h
    unfold outputsLoop at h
    simp only [bind_ok, guardRej_ok] at h
    obtain ⟨_, _, _, _, gh, _, _, _, h⟩ := h
    split at h
    · simp at h
    · rename_i s hs
      obtain ⟨hp, rfl⟩ := add_some hs
      obtain ⟨h1, h2⟩ := ih _ _ _ _ h
      refine ⟨by simp [h1]; omega, ?_⟩
      intro x hx
      rcases List.mem_cons.1 hx with rfl | hx
      · exact hp
      · exact h2 x hx

/-- the amount an input contributes: mint amount, else deposit amount, else the spent output's -/
def inputAmount (L : Ledger) (i : Input) : Nat :=
  match i.mint with
  | some m => m.amount
  | none => match i.deposit with
    | some d => d.amount
    | none => match L.utxo i.hash i.index with
      | some u => u.amount
      | none => 0

theorem loopSpec_sum {L tx tt} : ∀ (ins : List Input) (k : Nat) (a a' : InAcc),
    LoopSpec L tx tt k ins a a' →
    a'.amount = a.amount + (ins.map (inputAmount L)).sum ∧
    ∀ inp ∈ ins, Ordinary inp ∧ ∃ u, L.utxo inp.hash inp.index = some u ∧ u.asset = tx.asset := by
  intro ins
  induction ins with
  | nil => intro k a a' h; simp [LoopSpec] at h; simp [h]
  | cons inp rest ih =>
    intro k a a' h
    obtain ⟨hg, hm, hd, u, ks, hu, hasset, _, _, hrest⟩ := h
    obtain ⟨h1, h2⟩ := ih _ _ _ hrest
    refine ⟨?_, ?_⟩
    · simp [h1, accStep, inputAmount, hm, hd, hu]; omega
    · intro x hx
      rcases List.mem_cons.1 hx with rfl | hx
      · exact ⟨⟨hg, hm, hd⟩, u, hu, hasset⟩
      · exact h2 x hx

theorem loopSpec_type {L tx tt} : ∀ (ins : List Input) (k : Nat) (a a' : InAcc),
    LoopSpec L tx tt k ins a a' → typeOfInputs ins = none := by
  intro ins k a a' h
  have := (loopSpec_sum ins k a a' h).2
  have h2 := typeOfInputs_append (pre := ins) (fun p hp => (this p hp).1) []
  simpa [typeOfInputs] using h2

/-- the two ways `validateInputs` succeeds -/
theorem validateInputs_ok {L O tx tt fork f i} (h : validateInputs L O tx tt fork = .ok (f, i)) :
    (∃ fl, inputsLoop L tx tt fork 0 tx.inputs {} = .ok (.early fl i)) ∨
    (∃ a, inputsLoop L tx tt fork 0 tx.inputs {} = .ok (.full a) ∧ f = a.filter ∧ i = a.amount) := by
  unfold validateInputs at h
  simp only [bind_ok] at h
  obtain ⟨r, hr, h⟩ := h
  cases r with
  | early fl amt =>
    simp at h
    exact Or.inl ⟨fl, by rw [hr, h.2]⟩
  | full a =>
    refine Or.inr ⟨a, hr, ?_⟩
    simp only at h
    split at h
    · simp at h; exact ⟨h.1.symm, h.2.symm⟩
    · split at h
      · simp at h
      · split at h
        · split at h
          · simp at h; exact ⟨h.1.symm, h.2.symm⟩
          · simp at h
        · split at h
          · simp at h; exact ⟨h.1.symm, h.2.symm⟩
          · simp at h

theorem validateMint_one {L tx} (h : validateMint L tx = .ok ()) : ∃ x, tx.inputs = [x] := by
  unfold validateMint at h
  split at h
  · rename_i inp hi; exact ⟨inp, hi⟩
  · simp at h

theorem validateDeposit_one {L O tx} (h : validateDeposit L O tx = .ok ()) : ∃ x, tx.inputs = [x] := by
  unfold validateDeposit at h
  simp only [bind_ok, guardRej_ok] at h
  obtain ⟨_, h1, _⟩ := h
  simp at h1
  match hl : tx.inputs, h1 with
  | [x], _ => exact ⟨x, rfl⟩

theorem dispatch_mint {L O tx f} (h : dispatch L O tx ttMint f = .ok ()) : validateMint L tx = .ok () := by
  simpa [dispatch, ttMint, ttScript, Facts.Gen.common_TransactionTypeMint, Facts.Gen.common_TransactionTypeScript] using h

theorem dispatch_deposit {L O tx f} (h : dispatch L O tx ttDeposit f = .ok ()) :
    validateDeposit L O tx = .ok () := by
  simpa [dispatch, ttMint, ttScript, ttDeposit, Facts.Gen.common_TransactionTypeMint, Facts.Gen.common_TransactionTypeScript, Facts.Gen.common_TransactionTypeDeposit] using h


theorem pan_eq_panic {α} {s s' : Site} : (pan s : M α) = .error (.panic s') ↔ s = s' := by
  simp [pan]

theorem scriptValidate_np {sc n s} : scriptValidate sc n ≠ .error (.panic s) := by
  simp [scriptValidate]

theorem validateUTXO_np {i u tx tt off s} : validateUTXO i u tx tt off ≠ .error (.panic s) := by
  intro h
  unfold validateUTXO at h
  split at h
  · split at h
    · simp only [bind_panic, guardRej_not_panic, scriptValidate_np, pure_ne_panic, false_or, and_false, exists_false] at h
    · split at h
      · simp at h
      · simp only [bind_panic, guardRej_not_panic, scriptValidate_np, pure_ne_panic, false_or, and_false, exists_false] at h
  · split at h
    · split at h <;> simp at h
    · split at h
      · split at h <;> simp at h
      · simp at h

theorem sigPresence_np {tx tt s} : sigPresence tx tt ≠ .error (.panic s) := by
  unfold sigPresence; split <;> simp

theorem validateReferences_np {L tx s} : validateReferences L tx ≠ .error (.panic s) := by
  intro h
  unfold validateReferences at h
  simp only [bind_panic, guardRej_not_panic, false_or, and_false, exists_false] at h

theorem keysLoop_np {O s} : ∀ (ks g : List Id), keysLoop O ks g ≠ .error (.panic s) := by
  intro ks
  induction ks with
  | nil => intro g; simp [keysLoop]
  | cons k ks ih =>
    intro g h
    unfold keysLoop at h
    split at h
    · simp at h
    · split at h
      · simp at h
      · exact ih _ h

theorem outputsLoop_np {O s} : ∀ (outs : List Output) (sum : Nat) (g : List Id),
    outputsLoop O outs sum g ≠ .error (.panic s) := by
  intro outs
  induction outs with
  | nil => intro sum g; simp [outputsLoop]
  | cons o os ih =>
    intro sum g h
    unfold outputsLoop at h
    simp only [bind_panic, guardRej_not_panic, keysLoop_np, false_or, guardRej_ok] at h
    obtain ⟨_, _, _, _, gh, _, _, _, h⟩ := h
    split at h
    · simp at h
    · exact ih _ _ h

theorem validateOutputs_np {L O tx i s} : validateOutputs L O tx i ≠ .error (.panic s) := by
  intro h
  unfold validateOutputs at h
  simp only [bind_panic, outputsLoop_np, guardRej_not_panic, pure_ne_panic, false_or, and_false, exists_false] at h


theorem count_some {x : Nat} (h1 : priceStep ≤ x) (h2 : x < priceStep * (extraCapacity / extraStep)) :
    ∃ c, Amount.count x priceStep = some c := by
  unfold Amount.count
  have hs : priceStep = 10000 := rfl
  have hc : extraCapacity / extraStep = 4096 := by decide
  rw [hc, hs] at h2
  rw [hs] at h1 ⊢
  have hq : x / 10000 < 2 ^ 64 := by
    have : x / 10000 < 4096 := by omega
    have : (4096 : Nat) < 2 ^ 64 := by decide
    omega
  rw [if_neg (by omega), if_neg (by omega)]
  exact ⟨_, rfl⟩

theorem getExtraLimit_np {tx s} (hv : tx.version = Facts.Gen.common_TxVersionHashSignature) :
    getExtraLimit tx ≠ .error (.panic s) := by
  intro h
  unfold getExtraLimit at h
  rw [if_neg (by simp [hv])] at h
  split at h
  · simp at h
  · split at h
    · simp at h
    · split at h
      · simp at h
      · split at h
        · simp at h
        · split at h
          · simp at h
          · split at h
            · simp at h
            · rename_i out _ _ _ h1 h2
              obtain ⟨c, hc⟩ := count_some (x := out.amount) (by omega) (by omega)
              rw [hc] at h
              simp only at h
              split at h <;> simp at h

theorem structural_np {tx s} (hp : tx.payloadSize ≤ txMaxSize) : structural tx ≠ .error (.panic s) := by
  intro h
  unfold structural at h
  simp only [bind_panic, guardRej_not_panic, false_or, guardRej_ok] at h
  obtain ⟨_, hv, _, _, _, _, _, _, _, _, h⟩ := h
  have hv' : tx.version = Facts.Gen.common_TxVersionHashSignature := by simpa using hv
  rcases h with h | ⟨_, _, _, _, h⟩
  · exact getExtraLimit_np hv' h
  · rcases h with h | ⟨_, _, h⟩
    · have := guardPan_panic h
      simp at this
      omega
    · simp at h


theorem utxo_mem {L : Ledger} {h i u} (hu : L.utxo h i = some u) : u ∈ L.utxos ∧ u.hash = h ∧ u.index = i := by
  unfold Ledger.utxo at hu
  have hm := List.mem_of_find?_eq_some hu
  have hp := List.find?_some hu
  simp at hp
  exact ⟨hm, hp.1, hp.2⟩

theorem tx_mem {L : Ledger} {h t} (ht : L.tx h = some t) : t ∈ L.txs ∧ t.hash = h := by
  unfold Ledger.tx at ht
  have hm := List.mem_of_find?_eq_some ht
  have hp := List.find?_some ht
  simp at hp
  exact ⟨hm, hp⟩

theorem add_none {x y : Nat} (h : Amount.add x y = none) : y = 0 := by
  unfold Amount.add at h
  split at h <;> simp_all

theorem loop_np {L : Ledger} {tx tt fork s} (hpos : ∀ u ∈ L.utxos, 0 < u.amount) :
    ∀ (ins : List Input) (k : Nat) (a : InAcc), inputsLoop L tx tt fork k ins a ≠ .error (.panic s) := by
  intro ins
  induction ins with
  | nil => intro k a; simp [inputsLoop]
  | cons inp rest ih =>
    intro k a h
    unfold inputsLoop at h
    split at h
    · simp at h
    · split at h
      · simp at h
      · split at h
        · simp at h
        · split at h
          · simp at h
          · split at h
            · simp at h
            · rename_i u hu
              split at h
              · simp at h
              · split at h
                · simp at h
                · simp only [bind_panic, validateUTXO_np, false_or] at h
                  obtain ⟨ks, _, h⟩ := h
                  split at h
                  · rename_i hnone
                    have := add_none hnone
                    have := hpos u (utxo_mem hu).1
                    omega
                  · exact ih _ _ h

theorem validateInputs_np {L : Ledger} {O tx tt fork s} (hpos : ∀ u ∈ L.utxos, 0 < u.amount) :
    validateInputs L O tx tt fork ≠ .error (.panic s) := by
  intro h
  unfold validateInputs at h
  simp only [bind_panic, loop_np hpos, false_or] at h
  obtain ⟨r, _, h⟩ := h
  cases r with
  | early fl amt => simp at h
  | full a =>
    simp only at h
    split at h
    · simp at h
    · split at h
      · simp at h
      · split at h
        · split at h <;> simp at h
        · split at h <;> simp at h


end Mixin.Validate
