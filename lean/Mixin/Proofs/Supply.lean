import Mixin.Proofs.Ledger
/-! Sums over the UTXO family: the arithmetic behind C17. Core Lean only. -/
namespace Mixin.Ledger

abbrev Entries := List ((Id × Nat) × UTXO)

def contrib (f : UTXO → Bool) (u : UTXO) : Nat := if f u then u.amount else 0

theorem sumIf_cons (f : UTXO → Bool) (k : Id × Nat) (u : UTXO) (r : Entries) :
    sumIf f ((k, u) :: r) = contrib f u + sumIf f r := rfl

theorem sumIf_congr {f g : UTXO → Bool} {l : Entries} (h : ∀ e ∈ l, f e.2 = g e.2) : sumIf f l = sumIf g l := by
  induction l with
  | nil => rfl
  | cons e r ih =>
    obtain ⟨k, u⟩ := e
    have h1 : f u = g u := h (k, u) (by simp)
    have h2 := ih (fun e he => h e (by simp [he]))
    simp [sumIf_cons, contrib, h1, h2]

/-- pointwise additive decomposition -/
theorem sumIf_add {f g h : UTXO → Bool} {l : Entries}
    (hp : ∀ e ∈ l, contrib f e.2 = contrib g e.2 + contrib h e.2) : sumIf f l = sumIf g l + sumIf h l := by
  induction l with
  | nil => rfl
  | cons e r ih =>
    obtain ⟨k, u⟩ := e
    have h1 := hp (k, u) (by simp)
    have h2 := ih (fun e he => hp e (by simp [he]))
    simp only [sumIf_cons] at *
    omega

theorem sumIf_le {f g : UTXO → Bool} {l : Entries} (hp : ∀ e ∈ l, contrib f e.2 ≤ contrib g e.2) :
    sumIf f l ≤ sumIf g l := by
  induction l with
  | nil => exact Nat.le_refl _
  | cons e r ih =>
    obtain ⟨k, u⟩ := e
    have h1 := hp (k, u) (by simp)
    have h2 := ih (fun e he => hp e (by simp [he]))
    simp only [sumIf_cons] at *
    omega

theorem sumIf_aset_fresh (f : UTXO → Bool) {l : Entries} {k : Id × Nat} (v : UTXO) (h : aget l k = none) :
    sumIf f (aset l k v) = sumIf f l + contrib f v := by
  induction l with
  | nil => simp [aset, sumIf, contrib]
  | cons e r ih =>
    obtain ⟨k', u⟩ := e
    by_cases hk : k' = k
    · simp [aget, hk] at h
    · simp only [aget, hk, if_false] at h
      simp only [aset, hk, if_false, sumIf_cons, ih h]
      omega

theorem sumIf_aset_same (f : UTXO → Bool) {l : Entries} {k : Id × Nat} {u : UTXO} (v : UTXO)
    (h : aget l k = some u) (hc : contrib f u = contrib f v) : sumIf f (aset l k v) = sumIf f l := by
  induction l with
  | nil => simp [aget] at h
  | cons e r ih =>
    obtain ⟨k', w⟩ := e
    by_cases hk : k' = k
    · simp only [aget, hk, if_true, Option.some.injEq] at h
      subst h
      simp [aset, hk, sumIf_cons, hc]
    · simp only [aget, hk, if_false] at h
      simp [aset, hk, sumIf_cons, ih h]

/-! ### unspent value as a function of the two families it reads -/

def live (fin : List (Id × Id)) (a : Id) (u : UTXO) : Bool :=
  u.asset = a && !(match u.lock with | none => false | some t => (aget fin t).isSome)

theorem unspent_eq (st : State) (a : Id) : unspent st a = sumIf (live st.fin a) st.utxo := by
  unfold unspent
  apply sumIf_congr
  intro e _
  rfl

/-- value of asset `a` in outputs locked by transaction `t` -/
def lockedBy (st : State) (t a : Id) : Nat := sumIf (fun u => u.asset = a && decide (u.lock = some t)) st.utxo

/-- setting `FINALIZATION[t]` consumes exactly the outputs locked by `t` -/
theorem live_finalize {fin : List (Id × Id)} {t s : Id} (a : Id) (l : Entries) (h : aget fin t = none) :
    sumIf (live fin a) l =
      sumIf (live (aset fin t s) a) l + sumIf (fun u => u.asset = a && decide (u.lock = some t)) l := by
  apply sumIf_add
  intro e _
  obtain ⟨k, ⟨ua, uty, uam, uks, lk⟩⟩ := e
  simp only [contrib, live]
  cases lk with
  | none => simp
  | some t' =>
    by_cases e : t = t'
    · subst e; simp [h, aget_aset_eq]
    · have e' : ¬ t' = t := fun x => e x.symm
      simp [aget_aset_ne _ _ _ _ e, e']

/-! ### the outputs a finalization adds -/

def FreshKeys : Entries → Entries → Prop
  | _, [] => True
  | l, (k, v) :: r => aget l k = none ∧ FreshKeys (aset l k v) r

theorem sumIf_asetAll (f : UTXO → Bool) {l es : Entries} (h : FreshKeys l es) :
    sumIf f (asetAll l es) = sumIf f l + sumIf f es := by
  induction es generalizing l with
  | nil => simp [asetAll, sumIf]
  | cons e r ih =>
    obtain ⟨k, v⟩ := e
    obtain ⟨h1, h2⟩ := h
    simp only [asetAll, ih h2, sumIf_aset_fresh f v h1, sumIf_cons]
    omega

theorem aget_asetAll_other {l es : Entries} {k : Id × Nat} (h : ∀ e ∈ es, e.1 ≠ k) :
    aget (asetAll l es) k = aget l k := by
  induction es generalizing l with
  | nil => rfl
  | cons e r ih =>
    obtain ⟨k', v⟩ := e
    have h1 : k' ≠ k := h (k', v) (by simp)
    simp only [asetAll]
    rw [ih (fun e he => h e (by simp [he])), aget_aset_ne _ _ _ _ h1]

theorem newEntries_keys {tx : Tx} {outs : List Output} {idx : Nat} :
    ∀ e ∈ newEntries tx outs idx, e.1.1 = tx.id ∧ idx ≤ e.1.2 ∧ e.2.lock = none ∧ e.2.asset = tx.asset := by
  induction outs generalizing idx with
  | nil => simp [newEntries]
  | cons o r ih =>
    intro e he
    simp only [newEntries] at he
    split at he
    · rcases List.mem_cons.mp he with h | h
      · subst h; simp
      · have := ih e h; exact ⟨this.1, by omega, this.2.2⟩
    · have := ih e he; exact ⟨this.1, by omega, this.2.2⟩

theorem newEntries_fresh {tx : Tx} {outs : List Output} {idx : Nat} {l : Entries}
    (h : ∀ j, idx ≤ j → aget l (tx.id, j) = none) : FreshKeys l (newEntries tx outs idx) := by
  induction outs generalizing idx l with
  | nil => simp [newEntries, FreshKeys]
  | cons o r ih =>
    simp only [newEntries]
    split
    · refine ⟨h idx (Nat.le_refl _), ih ?_⟩
      intro j hj
      have : (tx.id, idx) ≠ (tx.id, j) := by intro e; cases e; omega
      rw [aget_aset_ne _ _ _ _ this]
      exact h j (by omega)
    · exact ih (fun j hj => h j (by omega))

/-- value of the outputs written to the UTXO family -/
def matSum : List Output → Nat
  | [] => 0
  | o :: r => (if materialised o.typ = some true then o.amount else 0) + matSum r

def submitSum : List Output → Nat
  | [] => 0
  | o :: r => (if o.typ = .withdrawalSubmit then o.amount else 0) + submitSum r

theorem sumIf_newEntries_live (fin : List (Id × Id)) (a : Id) (tx : Tx) (outs : List Output) (idx : Nat) :
    sumIf (live fin a) (newEntries tx outs idx) = if tx.asset = a then matSum outs else 0 := by
  induction outs generalizing idx with
  | nil => simp [newEntries, sumIf, matSum]
  | cons o r ih =>
    simp only [newEntries, matSum]
    split
    · simp only [sumIf_cons, ih, contrib, live]
      by_cases e : tx.asset = a <;> simp [e]
    · simp [ih]

theorem sumIf_newEntries_locked (t a : Id) (tx : Tx) (outs : List Output) (idx : Nat) :
    sumIf (fun u => u.asset = a && decide (u.lock = some t)) (newEntries tx outs idx) = 0 := by
  induction outs generalizing idx with
  | nil => simp [newEntries, sumIf]
  | cons o r ih =>
    simp only [newEntries]
    split
    · simp [sumIf_cons, ih, contrib]
    · exact ih _

/-! ### totals -/

theorem subSubmits_spec {outs : List Output} {T T' : Nat} (h : subSubmits outs T = .ok T') :
    T' + submitSum outs = T := by
  induction outs generalizing T with
  | nil => simp [subSubmits] at h; simp [submitSum, h]
  | cons o r ih =>
    simp only [subSubmits] at h
    split at h
    · rename_i ho
      split at h
      · rename_i t hs
        have := ih h
        simp only [Amount.sub] at hs
        split at hs
        · cases hs
        · cases hs
          simp only [submitSum, ho, if_true]
          omega
      · cases h
    · rename_i ho
      have := ih h
      simp only [submitSum, ho, if_false]
      omega

theorem addOutputs_spec {outs : List Output} {T T' : Nat} (h : addOutputs outs T = .ok T') :
    T' = T + outSum outs := by
  induction outs generalizing T with
  | nil => simp [addOutputs] at h; simp [outSum, h]
  | cons o r ih =>
    simp only [addOutputs] at h
    split at h
    · rename_i t ha
      have := ih h
      simp only [Amount.add] at ha
      split at ha
      · cases ha
      · cases ha
        simp only [outSum, List.map, List.foldr] at *
        omega
    · cases h

/-- value created by a transaction: deposit, mint, genesis allocation -/
def minted (tx : Tx) : Nat :=
  match txType tx with
  | .withdrawalSubmit => 0
  | .deposit => (match tx.inputs with | [.deposit _ _ _ a] => a | _ => 0)
  | .mint => (match tx.inputs with | .mint _ a :: _ => a | _ => 0)
  | _ => (match tx.inputs with | .genesis :: _ => outSum tx.outputs | _ => 0)

/-- value leaving the ledger: withdrawal-submit outputs -/
def burnt (tx : Tx) : Nat :=
  match txType tx with
  | .withdrawalSubmit => submitSum tx.outputs
  | _ => 0

theorem liftAmount_add {T a T' : Nat} (h : liftAmount (Amount.add T a) = .ok T') : T' = T + a := by
  simp only [Amount.add] at h
  split at h
  · simp [liftAmount] at h
  · simp [liftAmount] at h; omega

/-- the `switch` of `writeTotalInAsset` adds what is minted and subtracts what is burnt -/
theorem newTotal_spec {tx : Tx} {T : Nat} {r : Option Nat} (h : newTotal tx T = .ok r) :
    r.getD T + burnt tx = T + minted tx := by
  unfold newTotal at h
  unfold burnt minted
  split at h
  · rename_i ht
    simp only [ht]
    cases hs : subSubmits tx.outputs T with
    | error e => simp [hs, Except.map] at h
    | ok t =>
      simp [hs, Except.map] at h
      subst h
      have := subSubmits_spec hs
      simp; omega
  · rename_i ht
    simp only [ht]
    split at h
    · rename_i k c ak amount hin
      cases ha : liftAmount (Amount.add T amount) with
      | error e => simp [ha, Except.map] at h
      | ok t =>
        simp [ha, Except.map] at h
        subst h
        have := liftAmount_add ha
        simp [hin]; omega
    · cases h
  · rename_i ht
    simp only [ht]
    split at h
    · rename_i b amount rest hin
      cases ha : liftAmount (Amount.add T amount) with
      | error e => simp [ha, Except.map] at h
      | ok t =>
        simp [ha, Except.map] at h
        subst h
        have := liftAmount_add ha
        simp [hin]; omega
    · cases h
  · rename_i h1 h2 h3
    split at h
    · rename_i rest hin
      cases ha : addOutputs tx.outputs T with
      | error e => simp [ha, Except.map] at h
      | ok t =>
        simp [ha, Except.map] at h
        subst h
        have := addOutputs_spec ha
        split <;> simp_all
    · cases h
    · rename_i hng hne
      cases h
      split <;> simp_all
      all_goals (split <;> simp_all)

end Mixin.Ledger
