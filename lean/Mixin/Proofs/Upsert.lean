import Mixin.Proofs.Membership
/-! `foldl upsert []` keeps exactly the last record of every id; with the sortedness lemmas this gives the
declarative reading of `NodesListWithoutState` (`list_refines_mem`, `list_refines_sorted`, `idx_assignIdx`). -/
namespace Mixin.Membership

/-- `r` occurs in `l` and no later element has its id -/
def LastOf (l : List Rec) (r : Rec) : Prop := ∃ pre post, l = pre ++ r :: post ∧ ∀ x ∈ post, x.id ≠ r.id

def IdsNodup (m : List Rec) : Prop := m.Pairwise (fun a b => a.id ≠ b.id)

theorem mem_upsert {m : List Rec} (hm : IdsNodup m) (n x : Rec) :
    x ∈ upsert m n ↔ x = n ∨ (x ∈ m ∧ x.id ≠ n.id) := by
  induction m with
  | nil => simp [upsert]
  | cons a t ih =>
    unfold IdsNodup at hm ih
    rw [List.pairwise_cons] at hm
    unfold upsert
    by_cases ha : a.id = n.id
    · simp only [ha, if_true, List.mem_cons]
      constructor
      · rintro (h | h)
        · exact Or.inl h
        · right
          refine ⟨Or.inr h, ?_⟩
          have := hm.1 x h
          rw [ha] at this; exact fun e => this e.symm
      · rintro (h | ⟨h | h, hne⟩)
        · exact Or.inl h
        · rw [h] at hne; exact absurd ha hne
        · exact Or.inr h
    · simp only [ha, if_false, List.mem_cons]
      rw [ih hm.2]
      constructor
      · rintro (h | h | ⟨h, hne⟩)
        · right; rw [h]; exact ⟨Or.inl rfl, ha⟩
        · exact Or.inl h
        · exact Or.inr ⟨Or.inr h, hne⟩
      · rintro (h | ⟨h | h, hne⟩)
        · exact Or.inr (Or.inl h)
        · exact Or.inl h
        · exact Or.inr (Or.inr ⟨h, hne⟩)

theorem upsert_idsNodup {m : List Rec} (hm : IdsNodup m) (n : Rec) : IdsNodup (upsert m n) := by
  induction m with
  | nil => simp [upsert, IdsNodup]
  | cons a t ih =>
    unfold IdsNodup at hm ih ⊢
    rw [List.pairwise_cons] at hm
    unfold upsert
    by_cases ha : a.id = n.id
    · simp only [ha, if_true]
      rw [List.pairwise_cons]
      exact ⟨fun y hy => by rw [← ha]; exact hm.1 y hy, hm.2⟩
    · simp only [ha, if_false]
      rw [List.pairwise_cons]
      refine ⟨?_, ih hm.2⟩
      intro y hy
      rcases (mem_upsert hm.2 n y).1 hy with h | ⟨h, _⟩
      · rw [h]; exact ha
      · exact hm.1 y h

theorem lastOf_cons (a : Rec) (l : List Rec) (x : Rec) :
    LastOf (a :: l) x ↔ LastOf l x ∨ (x = a ∧ ∀ y ∈ l, y.id ≠ a.id) := by
  constructor
  · rintro ⟨pre, post, he, hp⟩
    cases pre with
    | nil =>
      simp only [List.nil_append, List.cons.injEq] at he
      right; refine ⟨he.1.symm, ?_⟩
      rw [he.2, he.1]; exact hp
    | cons b pre' =>
      simp only [List.cons_append, List.cons.injEq] at he
      left; exact ⟨pre', post, he.2, hp⟩
  · rintro (⟨pre, post, he, hp⟩ | ⟨hx, hp⟩)
    · exact ⟨a :: pre, post, by rw [he]; rfl, hp⟩
    · exact ⟨[], l, by rw [hx]; rfl, by rw [hx]; exact hp⟩

theorem mem_foldl_upsert (l : List Rec) (m : List Rec) (hm : IdsNodup m) (x : Rec) :
    x ∈ l.foldl upsert m ↔ LastOf l x ∨ (x ∈ m ∧ ∀ y ∈ l, y.id ≠ x.id) := by
  induction l generalizing m with
  | nil =>
    simp only [List.foldl_nil]
    constructor
    · intro h; exact Or.inr ⟨h, by intro y hy; cases hy⟩
    · rintro (⟨pre, post, he, _⟩ | ⟨h, _⟩)
      · cases pre <;> cases he
      · exact h
  | cons a l ih =>
    simp only [List.foldl_cons]
    rw [ih (upsert m a) (upsert_idsNodup hm a), mem_upsert hm, lastOf_cons]
    constructor
    · rintro (h | ⟨h | ⟨h, hne⟩, hall⟩)
      · exact Or.inl (Or.inl h)
      · left; right; exact ⟨h, by rw [← h]; exact hall⟩
      · right; refine ⟨h, ?_⟩
        intro y hy
        rcases List.mem_cons.1 hy with hy | hy
        · rw [hy]; exact fun e => hne e.symm
        · exact hall y hy
    · rintro ((h | ⟨h, hall⟩) | ⟨h, hall⟩)
      · exact Or.inl h
      · right; exact ⟨Or.inl h, by rw [h]; exact hall⟩
      · right
        refine ⟨Or.inr ⟨h, ?_⟩, fun y hy => hall y (List.mem_cons_of_mem a hy)⟩
        exact fun e => hall a (by simp) e.symm

theorem foldl_upsert_idsNodup (l m : List Rec) (hm : IdsNodup m) : IdsNodup (l.foldl upsert m) := by
  induction l generalizing m with
  | nil => exact hm
  | cons a l ih => exact ih _ (upsert_idsNodup hm a)

theorem recLt_irrefl (r : Rec) : ¬ recLt r r = true := by rw [recLt_iff]; omega

theorem lastOf_sorted {L : List Rec} (hs : Sorted L) (hd : DistinctKeys L) (r : Rec) :
    LastOf L r ↔ r ∈ L ∧ ∀ r' ∈ L, r'.id = r.id → ¬ recLt r r' = true := by
  constructor
  · rintro ⟨pre, post, he, hp⟩
    subst he
    refine ⟨by simp, ?_⟩
    intro r' hr' hid
    unfold Sorted at hs
    rw [List.pairwise_append] at hs
    rcases List.mem_append.1 hr' with h | h
    · exact hs.2.2 r' h r (by simp)
    · rcases List.mem_cons.1 h with h | h
      · rw [h]; exact recLt_irrefl r
      · exact absurd hid (hp r' h)
  · rintro ⟨hm, hall⟩
    obtain ⟨s, t, he⟩ := List.append_of_mem hm
    refine ⟨s, t, he, ?_⟩
    intro x hx hid
    subst he
    have hxL : x ∈ s ++ r :: t := List.mem_append_right _ (List.mem_cons_of_mem _ hx)
    have h1 := hall x hxL hid
    unfold Sorted at hs
    unfold DistinctKeys at hd
    rw [List.pairwise_append] at hs hd
    have h2 : LeRec r x := (List.pairwise_cons.1 hs.2.1).1 x hx
    have h3 := (List.pairwise_cons.1 hd.2.1).1 x hx
    rw [leRec_iff] at h2
    rw [recLt_iff] at h1
    apply h3
    constructor <;> omega

theorem distinctKeys_perm {l1 l2 : List Rec} (hp : l1.Perm l2) (hd : DistinctKeys l1) : DistinctKeys l2 := by
  unfold DistinctKeys at *
  exact (hp.pairwise_iff (fun {a b} h h' => h ⟨h'.1.symm, h'.2.symm⟩)).1 hd

theorem map_rc_assignIdx (k : Nat) (l : List Rec) : (assignIdx k l).map (·.rc) = l := by
  induction l generalizing k with
  | nil => rfl
  | cons a t ih => simp [assignIdx, ih]

/-- consensus index = number of accepted/pledging entries before the position -/
theorem idx_assignIdx (k : Nat) (l : List Rec) (i : Nat) (hi : i < (assignIdx k l).length) :
    ((assignIdx k l)[i]).idx = k + ((l.take i).filter (fun r => countsIndex r.state)).length := by
  induction l generalizing k i with
  | nil => simp [assignIdx] at hi
  | cons a t ih =>
    cases i with
    | zero => simp [assignIdx]
    | succ j =>
      simp only [assignIdx, List.getElem_cons_succ, List.take_succ_cons]
      have hj : j < (assignIdx (if countsIndex a.state = true then k + 1 else k) t).length := by
        simpa [assignIdx] using hi
      rw [ih _ j hj]
      by_cases hc : countsIndex a.state = true
      · simp [hc, List.filter]; omega
      · have hc' : countsIndex a.state = false := by simpa using hc
        simp [hc', List.filter]

/-- the declarative content of `NodesListWithoutState(t, acceptedOnly)` on a loaded history -/
theorem list_refines_mem (n : Node) (recs : List Rec) (hd : DistinctKeys recs) (t : Nat) (acc : Bool) (r : Rec) :
    r ∈ ((n.load recs).list t acc).map (·.rc) ↔
      r ∈ recs ∧ r.ts < t ∧ (acc = true → r.state = .accepted) ∧
      ∀ r' ∈ recs, r'.ts < t → r'.id = r.id → ¬ recLt r r' = true := by
  unfold Node.load Node.list
  simp only
  rw [nodesList_eq_nodeSeq _ _ _ (sorted_ts (sortRecs_sorted _))]
  simp only [nodeSeq, filterLoop_eq _ _ [] (sorted_ts (sortRecs_sorted _)), map_rc_assignIdx, mem_sortRecs,
    List.mem_filter]
  have hsL : Sorted ((sortRecs recs).filter (fun n => decide (n.ts < t))) :=
    List.Pairwise.filter _ (sortRecs_sorted _)
  have hdL : DistinctKeys ((sortRecs recs).filter (fun n => decide (n.ts < t))) :=
    List.Pairwise.filter _ (distinctKeys_perm (sortRecs_perm recs).symm hd)
  rw [mem_foldl_upsert _ [] (by simp [IdsNodup]) r, lastOf_sorted hsL hdL]
  simp only [List.not_mem_nil, false_and, or_false, List.mem_filter, mem_sortRecs, decide_eq_true_eq]
  constructor
  · rintro ⟨⟨⟨hm, hlt⟩, hall⟩, hacc⟩
    refine ⟨hm, hlt, ?_, fun r' hr' hlt' hid => hall r' ⟨hr', hlt'⟩ hid⟩
    intro ha; rw [ha] at hacc; simpa using hacc
  · rintro ⟨hm, hlt, hacc, hall⟩
    refine ⟨⟨⟨hm, hlt⟩, fun r' hr' hid => hall r' hr'.1 hr'.2 hid⟩, ?_⟩
    cases acc with
    | false => simp
    | true => simp [hacc rfl]

/-- … in `(ts, id)` order … -/
theorem list_refines_sorted (n : Node) (recs : List Rec) (t : Nat) (acc : Bool) :
    Sorted (((n.load recs).list t acc).map (·.rc)) := by
  unfold Node.load Node.list
  simp only
  rw [nodesList_eq_nodeSeq _ _ _ (sorted_ts (sortRecs_sorted _))]
  simp only [nodeSeq, map_rc_assignIdx]
  exact sortRecs_sorted _

end Mixin.Membership
