import Mixin.Model.Mint
/-! Helper lemmas for C25 (mint schedule): total versions of the partial model functions. -/
namespace Mixin.Mint
open Mixin.Amount

theorem yearOf_eq (P : Params) (p : Nat) : yearOf P p = p * P.num / P.den := rfl

theorem yearOf_mono (P : Params) {p q : Nat} (h : p ≤ q) : yearOf P p ≤ yearOf P q := by
  simp only [yearOf_eq]
  exact Nat.div_le_div_right (Nat.mul_le_mul_right _ h)

/-- with a percentage of at most one the year amount never exceeds the pool -/
theorem yearOf_le (P : Params) (hden : 0 < P.den) (hnum : P.num ≤ P.den) (p : Nat) : yearOf P p ≤ p := by
  simp only [yearOf_eq]
  calc p * P.num / P.den ≤ p * P.den / P.den := Nat.div_le_div_right (Nat.mul_le_mul_left _ hnum)
    _ = p := Nat.mul_div_cancel _ hden

theorem sub_some {x y z : Nat} (h : sub x y = some z) : 0 < y ∧ y ≤ x ∧ z = x - y := by
  unfold sub at h
  split at h
  · cases h
  · cases h; omega

theorem add_some {x y z : Nat} (h : add x y = some z) : 0 < y ∧ z = x + y := by
  unfold add at h
  split at h
  · cases h
  · cases h; omega

theorem div_some {x z : Nat} {k : Int} (h : div x k = some z) : 0 < k ∧ z = x / k.toNat := by
  unfold div at h
  split at h
  · cases h
  · cases h; omega

theorem mul_some {x z : Nat} {k : Int} (h : mul x k = some z) : 0 < k ∧ z = x * k.toNat := by
  unfold mul at h
  split at h
  · cases h
  · cases h; omega

/-- total pool after `n` years (truncated subtraction) -/
def poolT (P : Params) : Nat → Nat → Nat
  | 0, p => p
  | n + 1, p => poolT P n (p - yearOf P p)

theorem poolAfter_some {P : Params} : ∀ {n p q : Nat}, poolAfter P n p = some q → q = poolT P n p
  | 0, p, q, h => by simp [poolAfter] at h; simp [poolT, h]
  | n + 1, p, q, h => by
    simp only [poolAfter] at h
    split at h
    · cases h
    · next r hr =>
      have := sub_some hr
      rw [poolT, ← this.2.2]
      exact poolAfter_some h

theorem poolT_le (P : Params) : ∀ (n p : Nat), poolT P n p ≤ p
  | 0, p => Nat.le_refl _
  | n + 1, p => Nat.le_trans (poolT_le P n _) (Nat.sub_le _ _)

theorem poolT_mono_start (P : Params) : ∀ (n : Nat) {p q : Nat}, True → poolT P n p = poolT P n p := fun _ _ _ _ => rfl

theorem poolT_succ (P : Params) : ∀ (n p : Nat), poolT P (n + 1) p = poolT P n p - yearOf P (poolT P n p)
  | 0, p => rfl
  | n + 1, p => by
    rw [poolT, poolT_succ P n]
    rfl

theorem poolT_antitone (P : Params) (p : Nat) {n m : Nat} (h : n ≤ m) : poolT P m p ≤ poolT P n p := by
  induction h with
  | refl => exact Nat.le_refl _
  | step _ ih => rw [poolT_succ]; exact Nat.le_trans (Nat.sub_le _ _) ih

/-- prefix-closedness: the year loop that succeeds for `m` years succeeds for fewer -/
theorem poolAfter_prefix {P : Params} : ∀ {n m p : Nat}, n ≤ m → (poolAfter P m p).isSome → (poolAfter P n p).isSome
  | 0, _, _, _, _ => by simp [poolAfter]
  | n + 1, 0, _, h, _ => by omega
  | n + 1, m + 1, p, h, hm => by
    simp only [poolAfter] at hm ⊢
    split
    · next hr => simp [hr] at hm
    · next r hr =>
      simp only [hr] at hm
      exact poolAfter_prefix (Nat.le_of_succ_le_succ h) hm

/-- total daily amount of batch `b` -/
def batchT (P : Params) (b : Nat) : Nat := yearOf P (poolT P (b / P.days) P.pool) / P.days

theorem mintBatchSize_some {P : Params} {b x : Nat} (h : mintBatchSize P b = some x) :
    x = batchT P b ∧ b / P.days ≤ P.maxYears ∧ 0 < P.days := by
  unfold mintBatchSize at h
  simp only at h
  split at h
  · cases h
  · next hy =>
    split at h
    · cases h
    · next q hq =>
      have hq' := poolAfter_some hq
      have := div_some h
      refine ⟨?_, by omega, by omega⟩
      rw [this.2, batchT, hq']
      simp

theorem batchT_antitone (P : Params) {b b' : Nat} (h : b ≤ b') : batchT P b' ≤ batchT P b := by
  unfold batchT
  apply Nat.div_le_div_right
  apply yearOf_mono
  exact poolT_antitone P _ (Nat.div_le_div_right h)

/-- value of a batch, `0` where the Go code panics -/
def batchVal (P : Params) (b : Nat) : Nat := (mintBatchSize P b).getD 0

theorem batchVal_le (P : Params) (b : Nat) : batchVal P b ≤ batchT P b := by
  unfold batchVal
  cases h : mintBatchSize P b with
  | none => simp
  | some x => simp [(mintBatchSize_some h).1]

/-- cumulative amount of the batches `0 … n-1` -/
def cum (f : Nat → Nat) : Nat → Nat
  | 0 => 0
  | n + 1 => cum f n + f n

theorem cum_le_cum {f g : Nat → Nat} (h : ∀ i, f i ≤ g i) : ∀ n, cum f n ≤ cum g n
  | 0 => Nat.le_refl _
  | n + 1 => Nat.add_le_add (cum_le_cum h n) (h n)

theorem cum_const_range (f : Nat → Nat) (c : Nat) : ∀ (a k : Nat), (∀ i, a ≤ i → i < a + k → f i = c) →
    cum f (a + k) = cum f a + k * c
  | a, 0, _ => by simp
  | a, k + 1, h => by
    rw [← Nat.add_assoc, cum, cum_const_range f c a k (fun i h1 h2 => h i h1 (by omega)),
      h (a + k) (by omega) (by omega), Nat.add_mul]
    omega

end Mixin.Mint
