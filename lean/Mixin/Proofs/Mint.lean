import Mixin.Model.Mint
/-! Helper lemmas for C25 (mint schedule): total versions of the partial model functions. -/
namespace Mixin.Mint
open Mixin.Amount

theorem yearOf_eq (P : Params) (p : Nat) : yearOf P p = p * P.num / P.den := rfl

theorem yearOf_mono (P : Params) {p q : Nat} (h : p ≤ q) : yearOf P p ≤ yearOf P q := by
  simp only [yearOf_eq]
  exact Nat.div_le_div_right (Nat.mul_le_mul_right _ h)

/-- with a percentage of at most one the year amount never exceeds the pool -/
theorem yearOf_le (P : Params) (hden : 0 < P.den) (hnum : P.num ≤ P.den) (p : Nat) : yearOf P p ≤ p := by
  simp only [yearOf_eq]
  calc p * P.num / P.den ≤ p * P.den / P.den := Nat.div_le_div_right (Nat.mul_le_mul_left _ hnum)
    _ = p := Nat.mul_div_cancel _ hden

theorem sub_some {x y z : Nat} (h : sub x y = some z) : 0 < y ∧ y ≤ x ∧ z = x - y := by
  unfold sub at h
  split at h
  · cases h
  · cases h; omega

theorem add_some {x y z : Nat} (h : add x y = some z) : 0 < y ∧ z = x + y := by
  unfold add at h
  split at h
  · cases h
  · cases h; omega

theorem div_some {x z : Nat} {k : Int} (h : div x k = some z) : 0 < k ∧ z = x / k.toNat := by
  unfold div at h
  split at h
  · cases h
  · cases h; omega

theorem mul_some {x z : Nat} {k : Int} (h : mul x k = some z) : 0 < k ∧ z = x * k.toNat := by
  unfold mul at h
  split at h
  · cases h
  · cases h; omega

/-- total pool after `n` years (truncated subtraction) -/
def poolT (P : Params) : Nat → Nat → Nat
  | 0, p => p
  | n + 1, p => poolT P n (p - yearOf P p)

theorem poolAfter_some {P : Params} : ∀ {n p q : Nat}, poolAfter P n p = some q → q = poolT P n p
  | 0, p, q, h => by simp [poolAfter] at h; simp [poolT, h]
  | n + 1, p, q, h => by
    simp only [poolAfter] at h
    split at h
    · cases h
    · next r hr =>
      have := sub_some hr
      rw [poolT, ← this.2.2]
      exact poolAfter_some h

theorem poolT_le (P : Params) : ∀ (n p : Nat), poolT P n p ≤ p
  | 0, p => Nat.le_refl _
  | n + 1, p => Nat.le_trans (poolT_le P n _) (Nat.sub_le _ _)

theorem poolT_succ (P : Params) : ∀ (n p : Nat), poolT P (n + 1) p = poolT P n p - yearOf P (poolT P n p)
  | 0, p => rfl
  | n + 1, p => by
    rw [poolT, poolT_succ P n]
    rfl

theorem poolT_antitone (P : Params) (p : Nat) {n m : Nat} (h : n ≤ m) : poolT P m p ≤ poolT P n p := by
  induction h with
  | refl => exact Nat.le_refl _
  | step _ ih => rw [poolT_succ]; exact Nat.le_trans (Nat.sub_le _ _) ih

/-- prefix-closedness: the year loop that succeeds for `m` years succeeds for fewer -/
theorem poolAfter_prefix {P : Params} : ∀ {n m p : Nat}, n ≤ m → (poolAfter P m p).isSome → (poolAfter P n p).isSome
  | 0, _, _, _, _ => by simp [poolAfter]
  | n + 1, 0, _, h, _ => by omega
  | n + 1, m + 1, p, h, hm => by
    simp only [poolAfter] at hm ⊢
    split
    · next hr => simp [hr] at hm
    · next r hr =>
      simp only [hr] at hm
      exact poolAfter_prefix (Nat.le_of_succ_le_succ h) hm

/-- total daily amount of batch `b` -/
def batchT (P : Params) (b : Nat) : Nat := yearOf P (poolT P (b / P.days) P.pool) / P.days

theorem mintBatchSize_some {P : Params} {b x : Nat} (h : mintBatchSize P b = some x) :
    x = batchT P b ∧ b / P.days ≤ P.maxYears ∧ 0 < P.days := by
  unfold mintBatchSize at h
  simp only at h
  split at h
  · cases h
  · next hy =>
    split at h
    · cases h
    · next q hq =>
      have hq' := poolAfter_some hq
      have := div_some h
      refine ⟨?_, by omega, by omega⟩
      rw [this.2, batchT, hq']
      simp

theorem batchT_antitone (P : Params) {b b' : Nat} (h : b ≤ b') : batchT P b' ≤ batchT P b := by
  unfold batchT
  apply Nat.div_le_div_right
  apply yearOf_mono
  exact poolT_antitone P _ (Nat.div_le_div_right h)

/-- value of a batch, `0` where the Go code panics -/
def batchVal (P : Params) (b : Nat) : Nat := (mintBatchSize P b).getD 0

theorem batchVal_le (P : Params) (b : Nat) : batchVal P b ≤ batchT P b := by
  unfold batchVal
  cases h : mintBatchSize P b with
  | none => simp
  | some x => simp [(mintBatchSize_some h).1]

/-- cumulative amount of the batches `0 … n-1` -/
def cum (f : Nat → Nat) : Nat → Nat
  | 0 => 0
  | n + 1 => cum f n + f n

theorem cum_le_cum {f g : Nat → Nat} (h : ∀ i, f i ≤ g i) : ∀ n, cum f n ≤ cum g n
  | 0 => Nat.le_refl _
  | n + 1 => Nat.add_le_add (cum_le_cum h n) (h n)

theorem cum_const_range (f : Nat → Nat) (c : Nat) : ∀ (a k : Nat), (∀ i, a ≤ i → i < a + k → f i = c) →
    cum f (a + k) = cum f a + k * c
  | a, 0, _ => by simp
  | a, k + 1, h => by
    rw [← Nat.add_assoc, cum, cum_const_range f c a k (fun i h1 h2 => h i h1 (by omega)),
      h (a + k) (by omega) (by omega), Nat.add_mul]
    omega

theorem batchT_in_year (P : Params) (hd : 0 < P.days) (Y i : Nat) (h1 : Y * P.days ≤ i) (h2 : i < Y * P.days + P.days) :
    batchT P i = yearOf P (poolT P Y P.pool) / P.days := by
  have : i / P.days = Y := Nat.div_eq_of_lt_le h1 (by rw [Nat.succ_mul]; exact h2)
  simp [batchT, this]

theorem cum_years (P : Params) (hd : 0 < P.days) (hden : 0 < P.den) (hnum : P.num ≤ P.den) :
    ∀ Y, cum (batchT P) (Y * P.days) + poolT P Y P.pool ≤ P.pool
  | 0 => by simp [cum, poolT]
  | Y + 1 => by
    have ih := cum_years P hd hden hnum Y
    have hc := cum_const_range (batchT P) (yearOf P (poolT P Y P.pool) / P.days) (Y * P.days) P.days
      (fun i h1 h2 => batchT_in_year P hd Y i h1 h2)
    have hy := yearOf_le P hden hnum (poolT P Y P.pool)
    have hm : P.days * (yearOf P (poolT P Y P.pool) / P.days) ≤ yearOf P (poolT P Y P.pool) := Nat.mul_div_le _ _
    rw [Nat.succ_mul, hc, poolT_succ]
    omega

theorem cum_batchT_le_pool (P : Params) (hd : 0 < P.days) (hden : 0 < P.den) (hnum : P.num ≤ P.den) (n : Nat) :
    cum (batchT P) n ≤ P.pool := by
  have hY := cum_years P hd hden hnum (n / P.days)
  have hk : n % P.days < P.days := Nat.mod_lt _ hd
  have hc := cum_const_range (batchT P) (yearOf P (poolT P (n / P.days) P.pool) / P.days) (n / P.days * P.days) (n % P.days)
      (fun i h1 h2 => batchT_in_year P hd _ i h1 (by omega))
  have hn : n / P.days * P.days + n % P.days = n := by rw [Nat.mul_comm]; exact Nat.div_add_mod n P.days
  rw [hn] at hc
  have hy := yearOf_le P hden hnum (poolT P (n / P.days) P.pool)
  have hm : P.days * (yearOf P (poolT P (n / P.days) P.pool) / P.days) ≤ yearOf P (poolT P (n / P.days) P.pool) := Nat.mul_div_le _ _
  have hkm : n % P.days * (yearOf P (poolT P (n / P.days) P.pool) / P.days) ≤ P.days * (yearOf P (poolT P (n / P.days) P.pool) / P.days) :=
    Nat.mul_le_mul_right _ (Nat.le_of_lt hk)
  omega

/-- `f i + f (i+1) + … + f (i+k-1)` -/
def sumFrom (f : Nat → Nat) : Nat → Nat → Nat
  | _, 0 => 0
  | i, k + 1 => f i + sumFrom f (i + 1) k

/-- batch `b` is defined and positive -/
def PosBatch (P : Params) (b : Nat) : Prop := ∃ x, 0 < x ∧ mintBatchSize P b = some x

theorem multiLoop_some_iff (P : Params) : ∀ (cnt i acc s : Nat),
    multiLoop P cnt i acc = some s ↔
      (∀ j, j < cnt → PosBatch P (i + j)) ∧ s = acc + sumFrom (batchVal P) i cnt
  | 0, i, acc, s => by
    simp only [multiLoop, sumFrom]
    constructor
    · intro h; cases h; exact ⟨fun j hj => absurd hj (Nat.not_lt_zero _), rfl⟩
    · rintro ⟨_, h⟩; simp [h]
  | cnt + 1, i, acc, s => by
    simp only [multiLoop, sumFrom]
    constructor
    · intro h
      split at h
      · cases h
      · next x hx =>
        split at h
        · cases h
        · next a ha =>
          have hadd := add_some ha
          have ih := (multiLoop_some_iff P cnt (i + 1) a s).mp h
          refine ⟨?_, ?_⟩
          · intro j hj
            cases j with
            | zero => exact ⟨x, hadd.1, hx⟩
            | succ j =>
              have := ih.1 j (by omega)
              rwa [show i + 1 + j = i + (j + 1) by omega] at this
          · have hv : batchVal P i = x := by simp [batchVal, hx]
            rw [ih.2, hadd.2, hv]; omega
    · rintro ⟨hpos, hs⟩
      obtain ⟨x, hx0, hx⟩ := hpos 0 (by omega)
      simp only [Nat.add_zero] at hx
      have hv : batchVal P i = x := by simp [batchVal, hx]
      have ha : add acc x = some (acc + x) := by simp [add]; omega
      simp only [hx, ha]
      apply (multiLoop_some_iff P cnt (i + 1) (acc + x) s).mpr
      refine ⟨?_, ?_⟩
      · intro j hj
        have := hpos (j + 1) (by omega)
        rwa [show i + (j + 1) = i + 1 + j by omega] at this
      · rw [hs, hv]; omega

def workT (p : Nat × Nat) : Nat := ofUint p.1 * 120 / 100 + ofUint p.2
theorem workOf_eq (l s : Nat) : workOf l s = some (workT (l, s)) := by
  unfold workOf workT
  have h1 : mul (ofUint l) 120 = some (ofUint l * 120) := by simp [mul]
  have h2 : div (ofUint l * 120) 100 = some (ofUint l * 120 / 100) := by simp [div]
  rw [h1]; simp only; rw [h2]; simp only
  by_cases hs : s > 0
  · have h3 : add (ofUint l * 120 / 100) (ofUint s) = some (ofUint l * 120 / 100 + ofUint s) := by
      unfold add
      have : ¬ ofUint s = 0 := by
        unfold ofUint; exact Nat.ne_of_gt (Nat.mul_pos hs (Nat.pow_pos (by decide)))
      simp [this]
    simp only [hs, if_true, h3]
  · have h0 : s = 0 := by omega
    have hz : ofUint 0 = 0 := Nat.zero_mul _
    subst h0
    rw [if_neg hs, hz, Nat.add_zero]
theorem worksOf_eq : ∀ (works : List (Nat × Nat)), worksOf works = some (works.map workT)
  | [] => rfl
  | (l, s) :: rest => by
    rw [worksOf, workOf_eq, worksOf_eq rest]; rfl

/-- total version of `adjust` -/
def adjT (avg w : Nat) : Nat :=
  if w ≥ avg * 7 then avg * 2
  else if w ≥ avg then w / 6 + avg * 5 / 6
  else if w ≤ avg / 7 then avg / 7
  else w
theorem adjust_some {avg w a : Nat} (h : adjust avg w = some a) : a = adjT avg w := by
  unfold adjust at h
  have m7 : mul avg 7 = some (avg * 7) := by simp [mul]
  have d7 : div avg 7 = some (avg / 7) := by simp [div]
  have m2 : mul avg 2 = some (avg * 2) := by simp [mul]
  have m5 : mul avg 5 = some (avg * 5) := by simp [mul]
  have d6 : ∀ x, div x 6 = some (x / 6) := by intro x; simp [div]
  rw [m7, d7] at h
  simp only [m2, m5, d6] at h
  unfold adjT
  split at h
  · next h1 => rw [if_pos h1]; cases h; rfl
  · next h1 =>
    rw [if_neg h1]
    split at h
    · next h2 =>
      rw [if_pos h2]
      exact (add_some h).2
    · next h2 =>
      rw [if_neg h2]
      split at h
      · next h3 => rw [if_pos h3]; cases h; rfl
      · next h3 => rw [if_neg h3]; cases h; rfl

theorem adjT_mono (avg : Nat) {w w' : Nat} (h : w ≤ w') : adjT avg w ≤ adjT avg w' := by
  unfold adjT
  by_cases a1 : w ≥ avg * 7 <;> by_cases a2 : w' ≥ avg * 7 <;> by_cases b1 : w ≥ avg <;> by_cases b2 : w' ≥ avg <;>
    by_cases c1 : w ≤ avg / 7 <;> by_cases c2 : w' ≤ avg / 7 <;> simp only [a1, a2, b1, b2, c1, c2, if_true, if_false] <;> omega

theorem adjT_le (avg w : Nat) : adjT avg w ≤ 2 * avg := by
  unfold adjT
  by_cases a1 : w ≥ avg * 7 <;> by_cases b1 : w ≥ avg <;> by_cases c1 : w ≤ avg / 7 <;>
    simp only [a1, b1, c1, if_true, if_false] <;> omega

theorem adjT_ge (avg w : Nat) : avg / 7 ≤ adjT avg w := by
  unfold adjT
  by_cases a1 : w ≥ avg * 7 <;> by_cases b1 : w ≥ avg <;> by_cases c1 : w ≤ avg / 7 <;>
    simp only [a1, b1, c1, if_true, if_false] <;> omega

/-- total statistics of the first loop -/
def statStepT (s : Stats) (w : Nat) : Stats :=
  if w = 0 then s else
  ⟨s.valid + 1, (if s.minW = 0 then w else if w < s.minW then w else s.minW),
    (if w > s.maxW then w else s.maxW), s.totalW + w⟩

theorem statStep_some {s s' : Stats} {w : Nat} (h : statStep s w = some s') : s' = statStepT s w := by
  unfold statStep at h
  unfold statStepT
  by_cases hw : w = 0
  · rw [if_pos hw] at h ⊢; cases h; rfl
  · rw [if_neg hw] at h ⊢
    simp only at h
    cases hadd : add s.totalW w with
    | none => rw [hadd] at h; cases h
    | some t => rw [hadd] at h; have := add_some hadd; cases h; rw [this.2]

theorem statLoop_some : ∀ {ws : List Nat} {s s' : Stats}, statLoop ws s = some s' → s' = ws.foldl statStepT s
  | [], s, s', h => by rw [statLoop] at h; cases h; rfl
  | w :: ws, s, s', h => by
    rw [statLoop] at h
    split at h
    · cases h
    · next s1 h1 =>
      rw [List.foldl_cons, ← statStep_some h1]
      exact statLoop_some h

theorem shareLoop_some {base total : Nat} : ∀ {as ss : List Nat},
    shareLoop base total as = some ss → ss = as.map (fun a => base * a / total) ∧ (as ≠ [] → 0 < total)
  | [], ss, h => by rw [shareLoop] at h; cases h; exact ⟨rfl, fun h => absurd rfl h⟩
  | a :: as, ss, h => by
    rw [shareLoop] at h
    split at h
    · next r ss' hr hs =>
      have ih := shareLoop_some hs
      cases h
      unfold ration at hr
      split at hr
      · cases hr
      · next ht =>
        cases hr
        refine ⟨?_, fun _ => by omega⟩
        rw [List.map_cons, ← ih.1]
        simp only [Ratio.product]
    · cases h

theorem adjustLoop_some {avg : Nat} : ∀ {ws : List Nat} {tot : Nat} {as : List Nat} {t' : Nat},
    adjustLoop avg ws tot = some (as, t') → as = ws.map (adjT avg) ∧ t' = tot + as.sum ∧ ∀ a ∈ as, 0 < a
  | [], tot, as, t', h => by
    rw [adjustLoop] at h
    cases h
    exact ⟨rfl, rfl, fun a ha => absurd ha (List.not_mem_nil)⟩
  | w :: ws, tot, as, t', h => by
    rw [adjustLoop] at h
    cases ha : adjust avg w with
    | none => rw [ha] at h; cases h
    | some a =>
      rw [ha] at h; simp only at h
      cases ht : add tot a with
      | none => rw [ht] at h; cases h
      | some t =>
        rw [ht] at h; simp only at h
        cases hrec : adjustLoop avg ws t with
        | none => rw [hrec] at h; cases h
        | some pr =>
          obtain ⟨as', t''⟩ := pr
          rw [hrec] at h; simp only at h
          have ih := adjustLoop_some hrec
          have hadd := add_some ht
          cases h
          refine ⟨?_, ?_, ?_⟩
          · rw [List.map_cons, ← ih.1, ← adjust_some ha]
          · rw [ih.2.1, hadd.2, List.sum_cons]; omega
          · intro x hx
            rcases List.mem_cons.mp hx with hx | hx
            · subst hx; exact hadd.1
            · exact ih.2.2 x hx

/-- the average work the distribution uses -/
def statT (works : List (Nat × Nat)) : Stats := (works.map workT).foldl statStepT ⟨0, 0, 0, 0⟩
def avgT (works : List (Nat × Nat)) : Nat :=
  ((statT works).totalW - (statT works).minW - (statT works).maxW) / ((statT works).valid - 2)
def validT (works : List (Nat × Nat)) : Nat := (statT works).valid

/-- the adjusted works and the share function the distribution applies -/
def adjWorks (works : List (Nat × Nat)) : List Nat := (works.map workT).map (adjT (avgT works))
def shareT (works : List (Nat × Nat)) (base : Nat) (a : Nat) : Nat := base * a / (adjWorks works).sum

theorem distributeByWorks_ok {works : List (Nat × Nat)} {base thr : Nat} {shares : List Nat}
    (h : distributeByWorks works base thr = .ok shares) :
    thr ≤ validT works ∧ 0 < avgT works ∧ (∀ a ∈ adjWorks works, 0 < a) ∧
      (works ≠ [] → 0 < (adjWorks works).sum) ∧ shares = (adjWorks works).map (shareT works base) := by
  unfold distributeByWorks at h
  rw [worksOf_eq] at h
  simp only at h
  cases hst : statLoop (works.map workT) ⟨0, 0, 0, 0⟩ with
  | none => rw [hst] at h; cases h
  | some st =>
    rw [hst] at h; simp only at h
    have hst' : st = statT works := statLoop_some hst
    by_cases hv : st.valid < thr
    · rw [if_pos hv] at h; cases h
    · rw [if_neg hv] at h
      cases h1 : sub st.totalW st.minW with
      | none => rw [h1] at h; cases h
      | some t1 =>
        rw [h1] at h; simp only at h
        cases h2 : sub t1 st.maxW with
        | none => rw [h2] at h; cases h
        | some t2 =>
          rw [h2] at h; simp only at h
          cases h3 : div t2 ((st.valid : Int) - 2) with
          | none => rw [h3] at h; cases h
          | some avg =>
            rw [h3] at h; simp only at h
            by_cases hz : avg = 0
            · rw [if_pos hz] at h; cases h
            · rw [if_neg hz] at h
              cases hadj : adjustLoop avg (works.map workT) 0 with
              | none => rw [hadj] at h; cases h
              | some pr =>
                obtain ⟨adj, total⟩ := pr
                rw [hadj] at h; simp only at h
                cases hss : shareLoop base total adj with
                | none => rw [hss] at h; cases h
                | some ss =>
                  rw [hss] at h; simp only at h
                  cases h
                  have e1 := sub_some h1
                  have e2 := sub_some h2
                  have e3 := div_some h3
                  have havgT : avg = avgT works := by
                    unfold avgT
                    rw [← hst', e3.2, e2.2.2, e1.2.2]
                    congr 1
                    omega
                  have ha := adjustLoop_some hadj
                  have hs := shareLoop_some hss
                  have hadjW : adj = adjWorks works := by rw [ha.1, adjWorks, ← havgT]
                  have htot : total = (adjWorks works).sum := by rw [ha.2.1, hadjW, Nat.zero_add]
                  refine ⟨?_, ?_, ?_, ?_, ?_⟩
                  · unfold validT; rw [← hst']; omega
                  · omega
                  · rw [← hadjW]; exact ha.2.2
                  · intro hne
                    rw [← htot]
                    apply hs.2
                    rw [ha.1]
                    intro hnil
                    apply hne
                    simpa using hnil
                  · rw [hs.1, hadjW, htot]; rfl
theorem sum_map_div_mul_le (base total : Nat) : ∀ (as : List Nat),
    (as.map (fun a => base * a / total)).sum * total ≤ base * as.sum
  | [] => by simp
  | a :: as => by
    have ih := sum_map_div_mul_le base total as
    have h1 : base * a / total * total ≤ base * a := Nat.div_mul_le_self _ _
    rw [List.map_cons, List.sum_cons, List.sum_cons, Nat.add_mul, Nat.mul_add]
    omega

theorem sumLoop_some : ∀ {ms : List Nat} {t t' : Nat}, sumLoop ms t = some t' →
    t' = t + ms.sum ∧ ∀ m ∈ ms, 0 < m
  | [], t, t', h => by rw [sumLoop] at h; cases h; exact ⟨rfl, fun m hm => absurd hm List.not_mem_nil⟩
  | m :: ms, t, t', h => by
    rw [sumLoop] at h
    cases ha : add t m with
    | none => rw [ha] at h; cases h
    | some t1 =>
      rw [ha] at h; simp only at h
      have ih := sumLoop_some h
      have hadd := add_some ha
      refine ⟨by rw [ih.1, hadd.2, List.sum_cons]; omega, ?_⟩
      intro x hx
      rcases List.mem_cons.mp hx with hx | hx
      · subst hx; exact hadd.1
      · exact ih.2 x hx

theorem tenths_some {amount z : Nat} {k : Int} (h : tenths amount k = some z) : 0 < k ∧ z = amount / 10 * k.toNat := by
  unfold tenths at h
  have d : div amount 10 = some (amount / 10) := by simp [div]
  rw [d] at h
  exact mul_some h

theorem buildOutputs_tx {batch amount : Nat} {dist : Nat → DistOut} {mints : List Nat} {safe light : Nat}
    (h : buildOutputs batch amount dist = .tx mints safe light) :
    0 < amount ∧ legacyEnding < batch ∧ dist (amount / 10 * 5) = .ok mints ∧ safe = amount / 10 * 4 ∧
      0 < safe ∧ (∀ m ∈ mints, 0 < m) ∧ mints.sum + safe + light = amount := by
  unfold buildOutputs at h
  by_cases h0 : amount = 0 ∨ batch ≤ legacyEnding
  · rw [if_pos h0] at h; cases h
  · rw [if_neg h0] at h
    cases hk : tenths amount 5 with
    | none => rw [hk] at h; cases h
    | some kernel =>
      rw [hk] at h; simp only at h
      have ek := tenths_some hk
      cases hd : dist kernel with
      | err => rw [hd] at h; cases h
      | panic => rw [hd] at h; cases h
      | ok ms =>
        rw [hd] at h; simp only at h
        cases hs : sumLoop ms 0 with
        | none => rw [hs] at h; cases h
        | some total =>
          rw [hs] at h; simp only at h
          by_cases hgt : total > amount
          · rw [if_pos hgt] at h; cases h
          · rw [if_neg hgt] at h
            cases hsafe : tenths amount 4 with
            | none => rw [hsafe] at h; cases h
            | some sf =>
              rw [hsafe] at h; simp only at h
              have es := tenths_some hsafe
              cases ha : add total sf with
              | none => rw [ha] at h; cases h
              | some total2 =>
                rw [ha] at h; simp only at h
                by_cases hgt2 : total2 > amount
                · rw [if_pos hgt2] at h; cases h
                · rw [if_neg hgt2] at h
                  cases hl : sub amount total2 with
                  | none => rw [hl] at h; cases h
                  | some li =>
                    rw [hl] at h; simp only at h
                    cases h
                    have e1 := sumLoop_some hs
                    have e2 := add_some ha
                    have e3 := sub_some hl
                    have hk5 : kernel = amount / 10 * 5 := by rw [ek.2]; rfl
                    have hs4 : safe = amount / 10 * 4 := by rw [es.2]; rfl
                    refine ⟨by omega, by omega, by rw [← hk5]; exact hd, hs4, e2.1, e1.2, ?_⟩
                    have := e1.1
                    omega
end Mixin.Mint
