import Mixin.Model.Membership
import Mathlib.Data.List.Sort
/-!
Helper lemmas about `Mixin.Model.Membership`: insertion sort is a canonical form, the `break` loop
is a filter on timestamp-sorted input, the reverse scan selects the full prefix.
-/
namespace Mixin.Membership

/-- `a` does not come after `b` in the `(ts, id)` order -/
def LeRec (a b : Rec) : Prop := ¬ recLt b a = true

def Sorted (l : List Rec) : Prop := l.Pairwise LeRec
def SortedTs (l : List Rec) : Prop := l.Pairwise (fun a b => a.ts ≤ b.ts)
/-- no two records with the same `(ts, id)` (Badger key = timestamp ‖ signer) -/
def DistinctKeys (l : List Rec) : Prop := l.Pairwise (fun a b => ¬ (a.ts = b.ts ∧ a.id = b.id))

theorem recLt_iff (a b : Rec) : recLt a b = true ↔ a.ts < b.ts ∨ (a.ts = b.ts ∧ a.id < b.id) := by
  simp [recLt]

theorem leRec_iff (a b : Rec) : LeRec a b ↔ a.ts < b.ts ∨ (a.ts = b.ts ∧ a.id ≤ b.id) := by
  unfold LeRec; rw [recLt_iff]; omega

theorem leRec_ts {a b : Rec} (h : LeRec a b) : a.ts ≤ b.ts := by
  rw [leRec_iff] at h; omega

theorem leRec_trans {a b c : Rec} (h1 : LeRec a b) (h2 : LeRec b c) : LeRec a c := by
  rw [leRec_iff] at *; omega

theorem leRec_of_lt {a b : Rec} (h : recLt a b = true) : LeRec a b := by
  rw [recLt_iff] at h; rw [leRec_iff]; omega

theorem leRec_of_not_lt {a b : Rec} (h : ¬ recLt a b = true) : LeRec b a := h

theorem insertRec_perm (r : Rec) (l : List Rec) : (insertRec r l).Perm (r :: l) := by
  induction l with
  | nil => simp [insertRec]
  | cons x xs ih =>
    unfold insertRec
    split
    · exact List.Perm.refl _
    · exact (List.Perm.cons x ih).trans (List.Perm.swap r x xs)

theorem sortRecs_perm (l : List Rec) : (sortRecs l).Perm l := by
  induction l with
  | nil => exact List.Perm.refl _
  | cons x xs ih =>
    show (insertRec x (sortRecs xs)).Perm (x :: xs)
    exact (insertRec_perm x _).trans (List.Perm.cons x ih)

theorem mem_sortRecs {l : List Rec} {r : Rec} : r ∈ sortRecs l ↔ r ∈ l := (sortRecs_perm l).mem_iff

theorem insertRec_sorted (r : Rec) (l : List Rec) (h : Sorted l) : Sorted (insertRec r l) := by
  induction l with
  | nil => simp [insertRec, Sorted]
  | cons x xs ih =>
    unfold Sorted at h ih ⊢
    rw [List.pairwise_cons] at h
    unfold insertRec
    split
    · next hlt =>
      rw [List.pairwise_cons]
      refine ⟨?_, List.pairwise_cons.2 h⟩
      intro y hy
      rcases List.mem_cons.1 hy with hy | hy
      · rw [hy]; exact leRec_of_lt hlt
      · exact leRec_trans (leRec_of_lt hlt) (h.1 y hy)
    · next hnlt =>
      rw [List.pairwise_cons]
      refine ⟨?_, ih h.2⟩
      intro y hy
      rcases List.mem_cons.1 ((insertRec_perm r xs).mem_iff.1 hy) with hy | hy
      · rw [hy]; exact leRec_of_not_lt hnlt
      · exact h.1 y hy

theorem sortRecs_sorted (l : List Rec) : Sorted (sortRecs l) := by
  induction l with
  | nil => simp [sortRecs, Sorted]
  | cons x xs ih => exact insertRec_sorted x _ ih

theorem sorted_ts {l : List Rec} (h : Sorted l) : SortedTs l :=
  List.Pairwise.imp (fun hab => leRec_ts hab) h

theorem distinct_eq {l : List Rec} (hd : DistinctKeys l) {a b : Rec} (ha : a ∈ l) (hb : b ∈ l)
    (hts : a.ts = b.ts) (hid : a.id = b.id) : a = b := by
  induction l with
  | nil => cases ha
  | cons x xs ih =>
    unfold DistinctKeys at hd ih
    rw [List.pairwise_cons] at hd
    rcases List.mem_cons.1 ha with ha' | ha' <;> rcases List.mem_cons.1 hb with hb' | hb'
    · rw [ha', hb']
    · rw [ha'] at hts hid; exact absurd ⟨hts, hid⟩ (hd.1 b hb')
    · rw [hb'] at hts hid; exact absurd ⟨hts.symm, hid.symm⟩ (hd.1 a ha')
    · exact ih hd.2 ha' hb'

/-- insertion sort is a canonical form on record sets with distinct keys -/
theorem sorted_perm_eq {l1 l2 u : List Rec} (hu : DistinctKeys u) (h1 : ∀ a ∈ l1, a ∈ u) (h2 : ∀ b ∈ l2, b ∈ u)
    (s1 : Sorted l1) (s2 : Sorted l2) (hp : l1.Perm l2) : l1 = l2 := by
  refine List.Perm.eq_of_pairwise (le := LeRec) ?_ s1 s2 hp
  intro a b ha hb hab hba
  rw [leRec_iff] at hab hba
  exact distinct_eq hu (h1 a ha) (h2 b hb) (by omega) (by omega)

theorem sortRecs_canonical {l1 l2 : List Rec} (hp : l1.Perm l2) (hd : DistinctKeys l1) :
    sortRecs l1 = sortRecs l2 :=
  sorted_perm_eq hd (fun _ h => mem_sortRecs.1 h) (fun _ h => hp.mem_iff.2 (mem_sortRecs.1 h))
    (sortRecs_sorted l1) (sortRecs_sorted l2)
    ((sortRecs_perm l1).trans (hp.trans (sortRecs_perm l2).symm))

/-! ### the `break` loop is a filter on timestamp-sorted input -/

theorem filterLoop_eq (thr : Nat) (all m : List Rec) (hs : SortedTs all) :
    filterLoop thr all m = (all.filter (fun n => decide (n.ts < thr))).foldl upsert m := by
  induction all generalizing m with
  | nil => rfl
  | cons n rest ih =>
    unfold SortedTs at hs ih
    rw [List.pairwise_cons] at hs
    unfold filterLoop
    by_cases hge : n.ts ≥ thr
    · have hnone : (n :: rest).filter (fun n => decide (n.ts < thr)) = [] := by
        rw [List.filter_eq_nil_iff]
        intro x hx
        rcases List.mem_cons.1 hx with hx | hx
        · rw [hx]; simp; omega
        · have := hs.1 x hx; simp; omega
      rw [hnone]; simp [hge]
    · have hlt : n.ts < thr := by omega
      simp only [hge, if_false, List.filter, hlt, decide_true, List.foldl_cons]
      exact ih _ hs.2

/-! ### the reverse scan selects the whole prefix below the threshold -/

theorem nodesList_eq_nodeSeq (all : List Rec) (thr : Nat) (acc : Bool) (hs : SortedTs all) :
    nodesList all thr acc = nodeSeq all thr acc := by
  unfold nodesList
  cases hf : all.reverse.find? (fun n => decide (n.ts < thr)) with
  | none =>
    rw [List.find?_eq_none] at hf
    have hnone : all.filter (fun n => decide (n.ts < thr)) = [] := by
      rw [List.filter_eq_nil_iff]; intro x hx; exact hf x (List.mem_reverse.2 hx)
    simp only [nodeSeq, filterLoop_eq thr all [] hs, hnone]
    rfl
  | some n =>
    rw [List.find?_eq_some_iff_append] at hf
    obtain ⟨hn, as, bs, hrev, has⟩ := hf
    have hall : all = bs.reverse ++ n :: as.reverse := by
      have := congrArg List.reverse hrev
      simpa using this
    have hnlt : n.ts < thr := by simpa using hn
    have hcongr : all.filter (fun x => decide (x.ts < n.ts + 1)) = all.filter (fun x => decide (x.ts < thr)) := by
      apply List.filter_congr
      intro x hx
      rw [hall] at hx hs
      unfold SortedTs at hs
      rw [List.pairwise_append] at hs
      rcases List.mem_append.1 hx with hx | hx
      · have := hs.2.2 x hx n (by simp)
        simp; omega
      · rcases List.mem_cons.1 hx with hx | hx
        · rw [hx]; simp; omega
        · have h1 := has x (List.mem_reverse.1 hx)
          have h2 := (List.pairwise_cons.1 hs.2.1).1 x hx
          simp at h1
          simp; omega
    simp only [nodeSeq, filterLoop_eq _ all [] hs, hcongr]

/-- the pre-built sequences of `buildNodeStateSequences` scanned by `NodesListWithoutState` give what
    `nodesList` computes directly -/
theorem scan_build (all : List Rec) (thr : Nat) (acc : Bool) :
    scanSeqs (buildSeqs all acc) thr = nodesList all thr acc := by
  unfold scanSeqs buildSeqs nodesList
  rw [← List.map_reverse, List.find?_map]
  cases h : all.reverse.find? (fun n => decide (n.ts < thr)) with
  | none =>
    have : List.find? ((fun s : Nat × List CNode => decide (s.1 < thr)) ∘ fun n => (n.ts, nodeSeq all (n.ts + 1) acc)) all.reverse = none := by
      rw [List.find?_eq_none] at h ⊢; intro x hx; exact h x hx
    rw [this]; rfl
  | some n =>
    have : List.find? ((fun s : Nat × List CNode => decide (s.1 < thr)) ∘ fun n => (n.ts, nodeSeq all (n.ts + 1) acc)) all.reverse = some n := by
      rw [← h]; rfl
    rw [this]; rfl

/-! ### records at or after `t` do not change what is seen below `t` -/

theorem filter_sort_stable (h later : List Rec) (t : Nat) (hl : ∀ r ∈ later, t ≤ r.ts)
    (hd : DistinctKeys (h ++ later)) :
    (sortRecs (h ++ later)).filter (fun n => decide (n.ts < t)) = (sortRecs h).filter (fun n => decide (n.ts < t)) := by
  have hlater : later.filter (fun n => decide (n.ts < t)) = [] := by
    rw [List.filter_eq_nil_iff]; intro x hx; have := hl x hx; simp; omega
  apply sorted_perm_eq hd
  · intro a ha; exact mem_sortRecs.1 (List.mem_filter.1 ha).1
  · intro b hb; exact List.mem_append_left _ (mem_sortRecs.1 (List.mem_filter.1 hb).1)
  · exact List.Pairwise.filter _ (sortRecs_sorted _)
  · exact List.Pairwise.filter _ (sortRecs_sorted _)
  · have p1 := (sortRecs_perm (h ++ later)).filter (fun n => decide (n.ts < t))
    have p2 := (sortRecs_perm h).filter (fun n => decide (n.ts < t))
    rw [List.filter_append, hlater, List.append_nil] at p1
    exact p1.trans p2.symm

/-- **list_prefix_stable** at the level of record lists: loading a history extended by records with
    timestamps `≥ t` gives the same `NodesListWithoutState(t, ·)`. -/
theorem nodesList_prefix_stable (h later : List Rec) (t : Nat) (acc : Bool) (hl : ∀ r ∈ later, t ≤ r.ts)
    (hd : DistinctKeys (h ++ later)) :
    nodesList (sortRecs (h ++ later)) t acc = nodesList (sortRecs h) t acc := by
  rw [nodesList_eq_nodeSeq _ _ _ (sorted_ts (sortRecs_sorted _)),
    nodesList_eq_nodeSeq _ _ _ (sorted_ts (sortRecs_sorted _))]
  simp only [nodeSeq, filterLoop_eq _ _ [] (sorted_ts (sortRecs_sorted _)), filter_sort_stable h later t hl hd]

end Mixin.Membership
