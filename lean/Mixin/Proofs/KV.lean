import Mixin.Model.KV
/-! Lemmas about the association-list `Map` of `Mixin.Model.KV`. -/
namespace Mixin.KV.Map
variable {κ ν : Type} [DecidableEq κ]

theorem get_set (m : Map κ ν) (k k' : κ) (v : ν) :
    (m.set k v).get k' = if k = k' then some v else m.get k' := by
  induction m with
  | nil => simp [set, get]
  | cons p r ih =>
    obtain ⟨a, b⟩ := p
    by_cases h1 : a = k
    · subst h1
      by_cases h2 : a = k' <;> simp [set, get, h2]
    · by_cases h2 : a = k'
      · subst h2
        have : ¬ k = a := fun e => h1 e.symm
        simp [set, get, h1, this]
      · simp [set, get, h1, h2, ih]

theorem get_set_same (m : Map κ ν) (k : κ) (v : ν) : (m.set k v).get k = some v := by
  simp [get_set]

theorem get_set_ne (m : Map κ ν) {k k' : κ} (v : ν) (h : k ≠ k') : (m.set k v).get k' = m.get k' := by
  simp [get_set, h]

theorem get_del (m : Map κ ν) (k k' : κ) :
    (m.del k).get k' = if k = k' then none else m.get k' := by
  induction m with
  | nil => simp [del, get]
  | cons p r ih =>
    obtain ⟨a, b⟩ := p
    by_cases h1 : a = k
    · subst h1
      by_cases h2 : a = k'
      · subst h2; simp [del, ih]
      · simp [del, get, h2, ih]
    · by_cases h2 : a = k'
      · subst h2
        have : ¬ k = a := fun e => h1 e.symm
        simp [del, get, h1, this]
      · simp [del, get, h1, h2, ih]

theorem get_del_same (m : Map κ ν) (k : κ) : (m.del k).get k = none := by simp [get_del]

theorem get_del_ne (m : Map κ ν) {k k' : κ} (h : k ≠ k') : (m.del k).get k' = m.get k' := by
  simp [get_del, h]

/-- writing the value that is already stored leaves the list itself unchanged -/
theorem set_same (m : Map κ ν) (k : κ) (v : ν) (h : m.get k = some v) : m.set k v = m := by
  induction m with
  | nil => simp [get] at h
  | cons p r ih =>
    obtain ⟨a, b⟩ := p
    by_cases h1 : a = k
    · subst h1
      simp [get] at h
      simp [set, h]
    · simp [get, h1] at h
      simp [set, h1, ih h]

/-- `del` never makes a key appear -/
theorem get_del_some {m : Map κ ν} {k k' : κ} {v : ν} (h : (m.del k).get k' = some v) : m.get k' = some v := by
  rw [get_del] at h
  split at h
  · cases h
  · exact h

theorem mem_of_get {m : Map κ ν} {k : κ} {v : ν} (h : m.get k = some v) : (k, v) ∈ m := by
  induction m with
  | nil => simp [get] at h
  | cons p r ih =>
    obtain ⟨a, b⟩ := p
    by_cases e : a = k
    · subst e; simp [get] at h; subst h; exact List.mem_cons_self
    · simp [get, e] at h; exact List.mem_cons_of_mem _ (ih h)

end Mixin.KV.Map
