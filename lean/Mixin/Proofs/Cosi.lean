import Mixin.Model.Cosi
import Mathlib.Data.Nat.ModEq
import Mathlib.Data.List.Perm.Basic
import Mathlib.Algebra.BigOperators.Group.List.Basic
import Mathlib.Tactic.Ring
/-!
Helper lemmas about `Mixin.Cosi` (shared by the C13 and C14 property files): mask keys,
signer collection, sums modulo ℓ.
-/
namespace Mixin.Cosi

theorem ell_pos : 0 < ell := by decide

/-! ## decoding -/

theorem decode_some {P : Pt} {d : Nat} (h : P.decode = some d) :
    ∃ e, P = Pt.dl e ∧ d = e % ell ∧ d ≠ 0 ∧ d < ell := by
  cases P with
  | bad => simp [Pt.decode] at h
  | dl e =>
    refine ⟨e, rfl, ?_⟩
    by_cases h0 : e % ell = 0
    · simp [Pt.decode, h0] at h
    · simp [Pt.decode, h0] at h
      subst h
      exact ⟨rfl, h0, Nat.mod_lt _ ell_pos⟩

theorem decode_dl (d : Nat) (h : d % ell ≠ 0) : (Pt.dl d).decode = some (d % ell) := by
  simp [Pt.decode, h]

theorem decode_dl_zero (d : Nat) (h : d % ell = 0) : (Pt.dl d).decode = none := by
  simp [Pt.decode, h]

/-! ## mask keys -/

theorem mem_keys {m i : Nat} : i ∈ keys m ↔ i < 64 ∧ m.testBit i = true := by
  simp [keys, List.mem_filter, List.mem_range]

theorem keys_pairwise (m : Nat) : (keys m).Pairwise (· < ·) :=
  List.Pairwise.filter _ List.pairwise_lt_range

theorem keys_nodup (m : Nat) : (keys m).Nodup :=
  (keys_pairwise m).imp (fun h => Nat.ne_of_lt h)

theorem keys_zero : keys 0 = [] := by decide

/-! ## signer collection -/

/-- what `collectAggregateSigners` demands of a signer list, after index `prev` -/
def WellFormed (publics : List Pt) : Int → List Int → Prop
  | _, [] => True
  | prev, i :: rest =>
    prev < i ∧ i < (publics.length : Int) ∧ (publics.getD i.toNat Pt.bad).decode ≠ none ∧
      WellFormed publics i rest

/-- discrete log of the `i`-th key (0 when it is refused) -/
def dlAt (publics : List Pt) (i : Nat) : Nat := ((publics.getD i Pt.bad).decode).getD 0

theorem collectGo_of_wf (publics : List Pt) (prev : Int) (l : List Int)
    (hw : WellFormed publics prev l) :
    collectGo publics prev l = some (l.map (fun i => (i.toNat, dlAt publics i.toNat))) := by
  induction l generalizing prev with
  | nil => simp [collectGo]
  | cons i rest ih =>
    obtain ⟨h1, h2, h3, h4⟩ := hw
    unfold collectGo
    have h1' : ¬ i ≤ prev := by omega
    have h2' : ¬ i ≥ (publics.length : Int) := by omega
    rw [if_neg h1', if_neg h2']
    cases hd : (publics.getD i.toNat Pt.bad).decode with
    | none => exact absurd hd h3
    | some d =>
      simp only [ih i h4, List.map_cons, dlAt, hd, Option.getD_some]

theorem collectGo_of_not_wf (publics : List Pt) (prev : Int) (l : List Int)
    (hw : ¬ WellFormed publics prev l) : collectGo publics prev l = none := by
  induction l generalizing prev with
  | nil => exact absurd trivial hw
  | cons i rest ih =>
    unfold collectGo
    by_cases h1 : i ≤ prev
    · rw [if_pos h1]
    · rw [if_neg h1]
      by_cases h2 : i ≥ (publics.length : Int)
      · rw [if_pos h2]
      · rw [if_neg h2]
        cases hd : (publics.getD i.toNat Pt.bad).decode with
        | none => rfl
        | some d =>
          have hr : ¬ WellFormed publics i rest := by
            intro h
            exact hw ⟨by omega, by omega, by rw [hd]; exact Option.some_ne_none d, h⟩
          simp only [ih i hr]

theorem wellFormed_iff (publics : List Pt) (prev : Int) (l : List Int) :
    WellFormed publics prev l ↔
      l.Pairwise (· < ·) ∧ ∀ i ∈ l, prev < i ∧ i < (publics.length : Int) ∧
        (publics.getD i.toNat Pt.bad).decode ≠ none := by
  induction l generalizing prev with
  | nil => simp [WellFormed]
  | cons i rest ih =>
    simp only [WellFormed, ih i, List.pairwise_cons, List.mem_cons, forall_eq_or_imp]
    constructor
    · rintro ⟨h1, h2, h3, hp, hall⟩
      refine ⟨⟨fun j hj => (hall j hj).1, hp⟩, ⟨h1, h2, h3⟩, fun j hj => ?_⟩
      obtain ⟨a, b, c⟩ := hall j hj
      exact ⟨by omega, b, c⟩
    · rintro ⟨⟨hlt, hp⟩, ⟨h1, h2, h3⟩, hall⟩
      exact ⟨h1, h2, h3, hp, fun j hj => ⟨hlt j hj, (hall j hj).2⟩⟩

/-- `collectAggregateSigners` succeeds exactly on non-empty, strictly increasing lists of
    indexes inside the key vector whose keys decode. -/
theorem collectSigners_isSome_iff (publics : List Pt) (signers : List Int) :
    (collectSigners publics signers).isSome ↔
      signers ≠ [] ∧ signers.Pairwise (· < ·) ∧
        ∀ i ∈ signers, 0 ≤ i ∧ i < (publics.length : Int) ∧
          (publics.getD i.toNat Pt.bad).decode ≠ none := by
  unfold collectSigners
  cases signers with
  | nil => simp
  | cons a t =>
    have hiff : WellFormed publics (-1) (a :: t) ↔
        (a :: t).Pairwise (· < ·) ∧ ∀ i ∈ a :: t, 0 ≤ i ∧ i < (publics.length : Int) ∧
          (publics.getD i.toNat Pt.bad).decode ≠ none := by
      rw [wellFormed_iff]
      constructor
      · rintro ⟨hp, hall⟩
        exact ⟨hp, fun i hi => ⟨by have := (hall i hi).1; omega, (hall i hi).2⟩⟩
      · rintro ⟨hp, hall⟩
        exact ⟨hp, fun i hi => ⟨by have := (hall i hi).1; omega, (hall i hi).2⟩⟩
    simp only [List.isEmpty_cons, Bool.false_eq_true, if_false]
    by_cases hw : WellFormed publics (-1) (a :: t)
    · rw [collectGo_of_wf _ _ _ hw]
      simpa using hiff.1 hw
    · rw [collectGo_of_not_wf _ _ _ hw]
      simp only [Option.isSome_none, Bool.false_eq_true, false_iff]
      intro h
      exact hw (hiff.2 h.2)

theorem collectSigners_eq_some (publics : List Pt) (signers : List Int)
    (hne : signers ≠ []) (hp : signers.Pairwise (· < ·))
    (hall : ∀ i ∈ signers, 0 ≤ i ∧ i < (publics.length : Int) ∧
      (publics.getD i.toNat Pt.bad).decode ≠ none) :
    collectSigners publics signers =
      some (signers.map (fun i => (i.toNat, dlAt publics i.toNat))) := by
  unfold collectSigners
  have hw : WellFormed publics (-1) signers :=
    (wellFormed_iff publics (-1) signers).2
      ⟨hp, fun i hi => ⟨by have := (hall i hi).1; omega, (hall i hi).2⟩⟩
  cases signers with
  | nil => exact absurd rfl hne
  | cons a t =>
    simp only [List.isEmpty_cons, Bool.false_eq_true, if_false]
    exact collectGo_of_wf _ _ _ hw

theorem collectSigners_eq_none (publics : List Pt) (signers : List Int)
    (h : signers = [] ∨ ¬ signers.Pairwise (· < ·) ∨
      ∃ i ∈ signers, i < 0 ∨ (publics.length : Int) ≤ i ∨
        (publics.getD i.toNat Pt.bad).decode = none) :
    collectSigners publics signers = none := by
  cases hc : collectSigners publics signers with
  | none => rfl
  | some sel =>
    exfalso
    have hs : (collectSigners publics signers).isSome := by rw [hc]; rfl
    obtain ⟨hne, hp, hall⟩ := (collectSigners_isSome_iff publics signers).1 hs
    rcases h with h | h | ⟨i, hi, h⟩
    · exact hne h
    · exact h hp
    · obtain ⟨h0, h1, h2⟩ := hall i hi
      rcases h with h | h | h
      · omega
      · omega
      · exact h2 h

/-! ## sums modulo ℓ -/

theorem foldl_add_mod (l : List Nat) (acc : Nat) :
    (l.foldl (fun a d => (a + d) % ell) acc) % ell = (acc + l.sum) % ell := by
  induction l generalizing acc with
  | nil => simp
  | cons d t ih =>
    simp only [List.foldl_cons, List.sum_cons]
    rw [ih, Nat.add_mod ((acc + d) % ell), Nat.mod_mod, ← Nat.add_mod, Nat.add_assoc]

theorem sumDl_mod (sel : List (Nat × Nat)) : sumDl sel % ell = (sel.map (·.2)).sum % ell := by
  unfold sumDl
  have := foldl_add_mod (sel.map (·.2)) 0
  rw [List.foldl_map] at this
  simpa using this

/-! ## Schnorr check -/

theorem verifyWithChallenge_iff (A R : Pt) (s x : Nat) :
    verifyWithChallenge A R s x = true ↔
      ∃ a r, A.decode = some a ∧ R.decode = some r ∧ s < ell ∧ s = (r + x * a) % ell := by
  unfold verifyWithChallenge
  cases hA : A.decode with
  | none => simp
  | some a =>
    cases hR : R.decode with
    | none => simp
    | some r =>
      simp only [Bool.and_eq_true, decide_eq_true_eq, Option.some.injEq, exists_and_left,
        exists_eq_left']
      constructor
      · rintro ⟨h1, h2⟩
        exact ⟨h1, by rw [← h2, Nat.mod_eq_of_lt h1]⟩
      · rintro ⟨h1, h2⟩
        exact ⟨h1, by rw [Nat.mod_eq_of_lt h1]; exact h2⟩

/-! ## commitments and the mask -/

/-- the entries of a Go `map[int]*Key` whose indexes are natural numbers -/
def castIdx (q : Nat × Pt) : Int × Pt := ((q.1 : Int), q.2)

/-- mask after marking the indexes of `rs` -/
def maskOf : List (Nat × Pt) → Nat → Nat
  | [], m => m
  | (i, _) :: rest, m => maskOf rest (m ^^^ (1 <<< i))

theorem testBit_mark (m i j : Nat) :
    (m ^^^ (1 <<< i)).testBit j = (m.testBit j ^^ decide (i = j)) := by
  rw [Nat.testBit_xor, Nat.one_shiftLeft, Nat.testBit_two_pow]

theorem testBit_maskOf (rs : List (Nat × Pt)) (hnd : (rs.map (·.1)).Nodup) (m j : Nat) :
    (maskOf rs m).testBit j = (m.testBit j ^^ decide (j ∈ rs.map (·.1))) := by
  induction rs generalizing m with
  | nil => simp [maskOf]
  | cons q rest ih =>
    obtain ⟨i, R⟩ := q
    simp only [List.map_cons, List.nodup_cons] at hnd
    simp only [maskOf, List.map_cons, List.mem_cons]
    rw [ih hnd.2, testBit_mark]
    by_cases hij : i = j
    · subst hij
      simp [hnd.1]
    · have : ¬ j = i := fun h => hij h.symm
      simp [hij, this]

theorem mem_keys_maskOf (rs : List (Nat × Pt)) (hnd : (rs.map (·.1)).Nodup)
    (h64 : ∀ q ∈ rs, q.1 < 64) (j : Nat) :
    j ∈ keys (maskOf rs 0) ↔ j ∈ rs.map (·.1) := by
  rw [mem_keys, testBit_maskOf rs hnd]
  simp only [Nat.zero_testBit, Bool.false_bne, decide_eq_true_eq]
  constructor
  · exact fun h => h.2
  · intro h
    refine ⟨?_, h⟩
    obtain ⟨q, hq, rfl⟩ := List.mem_map.1 h
    exact h64 q hq

/-- the mask of a commitment set lists exactly its signers (each once) -/
theorem keys_maskOf_perm (rs : List (Nat × Pt)) (hnd : (rs.map (·.1)).Nodup)
    (h64 : ∀ q ∈ rs, q.1 < 64) : (keys (maskOf rs 0)).Perm (rs.map (·.1)) :=
  (List.perm_ext_iff_of_nodup (keys_nodup _) hnd).2 (mem_keys_maskOf rs hnd h64)

/-- discrete log of a commitment (0 when refused) -/
def dlOf (P : Pt) : Nat := P.decode.getD 0

theorem commitLoop_ok (rs : List (Nat × Pt)) (hdec : ∀ q ∈ rs, q.2.decode ≠ none)
    (h64 : ∀ q ∈ rs, q.1 < 64) (p m : Nat) (cs : List (Int × Pt)) :
    ∃ p', commitLoop (rs.map castIdx) p m cs = some (p', maskOf rs m, cs ++ rs.map castIdx) ∧
      p' % ell = (p + (rs.map (fun q => dlOf q.2)).sum) % ell := by
  induction rs generalizing p m cs with
  | nil => exact ⟨p, by simp [commitLoop, maskOf], by simp⟩
  | cons q rest ih =>
    obtain ⟨i, R⟩ := q
    have hR : R.decode ≠ none := hdec (i, R) (by simp)
    have hi : i < 64 := h64 (i, R) (by simp)
    cases hd : R.decode with
    | none => exact absurd hd hR
    | some r =>
      obtain ⟨p', h1, h2⟩ := ih (fun q hq => hdec q (by simp [hq])) (fun q hq => h64 q (by simp [hq]))
        ((p + r) % ell) (m ^^^ (1 <<< i)) (cs ++ [castIdx (i, R)])
      refine ⟨p', ?_, ?_⟩
      · have hcond : ¬ (((i : Nat) : Int) ≥ 64 ∨ ((i : Nat) : Int) < 0) := by omega
        simp only [List.map_cons, castIdx, commitLoop, hd, hcond, if_false, Int.toNat_natCast, maskOf]
        simpa [castIdx, List.append_assoc] using h1
      · rw [h2]
        simp only [List.map_cons, List.sum_cons, dlOf, hd, Option.getD_some]
        rw [Nat.add_mod, Nat.mod_mod, ← Nat.add_mod, Nat.add_assoc]

theorem commitLoop_none_of_bad (rs : List (Int × Pt))
    (h : ∃ q ∈ rs, q.2.decode = none ∨ q.1 < 0 ∨ 64 ≤ q.1) (p m : Nat) (cs : List (Int × Pt)) :
    commitLoop rs p m cs = none := by
  induction rs generalizing p m cs with
  | nil => obtain ⟨q, hq, _⟩ := h; simp at hq
  | cons q rest ih =>
    obtain ⟨i, R⟩ := q
    unfold commitLoop
    cases hd : R.decode with
    | none => rfl
    | some r =>
      by_cases hc : i ≥ 64 ∨ i < 0
      · simp [hc]
      · simp only [hc, if_false]
        apply ih
        obtain ⟨q, hq, hbad⟩ := h
        rcases List.mem_cons.1 hq with rfl | hq
        · exfalso
          rcases hbad with hbad | hbad | hbad
          · simp [hd] at hbad
          · exact hc (Or.inr hbad)
          · exact hc (Or.inl hbad)
        · exact ⟨q, hq, hbad⟩

theorem lookup_of_mem_nodup {β : Type} (l : List (Int × β)) (hnd : (l.map (·.1)).Nodup)
    (k : Int) (v : β) (h : (k, v) ∈ l) : l.lookup k = some v := by
  induction l with
  | nil => simp at h
  | cons a rest ih =>
    obtain ⟨a1, a2⟩ := a
    simp only [List.map_cons, List.nodup_cons] at hnd
    rcases List.mem_cons.1 h with heq | hin
    · cases heq
      simp [List.lookup]
    · have hne : k ≠ a1 := by
        intro e
        exact hnd.1 (e ▸ List.mem_map_of_mem (f := (·.1)) hin)
      have hne' : (k == a1) = false := by simpa using hne
      simp only [List.lookup]
      rw [hne']
      exact ih hnd.2 hin

theorem lookup_castIdx (rs : List (Nat × Pt)) (hnd : (rs.map (·.1)).Nodup) (q : Nat × Pt)
    (hq : q ∈ rs) : (rs.map castIdx).lookup (q.1 : Int) = some q.2 := by
  induction rs with
  | nil => simp at hq
  | cons a rest ih =>
    simp only [List.map_cons, List.nodup_cons] at hnd
    rcases List.mem_cons.1 hq with rfl | hq
    · simp [castIdx, List.lookup]
    · have hne : q.1 ≠ a.1 := by
        intro h
        exact hnd.1 (h ▸ List.mem_map_of_mem (f := (·.1)) hq)
      have hne' : ((q.1 : Int) == (a.1 : Int)) = false := by
        simp only [beq_eq_false_iff_ne, ne_eq, Int.natCast_inj]; exact hne
      simp only [List.map_cons, castIdx, List.lookup, hne']
      exact ih hnd.2 hq

/-! ## response aggregation -/

theorem respLoop_ok (c : Sig) (publics : List Pt) (x : Nat) (strict : Bool)
    (l : List (Int × Option Nat)) (acc : Nat)
    (h : ∀ q ∈ l, ∃ s R, q.2 = some s ∧ c.commitments.lookup q.1 = some R ∧ s < ell ∧
      (strict = true → verifyWithChallenge (publics.getD q.1.toNat Pt.bad) R s x = true)) :
    ∃ S, respLoop c publics x strict l acc = some S ∧
      S % ell = (acc + (l.map (fun q => q.2.getD 0)).sum) % ell ∧ (acc < ell → S < ell) := by
  induction l generalizing acc with
  | nil => exact ⟨acc, by simp [respLoop], by simp, fun h => h⟩
  | cons q rest ih =>
    obtain ⟨i, so⟩ := q
    obtain ⟨s, R, hs, hR, hlt, hv⟩ := h (i, so) (by simp)
    simp only at hs hR
    subst hs
    obtain ⟨S, h1, h2, h3⟩ := ih ((acc + s) % ell) (fun q hq => h q (by simp [hq]))
    refine ⟨S, ?_, ?_, fun _ => h3 (Nat.mod_lt _ ell_pos)⟩
    · unfold respLoop
      simp only [hR]
      have hc1 : ¬ ((strict && !verifyWithChallenge (publics.getD i.toNat Pt.bad) R s x) = true) := by
        cases strict with
        | false => simp
        | true => rw [hv rfl]; decide
      have hc2 : ¬ s ≥ ell := by omega
      rw [if_neg hc1, if_neg hc2]
      exact h1
    · rw [h2]
      simp only [List.map_cons, List.sum_cons, Option.getD_some]
      rw [Nat.add_mod, Nat.mod_mod, ← Nat.add_mod, Nat.add_assoc]

/-- strict aggregation only succeeds when every share passes the single-share check -/
theorem respLoop_strict_sound (c : Sig) (publics : List Pt) (x : Nat)
    (l : List (Int × Option Nat)) (acc S : Nat)
    (h : respLoop c publics x true l acc = some S) :
    ∀ q ∈ l, ∃ s R, q.2 = some s ∧ c.commitments.lookup q.1 = some R ∧
      verifyWithChallenge (publics.getD q.1.toNat Pt.bad) R s x = true := by
  induction l generalizing acc with
  | nil => simp
  | cons q rest ih =>
    obtain ⟨i, so⟩ := q
    cases so with
    | none => simp [respLoop] at h
    | some s =>
      unfold respLoop at h
      cases hR : c.commitments.lookup i with
      | none => simp [hR] at h
      | some R =>
        simp only [hR] at h
        by_cases hv : verifyWithChallenge (publics.getD i.toNat Pt.bad) R s x = true
        · rw [hv] at h
          by_cases hge : s ≥ ell
          · simp [hge] at h
          · simp only [Bool.not_true, Bool.and_false, Bool.false_eq_true, if_false, hge] at h
            intro q hq
            rcases List.mem_cons.1 hq with rfl | hq
            · exact ⟨s, R, rfl, hR, hv⟩
            · exact ih _ h q hq
        · rw [Bool.eq_false_iff.2 hv] at h
          simp at h

/-- Σ (x·aᵢ + rᵢ) = Σ rᵢ + x·Σ aᵢ modulo ℓ, with every intermediate reduction the code performs -/
theorem shares_sum_mod (l : List (Nat × Nat)) (x : Nat) :
    (l.map (fun p => (x * p.1 + p.2) % ell)).sum % ell =
      ((l.map (·.2)).sum % ell + x * ((l.map (·.1)).sum % ell)) % ell := by
  have h1 : (l.map (fun p => (x * p.1 + p.2) % ell)).sum ≡
      x * (l.map (·.1)).sum + (l.map (·.2)).sum [MOD ell] := by
    induction l with
    | nil => simp [Nat.ModEq]
    | cons p t ih =>
      simp only [List.map_cons, List.sum_cons]
      have := Nat.ModEq.add (Nat.mod_modEq (x * p.1 + p.2) ell) ih
      refine this.trans ?_
      rw [show x * p.1 + p.2 + (x * (t.map (·.1)).sum + (t.map (·.2)).sum) =
        x * (p.1 + (t.map (·.1)).sum) + (p.2 + (t.map (·.2)).sum) by ring]
  have h2 : (l.map (·.2)).sum % ell + x * ((l.map (·.1)).sum % ell) ≡
      x * (l.map (·.1)).sum + (l.map (·.2)).sum [MOD ell] := by
    have := Nat.ModEq.add (Nat.mod_modEq (l.map (·.2)).sum ell)
      (Nat.ModEq.mul_left x (Nat.mod_modEq (l.map (·.1)).sum ell))
    rw [Nat.add_comm (x * _) _]
    exact this
  exact h1.trans h2.symm

end Mixin.Cosi
