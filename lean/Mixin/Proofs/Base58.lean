import Mixin.Model.Base58
import Mathlib.Data.Nat.Digits.Lemmas
import Mathlib.Tactic.Ring
/-!
Helper lemmas for C32: the loops of `Mixin.Model.Base58` are positional numeral conversion.
-/
namespace Mixin.Base58
open Mixin.Proto

/-! ## digits and positional value -/

theorem digitsAux_eq {b : Nat} (hb : 1 < b) : ∀ (f n : Nat), n ≤ f → digitsAux b f n = Nat.digits b n
  | 0, n, h => by
    have : n = 0 := by omega
    subst this
    simp [digitsAux]
  | f + 1, n, h => by
    simp only [digitsAux]
    split_ifs with h0
    · subst h0; simp
    · have hpos : 0 < n := Nat.pos_of_ne_zero h0
      rw [Nat.digits_def' hb hpos, digitsAux_eq hb f (n / b)]
      have : n / b < n := Nat.div_lt_self hpos hb
      omega

theorem digitsLE_eq {b : Nat} (hb : 1 < b) (n : Nat) : digitsLE b n = Nat.digits b n :=
  digitsAux_eq hb n n (Nat.le_refl n)

theorem foldl_shift (b : Nat) : ∀ (l : List Nat) (a : Nat),
    l.foldl (fun a d => a * b + d) a = a * b ^ l.length + l.foldl (fun a d => a * b + d) 0
  | [], a => by simp
  | d :: t, a => by
    simp only [List.foldl_cons, List.length_cons]
    rw [foldl_shift b t (a * b + d), foldl_shift b t (0 * b + d)]
    ring

theorem ofBE_eq (b : Nat) : ∀ ds : List Nat, ofBE b ds = Nat.ofDigits b ds.reverse
  | [] => by simp [ofBE]
  | d :: t => by
    have ih := ofBE_eq b t
    unfold ofBE at *
    simp only [List.foldl_cons, List.reverse_cons]
    rw [foldl_shift, ih, Nat.ofDigits_append, Nat.ofDigits_singleton, List.length_reverse]
    ring

theorem ofBE_digits {b : Nat} (x : Nat) : ofBE b (Nat.digits b x).reverse = x := by
  rw [ofBE_eq, List.reverse_reverse, Nat.ofDigits_digits]

theorem ofBE_zeros (b : Nat) : ∀ (k : Nat) (ds : List Nat), ofBE b (List.replicate k 0 ++ ds) = ofBE b ds
  | 0, ds => by simp
  | k + 1, ds => by
    have ih := ofBE_zeros b k ds
    unfold ofBE at *
    simp only [List.replicate_succ, List.cons_append, List.foldl_cons, Nat.zero_mul, Nat.add_zero]
    exact ih

/-- number of leading zero digits -/
def lz : List Nat → Nat
  | [] => 0
  | d :: r => if d = 0 then lz r + 1 else 0

/-- numeral conversion from base `b1` to base `b2` (big-endian digit lists) that keeps the
    number of leading zero digits — what `Encode` and `Decode` both do -/
def conv (b1 b2 : Nat) (ds : List Nat) : List Nat :=
  List.replicate (lz ds) 0 ++ (Nat.digits b2 (ofBE b1 ds)).reverse

theorem canon {b : Nat} (hb : 1 < b) : ∀ ds : List Nat, (∀ d ∈ ds, d < b) →
    List.replicate (lz ds) 0 ++ (Nat.digits b (ofBE b ds)).reverse = ds
  | [], _ => by simp [lz, ofBE]
  | d :: t, h => by
    by_cases hd : d = 0
    · subst hd
      have : ofBE b (0 :: t) = ofBE b t := by simp [ofBE]
      rw [this]
      simp only [lz, if_true, List.replicate_succ, List.cons_append]
      rw [canon hb t (fun x hx => h x (by simp [hx]))]
    · simp only [lz, hd, if_false, List.replicate_zero, List.nil_append]
      rw [ofBE_eq, Nat.digits_ofDigits b hb]
      · simp
      · intro l hl
        have : l ∈ t ∨ l = d := by simpa using hl
        exact h l (by rcases this with h1 | h1 <;> simp [h1])
      · intro hne
        rw [List.getLast_reverse]
        simpa using hd

theorem lz_zeros_digits {b : Nat} (hb : 1 < b) (x : Nat) : ∀ k : Nat,
    lz (List.replicate k 0 ++ (Nat.digits b x).reverse) = k
  | k + 1 => by simp [List.replicate_succ, lz, lz_zeros_digits hb x k]
  | 0 => by
    simp only [List.replicate_zero, List.nil_append]
    by_cases hx : x = 0
    · subst hx; simp [lz]
    · have hne : Nat.digits b x ≠ [] := Nat.digits_ne_nil_iff_ne_zero.mpr hx
      have hl := Nat.getLast_digit_ne_zero b hx
      cases hr : (Nat.digits b x).reverse with
      | nil => simp at hr; exact absurd hr hne
      | cons d r =>
        have : d = (Nat.digits b x).getLast hne := by
          have := List.getLast_eq_head_reverse hne
          rw [this]; simp [hr]
        have hd : d ≠ 0 := by rw [this]; exact hl
        simp [lz, hd]

theorem conv_lt {b1 b2 : Nat} (hb2 : 1 < b2) (ds : List Nat) : ∀ d ∈ conv b1 b2 ds, d < b2 := by
  intro d hd
  unfold conv at hd
  rw [List.mem_append] at hd
  rcases hd with hd | hd
  · rw [List.mem_replicate] at hd; omega
  · exact Nat.digits_lt_base hb2 (List.mem_reverse.mp hd)

theorem conv_roundtrip {b1 b2 : Nat} (hb1 : 1 < b1) (hb2 : 1 < b2) (ds : List Nat) (h : ∀ d ∈ ds, d < b1) :
    conv b2 b1 (conv b1 b2 ds) = ds := by
  unfold conv
  rw [lz_zeros_digits hb2, ofBE_zeros, ofBE_digits]
  exact canon hb1 ds h


/-! ## the alphabet table -/

theorem b58_alpha : ∀ d, d < 58 → b58 (alpha d) = d := by decide

set_option maxRecDepth 8192 in
theorem alpha_b58_nat : ∀ n, n < 256 → b58 n.toUInt8 ≠ 255 →
    alpha (b58 n.toUInt8) = n.toUInt8 ∧ b58 n.toUInt8 < 58 := by decide

theorem alpha_b58 (c : UInt8) (h : b58 c ≠ 255) : alpha (b58 c) = c ∧ b58 c < 58 := by
  have := alpha_b58_nat c.toNat (UInt8.toNat_lt_size c)
  simpa using this (by simpa using h)

theorem alpha_zero : alpha 0 = idx0 := by decide
theorem b58_idx0 : b58 idx0 = 0 := by decide

theorem b58_eq_zero {c : UInt8} (h : b58 c ≠ 255) : b58 c = 0 ↔ c = idx0 := by
  constructor
  · intro h0
    have := (alpha_b58 c h).1
    rw [h0, alpha_zero] at this
    exact this.symm
  · intro e; rw [e, b58_idx0]

def Valid (s : Bytes) : Prop := ∀ c ∈ s, b58 c ≠ 255

theorem map_alpha_b58 : ∀ s : Bytes, Valid s → (s.map b58).map alpha = s
  | [], _ => rfl
  | c :: r, h => by
    simp only [List.map_cons]
    rw [(alpha_b58 c (h c (by simp))).1, map_alpha_b58 r (fun x hx => h x (by simp [hx]))]

theorem map_b58_alpha : ∀ ds : List Nat, (∀ d ∈ ds, d < 58) → (ds.map alpha).map b58 = ds
  | [], _ => rfl
  | d :: r, h => by
    simp only [List.map_cons]
    rw [b58_alpha d (h d (by simp)), map_b58_alpha r (fun x hx => h x (by simp [hx]))]

theorem valid_map_alpha (ds : List Nat) (h : ∀ d ∈ ds, d < 58) : Valid (ds.map alpha) := by
  intro c hc
  rw [List.mem_map] at hc
  obtain ⟨d, hd, rfl⟩ := hc
  rw [b58_alpha d (h d hd)]
  have := h d hd
  omega

theorem map_b58_lt (s : Bytes) (h : Valid s) : ∀ d ∈ s.map b58, d < 58 := by
  intro d hd
  rw [List.mem_map] at hd
  obtain ⟨c, hc, rfl⟩ := hd
  exact (alpha_b58 c (h c hc)).2

/-! ## bytes ↔ base-256 digits -/

theorem map_toUInt8_toNat : ∀ l : Bytes, (l.map UInt8.toNat).map Nat.toUInt8 = l
  | [] => rfl
  | c :: r => by simp [map_toUInt8_toNat r]

theorem map_toNat_toUInt8 : ∀ ds : List Nat, (∀ d ∈ ds, d < 256) → (ds.map Nat.toUInt8).map UInt8.toNat = ds
  | [], _ => rfl
  | d :: r, h => by
    have hd := h d (by simp)
    simp only [List.map_cons]
    rw [map_toNat_toUInt8 r (fun x hx => h x (by simp [hx]))]
    congr 1
    simp [Nat.toUInt8, UInt8.toNat_ofNat']
    omega

theorem map_toNat_lt (l : Bytes) : ∀ d ∈ l.map UInt8.toNat, d < 256 := by
  intro d hd
  rw [List.mem_map] at hd
  obtain ⟨c, _, rfl⟩ := hd
  exact UInt8.toNat_lt_size c

theorem bytesToNat_eq (b : Bytes) : bytesToNat b = ofBE 256 (b.map UInt8.toNat) := by
  unfold bytesToNat ofBE
  rw [List.foldl_map]

theorem leadingCount_zero : ∀ b : Bytes, leadingCount 0 b = lz (b.map UInt8.toNat)
  | [] => rfl
  | c :: r => by
    simp only [leadingCount, List.map_cons, lz]
    have : c = 0 ↔ c.toNat = 0 := by
      constructor
      · intro h; subst h; rfl
      · intro h; exact UInt8.toNat_inj.mp (by simpa using h)
    by_cases hc : c = 0
    · simp [hc, leadingCount_zero r]
    · simp [hc, this.not.mp hc]

theorem leadingCount_idx0 : ∀ s : Bytes, Valid s → leadingCount idx0 s = lz (s.map b58)
  | [], _ => rfl
  | c :: r, h => by
    simp only [leadingCount, List.map_cons, lz]
    have := b58_eq_zero (h c (by simp))
    by_cases hc : c = idx0
    · simp [hc, b58_idx0, leadingCount_idx0 r (fun x hx => h x (by simp [hx]))]
    · simp [hc, this.not.mpr hc]

theorem natToBytes_eq (n : Nat) : natToBytes n = (Nat.digits 256 n).reverse.map Nat.toUInt8 := by
  unfold natToBytes
  rw [digitsLE_eq (by decide)]


/-! ## the Encode loop is repeated division by 58 -/

theorem emitWhile_eq : ∀ (f m : Nat), m ≤ f → emitWhile f m = (Nat.digits 58 m).map alpha
  | 0, m, h => by
    have : m = 0 := by omega
    subst this; simp [emitWhile]
  | f + 1, m, h => by
    simp only [emitWhile]
    split_ifs with h0
    · subst h0; simp
    · have hpos : 0 < m := Nat.pos_of_ne_zero h0
      rw [Nat.digits_def' (by decide) hpos, emitWhile_eq f (m / 58) (by have := Nat.div_lt_self hpos (by decide : 1 < 58); omega)]
      simp

/-- the `k` low digits, zero padded -/
def firstDigits : Nat → Nat → List Nat
  | 0, _ => []
  | k + 1, m => m % 58 :: firstDigits k (m / 58)

theorem emitN_eq : ∀ (k m : Nat), emitN k m = (firstDigits k m).map alpha
  | 0, _ => rfl
  | k + 1, m => by simp [emitN, firstDigits, emitN_eq k (m / 58)]

theorem firstDigits_mod : ∀ (k x : Nat), firstDigits k (x % 58 ^ k) = firstDigits k x
  | 0, _ => rfl
  | k + 1, x => by
    simp only [firstDigits]
    have h1 : x % 58 ^ (k + 1) % 58 = x % 58 := Nat.mod_mod_of_dvd x (Dvd.intro_left (58 ^ k) rfl)
    have h2 : x % 58 ^ (k + 1) / 58 = x / 58 % 58 ^ k := by
      rw [Nat.pow_succ, Nat.mul_comm]; exact Nat.mod_mul_right_div_self x 58 (58 ^ k)
    rw [h1, h2, firstDigits_mod k (x / 58)]

theorem digits_split : ∀ (k x : Nat), 58 ^ k ≤ x → Nat.digits 58 x = firstDigits k x ++ Nat.digits 58 (x / 58 ^ k)
  | 0, x, _ => by simp [firstDigits]
  | k + 1, x, h => by
    have hpos : 0 < x := Nat.lt_of_lt_of_le (Nat.pow_pos (by decide)) h
    have hk : 58 ^ k ≤ x / 58 := by
      rw [Nat.le_div_iff_mul_le (by decide)]; rw [Nat.pow_succ] at h; exact h
    rw [Nat.digits_def' (by decide) hpos, digits_split k (x / 58) hk, Nat.div_div_eq_div_mul, Nat.pow_succ]
    simp only [firstDigits, List.cons_append]
    rw [Nat.mul_comm]

theorem encodeLoop_eq : ∀ (f x : Nat), x ≤ f → encodeLoop f x = (Nat.digits 58 x).map alpha
  | 0, x, h => by
    have : x = 0 := by omega
    subst this; simp [encodeLoop]
  | f + 1, x, h => by
    simp only [encodeLoop]
    split_ifs with h0 hq
    · subst h0; simp
    · have hlt : x < radix10 := by
        rcases Nat.lt_or_ge x radix10 with hh | hh
        · exact hh
        · have : 0 < x / radix10 := Nat.div_pos hh (by decide)
          omega
      rw [Nat.mod_eq_of_lt hlt]
      exact emitWhile_eq x x (Nat.le_refl x)
    · have hpos : 0 < x := Nat.pos_of_ne_zero h0
      have hge : radix10 ≤ x := by
        rcases Nat.lt_or_ge x radix10 with hh | hh
        · exact absurd (Nat.div_eq_of_lt hh) hq
        · exact hh
      have hqlt : x / radix10 < x := Nat.div_lt_self hpos (by decide)
      rw [encodeLoop_eq f (x / radix10) (by omega), emitN_eq]
      unfold radix10 at *
      rw [firstDigits_mod, digits_split 10 x hge, List.map_append]

theorem encode_eq_conv (b : Bytes) : encode b = (conv 256 58 (b.map UInt8.toNat)).map alpha := by
  unfold encode conv
  simp only []
  rw [encodeLoop_eq _ _ (Nat.le_refl _), List.reverse_append, List.reverse_replicate, ← List.map_reverse,
    List.map_append, List.map_replicate, alpha_zero, leadingCount_zero, bytesToNat_eq]

/-! ## the Decode loop is positional evaluation -/

theorem chunkTotal_eq : ∀ (l : Bytes) (t : Nat), Valid l →
    chunkTotal t l = some ((l.map b58).foldl (fun a d => a * 58 + d) t)
  | [], _, _ => rfl
  | v :: r, t, h => by
    simp only [chunkTotal, List.map_cons, List.foldl_cons]
    rw [if_neg (h v (by simp))]
    exact chunkTotal_eq r _ (fun x hx => h x (by simp [hx]))

theorem chunkTotal_none : ∀ (l : Bytes) (t : Nat), ¬ Valid l → chunkTotal t l = none
  | [], _, h => absurd (fun _ hc => by simp at hc) h
  | v :: r, t, h => by
    simp only [chunkTotal]
    split_ifs with hv
    · rfl
    · apply chunkTotal_none r
      intro hr
      apply h
      intro c hc
      rw [List.mem_cons] at hc
      rcases hc with rfl | hc
      · exact hv
      · exact hr c hc

/-! ### ranging over runes is ranging over bytes, as far as `Decode` can tell -/

/-- whatever follows a non-ASCII lead byte, the decoded rune is ≥ U+0080 (no over-long forms) -/
theorem decodeRune_ge (s0 : Nat) (rest : List Nat) : 128 ≤ (decodeRune s0 rest).1 := by
  unfold decodeRune
  dsimp only
  repeat' split
  all_goals first | omega | (dsimp only; omega)

set_option maxRecDepth 8192 in
theorem b58Rune_high : ∀ v, v < 256 → 128 ≤ v → b58Rune v = 255 := by decide

theorem b58_high (c : UInt8) (h : 128 ≤ c.toNat) : b58 c = 255 := by
  have := b58Rune_high c.toNat (UInt8.toNat_lt_size c) h
  simpa [b58Rune] using this

theorem chunkRunes_eq : ∀ (f total : Nat) (l : Bytes), l.length ≤ f → chunkRunes f total l = chunkTotal total l
  | 0, total, l, h => by
    have : l = [] := List.length_eq_zero_iff.mp (by omega)
    subst this; rfl
  | f + 1, total, [], _ => rfl
  | f + 1, total, c :: r, h => by
    simp only [List.length_cons] at h
    simp only [chunkRunes, chunkTotal]
    by_cases hc : c.toNat < 0x80
    · have hle : ¬ c.toNat > 255 := by omega
      have hb : b58Rune c.toNat = b58 c := by simp [b58Rune]
      simp only [hc, if_true, hle, if_false, hb, Nat.sub_self, List.drop_zero]
      split_ifs
      · rfl
      · exact chunkRunes_eq f _ r (by omega)
    · have hge : 128 ≤ c.toNat := by omega
      rw [if_pos (b58_high c hge)]
      simp only [hc, if_false]
      have hv := decodeRune_ge c.toNat (r.map UInt8.toNat)
      generalize decodeRune c.toNat (r.map UInt8.toNat) = vw at hv
      obtain ⟨v, w⟩ := vw
      simp only at hv ⊢
      by_cases hv2 : v > 255
      · simp [hv2]
      · simp [hv2, b58Rune_high v (by omega) hv]

theorem decodeLoop_eq : ∀ (f : Nat) (t : Bytes) (ans : Nat), t.length ≤ f → Valid t →
    decodeLoop f t ans = some ((t.map b58).foldl (fun a d => a * 58 + d) ans)
  | 0, t, ans, h, _ => by
    have : t = [] := List.length_eq_zero_iff.mp (by omega)
    subst this; rfl
  | f + 1, [], ans, _, _ => rfl
  | f + 1, c :: r, ans, h, hv => by
    simp only [decodeLoop]
    have hn : 1 ≤ min (c :: r).length 10 := by simp only [List.length_cons]; omega
    have hvt : Valid ((c :: r).take (min (c :: r).length 10)) := fun x hx => hv x (List.mem_of_mem_take hx)
    have hvd : Valid ((c :: r).drop (min (c :: r).length 10)) := fun x hx => hv x (List.mem_of_mem_drop hx)
    rw [chunkRunes_eq _ _ _ (by rw [List.length_take]; omega), chunkTotal_eq _ _ hvt]
    simp only []
    rw [decodeLoop_eq f _ _ (by simp only [List.length_drop]; omega) hvd]
    have hr : bigRadix (min (c :: r).length 10) = 58 ^ ((c :: r).take (min (c :: r).length 10)).length := by
      have hl : ((c :: r).take (min (c :: r).length 10)).length = min (c :: r).length 10 := by
        rw [List.length_take]; omega
      unfold bigRadix
      rw [if_neg (by omega), hl]
    conv_rhs => rw [← List.take_append_drop (min (c :: r).length 10) (c :: r), List.map_append, List.foldl_append,
      foldl_shift 58 _ ans, List.length_map]
    rw [hr]

theorem decodeLoop_none : ∀ (f : Nat) (t : Bytes) (ans : Nat), t.length ≤ f → ¬ Valid t →
    decodeLoop f t ans = none
  | 0, t, ans, h, hv => by
    have : t = [] := List.length_eq_zero_iff.mp (by omega)
    subst this
    exact absurd (fun _ hc => by simp at hc) hv
  | f + 1, [], ans, _, hv => absurd (fun _ hc => by simp at hc) hv
  | f + 1, c :: r, ans, h, hv => by
    simp only [decodeLoop]
    by_cases hvt : Valid ((c :: r).take (min (c :: r).length 10))
    · rw [chunkRunes_eq _ _ _ (by rw [List.length_take]; omega), chunkTotal_eq _ _ hvt]
      simp only []
      apply decodeLoop_none f
      · simp only [List.length_drop, List.length_cons] at h ⊢; omega
      · intro hvd
        apply hv
        intro x hx
        rw [← List.take_append_drop (min (c :: r).length 10) (c :: r), List.mem_append] at hx
        rcases hx with hx | hx
        · exact hvt x hx
        · exact hvd x hx
    · rw [chunkRunes_eq _ _ _ (by rw [List.length_take]; omega), chunkTotal_none _ _ hvt]

theorem decode?_eq_conv (s : Bytes) (h : Valid s) :
    decode? s = some ((conv 58 256 (s.map b58)).map Nat.toUInt8) := by
  unfold decode? conv
  rw [decodeLoop_eq _ _ _ (Nat.le_refl _) h]
  simp only []
  rw [natToBytes_eq, leadingCount_idx0 s h, List.map_append, List.map_replicate]
  rfl

theorem decode?_none (s : Bytes) (h : ¬ Valid s) : decode? s = none := by
  unfold decode?
  rw [decodeLoop_none _ _ _ (Nat.le_refl _) h]

end Mixin.Base58
