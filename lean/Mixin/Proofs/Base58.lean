import Mixin.Model.Base58
import Mathlib.Data.Nat.Digits.Lemmas
import Mathlib.Tactic.Ring
/-!
Helper lemmas for C32: the loops of `Mixin.Model.Base58` are positional numeral conversion.
-/
namespace Mixin.Base58
open Mixin.Proto

/-! ## digits and positional value -/

theorem digitsAux_eq {b : Nat} (hb : 1 < b) : ∀ (f n : Nat), n ≤ f → digitsAux b f n = Nat.digits b n
  | 0, n, h => by
    have : n = 0 := by omega
    subst this
    simp [digitsAux]
  | f + 1, n, h => by
    simp only [digitsAux]
    split_ifs with h0
    · subst h0; simp
    · have hpos : 0 < n := Nat.pos_of_ne_zero h0
      rw [Nat.digits_def' hb hpos, digitsAux_eq hb f (n / b)]
      have : n / b < n := Nat.div_lt_self hpos hb
      omega

theorem digitsLE_eq {b : Nat} (hb : 1 < b) (n : Nat) : digitsLE b n = Nat.digits b n :=
  digitsAux_eq hb n n (Nat.le_refl n)

theorem foldl_shift (b : Nat) : ∀ (l : List Nat) (a : Nat),
    l.foldl (fun a d => a * b + d) a = a * b ^ l.length + l.foldl (fun a d => a * b + d) 0
  | [], a => by simp
  | d :: t, a => by
    simp only [List.foldl_cons, List.length_cons]
    rw [foldl_shift b t (a * b + d), foldl_shift b t (0 * b + d)]
    ring

theorem ofBE_eq (b : Nat) : ∀ ds : List Nat, ofBE b ds = Nat.ofDigits b ds.reverse
  | [] => by simp [ofBE]
  | d :: t => by
    have ih := ofBE_eq b t
    unfold ofBE at *
    simp only [List.foldl_cons, List.reverse_cons]
    rw [foldl_shift, ih, Nat.ofDigits_append, Nat.ofDigits_singleton, List.length_reverse]
    ring

theorem ofBE_digits {b : Nat} (x : Nat) : ofBE b (Nat.digits b x).reverse = x := by
  rw [ofBE_eq, List.reverse_reverse, Nat.ofDigits_digits]

theorem ofBE_zeros (b : Nat) : ∀ (k : Nat) (ds : List Nat), ofBE b (List.replicate k 0 ++ ds) = ofBE b ds
  | 0, ds => by simp
  | k + 1, ds => by
    have ih := ofBE_zeros b k ds
    unfold ofBE at *
    simp only [List.replicate_succ, List.cons_append, List.foldl_cons, Nat.zero_mul, Nat.add_zero]
    exact ih

/-- number of leading zero digits -/
def lz : List Nat → Nat
  | [] => 0
  | d :: r => if d = 0 then lz r + 1 else 0

/-- numeral conversion from base `b1` to base `b2` (big-endian digit lists) that keeps the
    number of leading zero digits — what `Encode` and `Decode` both do -/
def conv (b1 b2 : Nat) (ds : List Nat) : List Nat :=
  List.replicate (lz ds) 0 ++ (Nat.digits b2 (ofBE b1 ds)).reverse

theorem canon {b : Nat} (hb : 1 < b) : ∀ ds : List Nat, (∀ d ∈ ds, d < b) →
    List.replicate (lz ds) 0 ++ (Nat.digits b (ofBE b ds)).reverse = ds
  | [], _ => by simp [lz, ofBE]
  | d :: t, h => by
    by_cases hd : d = 0
    · subst hd
      have : ofBE b (0 :: t) = ofBE b t := by simp [ofBE]
      rw [this]
      simp only [lz, if_true, List.replicate_succ, List.cons_append]
      rw [canon hb t (fun x hx => h x (by simp [hx]))]
    · simp only [lz, hd, if_false, List.replicate_zero, List.nil_append]
      rw [ofBE_eq, Nat.digits_ofDigits b hb]
      · simp
      · intro l hl
        have : l ∈ t ∨ l = d := by simpa using hl
        exact h l (by rcases this with h1 | h1 <;> simp [h1])
      · intro hne
        rw [List.getLast_reverse]
        simpa using hd

theorem lz_zeros_digits {b : Nat} (hb : 1 < b) (x : Nat) : ∀ k : Nat,
    lz (List.replicate k 0 ++ (Nat.digits b x).reverse) = k
  | k + 1 => by simp [List.replicate_succ, lz, lz_zeros_digits hb x k]
  | 0 => by
    simp only [List.replicate_zero, List.nil_append]
    by_cases hx : x = 0
    · subst hx; simp [lz]
    · have hne : Nat.digits b x ≠ [] := Nat.digits_ne_nil_iff_ne_zero.mpr hx
      have hl := Nat.getLast_digit_ne_zero b hx
      cases hr : (Nat.digits b x).reverse with
      | nil => simp at hr; exact absurd hr hne
      | cons d r =>
        have : d = (Nat.digits b x).getLast hne := by
          have := List.getLast_eq_head_reverse hne
          rw [this]; simp [hr]
        have hd : d ≠ 0 := by rw [this]; exact hl
        simp [lz, hd]

theorem conv_lt {b1 b2 : Nat} (hb2 : 1 < b2) (ds : List Nat) : ∀ d ∈ conv b1 b2 ds, d < b2 := by
  intro d hd
  unfold conv at hd
  rw [List.mem_append] at hd
  rcases hd with hd | hd
  · rw [List.mem_replicate] at hd; omega
  · exact Nat.digits_lt_base hb2 (List.mem_reverse.mp hd)

theorem conv_roundtrip {b1 b2 : Nat} (hb1 : 1 < b1) (hb2 : 1 < b2) (ds : List Nat) (h : ∀ d ∈ ds, d < b1) :
    conv b2 b1 (conv b1 b2 ds) = ds := by
  unfold conv
  rw [lz_zeros_digits hb2, ofBE_zeros, ofBE_digits]
  exact canon hb1 ds h


/-! ## the alphabet table -/

theorem b58_alpha : ∀ d, d < 58 → b58 (alpha d) = d := by decide

set_option maxRecDepth 8192 in
theorem alpha_b58_nat : ∀ n, n < 256 → b58 n.toUInt8 ≠ 255 →
    alpha (b58 n.toUInt8) = n.toUInt8 ∧ b58 n.toUInt8 < 58 := by decide

theorem alpha_b58 (c : UInt8) (h : b58 c ≠ 255) : alpha (b58 c) = c ∧ b58 c < 58 := by
  have := alpha_b58_nat c.toNat (UInt8.toNat_lt_size c)
  simpa using this (by simpa using h)

theorem alpha_zero : alpha 0 = idx0 := by decide
theorem b58_idx0 : b58 idx0 = 0 := by decide

theorem b58_eq_zero {c : UInt8} (h : b58 c ≠ 255) : b58 c = 0 ↔ c = idx0 := by
  constructor
  · intro h0
    have := (alpha_b58 c h).1
    rw [h0, alpha_zero] at this
    exact this.symm
  · intro e; rw [e, b58_idx0]

def Valid (s : Bytes) : Prop := ∀ c ∈ s, b58 c ≠ 255

theorem map_alpha_b58 : ∀ s : Bytes, Valid s → (s.map b58).map alpha = s
  | [], _ => rfl
  | c :: r, h => by
    simp only [List.map_cons]
    rw [(alpha_b58 c (h c (by simp))).1, map_alpha_b58 r (fun x hx => h x (by simp [hx]))]

theorem map_b58_alpha : ∀ ds : List Nat, (∀ d ∈ ds, d < 58) → (ds.map alpha).map b58 = ds
  | [], _ => rfl
  | d :: r, h => by
    simp only [List.map_cons]
    rw [b58_alpha d (h d (by simp)), map_b58_alpha r (fun x hx => h x (by simp [hx]))]

theorem valid_map_alpha (ds : List Nat) (h : ∀ d ∈ ds, d < 58) : Valid (ds.map alpha) := by
  intro c hc
  rw [List.mem_map] at hc
  obtain ⟨d, hd, rfl⟩ := hc
  rw [b58_alpha d (h d hd)]
  have := h d hd
  omega

theorem map_b58_lt (s : Bytes) (h : Valid s) : ∀ d ∈ s.map b58, d < 58 := by
  intro d hd
  rw [List.mem_map] at hd
  obtain ⟨c, hc, rfl⟩ := hd
  exact (alpha_b58 c (h c hc)).2

/-! ## bytes ↔ base-256 digits -/

theorem map_toUInt8_toNat : ∀ l : Bytes, (l.map UInt8.toNat).map Nat.toUInt8 = l
  | [] => rfl
  | c :: r => by simp [map_toUInt8_toNat r]

theorem map_toNat_toUInt8 : ∀ ds : List Nat, (∀ d ∈ ds, d < 256) → (ds.map Nat.toUInt8).map UInt8.toNat = ds
  | [], _ => rfl
  | d :: r, h => by
    have hd := h d (by simp)
    simp only [List.map_cons]
    rw [map_toNat_toUInt8 r (fun x hx => h x (by simp [hx]))]
    congr 1
    simp [Nat.toUInt8, UInt8.toNat_ofNat']
    omega

theorem map_toNat_lt (l : Bytes) : ∀ d ∈ l.map UInt8.toNat, d < 256 := by
  intro d hd
  rw [List.mem_map] at hd
  obtain ⟨c, _, rfl⟩ := hd
  exact UInt8.toNat_lt_size c

theorem bytesToNat_eq (b : Bytes) : bytesToNat b = ofBE 256 (b.map UInt8.toNat) := by
  unfold bytesToNat ofBE
  rw [List.foldl_map]

theorem leadingCount_zero : ∀ b : Bytes, leadingCount 0 b = lz (b.map UInt8.toNat)
  | [] => rfl
  | c :: r => by
    simp only [leadingCount, List.map_cons, lz]
    have : c = 0 ↔ c.toNat = 0 := by
      constructor
      · intro h; subst h; rfl
      · intro h; exact UInt8.toNat_inj.mp (by simpa using h)
    by_cases hc : c = 0
    · simp [hc, leadingCount_zero r]
    · simp [hc, this.not.mp hc]

theorem leadingCount_idx0 : ∀ s : Bytes, Valid s → leadingCount idx0 s = lz (s.map b58)
  | [], _ => rfl
  | c :: r, h => by
    simp only [leadingCount, List.map_cons, lz]
    have := b58_eq_zero (h c (by simp))
    by_cases hc : c = idx0
    · simp [hc, b58_idx0, leadingCount_idx0 r (fun x hx => h x (by simp [hx]))]
    · simp [hc, this.not.mpr hc]

theorem natToBytes_eq (n : Nat) : natToBytes n = (Nat.digits 256 n).reverse.map Nat.toUInt8 := by
  unfold natToBytes
  rw [digitsLE_eq (by decide)]

end Mixin.Base58
