import Mixin.Prelude.BytesSnap
/-! Lemmas about the byte helpers of `Mixin.Prelude.BytesSnap` (used by C07 and C18). -/
namespace Mixin.BytesSnap

theorem beBytes_length (k n : Nat) : (beBytes k n).length = k := by
  induction k generalizing n with
  | zero => rfl
  | succ k ih => simp [beBytes, ih]

theorem beNat_lt (b : Bytes) : beNat b < 256 ^ b.length := by
  induction b with
  | nil => simp [beNat]
  | cons x xs ih =>
    have hx : x.toNat < 256 := by have := UInt8.toNat_lt x; omega
    have hp : 0 < 256 ^ xs.length := Nat.pow_pos (by decide)
    simp only [beNat, List.length_cons, Nat.pow_succ]
    have : x.toNat * 256 ^ xs.length ≤ 255 * 256 ^ xs.length := Nat.mul_le_mul_right _ (by omega)
    omega

theorem beNat_beBytes (k n : Nat) (h : n < 256 ^ k) : beNat (beBytes k n) = n := by
  induction k generalizing n with
  | zero => simp [beBytes, beNat]; simp at h; omega
  | succ k ih =>
    have hp : 0 < 256 ^ k := Nat.pow_pos (by decide)
    have hq : n / 256 ^ k < 256 := by
      rw [Nat.div_lt_iff_lt_mul hp]; rw [Nat.pow_succ] at h; rw [Nat.mul_comm]; exact h
    simp only [beBytes, beNat, beBytes_length]
    rw [ih _ (Nat.mod_lt _ hp), UInt8.toNat_ofNat']
    have : n / 256 ^ k % 2 ^ 8 = n / 256 ^ k := Nat.mod_eq_of_lt (by simpa using hq)
    rw [this, Nat.mul_comm]
    exact Nat.div_add_mod n (256 ^ k)

theorem beBytes_beNat (b : Bytes) : beBytes b.length (beNat b) = b := by
  induction b with
  | nil => rfl
  | cons x xs ih =>
    have hp : 0 < 256 ^ xs.length := Nat.pow_pos (by decide)
    have hlt := beNat_lt xs
    simp only [List.length_cons, beBytes, beNat]
    have h1 : (x.toNat * 256 ^ xs.length + beNat xs) / 256 ^ xs.length = x.toNat := by
      rw [Nat.mul_comm, Nat.mul_add_div hp, Nat.div_eq_of_lt hlt]; rfl
    have h2 : (x.toNat * 256 ^ xs.length + beNat xs) % 256 ^ xs.length = beNat xs := by
      rw [Nat.mul_comm, Nat.mul_add_mod, Nat.mod_eq_of_lt hlt]
    rw [h1, h2, ih, UInt8.ofNat_toNat]

theorem beBytes_beNat' {b : Bytes} {k : Nat} (h : b.length = k) : beBytes k (beNat b) = b := by
  subst h; exact beBytes_beNat b

theorem beBytes_inj {k a b : Nat} (ha : a < 256 ^ k) (hb : b < 256 ^ k)
    (h : beBytes k a = beBytes k b) : a = b := by
  rw [← beNat_beBytes k a ha, ← beNat_beBytes k b hb, h]

/-! ### readN / readU -/

theorem readN_some {n : Nat} {b x r : Bytes} (h : readN n b = some (x, r)) :
    b = x ++ r ∧ x.length = n := by
  unfold readN at h
  split at h
  · injection h with h; injection h with h1 h2
    subst h1; subst h2
    exact ⟨(List.take_append_drop n b).symm, by rw [List.length_take]; omega⟩
  · cases h

theorem readN_append {n : Nat} {x : Bytes} (r : Bytes) (h : x.length = n) :
    readN n (x ++ r) = some (x, r) := by
  unfold readN
  rw [if_pos (by rw [List.length_append]; omega), List.take_left' h, List.drop_left' h]

theorem readU_some {k : Nat} {b r : Bytes} {v : Nat} (h : readU k b = some (v, r)) :
    b = beBytes k v ++ r ∧ v < 256 ^ k := by
  unfold readU at h
  split at h
  · rename_i x r' hx
    injection h with h; injection h with h1 h2
    obtain ⟨hb, hl⟩ := readN_some hx
    subst h1; subst h2
    refine ⟨?_, ?_⟩
    · rw [beBytes_beNat' hl]; exact hb
    · rw [← hl]; exact beNat_lt x
  · cases h

theorem readU_append {k v : Nat} (r : Bytes) (h : v < 256 ^ k) :
    readU k (beBytes k v ++ r) = some (v, r) := by
  unfold readU
  rw [readN_append r (beBytes_length k v)]; simp only [beNat_beBytes k v h]

/-! ### lexicographic order -/

theorem bytesLt_irrefl (a : Bytes) : bytesLt a a = false := by
  induction a with
  | nil => rfl
  | cons x xs ih => simp [bytesLt, ih]

theorem bytesLt_asymm {a b : Bytes} (h : bytesLt a b = true) : bytesLt b a = false := by
  induction a generalizing b with
  | nil => cases b <;> simp_all [bytesLt]
  | cons x xs ih =>
    cases b with
    | nil => simp [bytesLt] at h
    | cons y ys =>
      simp only [bytesLt] at h ⊢
      by_cases h1 : x.toNat < y.toNat
      · have : ¬ y.toNat < x.toNat := by omega
        simp [this, h1]
      · by_cases h2 : y.toNat < x.toNat
        · simp [h1, h2] at h
        · simp only [h1, h2, if_false] at h ⊢
          exact ih h

theorem bytesLt_trans {a b c : Bytes} (h1 : bytesLt a b = true) (h2 : bytesLt b c = true) :
    bytesLt a c = true := by
  induction a generalizing b c with
  | nil =>
    cases b with
    | nil => simp [bytesLt] at h1
    | cons y ys => cases c with
      | nil => simp [bytesLt] at h2
      | cons z zs => simp [bytesLt]
  | cons x xs ih =>
    cases b with
    | nil => simp [bytesLt] at h1
    | cons y ys =>
      cases c with
      | nil => simp [bytesLt] at h2
      | cons z zs =>
        simp only [bytesLt] at h1 h2 ⊢
        by_cases a1 : x.toNat < y.toNat
        · by_cases b1 : y.toNat < z.toNat
          · have : x.toNat < z.toNat := by omega
            simp [this]
          · by_cases b2 : z.toNat < y.toNat
            · simp [b1, b2] at h2
            · have : x.toNat < z.toNat := by omega
              simp [this]
        · by_cases a2 : y.toNat < x.toNat
          · simp [a1, a2] at h1
          · simp only [a1, a2, if_false] at h1
            by_cases b1 : y.toNat < z.toNat
            · have : x.toNat < z.toNat := by omega
              simp [this]
            · by_cases b2 : z.toNat < y.toNat
              · simp [b1, b2] at h2
              · simp only [b1, b2, if_false] at h2
                have e1 : ¬ x.toNat < z.toNat := by omega
                have e2 : ¬ z.toNat < x.toNat := by omega
                simp only [e1, e2, if_false]
                exact ih h1 h2

/-- trichotomy: neither smaller means equal -/
theorem bytesLt_total {a b : Bytes} (h1 : bytesLt a b = false) (h2 : bytesLt b a = false) : a = b := by
  induction a generalizing b with
  | nil => cases b <;> simp_all [bytesLt]
  | cons x xs ih =>
    cases b with
    | nil => simp [bytesLt] at h2
    | cons y ys =>
      simp only [bytesLt] at h1 h2
      by_cases a1 : x.toNat < y.toNat
      · simp [a1] at h1
      · by_cases a2 : y.toNat < x.toNat
        · simp [a2] at h2
        · simp only [a1, a2, if_false] at h1 h2
          have : x = y := UInt8.toNat_inj.mp (by omega)
          rw [this, ih h1 h2]

theorem bytesLe_trans {a b c : Bytes} (h1 : bytesLe a b = true) (h2 : bytesLe b c = true) :
    bytesLe a c = true := by
  simp only [bytesLe, Bool.not_eq_true'] at *
  cases h : bytesLt c a with
  | false => rfl
  | true =>
    cases hab : bytesLt a b with
    | true => rw [bytesLt_trans h hab] at h2; cases h2
    | false =>
      have : a = b := bytesLt_total hab h1
      subst this; rw [h] at h2; cases h2

theorem bytesLe_total (a b : Bytes) : (bytesLe a b || bytesLe b a) = true := by
  simp only [bytesLe]
  cases h : bytesLt b a with
  | false => simp
  | true => simp [bytesLt_asymm h]

theorem bytesLe_antisymm {a b : Bytes} (h1 : bytesLe a b = true) (h2 : bytesLe b a = true) : a = b := by
  simp only [bytesLe, Bool.not_eq_true'] at *
  exact bytesLt_total h2 h1

theorem bytesLe_of_lt {a b : Bytes} (h : bytesLt a b = true) : bytesLe a b = true := by
  simp [bytesLe, bytesLt_asymm h]

end Mixin.BytesSnap
