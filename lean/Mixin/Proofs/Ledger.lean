import Mixin.Model.Ledger
/-! Helper lemmas about the ledger model: association lists, frame lemmas (which key families a
    storage function can touch), monotonicity of the finalization family. Core Lean only. -/
namespace Mixin.Ledger

section AList
variable {α β : Type} [DecidableEq α]

theorem aget_aset_eq (l : List (α × β)) (k : α) (v : β) : aget (aset l k v) k = some v := by
  induction l with
  | nil => simp [aset, aget]
  | cons h t ih =>
    obtain ⟨k', w⟩ := h
    by_cases hk : k' = k
    · simp [aset, aget, hk]
    · simp [aset, aget, hk, ih]

theorem aget_aset_ne (l : List (α × β)) (k x : α) (v : β) (h : k ≠ x) :
    aget (aset l k v) x = aget l x := by
  induction l with
  | nil => simp [aset, aget, h]
  | cons hd t ih =>
    obtain ⟨k', w⟩ := hd
    by_cases hk : k' = k
    · subst hk; simp [aset, aget, h]
    · by_cases hx : k' = x
      · subst hx; simp [aset, aget, hk]
      · simp [aset, aget, hk, hx, ih]

theorem aget_aset (l : List (α × β)) (k x : α) (v : β) :
    aget (aset l k v) x = if k = x then some v else aget l x := by
  by_cases h : k = x
  · subst h; simp [aget_aset_eq]
  · simp [h, aget_aset_ne]

end AList

/-! ### frame lemmas: fin / total / txs / utxo / assetInfo -/

theorem lockGhostKey_frame {st st' : State} {k t : Id} (h : lockGhostKey st k t = .ok st') :
    st'.fin = st.fin ∧ st'.total = st.total ∧ st'.txs = st.txs ∧ st'.utxo = st.utxo ∧
    st'.assetInfo = st.assetInfo ∧ st'.unique = st.unique := by
  unfold lockGhostKey at h
  split at h
  · cases h; simp
  · split at h
    · cases h; simp
    · cases h

theorem lockGhostKeys_frame {ks : List Id} {st st' : State} {t : Id}
    (h : lockGhostKeys ks st t = .ok st') :
    st'.fin = st.fin ∧ st'.total = st.total ∧ st'.txs = st.txs ∧ st'.utxo = st.utxo ∧
    st'.assetInfo = st.assetInfo ∧ st'.unique = st.unique := by
  induction ks generalizing st with
  | nil => simp [lockGhostKeys] at h; cases h; simp
  | cons k r ih =>
    simp only [lockGhostKeys] at h
    split at h
    · rename_i s1 h1
      have f1 := lockGhostKey_frame h1
      have f2 := ih h
      simp [f1, f2]
    · cases h

theorem writeWithdrawalClaim_frame {st st' : State} {tx : Tx} (h : writeWithdrawalClaim st tx = .ok st') :
    st'.fin = st.fin ∧ st'.total = st.total ∧ st'.txs = st.txs ∧ st'.utxo = st.utxo ∧
    st'.assetInfo = st.assetInfo ∧ st'.unique = st.unique := by
  unfold writeWithdrawalClaim at h
  split at h
  · cases h
  · split at h
    · cases h; simp
    · cases h

theorem writeAssetInfo_frame {st st' : State} {a : Id} {i : Id × Id} (h : writeAssetInfo st a i = .ok st') :
    st'.fin = st.fin ∧ st'.total = st.total ∧ st'.txs = st.txs ∧ st'.utxo = st.utxo ∧
    st'.unique = st.unique := by
  unfold writeAssetInfo at h
  split at h
  · cases h; simp
  · split at h
    · cases h; simp
    · cases h

/-- `writeUTXO` touches the UTXO family only at its own key -/
theorem writeUTXO_frame {st st' : State} {tx : Tx} {ts idx : Nat} {o : Output}
    (h : writeUTXO st tx ts idx o = .ok st') :
    st'.fin = st.fin ∧ st'.total = st.total ∧ st'.txs = st.txs ∧ st'.assetInfo = st.assetInfo ∧
    st'.unique = st.unique ∧
    st'.utxo = aset st.utxo (tx.id, idx) ⟨tx.asset, o.typ, o.amount, o.keys, none⟩ := by
  unfold writeUTXO at h
  split at h
  · cases h
  · rename_i st1 h1
    have f1 := lockGhostKeys_frame h1
    simp only at h
    split at h
    all_goals first
      | (cases h; simp [f1])
      | (have f2 := writeWithdrawalClaim_frame h; simp at f2; simp [f1, f2])

theorem writeTotal_frame {cap : Id → Nat} {st st' : State} {tx : Tx} (h : writeTotal cap st tx = .ok st') :
    st'.fin = st.fin ∧ st'.txs = st.txs ∧ st'.utxo = st.utxo ∧ st'.assetInfo = st.assetInfo ∧
    st'.unique = st.unique := by
  unfold writeTotal at h
  split at h
  · cases h
  · split at h
    · cases h
    · cases h; simp
    · split at h
      · cases h
      · cases h; simp

/-- new entries written by the loop over `UnspentOutputs()` starting at output number `idx` -/
def newEntries (tx : Tx) : List Output → Nat → List ((Id × Nat) × UTXO)
  | [], _ => []
  | o :: r, idx =>
    if materialised o.typ = some true then
      ((tx.id, idx), ⟨tx.asset, o.typ, o.amount, o.keys, none⟩) :: newEntries tx r (idx + 1)
    else newEntries tx r (idx + 1)

def asetAll {α β : Type} [DecidableEq α] (l : List (α × β)) : List (α × β) → List (α × β)
  | [] => l
  | (k, v) :: r => asetAll (aset l k v) r

theorem writeOutputs_frame {outs : List Output} {idx : Nat} {st st' : State} {tx : Tx} {ts : Nat}
    (h : writeOutputs outs idx st tx ts = .ok st') :
    st'.fin = st.fin ∧ st'.total = st.total ∧ st'.txs = st.txs ∧ st'.assetInfo = st.assetInfo ∧
    st'.unique = st.unique ∧
    st'.utxo = asetAll st.utxo (newEntries tx outs idx) := by
  induction outs generalizing st idx with
  | nil => simp [writeOutputs] at h; cases h; simp [newEntries, asetAll]
  | cons o r ih =>
    simp only [writeOutputs] at h
    split at h
    · rename_i hm
      split at h
      · rename_i s1 h1
        have f1 := writeUTXO_frame h1
        have f2 := ih h
        simp [newEntries, hm, asetAll, f1, f2]
      · cases h
    · rename_i hm
      have f2 := ih h
      simp [newEntries, hm, f2]

/-! ### the finalization family only grows -/

def FinMono (st st' : State) : Prop := ∀ t s, aget st.fin t = some s → aget st'.fin t = some s

theorem FinMono.refl (st : State) : FinMono st st := fun _ _ h => h

theorem FinMono.trans {a b c : State} (h1 : FinMono a b) (h2 : FinMono b c) : FinMono a c :=
  fun t s h => h2 t s (h1 t s h)

theorem FinMono.of_eq {st st' : State} (h : st'.fin = st.fin) : FinMono st st' := by
  intro t s ht; rw [h]; exact ht

/-- shape of a successful first finalization -/
theorem finalizeTransaction_new {cap : Id → Nat} {st st' : State} {tx : Tx} {snap ts : Nat}
    (hn : aget st.fin tx.id = none) (h : finalizeTransaction cap st tx snap ts = .ok st') :
    ∃ st2 st3 : State,
      st2.fin = aset st.fin tx.id snap ∧ st2.total = st.total ∧ st2.txs = st.txs ∧ st2.utxo = st.utxo ∧
      st2.unique = st.unique ∧ outputsKnown tx.outputs = true ∧
      writeOutputs tx.outputs 0 st2 tx ts = .ok st3 ∧ writeTotal cap st3 tx = .ok st' := by
  unfold finalizeTransaction at h
  rw [hn] at h
  simp only at h
  split at h
  · cases h
  · rename_i in0 rest hin
    split at h
    · cases h
    · rename_i st2 h2
      split at h
      · cases h
      · rename_i hk
        split at h
        · cases h
        · rename_i st3 h3
          refine ⟨st2, st3, ?_, ?_, ?_, ?_, ?_, ?_, h3, h⟩
          all_goals
            split at h2
            · first
              | (have f := writeAssetInfo_frame h2; simp at f; simp [f])
              | simpa using hk
            · first
              | (cases h2; rfl)
              | simpa using hk

theorem finalizeTransaction_finMono {cap : Id → Nat} {st st' : State} {tx : Tx} {snap ts : Nat}
    (h : finalizeTransaction cap st tx snap ts = .ok st') : FinMono st st' := by
  cases hn : aget st.fin tx.id with
  | some s =>
    unfold finalizeTransaction at h
    rw [hn] at h
    cases h
    exact FinMono.refl _
  | none =>
    obtain ⟨st2, st3, hf, _, _, _, _, _, h3, h4⟩ := finalizeTransaction_new hn h
    have f3 := writeOutputs_frame h3
    have f4 := writeTotal_frame h4
    intro t s ht
    rw [f4.1, f3.1, hf]
    by_cases e : tx.id = t
    · subst e; rw [hn] at ht; cases ht
    · rw [aget_aset_ne _ _ _ _ e]; exact ht

theorem finalizeTransaction_txs {cap : Id → Nat} {st st' : State} {tx : Tx} {snap ts : Nat}
    (h : finalizeTransaction cap st tx snap ts = .ok st') : st'.txs = st.txs := by
  cases hn : aget st.fin tx.id with
  | some s =>
    unfold finalizeTransaction at h
    rw [hn] at h
    cases h; rfl
  | none =>
    obtain ⟨st2, st3, _, _, htx, _, _, _, h3, h4⟩ := finalizeTransaction_new hn h
    rw [(writeTotal_frame h4).2.1, (writeOutputs_frame h3).2.2.1, htx]

theorem finalizeTransaction_finalized {cap : Id → Nat} {st st' : State} {tx : Tx} {snap ts : Nat}
    (h : finalizeTransaction cap st tx snap ts = .ok st') : finalized st' tx.id = true := by
  cases hn : aget st.fin tx.id with
  | some s =>
    unfold finalizeTransaction at h
    rw [hn] at h
    cases h
    simp [finalized, hn]
  | none =>
    obtain ⟨st2, st3, hf, _, _, _, _, _, h3, h4⟩ := finalizeTransaction_new hn h
    have f3 := writeOutputs_frame h3
    have f4 := writeTotal_frame h4
    simp [finalized, f4.1, f3.1, hf, aget_aset_eq]

theorem finalizeAll_finMono {cap : Id → Nat} {l : List Id} {st st' : State} {snap : Snap}
    (h : finalizeAll cap l st snap = .ok st') : FinMono st st' ∧ st'.txs = st.txs := by
  induction l generalizing st with
  | nil => simp [finalizeAll] at h; cases h; exact ⟨FinMono.refl _, rfl⟩
  | cons t r ih =>
    simp only [finalizeAll] at h
    split at h
    · cases h
    · rename_i tx htx
      split at h
      · cases h
      · rename_i s1 h1
        have m1 := finalizeTransaction_finMono h1
        have t1 := finalizeTransaction_txs h1
        have ⟨m2, t2⟩ := ih h
        refine ⟨FinMono.trans m1 (fun t s hs => m2 t s (by simpa using hs)), ?_⟩
        rw [t2]; simpa using t1


theorem finalizeTransaction_unique {cap : Id → Nat} {st st' : State} {tx : Tx} {snap ts : Nat}
    (h : finalizeTransaction cap st tx snap ts = .ok st') : st'.unique = st.unique := by
  cases hn : aget st.fin tx.id with
  | some s =>
    unfold finalizeTransaction at h
    rw [hn] at h
    cases h; rfl
  | none =>
    obtain ⟨st2, st3, _, _, _, _, hu, _, h3, h4⟩ := finalizeTransaction_new hn h
    rw [(writeTotal_frame h4).2.2.2.2, (writeOutputs_frame h3).2.2.2.2.1, hu]

/-- content addressing: the body stored under a hash has that hash -/
def TxsKeyed (st : State) : Prop := ∀ k tx, aget st.txs k = some tx → tx.id = k

/-- after the loop of `writeSnapshot` every listed transaction is finalized and marked for the node -/
theorem finalizeAll_effects {cap : Id → Nat} {l : List Id} {st st' : State} {snap : Snap}
    (hk : TxsKeyed st) (h : finalizeAll cap l st snap = .ok st') :
    (∀ t ∈ l, finalized st' t = true ∧ aget st'.unique (t, snap.node) = some ()) ∧
    (∀ k, aget st.unique k = some () → aget st'.unique k = some ()) := by
  induction l generalizing st with
  | nil => simp [finalizeAll] at h; cases h; simp
  | cons t r ih =>
    simp only [finalizeAll] at h
    split at h
    · cases h
    · rename_i tx htx
      split at h
      · cases h
      · rename_i s1 h1
        have hid := hk t tx htx
        have hf := finalizeTransaction_finalized h1
        have hu := finalizeTransaction_unique h1
        have ht := finalizeTransaction_txs h1
        have hk1 : TxsKeyed { s1 with unique := aset s1.unique (t, snap.node) () } := by
          intro k x hx
          apply hk k x
          simpa [ht] using hx
        have ⟨a, b⟩ := ih hk1 h
        have ⟨m, _⟩ := finalizeAll_finMono h
        constructor
        · intro x hx
          rcases List.mem_cons.mp hx with e | e
          · subst e
            constructor
            · rw [hid] at hf
              simp only [finalized] at hf ⊢
              cases hs : aget s1.fin x with
              | none => simp [hs] at hf
              | some v => have := m x v (by simpa using hs); simp [this]
            · exact b _ (by simp [aget_aset_eq])
          · exact a x e
        · intro k hk'
          apply b
          by_cases e : (t, snap.node) = k
          · subst e; simp [aget_aset_eq]
          · simp only [aget_aset_ne _ _ _ _ e, hu]; exact hk'

/-! ### locks and persisting a body never touch the finalization family or the totals -/

theorem pruneTransaction_frame {st st' : State} {t : Id} (h : pruneTransaction st t = .ok st') :
    st'.fin = st.fin ∧ st'.total = st.total ∧ st'.utxo = st.utxo ∧ st'.assetInfo = st.assetInfo := by
  unfold pruneTransaction at h
  split at h
  · cases h
  · cases h; simp

theorem lockUTXO_frame {st st' : State} {h i t : Id} {fork : Bool} (hh : lockUTXO st h i t fork = .ok st') :
    st'.fin = st.fin ∧ st'.total = st.total ∧ st'.assetInfo = st.assetInfo := by
  unfold lockUTXO at hh
  split at hh
  · cases hh
  · simp only at hh
    split at hh
    · cases hh; simp
    · split at hh
      · cases hh; simp
      · split at hh
        · cases hh
        · split at hh
          · rename_i s1 h1
            have f := pruneTransaction_frame h1
            cases hh; simp [f]
          · cases hh

theorem lockUTXOs_frame {ins : List Input} {st st' : State} {t : Id} {fork : Bool}
    (h : lockUTXOs ins st t fork = .ok st') :
    st'.fin = st.fin ∧ st'.total = st.total ∧ st'.assetInfo = st.assetInfo := by
  induction ins generalizing st with
  | nil => simp [lockUTXOs] at h; cases h; simp
  | cons x r ih =>
    cases x with
    | utxo hh i =>
      simp only [lockUTXOs] at h
      split at h
      · rename_i s1 h1
        have f1 := lockUTXO_frame h1
        have f2 := ih h
        simp [f1, f2]
      · cases h
    | deposit _ _ _ _ => simp [lockUTXOs] at h
    | mint _ _ => simp [lockUTXOs] at h
    | genesis => simp [lockUTXOs] at h

theorem lockDeposit_frame {st st' : State} {k t : Id} {fork : Bool} (h : lockDeposit st k t fork = .ok st') :
    st'.fin = st.fin ∧ st'.total = st.total ∧ st'.assetInfo = st.assetInfo ∧ st'.utxo = st.utxo := by
  unfold lockDeposit at h
  split at h
  · cases h; simp
  · split at h
    · cases h; simp
    · split at h
      · cases h
      · split at h
        · rename_i s1 h1
          have f := pruneTransaction_frame h1
          cases h; simp [f]
        · cases h

theorem lockMint_frame {st st' : State} {b a t : Id} {fork : Bool} (h : lockMint st b a t fork = .ok st') :
    st'.fin = st.fin ∧ st'.total = st.total ∧ st'.assetInfo = st.assetInfo ∧ st'.utxo = st.utxo := by
  unfold lockMint at h
  split at h
  · cases h; simp
  · split at h
    · cases h; simp
    · split at h
      · cases h
      · split at h
        · rename_i s1 h1
          have f := pruneTransaction_frame h1
          cases h; simp [f]
        · cases h

theorem lockInputsTxn_frame {st st' : State} {tx : Tx} {fork : Bool} (h : lockInputsTxn st tx fork = .ok st') :
    st'.fin = st.fin ∧ st'.total = st.total ∧ st'.assetInfo = st.assetInfo := by
  unfold lockInputsTxn at h
  split at h
  · split at h
    · have f := lockMint_frame h; exact ⟨f.1, f.2.1, f.2.2.1⟩
    · cases h
  · split at h
    · have f := lockDeposit_frame h; exact ⟨f.1, f.2.1, f.2.2.1⟩
    · cases h
  · exact lockUTXOs_frame h

theorem writeTransactionTxn_frame {st st' : State} {tx : Tx} (h : writeTransactionTxn st tx = .ok st') :
    st'.fin = st.fin ∧ st'.total = st.total ∧ st'.assetInfo = st.assetInfo ∧ st'.utxo = st.utxo := by
  unfold writeTransactionTxn at h
  split at h
  · cases h
  · split at h
    · cases h
    · unfold writeTransactionInner at h
      split at h
      · cases h; simp
      · split at h
        · cases h; simp
        · cases h

theorem validateCore_locks {st st1 : State} {tx : Tx} {fork : Bool} {us : List UTXO}
    (h : validateCore st tx fork = some (st1, us)) :
    lockGhostKeys (ghostKeys tx) st tx.id = .ok st1 := by
  unfold validateCore at h
  simp only at h
  repeat' (split at h)
  all_goals (try (cases h; done))
  all_goals simp_all

theorem atomic_ok {st st' : State} {r : Except Fail State} (h : atomic st r = (none, st')) : r = .ok st' := by
  unfold atomic at h
  split at h
  · simp at h; rw [h]
  · simp at h

theorem atomic_fail {st : State} {r : Except Fail State} {e : Fail} {st' : State}
    (h : atomic st r = (some e, st')) : st' = st := by
  unfold atomic at h
  split at h
  · simp at h
  · simp at h; exact h.2.symm


/-! ### the topology family is written by `writeTopology` only -/

theorem lockGhostKeys_topo {ks : List Id} {st st' : State} {t : Id}
    (h : lockGhostKeys ks st t = .ok st') : st'.topo = st.topo := by
  induction ks generalizing st with
  | nil => simp [lockGhostKeys] at h; cases h; rfl
  | cons k r ih =>
    simp only [lockGhostKeys] at h
    split at h
    · rename_i s1 h1
      rw [ih h]
      unfold lockGhostKey at h1
      split at h1
      · cases h1; rfl
      · split at h1
        · cases h1; rfl
        · cases h1
    · cases h

theorem writeUTXO_topo {st st' : State} {tx : Tx} {ts idx : Nat} {o : Output}
    (h : writeUTXO st tx ts idx o = .ok st') : st'.topo = st.topo := by
  unfold writeUTXO at h
  split at h
  · cases h
  · rename_i st1 h1
    have f1 := lockGhostKeys_topo h1
    simp only at h
    split at h
    all_goals first
      | (cases h; simp [f1])
      | (unfold writeWithdrawalClaim at h
         split at h
         · cases h
         · split at h
           · cases h; simp [f1]
           · cases h)

theorem writeOutputs_topo {outs : List Output} {idx : Nat} {st st' : State} {tx : Tx} {ts : Nat}
    (h : writeOutputs outs idx st tx ts = .ok st') : st'.topo = st.topo := by
  induction outs generalizing st idx with
  | nil => simp [writeOutputs] at h; cases h; rfl
  | cons o r ih =>
    simp only [writeOutputs] at h
    split at h
    · split at h
      · rename_i s1 h1
        rw [ih h, writeUTXO_topo h1]
      · cases h
    · exact ih h

theorem finalizeTransaction_topo {cap : Id → Nat} {st st' : State} {tx : Tx} {snap ts : Nat}
    (h : finalizeTransaction cap st tx snap ts = .ok st') : st'.topo = st.topo := by
  unfold finalizeTransaction at h
  split at h
  · cases h; rfl
  · simp only at h
    split at h
    · cases h
    · split at h
      · cases h
      · rename_i st2 h2
        have e2 : st2.topo = st.topo := by
          split at h2
          · unfold writeAssetInfo at h2
            split at h2
            · cases h2; rfl
            · split at h2
              · cases h2; rfl
              · cases h2
          · cases h2; rfl
        split at h
        · cases h
        · split at h
          · cases h
          · rename_i st3 h3
            have e3 := writeOutputs_topo h3
            unfold writeTotal at h
            split at h
            · cases h
            · split at h
              · cases h
              · cases h; rw [e3, e2]
              · split at h
                · cases h
                · cases h; simp [e3, e2]

theorem finalizeAll_topo {cap : Id → Nat} {l : List Id} {st st' : State} {snap : Snap}
    (h : finalizeAll cap l st snap = .ok st') : st'.topo = st.topo := by
  induction l generalizing st with
  | nil => simp [finalizeAll] at h; cases h; rfl
  | cons t r ih =>
    simp only [finalizeAll] at h
    split at h
    · cases h
    · split at h
      · cases h
      · rename_i s1 h1
        rw [ih h]
        simpa using finalizeTransaction_topo h1

end Mixin.Ledger
