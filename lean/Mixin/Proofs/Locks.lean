import Mixin.Model.Locks
import Mixin.Proofs.KV
/-! Frame and case lemmas for the lock model (used by Props/C03 and Props/C04). -/
namespace Mixin.Locks
open Mixin.KV

theorem pruneTransaction_some {s s' : Store} {h : Nat} (hp : pruneTransaction s h = some s') :
    s.fin.get h = none ∧ s' = { s with tx := s.tx.del h } := by
  unfold pruneTransaction at hp
  split at hp
  · cases hp
  · next hfin =>
    simp only [Option.some.injEq] at hp
    exact ⟨hfin, hp.symm⟩

theorem pruneTransaction_none {s : Store} {h : Nat} (hp : pruneTransaction s h = none) :
    s.fin.get h ≠ none := by
  unfold pruneTransaction at hp
  split at hp
  · next v hv => rw [hv]; simp
  · cases hp

/-- what a successful `lockUTXO` did -/
theorem lockUTXO_ok {s s' : Store} {x : Nat × Nat} {tx : Nat} {fork : Bool}
    (h : lockUTXO s x tx fork = .ok s') :
    x.2 ≤ maxIndex ∧ ∃ cur, s.utxo.get x = some cur ∧
      (((cur = 0 ∨ cur = tx) ∧ s' = { s with utxo := s.utxo.set x tx }) ∨
       (cur ≠ 0 ∧ cur ≠ tx ∧ fork = true ∧ s.fin.get cur = none ∧
          s' = { s with tx := s.tx.del cur, utxo := s.utxo.set x tx })) := by
  unfold lockUTXO at h
  split at h
  · cases h
  · next hidx =>
    refine ⟨Nat.le_of_not_gt hidx, ?_⟩
    split at h
    · cases h
    · next cur hcur =>
      refine ⟨cur, hcur, ?_⟩
      split at h
      · next hc =>
        split at h
        · next hf =>
          split at h
          · cases h
          · next s1 hp =>
            obtain ⟨hfin, rfl⟩ := pruneTransaction_some hp
            simp only [Res.ok.injEq] at h
            exact Or.inr ⟨hc.1, hc.2, hf, hfin, h.symm⟩
        · cases h
      · next hc =>
        simp only [Res.ok.injEq] at h
        refine Or.inl ⟨?_, h.symm⟩
        by_cases h0 : cur = 0
        · exact Or.inl h0
        · by_cases h1 : cur = tx
          · exact Or.inr h1
          · exact absurd ⟨h0, h1⟩ hc

theorem lockUTXO_frame {s s' : Store} {x : Nat × Nat} {tx : Nat} {fork : Bool}
    (h : lockUTXO s x tx fork = .ok s') :
    s'.fin = s.fin ∧ s'.deposit = s.deposit ∧ s'.mint = s.mint ∧ s'.ghost = s.ghost ∧
    s'.unique = s.unique ∧ s'.utxo = s.utxo.set x tx ∧
    (∀ h' v, s'.tx.get h' = some v → s.tx.get h' = some v) := by
  obtain ⟨_, cur, _, hc⟩ := lockUTXO_ok h
  rcases hc with ⟨_, rfl⟩ | ⟨_, _, _, _, rfl⟩
  · exact ⟨rfl, rfl, rfl, rfl, rfl, rfl, fun _ _ h => h⟩
  · exact ⟨rfl, rfl, rfl, rfl, rfl, rfl, fun _ _ h => Map.get_del_some h⟩

/-- a request that meets a foreign holder is refused unless it is a fork request against a
    holder without FINALIZATION record -/
theorem lockUTXO_blocked {s : Store} {x : Nat × Nat} {tx cur : Nat} {fork : Bool}
    (hcur : s.utxo.get x = some cur) (h0 : cur ≠ 0) (hne : cur ≠ tx)
    (hb : fork = false ∨ s.fin.get cur ≠ none) : ∀ s', lockUTXO s x tx fork ≠ .ok s' := by
  intro s' h
  obtain ⟨_, cur', hcur', hc⟩ := lockUTXO_ok h
  rw [hcur] at hcur'
  cases hcur'
  rcases hc with ⟨h1, _⟩ | ⟨_, _, hf, hfin, _⟩
  · rcases h1 with h1 | h1
    · exact h0 h1
    · exact hne h1
  · rcases hb with hb | hb
    · rw [hb] at hf; cases hf
    · exact hb hfin

theorem lockUTXOs_blocked {ins : List (Nat × Nat)} {s : Store} {x : Nat × Nat} {tx cur : Nat} {fork : Bool}
    (hx : x ∈ ins) (hcur : s.utxo.get x = some cur) (h0 : cur ≠ 0) (hne : cur ≠ tx)
    (hb : fork = false ∨ s.fin.get cur ≠ none) : ∀ s', lockUTXOs ins tx fork s ≠ .ok s' := by
  induction ins generalizing s with
  | nil => cases hx
  | cons y ys ih =>
    intro s' h
    unfold lockUTXOs at h
    split at h
    · next s1 h1 =>
      by_cases hxy : x = y
      · subst hxy
        exact lockUTXO_blocked hcur h0 hne hb s1 h1
      · have hx' : x ∈ ys := by
          cases hx with
          | head => exact absurd rfl hxy
          | tail _ h => exact h
        obtain ⟨hfin, _, _, _, _, hut, _⟩ := lockUTXO_frame h1
        have hcur1 : s1.utxo.get x = some cur := by
          rw [hut, Map.get_set_ne _ _ (fun e => hxy e.symm)]; exact hcur
        have hb1 : fork = false ∨ s1.fin.get cur ≠ none := by rw [hfin]; exact hb
        exact ih hx' hcur1 hb1 s' h
    · next hnot => exact hnot s' h

/-- everything a successful `LockUTXOs` leaves alone, and what it does to `utxo` and `tx` -/
theorem lockUTXOs_frame {ins : List (Nat × Nat)} {s s' : Store} {tx : Nat} {fork : Bool}
    (h : lockUTXOs ins tx fork s = .ok s') :
    s'.fin = s.fin ∧ s'.deposit = s.deposit ∧ s'.mint = s.mint ∧ s'.ghost = s.ghost ∧
    s'.unique = s.unique ∧
    (∀ h' v, s'.tx.get h' = some v → s.tx.get h' = some v) ∧
    (∀ y, y ∈ ins → s'.utxo.get y = some tx) ∧
    (∀ y, y ∉ ins → s'.utxo.get y = s.utxo.get y) ∧
    (∀ y, (s'.utxo.get y).isSome = (s.utxo.get y).isSome) := by
  induction ins generalizing s with
  | nil =>
    simp only [lockUTXOs, Res.ok.injEq] at h
    subst h
    refine ⟨rfl, rfl, rfl, rfl, rfl, ?_, ?_, ?_, ?_⟩
    · intro _ _ h; exact h
    · intro y hy; cases hy
    · intro _ _; rfl
    · intro _; rfl
  | cons x xs ih =>
    unfold lockUTXOs at h
    split at h
    · next s1 h1 =>
      obtain ⟨f1, d1, m1, g1, u1, ut1, t1⟩ := lockUTXO_frame h1
      obtain ⟨_, cur, hcur, _⟩ := lockUTXO_ok h1
      obtain ⟨f2, d2, m2, g2, u2, t2, in2, out2, dom2⟩ := ih h
      refine ⟨f2.trans f1, d2.trans d1, m2.trans m1, g2.trans g1, u2.trans u1,
        fun h' v hv => t1 h' v (t2 h' v hv), ?_, ?_, ?_⟩
      · intro y hy
        by_cases hyx : y ∈ xs
        · exact in2 y hyx
        · have : y = x := by
            cases hy with
            | head => rfl
            | tail _ h => exact absurd h hyx
          subst this
          rw [out2 y hyx, ut1, Map.get_set_same]
      · intro y hy
        have hyx : y ≠ x := fun e => hy (by rw [e]; exact List.mem_cons_self)
        have hyxs : y ∉ xs := fun e => hy (List.mem_cons_of_mem _ e)
        rw [out2 y hyxs, ut1, Map.get_set_ne _ _ (fun e => hyx e.symm)]
      · intro y
        rw [dom2 y, ut1, Map.get_set]
        split
        · next e => subst e; simp [hcur]
        · rfl
    · next hnot => exact absurd h (hnot s')

/-! ## ghost keys -/

/-- `s'` differs from `s` at most in the ghost family, where bindings are only ever added -/
def GhostExt (s s' : Store) : Prop :=
  s'.utxo = s.utxo ∧ s'.deposit = s.deposit ∧ s'.mint = s.mint ∧ s'.tx = s.tx ∧ s'.fin = s.fin ∧
  s'.unique = s.unique ∧ ∀ k v, s.ghost.get k = some v → s'.ghost.get k = some v

theorem GhostExt.refl (s : Store) : GhostExt s s := ⟨rfl, rfl, rfl, rfl, rfl, rfl, fun _ _ h => h⟩

theorem GhostExt.trans {a b c : Store} (h1 : GhostExt a b) (h2 : GhostExt b c) : GhostExt a c :=
  ⟨h2.1.trans h1.1, h2.2.1.trans h1.2.1, h2.2.2.1.trans h1.2.2.1, h2.2.2.2.1.trans h1.2.2.2.1,
   h2.2.2.2.2.1.trans h1.2.2.2.2.1, h2.2.2.2.2.2.1.trans h1.2.2.2.2.2.1,
   fun k v h => h2.2.2.2.2.2.2 k v (h1.2.2.2.2.2.2 k v h)⟩

/-- what `lockGhostKey` can do: bind a free key, or accept without writing -/
theorem lockGhostKey_some {exc : List Nat} {s s' : Store} {k tx : Nat} {fork : Bool}
    (h : lockGhostKey exc s k tx fork = some s') :
    (s.ghost.get k = none ∧ s' = { s with ghost := s.ghost.set k tx }) ∨
    (∃ cur, s.ghost.get k = some cur ∧ cur ≠ 0 ∧ s' = s ∧ ((fork = true ∧ tx ∈ exc) ∨ cur = tx)) := by
  unfold lockGhostKey at h
  split at h
  · next hg =>
    simp only [Option.some.injEq] at h
    exact Or.inl ⟨hg, h.symm⟩
  · next cur hg =>
    refine Or.inr ⟨cur, hg, ?_⟩
    split at h
    · cases h
    · next h0 =>
      split at h
      · next he =>
        simp only [Option.some.injEq] at h
        exact ⟨h0, h.symm, Or.inl he⟩
      · split at h
        · cases h
        · next hc =>
          simp only [Option.some.injEq] at h
          exact ⟨h0, h.symm, Or.inr (Decidable.not_not.mp hc)⟩

theorem lockGhostKey_ext {exc : List Nat} {s s' : Store} {k tx : Nat} {fork : Bool}
    (h : lockGhostKey exc s k tx fork = some s') : GhostExt s s' := by
  rcases lockGhostKey_some h with ⟨hg, rfl⟩ | ⟨_, _, _, rfl, _⟩
  · refine ⟨rfl, rfl, rfl, rfl, rfl, rfl, ?_⟩
    intro k' v hv
    by_cases e : k = k'
    · subst e; rw [hg] at hv; cases hv
    · show (s.ghost.set k tx).get k' = some v
      rw [Map.get_set_ne _ _ e]; exact hv
  · exact GhostExt.refl _

/-- a key bound to another transaction is refused unless the requester is a fork exception -/
theorem lockGhostKey_foreign {exc : List Nat} {s : Store} {k tx cur : Nat} {fork : Bool}
    (hg : s.ghost.get k = some cur) (hne : cur ≠ tx) (hx : ¬ (fork = true ∧ tx ∈ exc)) :
    lockGhostKey exc s k tx fork = none := by
  unfold lockGhostKey
  simp only [hg]
  split
  · rfl
  · first | rfl | (rw [if_neg hx, if_pos hne])

theorem lockGhostLoop_ext {exc : List Nat} {tx : Nat} {fork : Bool} {keys seen : List Nat} {s s' : Store}
    (h : lockGhostLoop exc tx fork keys seen s = some s') : GhostExt s s' := by
  induction keys generalizing s seen with
  | nil => simp only [lockGhostLoop, Option.some.injEq] at h; subst h; exact GhostExt.refl _
  | cons k ks ih =>
    unfold lockGhostLoop at h
    split at h
    · cases h
    · split at h
      · cases h
      · next s1 h1 => exact (lockGhostKey_ext h1).trans (ih h)

theorem lockGhostLoop_foreign {exc : List Nat} {tx cur k : Nat} {fork : Bool} {keys seen : List Nat} {s : Store}
    (hk : k ∈ keys) (hg : s.ghost.get k = some cur) (hne : cur ≠ tx) (hx : ¬ (fork = true ∧ tx ∈ exc)) :
    lockGhostLoop exc tx fork keys seen s = none := by
  induction keys generalizing s seen with
  | nil => cases hk
  | cons k' ks ih =>
    unfold lockGhostLoop
    split
    · rfl
    · split
      · rfl
      · next s1 h1 =>
        by_cases e : k = k'
        · subst e
          rw [lockGhostKey_foreign hg hne hx] at h1; cases h1
        · have hk' : k ∈ ks := by
            cases hk with
            | head => exact absurd rfl e
            | tail _ h => exact h
          exact ih hk' ((lockGhostKey_ext h1).2.2.2.2.2.2 k cur hg)

/-- the duplicate filter of `LockGhostKeys` -/
theorem lockGhostLoop_dup {exc : List Nat} {tx k : Nat} {fork : Bool} {keys seen : List Nat} {s : Store}
    (hk : k ∈ keys) (hs : k ∈ seen) : lockGhostLoop exc tx fork keys seen s = none := by
  induction keys generalizing s seen with
  | nil => cases hk
  | cons k' ks ih =>
    unfold lockGhostLoop
    split
    · rfl
    · next hns =>
      split
      · rfl
      · next s1 h1 =>
        have e : k ≠ k' := fun e => hns (e ▸ hs)
        have hk' : k ∈ ks := by
          cases hk with
          | head => exact absurd rfl e
          | tail _ h => exact h
        exact ih hk' (List.mem_cons_of_mem _ hs)

theorem lockKeysFinal_ext {exc : List Nat} {tx : Nat} {keys : List Nat} {s s' : Store}
    (h : lockKeysFinal exc tx keys s = some s') : GhostExt s s' := by
  induction keys generalizing s with
  | nil => simp only [lockKeysFinal, Option.some.injEq] at h; subst h; exact GhostExt.refl _
  | cons k ks ih =>
    unfold lockKeysFinal at h
    split at h
    · cases h
    · next s1 h1 => exact (lockGhostKey_ext h1).trans (ih h)

theorem lockKeysFinal_foreign {exc : List Nat} {tx cur k : Nat} {keys : List Nat} {s : Store}
    (hk : k ∈ keys) (hg : s.ghost.get k = some cur) (hne : cur ≠ tx) (hx : tx ∉ exc) :
    lockKeysFinal exc tx keys s = none := by
  induction keys generalizing s with
  | nil => cases hk
  | cons k' ks ih =>
    unfold lockKeysFinal
    split
    · rfl
    · next s1 h1 =>
      by_cases e : k = k'
      · subst e
        rw [lockGhostKey_foreign hg hne (fun h => hx h.2)] at h1; cases h1
      · have hk' : k ∈ ks := by
          cases hk with
          | head => exact absurd rfl e
          | tail _ h => exact h
        exact ih hk' ((lockKeysFinal_ext (keys := [k']) (by
          unfold lockKeysFinal; rw [h1]; rfl)).2.2.2.2.2.2 k cur hg)

/-- ghost bindings of `s` survive in `s'` -/
def GhostMono (s s' : Store) : Prop := ∀ k v, s.ghost.get k = some v → s'.ghost.get k = some v

theorem sideGate_ok {side : Side} {b : Bool} {next : Res} {s' : Store} (h : sideGate side b next = .ok s') :
    next = .ok s' := by
  unfold sideGate at h
  split at h
  · split at h
    · exact h
    · cases h
    · cases h
  · exact h

theorem writeUTXOs_mono {exc : List Nat} {kd : OutKinds} {side : Side} {tx i : Nat} {outs : List OutSpec} {s s' : Store}
    (h : writeUTXOs exc kd side tx i outs s = .ok s') : GhostMono s s' := by
  induction outs generalizing s i with
  | nil => simp only [writeUTXOs, Res.ok.injEq] at h; subst h; exact fun _ _ h => h
  | cons o rest ih =>
    unfold writeUTXOs at h
    split at h
    · exact ih h
    · split at h
      · cases h
      · next s1 h1 =>
        intro k v hv
        exact ih (s := { s1 with utxo := s1.utxo.set (tx, i) 0 }) (sideGate_ok h) k v
          ((lockKeysFinal_ext h1).2.2.2.2.2.2 k v hv)

/-- a materialised output with a key bound to another transaction stops the finalization -/
theorem writeUTXOs_foreign {exc : List Nat} {kd : OutKinds} {side : Side} {tx cur k i : Nat}
    {outs : List OutSpec} {o : OutSpec} {s : Store}
    (ho : o ∈ outs) (hns : o.typ ∉ kd.skipped) (hk : k ∈ o.keys) (hg : s.ghost.get k = some cur)
    (hne : cur ≠ tx) (hx : tx ∉ exc) : ∀ s', writeUTXOs exc kd side tx i outs s ≠ .ok s' := by
  induction outs generalizing s i with
  | nil => cases ho
  | cons o' rest ih =>
    intro s' h
    unfold writeUTXOs at h
    split at h
    · next hsk =>
      have : o ∈ rest := by
        cases ho with
        | head => exact absurd hsk hns
        | tail _ h => exact h
      exact ih this hg s' h
    · split at h
      · cases h
      · next s1 h1 =>
        by_cases e : o = o'
        · subst e
          rw [lockKeysFinal_foreign hk hg hne hx] at h1; cases h1
        · have : o ∈ rest := by
            cases ho with
            | head => exact absurd rfl e
            | tail _ h => exact h
          exact ih (s := { s1 with utxo := s1.utxo.set (tx, i) 0 }) this
            ((lockKeysFinal_ext h1).2.2.2.2.2.2 k cur hg) s' (sideGate_ok h)

theorem finalizeTransaction_mono {exc : List Nat} {kd : OutKinds} {side : Side} {t : Tx} {s s' : Store}
    (h : finalizeTransaction exc kd side s t = .ok s') : GhostMono s s' := by
  unfold finalizeTransaction at h
  split at h
  · simp only [Res.ok.injEq] at h; subst h; exact fun _ _ h => h
  · split at h
    · exact fun k v hv => writeUTXOs_mono h k v hv
    · cases h

theorem snapshotLoop_mono {exc : List Nat} {kd : OutKinds} {side : Side} {node : Nat} {txs : List Tx} {s s' : Store}
    (h : snapshotLoop exc kd side node txs s = .ok s') : GhostMono s s' := by
  induction txs generalizing s with
  | nil => simp only [snapshotLoop, Res.ok.injEq] at h; subst h; exact fun _ _ h => h
  | cons t ts ih =>
    unfold snapshotLoop at h
    split at h
    · next s1 h1 =>
      intro k v hv
      exact ih h k v (finalizeTransaction_mono h1 k v hv)
    · next hnot => exact absurd h (hnot s')

/-! ### finalization binds every key of every materialised output -/

theorem lockGhostKey_binds {exc : List Nat} {s s' : Store} {k tx : Nat} {fork : Bool}
    (h : lockGhostKey exc s k tx fork = some s') (hx : tx ∉ exc) : s'.ghost.get k = some tx := by
  rcases lockGhostKey_some h with ⟨_, rfl⟩ | ⟨cur, hg, _, rfl, hc⟩
  · exact Map.get_set_same _ _ _
  · rcases hc with ⟨_, he⟩ | he
    · exact absurd he hx
    · rw [hg, he]

theorem lockKeysFinal_binds {exc : List Nat} {tx : Nat} {keys : List Nat} {s s' : Store}
    (h : lockKeysFinal exc tx keys s = some s') (hx : tx ∉ exc) : ∀ k ∈ keys, s'.ghost.get k = some tx := by
  induction keys generalizing s with
  | nil => intro k hk; cases hk
  | cons k' ks ih =>
    unfold lockKeysFinal at h
    split at h
    · cases h
    · next s1 h1 =>
      intro k hk
      cases hk with
      | head => exact (lockKeysFinal_ext h).2.2.2.2.2.2 _ _ (lockGhostKey_binds h1 hx)
      | tail _ hk' => exact ih h k hk'

theorem writeUTXOs_binds {exc : List Nat} {kd : OutKinds} {side : Side} {tx i : Nat} {outs : List OutSpec} {s s' : Store}
    (h : writeUTXOs exc kd side tx i outs s = .ok s') (hx : tx ∉ exc) :
    ∀ o ∈ outs, o.typ ∉ kd.skipped → ∀ k ∈ o.keys, s'.ghost.get k = some tx := by
  induction outs generalizing s i with
  | nil => intro o ho; cases ho
  | cons o' rest ih =>
    unfold writeUTXOs at h
    split at h
    · next hsk =>
      intro o ho hns
      cases ho with
      | head => exact absurd hsk hns
      | tail _ ho' => exact ih h o ho' hns
    · split at h
      · cases h
      · next s1 h1 =>
        have hrest := sideGate_ok h
        intro o ho hns k hk
        cases ho with
        | head => exact writeUTXOs_mono hrest k tx (lockKeysFinal_binds h1 hx k hk)
        | tail _ ho' => exact ih hrest o ho' hns k hk

/-- no call ever changes or removes an existing ghost binding -/
theorem exec_ghost_mono {c : Cfg} {s s' : Store} {op : Op} (h : exec c s op = .ok s') : GhostMono s s' := by
  cases op with
  | lockUTXOs ins tx fork =>
    simp only [exec] at h
    intro k v hv; rw [(lockUTXOs_frame h).2.2.2.1]; exact hv
  | lockDeposit d tx fork =>
    simp only [exec, lockDeposit] at h
    intro k v hv
    split at h
    · simp only [Res.ok.injEq] at h; subst h; exact hv
    · split at h
      · simp only [Res.ok.injEq] at h; subst h; exact hv
      · split at h
        · split at h
          · cases h
          · next s1 hp =>
            obtain ⟨_, rfl⟩ := pruneTransaction_some hp
            simp only [Res.ok.injEq] at h; subst h; exact hv
        · cases h
  | lockMint b a tx fork =>
    simp only [exec, lockMint] at h
    intro k v hv
    split at h
    · simp only [Res.ok.injEq] at h; subst h; exact hv
    · split at h
      · simp only [Res.ok.injEq] at h; subst h; exact hv
      · split at h
        · split at h
          · cases h
          · next s1 hp =>
            obtain ⟨_, rfl⟩ := pruneTransaction_some hp
            simp only [Res.ok.injEq] at h; subst h; exact hv
        · cases h
  | lockGhostKeys keys tx fork =>
    simp only [exec, lockGhostKeys] at h
    split at h
    · cases h
    · next s1 h1 =>
      simp only [Res.ok.injEq] at h; subst h
      exact (lockGhostLoop_ext h1).2.2.2.2.2.2
  | writeTx t =>
    simp only [exec, writeTransaction] at h
    intro k v hv
    split at h
    · split at h
      · simp only [Res.ok.injEq] at h; subst h; exact hv
      · split at h
        · cases h
        · simp only [Res.ok.injEq] at h; subst h; exact hv
    · cases h
  | snapshot node txs side =>
    simp only [exec, writeSnapshot] at h
    split at h
    · cases h
    · split at h
      · exact snapshotLoop_mono h
      · cases h

/-! ## holders over whole histories -/

/-- every stored output was created by a transaction that has a FINALIZATION record
    (true of the empty database and preserved by every call: `exec_inv`) -/
def Inv (s : Store) : Prop := ∀ y, (s.utxo.get y).isSome → (s.fin.get y.1).isSome

/-- effect of finalization code on the lock families -/
structure FinRel (s s' : Store) : Prop where
  deposit : s'.deposit = s.deposit
  mint : s'.mint = s.mint
  tx : s'.tx = s.tx
  finMono : ∀ h, (s.fin.get h).isSome → (s'.fin.get h).isSome
  utxoKeep : ∀ y, (s.fin.get y.1).isSome → s'.utxo.get y = s.utxo.get y
  utxoNew : ∀ y, (s'.utxo.get y).isSome → (s.utxo.get y).isSome ∨ (s'.fin.get y.1).isSome

theorem FinRel.refl (s : Store) : FinRel s s :=
  ⟨rfl, rfl, rfl, fun _ h => h, fun _ _ => rfl, fun _ h => Or.inl h⟩

theorem FinRel.trans {a b c : Store} (h1 : FinRel a b) (h2 : FinRel b c) : FinRel a c where
  deposit := h2.deposit.trans h1.deposit
  mint := h2.mint.trans h1.mint
  tx := h2.tx.trans h1.tx
  finMono := fun h hh => h2.finMono h (h1.finMono h hh)
  utxoKeep := fun y hy => (h2.utxoKeep y (h1.finMono _ hy)).trans (h1.utxoKeep y hy)
  utxoNew := fun y hy => by
    rcases h2.utxoNew y hy with h | h
    · rcases h1.utxoNew y h with h' | h'
      · exact Or.inl h'
      · exact Or.inr (h2.finMono _ h')
    · exact Or.inr h

theorem writeUTXOs_rel {exc : List Nat} {kd : OutKinds} {side : Side} {tx i : Nat} {outs : List OutSpec} {s s' : Store}
    (h : writeUTXOs exc kd side tx i outs s = .ok s') :
    s'.deposit = s.deposit ∧ s'.mint = s.mint ∧ s'.tx = s.tx ∧ s'.fin = s.fin ∧
    (∀ y, y.1 ≠ tx → s'.utxo.get y = s.utxo.get y) ∧
    (∀ y, (s'.utxo.get y).isSome → (s.utxo.get y).isSome ∨ y.1 = tx) := by
  induction outs generalizing s i with
  | nil =>
    simp only [writeUTXOs, Res.ok.injEq] at h; subst h
    exact ⟨rfl, rfl, rfl, rfl, fun _ _ => rfl, fun _ h => Or.inl h⟩
  | cons o rest ih =>
    unfold writeUTXOs at h
    split at h
    · exact ih h
    · split at h
      · cases h
      · next s1 h1 =>
        obtain ⟨u1, d1, m1, t1, f1, _, _⟩ := lockKeysFinal_ext h1
        obtain ⟨d2, m2, t2, f2, k2, n2⟩ := ih (sideGate_ok h)
        refine ⟨d2.trans d1, m2.trans m1, t2.trans t1, f2.trans f1, ?_, ?_⟩
        · intro y hy
          rw [k2 y hy]
          show (s1.utxo.set (tx, i) 0).get y = s.utxo.get y
          rw [Map.get_set_ne _ _ (fun e => hy (by rw [← e])), u1]
        · intro y hy
          rcases n2 y hy with h' | h'
          · by_cases e : (tx, i) = y
            · exact Or.inr (by rw [← e])
            · have : (s1.utxo.set (tx, i) 0).get y = s.utxo.get y := by
                rw [Map.get_set_ne _ _ e, u1]
              exact Or.inl (by rw [← this]; exact h')
          · exact Or.inr h'

theorem finalizeTransaction_rel {exc : List Nat} {kd : OutKinds} {side : Side} {t : Tx} {s s' : Store}
    (h : finalizeTransaction exc kd side s t = .ok s') : FinRel s s' := by
  unfold finalizeTransaction at h
  split at h
  · simp only [Res.ok.injEq] at h; subst h; exact FinRel.refl _
  · next hfin =>
    split at h
    · obtain ⟨d, m, tx, f, k, n⟩ := writeUTXOs_rel h
      refine ⟨d, m, tx, ?_, ?_, ?_⟩
      · intro h' hh
        rw [f]
        show ((s.fin.set t.id ()).get h').isSome
        rw [Map.get_set]; split
        · rfl
        · exact hh
      · intro y hy
        have : y.1 ≠ t.id := by
          intro e; rw [e, hfin] at hy; cases hy
        exact k y this
      · intro y hy
        rcases n y hy with h' | h'
        · exact Or.inl h'
        · refine Or.inr ?_
          rw [f, h']
          show ((s.fin.set t.id ()).get t.id).isSome
          rw [Map.get_set_same]; rfl
    · cases h

theorem snapshotLoop_rel {exc : List Nat} {kd : OutKinds} {side : Side} {node : Nat} {txs : List Tx} {s s' : Store}
    (h : snapshotLoop exc kd side node txs s = .ok s') : FinRel s s' := by
  induction txs generalizing s with
  | nil => simp only [snapshotLoop, Res.ok.injEq] at h; subst h; exact FinRel.refl _
  | cons t ts ih =>
    unfold snapshotLoop at h
    split at h
    · next s1 h1 =>
      have r1 := finalizeTransaction_rel h1
      have r2 : FinRel s1 { s1 with unique := s1.unique.set (node, t.id) () } :=
        ⟨rfl, rfl, rfl, fun _ h => h, fun _ _ => rfl, fun _ h => Or.inl h⟩
      exact (r1.trans r2).trans (ih h)
    · next hnot => exact absurd h (hnot s')

theorem exec_snapshot_rel {c : Cfg} {s s' : Store} {node : Nat} {txs : List Tx} {side : Side}
    (h : exec c s (.snapshot node txs side) = .ok s') : FinRel s s' := by
  simp only [exec, writeSnapshot] at h
  split at h
  · cases h
  · split at h
    · exact snapshotLoop_rel h
    · cases h

/-- what `LockDepositInput` can do -/
theorem lockDeposit_ok {s s' : Store} {d tx : Nat} {fork : Bool} (h : lockDeposit s d tx fork = .ok s') :
    (s.deposit.get d = none ∧ s' = { s with deposit := s.deposit.set d tx }) ∨
    (s.deposit.get d = some tx ∧ s' = s) ∨
    (∃ cur, s.deposit.get d = some cur ∧ cur ≠ tx ∧ fork = true ∧ s.fin.get cur = none ∧
       s' = { s with tx := s.tx.del cur, deposit := s.deposit.set d tx }) := by
  unfold lockDeposit at h
  split at h
  · next hg => simp only [Res.ok.injEq] at h; exact Or.inl ⟨hg, h.symm⟩
  · next cur hg =>
    split at h
    · next e => simp only [Res.ok.injEq] at h; subst e; exact Or.inr (Or.inl ⟨hg, h.symm⟩)
    · next e =>
      split at h
      · next hf =>
        split at h
        · cases h
        · next s1 hp =>
          obtain ⟨hfin, rfl⟩ := pruneTransaction_some hp
          simp only [Res.ok.injEq] at h
          exact Or.inr (Or.inr ⟨cur, hg, e, hf, hfin, h.symm⟩)
      · cases h

/-- what `LockMintInput` can do -/
theorem lockMint_ok {s s' : Store} {b a tx : Nat} {fork : Bool} (h : lockMint s b a tx fork = .ok s') :
    (s.mint.get b = none ∧ s' = { s with mint := s.mint.set b (tx, a) }) ∨
    (s.mint.get b = some (tx, a) ∧ s' = s) ∨
    (∃ cur, s.mint.get b = some cur ∧ cur ≠ (tx, a) ∧ fork = true ∧ s.fin.get cur.1 = none ∧
       s' = { s with tx := s.tx.del cur.1, mint := s.mint.set b (tx, a) }) := by
  unfold lockMint at h
  split at h
  · next hg => simp only [Res.ok.injEq] at h; exact Or.inl ⟨hg, h.symm⟩
  · next cur hg =>
    split at h
    · next e =>
      simp only [Res.ok.injEq] at h
      have : cur = (tx, a) := by cases cur; simp_all
      subst this; exact Or.inr (Or.inl ⟨hg, h.symm⟩)
    · next e =>
      split at h
      · next hf =>
        split at h
        · cases h
        · next s1 hp =>
          obtain ⟨hfin, rfl⟩ := pruneTransaction_some hp
          simp only [Res.ok.injEq] at h
          refine Or.inr (Or.inr ⟨cur, hg, ?_, hf, hfin, h.symm⟩)
          intro ec; apply e; rw [ec]; exact ⟨rfl, rfl⟩
      · cases h

theorem writeTransaction_ok {s s' : Store} {t : Tx} (h : writeTransaction s t = .ok s') :
    s' = s ∨ s' = { s with tx := s.tx.set t.id () } := by
  unfold writeTransaction at h
  split at h
  · split at h
    · simp only [Res.ok.injEq] at h; exact Or.inl h.symm
    · split at h
      · cases h
      · simp only [Res.ok.injEq] at h; exact Or.inr h.symm
  · cases h

/-- the lock families other than the one a call is about -/
theorem exec_frame {c : Cfg} {s s' : Store} {op : Op} (h : exec c s op = .ok s') :
    (∀ h', (s.fin.get h').isSome → (s'.fin.get h').isSome) ∧
    ((∀ ins tx f, op ≠ .lockUTXOs ins tx f) → (∀ n txs sd, op ≠ .snapshot n txs sd) → s'.utxo = s.utxo ∧ s'.fin = s.fin) ∧
    ((∀ d tx f, op ≠ .lockDeposit d tx f) → s'.deposit = s.deposit) ∧
    ((∀ b a tx f, op ≠ .lockMint b a tx f) → s'.mint = s.mint) := by
  cases op with
  | lockUTXOs ins tx fork =>
    obtain ⟨f, d, m, _⟩ := lockUTXOs_frame (by simpa [exec] using h)
    exact ⟨fun _ hh => by rw [f]; exact hh, fun hn => absurd rfl (hn ins tx fork), fun _ => d, fun _ => m⟩
  | lockDeposit d tx fork =>
    simp only [exec] at h
    rcases lockDeposit_ok h with ⟨_, rfl⟩ | ⟨_, rfl⟩ | ⟨_, _, _, _, _, rfl⟩ <;>
      exact ⟨fun _ hh => hh, fun _ _ => ⟨rfl, rfl⟩, fun hn => absurd rfl (hn d tx fork), fun _ => rfl⟩
  | lockMint b a tx fork =>
    simp only [exec] at h
    rcases lockMint_ok h with ⟨_, rfl⟩ | ⟨_, rfl⟩ | ⟨_, _, _, _, _, rfl⟩ <;>
      exact ⟨fun _ hh => hh, fun _ _ => ⟨rfl, rfl⟩, fun _ => rfl, fun hn => absurd rfl (hn b a tx fork)⟩
  | lockGhostKeys keys tx fork =>
    simp only [exec, lockGhostKeys] at h
    split at h
    · cases h
    · next s1 h1 =>
      simp only [Res.ok.injEq] at h; subst h
      obtain ⟨u, d, m, _, f, _, _⟩ := lockGhostLoop_ext h1
      exact ⟨fun _ hh => by rw [f]; exact hh, fun _ _ => ⟨u, f⟩, fun _ => d, fun _ => m⟩
  | writeTx t =>
    simp only [exec] at h
    rcases writeTransaction_ok h with rfl | rfl <;>
      exact ⟨fun _ hh => hh, fun _ _ => ⟨rfl, rfl⟩, fun _ => rfl, fun _ => rfl⟩
  | snapshot node txs side =>
    have r := exec_snapshot_rel h
    exact ⟨r.finMono, fun _ hn => absurd rfl (hn node txs side), fun _ => r.deposit, fun _ => r.mint⟩

/-- `Inv` is an invariant of every call -/
theorem exec_inv {c : Cfg} {s s' : Store} {op : Op} (h : exec c s op = .ok s') (hi : Inv s) : Inv s' := by
  cases op with
  | lockUTXOs ins tx fork =>
    obtain ⟨f, _, _, _, _, _, _, _, dom⟩ := lockUTXOs_frame (by simpa [exec] using h)
    intro y hy; rw [f]; rw [dom y] at hy; exact hi y hy
  | snapshot node txs side =>
    have r := exec_snapshot_rel h
    intro y hy
    rcases r.utxoNew y hy with h' | h'
    · exact r.finMono _ (hi y h')
    · exact h'
  | lockDeposit d tx fork =>
    obtain ⟨u, f⟩ := (exec_frame h).2.1 (by intros; simp) (by intros; simp)
    intro y hy; rw [f]; rw [u] at hy; exact hi y hy
  | lockMint b a tx fork =>
    obtain ⟨u, f⟩ := (exec_frame h).2.1 (by intros; simp) (by intros; simp)
    intro y hy; rw [f]; rw [u] at hy; exact hi y hy
  | lockGhostKeys keys tx fork =>
    obtain ⟨u, f⟩ := (exec_frame h).2.1 (by intros; simp) (by intros; simp)
    intro y hy; rw [f]; rw [u] at hy; exact hi y hy
  | writeTx t =>
    obtain ⟨u, f⟩ := (exec_frame h).2.1 (by intros; simp) (by intros; simp)
    intro y hy; rw [f]; rw [u] at hy; exact hi y hy

/-- a holder is protected from a call when the call is not a fork call or the holder is finalized -/
def Prot (s : Store) (op : Op) (t : Nat) : Prop := op.isFork = false ∨ s.fin.get t ≠ none

theorem exec_holder_utxo {c : Cfg} {s s' : Store} {op : Op} {x : Nat × Nat} {t : Nat}
    (h : exec c s op = .ok s') (hi : Inv s) (hx : s.utxo.get x = some t) (h0 : t ≠ 0) (hp : Prot s op t) :
    s'.utxo.get x = some t := by
  cases op with
  | lockUTXOs ins tx fork =>
    have h' : lockUTXOs ins tx fork s = .ok s' := by simpa [exec] using h
    obtain ⟨_, _, _, _, _, _, hin, hout, _⟩ := lockUTXOs_frame h'
    by_cases hm : x ∈ ins
    · by_cases e : t = tx
      · subst e; exact hin x hm
      · exact absurd h' (lockUTXOs_blocked hm hx h0 e (by simpa [Prot, Op.isFork] using hp) s')
    · rw [hout x hm]; exact hx
  | snapshot node txs side =>
    have r := exec_snapshot_rel h
    rw [r.utxoKeep x (hi x (by rw [hx]; rfl))]; exact hx
  | lockDeposit d tx fork =>
    rw [((exec_frame h).2.1 (by intros; simp) (by intros; simp)).1]; exact hx
  | lockMint b a tx fork =>
    rw [((exec_frame h).2.1 (by intros; simp) (by intros; simp)).1]; exact hx
  | lockGhostKeys keys tx fork =>
    rw [((exec_frame h).2.1 (by intros; simp) (by intros; simp)).1]; exact hx
  | writeTx t' =>
    rw [((exec_frame h).2.1 (by intros; simp) (by intros; simp)).1]; exact hx

theorem exec_holder_deposit {c : Cfg} {s s' : Store} {op : Op} {d t : Nat}
    (h : exec c s op = .ok s') (hx : s.deposit.get d = some t) (hp : Prot s op t) :
    s'.deposit.get d = some t := by
  by_cases hop : ∃ d' tx f, op = .lockDeposit d' tx f
  · obtain ⟨d', tx, f, rfl⟩ := hop
    simp only [exec] at h
    rcases lockDeposit_ok h with ⟨hg, rfl⟩ | ⟨_, rfl⟩ | ⟨cur, hg, hne, hf, hfin, rfl⟩
    · by_cases e : d' = d
      · subst e; rw [hg] at hx; cases hx
      · show (s.deposit.set d' tx).get d = some t
        rw [Map.get_set_ne _ _ e]; exact hx
    · exact hx
    · by_cases e : d' = d
      · subst e; rw [hg] at hx; cases hx
        rcases hp with hp | hp
        · simp [Op.isFork, hf] at hp
        · exact absurd hfin hp
      · show (s.deposit.set d' tx).get d = some t
        rw [Map.get_set_ne _ _ e]; exact hx
  · rw [(exec_frame h).2.2.1 (fun d' tx f e => hop ⟨d', tx, f, e⟩)]; exact hx

theorem exec_holder_mint {c : Cfg} {s s' : Store} {op : Op} {b : Nat} {v : Nat × Nat}
    (h : exec c s op = .ok s') (hx : s.mint.get b = some v) (hp : Prot s op v.1) :
    s'.mint.get b = some v := by
  by_cases hop : ∃ b' a tx f, op = .lockMint b' a tx f
  · obtain ⟨b', a, tx, f, rfl⟩ := hop
    simp only [exec] at h
    rcases lockMint_ok h with ⟨hg, rfl⟩ | ⟨_, rfl⟩ | ⟨cur, hg, hne, hf, hfin, rfl⟩
    · by_cases e : b' = b
      · subst e; rw [hg] at hx; cases hx
      · show (s.mint.set b' (tx, a)).get b = some v
        rw [Map.get_set_ne _ _ e]; exact hx
    · exact hx
    · by_cases e : b' = b
      · subst e; rw [hg] at hx; cases hx
        rcases hp with hp | hp
        · simp [Op.isFork, hf] at hp
        · exact absurd hfin hp
      · show (s.mint.set b' (tx, a)).get b = some v
        rw [Map.get_set_ne _ _ e]; exact hx
  · rw [(exec_frame h).2.2.2 (fun b' a tx f e => hop ⟨b', a, tx, f, e⟩)]; exact hx

end Mixin.Locks
