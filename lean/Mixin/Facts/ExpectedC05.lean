import Mixin.Facts.Generated
/-!
  Regenerated facts the C05 proof relies on: which panicking helpers (`Integer.Add/Sub/Mul/Div/Count`,
  `panic`) each function of the validation call tree calls. The model has one `panic site` per
  entry (or a proof that it cannot fire); a new call to such a helper breaks this file, hence the
  build of Props/C05. Counts of Errorf/len/… are not pinned.
-/
namespace Mixin.Facts.ExpectedC05
open Mixin.Facts.Gen

/-- entries `Name*count` of the panicking helpers (up to nine calls each) -/
def risky : List String := ["Add*1", "Add*2", "Add*3", "Add*4", "Add*5", "Add*6", "Add*7", "Add*8", "Add*9", "Sub*1", "Sub*2", "Sub*3", "Sub*4", "Sub*5", "Sub*6", "Sub*7", "Sub*8", "Sub*9", "Mul*1", "Mul*2", "Mul*3", "Mul*4", "Mul*5", "Mul*6", "Mul*7", "Mul*8", "Mul*9", "Div*1", "Div*2", "Div*3", "Div*4", "Div*5", "Div*6", "Div*7", "Div*8", "Div*9", "Count*1", "Count*2", "Count*3", "Count*4", "Count*5", "Count*6", "Count*7", "Count*8", "Count*9", "panic*1", "panic*2", "panic*3", "panic*4", "panic*5", "panic*6", "panic*7", "panic*8", "panic*9", "Product*1", "Product*2", "Product*3", "Product*4", "Product*5", "Product*6", "Product*7", "Product*8", "Product*9", "Ration*1", "Ration*2", "Ration*3", "Ration*4", "Ration*5", "Ration*6", "Ration*7", "Ration*8", "Ration*9"]

def panicky (l : List String) : List String := l.filter (fun s => risky.contains s)

theorem getExtraLimit_calls :
    panicky common_SignedTransaction_GetExtraLimit_calls = ["Count*1", "Mul*1", "panic*1"] := by decide
theorem validateUTXO_calls : panicky common_validateUTXO_calls = [] := by decide
theorem validateInputs_calls : panicky common_SignedTransaction_validateInputs_calls = ["Add*1"] := by decide
theorem validateOutputs_calls : panicky common_Transaction_validateOutputs_calls = ["Add*1"] := by decide
theorem validate_calls : panicky common_VersionedTransaction_Validate_calls = [] := by decide
theorem verifyDepositData_calls : panicky common_Transaction_verifyDepositData_calls = ["Add*1"] := by decide

end Mixin.Facts.ExpectedC05
