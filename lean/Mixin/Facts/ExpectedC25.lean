import Mixin.Model.Mint
/-!
Relations between the regenerated constants that the C25 theorems use. Values are not pinned:
a retuned pool, percentage or year length re-checks these relations by `decide`.
-/
namespace Mixin.Facts.ExpectedC25
open Mixin.Mint

/-- the yearly percentage is a proper fraction: `0 < den`, `num ≤ den` -/
theorem percent_le_one : 0 < params.den ∧ params.num ≤ params.den := by decide
/-- a mint year has at least one day -/
theorem days_pos : 0 < params.days := by decide
/-- the mint window is a non-empty range of hours of the day -/
theorem mint_window : mintTimeBegin ≤ mintTimeEnd ∧ mintTimeEnd < 24 := by decide

/-- the helper calls of the two schedule functions (the panic sites the model mirrors: one `Sub`
    and one `Div` per `mintBatchSize`, one `Add` per summand of `mintMultiBatchesSize`) -/
theorem schedule_calls :
    Mixin.Facts.Gen.kernel_mintBatchSize_calls = ["Div*1", "Product*2", "Sub*1", "int*1", "panic*1"] ∧
    Mixin.Facts.Gen.kernel_mintMultiBatchesSize_calls = ["Add*1", "mintBatchSize*1", "panic*1"] := by decide

end Mixin.Facts.ExpectedC25
