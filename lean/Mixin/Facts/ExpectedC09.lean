import Mixin.Model.Finality
/-! Call skeletons the C09 model relies on, against the regenerated facts. -/
namespace Mixin.Facts.ExpectedC09
open Mixin.Facts.Gen

/-- `verifyFinalization` consults keys, threshold and the cached verifier at most twice each (primary
    and legacy attempt) and gates the second attempt on the signer-set mode -/
theorem verify_skeleton :
    "ConsensusKeys*2" ∈ kernel_Chain_verifyFinalization_calls ∧
    "ConsensusThreshold*2" ∈ kernel_Chain_verifyFinalization_calls ∧
    "cacheVerifyCosi*2" ∈ kernel_Chain_verifyFinalization_calls ∧
    "usePredictiveNodeRemovalSignerSet*1" ∈ kernel_Chain_verifyFinalization_calls := by decide

/-- the cache key is built from two integers (threshold, mask) besides hash, signature and keys; one
    lookup, one full verification, two stores (failure marker / signer ids) -/
theorem cache_skeleton :
    "AppendUint64*2" ∈ kernel_Node_cacheVerifyCosi_calls ∧ "Get*1" ∈ kernel_Node_cacheVerifyCosi_calls ∧
    "FullVerify*1" ∈ kernel_Node_cacheVerifyCosi_calls ∧ "Set*2" ∈ kernel_Node_cacheVerifyCosi_calls := by decide

theorem fullverify_skeleton :
    "ThresholdVerify*1" ∈ crypto_CosiSignature_FullVerify_calls ∧
    "aggregatePublicKey*1" ∈ crypto_CosiSignature_FullVerify_calls ∧
    "Verify*1" ∈ crypto_CosiSignature_FullVerify_calls := by decide

theorem version_is : Mixin.Finality.genFConsts.version = common_SnapshotVersionCommonEncoding := rfl

end Mixin.Facts.ExpectedC09
