import Mixin.Facts.Generated
/-! C15: the write-transaction skeleton of `BadgerStore.WriteSnapshot`, regenerated from the source.
    One `NewTransaction`, one deferred `Discard`, one `Commit`; none of the functions it reaches
    opens, commits or updates a transaction of its own (they write through the `txn` they are given). -/
namespace Mixin.Facts.ExpectedC15
open Mixin.Facts.Gen

def pre (p c : String) : Bool := p.toList.isPrefixOf c.toList

def opensTxn (c : String) : Bool :=
  pre "NewTransaction*" c || pre "Commit*" c || pre "Update*" c ||
  pre "View*" c || pre "NewWriteBatch*" c || pre "Discard*" c

theorem writeSnapshot_one_txn :
    storage_BadgerStore_WriteSnapshot_calls.filter opensTxn = ["Commit*1", "Discard*1", "NewTransaction*1"] ∧
    "Lock*1" ∈ storage_BadgerStore_WriteSnapshot_calls ∧ "Unlock*1" ∈ storage_BadgerStore_WriteSnapshot_calls ∧
    "writeSnapshot*1" ∈ storage_BadgerStore_WriteSnapshot_calls ∧
    "writeSnapshotWork*1" ∈ storage_BadgerStore_WriteSnapshot_calls := by decide

theorem inner_functions_use_callers_txn :
    (storage_writeSnapshot_calls ++ storage_finalizeTransaction_calls ++ storage_writeUTXO_calls ++
     storage_writeTotalInAsset_calls ++ storage_writeAssetInfo_calls ++ storage_writeTopology_calls ++
     storage_writeSnapshotWork_calls ++ storage_lockGhostKey_calls ++ storage_writeWithdrawalClaim_calls).filter opensTxn
      = [] := by decide

/-- the call skeleton the model's `finalizeAll` / `finalizeTransaction` follow -/
theorem skeleton :
    "finalizeTransaction*1" ∈ storage_writeSnapshot_calls ∧ "writeTopology*1" ∈ storage_writeSnapshot_calls ∧
    "writeAssetInfo*1" ∈ storage_finalizeTransaction_calls ∧ "writeUTXO*1" ∈ storage_finalizeTransaction_calls ∧
    "writeTotalInAsset*1" ∈ storage_finalizeTransaction_calls ∧ "UnspentOutputs*1" ∈ storage_finalizeTransaction_calls ∧
    "lockGhostKey*1" ∈ storage_writeUTXO_calls ∧ "writeWithdrawalClaim*1" ∈ storage_writeUTXO_calls := by decide

/-- the database is touched only under the store mutex: the statements of `WriteSnapshot` before
    `s.mutex.Lock()` mention no field of the store (in particular they do not open the Badger transaction,
    whose read view would then predate the writers queued in front of it) -/
theorem writeSnapshot_locks_before_reading :
    storage_BadgerStore_WriteSnapshot_lockorder = "s.mutex.Lock;defer;prelock=" := by decide

/-- the options of the database: conflict detection is not switched off (a queued writer with a stale view
    must fail with `ErrConflict`, not overwrite) and nothing else about transactions is configured -/
theorem openDB_keeps_conflict_detection :
    storage_openDB_calls.filter (fun c => pre "WithDetectConflicts" c || pre "WithManaged" c) = [] := by decide

end Mixin.Facts.ExpectedC15
