import Mixin.Facts.Generated
/-!
Expectations of property C12 about the regenerated source facts (see harness/extract.go).
The model `Mixin.Nonce.respond` is one atomic step *because* of these: `nonce.respond` takes
`n.Lock()` before it mentions any field of the nonce state (`prelock=` is empty: only the
arguments are used to compute the challenge), releases it only by `defer`, and the exported
handle method does nothing but delegate to the shared `*nonce`.
-/
namespace Mixin.Facts.ExpectedC12
open Mixin.Facts

theorem respond_lock_first : Gen.crypto_nonce_respond_lockorder = "n.Lock;defer;prelock=" := by decide

theorem respond_one_lock :
    "Lock*1" ∈ Gen.crypto_nonce_respond_calls ∧ "Unlock*1" ∈ Gen.crypto_nonce_respond_calls := by decide

theorem handle_delegates : Gen.crypto_CosiNonce_Response_calls = ["respond*1"] := by decide

/-- the chain hands a nonce out by moving it from `CosiRandoms` to `UsedRandoms` -/
theorem retrieve_moves :
    "retainUsedCosiNonce*1" ∈ Gen.kernel_Chain_cosiRetrieveRandom_calls ∧
    "delete*1" ∈ Gen.kernel_Chain_cosiRetrieveRandom_calls := by decide

end Mixin.Facts.ExpectedC12
