import Mixin.Facts.Generated
/-!
  The call skeleton the C20 model relies on, checked against the regenerated facts. Only the
  calls that carry state are pinned (store reads/writes, the in-memory update, one Badger
  transaction per storage call); logging/formatting calls are not.
-/
namespace Mixin.Facts.ExpectedC20
open Mixin.Facts.Gen

def has (l : List String) (xs : List String) : Bool := xs.all (fun x => l.contains x)

/-- round start = validate, then exactly one durable StartNewRound, then one assignment -/
theorem start_skeleton :
    has kernel_Chain_startNewRoundAndPersist_calls
      ["validateNewRound*1", "StartNewRound*1", "assignNewGraphRound*1"] = true := by decide

/-- validation closes the cache round, reads the external round once, and goes through
    updateExternal once -/
theorem validate_skeleton :
    has kernel_Chain_validateNewRound_calls ["asFinal*1", "ReadRound*1", "updateExternal*1"] = true := by
  decide

theorem empty_skeleton :
    has kernel_Chain_updateEmptyHeadRoundAndPersist_calls
      ["ReadRound*1", "updateExternal*1", "UpdateEmptyHeadRound*1", "assignNewGraphRound*1"] = true := by
  decide

/-- updateExternal compares against exactly one durable link read -/
theorem external_skeleton :
    has kernel_Chain_updateExternal_calls ["ReadLink*1", "checkReferenceSanity*1", "determineBestRound*1"] = true := by
  decide

/-- one Badger transaction per storage call; the writes of a round start: one link, two rounds -/
theorem storage_skeleton :
    has storage_BadgerStore_StartNewRound_calls ["NewTransaction*1", "Commit*1", "startNewRound*1", "readRound*3", "readLink*1"] = true ∧
    storage_startNewRound_calls = ["readRound*2", "writeLink*1", "writeRound*2"] ∧
    has storage_BadgerStore_UpdateEmptyHeadRound_calls ["NewTransaction*1", "Commit*1", "readRound*2", "writeLink*1", "writeRound*1"] = true := by
  decide

end Mixin.Facts.ExpectedC20
