import Mixin.Model.ConsensusChainCodes
/-! Expectations on the regenerated facts that the C28 model and theorems rely on. -/
namespace Mixin.Facts.ExpectedC28
open Mixin.Facts Mixin.ConsensusChain

/-- case table of `IsSnapshotBatchable`: four fall-through classes, `default` returns false -/
theorem batchable_table :
    Gen.common_SignedTransaction_IsSnapshotBatchable_switch =
      [(["TransactionTypeScript"], ""), (["TransactionTypeDeposit"], ""),
       (["TransactionTypeWithdrawalSubmit"], ""), (["TransactionTypeWithdrawalClaim"], ""),
       (["default"], "false")] := by decide

/-- case table of `validateConsensusTransactionReferences`: seven consensus classes fall
    through to the reference rule, everything else returns nil -/
theorem reference_table :
    Gen.kernel_Node_validateConsensusTransactionReferences_switch =
      [(["common.TransactionTypeMint"], ""), (["common.TransactionTypeNodePledge"], ""),
       (["common.TransactionTypeNodeCancel"], ""), (["common.TransactionTypeNodeAccept"], ""),
       (["common.TransactionTypeNodeRemove"], ""), (["common.TransactionTypeCustodianUpdateNodes"], ""),
       (["common.TransactionTypeCustodianSlashNodes"], ""), (["default"], "nil")] := by decide

/-- the writer's class list is the same seven classes -/
theorem writer_table :
    Gen.kernel_Node_WriteConsensusSnapshotWithHack_switch =
      [(["common.TransactionTypeNodePledge", "common.TransactionTypeNodeCancel",
         "common.TransactionTypeNodeAccept", "common.TransactionTypeNodeRemove",
         "common.TransactionTypeMint", "common.TransactionTypeCustodianUpdateNodes",
         "common.TransactionTypeCustodianSlashNodes"], ""), (["default"], "")] := by decide

/-- `WriteConsensusSnapshot` is one Badger write transaction around `writeConsensusSnapshot` -/
theorem writer_single_txn :
    Gen.storage_BadgerStore_WriteConsensusSnapshot_calls =
      ["Commit*1", "Discard*1", "NewTransaction*1", "writeConsensusSnapshot*1"] := by decide

/-- the relation between the codes that the theorems use: no consensus class is batchable -/
theorem realCodes_ok : ∀ t, isConsensusType realCodes t = true → isBatchable realCodes t = false := by
  intro t h
  simp [isConsensusType, isBatchable, realCodes, Gen.common_TransactionTypeMint,
    Gen.common_TransactionTypeNodePledge, Gen.common_TransactionTypeNodeCancel,
    Gen.common_TransactionTypeNodeAccept, Gen.common_TransactionTypeNodeRemove,
    Gen.common_TransactionTypeCustodianUpdateNodes, Gen.common_TransactionTypeCustodianSlashNodes,
    Gen.common_TransactionTypeScript, Gen.common_TransactionTypeDeposit,
    Gen.common_TransactionTypeWithdrawalSubmit, Gen.common_TransactionTypeWithdrawalClaim] at *
  omega

/-- `validateSnapshotTransaction` runs the kernel snapshot rule in both branches (persisted body
    and cached body) and persists only in the cached one -/
theorem vst_calls_kernel_rule_in_both_branches :
    "validateKernelSnapshot*2" ∈ Gen.kernel_Node_validateSnapshotTransaction_calls ∧
      "lockAndPersistTransaction*1" ∈ Gen.kernel_Node_validateSnapshotTransaction_calls := by decide

/-- the output types for which `writeUTXO` applies state: the five membership / custodian
    types of `OType.consensusEffect` in `Model/ConsensusEffects.lean`, and the withdrawal claim
    record (no membership or custodian state) -/
theorem writeUTXO_effect_types :
    Gen.storage_writeUTXO_switch.map (·.1) =
      [["common.OutputTypeNodePledge"], ["common.OutputTypeNodeCancel"], ["common.OutputTypeNodeAccept"],
       ["common.OutputTypeNodeRemove"], ["common.OutputTypeCustodianUpdateNodes"],
       ["common.OutputTypeWithdrawalClaim"]] := by decide

/-- `TransactionType()`: the class is the class of the first special output -/
theorem transactionType_table :
    Gen.common_SignedTransaction_TransactionType_switch =
      [(["OutputTypeWithdrawalSubmit"], "TransactionTypeWithdrawalSubmit"),
       (["OutputTypeWithdrawalClaim"], "TransactionTypeWithdrawalClaim"),
       (["OutputTypeNodePledge"], "TransactionTypeNodePledge"),
       (["OutputTypeNodeCancel"], "TransactionTypeNodeCancel"),
       (["OutputTypeNodeAccept"], "TransactionTypeNodeAccept"),
       (["OutputTypeNodeRemove"], "TransactionTypeNodeRemove"),
       (["OutputTypeCustodianUpdateNodes"], "TransactionTypeCustodianUpdateNodes"),
       (["OutputTypeCustodianSlashNodes"], "TransactionTypeCustodianSlashNodes")] := by decide

/-- `UnspentOutputs()`: which output types finalization materialises (and hands to `writeUTXO`) -/
theorem unspentOutputs_table :
    Gen.common_VersionedTransaction_UnspentOutputs_switch.map (·.1) =
      [["OutputTypeScript", "OutputTypeNodePledge", "OutputTypeNodeCancel", "OutputTypeNodeAccept",
        "OutputTypeNodeRemove", "OutputTypeWithdrawalClaim", "OutputTypeCustodianUpdateNodes"],
       ["OutputTypeWithdrawalSubmit", "OutputTypeCustodianSlashNodes"], ["default"]] := by decide

end Mixin.Facts.ExpectedC28
