import Mixin.Facts.Generated
/-!
  C21/C22 rely on "every storage method is ONE atomic commit" (the harness can only cut at call
  boundaries). Regenerated from the source on every run: each modelled method opens exactly one
  Badger write transaction and commits it exactly once (`NewTransaction*1`/`Commit*1`, or one
  `Update` closure), so splitting a method into two commits breaks this file.
-/
namespace Mixin.Facts.ExpectedC22
open Mixin.Facts.Gen

def oneTxn (calls : List String) : Bool :=
  (calls.contains "NewTransaction*1" && calls.contains "Commit*1" && !calls.contains "Update*1") ||
  (calls.contains "Update*1" && !calls.contains "NewTransaction*1" && !calls.contains "Commit*1")

theorem single_commit_methods :
    oneTxn storage_BadgerStore_StartNewRound_calls = true ∧
    oneTxn storage_BadgerStore_WriteSnapshot_calls = true ∧
    oneTxn storage_BadgerStore_WriteTransaction_calls = true ∧
    oneTxn storage_BadgerStore_WriteConsensusSnapshot_calls = true ∧
    oneTxn storage_BadgerStore_LockUTXOs_calls = true ∧
    oneTxn storage_BadgerStore_LockDepositInput_calls = true ∧
    oneTxn storage_BadgerStore_LockMintInput_calls = true ∧
    oneTxn storage_BadgerStore_LoadGenesis_calls = true := by decide

/-- the finalization write keeps snapshot, finalization records and topology in the one commit -/
theorem writeSnapshot_one_commit :
    storage_BadgerStore_WriteSnapshot_calls.contains "writeSnapshot*1" = true ∧
    storage_BadgerStore_StartNewRound_calls.contains "startNewRound*1" = true ∧
    storage_openDB_calls.contains "WithSyncWrites*1" = true := by decide

end Mixin.Facts.ExpectedC22
