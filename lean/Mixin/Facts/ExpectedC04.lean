import Mixin.Facts.Generated
/-! Facts C04 relies on, regenerated from the source tree on every run. -/
namespace Mixin.Facts.ExpectedC04
open Mixin.Facts.Gen

/-- `LockGhostKeys` takes the store mutex first and releases it by `defer` -/
theorem lockGhostKeys_mutex : storage_BadgerStore_LockGhostKeys_lock = "s.mutex.Lock;defer" := by decide

/-- … and runs exactly one Badger `Update`, calling `lockGhostKey` from one place -/
theorem lockGhostKeys_one_update :
    storage_BadgerStore_LockGhostKeys_calls.contains "Update*1" = true ∧
    storage_BadgerStore_LockGhostKeys_calls.contains "lockGhostKey*1" = true := by decide

/-- `writeUTXO` relocks the keys through `lockGhostKey` and has a single `Set` (the UTXO itself) -/
theorem writeUTXO_relocks :
    storage_writeUTXO_calls.contains "lockGhostKey*1" = true ∧ storage_writeUTXO_calls.contains "Set*1" = true := by
  decide

/-- the body of `lockGhostKey`: the only `Set` is on `ErrKeyNotFound`; the three fork exceptions -/
theorem lockGhostKey_body : storage_lockGhostKey_src =
    "{ key := graphGhostKey(*ghost) item, err := txn.Get(key) if err == badger.ErrKeyNotFound { return txn.Set(key, tx[:]) } if err != nil { return err } var by crypto.Hash val, err := item.ValueCopy(by[:]) if err != nil { return err } if len(val) != len(by) || !by.HasValue() { return fmt.Errorf(\"ghost key %s malformed lock %x\", ghost.String(), val) } if fork && slices.Contains([]string{ \"c63b6373652def5999c1d951fcb8f064db67b7d18565847b921b21639e15dddd\", \"60deaf2471bb0b6481efe9080d8852b020ab2941e7faae21989d2404f34284ee\", \"a558b1efbe27eb6a6f902fd97d4b7e2e3099e6edde1fe6e8e41204e0685fe426\", }, tx.String()) { return nil } if by != tx { return fmt.Errorf(\"ghost key %s locked for transaction %s\", ghost.String(), by.String()) } return nil }" := by
  rfl

/-- the output types `validateOutputs` treats as kernel outputs (no keys / script / mask): the
    list the driver configures the model with (`Mixin.Driver.Locks.outCfg`) -/
theorem validateOutputs_kernel_types :
    common_Transaction_validateOutputs_switch.map (·.1) =
      [["OutputTypeWithdrawalSubmit", "OutputTypeWithdrawalClaim", "OutputTypeNodePledge",
        "OutputTypeNodeCancel", "OutputTypeNodeAccept"], ["default"]] := by decide

/-- which output types finalization materialises (first case), which it skips (second case);
    anything else panics: the table `Mixin.Driver.Locks.outKinds` configures the model with -/
theorem unspentOutputs_table :
    common_VersionedTransaction_UnspentOutputs_switch.map (·.1) =
      [["OutputTypeScript", "OutputTypeNodePledge", "OutputTypeNodeCancel", "OutputTypeNodeAccept",
        "OutputTypeNodeRemove", "OutputTypeWithdrawalClaim", "OutputTypeCustodianUpdateNodes"],
       ["OutputTypeWithdrawalSubmit", "OutputTypeCustodianSlashNodes"], ["default"]] := by decide

/-- the output types with a side effect in `writeUTXO` (every clause of its switch returns) -/
theorem writeUTXO_switch_labels :
    storage_writeUTXO_switch.map (·.1) =
      [["common.OutputTypeNodePledge"], ["common.OutputTypeNodeCancel"], ["common.OutputTypeNodeAccept"],
       ["common.OutputTypeNodeRemove"], ["common.OutputTypeCustodianUpdateNodes"],
       ["common.OutputTypeWithdrawalClaim"]] := by decide

/-- the body of `writeUTXO`: the key relock loop comes first — before the `Set` of the UTXO and
    before the switch whose clauses all return — so it runs for every materialised output type -/
theorem writeUTXO_body : storage_writeUTXO_src =
    "{ for _, k := range utxo.Keys { err := lockGhostKey(txn, k, utxo.Hash, true) if err != nil { return err } } key := graphUtxoKey(utxo.Hash, utxo.Index) val := utxo.Marshal() err := txn.Set(key, val) if err != nil { return err } var signer, payee crypto.Key if len(ver.Extra) >= len(signer) { copy(signer[:], ver.Extra) copy(payee[:], ver.Extra[len(signer):]) } switch utxo.Type { case common.OutputTypeNodePledge: return writeNodePledge(txn, signer, payee, utxo.Hash, timestamp) case common.OutputTypeNodeCancel: return writeNodeCancel(txn, signer, payee, utxo.Hash, timestamp) case common.OutputTypeNodeAccept: return writeNodeAccept(txn, signer, payee, utxo.Hash, timestamp, genesis) case common.OutputTypeNodeRemove: return writeNodeRemove(txn, signer, payee, utxo.Hash, timestamp) case common.OutputTypeCustodianUpdateNodes: return writeCustodianNodes(txn, timestamp, utxo, ver.Extra, genesis) case common.OutputTypeWithdrawalClaim: return writeWithdrawalClaim(txn, ver.References[0], ver.PayloadHash()) } return nil }" := by
  rfl

end Mixin.Facts.ExpectedC04
