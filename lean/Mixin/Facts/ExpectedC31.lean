import Mixin.Model.Batch
/-!
  C31 — what the proofs need from the regenerated facts. Only relations are pinned, so a
  retuned limit that keeps them is not an alarm; a limit that breaks one breaks this file.
-/
namespace Mixin.Facts.ExpectedC31
open Mixin.Batch

/-- the largest header any builder puts in front of a transactions payload
    (full challenge: type, u32, snapshot with references and signature, two keys) -/
def hdrMax (cap : Nat) : Nat := 1 + 4 + snapshotSize true true cap + 64

/-- a full batch below the batching threshold, wrapped by the largest builder header and the
    relay header, fits the transport maximum -/
theorem batch_room :
    threshold maxSize + 4 * snapTxMax + 1 + hdrMax snapTxMax + 65 ≤ maxSize := by decide

/-- a single transaction of maximal admitted size, wrapped the same way, fits -/
theorem single_room : txMax + 4 * snapTxMax + 1 + hdrMax snapTxMax + 65 ≤ maxSize := by decide

/-- the transaction count of a bundle is written as one byte -/
theorem count_fits_byte : snapTxMax ≤ 255 := by decide

/-- the frame header carries the size as an unsigned 32-bit integer and the version as a byte -/
theorem max_fits_u32 : maxSize < 4294967296 := by decide
theorem version_fits_byte : frameVersion < 256 := by decide
theorem header_is_six : headerSize = 6 := by decide
theorem max_pos : 0 < maxSize := by decide

end Mixin.Facts.ExpectedC31
