import Mixin.Facts.Generated
/-!
  Facts the C19 theorems rely on, checked against the regenerated `Mixin.Facts.Gen`:
  only the relations used, not the values (harmless retuning of the gap is not an alarm).
-/
namespace Mixin.Facts.ExpectedC19
open Mixin.Facts.Gen

/-- a single snapshot spans less than a gap -/
theorem gap_pos : 0 < config_SnapshotRoundGap := by decide

/-- day arithmetic is a real division -/
theorem day_pos : 0 < kernel_OneDay := by decide

/-- a round (shorter than a gap) can straddle at most one day boundary -/
theorem gap_lt_day : config_SnapshotRoundGap < kernel_OneDay := by decide

/-- closing a round goes through `common.ComputeRoundHash` (whose assertion `close_never_fails`
    speaks about) -/
theorem asFinal_calls_compute : kernel_CacheRound_asFinal_calls.contains "ComputeRoundHash*1" = true := by
  decide

end Mixin.Facts.ExpectedC19
