import Mixin.Facts.Generated
import Mixin.Model.Ledger
/-! C17: the two case tables the supply theorems rest on, regenerated from the source and compared with
    the tables of the model (`Ledger.materialised`, `Ledger.newTotal`). -/
namespace Mixin.Facts.ExpectedC17
open Mixin.Facts.Gen Mixin.Ledger

def ofName : String → OutType
  | "OutputTypeScript" => .script
  | "OutputTypeWithdrawalSubmit" => .withdrawalSubmit
  | "OutputTypeWithdrawalClaim" => .withdrawalClaim
  | "OutputTypeNodePledge" => .nodePledge
  | "OutputTypeNodeAccept" => .nodeAccept
  | "OutputTypeNodeCancel" => .nodeCancel
  | "OutputTypeNodeRemove" => .nodeRemove
  | "OutputTypeCustodianUpdateNodes" => .custodianUpdate
  | "OutputTypeCustodianSlashNodes" => .custodianSlash
  | _ => .unknown

/-- `UnspentOutputs()`: three clauses — materialise (fall out of the switch), `continue`, `panic` — and the
    model's table says the same for every label -/
theorem unspentOutputs_table :
    common_VersionedTransaction_UnspentOutputs_casebody.map (·.2) = ["", "continue", "panic(out.Type)"] ∧
    (common_VersionedTransaction_UnspentOutputs_casebody.map (fun r => r.1.map (fun l => materialised (ofName l)))) =
      [[some true, some true, some true, some true, some true, some true, some true],
       [some false, some false], [none]] := by decide

/-- every output type constant of the code is classified by one of the two explicit clauses -/
theorem unspentOutputs_covers_all_types :
    (common_VersionedTransaction_UnspentOutputs_casebody.flatMap (·.1)).length = 10 ∧
    ([common_OutputTypeScript, common_OutputTypeWithdrawalSubmit, common_OutputTypeWithdrawalClaim,
      common_OutputTypeNodePledge, common_OutputTypeNodeAccept, common_OutputTypeNodeCancel, common_OutputTypeNodeRemove,
      common_OutputTypeCustodianUpdateNodes, common_OutputTypeCustodianSlashNodes].eraseDups.length = 9) := by decide

/-- `writeTotalInAsset`: the order of the clauses and what each does to `total` (the model's `newTotal`
    follows exactly these five clauses) -/
theorem writeTotal_table :
    storage_writeTotalInAsset_casebody =
      [(["typ == common.TransactionTypeWithdrawalSubmit"],
        "for _, o := range ver.Outputs { if o.Type == common.OutputTypeWithdrawalSubmit { total = total.Sub(o.Amount) } }"),
       (["typ == common.TransactionTypeDeposit"], "total = total.Add(ver.DepositData().Amount)"),
       (["typ == common.TransactionTypeMint"], "total = total.Add(ver.Inputs[0].Mint.Amount)"),
       (["len(ver.Inputs[0].Genesis) > 0"], "for _, out := range ver.Outputs { total = total.Add(out.Amount) }"),
       (["default"], "return nil")] := by decide

end Mixin.Facts.ExpectedC17
