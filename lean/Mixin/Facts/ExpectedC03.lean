import Mixin.Facts.Generated
/-! Facts C03 relies on, regenerated from the source tree on every run: every lock call is the
store mutex plus exactly one Badger update (so it is one atomic step of the model), prune
refuses finalized transactions before deleting, and the deposit key rendering. -/
namespace Mixin.Facts.ExpectedC03
open Mixin.Facts.Gen

theorem lock_calls_take_mutex :
    storage_BadgerStore_LockUTXOs_lock = "s.mutex.Lock;defer" ∧
    storage_BadgerStore_LockDepositInput_lock = "s.mutex.Lock;defer" ∧
    storage_BadgerStore_LockMintInput_lock = "s.mutex.Lock;defer" := by decide

theorem lock_calls_one_update :
    storage_BadgerStore_LockUTXOs_calls.contains "Update*1" = true ∧
    storage_BadgerStore_LockDepositInput_calls.contains "Update*1" = true ∧
    storage_BadgerStore_LockMintInput_calls.contains "Update*1" = true := by decide

/-- the fork branch of every lock goes through `pruneTransaction` exactly once -/
theorem takeover_goes_through_prune :
    storage_lockUTXO_calls.contains "pruneTransaction*1" = true ∧
    storage_BadgerStore_LockDepositInput_calls.contains "pruneTransaction*1" = true ∧
    storage_BadgerStore_LockMintInput_calls.contains "pruneTransaction*1" = true := by decide

/-- `WriteSnapshot`: mutex, one read-write transaction, one commit -/
theorem writeSnapshot_one_txn :
    storage_BadgerStore_WriteSnapshot_calls.contains "Lock*1" = true ∧
    storage_BadgerStore_WriteSnapshot_calls.contains "NewTransaction*1" = true ∧
    storage_BadgerStore_WriteSnapshot_calls.contains "Commit*1" = true := by decide

/-- `pruneTransaction`: FINALIZATION is tested first, the only write is the `Delete` of the body -/
theorem prune_body : storage_pruneTransaction_src =
    "{ key := graphFinalizationKey(hash) _, err := txn.Get(key) if err == nil { return fmt.Errorf(\"prune finalized transaction %s\", hash.String()) } else if err != badger.ErrKeyNotFound { return err } key = graphTransactionKey(hash) return txn.Delete(key) }" := by
  rfl

/-- the rendering `depositKey_inj` is about: `chain:transaction:index` with `%s:%s:%d` -/
theorem uniqueKey_body : common_DepositData_UniqueKey_src =
    "{ index := fmt.Sprintf(\"%s:%s:%d\", d.Chain, d.Transaction, d.Index) return crypto.Sha256Hash([]byte(index)).ForNetwork(d.Chain) }" := by
  rfl

end Mixin.Facts.ExpectedC03
