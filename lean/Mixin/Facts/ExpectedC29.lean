import Mixin.Model.Election
/-!
Relations between the regenerated constants that the C29 theorems use (values are not pinned).
-/
namespace Mixin.Facts.ExpectedC29
open Mixin.Election

/-- after dropping the oldest and the newest accepted node something is left to elect -/
theorem min_nodes : 3 ≤ minNodes := by decide
/-- the windows are ordered inside one day: mint window, then accept window -/
theorem windows_ordered : mintBegin ≤ mintEnd ∧ mintEnd < acceptBegin ∧ acceptBegin ≤ acceptEnd ∧ acceptEnd < 24 := by decide
/-- `electSnapshotNode` elects for removals, pledges, mints and custodian updates -/
theorem remove_elected : electOps.contains Gen.common_TransactionTypeNodeRemove = true ∧
    electOps.contains Gen.common_TransactionTypeNodePledge = true ∧
    electOps.contains Gen.common_TransactionTypeMint = true ∧
    electOps.contains Gen.common_TransactionTypeCustodianUpdateNodes = true := by decide
/-- a day is 24 hours of the unit the hour computations use -/
theorem day_is_24h : oneDay = 24 * hourNs := by decide

/-- the case table of `electSnapshotNode`: exactly the five operation codes of `electOps` fall
    through to the election, everything else returns the zero hash -/
theorem elect_table : Gen.kernel_Node_electSnapshotNode_switch =
    [(["common.TransactionTypeMint"], ""), (["common.TransactionTypeNodeRemove"], ""),
     (["common.TransactionTypeNodePledge"], ""), (["common.TransactionTypeCustodianUpdateNodes"], ""),
     (["common.TransactionTypeCustodianSlashNodes"], ""), (["default"], "crypto.Hash{}")] := by decide

end Mixin.Facts.ExpectedC29
