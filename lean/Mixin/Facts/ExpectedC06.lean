import Mixin.Facts.Generated
import Mixin.Model.TxCodec
/-! The constants the C06 model and theorems rely on, compared with the values regenerated
    from the source tree on every run. A changed limit breaks the build of `Mixin.Props.C06`. -/
namespace Mixin.Facts.ExpectedC06
open Mixin.Facts.Gen Mixin.TxCodec

theorem txVersion_eq : txVersion.toNat = common_TxVersionHashSignature := by decide
theorem sliceCountLimit_eq : sliceCountLimit = common_SliceCountLimit := by decide
theorem inputIndexLimit_eq : inputIndexLimit = common_InputIndexLimit := by decide
theorem extraCapacity_eq : extraCapacity = common_ExtraSizeStorageCapacity := by decide
theorem maxEncodingInt_eq : maxEncodingInt = common_MaximumEncodingInt := by decide
theorem aggPrefix_eq : aggPrefix = common_AggregatedSignaturePrefix := by decide
theorem txMaxSize_eq : txMaxSize = config_TransactionMaximumSize := by decide
theorem maskKinds : common_AggregatedSignatureSparseMask = 1 ∧ common_AggregatedSignatureOrdinaryMask = 0 := by decide

/-! The skeletons the theorems rely on: `unmarshalVersionedTransaction` decodes, re-encodes
    (`marshalWithCapacity`) and compares (`bytes.Equal`); `payloadMarshal` encodes a freshly
    built `SignedTransaction` (no signatures); `PayloadHash` hashes `PayloadMarshal`. -/
theorem unmarshal_skeleton :
    ["DecodeTransaction*1", "Equal*1", "marshalWithCapacity*1"].all
      (fun c => common_unmarshalVersionedTransaction_calls.contains c) = true := by decide
theorem payloadMarshal_skeleton :
    common_VersionedTransaction_payloadMarshal_calls = ["EncodeTransaction*1", "NewEncoder*1", "panic*1"] := by decide
theorem payloadHash_skeleton :
    ["Blake3Hash*1", "PayloadMarshal*1"].all
      (fun c => common_VersionedTransaction_PayloadHash_calls.contains c) = true := by decide

end Mixin.Facts.ExpectedC06
