import Mixin.Facts.Generated
/-! Facts the C07 theorems rely on, compared with the values regenerated from the source. -/
namespace Mixin.Facts.ExpectedC07
open Mixin.Facts.Gen

/-- the only snapshot version; its byte is what `checkSnapVersion` compares with -/
theorem snapshotVersion : common_SnapshotVersionCommonEncoding = 2 := by decide
/-- "1 to 255 transactions" in the property text -/
theorem snapshotTransactionsMaximum : common_SnapshotTransactionsMaximum = 255 := by decide
/-- the count is written with `WriteInt`, which panics above this bound -/
theorem countFitsEncodingInt : common_SnapshotTransactionsMaximum ≤ common_MaximumEncodingInt := by decide

end Mixin.Facts.ExpectedC07
