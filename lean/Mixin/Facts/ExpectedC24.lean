import Mixin.Facts.Generated
/-!
  C24 — `shouldRequeueSelfAnnouncement` decides by substring match on error texts. The regenerated
  fact lists its literals with whether each still occurs in a string literal of another kernel
  function; the proofs' error class "finalized elsewhere ⇒ requeue" needs all of them produced.
-/
namespace Mixin.Facts.ExpectedC24
open Mixin.Facts

/-- every text the matcher looks for is produced somewhere in the package, and there is one -/
theorem matcher_texts_produced :
    (Gen.kernel_shouldRequeueSelfAnnouncement_litcover.all (·.2)) = true ∧
    Gen.kernel_shouldRequeueSelfAnnouncement_litcover.length ≥ 1 := by decide

end Mixin.Facts.ExpectedC24
