import Mixin.Facts.Generated
/-!
Facts of the source tree the C30 model relies on: `AuthenticateAs` has five error returns (the
five rejecting tests of the model), one `Verify` over one `Blake3Hash`, one float `Abs` with three
`float64` conversions (the skew expression), derives the peer id by `DeterministicHashDerive`,
`Hash`, `ForNetwork`; the builder signs one `Blake3Hash`; the handshake timeout handed to
`AuthenticateAs` by `p2p/peer.go` is a positive number of seconds far below 2^53.
-/
namespace Mixin.Facts.ExpectedC30
open Mixin.Facts.Gen

theorem authenticate_skeleton :
    ["Abs*1", "Blake3Hash*1", "DeterministicHashDerive*1", "Errorf*5", "ForNetwork*1", "Hash*1", "Verify*1",
     "float64*3"].all (· ∈ kernel_Node_AuthenticateAs_calls) = true := by decide

theorem build_skeleton :
    ["Blake3Hash*1", "Sign*1", "PutUint64*1"].all (· ∈ kernel_Node_BuildAuthenticationMessage_calls) = true := by
  decide

theorem handshake_timeout_positive_seconds :
    0 < p2p_HandshakeTimeout / 1000000000 ∧ p2p_HandshakeTimeout / 1000000000 < 2 ^ 53 ∧
    p2p_HandshakeTimeout % 1000000000 = 0 := by decide

/-- **The caller's unit conversion.**  `AuthenticateAs` takes its timeout in *seconds*; the one
    place where a fresh handshake is authenticated, `p2p/peer.go: authenticateNeighbor`, must hand it
    `HandshakeTimeout` (a `time.Duration`, nanoseconds) divided by `time.Second` — exactly one call,
    with the node's own id as recipient and the received payload.  Together with
    `handshake_timeout_positive_seconds` the skew window at the real entry point is the 10 s of
    the constant, not 10 000 (milliseconds) or 10^10 (raw duration). -/
theorem handshake_passes_seconds :
    p2p_Peer_authenticateNeighbor_args.filter (·.1 == "AuthenticateAs") =
      [("AuthenticateAs", ["me.IdForNetwork", "msg.Data", "int64(HandshakeTimeout/time.Second)"])] := by
  decide

end Mixin.Facts.ExpectedC30
