import Mixin.Facts.Generated
import Mixin.Model.Base58
import Mixin.Model.Keys
/-! Constants the C32 models rely on, tied to the regenerated facts. -/
namespace Mixin.Facts.ExpectedC32
open Mixin.Facts.Gen

theorem facts_ok :
    util_base58_alphabet.toList.map Char.toNat = Mixin.Base58.alphabetNat ∧
    util_base58_alphabetIdx0 = Mixin.Base58.idx0.toNat ∧
    common_MainAddressPrefix.toList.map (fun c => c.toNat.toUInt8) = Mixin.Keys.prefixXIN := by decide

end Mixin.Facts.ExpectedC32
