import Mixin.Model.Membership
/-!
Constant relations and call skeletons the C10 (and C09/C11) theorems rely on, checked against the
facts regenerated from the source tree. Values are not pinned, only the relations used.
-/
namespace Mixin.Facts.ExpectedC10
open Mixin.Membership Mixin.Facts.Gen

/-- an accepted node that is old enough to sign (`KernelNodeAcceptPeriodMinimum`) is old enough to
    be counted in the threshold base (`SnapshotReferenceThreshold · SnapshotRoundGap`) -/
theorem maturity_le : genConsts.refThr * genConsts.roundGap ≤ genConsts.acceptMin := by decide

/-- the "below minimum" threshold 1000 is out of reach of any membership below the minimum -/
theorem min_le_sentinel : genConsts.minNodes < 1000 := by decide

/-- the two constant-only `panic`s of `ConsensusThreshold` are unreachable and its `uint64`
    subtraction does not wrap -/
theorem no_panic : genConsts.refThr * genConsts.roundGap ≤ 3 * 60 * 1000000000 ∧
    genConsts.hour ≤ genConsts.acceptMin ∧ genConsts.refThr * genConsts.roundGap * 3 ≤ genConsts.acceptMin := by decide

/-- a day is 24 hours, the accept window lies within a day -/
theorem window_ok : genConsts.oneDay = 24 * genConsts.hour ∧ genConsts.acceptBegin ≤ genConsts.acceptEnd ∧
    genConsts.acceptEnd < 24 := by decide

/-- both the threshold and the signer set consult the same predictive removal candidate -/
theorem same_removal_rule :
    ("removingOrSlashingNodeAt*1" ∈ kernel_Node_ConsensusThreshold_calls ∧
     "usePredictiveNodeRemovalSignerSet*1" ∈ kernel_Node_ConsensusThreshold_calls) ∧
    ("removingOrSlashingNodeAt*1" ∈ kernel_Chain_consensusNodes_calls ∧
     "usePredictiveNodeRemovalSignerSet*1" ∈ kernel_Chain_consensusNodes_calls ∧
     "ConsensusReady*1" ∈ kernel_Chain_consensusNodes_calls ∧
     "IsPledging*1" ∈ kernel_Chain_consensusNodes_calls) := by decide

end Mixin.Facts.ExpectedC10
