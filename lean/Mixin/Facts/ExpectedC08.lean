import Mixin.Facts.Generated
import Mixin.Model.PeerMsg
/-!
Facts of the source tree the C08 model and theorems rely on, compared with the regenerated
`Mixin.Facts.Gen` on every run: the message type codes, the size constants of the payload /
sync point codecs, the case table of `parseNetworkMessage` (a new `case` needs a model), and
the number of `CheckKey` call sites in it (one per point that must be valid).
-/
namespace Mixin.Facts.ExpectedC08
open Mixin.Facts.Gen Mixin.PeerMsg

theorem type_codes :
    [tPing, tAuthentication, tGraph, tSnapshotConfirm, tTransactionRequest, tTransaction, tTransactionBundle,
     tFinalizedTransactionBundle, tPreCommitments, tAnnouncement, tCommitment, tTransactionChallenge, tResponse,
     tFullChallenge, tFinalization, tRelay, tConsumers].map UInt8.toNat =
    [p2p_PeerMessageTypePing, p2p_PeerMessageTypeAuthentication, p2p_PeerMessageTypeGraph,
     p2p_PeerMessageTypeSnapshotConfirm, p2p_PeerMessageTypeTransactionRequest, p2p_PeerMessageTypeTransaction,
     p2p_PeerMessageTypeTransactionBundle, p2p_PeerMessageTypeFinalizedTransactionBundle,
     p2p_PeerMessageTypePreCommitments, p2p_PeerMessageTypeBatchSnapshotAnnouncement,
     p2p_PeerMessageTypeBatchSnapshotCommitment, p2p_PeerMessageTypeBatchTransactionChallenge,
     p2p_PeerMessageTypeBatchSnapshotResponse, p2p_PeerMessageTypeBatchFullChallenge,
     p2p_PeerMessageTypeBatchSnapshotFinalization, p2p_PeerMessageTypeRelay, p2p_PeerMessageTypeConsumers] := by
  decide

theorem codec_constants :
    snapshotTransactionsMaximum = common_SnapshotTransactionsMaximum ∧
    maximumEncodingInt = common_MaximumEncodingInt ∧
    minimumHeader = [0x77, 0x77, 0x00, UInt8.ofNat common_MinimumEncodingVersion] := by
  decide

/-- every byte string the transport delivers is far below the 2^32 bound of the size fields -/
theorem transport_limit : p2p_TransportMessageMaxSize < 2 ^ 32 - 4 := by decide

theorem case_table :
    p2p_parseNetworkMessage_switch.map (·.1) =
    [["PeerMessageTypePreCommitments"], ["PeerMessageTypeGraph"], ["PeerMessageTypePing"],
     ["PeerMessageTypeAuthentication"], ["PeerMessageTypeSnapshotConfirm"], ["PeerMessageTypeTransaction"],
     ["PeerMessageTypeTransactionBundle", "PeerMessageTypeFinalizedTransactionBundle"],
     ["PeerMessageTypeTransactionRequest"], ["PeerMessageTypeBatchSnapshotAnnouncement"],
     ["PeerMessageTypeBatchSnapshotCommitment"], ["PeerMessageTypeBatchFullChallenge"],
     ["PeerMessageTypeBatchTransactionChallenge"], ["PeerMessageTypeBatchSnapshotResponse"],
     ["PeerMessageTypeBatchSnapshotFinalization"], ["PeerMessageTypeRelay"], ["PeerMessageTypeConsumers"]] := by
  decide

theorem check_key_sites : "CheckKey*5" ∈ p2p_parseNetworkMessage_calls := by decide

end Mixin.Facts.ExpectedC08
