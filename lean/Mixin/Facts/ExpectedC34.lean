import Mixin.Facts.Generated
import Mixin.Model.Custodian
/-! Constants of common/custodian.go the C34 model and theorems rely on, tied to the
regenerated facts. A changed value breaks the build of `Mixin.Props.C34`. -/
namespace Mixin.Facts.ExpectedC34
open Mixin.Facts.Gen Mixin.Custodian

theorem facts_ok :
    common_custodianNodeExtraSize = nodeExtraSize ∧
    common_custodianNodeActionUpdate = actionUpdate.toNat ∧
    common_custodianNodesMinimumCount = nodesMinimumCount ∧
    common_custodianNodeNewPrice * 10 ^ common_Precision = newPrice ∧
    common_custodianNodeUpdatePrice * 10 ^ common_Precision = updatePrice ∧
    common_TxVersionHashSignature = txVersionHashSignature ∧
    common_OutputTypeCustodianUpdateNodes = outputTypeCustodianUpdateNodes ∧
    -- layout: action byte + 2 addresses + node id + 3 signatures
    1 + 64 + 64 + 32 + 64 + 64 + 64 = nodeExtraSize := by decide

end Mixin.Facts.ExpectedC34
