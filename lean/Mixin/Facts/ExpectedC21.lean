import Mixin.Facts.Generated
/-!
  C21: `marker_after_restart` is proved for the model's startup walk, which visits EVERY topology
  entry strictly between the recorded marker and the last entry (`Recovery.setupRepair`:
  `filter (mo < order < last)`), for histories of any length. The tie to
  `kernel/node.go:repairConsensusState`, regenerated from the source on every run (fact kind
  `walk`, harness/extract_walk.go, local names resolved away):

  * the walk starts at the marker's topological order + 1 — the marker being what `ReadSnapshot`
    returned, nothing else (a second assignment would show up as `phi(…)`);
  * it continues while the cursor is below the function's parameter (the last order);
  * the cursor only ever jumps to the order after the last entry of the page just read;
  * there is no `break`, and the function mentions exactly one integer constant other than 0/1
    (the page size): no window, cap or second bound. The page size itself may be retuned and
    locals renamed without touching this file.
-/
namespace Mixin.Facts.ExpectedC21
open Mixin.Facts.Gen

theorem repair_walk_shape :
    kernel_Node_repairConsensusState_walk.lookup "start" = some "ReadSnapshot#0.TopologicalOrder+1" ∧
    kernel_Node_repairConsensusState_walk.lookup "cond" = some "i<param0" ∧
    kernel_Node_repairConsensusState_walk.lookup "step" =
      some "ReadSnapshotWithTransactionsSinceTopology#0[len(ReadSnapshotWithTransactionsSinceTopology#0)-1].TopologicalOrder+1" ∧
    kernel_Node_repairConsensusState_walk.lookup "breaks" = some "0" ∧
    kernel_Node_repairConsensusState_walk.lookup "bigints" = some "1" := by decide

/-- every page is handed to `reloadConsensusState`, once, by a single paging call -/
theorem repair_walk_calls :
    kernel_Node_repairConsensusState_calls.contains "ReadSnapshotWithTransactionsSinceTopology*1" = true ∧
    kernel_Node_repairConsensusState_calls.contains "reloadConsensusState*1" = true ∧
    kernel_Node_repairConsensusState_calls.contains "ReadSnapshot*1" = true := by decide

end Mixin.Facts.ExpectedC21
