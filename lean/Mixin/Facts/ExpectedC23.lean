import Mixin.Facts.Generated
/-! Facts the C23 model relies on: every cache method is exactly one Badger transaction
    (`Update`, or `NewTransaction` + `Commit`), and the three key spaces have different prefixes. -/
namespace Mixin.Facts.ExpectedC23
open Mixin.Facts.Gen

def has (l : List String) (x : String) : Bool := l.contains x

example : has storage_BadgerStore_CacheRetrieveTransactions_calls "Update*1" = true := by decide
example : has storage_BadgerStore_CacheRetrieveTransactions_calls "NewTransaction*1" = false := by decide
example : has storage_BadgerStore_CacheRemoveTransactions_calls "Update*1" = true := by decide
example : has storage_BadgerStore_CacheRemoveTransactions_calls "Delete*2" = true := by decide
example : (has storage_BadgerStore_cacheQueueTransaction_calls "NewTransaction*1" &&
    has storage_BadgerStore_cacheQueueTransaction_calls "Commit*1" &&
    has storage_BadgerStore_cacheQueueTransaction_calls "SetEntry*3" &&
    has storage_BadgerStore_cacheQueueTransaction_calls "Get*1") = true := by decide
example : (has storage_BadgerStore_cacheStoreTransaction_calls "NewTransaction*1" &&
    has storage_BadgerStore_cacheStoreTransaction_calls "Commit*1" &&
    has storage_BadgerStore_cacheStoreTransaction_calls "SetEntry*1" &&
    has storage_BadgerStore_cacheStoreTransaction_calls "Get*1") = true := by decide
example : storage_cachePrefixTransactionQueue ≠ storage_cachePrefixTransactionOrder ∧
    storage_cachePrefixTransactionQueue ≠ storage_cachePrefixTransactionCache ∧
    storage_cachePrefixTransactionOrder ≠ storage_cachePrefixTransactionCache := by decide

end Mixin.Facts.ExpectedC23
