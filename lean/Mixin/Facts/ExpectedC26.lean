import Mixin.Facts.Generated
import Mixin.Model.Work
/-! Facts the C26 model relies on: the day length, and `WriteRoundWork` being a single `Update`
    transaction that writes the checkpoint once and each counter kind through one write site. -/
namespace Mixin.Facts.ExpectedC26
open Mixin.Facts.Gen

example : storage_DAY_U64 = Mixin.Work.dayLen := by decide

def has (l : List String) (x : String) : Bool := l.contains x

example : (has storage_BadgerStore_WriteRoundWork_calls "Update*1" &&
    has storage_BadgerStore_WriteRoundWork_calls "graphWriteWorkOffset*1" &&
    has storage_BadgerStore_WriteRoundWork_calls "graphReadWorkOffset*1" &&
    has storage_BadgerStore_WriteRoundWork_calls "graphWriteUint64*2" &&
    has storage_BadgerStore_WriteRoundWork_calls "panic*6") = true := by decide
example : has storage_BadgerStore_WriteRoundWork_calls "NewTransaction*1" = false := by decide

/-- number of call sites of `name` in a `calls` fact (entries are `name*count`) -/
def sites (l : List String) (name : String) : Nat :=
  ((List.range 40).filter (fun n => l.contains (name ++ "*" ++ toString n))).foldl (· + ·) 0

/-- the counters are read through the update transaction: as many `graphReadUint64` sites as
    `graphWriteUint64` sites, and the closure calls no method that opens its own transaction -/
example : (sites storage_BadgerStore_WriteRoundWork_calls "graphReadUint64" ==
    sites storage_BadgerStore_WriteRoundWork_calls "graphWriteUint64") = true := by decide
example : (["ListNodeWorks", "ListWorkOffsets", "ReadWorkOffset", "ReadSnapshotWorksForNodeRound",
    "View", "NewTransaction"].all
    (fun m => sites storage_BadgerStore_WriteRoundWork_calls m == 0)) = true := by decide

end Mixin.Facts.ExpectedC26
