import Mixin.Facts.Generated
/-! Facts the C35 model relies on: `TopoWrite` takes the counter mutex once and calls
    `WriteSnapshot` once; `WriteSnapshot` is one transaction under the store mutex;
    `writeTopology` checks the order key once and writes exactly the two index records;
    the counter is initialised from `LastSnapshot`. -/
namespace Mixin.Facts.ExpectedC35
open Mixin.Facts.Gen

def has (l : List String) (x : String) : Bool := l.contains x

example : (has kernel_Node_TopoWrite_calls "Lock*1" && has kernel_Node_TopoWrite_calls "Unlock*1" &&
    has kernel_Node_TopoWrite_calls "WriteSnapshot*1") = true := by decide
example : (has storage_BadgerStore_WriteSnapshot_calls "Lock*1" &&
    has storage_BadgerStore_WriteSnapshot_calls "Unlock*1" &&
    has storage_BadgerStore_WriteSnapshot_calls "NewTransaction*1" &&
    has storage_BadgerStore_WriteSnapshot_calls "Commit*1" &&
    has storage_BadgerStore_WriteSnapshot_calls "writeSnapshot*1") = true := by decide
example : (has storage_writeTopology_calls "Get*1" && has storage_writeTopology_calls "Set*2" &&
    has storage_writeTopology_calls "panic*1") = true := by decide
example : has kernel_Node_getTopologyCounter_calls "LastSnapshot*1" = true := by decide

end Mixin.Facts.ExpectedC35
