import Mixin.Facts.Generated
/-! Facts the C18 theorems rely on: only relations of `config.SnapshotRoundGap`, not its value. -/
namespace Mixin.Facts.ExpectedC18
open Mixin.Facts.Gen

/-- a round of one snapshot is always inside the gap -/
theorem roundGap_pos : 0 < config_SnapshotRoundGap := by decide
/-- `start + SnapshotRoundGap` is computed in uint64 -/
theorem roundGap_lt : config_SnapshotRoundGap < 2 ^ 64 := by decide

end Mixin.Facts.ExpectedC18
