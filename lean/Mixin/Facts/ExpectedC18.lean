import Mixin.Facts.Generated
/-! Facts the C18 theorems rely on: only relations of `config.SnapshotRoundGap`, not its value. -/
namespace Mixin.Facts.ExpectedC18
open Mixin.Facts.Gen

/-- a round of one snapshot is always inside the gap -/
theorem roundGap_pos : 0 < config_SnapshotRoundGap := by decide
/-- `start + SnapshotRoundGap` is computed in uint64 -/
theorem roundGap_lt : config_SnapshotRoundGap < 2 ^ 64 := by decide

/-- the validator's round hash touches no package-level variable of `storage` (it runs in one
    goroutine per node: shared scratch state would make its result depend on the schedule) -/
theorem validator_uses_no_package_variable : storage_computeRoundHash_globals = [] := by decide
/-- neither does the live node's -/
theorem common_uses_no_package_variable : common_ComputeRoundHash_globals = [] := by decide

end Mixin.Facts.ExpectedC18
