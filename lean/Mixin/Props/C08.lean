import Mixin.Model.PeerMsg
namespace Mixin.C08
open Mixin.PeerMsg

theorem stub : True := trivial

end Mixin.C08
