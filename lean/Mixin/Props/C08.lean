import Mixin.Model.PeerMsg
import Mixin.Model.PeerWire
import Mixin.Proofs.PeerMsg
import Mixin.Facts.ExpectedC08
/-!
# C08 — peer message parsing is total and faithful

Theorems about `Mixin.Model.PeerMsg`, the model of `p2p/handle.go`
(`parseNetworkMessage`, `parseTransactionsPayload`, `unmarshalSyncPoints`, `build*Message`).
The snapshot / transaction decoders and `CheckKey` are an arbitrary `Oracle`.
-/
namespace Mixin.C08
open Mixin.PeerMsg
open Mixin.Proto (Bytes)

theorem dispatch_total (O : Oracle) (msg : Msg) (t : UInt8) (data : Bytes) (hl : 1 ≤ data.length) :
    dispatch O msg t data ≠ .panic := by
  unfold dispatch
  by_cases h0 : t = tPreCommitments
  · rw [if_pos h0]; exact parsePreCommitments_total _ _ _
  rw [if_neg h0]
  by_cases h1 : t = tGraph
  · rw [if_pos h1]; exact parseGraph_total _ _
  rw [if_neg h1]
  by_cases h2 : t = tPing
  · rw [if_pos h2]; unfold parsePing; split <;> simp
  rw [if_neg h2]
  by_cases h3 : t = tAuthentication
  · rw [if_pos h3]; exact parseAuthentication_total _ _
  rw [if_neg h3]
  by_cases h4 : t = tSnapshotConfirm
  · rw [if_pos h4]; exact parseSnapshotConfirm_total _ _
  rw [if_neg h4]
  by_cases h5 : t = tTransaction
  · rw [if_pos h5]; exact parseTransaction_total _ _ _ hl
  rw [if_neg h5]
  by_cases h6 : t = tTransactionBundle ∨ t = tFinalizedTransactionBundle
  · rw [if_pos h6]; exact parseBundle_total _ _ _ hl
  rw [if_neg h6]
  by_cases h7 : t = tTransactionRequest
  · rw [if_pos h7]; exact parseTransactionRequest_total _ _
  rw [if_neg h7]
  by_cases h8 : t = tAnnouncement
  · rw [if_pos h8]; exact parseAnnouncement_total _ _ _ hl
  rw [if_neg h8]
  by_cases h9 : t = tCommitment
  · rw [if_pos h9]; exact parseCommitment_total _ _ _ hl
  rw [if_neg h9]
  by_cases h10 : t = tFullChallenge
  · rw [if_pos h10]; exact parseFullChallenge_total _ _ _ hl
  rw [if_neg h10]
  by_cases h11 : t = tTransactionChallenge
  · rw [if_pos h11]; exact parseTransactionChallenge_total _ _ _ hl
  rw [if_neg h11]
  by_cases h12 : t = tResponse
  · rw [if_pos h12]; exact parseResponse_total _ _ hl
  rw [if_neg h12]
  by_cases h13 : t = tFinalization
  · rw [if_pos h13]; exact parseFinalization_total _ _ _ hl
  rw [if_neg h13]
  by_cases h14 : t = tRelay
  · rw [if_pos h14]; unfold parseRelay; split <;> simp
  rw [if_neg h14]
  by_cases h15 : t = tConsumers
  · rw [if_pos h15]; exact parseConsumers_total _ _ hl
  rw [if_neg h15]
  simp

/-- **Totality.** For every oracle, version and byte string the parser returns a message or an
    error: no slice expression of `parseNetworkMessage` can go out of range. -/
theorem parse_total (O : Oracle) (v : UInt8) (b : Bytes) : parse O v b ≠ .panic := by
  unfold parse
  split
  · simp
  · exact dispatch_total _ _ _ _ (by simp)

/-- the sub-parsers are total as well (they are reachable on their own from relayed data) -/
theorem payload_total (O : Oracle) (b : Bytes) : parseTransactionsPayload O b ≠ .panic :=
  parseTransactionsPayload_total O b

theorem points_total (b : Bytes) : unmarshalSyncPoints b ≠ .panic :=
  unmarshalSyncPoints_total b


/-! ## build → parse, message kinds without lists

Hypotheses are the Go types of the builder arguments (`crypto.Hash`/`crypto.Key` are 32 bytes,
`crypto.Signature` 64) and the oracle facts "this encoding decodes" — the snapshot and
transaction codecs are modelled by other properties (C06, C07). -/

theorem dispatch_auth (O : Oracle) (m : Msg) (d : Bytes) :
    dispatch O m tAuthentication d = parseAuthentication m d := by
  simp [dispatch, tAuthentication, tPreCommitments, tGraph, tPing]

theorem dispatch_confirm (O : Oracle) (m : Msg) (d : Bytes) :
    dispatch O m tSnapshotConfirm d = parseSnapshotConfirm m d := by
  simp [dispatch, tAuthentication, tPreCommitments, tGraph, tPing, tSnapshotConfirm]

theorem dispatch_tx (O : Oracle) (m : Msg) (d : Bytes) :
    dispatch O m tTransaction d = parseTransaction O m d := by
  simp [dispatch, tAuthentication, tPreCommitments, tGraph, tPing, tSnapshotConfirm, tTransaction]

theorem dispatch_request (O : Oracle) (m : Msg) (d : Bytes) :
    dispatch O m tTransactionRequest d = parseTransactionRequest m d := by
  simp [dispatch, tAuthentication, tPreCommitments, tGraph, tPing, tSnapshotConfirm, tTransaction,
    tTransactionBundle, tFinalizedTransactionBundle, tTransactionRequest]

theorem dispatch_ann (O : Oracle) (m : Msg) (d : Bytes) :
    dispatch O m tAnnouncement d = parseAnnouncement O m d := by
  simp [dispatch, tAnnouncement, tPreCommitments, tGraph, tPing, tAuthentication, tSnapshotConfirm,
    tTransaction, tTransactionBundle, tFinalizedTransactionBundle, tTransactionRequest]

theorem dispatch_response (O : Oracle) (m : Msg) (d : Bytes) :
    dispatch O m tResponse d = parseResponse m d := by
  simp [dispatch, tAnnouncement, tPreCommitments, tGraph, tPing, tAuthentication, tSnapshotConfirm,
    tTransaction, tTransactionBundle, tFinalizedTransactionBundle, tTransactionRequest, tCommitment,
    tFullChallenge, tTransactionChallenge, tResponse]

theorem dispatch_finalization (O : Oracle) (m : Msg) (d : Bytes) :
    dispatch O m tFinalization d = parseFinalization O m d := by
  simp [dispatch, tAnnouncement, tPreCommitments, tGraph, tPing, tAuthentication, tSnapshotConfirm,
    tTransaction, tTransactionBundle, tFinalizedTransactionBundle, tTransactionRequest, tCommitment,
    tFullChallenge, tTransactionChallenge, tResponse, tFinalization]

/-- the authentication envelope around a 137-byte authentication payload (C30) -/
theorem build_parse_authentication (O : Oracle) (v : UInt8) (d : Bytes) (hd : d.length = 137) :
    parse O v (buildAuthenticationMessage d) = .ok { type := tAuthentication, version := v, data := d } := by
  unfold buildAuthenticationMessage parse
  simp only [dispatch_auth]
  unfold parseAuthentication authenticationMessageSize
  simp [hd, sliceFrom_cons, sliceFrom_zero]

theorem build_parse_announcement (O : Oracle) (v : UInt8) (sig R snap : Bytes) (info : SnapInfo)
    (hsig : sig.length = 64) (hR : R.length = 32) (hk : O.checkKey R = true)
    (hs : O.snap snap = some info) (hlen : 4 ≤ snap.length) :
    parse O v (buildAnnouncement sig R snap) =
      .ok { type := tAnnouncement, version := v, commitment := R, snapshot := some info, signature := some sig } := by
  unfold buildAnnouncement parse
  simp only [dispatch_ann]
  unfold parseAnnouncement
  have h1 : sig.length ≤ 64 := by omega
  have h2 : R.length ≤ 32 := by omega
  have h3 : ¬ (sig ++ (R ++ snap)).length ≤ 99 := by simp; omega
  simp (disch := omega) only [sliceFrom_cons, sliceFrom_zero, sliceFrom_append, slice_cons, slice_prefix, hsig, hR,
    Nat.sub_self, copyN_append, hk, hs]
  rw [if_neg h3]
  simp [copyN_exact hsig]

theorem build_parse_response (O : Oracle) (v : UInt8) (h si : Bytes) (hh : h.length = 32) (hsi : si.length = 32) :
    parse O v (buildResponse h si) = .ok { type := tResponse, version := v, snapshotHash := h, response := si } := by
  unfold buildResponse parse
  simp only [dispatch_response]
  unfold parseResponse
  have h1 : h.length ≤ 32 := by omega
  have h3 : ¬ (h ++ si).length ≠ 64 := by simp; omega
  simp (disch := omega) only [sliceFrom_cons, sliceFrom_zero, sliceFrom_append, hh, Nat.sub_self, copyN_append]
  rw [if_neg h3]
  simp [copyN_exact hsi]

theorem build_parse_finalization (O : Oracle) (v : UInt8) (snap : Bytes) (info : SnapInfo)
    (hs : O.snap snap = some info) :
    parse O v (buildFinalization snap) = .ok { type := tFinalization, version := v, snapshot := some info } := by
  unfold buildFinalization parse
  simp only [dispatch_finalization]
  unfold parseFinalization
  simp [sliceFrom_cons, sliceFrom_zero, hs]

theorem build_parse_confirm (O : Oracle) (v : UInt8) (h : Bytes) (hh : h.length = 32) :
    parse O v (buildSnapshotConfirm h) = .ok { type := tSnapshotConfirm, version := v, snapshotHash := h } := by
  unfold buildSnapshotConfirm parse
  simp only [dispatch_confirm]
  unfold parseSnapshotConfirm
  simp [sliceFrom_cons, sliceFrom_zero, hh, copyN_exact hh]

theorem build_parse_transaction (O : Oracle) (v : UInt8) (tx : Bytes) (ht : O.tx tx = true) :
    parse O v (buildTransaction tx) = .ok { type := tTransaction, version := v, transactions := [tx] } := by
  unfold buildTransaction parse
  simp only [dispatch_tx]
  unfold parseTransaction
  simp [sliceFrom_cons, sliceFrom_zero, ht]

theorem build_parse_request (O : Oracle) (v : UInt8) (h : Bytes) (hh : h.length = 32) :
    parse O v (buildTransactionRequest h) = .ok { type := tTransactionRequest, version := v, transactionHash := h } := by
  unfold buildTransactionRequest parse
  simp only [dispatch_request]
  unfold parseTransactionRequest
  simp [sliceFrom_cons, sliceFrom_zero, hh, copyN_exact hh]


/-! ## build → parse, message kinds with lists -/

def tAll := [tAnnouncement, tPreCommitments, tGraph, tPing, tAuthentication, tSnapshotConfirm,
    tTransaction, tTransactionBundle, tFinalizedTransactionBundle, tTransactionRequest, tCommitment,
    tFullChallenge, tTransactionChallenge, tResponse, tFinalization, tRelay, tConsumers]

theorem dispatch_commitment (O : Oracle) (m : Msg) (d : Bytes) :
    dispatch O m tCommitment d = parseCommitment O m d := by
  simp [dispatch, tAnnouncement, tPreCommitments, tGraph, tPing, tAuthentication, tSnapshotConfirm,
    tTransaction, tTransactionBundle, tFinalizedTransactionBundle, tTransactionRequest, tCommitment]

theorem dispatch_full (O : Oracle) (m : Msg) (d : Bytes) :
    dispatch O m tFullChallenge d = parseFullChallenge O m d := by
  simp [dispatch, tAnnouncement, tPreCommitments, tGraph, tPing, tAuthentication, tSnapshotConfirm,
    tTransaction, tTransactionBundle, tFinalizedTransactionBundle, tTransactionRequest, tCommitment,
    tFullChallenge]

theorem dispatch_txc (O : Oracle) (m : Msg) (d : Bytes) :
    dispatch O m tTransactionChallenge d = parseTransactionChallenge O m d := by
  simp [dispatch, tAnnouncement, tPreCommitments, tGraph, tPing, tAuthentication, tSnapshotConfirm,
    tTransaction, tTransactionBundle, tFinalizedTransactionBundle, tTransactionRequest, tCommitment,
    tFullChallenge, tTransactionChallenge]

theorem dispatch_bundle (O : Oracle) (m : Msg) (d : Bytes) (t : UInt8)
    (h : t = tTransactionBundle ∨ t = tFinalizedTransactionBundle) :
    dispatch O m t d = parseBundle O m d := by
  rcases h with h | h <;> subst h <;>
  simp [dispatch, tPreCommitments, tGraph, tPing, tAuthentication, tSnapshotConfirm,
    tTransaction, tTransactionBundle, tFinalizedTransactionBundle]

theorem dispatch_graph (O : Oracle) (m : Msg) (d : Bytes) :
    dispatch O m tGraph d = parseGraph m d := by
  simp [dispatch, tPreCommitments, tGraph]

theorem dispatch_pre (O : Oracle) (m : Msg) (d : Bytes) :
    dispatch O m tPreCommitments d = parsePreCommitments O m d := by
  simp [dispatch]

/-- `parseTransactionsPayload (buildTransactionsPayload txs) = txs` for 0..255 transactions -/
theorem payload_roundtrip (O : Oracle) (txs : List Bytes) (hn : txs.length ≤ 255)
    (hk : ∀ t ∈ txs, O.tx t = true) (hl : ∀ t ∈ txs, t.length < 2 ^ 32) :
    ∃ pl, buildTransactionsPayload txs = some pl ∧ 1 ≤ pl.length ∧ parseTransactionsPayload O pl = .ok txs := by
  refine ⟨UInt8.ofNat txs.length :: (txs.map (fun pl => beBytes 4 pl.length ++ pl)).flatten, ?_, ?_, ?_⟩
  · unfold buildTransactionsPayload snapshotTransactionsMaximum
    rw [if_neg (by omega)]
  · simp
  · unfold parseTransactionsPayload
    have hc : (UInt8.ofNat txs.length).toNat = txs.length := by
      simp [UInt8.toNat_ofNat']; omega
    simp only [sliceFrom_cons, sliceFrom_zero, hc]
    exact parseTxLoop_flatten O txs hk hl

/-- more than 255 transactions: the builder panics (`panic(total)`), nothing is sent -/
theorem payload_build_panics (txs : List Bytes) (hn : 255 < txs.length) : buildTransactionsPayload txs = none := by
  unfold buildTransactionsPayload snapshotTransactionsMaximum
  rw [if_pos hn]

theorem build_parse_bundle (O : Oracle) (v : UInt8) (txs : List Bytes) (typ : UInt8)
    (htyp : typ = tTransactionBundle ∨ typ = tFinalizedTransactionBundle) (hn : txs.length ≤ 255)
    (hk : ∀ t ∈ txs, O.tx t = true) (hl : ∀ t ∈ txs, t.length < 2 ^ 32) :
    ∃ b, buildTransactions txs typ = some b ∧
      parse O v b = .ok { type := typ, version := v, transactions := txs } := by
  obtain ⟨pl, h1, _, h3⟩ := payload_roundtrip O txs hn hk hl
  refine ⟨typ :: pl, by simp [buildTransactions, h1], ?_⟩
  unfold parse
  simp only [dispatch_bundle _ _ _ _ htyp]
  unfold parseBundle
  simp [sliceFrom_cons, sliceFrom_zero, h3]

theorem build_parse_commitment (O : Oracle) (v : UInt8) (sig h R : Bytes) (ws : List Bytes)
    (hsig : sig.length = 64) (hh : h.length = 32) (hR : R.length = 32) (hk : O.checkKey R = true)
    (hw : ∀ w ∈ ws, w.length = 32) :
    parse O v (buildCommitment sig h R ws) =
      .ok { type := tCommitment, version := v, snapshotHash := h, commitment := R, wantTxs := ws,
            signature := some sig, unsigned := h ++ (R ++ ws.flatten) } := by
  unfold buildCommitment parse
  simp only [dispatch_commitment]
  unfold parseCommitment
  have hf := flatten_length32 ws hw
  have h3 : ¬ (sig ++ (h ++ (R ++ ws.flatten))).length < 128 := by simp; omega
  simp (disch := omega) only [sliceFrom_cons, sliceFrom_zero, sliceFrom_append, slice_cons, slice_prefix, hsig, hh, hR,
    Nat.sub_self, copyN_append, hk, Nat.reduceSub]
  rw [if_neg h3]
  simp only [Bool.not_true, Bool.false_eq_true, if_false, copyN_exact hsig]
  cases ws with
  | nil => simp
  | cons w t =>
    have hpos : (w :: t).flatten.length > 0 := by rw [hf]; simp
    have hmod : ¬ (w :: t).flatten.length % 32 ≠ 0 := by rw [hf]; simp
    have hdiv : (w :: t).flatten.length / 32 = (w :: t).length := by rw [hf]; simp
    rw [if_pos hpos, if_neg hmod, hdiv]
    have := wantLoop_flatten (w :: t) [] (by simpa using hw)
    simp only [List.nil_append, List.length_nil] at this
    rw [this]

theorem build_parse_transaction_challenge (O : Oracle) (v : UInt8) (h cs : Bytes) (mask : Nat) (txs : List Bytes)
    (hh : h.length = 32) (hcs : cs.length = 64) (hm : mask < 2 ^ 64) (hn : txs.length ≤ 255)
    (hk : ∀ t ∈ txs, O.tx t = true) (hl : ∀ t ∈ txs, t.length < 2 ^ 32) :
    ∃ b, buildTransactionChallenge h cs mask txs = some b ∧
      parse O v b = .ok { type := tTransactionChallenge, version := v, snapshotHash := h, cosiSig := cs,
                          cosiMask := mask, transactions := txs } := by
  obtain ⟨pl, h1, h2, h3⟩ := payload_roundtrip O txs hn hk hl
  refine ⟨tTransactionChallenge :: (h ++ (cs ++ (beBytes 8 mask ++ pl))), by simp [buildTransactionChallenge, h1], ?_⟩
  unfold parse
  simp only [dispatch_txc]
  unfold parseTransactionChallenge
  have hb : (beBytes 8 mask).length = 8 := length_beBytes _ _
  have hv : beNat (beBytes 8 mask) = mask := by
    rw [beNat_beBytes]; exact Nat.mod_eq_of_lt (by simpa using hm)
  have hlen : ¬ (h ++ (cs ++ (beBytes 8 mask ++ pl))).length < 105 := by simp [hb]; omega
  simp (disch := omega) only [sliceFrom_cons, sliceFrom_zero, sliceFrom_append, slice_cons, slice_append, slice_prefix,
    hh, hcs, hb, Nat.sub_self, copyN_append, Nat.reduceSub, h3, hv]
  rw [if_neg hlen]

theorem build_parse_full_challenge (O : Oracle) (v : UInt8) (snap cm ch : Bytes) (txs : List Bytes)
    (info : SnapInfo) (csig : Bytes) (cmask : Nat) (b : Bytes)
    (hb : buildFullChallenge snap cm ch txs = some b)
    (hsize : 257 ≤ b.length) (hsn : snap.length < 2 ^ 32)
    (hs : O.snap snap = some info) (hc : info.cosi = some (csig, cmask))
    (hcm : cm.length = 32) (hch : ch.length = 32) (hk1 : O.checkKey cm = true) (hk2 : O.checkKey ch = true)
    (hk : ∀ t ∈ txs, O.tx t = true) (hl : ∀ t ∈ txs, t.length < 2 ^ 32) :
    parse O v b = .ok { type := tFullChallenge, version := v, snapshot := some { body := info.body, cosi := none },
                        cosiSig := csig, cosiMask := cmask, commitment := cm, challenge := ch,
                        transactions := txs } := by
  have hn : txs.length ≤ 255 := by
    by_cases hn : txs.length ≤ 255
    · exact hn
    · simp [buildFullChallenge, payload_build_panics txs (by omega)] at hb
  obtain ⟨pl, h1, h2, h3⟩ := payload_roundtrip O txs hn hk hl
  simp only [buildFullChallenge, h1, Option.some.injEq] at hb
  subst hb
  unfold parse
  simp only [dispatch_full]
  unfold parseFullChallenge
  have hb4 : (beBytes 4 snap.length).length = 4 := length_beBytes _ _
  have hv : beNat (beBytes 4 snap.length) = snap.length := by
    rw [beNat_beBytes]; exact Nat.mod_eq_of_lt (by simpa using hsn)
  have hlen : ¬ (beBytes 4 snap.length ++ (snap ++ (cm ++ (ch ++ pl)))).length < 256 := by
    simp at hsize ⊢; omega
  have hlen2 : ¬ (snap ++ (cm ++ (ch ++ pl))).length < snap.length := by simp
  have hlen3 : ¬ (cm ++ (ch ++ pl)).length < 65 := by simp; omega
  simp (disch := omega) only [sliceFrom_cons, sliceFrom_zero, slice_cons, slice_prefix, hb4, hv]
  rw [if_neg hlen]
  simp (disch := omega) only [sliceFrom_append, hb4, Nat.sub_self, sliceFrom_zero, Nat.reduceSub]
  rw [if_neg hlen2]
  have e5 : 5 + snap.length = (4 + snap.length) + 1 := by omega
  rw [e5]
  simp (disch := omega) only [slice_cons, slice_append, hb4, Nat.sub_self, Nat.add_sub_cancel_left, slice_prefix, hs, hc,
    sliceFrom_cons, sliceFrom_append, sliceFrom_zero]
  rw [if_neg hlen3]
  have ea : 4 + snap.length + 1 + 31 - 4 - snap.length - cm.length = 0 := by omega
  have eb : 4 + snap.length + 1 + 63 - 4 - snap.length - cm.length = 32 := by omega
  have ec : 4 + snap.length + 1 + 63 - 4 - snap.length - cm.length - ch.length = 0 := by omega
  simp only [ea, eb, ec, copyN_exact hcm, hk1, slice_prefix _ hch, copyN_exact hch, hk2, sliceFrom_zero, h3, hch,
    Nat.sub_self]
  simp


def WellFormedPoint (p : SyncPoint) : Prop := p.nodeId.length = 32 ∧ p.hash.length = 32 ∧ p.number < 2 ^ 64

theorem build_parse_graph (O : Oracle) (v : UInt8) (sig : Bytes) (points : List SyncPoint)
    (hsig : sig.length = 64) (hn : points.length ≤ 65535) (hp : ∀ p ∈ points, WellFormedPoint p) :
    ∃ b d, buildGraph sig points = some b ∧ marshalSyncPoints points = some d ∧
      parse O v b = .ok { type := tGraph, version := v, graph := points, signature := some sig, unsigned := d } := by
  have hm : marshalSyncPoints points =
      some (minimumHeader ++ (beBytes 2 points.length ++ (points.map encodePoint).flatten)) := by
    unfold marshalSyncPoints maximumEncodingInt
    rw [if_neg (by omega)]
  refine ⟨tGraph :: (sig ++ (minimumHeader ++ (beBytes 2 points.length ++ (points.map encodePoint).flatten))), _,
    by simp [buildGraph, hm], hm, ?_⟩
  unfold parse
  simp only [dispatch_graph]
  unfold parseGraph
  have hb : (beBytes 2 points.length).length = 2 := length_beBytes _ _
  have hv : beNat (beBytes 2 points.length) = points.length := by
    rw [beNat_beBytes]; exact Nat.mod_eq_of_lt (by simp; omega)
  have hh : minimumHeader.length = 4 := rfl
  have hlen : ¬ (tGraph :: (sig ++ (minimumHeader ++ (beBytes 2 points.length ++ (points.map encodePoint).flatten)))).length < 71 := by
    simp [hb, hh]; omega
  rw [if_neg hlen]
  simp (disch := omega) only [sliceFrom_cons, sliceFrom_zero, sliceFrom_append, hsig, Nat.sub_self, Nat.reduceSub]
  have hu : unmarshalSyncPoints (minimumHeader ++ (beBytes 2 points.length ++ (points.map encodePoint).flatten)) = .ok points := by
    unfold unmarshalSyncPoints
    have hl4 : ¬ (minimumHeader ++ (beBytes 2 points.length ++ (points.map encodePoint).flatten)).length < 4 := by
      simp [hh]
    rw [if_neg hl4, slice_prefix _ hh]
    simp only [ne_eq, not_true_eq_false, if_false]
    rw [sliceFrom_append _ (by omega), hh, Nat.sub_self, sliceFrom_zero]
    simp only [readN_append _ hb, hv]
    have hc : ¬ points.length > maximumEncodingInt := by unfold maximumEncodingInt; omega
    rw [if_neg hc]
    have := readPoints_flatten points [] hp
    rw [List.append_nil] at this
    rw [this]
  rw [hu]
  simp [copyN_append _ hsig]

theorem build_parse_pre_commitments (O : Oracle) (v : UInt8) (sig : Bytes) (keys : List Bytes)
    (hsig : sig.length = 64) (h1 : 1 ≤ keys.length) (hn : keys.length ≤ 1024)
    (h32 : ∀ k ∈ keys, k.length = 32) (hk : ∀ k ∈ keys, O.checkKey k = true) :
    ∃ b, buildCommitments sig keys = some b ∧
      parse O v b = .ok { type := tPreCommitments, version := v, commitments := keys, signature := some sig,
                          unsigned := beBytes 2 keys.length ++ keys.flatten } := by
  refine ⟨tPreCommitments :: (sig ++ (beBytes 2 keys.length ++ keys.flatten)), ?_, ?_⟩
  · unfold buildCommitments; rw [if_neg (by omega)]
  unfold parse
  simp only [dispatch_pre]
  unfold parsePreCommitments
  have hf := flatten_length32 keys h32
  have hb : (beBytes 2 keys.length).length = 2 := length_beBytes _ _
  have hv : beNat (beBytes 2 keys.length) = keys.length := by
    rw [beNat_beBytes]; exact Nat.mod_eq_of_lt (by simp; omega)
  have hlen : ¬ (tPreCommitments :: (sig ++ (beBytes 2 keys.length ++ keys.flatten))).length < 80 := by
    simp [hb, hf]; omega
  rw [if_neg hlen]
  simp (disch := omega) only [sliceFrom_cons, sliceFrom_zero, sliceFrom_append, slice_cons, slice_append, slice_prefix,
    hsig, hb, Nat.sub_self, Nat.reduceSub, hv]
  rw [if_neg (by omega), if_neg (by rw [hf]; simp)]
  have hd : ∀ j, sliceFrom (tPreCommitments :: (sig ++ (beBytes 2 keys.length ++ keys.flatten))) (67 + j)
      = sliceFrom (([] ++ keys).flatten) j := by
    intro j
    have e : 67 + j = (66 + j) + 1 := by omega
    rw [e, sliceFrom_cons, sliceFrom_append _ (by omega), sliceFrom_append _ (by omega), hsig, hb]
    have e2 : 66 + j - 64 - 2 = j := by omega
    rw [e2]; simp
  have := preCommitLoop_flatten O _ keys [] hd (by simpa using h32) hk (by simpa using hn)
  simp only [List.length_nil] at this
  rw [this]
  simp [copyN_exact hsig]

/-- The builder accepts an empty list, the parser does not: a 67-byte pre-commitments message is
    below the parser's 80-byte minimum.  The node never sends one (`cosiPrepareRandomsAndSendCommitments`
    always sends 512 commitments), so this is a documented quirk and not a finding. -/
theorem build_parse_pre_commitments_empty_rejected (O : Oracle) (v : UInt8) (sig : Bytes) (hsig : sig.length = 64) :
    ∃ b, buildCommitments sig [] = some b ∧ parse O v b = .reject := by
  refine ⟨tPreCommitments :: (sig ++ (beBytes 2 0 ++ [])), by simp [buildCommitments], ?_⟩
  unfold parse
  simp only [dispatch_pre]
  unfold parsePreCommitments
  have hb : (beBytes 2 0).length = 2 := length_beBytes _ _
  rw [if_pos (by simp [hsig, hb])]

/-! ## type and version are those of the input -/

theorem dispatch_type (O : Oracle) (msg m : Msg) (t : UInt8) (data : Bytes) (h : dispatch O msg t data = .ok m) :
    m.type = msg.type ∧ m.version = msg.version := by
  unfold dispatch at h
  by_cases h0 : t = tPreCommitments
  · rw [if_pos h0] at h; exact parsePreCommitments_type (O := O) h
  rw [if_neg h0] at h
  by_cases h1 : t = tGraph
  · rw [if_pos h1] at h; exact parseGraph_type (O := O) h
  rw [if_neg h1] at h
  by_cases h2 : t = tPing
  · rw [if_pos h2] at h; exact parsePing_type (O := O) h
  rw [if_neg h2] at h
  by_cases h3 : t = tAuthentication
  · rw [if_pos h3] at h; exact parseAuthentication_type (O := O) h
  rw [if_neg h3] at h
  by_cases h4 : t = tSnapshotConfirm
  · rw [if_pos h4] at h; exact parseSnapshotConfirm_type (O := O) h
  rw [if_neg h4] at h
  by_cases h5 : t = tTransaction
  · rw [if_pos h5] at h; exact parseTransaction_type (O := O) h
  rw [if_neg h5] at h
  by_cases h6 : t = tTransactionBundle ∨ t = tFinalizedTransactionBundle
  · rw [if_pos h6] at h; exact parseBundle_type (O := O) h
  rw [if_neg h6] at h
  by_cases h7 : t = tTransactionRequest
  · rw [if_pos h7] at h; exact parseTransactionRequest_type (O := O) h
  rw [if_neg h7] at h
  by_cases h8 : t = tAnnouncement
  · rw [if_pos h8] at h; exact parseAnnouncement_type (O := O) h
  rw [if_neg h8] at h
  by_cases h9 : t = tCommitment
  · rw [if_pos h9] at h; exact parseCommitment_type (O := O) h
  rw [if_neg h9] at h
  by_cases h10 : t = tFullChallenge
  · rw [if_pos h10] at h; exact parseFullChallenge_type (O := O) h
  rw [if_neg h10] at h
  by_cases h11 : t = tTransactionChallenge
  · rw [if_pos h11] at h; exact parseTransactionChallenge_type (O := O) h
  rw [if_neg h11] at h
  by_cases h12 : t = tResponse
  · rw [if_pos h12] at h; exact parseResponse_type (O := O) h
  rw [if_neg h12] at h
  by_cases h13 : t = tFinalization
  · rw [if_pos h13] at h; exact parseFinalization_type (O := O) h
  rw [if_neg h13] at h
  by_cases h14 : t = tRelay
  · rw [if_pos h14] at h; exact parseRelay_type (O := O) h
  rw [if_neg h14] at h
  by_cases h15 : t = tConsumers
  · rw [if_pos h15] at h; exact parseConsumers_type (O := O) h
  rw [if_neg h15] at h
  simp at h; subst h; simp

theorem parse_type (O : Oracle) (v t : UInt8) (rest : Bytes) (m : Msg) (h : parse O v (t :: rest) = .ok m) :
    m.type = t ∧ m.version = v := by
  unfold parse at h
  exact dispatch_type O _ m t _ h

/-! ## points that must be valid curve points are checked at parse time -/

theorem points_checked_announcement (O : Oracle) (v : UInt8) (rest : Bytes) (m : Msg)
    (h : parse O v (tAnnouncement :: rest) = .ok m) : O.checkKey m.commitment = true := by
  unfold parse at h
  simp only [dispatch_ann] at h
  exact parseAnnouncement_ok h

theorem points_checked_commitment (O : Oracle) (v : UInt8) (rest : Bytes) (m : Msg)
    (h : parse O v (tCommitment :: rest) = .ok m) : O.checkKey m.commitment = true := by
  unfold parse at h
  simp only [dispatch_commitment] at h
  exact parseCommitment_ok h

theorem points_checked_full_challenge (O : Oracle) (v : UInt8) (rest : Bytes) (m : Msg)
    (h : parse O v (tFullChallenge :: rest) = .ok m) :
    O.checkKey m.commitment = true ∧ O.checkKey m.challenge = true := by
  unfold parse at h
  simp only [dispatch_full] at h
  exact parseFullChallenge_ok h

theorem points_checked_pre_commitments (O : Oracle) (v : UInt8) (rest : Bytes) (m : Msg)
    (h : parse O v (tPreCommitments :: rest) = .ok m) : ∀ k ∈ m.commitments, O.checkKey k = true := by
  unfold parse at h
  simp only [dispatch_pre] at h
  exact parsePreCommitments_ok h

/-- all of the above keyed by the type of the *parsed* message -/
theorem points_checked (O : Oracle) (v : UInt8) (b : Bytes) (m : Msg) (h : parse O v b = .ok m) :
    (m.type = tAnnouncement ∨ m.type = tCommitment → O.checkKey m.commitment = true) ∧
    (m.type = tFullChallenge → O.checkKey m.commitment = true ∧ O.checkKey m.challenge = true) ∧
    (m.type = tPreCommitments → ∀ k ∈ m.commitments, O.checkKey k = true) := by
  cases b with
  | nil => simp [parse] at h
  | cons t rest =>
    have ht := (parse_type O v t rest m h).1
    refine ⟨?_, ?_, ?_⟩
    · intro hm
      rcases hm with hm | hm
      · rw [ht] at hm; subst hm; exact points_checked_announcement O v rest m h
      · rw [ht] at hm; subst hm; exact points_checked_commitment O v rest m h
    · intro hm; rw [ht] at hm; subst hm; exact points_checked_full_challenge O v rest m h
    · intro hm; rw [ht] at hm; subst hm; exact points_checked_pre_commitments O v rest m h

/-- a commitment point that fails `CheckKey` makes the announcement an error, whatever follows -/
theorem announcement_invalid_point_rejected (O : Oracle) (v : UInt8) (sig R snap : Bytes)
    (hsig : sig.length = 64) (hR : R.length = 32) (hk : O.checkKey R = false) :
    parse O v (buildAnnouncement sig R snap) = .reject := by
  cases hp : parse O v (buildAnnouncement sig R snap) with
  | reject => rfl
  | panic => exact absurd hp (parse_total O v _)
  | ok m =>
    exfalso
    have hc := points_checked_announcement O v _ m hp
    unfold buildAnnouncement parse at hp
    simp only [dispatch_ann] at hp
    unfold parseAnnouncement at hp
    have h1 : sig.length ≤ 64 := by omega
    simp (disch := omega) only [sliceFrom_cons, sliceFrom_zero, sliceFrom_append, slice_cons, slice_prefix, hsig, hR,
      Nat.sub_self, copyN_append, hk] at hp
    split at hp <;> simp at hp


/-! ## the defect repaired by the `fix:` commit in p2p/handle.go

Before the fix the transaction slice of `parseTransactionsPayload` was `data[4 : 4+size]` with
`size` a `uint32`: the sum wraps.  For a declared size within 4 of 2^32 that is really present
(the length test `len(data[4:]) < int(size)` passes) the upper bound wraps below 4 and the slice
expression panics.  The model above follows the repaired code (`4+int(size)`); the witness is
replayed on the real code by the harness op `huge` (property mode, key `C08:parse-panics-4gib`). -/

theorem uint32_slice_bound_counterexample (data : Bytes) (size : Nat)
    (h1 : 2 ^ 32 - 4 ≤ size) (h2 : size < 2 ^ 32) :
    slice data 4 ((4 + size) % 2 ^ 32) = none := by
  unfold slice
  rw [if_neg]
  omega

/-! ## totality for everything the transport can deliver, and non-vacuity -/

/-- the statement in the form the transport gives it: any message of at most
    `TransportMessageMaxSize` bytes (in fact any byte string at all) -/
theorem parse_total_transport (O : Oracle) (v : UInt8) (b : Bytes)
    (_ : b.length ≤ Mixin.Facts.Gen.p2p_TransportMessageMaxSize) : parse O v b ≠ .panic :=
  parse_total O v b

def oracleAll : Oracle := { checkKey := fun _ => true, tx := fun _ => true, snap := fun _ => some ⟨[1], some (zeros 64, 1)⟩ }
def oracleNone : Oracle := { checkKey := fun _ => false, tx := fun _ => false, snap := fun _ => none }

-- the hypotheses of the round-trip theorems are satisfiable, and the model accepts real shapes
example : parse oracleAll 2 (buildSnapshotConfirm (zeros 32)) =
    .ok { type := tSnapshotConfirm, version := 2, snapshotHash := zeros 32 } :=
  build_parse_confirm oracleAll 2 (zeros 32) (by decide)
example : parse oracleAll 2 (buildAnnouncement (zeros 64) (zeros 32) (zeros 4)) =
    .ok { type := tAnnouncement, version := 2, commitment := zeros 32, snapshot := some ⟨[1], some (zeros 64, 1)⟩,
          signature := some (zeros 64) } :=
  build_parse_announcement oracleAll 2 _ _ _ _ (by decide) (by decide) rfl rfl (by decide)
example : parse oracleNone 2 (buildAnnouncement (zeros 64) (zeros 32) (zeros 4)) = .reject :=
  announcement_invalid_point_rejected oracleNone 2 _ _ _ (by decide) (by decide) rfl
example : ∃ b, buildCommitments (zeros 64) [zeros 32, zeros 32] = some b ∧
    parse oracleAll 7 b =
      .ok { type := tPreCommitments, version := 7, commitments := [zeros 32, zeros 32],
            signature := some (zeros 64), unsigned := beBytes 2 2 ++ [zeros 32, zeros 32].flatten } :=
  build_parse_pre_commitments oracleAll 7 _ _ (by decide) (by decide) (by decide) (by decide) (by intros; rfl)
example : ∃ b, buildTransactions [[1, 2, 3], []] tTransactionBundle = some b ∧
    parse oracleAll 2 b = .ok { type := tTransactionBundle, version := 2, transactions := [[1, 2, 3], []] } :=
  build_parse_bundle oracleAll 2 _ _ (Or.inl rfl) (by decide) (by intros; rfl) (by decide)
example : parse oracleAll 2 [] = .reject := rfl
example : parse oracleAll 2 [1] = .ok { type := 1, version := 2 } := by decide
example : parse oracleAll 2 [1, 0] = .reject := by decide
example : parse oracleAll 9 [77, 1, 2] = .ok { type := 77, version := 9 } := by decide


/-! ## the transport in front of the parser (`p2p/quic.go`): whole frames arrive as built, a frame
whose sender stops in the middle is an error and never a shorter message -/

section Wire
open Mixin.PeerWire
open Mixin.Batch (frame receive receiveA be32 ofBe32 maxSize frameVersion Recv)

theorem wire_max_fits_u32 : maxSize < 4294967296 := by decide

theorem wire_ofBe32_be32 (n : Nat) (h : n < 4294967296) :
    ofBe32 (n / 16777216 % 256).toUInt8 (n / 65536 % 256).toUInt8 (n / 256 % 256).toUInt8 (n % 256).toUInt8 = n := by
  unfold ofBe32
  have e : ∀ k, k < 256 → (Nat.toUInt8 k).toNat = k := fun k hk => by
    simp [Nat.toUInt8, UInt8.toNat_ofNat', Nat.mod_eq_of_lt hk]
  rw [e _ (Nat.mod_lt _ (by decide)), e _ (Nat.mod_lt _ (by decide)), e _ (Nat.mod_lt _ (by decide)),
    e _ (Nat.mod_lt _ (by decide))]
  omega

/-- the bytes `Send` writes for a message of 1..max bytes -/
def frameBytes (d : Bytes) : Bytes := frameVersion.toUInt8 :: 0 :: be32 d.length ++ d

theorem sendFrame_eq (d : Bytes) (h1 : 1 ≤ d.length) (h2 : d.length ≤ maxSize) :
    sendFrame d = some (frameBytes d) := by
  unfold sendFrame frame frameBytes
  rw [if_neg]
  simp only [Bool.or_eq_true, decide_eq_true_eq]; omega

theorem frameBytes_length (d : Bytes) : (frameBytes d).length = 6 + d.length := by
  simp [frameBytes, be32]; omega

theorem receive_short_header_gen (M ver limit : Nat) (s : Bytes) (hl : ¬ (limit = 0 || limit > M) = true)
    (h : s.length < 6) : receive M ver limit s = .shortHeader := by
  unfold receive receiveA
  rw [if_neg hl]
  match s, h with
  | [], _ => rfl
  | [_], _ => rfl
  | [_, _], _ => rfl
  | [_, _, _], _ => rfl
  | [_, _, _, _], _ => rfl
  | [_, _, _, _, _], _ => rfl
  | _ :: _ :: _ :: _ :: _ :: _ :: _, h => simp at h; omega

theorem receive_body_gen (M ver limit : Nat) (d body : Bytes)
    (hM : M < 4294967296) (hv : ver < 256) (h1 : 1 ≤ limit) (h2 : d.length ≤ limit) (h3 : limit ≤ M) :
    receive M ver limit (ver.toUInt8 :: 0 :: be32 d.length ++ body) =
      if body.length < d.length then .shortBody d.length else .ok (body.take d.length) (body.drop d.length) := by
  have hver : (Nat.toUInt8 ver).toNat = ver := by
    simp [Nat.toUInt8, UInt8.toNat_ofNat', Nat.mod_eq_of_lt hv]
  have hsz := wire_ofBe32_be32 d.length (by omega)
  unfold receive receiveA
  rw [if_neg (by simp; omega)]
  simp only [be32, List.cons_append, List.nil_append]
  rw [if_neg (by simp [hver])]
  simp only [hsz]
  rw [if_neg (by omega)]
  by_cases hb : body.length < d.length
  · rw [if_pos hb, if_pos hb]
  · rw [if_neg hb, if_neg hb]

theorem wire_limit_ok : ¬ (maxSize = 0 || maxSize > maxSize) = true := by decide
theorem wire_version_fits_byte : frameVersion < 256 := by decide
theorem wire_max_pos : 1 ≤ maxSize := by decide

theorem receive_short_header (s : Bytes) (h : s.length < 6) : receiveFrame s = .shortHeader :=
  receive_short_header_gen _ _ _ s wire_limit_ok h

theorem receive_body (d body : Bytes) (h2 : d.length ≤ maxSize) :
    receiveFrame (frameVersion.toUInt8 :: 0 :: be32 d.length ++ body) =
      if body.length < d.length then .shortBody d.length else .ok (body.take d.length) (body.drop d.length) :=
  receive_body_gen maxSize frameVersion maxSize d body wire_max_fits_u32 wire_version_fits_byte wire_max_pos h2
    (Nat.le_refl _)

/-- **A truncated frame is never a message.**  If the stream ends after any strict prefix of
    the frame of `d`, `Receive` returns an error: "short header" below 6 bytes, "short body"
    from there on.  In particular it never returns a shorter message. -/
theorem receive_truncated_rejected (d : Bytes) (h2 : d.length ≤ maxSize) (k : Nat)
    (hk : k < (frameBytes d).length) :
    receiveFrame ((frameBytes d).take k) = if k < 6 then .shortHeader else .shortBody d.length := by
  rw [frameBytes_length] at hk
  by_cases h6 : k < 6
  · rw [if_pos h6]
    exact receive_short_header _ (by simp [frameBytes_length]; omega)
  · rw [if_neg h6]
    obtain ⟨j, rfl⟩ : ∃ j, k = 6 + j := ⟨k - 6, by omega⟩
    have e : (frameBytes d).take (6 + j) = frameVersion.toUInt8 :: 0 :: be32 d.length ++ d.take j := by
      have : 6 + j = j + 1 + 1 + 1 + 1 + 1 + 1 := by omega
      rw [this]
      simp [frameBytes, be32, List.take]
    rw [e, receive_body d (d.take j) h2]
    rw [if_pos (by simp; omega)]

theorem receive_truncated_never_ok (d : Bytes) (h2 : d.length ≤ maxSize) (k : Nat)
    (hk : k < (frameBytes d).length) (d' rest : Bytes) :
    receiveFrame ((frameBytes d).take k) ≠ .ok d' rest := by
  rw [receive_truncated_rejected d h2 k hk]
  split <;> simp

/-- `receiveParse` through a `Receive` result (stated for an opaque stream, so that nothing ever
    evaluates the framing function against the 32 MiB constant) -/
theorem receiveParse_of_ok (O : Oracle) (s d r : Bytes) (h : receiveFrame s = .ok d r) :
    receiveParse O s = parse O (UInt8.ofNat frameVersion) d := by
  unfold receiveParse; rw [h]

theorem receiveParse_of_shortHeader (O : Oracle) (s : Bytes) (h : receiveFrame s = .shortHeader) :
    receiveParse O s = .reject := by
  unfold receiveParse; rw [h]

theorem receiveParse_of_shortBody (O : Oracle) (s : Bytes) (n : Nat) (h : receiveFrame s = .shortBody n) :
    receiveParse O s = .reject := by
  unfold receiveParse; rw [h]

/-- a truncated frame reaches the parser as an error, whatever the oracle -/
theorem truncated_never_parsed (O : Oracle) (d : Bytes) (h2 : d.length ≤ maxSize) (k : Nat)
    (hk : k < (frameBytes d).length) : receiveParse O ((frameBytes d).take k) = .reject := by
  have h := receive_truncated_rejected d h2 k hk
  by_cases h6 : k < 6
  · rw [if_pos h6] at h; exact receiveParse_of_shortHeader O _ h
  · rw [if_neg h6] at h; exact receiveParse_of_shortBody O _ _ h

/-- whole frames: `Receive` returns exactly the message and leaves the rest of the stream -/
theorem send_receive (d rest : Bytes) (h2 : d.length ≤ maxSize) :
    receiveFrame (frameBytes d ++ rest) = .ok d rest := by
  unfold frameBytes
  rw [List.append_assoc, receive_body d (d ++ rest) h2, if_neg (by simp)]
  simp

/-- **Send → Receive → parse.**  Whatever parses directly parses identically after a trip through
    the transport (with the version byte `Send` writes); with the `build_parse_*` theorems: every
    message the node builds and sends arrives as the same type and field values. -/
theorem send_receive_parse (O : Oracle) (d rest : Bytes) (m : Msg) (h1 : 1 ≤ d.length) (h2 : d.length ≤ maxSize)
    (hp : parse O (UInt8.ofNat frameVersion) d = .ok m) :
    ∃ f, sendFrame d = some f ∧ receiveParse O (f ++ rest) = .ok m := by
  refine ⟨frameBytes d, sendFrame_eq d h1 h2, ?_⟩
  exact (receiveParse_of_ok O _ d rest (send_receive d rest h2)).trans hp

/-- instance: a commitment with any list of wanted hashes, end to end -/
theorem send_receive_parse_commitment (O : Oracle) (sig h R : Bytes) (ws : List Bytes) (rest : Bytes)
    (hsig : sig.length = 64) (hh : h.length = 32) (hR : R.length = 32) (hk : O.checkKey R = true)
    (hw : ∀ w ∈ ws, w.length = 32) (hmax : (buildCommitment sig h R ws).length ≤ maxSize) :
    ∃ f, sendFrame (buildCommitment sig h R ws) = some f ∧
      receiveParse O (f ++ rest) =
        .ok { type := tCommitment, version := UInt8.ofNat frameVersion, snapshotHash := h, commitment := R,
              wantTxs := ws, signature := some sig, unsigned := h ++ (R ++ ws.flatten) } :=
  send_receive_parse O _ rest _ (by simp [buildCommitment]) hmax
    (build_parse_commitment O _ sig h R ws hsig hh hR hk hw)

/-- and cut anywhere — for instance between two wanted hashes, where the cut bytes alone would be
    a well-formed commitment with fewer hashes — it is an error -/
theorem truncated_commitment_rejected (O : Oracle) (sig h R : Bytes) (ws : List Bytes) (k : Nat)
    (hmax : (buildCommitment sig h R ws).length ≤ maxSize)
    (hk : k < (frameBytes (buildCommitment sig h R ws)).length) :
    receiveParse O ((frameBytes (buildCommitment sig h R ws)).take k) = .reject :=
  truncated_never_parsed O _ hmax k hk


-- non-vacuity: a 3-byte message cut after 8 of its 9 frame bytes is "short body", whole it arrives
example : receiveFrame ((frameBytes [5, 1, 2]).take 8) = .shortBody 3 :=
  receive_truncated_rejected [5, 1, 2] (by decide) 8 (by decide)
example : receiveFrame (frameBytes [5, 1, 2] ++ [9]) = .ok [5, 1, 2] [9] := send_receive [5, 1, 2] [9] (by decide)
example : frameBytes [5, 1, 2] = [2, 0, 0, 0, 0, 3, 5, 1, 2] := by decide

end Wire

end Mixin.C08
