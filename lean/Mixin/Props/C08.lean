import Mixin.Model.PeerMsg
import Mixin.Proofs.PeerMsg
/-!
# C08 — peer message parsing is total and faithful

Theorems about `Mixin.Model.PeerMsg`, the model of `p2p/handle.go`
(`parseNetworkMessage`, `parseTransactionsPayload`, `unmarshalSyncPoints`, `build*Message`).
The snapshot / transaction decoders and `CheckKey` are an arbitrary `Oracle`.
-/
namespace Mixin.C08
open Mixin.PeerMsg
open Mixin.Proto (Bytes)

theorem dispatch_total (O : Oracle) (msg : Msg) (t : UInt8) (data : Bytes) (hl : 1 ≤ data.length) :
    dispatch O msg t data ≠ .panic := by
  unfold dispatch
  by_cases h0 : t = tPreCommitments
  · rw [if_pos h0]; exact parsePreCommitments_total _ _ _
  rw [if_neg h0]
  by_cases h1 : t = tGraph
  · rw [if_pos h1]; exact parseGraph_total _ _
  rw [if_neg h1]
  by_cases h2 : t = tPing
  · rw [if_pos h2]; unfold parsePing; split <;> simp
  rw [if_neg h2]
  by_cases h3 : t = tAuthentication
  · rw [if_pos h3]; exact parseAuthentication_total _ _
  rw [if_neg h3]
  by_cases h4 : t = tSnapshotConfirm
  · rw [if_pos h4]; exact parseSnapshotConfirm_total _ _
  rw [if_neg h4]
  by_cases h5 : t = tTransaction
  · rw [if_pos h5]; exact parseTransaction_total _ _ _ hl
  rw [if_neg h5]
  by_cases h6 : t = tTransactionBundle ∨ t = tFinalizedTransactionBundle
  · rw [if_pos h6]; exact parseBundle_total _ _ _ hl
  rw [if_neg h6]
  by_cases h7 : t = tTransactionRequest
  · rw [if_pos h7]; exact parseTransactionRequest_total _ _
  rw [if_neg h7]
  by_cases h8 : t = tAnnouncement
  · rw [if_pos h8]; exact parseAnnouncement_total _ _ _ hl
  rw [if_neg h8]
  by_cases h9 : t = tCommitment
  · rw [if_pos h9]; exact parseCommitment_total _ _ _ hl
  rw [if_neg h9]
  by_cases h10 : t = tFullChallenge
  · rw [if_pos h10]; exact parseFullChallenge_total _ _ _ hl
  rw [if_neg h10]
  by_cases h11 : t = tTransactionChallenge
  · rw [if_pos h11]; exact parseTransactionChallenge_total _ _ _ hl
  rw [if_neg h11]
  by_cases h12 : t = tResponse
  · rw [if_pos h12]; exact parseResponse_total _ _ hl
  rw [if_neg h12]
  by_cases h13 : t = tFinalization
  · rw [if_pos h13]; exact parseFinalization_total _ _ _ hl
  rw [if_neg h13]
  by_cases h14 : t = tRelay
  · rw [if_pos h14]; unfold parseRelay; split <;> simp
  rw [if_neg h14]
  by_cases h15 : t = tConsumers
  · rw [if_pos h15]; exact parseConsumers_total _ _ hl
  rw [if_neg h15]
  simp

/-- **Totality.** For every oracle, version and byte string the parser returns a message or an
    error: no slice expression of `parseNetworkMessage` can go out of range. -/
theorem parse_total (O : Oracle) (v : UInt8) (b : Bytes) : parse O v b ≠ .panic := by
  unfold parse
  split
  · simp
  · exact dispatch_total _ _ _ _ (by simp)

/-- the sub-parsers are total as well (they are reachable on their own from relayed data) -/
theorem payload_total (O : Oracle) (b : Bytes) : parseTransactionsPayload O b ≠ .panic :=
  parseTransactionsPayload_total O b

theorem points_total (b : Bytes) : unmarshalSyncPoints b ≠ .panic :=
  unmarshalSyncPoints_total b

end Mixin.C08
