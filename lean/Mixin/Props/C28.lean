import Mixin.Model.Consensus
import Mixin.Model.ConsensusCodes
import Mixin.Facts.ExpectedC28
/-!
# C28 — consensus operations form a serialized single-transaction chain

Theorems about `Mixin.Model.Consensus` (model of `IsSnapshotBatchable`,
`validateKernelSnapshot`, `validateConsensusTransactionReferences`,
`WriteConsensusSnapshotWithHack`, `writeConsensusSnapshot`, `readLastConsensusSnapshot`).
The type codes are a parameter `c : Codes`; the only relation used is `CodesOK c` (no
consensus class is batchable), proved for the regenerated constants in
`Facts/ExpectedC28.lean` (`realCodes_ok`).
-/
namespace Mixin.C28
open Mixin.Consensus

/-- no consensus class is batchable -/
def CodesOK (c : Codes) : Prop := ∀ t, isConsensusType c t = true → isBatchable c t = false

theorem realCodes_ok : CodesOK realCodes := Mixin.Facts.ExpectedC28.realCodes_ok

/-- the validator let the snapshot through (possibly pending the per-type validator) -/
def Passed (k : KDecision) : Prop := k = .accept ∨ k = .typeCheck

/-! ## batch rule -/

theorem isBatchable_iff (c : Codes) (t : Nat) :
    isBatchable c t = true ↔
      t = c.tScript ∨ t = c.tDeposit ∨ t = c.tWithdrawalSubmit ∨ t = c.tWithdrawalClaim := by
  simp [isBatchable, or_assoc]

theorem kernel_multi (c : Codes) (e : Env) (st : Store) (s : Snap) (self : Bool) (round : Nat)
    (found : List Tx) (fin : Bool) (hlen : s.txs.length > 1) :
    validateKernel c e st s self round found fin =
      if found.all (fun t => isBatchable c t.ttype) then .accept else .reject := by
  unfold validateKernel; simp [hlen]

/-- **multi_tx_only_batchable.** A snapshot with more than one transaction that passes the
    kernel validator: every transaction body found so far is script / deposit / withdrawal
    submit / withdrawal claim. -/
theorem multi_tx_only_batchable (c : Codes) (e : Env) (st : Store) (s : Snap) (self : Bool)
    (round : Nat) (found : List Tx) (fin : Bool) (hlen : s.txs.length > 1)
    (hp : Passed (validateKernel c e st s self round found fin)) :
    ∀ t ∈ found, t.ttype = c.tScript ∨ t.ttype = c.tDeposit ∨
      t.ttype = c.tWithdrawalSubmit ∨ t.ttype = c.tWithdrawalClaim := by
  intro t ht
  rw [kernel_multi c e st s self round found fin hlen] at hp
  by_cases hall : found.all (fun t => isBatchable c t.ttype) = true
  · exact (isBatchable_iff c t.ttype).mp (List.all_eq_true.mp hall t ht)
  · simp [hall, Passed] at hp

/-- … and when all bodies have been found, every transaction of the snapshot is of a
    batchable class. -/
theorem multi_tx_only_batchable_all (c : Codes) (e : Env) (st : Store) (s : Snap) (self : Bool)
    (round : Nat) (found : List Tx) (fin : Bool) (hlen : s.txs.length > 1)
    (hfound : ∀ h ∈ s.txs, ∃ t ∈ found, t.hash = h)
    (hp : Passed (validateKernel c e st s self round found fin)) :
    ∀ h ∈ s.txs, ∃ t ∈ found, t.hash = h ∧ isBatchable c t.ttype = true := by
  intro h hh
  obtain ⟨t, ht, hth⟩ := hfound h hh
  exact ⟨t, ht, hth, (isBatchable_iff c t.ttype).mpr
    (multi_tx_only_batchable c e st s self round found fin hlen hp t ht)⟩

example : Passed (validateKernel realCodes ⟨false, 0, none⟩ ⟨[], []⟩ ⟨1, 5, [10, 11]⟩ true 1
    [⟨10, 0, false, some 0, false, []⟩, ⟨11, 2, false, some 0, false, []⟩] false) :=
  Or.inl (by decide)

/-- **consensus_alone.** If a snapshot passes while a mint, membership or custodian
    transaction is among its found bodies, the snapshot holds exactly one transaction. -/
theorem consensus_alone (c : Codes) (hc : CodesOK c) (e : Env) (st : Store) (s : Snap)
    (self : Bool) (round : Nat) (found : List Tx) (fin : Bool) (t : Tx) (ht : t ∈ found)
    (hcons : isConsensusType c t.ttype = true)
    (hp : Passed (validateKernel c e st s self round found fin)) :
    s.txs.length ≤ 1 := by
  by_cases hlen : s.txs.length > 1
  · have hb := multi_tx_only_batchable c e st s self round found fin hlen hp t ht
    have := hc t.ttype hcons
    rw [(isBatchable_iff c t.ttype).mpr hb] at this
    exact absurd this (by simp)
  · omega

example : validateKernel realCodes ⟨false, 0, none⟩ ⟨[], []⟩ ⟨1, 5, [10, 11]⟩ true 1
    [⟨10, 0, false, some 0, false, []⟩, ⟨11, 6, false, some 163, false, [7]⟩] false = .reject := by decide

/-! ## reference rule -/

/-- what `validateConsensusTransactionReferences` established when it returned nil for a
    consensus-class transaction -/
def LinksPrev (st : Store) (hack : Option Snap) (sts : Nat) (tx : Tx) : Prop :=
  ∃ last b ltx, readLastWithHack st hack = some (last, b) ∧ last.txs = [ltx] ∧
    (ltx = tx.hash ∨ (tx.refs.head? = some ltx ∧ last.ts < sts))

/-- **consensus_links_prev.** An accepted consensus operation references (as its first
    reference) the sole transaction of the last recorded consensus snapshot and its snapshot
    timestamp is strictly later — or it is that last transaction again (a replay). -/
theorem consensus_links_prev (c : Codes) (st : Store) (hack : Option Snap) (sts : Nat) (tx : Tx)
    (hcons : isConsensusType c tx.ttype = true)
    (hacc : validateRefs c st hack sts tx = .accept) : LinksPrev st hack sts tx := by
  unfold validateRefs at hacc
  simp only [hcons, Bool.not_true, Bool.false_eq_true, if_false] at hacc
  split at hacc
  · exact absurd hacc (by simp)
  · cases hr : readLastWithHack st hack with
    | none => simp [hr] at hacc
    | some p =>
      obtain ⟨last, b⟩ := p
      simp only [hr] at hacc
      split at hacc
      · exact absurd hacc (by simp)
      · next hl =>
        cases htx : last.txs with
        | nil => simp [htx] at hacc
        | cons ltx rest =>
          have hrest : rest = [] := by
            cases rest with
            | nil => rfl
            | cons a r => simp [htx] at hl
          subst hrest
          simp only [htx, List.head?_cons] at hacc
          refine ⟨last, b, ltx, hr, htx, ?_⟩
          by_cases h1 : ltx = tx.hash
          · exact Or.inl h1
          · right
            simp only [beq_iff_eq, h1, if_false] at hacc
            split at hacc
            · exact absurd hacc (by simp)
            · next h2 =>
              split at hacc
              · exact absurd hacc (by simp)
              · next h3 =>
                constructor
                · simpa using h2
                · omega

/-- the kernel validator applies the reference rule to every single-transaction snapshot that
    is not inside the hard-coded mainnet pre-fork exemption -/
theorem kernel_single_refs (c : Codes) (e : Env) (st : Store) (s : Snap) (self : Bool)
    (round : Nat) (tx : Tx) (fin : Bool) (hs : s.txs = [tx.hash])
    (hfork : ¬ (fin = true ∧ e.mainnet = true ∧ s.ts < e.forkAt))
    (hp : Passed (validateKernel c e st s self round [tx] fin)) :
    validateRefs c st e.hack s.ts tx = .accept := by
  unfold validateKernel at hp
  have hf : (fin && e.mainnet && decide (s.ts < e.forkAt)) = false := by
    cases fin <;> cases hm : e.mainnet <;> simp_all
  simp only [hs, List.length_singleton, gt_iff_lt, Nat.lt_irrefl, if_false, hf,
    Bool.false_eq_true, List.head?_cons, List.find?_cons, beq_self_eq_true] at hp
  split at hp
  · simp [Passed] at hp
  · cases hr : validateRefs c st e.hack s.ts tx with
    | accept => rfl
    | reject => simp [hr, Passed] at hp
    | panic => simp [hr, Passed] at hp

/-- **consensus_links_prev at the kernel validator.** -/
theorem kernel_consensus_links_prev (c : Codes) (e : Env) (st : Store) (s : Snap) (self : Bool)
    (round : Nat) (tx : Tx) (fin : Bool) (hs : s.txs = [tx.hash])
    (hfork : ¬ (fin = true ∧ e.mainnet = true ∧ s.ts < e.forkAt))
    (hcons : isConsensusType c tx.ttype = true)
    (hp : Passed (validateKernel c e st s self round [tx] fin)) :
    LinksPrev st e.hack s.ts tx :=
  consensus_links_prev c st e.hack s.ts tx hcons
    (kernel_single_refs c e st s self round tx fin hs hfork hp)

/-! ## the writer's assertions -/

theorem findBody_addBody_of_some (st : Store) (s : Snap) (h : Nat) (b : Snap)
    (hb : findBody st.bodies h = some b) : findBody (addBody st s).bodies h = some b := by
  unfold addBody
  split
  · exact hb
  · simp only [findBody] at hb ⊢
    rw [List.find?_append, hb]; rfl

theorem addBody_recs (st : Store) (s : Snap) : (addBody st s).recs = st.recs := by
  unfold addBody; split <;> rfl

theorem readLast_addBody (st : Store) (s l : Snap) (h : readLast st = .some l) :
    readLast (addBody st s) = .some l := by
  unfold readLast at h ⊢
  rw [addBody_recs]
  cases hr : (st.recs.filter seekable).getLast? with
  | none => simp [hr] at h
  | some r =>
    simp only [hr] at h ⊢
    cases hb : findBody st.bodies r.snap with
    | none => simp [hb] at h
    | some b =>
      rw [findBody_addBody_of_some st s r.snap b hb]
      simpa [hb] using h

theorem readLastWithHack_none_some (st : Store) (l : Snap) (b : Bool)
    (h : readLastWithHack st none = some (l, b)) : readLast st = .some l ∧ b = false := by
  unfold readLastWithHack at h
  cases hr : readLast st with
  | none => simp [hr] at h
  | panic => simp [hr] at h
  | some s => simp [hr] at h; exact ⟨by rw [h.1], h.2⟩

/-- transaction shape that `writeConsensusSnapshot` asserts: a sole mint input, or the
    consensus output first. Guaranteed by transaction validation (one output for node and
    custodian transactions, one input for a mint), which is outside this model; the harness
    runs the writer on the excluded shapes and reports the panic as an observation. -/
def ShapeOK (c : Codes) (tx : Tx) : Prop := shapeOk c tx = true

theorem shapeOK_iff (c : Codes) (tx : Tx) :
    ShapeOK c tx ↔ tx.mintSole = true ∨ ∃ o, tx.out0 = some o ∧ isConsensusOutput c o = true := by
  unfold ShapeOK shapeOk
  cases tx.out0 <;> simp

/-- **write_asserts_unreachable.** On every network without the mainnet fallback: when the
    reference rule accepted a well-shaped consensus operation carried alone by `snap`, then
    `WriteConsensusSnapshotWithHack` (after the snapshot body was written) does not panic. -/
theorem write_asserts_unreachable (c : Codes) (e : Env) (st : Store) (snap : Snap) (tx : Tx)
    (hh : e.hack = none) (hcons : isConsensusType c tx.ttype = true) (hshape : ShapeOK c tx)
    (hs : snap.txs = [tx.hash])
    (hacc : validateRefs c st none snap.ts tx = .accept) :
    writeWithHack c e (addBody st snap) snap tx ≠ .panic := by
  obtain ⟨last, b, ltx, hr, htx, hlink⟩ := consensus_links_prev c st none snap.ts tx hcons hacc
  obtain ⟨hrl, hb⟩ := readLastWithHack_none_some st last b hr
  subst hb
  have hrl' := readLast_addBody st snap last hrl
  have hshape' : shapeOk c tx = true := hshape
  unfold writeWithHack
  simp only [hcons, Bool.not_true, Bool.false_eq_true, if_false, hh]
  have : readLastWithHack (addBody st snap) none = some (last, false) := by
    unfold readLastWithHack; rw [hrl']
  rw [this]
  unfold writeConsensus
  simp only [hs, List.length_singleton, ne_eq, not_true_eq_false, if_false, List.head?_cons,
    hshape', Bool.not_true, Bool.false_eq_true, hrl', htx]
  by_cases hg : tx.isGenesis = true
  · simp [hg]
  · simp only [hg, Bool.false_eq_true, if_false]
    rcases hlink with h1 | ⟨h2, h3⟩
    · simp [h1]
    · by_cases h1 : ltx = tx.hash
      · simp [h1]
      · have : ¬ last.ts ≥ snap.ts := by omega
        simp [h1, h2, this]

example : writeWithHack realCodes ⟨false, 0, none⟩
    (addBody ⟨[⟨100, 5, [7]⟩], [⟨5, 100, none⟩]⟩ ⟨101, 9, [8]⟩) ⟨101, 9, [8]⟩
    ⟨8, 6, false, some 163, false, [7]⟩ =
    .ok ⟨[⟨100, 5, [7]⟩, ⟨101, 9, [8]⟩], [⟨5, 100, some 8⟩, ⟨9, 101, none⟩]⟩ := by decide

/-- outside the shape hypothesis the assertion does fire (node output second) -/
example : writeWithHack realCodes ⟨false, 0, none⟩
    (addBody ⟨[⟨100, 5, [7]⟩], [⟨5, 100, none⟩]⟩ ⟨101, 9, [8]⟩) ⟨101, 9, [8]⟩
    ⟨8, 6, false, some 0, false, [7]⟩ = .panic := by decide

end Mixin.C28
