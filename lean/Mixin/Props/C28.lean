import Mixin.Model.ConsensusChain
import Mixin.Model.ConsensusChainCodes
import Mixin.Facts.ExpectedC28
import Mixin.Model.ConsensusEffectsCodes
/-!
# C28 — consensus operations form a serialized single-transaction chain

Theorems about `Mixin.Model.ConsensusChain` (model of `IsSnapshotBatchable`,
`validateKernelSnapshot`, `validateConsensusTransactionReferences`,
`WriteConsensusSnapshotWithHack`, `writeConsensusSnapshot`, `readLastConsensusSnapshot`).
The type codes are a parameter `c : Codes`; the only relation used is `CodesOK c` (no
consensus class is batchable), proved for the regenerated constants in
`Facts/ExpectedC28.lean` (`realCodes_ok`).
-/
namespace Mixin.C28
open Mixin.ConsensusChain

/-- no consensus class is batchable -/
def CodesOK (c : Codes) : Prop := ∀ t, isConsensusType c t = true → isBatchable c t = false

theorem realCodes_ok : CodesOK realCodes := Mixin.Facts.ExpectedC28.realCodes_ok

/-- the validator let the snapshot through (possibly pending the per-type validator) -/
def Passed (k : KDecision) : Prop := k = .accept ∨ k = .typeCheck

/-! ## batch rule -/

theorem isBatchable_iff (c : Codes) (t : Nat) :
    isBatchable c t = true ↔
      t = c.tScript ∨ t = c.tDeposit ∨ t = c.tWithdrawalSubmit ∨ t = c.tWithdrawalClaim := by
  simp [isBatchable, or_assoc]

theorem kernel_multi (c : Codes) (e : Env) (st : Store) (s : Snap) (self : Bool) (round : Nat)
    (found : List Tx) (fin : Bool) (hlen : s.txs.length > 1) :
    validateKernel c e st s self round found fin =
      if found.all (fun t => isBatchable c t.ttype) then .accept else .reject := by
  unfold validateKernel; simp [hlen]

/-- **multi_tx_only_batchable.** A snapshot with more than one transaction that passes the
    kernel validator: every transaction body found so far is script / deposit / withdrawal
    submit / withdrawal claim. -/
theorem multi_tx_only_batchable (c : Codes) (e : Env) (st : Store) (s : Snap) (self : Bool)
    (round : Nat) (found : List Tx) (fin : Bool) (hlen : s.txs.length > 1)
    (hp : Passed (validateKernel c e st s self round found fin)) :
    ∀ t ∈ found, t.ttype = c.tScript ∨ t.ttype = c.tDeposit ∨
      t.ttype = c.tWithdrawalSubmit ∨ t.ttype = c.tWithdrawalClaim := by
  intro t ht
  rw [kernel_multi c e st s self round found fin hlen] at hp
  by_cases hall : found.all (fun t => isBatchable c t.ttype) = true
  · exact (isBatchable_iff c t.ttype).mp (List.all_eq_true.mp hall t ht)
  · simp [hall, Passed] at hp

/-- … and when all bodies have been found, every transaction of the snapshot is of a
    batchable class. -/
theorem multi_tx_only_batchable_all (c : Codes) (e : Env) (st : Store) (s : Snap) (self : Bool)
    (round : Nat) (found : List Tx) (fin : Bool) (hlen : s.txs.length > 1)
    (hfound : ∀ h ∈ s.txs, ∃ t ∈ found, t.hash = h)
    (hp : Passed (validateKernel c e st s self round found fin)) :
    ∀ h ∈ s.txs, ∃ t ∈ found, t.hash = h ∧ isBatchable c t.ttype = true := by
  intro h hh
  obtain ⟨t, ht, hth⟩ := hfound h hh
  exact ⟨t, ht, hth, (isBatchable_iff c t.ttype).mpr
    (multi_tx_only_batchable c e st s self round found fin hlen hp t ht)⟩

example : Passed (validateKernel realCodes ⟨false, 0, none⟩ ⟨[], []⟩ ⟨1, 5, [10, 11]⟩ true 1
    [⟨10, 0, false, some 0, false, []⟩, ⟨11, 2, false, some 0, false, []⟩] false) :=
  Or.inl (by decide)

/-- **consensus_alone.** If a snapshot passes while a mint, membership or custodian
    transaction is among its found bodies, the snapshot holds exactly one transaction. -/
theorem consensus_alone (c : Codes) (hc : CodesOK c) (e : Env) (st : Store) (s : Snap)
    (self : Bool) (round : Nat) (found : List Tx) (fin : Bool) (t : Tx) (ht : t ∈ found)
    (hcons : isConsensusType c t.ttype = true)
    (hp : Passed (validateKernel c e st s self round found fin)) :
    s.txs.length ≤ 1 := by
  by_cases hlen : s.txs.length > 1
  · have hb := multi_tx_only_batchable c e st s self round found fin hlen hp t ht
    have := hc t.ttype hcons
    rw [(isBatchable_iff c t.ttype).mpr hb] at this
    exact absurd this (by simp)
  · omega

example : validateKernel realCodes ⟨false, 0, none⟩ ⟨[], []⟩ ⟨1, 5, [10, 11]⟩ true 1
    [⟨10, 0, false, some 0, false, []⟩, ⟨11, 6, false, some 163, false, [7]⟩] false = .reject := by decide

/-! ## reference rule -/

/-- what `validateConsensusTransactionReferences` established when it returned nil for a
    consensus-class transaction -/
def LinksPrev (st : Store) (hack : Option Snap) (sts : Nat) (tx : Tx) : Prop :=
  ∃ last b ltx, readLastWithHack st hack = some (last, b) ∧ last.txs = [ltx] ∧
    (ltx = tx.hash ∨ (tx.refs.head? = some ltx ∧ last.ts < sts))

/-- **consensus_links_prev.** An accepted consensus operation references (as its first
    reference) the sole transaction of the last recorded consensus snapshot and its snapshot
    timestamp is strictly later — or it is that last transaction again (a replay). -/
theorem consensus_links_prev (c : Codes) (st : Store) (hack : Option Snap) (sts : Nat) (tx : Tx)
    (hcons : isConsensusType c tx.ttype = true)
    (hacc : validateRefs c st hack sts tx = .accept) : LinksPrev st hack sts tx := by
  unfold validateRefs at hacc
  simp only [hcons, Bool.not_true, Bool.false_eq_true, if_false] at hacc
  split at hacc
  · exact absurd hacc (by simp)
  · cases hr : readLastWithHack st hack with
    | none => simp [hr] at hacc
    | some p =>
      obtain ⟨last, b⟩ := p
      simp only [hr] at hacc
      split at hacc
      · exact absurd hacc (by simp)
      · next hl =>
        cases htx : last.txs with
        | nil => simp [htx] at hacc
        | cons ltx rest =>
          have hrest : rest = [] := by
            cases rest with
            | nil => rfl
            | cons a r => simp [htx] at hl
          subst hrest
          simp only [htx, List.head?_cons] at hacc
          refine ⟨last, b, ltx, hr, htx, ?_⟩
          by_cases h1 : ltx = tx.hash
          · exact Or.inl h1
          · right
            simp only [beq_iff_eq, h1, if_false] at hacc
            split at hacc
            · exact absurd hacc (by simp)
            · next h2 =>
              split at hacc
              · exact absurd hacc (by simp)
              · next h3 =>
                constructor
                · simpa using h2
                · omega

/-- the kernel validator applies the reference rule to every single-transaction snapshot that
    is not inside the hard-coded mainnet pre-fork exemption -/
theorem kernel_single_refs (c : Codes) (e : Env) (st : Store) (s : Snap) (self : Bool)
    (round : Nat) (tx : Tx) (fin : Bool) (hs : s.txs = [tx.hash])
    (hfork : ¬ (fin = true ∧ e.mainnet = true ∧ s.ts < e.forkAt))
    (hp : Passed (validateKernel c e st s self round [tx] fin)) :
    validateRefs c st e.hack s.ts tx = .accept := by
  unfold validateKernel at hp
  have hf : (fin && e.mainnet && decide (s.ts < e.forkAt)) = false := by
    cases fin <;> cases hm : e.mainnet <;> simp_all
  simp only [hs, List.length_singleton, gt_iff_lt, Nat.lt_irrefl, if_false, hf,
    Bool.false_eq_true, List.head?_cons, List.find?_cons, beq_self_eq_true] at hp
  split at hp
  · simp [Passed] at hp
  · cases hr : validateRefs c st e.hack s.ts tx with
    | accept => rfl
    | reject => simp [hr, Passed] at hp
    | panic => simp [hr, Passed] at hp

/-- **consensus_links_prev at the kernel validator.** -/
theorem kernel_consensus_links_prev (c : Codes) (e : Env) (st : Store) (s : Snap) (self : Bool)
    (round : Nat) (tx : Tx) (fin : Bool) (hs : s.txs = [tx.hash])
    (hfork : ¬ (fin = true ∧ e.mainnet = true ∧ s.ts < e.forkAt))
    (hcons : isConsensusType c tx.ttype = true)
    (hp : Passed (validateKernel c e st s self round [tx] fin)) :
    LinksPrev st e.hack s.ts tx :=
  consensus_links_prev c st e.hack s.ts tx hcons
    (kernel_single_refs c e st s self round tx fin hs hfork hp)

/-! ## the writer's assertions -/

theorem findBody_addBody_of_some (st : Store) (s : Snap) (h : Nat) (b : Snap)
    (hb : findBody st.bodies h = some b) : findBody (addBody st s).bodies h = some b := by
  unfold addBody
  split
  · exact hb
  · simp only [findBody] at hb ⊢
    rw [List.find?_append, hb]; rfl

theorem addBody_recs (st : Store) (s : Snap) : (addBody st s).recs = st.recs := by
  unfold addBody; split <;> rfl

theorem readLast_addBody (st : Store) (s l : Snap) (h : readLast st = .some l) :
    readLast (addBody st s) = .some l := by
  unfold readLast at h ⊢
  rw [addBody_recs]
  cases hr : (st.recs.filter seekable).getLast? with
  | none => simp [hr] at h
  | some r =>
    simp only [hr] at h ⊢
    cases hb : findBody st.bodies r.snap with
    | none => simp [hb] at h
    | some b =>
      rw [findBody_addBody_of_some st s r.snap b hb]
      simpa [hb] using h

theorem readLastWithHack_none_some (st : Store) (l : Snap) (b : Bool)
    (h : readLastWithHack st none = some (l, b)) : readLast st = .some l ∧ b = false := by
  unfold readLastWithHack at h
  cases hr : readLast st with
  | none => simp [hr] at h
  | panic => simp [hr] at h
  | some s => simp [hr] at h; exact ⟨by rw [h.1], h.2⟩

/-- transaction shape that `writeConsensusSnapshot` asserts: a sole mint input, or the
    consensus output first. Guaranteed by transaction validation (one output for node and
    custodian transactions, one input for a mint), which is outside this model; the harness
    runs the writer on the excluded shapes and reports the panic as an observation. -/
def ShapeOK (c : Codes) (tx : Tx) : Prop := shapeOk c tx = true

theorem shapeOK_iff (c : Codes) (tx : Tx) :
    ShapeOK c tx ↔ tx.mintSole = true ∨ ∃ o, tx.out0 = some o ∧ isConsensusOutput c o = true := by
  unfold ShapeOK shapeOk
  cases tx.out0 <;> simp

/-- **write_asserts_unreachable.** On every network without the mainnet fallback: when the
    reference rule accepted a well-shaped consensus operation carried alone by `snap`, then
    `WriteConsensusSnapshotWithHack` (after the snapshot body was written) does not panic. -/
theorem write_asserts_unreachable (c : Codes) (e : Env) (st : Store) (snap : Snap) (tx : Tx)
    (hh : e.hack = none) (hcons : isConsensusType c tx.ttype = true) (hshape : ShapeOK c tx)
    (hs : snap.txs = [tx.hash])
    (hacc : validateRefs c st none snap.ts tx = .accept) :
    writeWithHack c e (addBody st snap) snap tx ≠ .panic := by
  obtain ⟨last, b, ltx, hr, htx, hlink⟩ := consensus_links_prev c st none snap.ts tx hcons hacc
  obtain ⟨hrl, hb⟩ := readLastWithHack_none_some st last b hr
  subst hb
  have hrl' := readLast_addBody st snap last hrl
  have hshape' : shapeOk c tx = true := hshape
  unfold writeWithHack
  simp only [hcons, Bool.not_true, Bool.false_eq_true, if_false, hh]
  have : readLastWithHack (addBody st snap) none = some (last, false) := by
    unfold readLastWithHack; rw [hrl']
  rw [this]
  unfold writeConsensus
  simp only [hs, List.length_singleton, ne_eq, not_true_eq_false, if_false, List.head?_cons,
    hshape', Bool.not_true, Bool.false_eq_true, hrl', htx]
  by_cases hg : tx.isGenesis = true
  · simp [hg]
  · simp only [hg, Bool.false_eq_true, if_false]
    rcases hlink with h1 | ⟨h2, h3⟩
    · simp [h1]
    · by_cases h1 : ltx = tx.hash
      · simp [h1]
      · have : ¬ last.ts ≥ snap.ts := by omega
        simp [h1, h2, this]

example : writeWithHack realCodes ⟨false, 0, none⟩
    (addBody ⟨[⟨100, 5, [7]⟩], [⟨5, 100, none⟩]⟩ ⟨101, 9, [8]⟩) ⟨101, 9, [8]⟩
    ⟨8, 6, false, some 163, false, [7]⟩ =
    .ok ⟨[⟨100, 5, [7]⟩, ⟨101, 9, [8]⟩], [⟨5, 100, some 8⟩, ⟨9, 101, none⟩]⟩ := by decide

/-- outside the shape hypothesis the assertion does fire (node output second) -/
example : writeWithHack realCodes ⟨false, 0, none⟩
    (addBody ⟨[⟨100, 5, [7]⟩], [⟨5, 100, none⟩]⟩ ⟨101, 9, [8]⟩) ⟨101, 9, [8]⟩
    ⟨8, 6, false, some 0, false, [7]⟩ = .panic := by decide

/-! ## the recorded history is one chain -/

/-- the `CONSENSUSSNAPSHOT` records of a list of consensus snapshots: every record holds the
    transaction of the next snapshot, the last record is open -/
def mkRecs : List Snap → List CRec
  | [] => []
  | [s] => [⟨s.ts, s.hash, none⟩]
  | s1 :: s2 :: rest => ⟨s1.ts, s1.hash, s2.txs.head?⟩ :: mkRecs (s2 :: rest)

/-- the store records exactly the chain `es`: one list, timestamps strictly increasing, every
    snapshot readable and carrying one transaction -/
structure Chain (st : Store) (es : List Snap) : Prop where
  ne : es ≠ []
  recs : st.recs = mkRecs es
  sorted : es.Pairwise (fun a b => a.ts < b.ts)
  body : ∀ s ∈ es, findBody st.bodies s.hash = some s ∧ (∃ x, s.txs = [x]) ∧ s.ts < maxU64

theorem getLast?_cons_of_ne_nil {α : Type} (x : α) (m : List α) (h : m ≠ []) :
    (x :: m).getLast? = m.getLast? := by
  cases m with
  | nil => exact absurd rfl h
  | cons y ys => simp [List.getLast?_cons_cons]

theorem mkRecs_cons_ne_nil (b : Snap) (rest : List Snap) : mkRecs (b :: rest) ≠ [] := by
  cases rest <;> simp [mkRecs]

theorem mkRecs_getLast (es : List Snap) (l : Snap) (h : es.getLast? = some l) :
    (mkRecs es).getLast? = some ⟨l.ts, l.hash, none⟩ := by
  induction es with
  | nil => simp at h
  | cons a rest ih =>
    cases rest with
    | nil => simp at h; subst h; simp [mkRecs]
    | cons b rest' =>
      have h' : (b :: rest').getLast? = some l := by simpa [List.getLast?_cons_cons] using h
      simp only [mkRecs]
      rw [getLast?_cons_of_ne_nil _ _ (mkRecs_cons_ne_nil b rest')]
      exact ih h'

theorem mkRecs_ts (es : List Snap) : ∀ r ∈ mkRecs es, ∃ s ∈ es, r.ts = s.ts := by
  induction es with
  | nil => simp [mkRecs]
  | cons a rest ih =>
    cases rest with
    | nil => intro r hr; simp [mkRecs] at hr; exact ⟨a, by simp, by rw [hr]⟩
    | cons b rest' =>
      intro r hr
      simp only [mkRecs, List.mem_cons] at hr
      rcases hr with h | h
      · exact ⟨a, by simp, by rw [h]⟩
      · obtain ⟨s, hs, hts⟩ := ih r (by simpa [List.mem_cons] using h)
        exact ⟨s, List.mem_cons_of_mem _ hs, hts⟩

theorem le_last_of_sorted (es : List Snap) (l : Snap) (hs : es.Pairwise (fun a b => a.ts < b.ts))
    (hl : es.getLast? = some l) : ∀ x ∈ es, x.ts ≤ l.ts := by
  obtain ⟨ys, rfl⟩ := List.getLast?_eq_some_iff.mp hl
  intro x hx
  rw [List.pairwise_append] at hs
  rcases List.mem_append.mp hx with h | h
  · exact Nat.le_of_lt (hs.2.2 x h l (by simp))
  · simp only [List.mem_singleton] at h; rw [h]; exact Nat.le_refl _

/-- reading the last consensus snapshot of a chain store gives the last element -/
theorem readLast_chain (st : Store) (es : List Snap) (hc : Chain st es) :
    ∃ l, es.getLast? = some l ∧ readLast st = .some l := by
  cases hl : es.getLast? with
  | none => exact absurd (List.getLast?_eq_none_iff.mp hl) hc.ne
  | some l =>
    refine ⟨l, rfl, ?_⟩
    have hlm : l ∈ es := List.mem_of_getLast? hl
    have hf : st.recs.filter seekable = st.recs := by
      rw [List.filter_eq_self, hc.recs]
      intro r hr
      obtain ⟨s, hs, hts⟩ := mkRecs_ts es r hr
      have := (hc.body s hs).2.2
      simp only [seekable, Bool.or_eq_true, decide_eq_true_eq]; left; omega
    unfold readLast
    rw [hf, hc.recs, mkRecs_getLast es l hl]
    simp [(hc.body l hlm).1]

theorem put_cons_later (x r : CRec) (xs : List CRec) (h : x.ts < r.ts) :
    put (x :: xs) r = x :: put xs r := by
  have h1 : sameKey x r = false := by
    simp only [sameKey, Bool.and_eq_false_imp, beq_iff_eq]; intro h; omega
  have h2 : keyLt r x = false := by
    simp only [keyLt, Bool.or_eq_false_iff, decide_eq_false_iff_not, Bool.and_eq_false_imp, beq_iff_eq]
    exact ⟨by omega, by intro h; omega⟩
  simp [put, h1, h2]

/-- closing the last record and opening the new one extends the chain by one element -/
theorem put_close_open (es : List Snap) (l snap : Snap) (x : Nat)
    (hs : es.Pairwise (fun a b => a.ts < b.ts)) (hl : es.getLast? = some l)
    (hlt : l.ts < snap.ts) (hx : snap.txs.head? = some x) :
    put (put (mkRecs es) ⟨l.ts, l.hash, some x⟩) ⟨snap.ts, snap.hash, none⟩ = mkRecs (es ++ [snap]) := by
  induction es with
  | nil => simp at hl
  | cons a rest ih =>
    cases rest with
    | nil =>
      simp at hl; subst hl
      have h1 : put [(⟨a.ts, a.hash, none⟩ : CRec)] ⟨a.ts, a.hash, some x⟩ = [⟨a.ts, a.hash, some x⟩] := by
        simp [put, sameKey]
      simp only [mkRecs, h1, List.cons_append, List.nil_append]
      rw [put_cons_later _ _ _ (by simpa using hlt)]
      simp [put, hx]
    | cons b rest' =>
      have hl' : (b :: rest').getLast? = some l := by simpa [List.getLast?_cons_cons] using hl
      rw [List.pairwise_cons] at hs
      have hal : a.ts < l.ts := hs.1 l (List.mem_of_getLast? hl')
      simp only [mkRecs, List.cons_append]
      rw [put_cons_later _ _ _ (by simpa using hal), put_cons_later _ _ _ (by simp; omega)]
      rw [ih hs.2 hl']
      simp [mkRecs]

theorem chain_addBody (st : Store) (es : List Snap) (s : Snap) (hc : Chain st es) :
    Chain (addBody st s) es :=
  ⟨hc.ne, by rw [addBody_recs]; exact hc.recs, hc.sorted,
    fun x hx => ⟨findBody_addBody_of_some st s x.hash x (hc.body x hx).1, (hc.body x hx).2⟩⟩

theorem findBody_addBody_self (st : Store) (s : Snap)
    (h : findBody st.bodies s.hash = none ∨ findBody st.bodies s.hash = some s) :
    findBody (addBody st s).bodies s.hash = some s := by
  rcases h with h | h
  · unfold addBody; simp only [h, Option.isSome_none, Bool.false_eq_true, if_false]
    simp only [findBody] at h ⊢
    rw [List.find?_append, h]; simp
  · exact findBody_addBody_of_some st s s.hash s h

/-- the writer on a store whose last consensus snapshot is `l` with sole transaction `ltx` -/
theorem writeWithHack_linked (c : Codes) (e : Env) (st1 : Store) (snap l : Snap) (tx : Tx) (ltx : Nat)
    (hh : e.hack = none) (hcons : isConsensusType c tx.ttype = true) (hshape : ShapeOK c tx)
    (hg : tx.isGenesis = false) (hs : snap.txs = [tx.hash])
    (hrl : readLast st1 = .some l) (htx : l.txs = [ltx]) :
    writeWithHack c e st1 snap tx =
      if ltx = tx.hash then .ok st1
      else if tx.refs.head? ≠ some ltx then .panic
      else if l.ts ≥ snap.ts then .panic
      else .ok { st1 with recs := put (put st1.recs ⟨l.ts, l.hash, some tx.hash⟩) ⟨snap.ts, snap.hash, none⟩ } := by
  have hshape' : shapeOk c tx = true := hshape
  unfold writeWithHack
  simp only [hcons, Bool.not_true, Bool.false_eq_true, if_false, hh]
  have : readLastWithHack st1 none = some (l, false) := by
    unfold readLastWithHack; rw [hrl]
  rw [this]
  unfold writeConsensus
  simp only [hs, List.length_singleton, ne_eq, if_false, List.head?_cons,
    hshape', Bool.not_true, Bool.false_eq_true, hrl, htx, hg]
  by_cases h1 : ltx = tx.hash
  · simp [h1]
  · by_cases h2 : tx.refs.head? = some ltx
    · by_cases h3 : l.ts ≥ snap.ts
      · simp [h1, h2, h3]
      · simp [h1, h2, h3]
    · simp [h1, h2]

/-- side conditions of one finalized operation: no mainnet fallback and not inside the
    pre-fork exemption (both hard-coded history), the snapshot lists exactly the transaction,
    its hash identifies it among the stored snapshots, its timestamp is below `2^64 - 1`, and
    a consensus-class transaction has the shape transaction validation guarantees -/
structure OpOK (c : Codes) (e : Env) (st : Store) (s : Snap) (tx : Tx) : Prop where
  noHack : e.hack = none
  noFork : ¬ (e.mainnet = true ∧ s.ts < e.forkAt)
  sole : s.txs = [tx.hash]
  tsOk : s.ts < maxU64
  hashOk : findBody st.bodies s.hash = none ∨ findBody st.bodies s.hash = some s
  shape : isConsensusType c tx.ttype = true → ShapeOK c tx ∧ tx.isGenesis = false

/-- **chain step.** A finalized operation on a chain store leaves the chain as it was
    (rejected, non-consensus class, or replay of the last operation) or extends it by exactly
    this snapshot; in the second case the operation is of a consensus class and its
    timestamp is strictly later than the previous last. -/
theorem chain_step (c : Codes) (e : Env) (st st' : Store) (es : List Snap) (s : Snap) (self : Bool)
    (round : Nat) (tx : Tx) (typeOk : Bool) (hc : Chain st es) (ho : OpOK c e st s tx)
    (h : finalizeOp c e st s self round tx typeOk = some st') :
    Chain st' es ∨ (Chain st' (es ++ [s]) ∧ isConsensusType c tx.ttype = true) := by
  unfold finalizeOp at h
  cases hk : validateKernel c e st s self round [tx] true with
  | panic => simp [hk] at h
  | reject => simp [hk] at h; subst h; exact Or.inl hc
  | accept | typeCheck =>
    all_goals
      simp only [hk] at h
      split at h
      · simp only [Option.some.injEq] at h; subst h; exact Or.inl hc
      · have hc1 := chain_addBody st es s hc
        by_cases hcons : isConsensusType c tx.ttype = true
        · simp only [hcons, if_true] at h
          have hp : Passed (validateKernel c e st s self round [tx] true) := by
            rw [hk]; simp [Passed]
          have hfork : ¬ (true = true ∧ e.mainnet = true ∧ s.ts < e.forkAt) := fun hf => ho.noFork hf.2
          have hacc := kernel_single_refs c e st s self round tx true ho.sole hfork hp
          rw [ho.noHack] at hacc
          obtain ⟨last, b, ltx, hr, htx, hlink⟩ := consensus_links_prev c st none s.ts tx hcons hacc
          obtain ⟨hrl, _⟩ := readLastWithHack_none_some st last b hr
          obtain ⟨l, hl, hrl2⟩ := readLast_chain st es hc
          rw [hrl2] at hrl; simp only [ReadLast.some.injEq] at hrl; subst hrl
          have hrl' := readLast_addBody st s l hrl2
          rw [writeWithHack_linked c e (addBody st s) s l tx ltx ho.noHack hcons (ho.shape hcons).1
            (ho.shape hcons).2 ho.sole hrl' htx] at h
          by_cases h1 : ltx = tx.hash
          · simp only [h1, if_true, Option.some.injEq] at h; subst h; exact Or.inl hc1
          · rcases hlink with hl1 | ⟨h2, h3⟩
            · exact absurd hl1 h1
            · have h3' : ¬ l.ts ≥ s.ts := by omega
              simp only [h1, if_false, ne_eq, h2, not_true_eq_false, h3', Option.some.injEq] at h
              subst h
              right
              refine ⟨⟨by simp, ?_, ?_, ?_⟩, hcons⟩
              · simp only
                rw [hc1.recs]
                exact put_close_open es l s tx.hash hc.sorted hl h3 (by simp [ho.sole])
              · rw [List.pairwise_append]
                refine ⟨hc.sorted, by simp, ?_⟩
                intro a ha b hb
                simp only [List.mem_singleton] at hb; subst hb
                have := le_last_of_sorted es l hc.sorted hl a ha
                omega
              · intro x hx
                rcases List.mem_append.mp hx with hx | hx
                · exact hc1.body x hx
                · simp only [List.mem_singleton] at hx; subst hx
                  exact ⟨findBody_addBody_self st x ho.hashOk, ⟨tx.hash, ho.sole⟩, ho.tsOk⟩
        · simp only [hcons, Bool.false_eq_true, if_false, Option.some.injEq] at h
          subst h; exact Or.inl hc1

/-- one finalized single-transaction snapshot -/
structure FOp where
  s : Snap
  self : Bool
  round : Nat
  tx : Tx
  typeOk : Bool

/-- a sequence of finalizations on one node; `none` = a panic -/
def runOps (c : Codes) (e : Env) : Store → List FOp → Option Store
  | st, [] => some st
  | st, o :: rest =>
    match finalizeOp c e st o.s o.self o.round o.tx o.typeOk with
    | none => none
    | some st' => runOps c e st' rest

def OpsOK (c : Codes) (e : Env) : Store → List FOp → Prop
  | _, [] => True
  | st, o :: rest =>
    OpOK c e st o.s o.tx ∧
      ∀ st', finalizeOp c e st o.s o.self o.round o.tx o.typeOk = some st' → OpsOK c e st' rest

/-- **consensus_history_is_chain.** From a chain store (the genesis record is one), after every
    sequence of finalized operations — accepted and rejected, consensus and other classes,
    replays — the `CONSENSUSSNAPSHOT` records are again one chain that extends the old one:
    each record names the transaction of the next, timestamps strictly increase, the last
    record is open. -/
theorem consensus_history_is_chain (c : Codes) (e : Env) (st st' : Store) (es : List Snap)
    (ops : List FOp) (hc : Chain st es) (hok : OpsOK c e st ops)
    (h : runOps c e st ops = some st') : ∃ ext, Chain st' (es ++ ext) := by
  induction ops generalizing st es with
  | nil => simp only [runOps, Option.some.injEq] at h; subst h; exact ⟨[], by simpa using hc⟩
  | cons o rest ih =>
    simp only [runOps] at h
    obtain ⟨ho, hrest⟩ := hok
    cases hf : finalizeOp c e st o.s o.self o.round o.tx o.typeOk with
    | none => simp [hf] at h
    | some st1 =>
      simp only [hf] at h
      rcases chain_step c e st st1 es o.s o.self o.round o.tx o.typeOk hc ho hf with h1 | ⟨h1, _⟩
      · exact ih st1 es h1 (hrest st1 hf) h
      · obtain ⟨ext, hx⟩ := ih st1 (es ++ [o.s]) h1 (hrest st1 hf) h
        exact ⟨o.s :: ext, by simpa using hx⟩

/-- the genesis load: one readable single-transaction snapshot, one open record -/
theorem chain_genesis (g : Snap) (x : Nat) (hx : g.txs = [x]) (ht : g.ts < maxU64) :
    Chain ⟨[g], [⟨g.ts, g.hash, none⟩]⟩ [g] :=
  ⟨by simp, rfl, by simp, by
    intro s hs; simp only [List.mem_singleton] at hs; subst hs
    exact ⟨by simp [findBody], ⟨x, hx⟩, ht⟩⟩

/-- non-vacuity: two linked operations, a wrong reference, an equal timestamp and a replay -/
example :
    (runOps realCodes ⟨false, 0, none⟩ ⟨[⟨100, 5, [7]⟩], [⟨5, 100, none⟩]⟩
      [⟨⟨101, 9, [8]⟩, true, 1, ⟨8, 20, false, some 178, false, [7]⟩, true⟩,      -- slash: always rejected
       ⟨⟨102, 9, [9]⟩, true, 1, ⟨9, 6, false, some 163, false, [7]⟩, true⟩,       -- pledge, linked
       ⟨⟨103, 9, [10]⟩, true, 1, ⟨10, 1, true, some 0, false, [9]⟩, true⟩,        -- equal timestamp
       ⟨⟨104, 12, [11]⟩, true, 1, ⟨11, 1, true, some 0, false, [7]⟩, true⟩,       -- stale reference
       ⟨⟨105, 12, [12]⟩, true, 1, ⟨12, 1, true, some 0, false, [9]⟩, true⟩,       -- mint, linked
       ⟨⟨106, 15, [12]⟩, true, 1, ⟨12, 1, true, some 0, false, [9]⟩, true⟩]       -- replay
      ).map (·.recs) = some [⟨5, 100, some 9⟩, ⟨9, 102, some 12⟩, ⟨12, 105, none⟩] := by decide

/-! ## lifting to `validateSnapshotTransaction`

Every proposed and every finalized snapshot enters through `validateSnapshotTransaction`, which
finds each body either in the persistent store (written by an earlier proposal — possibly one
that never finalized, validated against an older consensus head) or in the cache. The theorems
below hold for every placement of the bodies and every answer of `tx.Validate` and of the
lock: they rely on exactly one thing in the persisted branch — that the kernel snapshot rule
is run again, against the *current* store, on the set of bodies found so far. Nothing is
assumed about what was checked when the body was persisted. -/

/-- the kernel snapshot rule let this set of found bodies through -/
def KPass (c : Codes) (e : Env) (st : Store) (s : Snap) (self : Bool) (round : Nat) (fin : Bool)
    (found : List Tx) : Prop :=
  Passed (validateKernel c e st s self round found fin)

theorem kernelStep_accept (c : Codes) (e : Env) (st : Store) (s : Snap) (self : Bool) (round : Nat)
    (found : List Tx) (fin typeOk : Bool)
    (h : kernelStep c e st s self round found fin typeOk = .accept) :
    KPass c e st s self round fin found := by
  unfold kernelStep at h
  unfold KPass Passed
  cases hk : validateKernel c e st s self round found fin <;> simp [hk] at h ⊢

/-- the bodies that are found, in loop order -/
def foundOf (items : List Item) : List Tx :=
  (items.filter (fun it => it.loc != .absent)).map (·.tx)

/-- loop invariant: an accepting run returns exactly the found bodies, and the kernel snapshot
    rule passed on the complete found set (it is re-run after every addition) -/
theorem vstLoop_accept (c : Codes) (e : Env) (st : Store) (s : Snap) (self : Bool) (round : Nat)
    (fin typeOk : Bool) (items : List Item) (found : List Tx) (missing : Nat) (newly : List Nat)
    (h : (vstLoop c e st s self round fin typeOk items found missing newly).decision = .accept)
    (h0 : found = [] ∨ KPass c e st s self round fin found) :
    (vstLoop c e st s self round fin typeOk items found missing newly).found = found ++ foundOf items ∧
      ((vstLoop c e st s self round fin typeOk items found missing newly).found = [] ∨
        KPass c e st s self round fin (vstLoop c e st s self round fin typeOk items found missing newly).found) := by
  induction items generalizing found missing newly with
  | nil => simp [vstLoop, foundOf]; exact h0
  | cons it rest ih =>
    unfold vstLoop at h ⊢
    cases hl : it.loc with
    | absent =>
      simp only [hl] at h ⊢
      have := ih found (missing + 1) newly h h0
      simpa [foundOf, hl] using this
    | persisted f =>
      simp only [hl] at h ⊢
      split at h
      · simp at h
      · next hc =>
        simp only [hc, if_false] 
        cases hk : kernelStep c e st s self round (found ++ [it.tx]) fin typeOk with
        | accept =>
          simp only [hk] at h ⊢
          have := ih (found ++ [it.tx]) missing newly h (Or.inr (kernelStep_accept _ _ _ _ _ _ _ _ _ hk))
          simpa [foundOf, hl, List.filter_cons] using this
        | reject => simp [hk] at h
        | panic => simp [hk] at h
    | cached =>
      simp only [hl] at h ⊢
      split at h
      · simp at h
      · next hv =>
        split at h
        · simp at h
        · next hvv =>
          simp only [hv, hvv, if_false]
          cases hk : kernelStep c e st s self round (found ++ [it.tx]) fin typeOk with
          | accept =>
            simp only [hk] at h ⊢
            split at h
            · simp at h
            · next hlk =>
              simp only [hlk, if_false]
              have := ih (found ++ [it.tx]) missing (newly ++ [it.tx.hash]) h
                (Or.inr (kernelStep_accept _ _ _ _ _ _ _ _ _ hk))
              simpa [foundOf, hl, List.filter_cons] using this
          | reject => simp [hk] at h
          | panic => simp [hk] at h

theorem vst_accept (c : Codes) (e : Env) (st : Store) (s : Snap) (self : Bool) (round : Nat)
    (fin typeOk : Bool) (items : List Item)
    (h : (validateSnapshotTx c e st s self round fin typeOk items).decision = .accept) :
    (validateSnapshotTx c e st s self round fin typeOk items).found = foundOf items ∧
      (foundOf items = [] ∨ KPass c e st s self round fin (foundOf items)) := by
  have := vstLoop_accept c e st s self round fin typeOk items [] 0 [] h (Or.inl rfl)
  unfold validateSnapshotTx
  have h1 : (vstLoop c e st s self round fin typeOk items [] 0 []).found = foundOf items := by
    simpa using this.1
  refine ⟨h1, ?_⟩
  have h2 := this.2
  rw [h1] at h2
  exact h2

/-- **multi_tx_only_batchable, at `validateSnapshotTransaction`.** A snapshot with more than one
    transaction that is accepted: every body found — persisted earlier or cached — is script /
    deposit / withdrawal submit / withdrawal claim. -/
theorem vst_multi_tx_only_batchable (c : Codes) (e : Env) (st : Store) (s : Snap) (self : Bool)
    (round : Nat) (fin typeOk : Bool) (items : List Item) (hlen : s.txs.length > 1)
    (h : (validateSnapshotTx c e st s self round fin typeOk items).decision = .accept) :
    ∀ it ∈ items, it.loc ≠ .absent →
      it.tx.ttype = c.tScript ∨ it.tx.ttype = c.tDeposit ∨
        it.tx.ttype = c.tWithdrawalSubmit ∨ it.tx.ttype = c.tWithdrawalClaim := by
  intro it hit hloc
  have hm : it.tx ∈ foundOf items := by
    unfold foundOf
    exact List.mem_map.mpr ⟨it, List.mem_filter.mpr ⟨hit, by simpa using hloc⟩, rfl⟩
  rcases (vst_accept c e st s self round fin typeOk items h).2 with h0 | hp
  · rw [h0] at hm; simp at hm
  · exact multi_tx_only_batchable c e st s self round (foundOf items) fin hlen hp it.tx hm

/-- **consensus_alone, at `validateSnapshotTransaction`.** An accepted snapshot in which a mint,
    membership or custodian body was found — wherever it was found — holds one transaction. -/
theorem vst_consensus_alone (c : Codes) (hc : CodesOK c) (e : Env) (st : Store) (s : Snap)
    (self : Bool) (round : Nat) (fin typeOk : Bool) (items : List Item) (it : Item)
    (hit : it ∈ items) (hloc : it.loc ≠ .absent) (hcons : isConsensusType c it.tx.ttype = true)
    (h : (validateSnapshotTx c e st s self round fin typeOk items).decision = .accept) :
    s.txs.length ≤ 1 := by
  have hm : it.tx ∈ foundOf items := by
    unfold foundOf
    exact List.mem_map.mpr ⟨it, List.mem_filter.mpr ⟨hit, by simpa using hloc⟩, rfl⟩
  rcases (vst_accept c e st s self round fin typeOk items h).2 with h0 | hp
  · rw [h0] at hm; simp at hm
  · exact consensus_alone c hc e st s self round (foundOf items) fin it.tx hm hcons hp

/-- **consensus_links_prev, at `validateSnapshotTransaction`.** A consensus operation accepted
    alone — its body persisted by an earlier proposal or taken from the cache — has the
    *currently* recorded last consensus transaction as first reference and a strictly later
    snapshot timestamp (or is that last transaction again), outside the hard-coded mainnet
    pre-fork exemption. -/
theorem vst_consensus_links_prev (c : Codes) (e : Env) (st : Store) (s : Snap) (self : Bool)
    (round : Nat) (fin typeOk : Bool) (it : Item) (hloc : it.loc ≠ .absent)
    (hs : s.txs = [it.tx.hash])
    (hfork : ¬ (fin = true ∧ e.mainnet = true ∧ s.ts < e.forkAt))
    (hcons : isConsensusType c it.tx.ttype = true)
    (h : (validateSnapshotTx c e st s self round fin typeOk [it]).decision = .accept) :
    LinksPrev st e.hack s.ts it.tx := by
  have hf : foundOf [it] = [it.tx] := by
    unfold foundOf
    have : (it.loc != .absent) = true := by simpa using hloc
    simp [List.filter_cons, this]
  rcases (vst_accept c e st s self round fin typeOk [it] h).2 with h0 | hp
  · rw [hf] at h0; simp at h0
  · rw [hf] at hp
    exact kernel_consensus_links_prev c e st s self round it.tx fin hs hfork hcons hp

/-- non-vacuity: a persisted deposit and a cached script are accepted together -/
example : (validateSnapshotTx realCodes ⟨false, 0, none⟩ ⟨[⟨100, 5, [7]⟩], [⟨5, 100, none⟩]⟩
    ⟨200, 9, [10, 11]⟩ true 1 false true
    [⟨⟨10, 2, false, some 0, false, []⟩, .persisted none, false, false, false⟩,
     ⟨⟨11, 0, false, some 0, false, []⟩, .cached, true, false, true⟩]).decision = .accept := by decide

/-- the persisted, never finalized operation `8` (reference `7`) is rejected once the head has
    moved to `9` … -/
example : (validateSnapshotTx realCodes ⟨false, 0, none⟩
    ⟨[⟨100, 5, [7]⟩, ⟨101, 9, [9]⟩], [⟨5, 100, some 9⟩, ⟨9, 101, none⟩]⟩
    ⟨200, 12, [8]⟩ true 1 false true
    [⟨⟨8, 1, true, some 0, false, [7]⟩, .persisted none, false, false, false⟩]).decision = .reject := by decide

/-- **persisted_branch_must_revalidate.** … and the kernel snapshot rule is what rejects it:
    the loop that trusts persisted bodies ("validated before it was persisted") accepts the
    same stale operation alone, and accepts it inside a batch. -/
theorem persisted_branch_must_revalidate :
    (vstLoopTrusting realCodes ⟨false, 0, none⟩
      ⟨[⟨100, 5, [7]⟩, ⟨101, 9, [9]⟩], [⟨5, 100, some 9⟩, ⟨9, 101, none⟩]⟩
      ⟨200, 12, [8]⟩ true 1 false true
      [⟨⟨8, 1, true, some 0, false, [7]⟩, .persisted none, false, false, false⟩] [] 0 []).decision = .accept ∧
    (vstLoopTrusting realCodes ⟨false, 0, none⟩
      ⟨[⟨100, 5, [7]⟩, ⟨101, 9, [9]⟩], [⟨5, 100, some 9⟩, ⟨9, 101, none⟩]⟩
      ⟨201, 12, [8, 10]⟩ true 1 false true
      [⟨⟨8, 1, true, some 0, false, [7]⟩, .persisted none, false, false, false⟩,
       ⟨⟨10, 2, false, some 0, false, []⟩, .persisted none, false, false, false⟩] [] 0 []).decision = .accept := by
  decide

/-! ## class of a transaction vs. effects of its outputs

C28 speaks about *operations*. The kernel rules above are decided on the class of a transaction
(`TransactionType()`: first special output), storage applies membership / custodian state per
output type (`writeUTXO`). The bridge is what `Validate` enforces about the outputs of the
batchable classes (`shapeValid`, tied to the real `Validate` by the `consensusfx` stream). -/

open Mixin.ConsensusEffects in
theorem classOfOuts_script (outs : List OType) (b : Bool) (h : classOfOuts outs b = .script) :
    ∀ o ∈ outs, o = .script := by
  induction outs generalizing b with
  | nil => simp
  | cons o rest ih =>
    intro x hx
    cases o <;> simp [classOfOuts] at h
    case script =>
      rcases List.mem_cons.mp hx with rfl | hx
      · rfl
      · exact ih b h x hx
    case other n =>
      rcases List.mem_cons.mp hx with rfl | hx
      · exfalso
        have : ∀ l, classOfOuts l false ≠ .script := by
          intro l; induction l with
          | nil => simp [classOfOuts]
          | cons a t iht => cases a <;> simp [classOfOuts, iht]
        exact this rest h
      · exact ih false h x hx

open Mixin.ConsensusEffects in
/-- **batchable_class_has_no_consensus_effects.** A transaction of a batchable class (script,
    deposit, withdrawal submit, withdrawal claim) whose outputs have the shape its validator
    enforces carries no output for which `writeUTXO` applies membership or custodian state. -/
theorem batchable_class_has_no_consensus_effects (ins : List InKind) (outs : List OType)
    (hb : (classOf ins outs).batchable = true)
    (hv : shapeValid (classOf ins outs) outs = true) :
    ∀ o ∈ outs, o.consensusEffect = false := by
  intro o ho
  cases hc : classOf ins outs with
  | script =>
    have hins : classOfIns ins = none := by
      unfold classOf at hc
      cases hi : classOfIns ins with
      | none => rfl
      | some c =>
        simp only [hi] at hc; subst hc
        exfalso
        have : ∀ l, classOfIns l ≠ some .script := by
          intro l; induction l with
          | nil => simp [classOfIns]
          | cons a t iht => cases a <;> simp [classOfIns, iht]
        exact this ins hi
    unfold classOf at hc
    simp only [hins] at hc
    rw [classOfOuts_script outs true hc o ho]; rfl
  | deposit =>
    simp only [hc, shapeValid, beq_iff_eq] at hv
    subst hv; simp at ho; subst ho; rfl
  | wSubmit =>
    simp only [hc, shapeValid, Bool.and_eq_true, beq_iff_eq, List.all_eq_true] at hv
    cases outs with
    | nil => simp at ho
    | cons a t =>
      simp only [List.head?_cons, Option.some.injEq, List.tail_cons] at hv
      rcases List.mem_cons.mp ho with rfl | h
      · rw [hv.1]; rfl
      · rw [hv.2 o h]; rfl
  | wClaim =>
    simp only [hc, shapeValid, Bool.and_eq_true, beq_iff_eq, List.all_eq_true] at hv
    cases outs with
    | nil => simp at ho
    | cons a t =>
      simp only [List.head?_cons, Option.some.injEq, List.tail_cons] at hv
      rcases List.mem_cons.mp ho with rfl | h
      · rw [hv.1]; rfl
      · rw [hv.2 o h]; rfl
  | mint | pledge | accept | remove | cancel | custUpdate | custSlash | unknown =>
    all_goals (rw [hc] at hb; simp [Class.batchable] at hb)

open Mixin.ConsensusEffects in
/-- the numeric batchable table agrees with the class table -/
theorem isBatchable_code (cls : Class) : isBatchable realCodes cls.code = cls.batchable := by
  cases cls <;> decide

open Mixin.ConsensusEffects in
/-- **multi_tx_snapshot_has_no_consensus_effects.** In a snapshot with more than one
    transaction that passes the kernel validator, a found transaction whose batchable class was
    accepted by `Validate` (hypothesis `hvalid`: what the class validators enforce) has no
    output that changes membership or custodian state. -/
theorem multi_tx_snapshot_has_no_consensus_effects (e : Env) (st : Store) (s : Snap) (self : Bool)
    (round : Nat) (found : List Tx) (fin : Bool) (hlen : s.txs.length > 1)
    (hp : Passed (validateKernel realCodes e st s self round found fin))
    (t : Tx) (ht : t ∈ found) (ins : List InKind) (outs : List OType)
    (hclass : t.ttype = (classOf ins outs).code)
    (hvalid : (classOf ins outs).batchable = true → shapeValid (classOf ins outs) outs = true) :
    ∀ o ∈ outs, o.consensusEffect = false := by
  have hb := multi_tx_only_batchable realCodes e st s self round found fin hlen hp t ht
  have hb' : isBatchable realCodes t.ttype = true := (isBatchable_iff realCodes t.ttype).mpr hb
  rw [hclass, isBatchable_code] at hb'
  exact batchable_class_has_no_consensus_effects ins outs hb' (hvalid hb')

open Mixin.ConsensusEffects in
/-- … the same at `validateSnapshotTransaction`, for every body it found. -/
theorem vst_multi_tx_has_no_consensus_effects (e : Env) (st : Store) (s : Snap) (self : Bool)
    (round : Nat) (fin typeOk : Bool) (items : List Item) (hlen : s.txs.length > 1)
    (h : (validateSnapshotTx realCodes e st s self round fin typeOk items).decision = .accept)
    (it : Item) (hit : it ∈ items) (hloc : it.loc ≠ .absent) (ins : List InKind) (outs : List OType)
    (hclass : it.tx.ttype = (classOf ins outs).code)
    (hvalid : (classOf ins outs).batchable = true → shapeValid (classOf ins outs) outs = true) :
    ∀ o ∈ outs, o.consensusEffect = false := by
  have hb := vst_multi_tx_only_batchable realCodes e st s self round fin typeOk items hlen h it hit hloc
  have hb' : isBatchable realCodes it.tx.ttype = true := (isBatchable_iff realCodes it.tx.ttype).mpr hb
  rw [hclass, isBatchable_code] at hb'
  exact batchable_class_has_no_consensus_effects ins outs hb' (hvalid hb')

open Mixin.ConsensusEffects in
/-- a consensus effect is only reachable through a consensus class (or a rejected shape):
    contrapositive reading used by the harness oracle -/
theorem consensus_effect_needs_consensus_class (ins : List InKind) (outs : List OType) (o : OType)
    (ho : o ∈ outs) (he : o.consensusEffect = true)
    (hv : (classOf ins outs).batchable = true → shapeValid (classOf ins outs) outs = true) :
    (classOf ins outs).batchable = false := by
  cases hb : (classOf ins outs).batchable with
  | false => rfl
  | true =>
    have := batchable_class_has_no_consensus_effects ins outs hb (hv hb) o ho
    rw [he] at this; exact absurd this (by simp)

open Mixin.ConsensusEffects in
/-- non-vacuity: the canonical shapes are valid … -/
example : shapeValid (classOf [.utxo] [.wSubmit, .script, .script]) [.wSubmit, .script, .script] = true ∧
    shapeValid (classOf [.deposit] [.script]) [.script] = true ∧
    shapeValid (classOf [.utxo] [.wClaim, .script]) [.wClaim, .script] = true := by decide

open Mixin.ConsensusEffects in
/-- **weak_submit_check_admits_effect.** … and the shape condition is load-bearing: a check of
    the second output only (instead of every further output) admits a withdrawal-submit class
    transaction — batchable, no consensus reference — that pledges a node. -/
theorem weak_submit_check_admits_effect :
    let outs : List OType := [.wSubmit, .script, .pledge]
    classOf [.utxo] outs = .wSubmit ∧ (classOf [.utxo] outs).batchable = true ∧
      (outs.head? == some .wSubmit && (outs.drop 1).head?.all (· == .script)) = true ∧
      shapeValid (classOf [.utxo] outs) outs = false ∧ outs.any (·.consensusEffect) = true := by
  decide

end Mixin.C28
