import Mixin.Model.Consensus
namespace Mixin.C28
end Mixin.C28
