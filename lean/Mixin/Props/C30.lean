import Mixin.Model.Auth
import Mixin.Facts.ExpectedC30
/-!
# C30 — peer authentication binds identity, recipient, freshness and role

Theorems about `Mixin.Model.Auth` (`kernel/node.go` `BuildAuthenticationMessage`, `AuthenticateAs`).
Signature validity and the key → peer id derivation are an arbitrary `Oracle`; unforgeability is
*not* a theorem — what is proved is which bytes the one signature check covers.
-/
namespace Mixin.C30
open Mixin.Auth
open Mixin.Proto (Bytes)

/-! ## acceptance -/

/-- **Accept iff.** A message authenticates at `recipient` exactly when it has 137 bytes, is
    fresh (or the caller disabled freshness with `timeout ≤ 0`), names `recipient`, does not
    come from `recipient` itself, and carries a signature by the key it names over its first
    73 bytes. -/
theorem auth_accept_iff (O : Oracle) (recipient msg : Bytes) (timeout now : Int) :
    (authenticateAs O recipient msg timeout now).isSome = true ↔
      msg.length = 137 ∧
      (timeout ≤ 0 ∨ skewExceeds now (tsOf msg) timeout = false) ∧
      recipientOf msg = recipient ∧
      O.idOf (keyOf msg) ≠ recipient ∧
      O.verify (keyOf msg) (prefixOf msg) (sigOf msg) = true := by
  unfold authenticateAs
  by_cases h1 : msg.length = 137
  · rw [if_neg (by simp [h1])]
    by_cases h2 : timeout > 0 ∧ skewExceeds now (tsOf msg) timeout = true
    · rw [if_pos h2]
      constructor
      · intro h; simp at h
      · intro ⟨_, h, _⟩
        rcases h with h | h
        · omega
        · rw [h] at h2; simp at h2
    · rw [if_neg h2]
      have hf : timeout ≤ 0 ∨ skewExceeds now (tsOf msg) timeout = false := by
        by_cases h : timeout ≤ 0
        · exact Or.inl h
        · right
          have : timeout > 0 := by omega
          cases hs : skewExceeds now (tsOf msg) timeout with
          | false => rfl
          | true => exact absurd ⟨this, hs⟩ h2
      by_cases h3 : recipientOf msg = recipient
      · rw [if_neg (by simp [h3])]
        by_cases h4 : O.idOf (keyOf msg) = recipient
        · rw [if_pos h4]
          constructor
          · intro h; simp at h
          · intro ⟨_, _, _, h, _⟩; exact absurd h4 h
        · rw [if_neg h4]
          by_cases h5 : O.verify (keyOf msg) (prefixOf msg) (sigOf msg) = true
          · rw [if_neg (by simp [h5])]
            constructor
            · intro _; exact ⟨h1, hf, h3, h4, h5⟩
            · intro _; simp
          · have h5' : O.verify (keyOf msg) (prefixOf msg) (sigOf msg) = false := by
              cases hv : O.verify (keyOf msg) (prefixOf msg) (sigOf msg) with
              | false => rfl
              | true => exact absurd hv h5
            rw [if_pos h5']
            constructor
            · intro h; simp at h
            · intro ⟨_, _, _, _, h⟩; exact absurd h h5
      · rw [if_pos h3]
        constructor
        · intro h; simp at h
        · intro ⟨_, _, h, _⟩; exact absurd h h3
  · rw [if_pos h1]
    constructor
    · intro h; simp at h
    · intro ⟨h, _⟩; exact absurd h h1

/-- **Token fields.** The authenticated identity is derived from the key in the message, the
    role from byte 72, the timestamp from bytes [0,8). -/
theorem auth_token_fields (O : Oracle) (recipient msg : Bytes) (timeout now : Int) (tok : Token)
    (h : authenticateAs O recipient msg timeout now = some tok) :
    tok.peerId = O.idOf (keyOf msg) ∧ tok.isRelayer = (flagOf msg == 1) ∧ tok.timestamp = tsOf msg ∧
    tok.data = msg := by
  unfold authenticateAs at h
  repeat' (split at h)
  all_goals (try (simp at h))
  subst h
  simp

/-- what an accepted message guarantees, in one statement -/
theorem auth_sound (O : Oracle) (recipient msg : Bytes) (timeout now : Int) (tok : Token)
    (h : authenticateAs O recipient msg timeout now = some tok) :
    msg.length = 137 ∧ recipientOf msg = recipient ∧ tok.peerId ≠ recipient ∧
    O.verify (keyOf msg) (prefixOf msg) (sigOf msg) = true ∧
    (timeout > 0 → skewExceeds now (tsOf msg) timeout = false) := by
  have hs : (authenticateAs O recipient msg timeout now).isSome = true := by simp [h]
  obtain ⟨h1, h2, h3, h4, h5⟩ := (auth_accept_iff O recipient msg timeout now).mp hs
  obtain ⟨f1, _, _, _⟩ := auth_token_fields O recipient msg timeout now tok h
  refine ⟨h1, h3, by rw [f1]; exact h4, h5, ?_⟩
  intro ht
  rcases h2 with h2 | h2
  · omega
  · exact h2

theorem wrong_recipient_rejected (O : Oracle) (recipient msg : Bytes) (timeout now : Int)
    (h : recipientOf msg ≠ recipient) : authenticateAs O recipient msg timeout now = none := by
  cases hc : authenticateAs O recipient msg timeout now with
  | none => rfl
  | some tok => exact absurd (auth_sound O recipient msg timeout now tok hc).2.1 h

theorem self_rejected (O : Oracle) (recipient msg : Bytes) (timeout now : Int)
    (h : O.idOf (keyOf msg) = recipient) : authenticateAs O recipient msg timeout now = none := by
  cases hc : authenticateAs O recipient msg timeout now with
  | none => rfl
  | some tok =>
    have hs : (authenticateAs O recipient msg timeout now).isSome = true := by simp [hc]
    exact absurd h ((auth_accept_iff O recipient msg timeout now).mp hs).2.2.2.1

theorem bad_signature_rejected (O : Oracle) (recipient msg : Bytes) (timeout now : Int)
    (h : O.verify (keyOf msg) (prefixOf msg) (sigOf msg) = false) :
    authenticateAs O recipient msg timeout now = none := by
  cases hc : authenticateAs O recipient msg timeout now with
  | none => rfl
  | some tok =>
    have := (auth_sound O recipient msg timeout now tok hc).2.2.2.1
    simp [h] at this

/-! ## freshness: the float64 comparison is the integer comparison below 2^53 -/

theorem roundF64_small (x : Int) (h : x.natAbs < 2 ^ 53) : roundF64 x = x := by
  unfold roundF64
  simp only [h, if_true]

/-- For a non-negative clock, timestamp and timeout below 2^53 (seconds: 285 million years) the
    Go expression `math.Abs(float64(now)-float64(ts)) > float64(timeout)` is `|now - ts| > timeout`. -/
theorem skew_int (now : Int) (ts : Nat) (timeout : Int) (hn0 : 0 ≤ now) (hn : now < 2 ^ 53) (hts : ts < 2 ^ 53)
    (ht : timeout.natAbs < 2 ^ 53) :
    skewExceeds now ts timeout = decide ((now - (ts : Int)).natAbs > timeout) := by
  unfold skewExceeds
  have h1 : roundF64 now = now := roundF64_small now (by omega)
  have h2 : roundF64 (ts : Int) = (ts : Int) := roundF64_small _ (by omega)
  have h3 : roundF64 (now - (ts : Int)) = now - (ts : Int) := roundF64_small _ (by omega)
  have h4 : roundF64 timeout = timeout := roundF64_small _ ht
  rw [h1, h2, h3, h4]

/-- a stale or premature message is rejected when freshness is on (integer range) -/
theorem stale_rejected (O : Oracle) (recipient msg : Bytes) (timeout now : Int)
    (hn0 : 0 ≤ now) (hn : now < 2 ^ 53) (hts : tsOf msg < 2 ^ 53) (ht0 : 0 < timeout) (ht : timeout < 2 ^ 53)
    (hstale : (now - (tsOf msg : Int)).natAbs > timeout) :
    authenticateAs O recipient msg timeout now = none := by
  cases hc : authenticateAs O recipient msg timeout now with
  | none => rfl
  | some tok =>
    have := (auth_sound O recipient msg timeout now tok hc).2.2.2.2 ht0
    rw [skew_int now _ timeout hn0 hn hts (by omega)] at this
    simp at this
    omega


/-! ## the one signature check covers the timestamp, the recipient, the key and the role byte -/

/-- every field `AuthenticateAs` reads, except the signature itself, is a function of the
    signed prefix `msg[0:73]` -/
theorem fields_of_signed_prefix (msg : Bytes) :
    tsOf msg = beNat ((prefixOf msg).take 8) ∧
    recipientOf msg = ((prefixOf msg).drop 8).take 32 ∧
    keyOf msg = ((prefixOf msg).drop 40).take 32 ∧
    flagOf msg = ((prefixOf msg).drop 72).headD 0 := by
  unfold tsOf recipientOf keyOf flagOf prefixOf
  refine ⟨?_, ?_, ?_, ?_⟩
  · rw [List.take_take]; simp
  · rw [List.drop_take, List.take_take]; simp
  · rw [List.drop_take, List.take_take]; simp
  · rw [List.drop_take]
    cases List.drop 72 msg <;> simp

/-- two messages with the same signed prefix have the same timestamp, recipient, key and role -/
theorem same_prefix_same_fields (m1 m2 : Bytes) (h : prefixOf m1 = prefixOf m2) :
    tsOf m1 = tsOf m2 ∧ recipientOf m1 = recipientOf m2 ∧ keyOf m1 = keyOf m2 ∧ flagOf m1 = flagOf m2 := by
  obtain ⟨a1, b1, c1, d1⟩ := fields_of_signed_prefix m1
  obtain ⟨a2, b2, c2, d2⟩ := fields_of_signed_prefix m2
  rw [a1, a2, b1, b2, c1, c2, d1, d2, h]
  exact ⟨rfl, rfl, rfl, rfl⟩

/-- **The relayer flag is signed.** If two accepted messages yield different roles (or different
    identities, or timestamps), then the signature oracle was asked about — and accepted — two
    *different* signed strings: a role cannot be changed while keeping the string that was signed.
    (That a signature for the other string cannot be produced without the key is the
    unforgeability assumption, outside the model.) -/
theorem flag_is_signed (O : Oracle) (r1 r2 m1 m2 : Bytes) (to1 to2 now1 now2 : Int) (t1 t2 : Token)
    (h1 : authenticateAs O r1 m1 to1 now1 = some t1) (h2 : authenticateAs O r2 m2 to2 now2 = some t2)
    (hd : t1.isRelayer ≠ t2.isRelayer ∨ t1.peerId ≠ t2.peerId ∨ t1.timestamp ≠ t2.timestamp ∨ r1 ≠ r2) :
    prefixOf m1 ≠ prefixOf m2 ∧
    O.verify (keyOf m1) (prefixOf m1) (sigOf m1) = true ∧ O.verify (keyOf m2) (prefixOf m2) (sigOf m2) = true := by
  obtain ⟨p1, f1, s1, _⟩ := auth_token_fields O r1 m1 to1 now1 t1 h1
  obtain ⟨p2, f2, s2, _⟩ := auth_token_fields O r2 m2 to2 now2 t2 h2
  obtain ⟨_, hr1, _, v1, _⟩ := auth_sound O r1 m1 to1 now1 t1 h1
  obtain ⟨_, hr2, _, v2, _⟩ := auth_sound O r2 m2 to2 now2 t2 h2
  refine ⟨?_, v1, v2⟩
  intro hp
  obtain ⟨e1, e2, e3, e4⟩ := same_prefix_same_fields m1 m2 hp
  rcases hd with hd | hd | hd | hd
  · apply hd; rw [f1, f2, e4]
  · apply hd; rw [p1, p2, e3]
  · apply hd; rw [s1, s2, e1]
  · apply hd; rw [← hr1, ← hr2, e2]

/-- changing any single byte among the first 73 changes the signed prefix -/
theorem mutation_changes_signed_prefix (m1 m2 : Bytes) (i : Nat) (hi : i < 73)
    (hne : m1[i]? ≠ m2[i]?) : prefixOf m1 ≠ prefixOf m2 := by
  intro h
  apply hne
  have e1 : (prefixOf m1)[i]? = m1[i]? := by unfold prefixOf; rw [List.getElem?_take]; simp [hi]
  have e2 : (prefixOf m2)[i]? = m2[i]? := by unfold prefixOf; rw [List.getElem?_take]; simp [hi]
  rw [← e1, ← e2, h]

/-! ## what the builder produces authenticates at its recipient -/

theorem length_beBytes (n v : Nat) : (beBytes n v).length = n := by
  induction n generalizing v with
  | zero => simp [beBytes]
  | succ n ih => simp [beBytes, ih]

theorem beNat_append_single (l : Bytes) (x : UInt8) : beNat (l ++ [x]) = beNat l * 256 + x.toNat := by
  simp [beNat, List.foldl_append]

theorem beNat_beBytes (n v : Nat) : beNat (beBytes n v) = v % 256 ^ n := by
  induction n generalizing v with
  | zero => simp [beBytes, beNat, Nat.mod_one]
  | succ n ih =>
    simp only [beBytes, beNat_append_single, ih]
    have h1 : (UInt8.ofNat (v % 256)).toNat = v % 256 := by
      simp [UInt8.toNat_ofNat']
    rw [h1, Nat.pow_succ, Nat.mul_comm (256 ^ n) 256, Nat.mod_mul]
    omega

theorem build_layout (now : Int) (r key sig : Bytes) (relayer : Bool)
    (hr : r.length = 32) (hk : key.length = 32) (hs : sig.length = 64) :
    let msg := buildAuth now r key relayer sig
    msg.length = 137 ∧ tsOf msg = (now % 2 ^ 64).toNat % 2 ^ 64 ∧ recipientOf msg = r ∧ keyOf msg = key ∧
    flagOf msg = (if relayer then 1 else 0) ∧ prefixOf msg = signedPrefix now r key relayer ∧ sigOf msg = sig := by
  have hb : (beBytes 8 (now % 2 ^ 64).toNat).length = 8 := length_beBytes _ _
  have hp : (signedPrefix now r key relayer).length = 73 := by
    simp [signedPrefix, length_beBytes, hr, hk]
  refine ⟨?_, ?_, ?_, ?_, ?_, ?_, ?_⟩
  · simp [buildAuth, hp, hs]
  · unfold tsOf buildAuth signedPrefix
    rw [List.append_assoc, List.take_left' hb, beNat_beBytes]
  · unfold recipientOf buildAuth signedPrefix
    rw [List.append_assoc, List.drop_left' hb, List.append_assoc, List.take_left' hr]
  · unfold keyOf buildAuth signedPrefix
    have e : (beBytes 8 (now % 2 ^ 64).toNat ++ (r ++ (key ++ [if relayer then 1 else 0])) ++ sig) =
        (beBytes 8 (now % 2 ^ 64).toNat ++ r) ++ (key ++ ([if relayer then 1 else 0] ++ sig)) := by simp
    rw [e, List.drop_left' (by simp [length_beBytes, hr]), List.take_left' hk]
  · unfold flagOf buildAuth signedPrefix
    have e : (beBytes 8 (now % 2 ^ 64).toNat ++ (r ++ (key ++ [if relayer then 1 else 0])) ++ sig) =
        (beBytes 8 (now % 2 ^ 64).toNat ++ r ++ key) ++ ((if relayer then 1 else 0) :: sig) := by simp
    rw [e, List.drop_left' (by simp [length_beBytes, hr, hk])]
    simp
  · unfold prefixOf buildAuth
    rw [List.take_left' hp]
  · unfold sigOf buildAuth
    rw [List.drop_left' hp, List.take_of_length_le (by omega)]

/-- **Build then authenticate.** A message built at clock `now` for `recipient`, signed by `key`
    (the oracle accepts `sig` over the 73-byte prefix), authenticates at `recipient` at clock
    `now'` whenever `|now' - now| ≤ timeout` (or freshness is off), with the sender's identity,
    role and timestamp — provided the sender is not the recipient. -/
theorem build_then_auth (O : Oracle) (now now' timeout : Int) (r key sig : Bytes) (relayer : Bool)
    (hr : r.length = 32) (hk : key.length = 32) (hs : sig.length = 64)
    (hv : O.verify key (signedPrefix now r key relayer) sig = true)
    (hself : O.idOf key ≠ r)
    (hn0 : 0 ≤ now) (hn : now < 2 ^ 53) (hn0' : 0 ≤ now') (hn' : now' < 2 ^ 53) (hto : timeout < 2 ^ 53)
    (hfresh : timeout ≤ 0 ∨ (now' - now).natAbs ≤ timeout) :
    authenticateAs O r (buildAuth now r key relayer sig) timeout now' =
      some { peerId := O.idOf key, timestamp := now.toNat, isRelayer := relayer,
             data := buildAuth now r key relayer sig } := by
  obtain ⟨l1, l2, l3, l4, l5, l6, l7⟩ := build_layout now r key sig relayer hr hk hs
  have hts : tsOf (buildAuth now r key relayer sig) = now.toNat := by
    rw [l2]
    have : now % 2 ^ 64 = now := Int.emod_eq_of_lt hn0 (by omega)
    rw [this]
    exact Nat.mod_eq_of_lt (by omega)
  have hacc : (authenticateAs O r (buildAuth now r key relayer sig) timeout now').isSome = true := by
    rw [auth_accept_iff]
    refine ⟨l1, ?_, l3, by rw [l4]; exact hself, by rw [l4, l6, l7]; exact hv⟩
    rcases hfresh with h | h
    · exact Or.inl h
    · by_cases h0 : timeout ≤ 0
      · exact Or.inl h0
      · right
        rw [hts, skew_int now' now.toNat timeout hn0' hn' (by omega) (by omega)]
        simp
        omega
  cases hc : authenticateAs O r (buildAuth now r key relayer sig) timeout now' with
  | none => rw [hc] at hacc; simp at hacc
  | some tok =>
    obtain ⟨f1, f2, f3, f4⟩ := auth_token_fields O r _ timeout now' tok hc
    have : tok = { peerId := O.idOf key, timestamp := now.toNat, isRelayer := relayer,
                   data := buildAuth now r key relayer sig } := by
      cases tok
      simp only [Token.mk.injEq]
      simp only at f1 f2 f3 f4
      refine ⟨by rw [f1, l4], by rw [f3, hts], ?_, f4⟩
      rw [f2, l5]
      cases relayer <;> simp
    rw [this]


/-! ## timestamps where float64 rounds are still rejected under realistic clocks -/

/-- magnitudes at or above 2^53 stay at or above 2^53 after rounding -/
theorem roundF64_large (x : Int) (h : 2 ^ 53 ≤ x.natAbs) : 2 ^ 53 ≤ (roundF64 x).natAbs := by
  unfold roundF64
  have hne : x.natAbs ≠ 0 := by omega
  have h1 : 2 ^ Nat.log2 x.natAbs ≤ x.natAbs := Nat.log2_self_le hne
  have h2 : x.natAbs < 2 ^ (Nat.log2 x.natAbs + 1) := Nat.lt_log2_self
  have hlog : 53 ≤ Nat.log2 x.natAbs := by
    by_cases hc : 53 ≤ Nat.log2 x.natAbs
    · exact hc
    · have : Nat.log2 x.natAbs + 1 ≤ 53 := by omega
      have := Nat.pow_le_pow_right (n := 2) (by decide) this
      omega
  simp only [show ¬ x.natAbs < 2 ^ 53 from by omega, if_false]
  generalize he : Nat.log2 x.natAbs - 52 = e
  have he1 : 1 ≤ e := by omega
  have hpow : 2 ^ Nat.log2 x.natAbs = 2 ^ 52 * 2 ^ e := by
    rw [← Nat.pow_add]; congr 1; omega
  have hq : 2 ^ 52 ≤ x.natAbs / 2 ^ e := by
    rw [Nat.le_div_iff_mul_le (Nat.pow_pos (by decide))]
    omega
  have h2e : 2 ≤ 2 ^ e := by
    calc 2 = 2 ^ 1 := rfl
      _ ≤ 2 ^ e := Nat.pow_le_pow_right (by decide) he1
  have key : ∀ q' : Nat, x.natAbs / 2 ^ e ≤ q' → 2 ^ 53 ≤ q' * 2 ^ e := by
    intro q' hq'
    have : 2 ^ 52 * 2 ≤ q' * 2 ^ e := Nat.mul_le_mul (by omega) h2e
    omega
  have hq' : x.natAbs / 2 ^ e ≤
      (if x.natAbs % 2 ^ e > 2 ^ (e - 1) ∨ (x.natAbs % 2 ^ e = 2 ^ (e - 1) ∧ x.natAbs / 2 ^ e % 2 = 1)
        then x.natAbs / 2 ^ e + 1 else x.natAbs / 2 ^ e) := by
    split <;> omega
  have := key _ hq'
  split <;> simp only [Int.natAbs_neg, Int.natAbs_natCast] <;> exact this

theorem roundF64_nonneg (x : Int) (h : 0 ≤ x) : 0 ≤ roundF64 x := by
  unfold roundF64
  by_cases hs : x.natAbs < 2 ^ 53
  · simp only [hs, if_true]; exact h
  · simp only [hs, if_false, show ¬ x < 0 from by omega]
    exact Int.natCast_nonneg _

/-- A timestamp at or beyond 2^53 (where float64 starts rounding) is rejected as stale under any
    realistic clock and timeout: the rounding never brings it back into the window. -/
theorem far_future_skew (now : Int) (ts : Nat) (timeout : Int) (hn0 : 0 ≤ now) (hn : now < 2 ^ 52)
    (hts : 2 ^ 53 ≤ ts) (ht : timeout < 2 ^ 52) : skewExceeds now ts timeout = true := by
  unfold skewExceeds
  have h1 : roundF64 now = now := roundF64_small now (by omega)
  have h2 : (2 : Int) ^ 53 ≤ roundF64 (ts : Int) := by
    have a := roundF64_large (ts : Int) (by simpa using hts)
    have b := roundF64_nonneg (ts : Int) (Int.natCast_nonneg _)
    omega
  have h4 : roundF64 timeout ≤ timeout ∨ roundF64 timeout < 2 ^ 52 := by
    by_cases hs : timeout.natAbs < 2 ^ 53
    · left; rw [roundF64_small _ hs]; exact Int.le_refl _
    · right
      have hneg : timeout < 0 := by omega
      unfold roundF64
      simp only [hs, if_false, hneg, if_true]
      have := Int.natCast_nonneg ((if timeout.natAbs % 2 ^ (Nat.log2 timeout.natAbs - 52) > 2 ^ (Nat.log2 timeout.natAbs - 52 - 1) ∨
        (timeout.natAbs % 2 ^ (Nat.log2 timeout.natAbs - 52) = 2 ^ (Nat.log2 timeout.natAbs - 52 - 1) ∧
          timeout.natAbs / 2 ^ (Nat.log2 timeout.natAbs - 52) % 2 = 1) then timeout.natAbs / 2 ^ (Nat.log2 timeout.natAbs - 52) + 1
        else timeout.natAbs / 2 ^ (Nat.log2 timeout.natAbs - 52)) * 2 ^ (Nat.log2 timeout.natAbs - 52))
      omega
  have h5 : roundF64 timeout < 2 ^ 52 := by omega
  rw [h1]
  have hd : (2 : Int) ^ 52 < ((now - roundF64 (ts : Int)).natAbs : Int) := by omega
  have h6 : (2 : Int) ^ 52 < ((roundF64 (now - roundF64 (ts : Int))).natAbs : Int) := by
    by_cases hs : (now - roundF64 (ts : Int)).natAbs < 2 ^ 53
    · rw [roundF64_small _ hs]; exact hd
    · have := roundF64_large (now - roundF64 (ts : Int)) (by omega)
      omega
  simp only [gt_iff_lt, decide_eq_true_eq]
  omega

/-! ## beyond 2^53 the float comparison is *not* the integer one (documented, harmless: the
timestamp would be 285 million years ahead) -/

/-- timestamp 2^53+1 against clock 0 and timeout 2^53: the integer skew 2^53+1 exceeds the
    timeout, the float64 skew (2^53+1 rounds to 2^53) does not -/
theorem skew_float_differs_beyond_2_53 :
    skewExceeds 0 (2 ^ 53 + 1) (2 ^ 53) = false ∧ ((0 : Int) - ((2 ^ 53 + 1 : Nat) : Int)).natAbs > (2 ^ 53 : Int) := by
  decide

/-- `timeout ≤ 0` switches freshness off by API contract (relayer-vouched consumers are
    authenticated with timeout 0): any timestamp passes -/
theorem nonpositive_timeout_disables_freshness (O : Oracle) (recipient msg : Bytes) (timeout now now' : Int)
    (ht : timeout ≤ 0) :
    (authenticateAs O recipient msg timeout now).isSome = (authenticateAs O recipient msg timeout now').isSome := by
  have h1 := auth_accept_iff O recipient msg timeout now
  have h2 := auth_accept_iff O recipient msg timeout now'
  cases ha : (authenticateAs O recipient msg timeout now).isSome <;>
  cases hb : (authenticateAs O recipient msg timeout now').isSome <;> simp
  · rw [hb] at h2; rw [ha] at h1
    obtain ⟨a, _, c, d, e⟩ := h2.mp rfl
    have := h1.mpr ⟨a, Or.inl ht, c, d, e⟩
    simp at this
  · rw [hb] at h2; rw [ha] at h1
    obtain ⟨a, _, c, d, e⟩ := h1.mp rfl
    have := h2.mpr ⟨a, Or.inl ht, c, d, e⟩
    simp at this

/-! ## non-vacuity -/

def oracleEx : Oracle := { idOf := fun k => k.take 1, verify := fun _ p g => p.length == 73 && g.length == 64 }
def zeros (n : Nat) : Bytes := List.replicate n 0

example : authenticateAs oracleEx (zeros 32) (buildAuth 1700000000 (zeros 32) (List.replicate 32 7) true (zeros 64)) 10 1700000010 =
    some { peerId := [7], timestamp := 1700000000, isRelayer := true,
           data := buildAuth 1700000000 (zeros 32) (List.replicate 32 7) true (zeros 64) } :=
  build_then_auth oracleEx 1700000000 1700000010 10 _ _ _ true (by decide) (by decide) (by decide) (by decide)
    (by decide) (by decide) (by decide) (by decide) (by decide) (by decide) (Or.inr (by decide))
example : authenticateAs oracleEx (zeros 32) (buildAuth 1700000000 (zeros 32) (List.replicate 32 7) true (zeros 64)) 10 1700000011 = none :=
  stale_rejected oracleEx _ _ 10 1700000011 (by decide) (by decide) (by decide) (by decide) (by decide) (by decide)
example : authenticateAs oracleEx (zeros 32) (zeros 136) 10 0 = none := by simp [authenticateAs, zeros]
example : skewExceeds 1700000011 1700000000 10 = true ∧ skewExceeds 1700000010 1700000000 10 = false ∧
    skewExceeds 1699999990 1700000000 10 = false ∧ skewExceeds 1699999989 1700000000 10 = true := by decide

end Mixin.C30
