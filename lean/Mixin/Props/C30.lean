import Mixin.Model.Auth
namespace Mixin.C30
theorem stub : True := trivial
end Mixin.C30
