import Mixin.Model.Auth
/-!
# C30 — peer authentication binds identity, recipient, freshness and role

Theorems about `Mixin.Model.Auth` (`kernel/node.go` `BuildAuthenticationMessage`, `AuthenticateAs`).
Signature validity and the key → peer id derivation are an arbitrary `Oracle`; unforgeability is
*not* a theorem — what is proved is which bytes the one signature check covers.
-/
namespace Mixin.C30
open Mixin.Auth
open Mixin.Proto (Bytes)

/-! ## acceptance -/

/-- **Accept iff.** A message authenticates at `recipient` exactly when it has 137 bytes, is
    fresh (or the caller disabled freshness with `timeout ≤ 0`), names `recipient`, does not
    come from `recipient` itself, and carries a signature by the key it names over its first
    73 bytes. -/
theorem auth_accept_iff (O : Oracle) (recipient msg : Bytes) (timeout now : Int) :
    (authenticateAs O recipient msg timeout now).isSome = true ↔
      msg.length = 137 ∧
      (timeout ≤ 0 ∨ skewExceeds now (tsOf msg) timeout = false) ∧
      recipientOf msg = recipient ∧
      O.idOf (keyOf msg) ≠ recipient ∧
      O.verify (keyOf msg) (prefixOf msg) (sigOf msg) = true := by
  unfold authenticateAs
  by_cases h1 : msg.length = 137
  · rw [if_neg (by simp [h1])]
    by_cases h2 : timeout > 0 ∧ skewExceeds now (tsOf msg) timeout = true
    · rw [if_pos h2]
      constructor
      · intro h; simp at h
      · intro ⟨_, h, _⟩
        rcases h with h | h
        · omega
        · rw [h] at h2; simp at h2
    · rw [if_neg h2]
      have hf : timeout ≤ 0 ∨ skewExceeds now (tsOf msg) timeout = false := by
        by_cases h : timeout ≤ 0
        · exact Or.inl h
        · right
          have : timeout > 0 := by omega
          cases hs : skewExceeds now (tsOf msg) timeout with
          | false => rfl
          | true => exact absurd ⟨this, hs⟩ h2
      by_cases h3 : recipientOf msg = recipient
      · rw [if_neg (by simp [h3])]
        by_cases h4 : O.idOf (keyOf msg) = recipient
        · rw [if_pos h4]
          constructor
          · intro h; simp at h
          · intro ⟨_, _, _, h, _⟩; exact absurd h4 h
        · rw [if_neg h4]
          by_cases h5 : O.verify (keyOf msg) (prefixOf msg) (sigOf msg) = true
          · rw [if_neg (by simp [h5])]
            constructor
            · intro _; exact ⟨h1, hf, h3, h4, h5⟩
            · intro _; simp
          · have h5' : O.verify (keyOf msg) (prefixOf msg) (sigOf msg) = false := by
              cases hv : O.verify (keyOf msg) (prefixOf msg) (sigOf msg) with
              | false => rfl
              | true => exact absurd hv h5
            rw [if_pos h5']
            constructor
            · intro h; simp at h
            · intro ⟨_, _, _, _, h⟩; exact absurd h h5
      · rw [if_pos h3]
        constructor
        · intro h; simp at h
        · intro ⟨_, _, h, _⟩; exact absurd h h3
  · rw [if_pos h1]
    constructor
    · intro h; simp at h
    · intro ⟨h, _⟩; exact absurd h h1

/-- **Token fields.** The authenticated identity is derived from the key in the message, the
    role from byte 72, the timestamp from bytes [0,8). -/
theorem auth_token_fields (O : Oracle) (recipient msg : Bytes) (timeout now : Int) (tok : Token)
    (h : authenticateAs O recipient msg timeout now = some tok) :
    tok.peerId = O.idOf (keyOf msg) ∧ tok.isRelayer = (flagOf msg == 1) ∧ tok.timestamp = tsOf msg ∧
    tok.data = msg := by
  unfold authenticateAs at h
  repeat' (split at h)
  all_goals (try (simp at h))
  subst h
  simp

/-- what an accepted message guarantees, in one statement -/
theorem auth_sound (O : Oracle) (recipient msg : Bytes) (timeout now : Int) (tok : Token)
    (h : authenticateAs O recipient msg timeout now = some tok) :
    msg.length = 137 ∧ recipientOf msg = recipient ∧ tok.peerId ≠ recipient ∧
    O.verify (keyOf msg) (prefixOf msg) (sigOf msg) = true ∧
    (timeout > 0 → skewExceeds now (tsOf msg) timeout = false) := by
  have hs : (authenticateAs O recipient msg timeout now).isSome = true := by simp [h]
  obtain ⟨h1, h2, h3, h4, h5⟩ := (auth_accept_iff O recipient msg timeout now).mp hs
  obtain ⟨f1, _, _, _⟩ := auth_token_fields O recipient msg timeout now tok h
  refine ⟨h1, h3, by rw [f1]; exact h4, h5, ?_⟩
  intro ht
  rcases h2 with h2 | h2
  · omega
  · exact h2

theorem wrong_recipient_rejected (O : Oracle) (recipient msg : Bytes) (timeout now : Int)
    (h : recipientOf msg ≠ recipient) : authenticateAs O recipient msg timeout now = none := by
  cases hc : authenticateAs O recipient msg timeout now with
  | none => rfl
  | some tok => exact absurd (auth_sound O recipient msg timeout now tok hc).2.1 h

theorem self_rejected (O : Oracle) (recipient msg : Bytes) (timeout now : Int)
    (h : O.idOf (keyOf msg) = recipient) : authenticateAs O recipient msg timeout now = none := by
  cases hc : authenticateAs O recipient msg timeout now with
  | none => rfl
  | some tok =>
    have hs : (authenticateAs O recipient msg timeout now).isSome = true := by simp [hc]
    exact absurd h ((auth_accept_iff O recipient msg timeout now).mp hs).2.2.2.1

theorem bad_signature_rejected (O : Oracle) (recipient msg : Bytes) (timeout now : Int)
    (h : O.verify (keyOf msg) (prefixOf msg) (sigOf msg) = false) :
    authenticateAs O recipient msg timeout now = none := by
  cases hc : authenticateAs O recipient msg timeout now with
  | none => rfl
  | some tok =>
    have := (auth_sound O recipient msg timeout now tok hc).2.2.2.1
    simp [h] at this

/-! ## freshness: the float64 comparison is the integer comparison below 2^53 -/

theorem roundF64_small (x : Int) (h : x.natAbs < 2 ^ 53) : roundF64 x = x := by
  unfold roundF64
  simp only [h, if_true]

/-- For a non-negative clock, timestamp and timeout below 2^53 (seconds: 285 million years) the
    Go expression `math.Abs(float64(now)-float64(ts)) > float64(timeout)` is `|now - ts| > timeout`. -/
theorem skew_int (now : Int) (ts : Nat) (timeout : Int) (hn0 : 0 ≤ now) (hn : now < 2 ^ 53) (hts : ts < 2 ^ 53)
    (ht : timeout.natAbs < 2 ^ 53) :
    skewExceeds now ts timeout = decide ((now - (ts : Int)).natAbs > timeout) := by
  unfold skewExceeds
  have h1 : roundF64 now = now := roundF64_small now (by omega)
  have h2 : roundF64 (ts : Int) = (ts : Int) := roundF64_small _ (by omega)
  have h3 : roundF64 (now - (ts : Int)) = now - (ts : Int) := roundF64_small _ (by omega)
  have h4 : roundF64 timeout = timeout := roundF64_small _ ht
  rw [h1, h2, h3, h4]

/-- a stale or premature message is rejected when freshness is on (integer range) -/
theorem stale_rejected (O : Oracle) (recipient msg : Bytes) (timeout now : Int)
    (hn0 : 0 ≤ now) (hn : now < 2 ^ 53) (hts : tsOf msg < 2 ^ 53) (ht0 : 0 < timeout) (ht : timeout < 2 ^ 53)
    (hstale : (now - (tsOf msg : Int)).natAbs > timeout) :
    authenticateAs O recipient msg timeout now = none := by
  cases hc : authenticateAs O recipient msg timeout now with
  | none => rfl
  | some tok =>
    have := (auth_sound O recipient msg timeout now tok hc).2.2.2.2 ht0
    rw [skew_int now _ timeout hn0 hn hts (by omega)] at this
    simp at this
    omega

end Mixin.C30
