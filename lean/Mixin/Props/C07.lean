import Mixin.Model.SnapCodec
import Mixin.Proofs.SnapCodec
import Mixin.Facts.ExpectedC07
/-!
# C07 — snapshot encoding is canonical and the snapshot hash commits the payload

Theorems about `Mixin.Model.SnapCodec` (model of `common/decoding.go:DecodeSnapshotWithTopo`,
`common/encoding.go:encodeSnapshotPayload`, `common/snapshot.go`).

History: on the pinned tree the decoder accepted a 1..7 byte partial topology suffix (finding
`C07:partial-topo-suffix`); `snap_decode_canonical` was false there. The `fix:` commit returns
the `ReadUint64` error; the model follows the repaired code and `snap_decode_canonical` is the
obligation. `partial_suffix_rejected` states the repaired behaviour on the old witnesses.
-/
namespace Mixin.C07
open Mixin.BytesSnap Mixin.SnapCodec

/-! ## canonical decoding -/

/-- **Canonical decoding.** Any byte string the snapshot decoder accepts is exactly the
    encoding of the decoded snapshot: either `VersionedMarshal` (with the full 8-byte
    topology suffix), or topology 0 and the encoding without any suffix. -/
theorem snap_decode_canonical {b : Bytes} {s : Snapshot} {topo : Nat}
    (h : unmarshalVersionedSnapshot b = some (s, topo)) :
    versionedMarshal s topo = some b ∨
      (topo = 0 ∧ encodeSnapshotPayload s true = some b) := by
  unfold unmarshalVersionedSnapshot at h
  split at h
  · cases h
  obtain ⟨hwf, sg, hsg, hb⟩ := decode_inv h
  have henc := encode_of_wf hwf true hsg (by intro h; cases h)
  rcases hb with ⟨hb, _⟩ | ⟨ht, hb⟩
  · left
    unfold versionedMarshal encodeSnapshotWithTopo
    rw [if_pos (by rw [verCommon_eq]; exact hwf.version), henc, hb]
  · right
    exact ⟨ht, by rw [henc, hb]⟩

/-- the witnesses of the finding: a minimal valid body (round 0, one transaction, no
    signature, 96 bytes) -/
def wBody : Bytes :=
  [0x77, 0x77, 0, 2] ++ List.replicate 32 0 ++ List.replicate 8 0 ++ [0, 0] ++ [0, 1] ++
  List.replicate 32 0x11 ++ [0, 0, 0, 0, 0, 0, 0, 9] ++ List.replicate 8 0

/-- non-vacuity: both canonical forms of the minimal snapshot are accepted … -/
example : (unmarshalVersionedSnapshot wBody).isSome = true := by decide
example : (unmarshalVersionedSnapshot (wBody ++ [0, 0, 0, 0, 0, 0, 0, 7])).isSome = true := by decide
/-- … and every partial suffix (the inputs the unrepaired decoder accepted) is rejected,
    as is a ninth byte. -/
theorem partial_suffix_rejected :
    ∀ k ∈ [1, 2, 3, 4, 5, 6, 7, 9], unmarshalVersionedSnapshot (wBody ++ List.replicate k 0) = none := by
  decide

/-- The tail handling of `DecodeSnapshotWithTopo` *before* the `fix:` commit (kept here as the
    record of finding `C07:partial-topo-suffix`, not part of the model): the "data short"
    error of `ReadUint64` was overwritten and `ReadByte` then saw `io.EOF`. -/
def readTailBeforeFix (b : Bytes) : Option Nat :=
  if b.length = 0 then some 0
  else if b.length < 8 then some 0
  else if b.length = 8 then some (beNat b)
  else none

/-- the defect and its repair, on the tail of the witnesses: 1..7 stray octets were accepted
    as topology 0 (so `body ++ stray` decoded to a snapshot whose encodings are `body` and
    `body ++ be64 0`, neither equal to the input); they are now rejected -/
theorem partial_suffix_before_and_after_fix :
    ∀ k ∈ [1, 2, 3, 4, 5, 6, 7],
      readTailBeforeFix (List.replicate k 0) = some 0 ∧ readTail (List.replicate k 0) = none := by
  decide

/-! ## structure of accepted snapshots -/

/-- **Structure.** An accepted snapshot has version 2, holds 1 to 255 transaction hashes of 32
    bytes in strictly increasing byte order (pairwise, hence no duplicates); round zero holds
    exactly one transaction and no references; later rounds carry references. -/
theorem snap_structure {b : Bytes} {s : Snapshot} {topo : Nat}
    (h : unmarshalVersionedSnapshot b = some (s, topo)) :
    s.version = 2 ∧
    1 ≤ s.txs.length ∧ s.txs.length ≤ 255 ∧
    s.txs.Pairwise (fun a b => bytesLt a b = true) ∧
    (∀ x ∈ s.txs, x.length = 32) ∧
    (s.round = 0 → s.txs.length = 1 ∧ s.refs = none) ∧
    (0 < s.round → s.refs.isSome = true) := by
  unfold unmarshalVersionedSnapshot at h
  split at h
  · cases h
  obtain ⟨hwf, _⟩ := decode_inv h
  exact ⟨hwf.version, hwf.count.1, hwf.count.2, hwf.sorted, hwf.txLen, hwf.round0,
    fun hp => hwf.later (by omega)⟩

/-- strictly increasing implies duplicate-free -/
theorem snap_no_duplicates {b : Bytes} {s : Snapshot} {topo : Nat}
    (h : unmarshalVersionedSnapshot b = some (s, topo)) : s.txs.Nodup := by
  have := (snap_structure h).2.2.2.1
  refine this.imp ?_
  intro a b hab heq
  subst heq
  rw [bytesLt_irrefl] at hab
  cases hab

/-- decoded fields fit their Go types (fixed-size arrays, 64-bit integers, non-empty mask) -/
theorem snap_decode_wf {b : Bytes} {s : Snapshot} {topo : Nat}
    (h : unmarshalVersionedSnapshot b = some (s, topo)) : WF s ∧ topo < 2 ^ 64 := by
  unfold unmarshalVersionedSnapshot at h
  split at h
  · cases h
  obtain ⟨hwf, sg, _, hb⟩ := decode_inv h
  refine ⟨hwf, ?_⟩
  rcases hb with ⟨_, ht⟩ | ⟨ht, _⟩
  · exact ht
  · rw [ht]; decide

/-! ## round trip -/

/-- What a caller must supply for the encoder to produce bytes that decode again: the Go
    types' sizes, 1..255 distinct transactions in any order, the round rules, a non-empty
    mask when a signature is present. -/
structure Encodable (s : Snapshot) : Prop where
  version : s.version = 2
  node : s.nodeId.length = 32
  round : s.round < 2 ^ 64
  refs : WFRefs s.refs
  txLen : ∀ x ∈ s.txs, x.length = 32
  count : 1 ≤ s.txs.length ∧ s.txs.length ≤ 255
  nodup : s.txs.Nodup
  round0 : s.round = 0 → s.txs.length = 1 ∧ s.refs = none
  later : s.round ≠ 0 → s.refs.isSome = true
  ts : s.ts < 2 ^ 64
  sig : WFSig s.sig

theorem wf_canon {s : Snapshot} (h : Encodable s) : WF (canon s) where
  version := h.version
  node := h.node
  round := h.round
  refs := h.refs
  txLen := fun x hx => h.txLen x ((sortTxs_perm s.txs).mem_iff.mp hx)
  count := by show 1 ≤ (sortTxs s.txs).length ∧ (sortTxs s.txs).length ≤ 255
              rw [sortTxs_length]; exact h.count
  sorted := sortTxs_increasing_of_nodup h.nodup
  round0 := fun hz => by
    show (sortTxs s.txs).length = 1 ∧ s.refs = none
    rw [sortTxs_length]; exact h.round0 hz
  later := h.later
  ts := h.ts
  sig := h.sig

theorem encSig_isSome {c : Option CosiSig} (h : WFSig c) : ∃ sg, encSig c = some sg := by
  cases c with
  | none => exact ⟨_, rfl⟩
  | some c => exact ⟨beBytes 8 c.mask ++ c.sig, by simp [encSig, h.1]⟩

theorem checkVersion_layout (s : Snapshot) (hv : s.version = 2) (sg tail : Bytes) :
    ¬ checkSnapVersion (layout s sg ++ tail) < verCommon := by
  unfold checkSnapVersion
  rw [verCommon_eq]
  have hl : ¬ (layout s sg ++ tail).length < 4 := by
    simp [layout, magic]
  have ht : List.take 4 (layout s sg ++ tail) = magic ++ [0, UInt8.ofNat 2] := by
    simp [layout, magic, hv]
  simp only [hl, if_false, ht, if_true]
  exact Nat.lt_irrefl 2

/-- **Round trip, with topology.** `VersionedMarshal` of an encodable snapshot succeeds and
    decodes to the same snapshot with its transactions sorted, and the same topology. -/
theorem snap_roundtrip_topo {s : Snapshot} {topo : Nat} (h : Encodable s) (ht : topo < 2 ^ 64) :
    ∃ b, versionedMarshal s topo = some b ∧ unmarshalVersionedSnapshot b = some (canon s, topo) := by
  have hwf := wf_canon h
  obtain ⟨sg, hsg⟩ := encSig_isSome h.sig
  have henc := encode_of_wf hwf true (sg := sg) hsg (by intro h; cases h)
  rw [encode_canon] at henc
  refine ⟨layout (canon s) sg ++ beBytes 8 topo, ?_, ?_⟩
  · unfold versionedMarshal encodeSnapshotWithTopo
    rw [if_pos (by rw [verCommon_eq]; exact h.version), henc]
  · unfold unmarshalVersionedSnapshot
    rw [if_neg (checkVersion_layout _ hwf.version _ _)]
    exact decode_layout hwf hsg _ (readTail_be ht)

/-- **Round trip, no suffix.** The encoding without any topology suffix (what storage keeps
    for some records and what payload-only inputs look like) decodes to the same snapshot
    with topology 0. -/
theorem snap_roundtrip_nosuffix {s : Snapshot} (h : Encodable s) :
    ∃ b, encodeSnapshotPayload s true = some b ∧ unmarshalVersionedSnapshot b = some (canon s, 0) := by
  have hwf := wf_canon h
  obtain ⟨sg, hsg⟩ := encSig_isSome h.sig
  have henc := encode_of_wf hwf true (sg := sg) hsg (by intro h; cases h)
  rw [encode_canon] at henc
  refine ⟨layout (canon s) sg, henc, ?_⟩
  have := checkVersion_layout (canon s) hwf.version sg []
  rw [List.append_nil] at this
  unfold unmarshalVersionedSnapshot
  rw [if_neg this]
  have hd := decode_layout hwf hsg [] readTail_nil
  rwa [List.append_nil] at hd

/-- the two forms never collide: decoding is a function, so the full form with topology `t`
    and the suffix-less form are different byte strings -/
theorem snap_forms_distinct {s : Snapshot} {topo : Nat} {b : Bytes}
    (h1 : versionedMarshal s topo = some b) : encodeSnapshotPayload s true ≠ some b := by
  unfold versionedMarshal encodeSnapshotWithTopo at h1
  split at h1
  · split at h1
    · cases h1
    · rename_i body hb
      injection h1 with h1
      rw [hb]
      intro he
      injection he with he
      have : (body ++ beBytes 8 topo).length = body.length := by rw [h1, he]
      rw [List.length_append, beBytes_length] at this
      omega
  · cases h1

/-- non-vacuity of `Encodable`: the minimal snapshot, and a later-round snapshot with two
    unsorted transactions and a signature -/
def exSnap0 : Snapshot :=
  ⟨2, List.replicate 32 0, 0, none, [List.replicate 32 0x11], 9, none⟩
def exSnap1 : Snapshot :=
  ⟨2, List.replicate 32 1, 5, some ⟨List.replicate 32 2, List.replicate 32 3⟩,
   [List.replicate 32 9, List.replicate 32 4], 77, some ⟨3, List.replicate 64 8⟩⟩

theorem exSnap0_decodes :
    unmarshalVersionedSnapshot (wBody ++ [0, 0, 0, 0, 0, 0, 0, 7]) = some (exSnap0, 7) := by decide
example : versionedMarshal exSnap0 7 = some (wBody ++ [0, 0, 0, 0, 0, 0, 0, 7]) := by
  rcases snap_decode_canonical exSnap0_decodes with h | ⟨h, _⟩
  · exact h
  · cases h
example : Encodable exSnap1 where
  version := rfl
  node := rfl
  round := by decide
  refs := ⟨rfl, rfl⟩
  txLen := by decide
  count := by decide
  nodup := by decide
  round0 := by decide
  later := by decide
  ts := by decide
  sig := ⟨by decide, by decide, rfl⟩

/-! ## the hash commits the payload -/

/-- **Payload injectivity.** For snapshots of the Go types' sizes whose payload exists (the
    encoder does not panic), the hashed bytes are equal exactly when version, node, round,
    references, the transaction *set* (sorted list) and timestamp are equal. -/
theorem snap_payload_inj {s₁ s₂ : Snapshot} {p₁ p₂ : Bytes} (w₁ : Sized s₁) (w₂ : Sized s₂)
    (h₁ : versionedPayload s₁ = some p₁) (h₂ : versionedPayload s₂ = some p₂) :
    p₁ = p₂ ↔
      (s₁.version = s₂.version ∧ s₁.nodeId = s₂.nodeId ∧ s₁.round = s₂.round ∧
       s₁.refs = s₂.refs ∧ sortTxs s₁.txs = sortTxs s₂.txs ∧ s₁.ts = s₂.ts) := by
  obtain ⟨v₁, _, c₁, e₁⟩ := versionedPayload_some h₁
  obtain ⟨v₂, _, c₂, e₂⟩ := versionedPayload_some h₂
  constructor
  · intro hp
    have := payloadLayout_inj w₁ w₂ c₁ c₂ (by rw [← e₁, ← e₂, hp])
    exact ⟨by rw [v₁, v₂], this⟩
  · intro ⟨hv, hn, hr, hl, ht, hts⟩
    have := versionedPayload_congr hv hn hr hl ht hts
    rw [h₁, h₂] at this
    injection this

/-- sorted lists agree exactly when the transaction lists are permutations of each other:
    "the transaction set" -/
theorem sortTxs_eq_iff_perm (l₁ l₂ : List Bytes) : sortTxs l₁ = sortTxs l₂ ↔ l₁.Perm l₂ := by
  constructor
  · intro h
    exact ((sortTxs_perm l₁).symm.trans (h ▸ List.Perm.refl _)).trans (sortTxs_perm l₂)
  · intro h
    have hp : (sortTxs l₁).Perm (sortTxs l₂) :=
      ((sortTxs_perm l₁).trans h).trans (sortTxs_perm l₂).symm
    exact List.Perm.eq_of_pairwise (le := fun a b => bytesLe a b = true)
      (fun a b _ _ hab hba => bytesLe_antisymm hab hba) (sortTxs_sorted l₁) (sortTxs_sorted l₂) hp

/-- **The payload ignores the signature**; the local topology is not an argument of the
    payload at all. -/
theorem snap_payload_ignores_signature (s : Snapshot) (sig : Option CosiSig) :
    versionedPayload { s with sig := sig } = versionedPayload s := rfl

/-- the payload of a decoded snapshot exists: every accepted snapshot has a hash -/
theorem snap_payload_of_decoded {b : Bytes} {s : Snapshot} {topo : Nat}
    (h : unmarshalVersionedSnapshot b = some (s, topo)) :
    ∃ p, versionedPayload s = some p := by
  obtain ⟨hwf, _⟩ := snap_decode_wf h
  have hwf' : WF { s with sig := none } :=
    ⟨hwf.version, hwf.node, hwf.round, hwf.refs, hwf.txLen, hwf.count, hwf.sorted, hwf.round0,
     hwf.later, hwf.ts, trivial⟩
  refine ⟨layout { s with sig := none } (beBytes 8 0), ?_⟩
  unfold versionedPayload
  rw [if_pos (by rw [verCommon_eq]; exact hwf.version)]
  exact encode_of_wf hwf' false (sg := beBytes 8 0) rfl (fun _ => rfl)

/-- **Hash sensitivity.** With the hash an opaque function of the payload bytes that is
    injective (collision resistance of blake3, an explicit hypothesis), the snapshot hash of two
    snapshots is equal exactly when version, node, round, references, transaction set and
    timestamp agree — in particular it never moves with the signature or the topology. -/
theorem snap_hash_sensitive {Hash : Type} (H : Bytes → Hash) (hinj : Function.Injective H)
    {s₁ s₂ : Snapshot} {p₁ p₂ : Bytes} (w₁ : Sized s₁) (w₂ : Sized s₂)
    (h₁ : versionedPayload s₁ = some p₁) (h₂ : versionedPayload s₂ = some p₂) :
    H p₁ = H p₂ ↔
      (s₁.version = s₂.version ∧ s₁.nodeId = s₂.nodeId ∧ s₁.round = s₂.round ∧
       s₁.refs = s₂.refs ∧ s₁.txs.Perm s₂.txs ∧ s₁.ts = s₂.ts) := by
  rw [← sortTxs_eq_iff_perm, ← snap_payload_inj w₁ w₂ h₁ h₂]
  exact ⟨fun h => hinj h, fun h => by rw [h]⟩

/-- without any assumption on the hash: equal hashed fields give equal hashes -/
theorem snap_hash_wellDefined {Hash : Type} (H : Bytes → Hash) {s₁ s₂ : Snapshot}
    (hv : s₁.version = s₂.version) (hn : s₁.nodeId = s₂.nodeId) (hr : s₁.round = s₂.round)
    (hl : s₁.refs = s₂.refs) (ht : s₁.txs.Perm s₂.txs) (hts : s₁.ts = s₂.ts) :
    (versionedPayload s₁).map H = (versionedPayload s₂).map H := by
  rw [versionedPayload_congr hv hn hr hl ((sortTxs_eq_iff_perm _ _).mpr ht) hts]

theorem sized_of_wf {s : Snapshot} (h : WF s) : Sized s :=
  ⟨h.node, h.round, h.refs, h.txLen, h.ts⟩

/-- **Hash sensitivity on accepted snapshots.** Two accepted byte strings have hashes (the
    payloads exist), and — with an injective hash — the hashes agree exactly when version,
    node, round, references, the transaction list and the timestamp of the decoded snapshots
    agree. Signature and topology may differ freely. -/
theorem snap_hash_sensitive_decoded {Hash : Type} (H : Bytes → Hash) (hinj : Function.Injective H)
    {b₁ b₂ : Bytes} {s₁ s₂ : Snapshot} {t₁ t₂ : Nat}
    (d₁ : unmarshalVersionedSnapshot b₁ = some (s₁, t₁))
    (d₂ : unmarshalVersionedSnapshot b₂ = some (s₂, t₂)) :
    ∃ p₁ p₂, versionedPayload s₁ = some p₁ ∧ versionedPayload s₂ = some p₂ ∧
      (H p₁ = H p₂ ↔
        (s₁.version = s₂.version ∧ s₁.nodeId = s₂.nodeId ∧ s₁.round = s₂.round ∧
         s₁.refs = s₂.refs ∧ s₁.txs = s₂.txs ∧ s₁.ts = s₂.ts)) := by
  obtain ⟨p₁, h₁⟩ := snap_payload_of_decoded d₁
  obtain ⟨p₂, h₂⟩ := snap_payload_of_decoded d₂
  obtain ⟨w₁, _⟩ := snap_decode_wf d₁
  obtain ⟨w₂, _⟩ := snap_decode_wf d₂
  refine ⟨p₁, p₂, h₁, h₂, ?_⟩
  have key := snap_payload_inj (sized_of_wf w₁) (sized_of_wf w₂) h₁ h₂
  rw [sortTxs_of_increasing w₁.sorted, sortTxs_of_increasing w₂.sorted] at key
  rw [← key]
  exact ⟨fun h => hinj h, fun h => by rw [h]⟩

/-- non-vacuity: the minimal snapshot is accepted in both forms (different topology), so the
    theorem applies with `t₁ ≠ t₂`; reordering transactions is a permutation -/
example : (unmarshalVersionedSnapshot wBody) = some (exSnap0, 0) := by decide
example : exSnap1.txs.Perm exSnap1.txs.reverse := (List.reverse_perm _).symm

end Mixin.C07
