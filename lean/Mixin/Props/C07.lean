import Mixin.Model.SnapCodec
namespace Mixin.C07
open Mixin.BytesSnap Mixin.SnapCodec

/-- as-is witness: body (96 bytes) + 1 octet is accepted with topology 0 -/
def wBody : Bytes :=
  [0x77, 0x77, 0, 2] ++ List.replicate 32 0 ++ List.replicate 8 0 ++ [0, 0] ++ [0, 1] ++
  List.replicate 32 0x11 ++ [0, 0, 0, 0, 0, 0, 0, 9] ++ List.replicate 8 0

theorem snap_decode_canonical_counterexample :
    (unmarshalVersionedSnapshot (wBody ++ [0])).isSome = true := by
  decide

end Mixin.C07
