import Mixin.Proofs.Supply
import Mixin.Props.C15
import Mixin.Facts.ExpectedC17
/-!
  C17 — asset supply equals the value held in unconsumed outputs.

  `unspent st a` is what a UTXO scan computes: the amounts of the outputs of asset `a` whose lock holder has no
  finalization record. `readTotal st a` is `ASSETTOTAL[a]`. The per-transaction conservation that validation
  provides (property C01, proved by another builder) enters as the explicit hypothesis `Conserving`:
  value locked by the transaction + value it creates = value it materialises + value it burns.
-/
namespace Mixin.C17
open Mixin.Ledger Mixin.C15

/-- what validation + input locking establish for a transaction about to be finalized (C01):
    only its own asset is involved, and value in = value out -/
def Conserving (st : State) (tx : Tx) : Prop :=
  (∀ a, a ≠ tx.asset → lockedBy st tx.id a = 0) ∧
  lockedBy st tx.id tx.asset + minted tx = matSum tx.outputs + burnt tx

/-- the outputs of a transaction are written by its first finalization only -/
def FreshOut (st : State) (tx : Tx) : Prop := ∀ j, aget st.utxo (tx.id, j) = none

/-- the invariant: recorded total = value in outputs not consumed by a finalized transaction -/
def SupplyEq (st : State) : Prop := ∀ a, readTotal st a = unspent st a

def CapOK (cap : Id → Nat) (st : State) : Prop := ∀ a, readTotal st a ≤ cap a

/-! ### one finalization -/

theorem writeTotal_readTotal {cap : Id → Nat} {st st' : State} {tx : Tx} (h : writeTotal cap st tx = .ok st') :
    ∃ r, newTotal tx (readTotal st tx.asset) = .ok r ∧
      (∀ a, readTotal st' a = if a = tx.asset then r.getD (readTotal st tx.asset) else readTotal st a) ∧
      r.getD (readTotal st tx.asset) ≤ max (cap tx.asset) (readTotal st tx.asset) := by
  unfold writeTotal at h
  split at h
  · cases h
  · split at h
    · cases h
    · rename_i hn
      cases h
      refine ⟨none, hn, ?_, ?_⟩
      · intro a; split <;> simp_all
      · simp; omega
    · rename_i t hn
      split at h
      · cases h
      · rename_i hc
        cases h
        refine ⟨some t, hn, ?_, ?_⟩
        · intro a
          by_cases e : a = tx.asset
          · subst e; simp [readTotal, aget_aset_eq]
          · have e' : tx.asset ≠ a := fun x => e x.symm
            simp [readTotal, aget_aset_ne _ _ _ _ e', e]
        · simp; omega

/-- what a first finalization does to the two sides of the invariant -/
theorem finalize_step {cap : Id → Nat} {st st' : State} {tx : Tx} {snap ts : Nat}
    (hn : aget st.fin tx.id = none) (hfresh : FreshOut st tx)
    (h : finalizeTransaction cap st tx snap ts = .ok st') (a : Id) :
    unspent st' a + lockedBy st tx.id a = unspent st a + (if tx.asset = a then matSum tx.outputs else 0) ∧
    readTotal st' a + (if a = tx.asset then burnt tx else 0) =
      readTotal st a + (if a = tx.asset then minted tx else 0) := by
  obtain ⟨st2, st3, hf, ht, _, hu, _, _, h3, h4⟩ := finalizeTransaction_new hn h
  have f3 := writeOutputs_frame h3
  have f4 := writeTotal_frame h4
  constructor
  · rw [unspent_eq, unspent_eq, f4.1, f4.2.2.1, f3.1, f3.2.2.2.2.2, hf, hu]
    have fr : FreshKeys st.utxo (newEntries tx tx.outputs 0) := newEntries_fresh (fun j _ => hfresh j)
    rw [sumIf_asetAll _ fr, sumIf_newEntries_live, live_finalize a st.utxo hn (s := snap)]
    unfold lockedBy
    omega
  · obtain ⟨r, hr, hrd, _⟩ := writeTotal_readTotal h4
    have t3 : readTotal st3 tx.asset = readTotal st tx.asset := by simp [readTotal, f3.2.1, ht]
    have t3a : readTotal st3 a = readTotal st a := by simp [readTotal, f3.2.1, ht]
    rw [hrd a]
    by_cases e : a = tx.asset
    · simp only [e, if_true]
      rw [t3] at hr ⊢
      exact newTotal_spec hr
    · simp [e, t3a]

/-- **The induction step of the supply invariant.** -/
theorem finalize_preserves_supply {cap : Id → Nat} {st st' : State} {tx : Tx} {snap ts : Nat}
    (hs : SupplyEq st) (hn : aget st.fin tx.id = none) (hfresh : FreshOut st tx) (hc : Conserving st tx)
    (h : finalizeTransaction cap st tx snap ts = .ok st') : SupplyEq st' := by
  intro a
  have ⟨h1, h2⟩ := finalize_step hn hfresh h a
  have := hs a
  by_cases e : a = tx.asset
  · subst e
    have := hc.2
    simp only [if_true] at h1 h2
    omega
  · have e' : ¬ tx.asset = a := fun x => e x.symm
    have := hc.1 a e
    simp only [e, e', if_false] at h1 h2
    omega

/-! ### the capacity assertion -/

theorem finalize_capOK {cap : Id → Nat} {st st' : State} {tx : Tx} {snap ts : Nat}
    (hc : CapOK cap st) (h : finalizeTransaction cap st tx snap ts = .ok st') : CapOK cap st' := by
  cases hn : aget st.fin tx.id with
  | some s => rw [finalize_idem cap st tx snap ts s hn] at h; cases h; exact hc
  | none =>
    obtain ⟨st2, st3, _, ht, _, _, _, _, h3, h4⟩ := finalizeTransaction_new hn h
    have f3 := writeOutputs_frame h3
    obtain ⟨r, _, hrd, hle⟩ := writeTotal_readTotal h4
    have t3 : ∀ b, readTotal st3 b = readTotal st b := by intro b; simp [readTotal, f3.2.1, ht]
    intro a
    rw [hrd a]
    split
    · rename_i e
      simp only [t3] at hle ⊢
      have := hc tx.asset
      rw [e]; omega
    · rw [t3]; exact hc a

theorem finalizeAll_capOK {cap : Id → Nat} {l : List Id} {st st' : State} {snap : Snap}
    (hc : CapOK cap st) (h : finalizeAll cap l st snap = .ok st') : CapOK cap st' := by
  induction l generalizing st with
  | nil => simp [finalizeAll] at h; cases h; exact hc
  | cons t r ih =>
    simp only [finalizeAll] at h
    split at h
    · cases h
    · split at h
      · cases h
      · rename_i s1 h1
        exact ih (st := { s1 with unique := aset s1.unique (t, snap.node) () })
          (fun a => by simpa [readTotal] using finalize_capOK hc h1 a) h

theorem applyOp_capOK (P : Params) (st : State) (op : Op) (hc : CapOK P.cap st) : CapOK P.cap (applyOp P st op) := by
  have same : ∀ st' : State, st'.total = st.total → CapOK P.cap st' := by
    intro st' e a; simpa [readTotal, e] using hc a
  cases op with
  | validate tx f =>
    simp only [applyOp, validate]
    split
    · exact hc
    · rename_i st1 us h
      exact same _ (lockGhostKeys_frame (validateCore_locks h)).2.1
  | lock tx f =>
    simp only [applyOp, LockInputs, atomic]
    split
    · rename_i st' h; exact same _ (lockInputsTxn_frame h).2.1
    · exact hc
  | put tx =>
    simp only [applyOp, WriteTransaction, atomic]
    split
    · rename_i st' h; exact same _ (writeTransactionTxn_frame h).2.1
    · exact hc
  | snap s sg =>
    simp only [applyOp, WriteSnapshot, atomic]
    split
    · rename_i st' h
      unfold writeSnapshotTxn at h
      split at h
      · cases h
      · split at h
        · cases h
        · rename_i st1 h1
          cases h
          unfold writeSnapshotInner at h1
          split at h1
          · cases h1
          · rename_i s1 hfa
            simp only at h1
            split at h1
            · cases h1
            · cases h1
              have := finalizeAll_capOK hc hfa
              intro a; simpa [readTotal, writeSnapshotWork] using this a
    · exact hc

/-- **Never above capacity.** In every state reached from one within capacity by any history of
    validations, locks, body writes and snapshot writes, `total a ≤ cap a` for every asset. (The Go
    assertion is a failing step of the model; C16 says when it can fire.) -/
theorem supply_le_cap (P : Params) (ops : List Op) (st : State) (hc : CapOK P.cap st) :
    CapOK P.cap (run P st ops) := by
  induction ops generalizing st with
  | nil => exact hc
  | cons op r ih => exact ih _ (applyOp_capOK P st op hc)

/-! ### the subtraction in the withdrawal branch -/

theorem subSubmits_defined {outs : List Output} {T : Nat} (hs : submitSum outs ≤ T)
    (hp : ∀ o ∈ outs, 0 < o.amount) : ∃ T', subSubmits outs T = .ok T' := by
  induction outs generalizing T with
  | nil => exact ⟨T, rfl⟩
  | cons o r ih =>
    have hpo := hp o (by simp)
    simp only [submitSum] at hs
    simp only [subSubmits]
    split
    · rename_i ho
      simp only [ho, if_true] at hs
      have : Amount.sub T o.amount = some (T - o.amount) := by
        simp only [Amount.sub]; split
        · omega
        · rfl
      simp only [this]
      exact ih (by omega) (fun x hx => hp x (by simp [hx]))
    · rename_i ho
      simp only [ho, if_false] at hs
      exact ih (by omega) (fun x hx => hp x (by simp [hx]))

theorem lockedBy_le_unspent {st : State} {t a : Id} (hn : aget st.fin t = none) :
    lockedBy st t a ≤ unspent st a := by
  rw [unspent_eq]
  unfold lockedBy
  apply sumIf_le
  intro e _
  obtain ⟨k, ⟨ua, uty, uam, uks, lk⟩⟩ := e
  simp only [contrib, live]
  cases lk with
  | none => simp
  | some t' =>
    by_cases e : t' = t
    · subst e; simp [hn]
    · simp [e]

/-- **`Integer.Sub` always has its precondition.** For a not yet finalized, conserving withdrawal
    submission with positive output amounts, in a state satisfying the supply invariant, the loop
    `total = total.Sub(o.Amount)` never panics: "never negative" is a theorem, not an artefact of `Nat`. -/
theorem supply_sub_defined {st : State} {tx : Tx} (hs : SupplyEq st) (hn : aget st.fin tx.id = none)
    (hc : Conserving st tx) (ht : txType tx = .withdrawalSubmit) (hp : ∀ o ∈ tx.outputs, 0 < o.amount) :
    ∃ T', subSubmits tx.outputs (readTotal st tx.asset) = .ok T' := by
  apply subSubmits_defined _ hp
  have h1 := hc.2
  have h2 := lockedBy_le_unspent (a := tx.asset) hn
  have h3 := hs tx.asset
  have hm : minted tx = 0 := by simp [minted, ht]
  have hb : burnt tx = submitSum tx.outputs := by simp [burnt, ht]
  omega

/-! ### locks do not move value -/

theorem lockUTXO_unspent {st st' : State} {h i t : Id} {fork : Bool} (hh : lockUTXO st h i t fork = .ok st')
    (hn : aget st.fin t = none) (a : Id) : unspent st' a = unspent st a := by
  have key : ∀ (s : State) (u : UTXO) (l : Option Id), s.fin = st.fin → s.utxo = st.utxo →
      aget st.utxo (h, i) = some u → u.lock = l →
      (∀ x, l = some x → aget st.fin x = none) →
      unspent ({ s with utxo := aset s.utxo (h, i) ⟨u.asset, u.typ, u.amount, u.keys, some t⟩ } : State) a = unspent st a := by
    intro s u l hf hu hg hl hx
    rw [unspent_eq, unspent_eq]
    simp only [hf, hu]
    apply sumIf_aset_same _ _ hg
    obtain ⟨ua, uty, uam, uks, lk⟩ := u
    simp only [contrib, live, hn]
    cases lk with
    | none => simp
    | some x => simp at hl; simp [hx x hl.symm]
  unfold lockUTXO at hh
  split at hh
  · cases hh
  · rename_i u hg
    simp only at hh
    split at hh
    · rename_i hl
      cases hh
      exact key st u none rfl rfl hg hl (by intro x hx; cases hx)
    · rename_i l hl
      split at hh
      · rename_i e
        cases hh
        exact key st u (some l) rfl rfl hg hl (by intro x hx; cases hx; rw [e]; exact hn)
      · split at hh
        · cases hh
        · split at hh
          · rename_i s1 h1
            cases hh
            have f := pruneTransaction_frame h1
            have nf : aget st.fin l = none := by
              unfold pruneTransaction at h1
              split at h1
              · cases h1
              · rename_i hfz
                simp only [finalized] at hfz
                cases hv : aget st.fin l with
                | none => rfl
                | some v => simp [hv] at hfz
            exact key s1 u (some l) f.1 f.2.2.1 hg hl (by intro x hx; cases hx; exact nf)
          · cases hh

/-- input locking (with or without fork) for a transaction that is not finalized keeps both the
    recorded totals and the unconsumed value of every asset -/
theorem lockUTXOs_supply {ins : List Input} {st st' : State} {t : Id} {fork : Bool}
    (h : lockUTXOs ins st t fork = .ok st') (hn : aget st.fin t = none) (hs : SupplyEq st) : SupplyEq st' := by
  induction ins generalizing st with
  | nil => simp [lockUTXOs] at h; cases h; exact hs
  | cons x r ih =>
    cases x with
    | utxo hh i =>
      simp only [lockUTXOs] at h
      split at h
      · rename_i s1 h1
        have f1 := lockUTXO_frame h1
        apply ih h (by rw [f1.1]; exact hn)
        intro a
        rw [lockUTXO_unspent h1 hn a]
        simpa [readTotal, f1.2.1] using hs a
      · cases h
    | deposit _ _ _ _ => simp [lockUTXOs] at h
    | mint _ _ => simp [lockUTXOs] at h
    | genesis => simp [lockUTXOs] at h

/-! ### histories -/

/-- the hypothesis of a snapshot write: each member that is finalized for the first time is conserving
    and has fresh outputs *in the state it meets* (the states are those the model itself produces) -/
def MembersConserve (cap : Id → Nat) : List Id → State → Snap → Prop
  | [], _, _ => True
  | t :: r, st, snap =>
    match aget st.txs t with
    | none => True
    | some tx =>
      (aget st.fin tx.id = none → Conserving st tx ∧ FreshOut st tx) ∧
      (∀ st', finalizeTransaction cap st tx snap.id snap.ts = .ok st' →
        MembersConserve cap r { st' with unique := aset st'.unique (t, snap.node) () } snap)

theorem finalizeAll_supply {cap : Id → Nat} {l : List Id} {st st' : State} {snap : Snap}
    (hs : SupplyEq st) (hm : MembersConserve cap l st snap) (h : finalizeAll cap l st snap = .ok st') :
    SupplyEq st' := by
  induction l generalizing st with
  | nil => simp [finalizeAll] at h; cases h; exact hs
  | cons t r ih =>
    simp only [finalizeAll] at h
    split at h
    · cases h
    · rename_i tx htx
      simp only [MembersConserve, htx] at hm
      split at h
      · cases h
      · rename_i s1 h1
        have hs1 : SupplyEq s1 := by
          cases hn : aget st.fin tx.id with
          | some s => rw [finalize_idem cap st tx _ _ s hn] at h1; cases h1; exact hs
          | none => exact finalize_preserves_supply hs hn (hm.1 hn).2 (hm.1 hn).1 h1
        apply ih (st := { s1 with unique := aset s1.unique (t, snap.node) () }) _ (hm.2 s1 h1) h
        intro a
        have := hs1 a
        rw [unspent_eq] at this ⊢
        simpa [readTotal] using this

/-- states reachable from the empty database (the genesis is itself a sequence of body writes and
    snapshot writes) by validations, input locks of transactions that are not finalized, body writes,
    and snapshot writes whose new members are conserving -/
inductive Reach (P : Params) : State → Prop
  | init : Reach P {}
  | validate {st} (tx : Tx) (fork : Bool) : Reach P st → Reach P (validate P st tx fork).2
  | lock {st} (tx : Tx) (fork : Bool) : Reach P st → aget st.fin tx.id = none → Reach P (LockInputs st tx fork).2
  | put {st} (tx : Tx) : Reach P st → Reach P (WriteTransaction st tx).2
  | snap {st} (s : Snap) (sg : Nat) : Reach P st → MembersConserve P.cap s.txs st s →
      Reach P (WriteSnapshot P.cap st s sg).2

theorem supplyEq_of_same {st st' : State} (hs : SupplyEq st) (h1 : st'.total = st.total)
    (h2 : st'.utxo = st.utxo) (h3 : st'.fin = st.fin) : SupplyEq st' := by
  intro a
  have := hs a
  rw [unspent_eq] at this ⊢
  simpa [readTotal, h1, h2, h3] using this

/-- **Supply invariant.** In every reachable state, for every asset, the recorded total equals the sum of
    the outputs not consumed by any finalized transaction, and it does not exceed the capacity. -/
theorem supply_invariant (P : Params) {st : State} (h : Reach P st) :
    (∀ a, readTotal st a = unspent st a) ∧ (∀ a, readTotal st a ≤ P.cap a) := by
  induction h with
  | init => exact ⟨fun a => by simp [readTotal, unspent, sumIf, aget], fun a => by simp [readTotal, aget]⟩
  | @validate st tx fork _ ih =>
    refine ⟨?_, applyOp_capOK P st (.validate tx fork) ih.2⟩
    simp only [validate]
    split
    · exact ih.1
    · rename_i st1 us hv
      have f := lockGhostKeys_frame (validateCore_locks hv)
      exact supplyEq_of_same ih.1 f.2.1 f.2.2.2.1 f.1
  | @lock st tx fork _ hn ih =>
    refine ⟨?_, applyOp_capOK P st (.lock tx fork) ih.2⟩
    simp only [LockInputs, atomic]
    split
    · rename_i st' hl
      unfold lockInputsTxn at hl
      split at hl
      · split at hl
        · have f := lockMint_frame hl; exact supplyEq_of_same ih.1 f.2.1 f.2.2.2 f.1
        · cases hl
      · split at hl
        · have f := lockDeposit_frame hl; exact supplyEq_of_same ih.1 f.2.1 f.2.2.2 f.1
        · cases hl
      · exact lockUTXOs_supply hl hn ih.1
    · exact ih.1
  | @put st tx _ ih =>
    refine ⟨?_, applyOp_capOK P st (.put tx) ih.2⟩
    simp only [WriteTransaction, atomic]
    split
    · rename_i st' hp
      have f := writeTransactionTxn_frame hp
      exact supplyEq_of_same ih.1 f.2.1 f.2.2.2 f.1
    · exact ih.1
  | @snap st s sg _ hm ih =>
    refine ⟨?_, applyOp_capOK P st (.snap s sg) ih.2⟩
    simp only [WriteSnapshot, atomic]
    split
    · rename_i st' hw
      unfold writeSnapshotTxn at hw
      split at hw
      · cases hw
      · split at hw
        · cases hw
        · rename_i st1 h1
          cases hw
          unfold writeSnapshotInner at h1
          split at h1
          · cases h1
          · rename_i s1 hfa
            simp only at h1
            split at h1
            · cases h1
            · cases h1
              have := finalizeAll_supply ih.1 hm hfa
              exact supplyEq_of_same this rfl rfl rfl
    · exact ih.1

/-! ### the recorded total is the history's balance -/

/-- minted and burnt value of asset `a` over a sequence of finalization attempts (first successful
    finalizations only), and the state after them; a failed attempt is discarded -/
def account (cap : Id → Nat) (a : Id) : State → List (Tx × Id × Nat) → Nat × Nat × State
  | st, [] => (0, 0, st)
  | st, x :: r =>
    match finalizeTransaction cap st x.1 x.2.1 x.2.2 with
    | .error _ => account cap a st r
    | .ok s =>
      if aget st.fin x.1.id = none ∧ x.1.asset = a then
        (minted x.1 + (account cap a s r).1, burnt x.1 + (account cap a s r).2.1, (account cap a s r).2.2)
      else account cap a s r

/-- **Total = genesis + deposits + mints − withdrawal submissions**, over any sequence of finalizations
    (`minted` is the genesis allocation, deposit or mint amount; `burnt` the submit outputs). Needs no
    hypothesis: it is what `writeTotalInAsset` computes. -/
theorem supply_history (cap : Id → Nat) (a : Id) (l : List (Tx × Id × Nat)) (st : State) :
    readTotal (account cap a st l).2.2 a + (account cap a st l).2.1 = readTotal st a + (account cap a st l).1 := by
  induction l generalizing st with
  | nil => simp [account]
  | cons x r ih =>
    simp only [account]
    cases hfin : finalizeTransaction cap st x.1 x.2.1 x.2.2 with
    | error e => exact ih st
    | ok s =>
      have ihs := ih s
      simp only
      cases hn : aget st.fin x.1.id with
      | some v =>
        rw [finalize_idem cap st x.1 _ _ v hn] at hfin
        cases hfin
        simpa using ihs
      | none =>
        -- the total side of `finalize_step` needs no freshness
        obtain ⟨st2, st3, _, ht, _, _, _, _, h3, h4⟩ := finalizeTransaction_new hn hfin
        have f3 := writeOutputs_frame h3
        obtain ⟨rr, hr, hrd, _⟩ := writeTotal_readTotal h4
        have t3 : ∀ b, readTotal st3 b = readTotal st b := by intro b; simp [readTotal, f3.2.1, ht]
        have hstep := hrd a
        by_cases e : x.1.asset = a
        · have e' : a = x.1.asset := e.symm
          rw [t3] at hr
          have sp := newTotal_spec hr
          simp only [e', if_true, t3] at hstep
          simp only [e, and_self, if_true]
          subst e'
          omega
        · have e' : ¬ a = x.1.asset := fun z => e z.symm
          simp only [e', if_false, t3] at hstep
          simp only [e, and_false, if_false]
          omega

/-! ### non-vacuity -/

def capEx : Id → Nat := fun _ => 1000
def P0 : Params := { cap := capEx, xin := 1, claimFee := 10 }
def dep : Tx := ⟨10, 2, [.deposit 1 2 102 300], [⟨.script, 300, [501]⟩], [], true, true⟩
def wd : Tx := ⟨11, 2, [.utxo 10 0], [⟨.withdrawalSubmit, 100, []⟩, ⟨.script, 200, [502]⟩], [], true, true⟩

/-- a real history: deposit 300, finalize, lock and submit a withdrawal of 100 with 200 change, finalize -/
def s1 : State := (WriteTransaction (LockInputs {} dep false).2 dep).2
def s2 : State := (WriteSnapshot capEx s1 ⟨100, 1, 1, 11, 8, [10]⟩ 0).2
def s3 : State := (WriteTransaction (LockInputs s2 wd false).2 wd).2
def s4 : State := (WriteSnapshot capEx s3 ⟨101, 1, 1, 12, 9, [11]⟩ 0).2

example : readTotal s2 2 = 300 ∧ unspent s2 2 = 300 := by decide
example : readTotal s4 2 = 200 ∧ unspent s4 2 = 200 := by decide
example : Conserving s3 wd := by
  have hu : s3.utxo = [((10, 0), ⟨2, .script, 300, [501], some 11⟩)] := by decide
  constructor
  · intro a ha
    have : ¬ (2 = a) := fun e => ha (by rw [← e]; rfl)
    simp [lockedBy, hu, sumIf, this]
  · simp only [lockedBy, hu]; decide
example : FreshOut s3 wd := by
  have hu : s3.utxo = [((10, 0), ⟨2, .script, 300, [501], some 11⟩)] := by decide
  intro j
  simp [hu, aget, wd]
example : (account capEx 2 {} [(dep, 100, 11)]).1 = 300 := by decide

end Mixin.C17
