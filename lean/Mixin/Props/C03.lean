import Mixin.Model.Locks
import Mixin.Model.DepositKey
import Mixin.Proofs.KV
import Mixin.Proofs.Locks
import Mixin.Facts.ExpectedC03
/-!
# C03 — an output, deposit or mint slot is locked by at most one transaction

The database is `Mixin.KV.Store`; every storage call is one atomic `exec c s op : Res`, and
`step`/`run` apply any list of calls — that is every interleaving of concurrent callers,
because each call holds the store mutex for one Badger update (pinned by the regenerated
facts in `Mixin.Facts.ExpectedC03`).  A slot has one lock field, so "at most one holder" is
structural; the theorems say who may change it and what else changes in the same write.
-/
namespace Mixin.C03
open Mixin.KV Mixin.Locks

/-- a sample state: transaction 9 (finalized) created outputs (9,0) and (9,1); (9,0) is held by
    the pending transaction 5, (9,1) by the finalized transaction 6; deposit 3 is held by 5,
    mint batch 7 by (5, amount 2) -/
def sample : Store :=
  { utxo := [((9, 0), 5), ((9, 1), 6), ((9, 2), 0)], deposit := [(3, 5)], mint := [(7, (5, 2))],
    tx := [(5, ()), (6, ()), (9, ())], fin := [(9, ()), (6, ())] }

/-- for the non-vacuity examples: the call succeeded and the result satisfies `p` -/
def okAnd (r : Res) (p : Store → Bool) : Bool :=
  match r with
  | .ok s' => p s'
  | _ => false

def kinds0 : OutKinds :=
  { materialized := [0, 163, 170, 164, 166, 169, 177], skipped := [161, 178], sideTypes := [163, 170, 164, 166, 177, 169] }

def cfg0 : Cfg := { exc := [101, 102, 103], nodes := [1, 2], kinds := kinds0 }

/-! ## a call that does not succeed changes nothing (atomic update) -/

/-- `multi_input_atomic`: whatever the inputs, a `LockUTXOs` (or any other call) that does not
    return ok leaves the database exactly as it was — there is no partially applied lock list. -/
theorem multi_input_atomic (c : Cfg) (s : Store) (op : Op) (h : ∀ s', exec c s op ≠ .ok s') :
    step c s op = s := by
  unfold step
  split
  · next s' he => exact absurd he (h s')
  · rfl

-- second input held by the finalized 6: the first input is not taken over either
example : step cfg0 sample (.lockUTXOs [(9, 0), (9, 1)] 8 true) = sample := by decide

/-! ## ordinary admission against a reserved slot fails -/

/-- `lock_nonfork_excl` (outputs): a non-fork request by `tx` that lists a slot held by another
    transaction `cur` fails, and the database is unchanged. -/
theorem lock_nonfork_excl_utxo (c : Cfg) (s : Store) (ins : List (Nat × Nat)) (x : Nat × Nat) (tx cur : Nat)
    (hx : x ∈ ins) (hcur : s.utxo.get x = some cur) (h0 : cur ≠ 0) (hne : cur ≠ tx) :
    (∀ s', exec c s (.lockUTXOs ins tx false) ≠ .ok s') ∧ step c s (.lockUTXOs ins tx false) = s := by
  have h := lockUTXOs_blocked (fork := false) hx hcur h0 hne (Or.inl rfl)
  exact ⟨h, multi_input_atomic c s _ h⟩

example : exec cfg0 sample (.lockUTXOs [(9, 2), (9, 0)] 8 false) = .err := by decide

/-- `lock_nonfork_excl` (deposit) -/
theorem lock_nonfork_excl_deposit (c : Cfg) (s : Store) (d tx cur : Nat)
    (hcur : s.deposit.get d = some cur) (hne : cur ≠ tx) :
    exec c s (.lockDeposit d tx false) = .err ∧ step c s (.lockDeposit d tx false) = s := by
  have h : exec c s (.lockDeposit d tx false) = .err := by
    simp [exec, lockDeposit, hcur, hne]
  exact ⟨h, by simp [step, h]⟩

example : exec cfg0 sample (.lockDeposit 3 8 false) = .err := by decide

/-- `lock_nonfork_excl` (mint): the batch is held by another transaction, or by the same
    transaction for another amount -/
theorem lock_nonfork_excl_mint (c : Cfg) (s : Store) (b a tx : Nat) (cur : Nat × Nat)
    (hcur : s.mint.get b = some cur) (hne : cur ≠ (tx, a)) :
    exec c s (.lockMint b a tx false) = .err ∧ step c s (.lockMint b a tx false) = s := by
  have hn : ¬ (cur.1 = tx ∧ cur.2 = a) := by
    intro ⟨h1, h2⟩; apply hne; cases cur; simp_all
  have h : exec c s (.lockMint b a tx false) = .err := by
    simp [exec, lockMint, hcur, hn]
  exact ⟨h, by simp [step, h]⟩

example : exec cfg0 sample (.lockMint 7 2 8 false) = .err := by decide
example : exec cfg0 sample (.lockMint 7 1 5 false) = .err := by decide

/-! ## re-reserving by the same transaction is idempotent -/

/-- `lock_idem` (outputs): when every listed slot is already held by `tx` the call succeeds and
    the database is *equal* to the one before (fork or not). -/
theorem lock_idem_utxo (c : Cfg) (s : Store) (ins : List (Nat × Nat)) (tx : Nat) (fork : Bool)
    (h : ∀ x ∈ ins, x.2 ≤ maxIndex ∧ s.utxo.get x = some tx) :
    exec c s (.lockUTXOs ins tx fork) = .ok s := by
  simp only [exec]
  induction ins with
  | nil => rfl
  | cons x xs ih =>
    have hx := h x List.mem_cons_self
    have h1 : lockUTXO s x tx fork = .ok s := by
      unfold lockUTXO
      have : ¬ x.2 > maxIndex := Nat.not_lt.mpr hx.1
      simp [this, hx.2, Map.set_same _ _ _ hx.2]
    unfold lockUTXOs
    rw [h1]
    exact ih (fun y hy => h y (List.mem_cons_of_mem _ hy))

example : exec cfg0 sample (.lockUTXOs [(9, 0), (9, 0)] 5 false) = .ok sample := by decide

theorem lock_idem_deposit (c : Cfg) (s : Store) (d tx : Nat) (fork : Bool)
    (h : s.deposit.get d = some tx) : exec c s (.lockDeposit d tx fork) = .ok s := by
  simp [exec, lockDeposit, h]

theorem lock_idem_mint (c : Cfg) (s : Store) (b a tx : Nat) (fork : Bool)
    (h : s.mint.get b = some (tx, a)) : exec c s (.lockMint b a tx fork) = .ok s := by
  simp [exec, lockMint, h]

example : exec cfg0 sample (.lockMint 7 2 5 true) = .ok sample := by decide

/-! ## a takeover never displaces a finalized transaction -/

/-- `takeover_not_finalized` (outputs): whatever the fork flag, a request that lists a slot held
    by a transaction with a FINALIZATION record fails and changes nothing. -/
theorem takeover_not_finalized_utxo (c : Cfg) (s : Store) (ins : List (Nat × Nat)) (x : Nat × Nat)
    (tx cur : Nat) (fork : Bool)
    (hx : x ∈ ins) (hcur : s.utxo.get x = some cur) (h0 : cur ≠ 0) (hne : cur ≠ tx)
    (hfin : s.fin.get cur ≠ none) :
    (∀ s', exec c s (.lockUTXOs ins tx fork) ≠ .ok s') ∧ step c s (.lockUTXOs ins tx fork) = s := by
  have h := lockUTXOs_blocked (fork := fork) hx hcur h0 hne (Or.inr hfin)
  exact ⟨h, multi_input_atomic c s _ h⟩

example : exec cfg0 sample (.lockUTXOs [(9, 1)] 8 true) = .err := by decide

theorem takeover_not_finalized_deposit (c : Cfg) (s : Store) (d tx cur : Nat) (fork : Bool)
    (hcur : s.deposit.get d = some cur) (hne : cur ≠ tx) (hfin : s.fin.get cur ≠ none) :
    exec c s (.lockDeposit d tx fork) = .err ∧ step c s (.lockDeposit d tx fork) = s := by
  have hp : pruneTransaction s cur = none := by
    unfold pruneTransaction
    cases hf : s.fin.get cur with
    | none => exact absurd hf hfin
    | some _ => rfl
  have h : exec c s (.lockDeposit d tx fork) = .err := by
    cases fork <;> simp [exec, lockDeposit, hcur, hne, hp]
  exact ⟨h, by simp [step, h]⟩

theorem takeover_not_finalized_mint (c : Cfg) (s : Store) (b a tx : Nat) (cur : Nat × Nat) (fork : Bool)
    (hcur : s.mint.get b = some cur) (hne : cur ≠ (tx, a)) (hfin : s.fin.get cur.1 ≠ none) :
    exec c s (.lockMint b a tx fork) = .err ∧ step c s (.lockMint b a tx fork) = s := by
  have hn : ¬ (cur.1 = tx ∧ cur.2 = a) := by
    intro ⟨h1, h2⟩; apply hne; cases cur; simp_all
  have hp : pruneTransaction s cur.1 = none := by
    unfold pruneTransaction
    cases hf : s.fin.get cur.1 with
    | none => exact absurd hf hfin
    | some _ => rfl
  have h : exec c s (.lockMint b a tx fork) = .err := by
    cases fork <;> simp [exec, lockMint, hcur, hn, hp]
  exact ⟨h, by simp [step, h]⟩

/-! ## a takeover of a pending holder removes its stored body in the same write -/

/-- `takeover_prunes` (outputs): after a successful `LockUTXOs`, every listed slot is held by
    `tx`, and every transaction that held a listed slot before (other than `tx`) has no
    TRANSACTION record in that same resulting database — and it had no FINALIZATION record. -/
theorem takeover_prunes_utxo (c : Cfg) (s s' : Store) (ins : List (Nat × Nat)) (x : Nat × Nat)
    (tx cur : Nat) (fork : Bool)
    (hok : exec c s (.lockUTXOs ins tx fork) = .ok s')
    (hx : x ∈ ins) (hcur : s.utxo.get x = some cur) (h0 : cur ≠ 0) (hne : cur ≠ tx) :
    s'.utxo.get x = some tx ∧ s'.tx.get cur = none ∧ s.fin.get cur = none ∧ fork = true := by
  simp only [exec] at hok
  have hfork : fork = true := by
    cases fork with
    | true => rfl
    | false => exact absurd hok (lockUTXOs_blocked hx hcur h0 hne (Or.inl rfl) s')
  have hfin : s.fin.get cur = none := by
    cases hf : s.fin.get cur with
    | none => rfl
    | some v =>
      exact absurd hok (lockUTXOs_blocked hx hcur h0 hne (Or.inr (by rw [hf]; simp)) s')
  refine ⟨(lockUTXOs_frame hok).2.2.2.2.2.2.1 x hx, ?_, hfin, hfork⟩
  -- the body of `cur` is deleted when `x` is processed and never comes back
  clear hfork hfin
  induction ins generalizing s with
  | nil => cases hx
  | cons y ys ih =>
    unfold lockUTXOs at hok
    split at hok
    · next s1 h1 =>
      obtain ⟨_, _, _, _, _, hut, _⟩ := lockUTXO_frame h1
      by_cases hxy : x = y
      · subst hxy
        obtain ⟨_, cur', hcur', hc⟩ := lockUTXO_ok h1
        rw [hcur] at hcur'; cases hcur'
        rcases hc with ⟨hh, _⟩ | ⟨_, _, _, _, rfl⟩
        · rcases hh with hh | hh
          · exact absurd hh h0
          · exact absurd hh hne
        · have hnone : ({ s with tx := s.tx.del cur, utxo := s.utxo.set x tx } : Store).tx.get cur = none :=
            Map.get_del_same _ _
          cases hq : s'.tx.get cur with
          | none => rfl
          | some v =>
            have := (lockUTXOs_frame hok).2.2.2.2.2.1 cur v hq
            rw [hnone] at this; cases this
      · have hx' : x ∈ ys := by
          cases hx with
          | head => exact absurd rfl hxy
          | tail _ h => exact h
        have hcur1 : s1.utxo.get x = some cur := by
          rw [hut, Map.get_set_ne _ _ (fun e => hxy e.symm)]; exact hcur
        exact ih s1 hok hx' hcur1
    · next hnot => exact absurd hok (hnot s')

-- the pending holder 5 of (9,0) is displaced by 8 on the finalization path: body of 5 is gone
example : okAnd (exec cfg0 sample (.lockUTXOs [(9, 0)] 8 true)) (fun s' =>
    s'.utxo.get (9, 0) == some 8 && s'.tx.get 5 == none && s'.tx.get 6 == some ()) = true := by decide

theorem takeover_prunes_deposit (c : Cfg) (s s' : Store) (d tx cur : Nat) (fork : Bool)
    (hok : exec c s (.lockDeposit d tx fork) = .ok s')
    (hcur : s.deposit.get d = some cur) (hne : cur ≠ tx) :
    s'.deposit.get d = some tx ∧ s'.tx.get cur = none ∧ s.fin.get cur = none ∧ fork = true := by
  simp only [exec, lockDeposit, hcur, hne, if_false] at hok
  cases fork with
  | false => simp at hok
  | true =>
    simp only [if_true] at hok
    split at hok
    · cases hok
    · next s1 hp =>
      obtain ⟨hfin, rfl⟩ := pruneTransaction_some hp
      simp only [Res.ok.injEq] at hok
      subst hok
      exact ⟨Map.get_set_same _ _ _, Map.get_del_same _ _, hfin, rfl⟩

theorem takeover_prunes_mint (c : Cfg) (s s' : Store) (b a tx : Nat) (cur : Nat × Nat) (fork : Bool)
    (hok : exec c s (.lockMint b a tx fork) = .ok s')
    (hcur : s.mint.get b = some cur) (hne : cur ≠ (tx, a)) :
    s'.mint.get b = some (tx, a) ∧ s'.tx.get cur.1 = none ∧ s.fin.get cur.1 = none ∧ fork = true := by
  have hn : ¬ (cur.1 = tx ∧ cur.2 = a) := by
    intro ⟨h1, h2⟩; apply hne; cases cur; simp_all
  simp only [exec, lockMint, hcur, hn, if_false] at hok
  cases fork with
  | false => simp at hok
  | true =>
    simp only [if_true] at hok
    split at hok
    · cases hok
    · next s1 hp =>
      obtain ⟨hfin, rfl⟩ := pruneTransaction_some hp
      simp only [Res.ok.injEq] at hok
      subst hok
      exact ⟨Map.get_set_same _ _ _, Map.get_del_same _ _, hfin, rfl⟩

-- quirk reproduced from the code: the same transaction with another amount prunes *itself*
example : okAnd (exec cfg0 sample (.lockMint 7 1 5 true)) (fun s' =>
    s'.mint.get 7 == some (5, 1) && s'.tx.get 5 == none) = true := by decide

/-! ## whole histories: any list of calls = any interleaving -/

/-- the invariant the history theorems need; it holds of the empty database and of everything
    reachable from it (`inv_reachable`) -/
theorem inv_empty : Inv Store.empty := by
  intro y hy; simp [Store.empty, Map.get] at hy

theorem step_inv (c : Cfg) (s : Store) (op : Op) (hi : Inv s) : Inv (step c s op) := by
  unfold step
  split
  · next s' h => exact exec_inv h hi
  · exact hi

theorem inv_run (c : Cfg) (s : Store) (ops : List Op) (hi : Inv s) : Inv (run c s ops) := by
  unfold run
  induction ops generalizing s with
  | nil => exact hi
  | cons op rest ih => exact ih _ (step_inv c s op hi)

theorem inv_reachable (c : Cfg) (ops : List Op) : Inv (run c Store.empty ops) :=
  inv_run c _ ops inv_empty

theorem step_fin_mono (c : Cfg) (s : Store) (op : Op) (t : Nat) (h : s.fin.get t ≠ none) :
    (step c s op).fin.get t ≠ none := by
  unfold step
  split
  · next s' he =>
    have := (exec_frame he).1 t (by cases hf : s.fin.get t with | none => exact absurd hf h | some _ => rfl)
    intro e; rw [e] at this; cases this
  · exact h

/-- a FINALIZATION record is never removed -/
theorem finalization_permanent (c : Cfg) (s : Store) (ops : List Op) (t : Nat) (h : s.fin.get t ≠ none) :
    (run c s ops).fin.get t ≠ none := by
  unfold run
  induction ops generalizing s with
  | nil => exact h
  | cons op rest ih => exact ih _ (step_fin_mono c s op t h)

/-- the holder `t` of a slot is guarded over a history when it is finalized at the start or
    no call of the history carries the fork flag -/
def Guarded (s : Store) (t : Nat) (ops : List Op) : Prop :=
  s.fin.get t ≠ none ∨ ∀ op ∈ ops, op.isFork = false

theorem Guarded.head {s : Store} {t : Nat} {op : Op} {ops : List Op} (g : Guarded s t (op :: ops)) :
    Prot s op t := by
  rcases g with g | g
  · exact Or.inr g
  · exact Or.inl (g op List.mem_cons_self)

theorem Guarded.tail (c : Cfg) {s : Store} {t : Nat} {op : Op} {ops : List Op} (g : Guarded s t (op :: ops)) :
    Guarded (step c s op) t ops := by
  rcases g with g | g
  · exact Or.inl (step_fin_mono c s op t g)
  · exact Or.inr (fun o ho => g o (List.mem_cons_of_mem _ ho))

/-- holder of an output over any guarded history -/
theorem holder_stable_utxo (c : Cfg) (s : Store) (ops : List Op) (x : Nat × Nat) (t : Nat)
    (hi : Inv s) (hx : s.utxo.get x = some t) (h0 : t ≠ 0) (g : Guarded s t ops) :
    (run c s ops).utxo.get x = some t := by
  unfold run
  induction ops generalizing s with
  | nil => exact hx
  | cons op rest ih =>
    refine ih (step c s op) (step_inv c s op hi) ?_ (g.tail c)
    unfold step
    split
    · next s' he => exact exec_holder_utxo he hi hx h0 g.head
    · exact hx

theorem holder_stable_deposit (c : Cfg) (s : Store) (ops : List Op) (d t : Nat)
    (hx : s.deposit.get d = some t) (g : Guarded s t ops) :
    (run c s ops).deposit.get d = some t := by
  unfold run
  induction ops generalizing s with
  | nil => exact hx
  | cons op rest ih =>
    refine ih (step c s op) ?_ (g.tail c)
    unfold step
    split
    · next s' he => exact exec_holder_deposit he hx g.head
    · exact hx

theorem holder_stable_mint (c : Cfg) (s : Store) (ops : List Op) (b : Nat) (v : Nat × Nat)
    (hx : s.mint.get b = some v) (g : Guarded s v.1 ops) :
    (run c s ops).mint.get b = some v := by
  unfold run
  induction ops generalizing s with
  | nil => exact hx
  | cons op rest ih =>
    refine ih (step c s op) ?_ (g.tail c)
    unfold step
    split
    · next s' he => exact exec_holder_mint he hx g.head
    · exact hx

/-- `finalized_holder_stable`: once a finalized transaction `t` holds an output, a deposit or a
    mint batch, it holds it after *any* further list of calls (fork takeovers, other
    finalizations, anything).  For outputs the database must satisfy `Inv`, which every
    database reachable from the empty one does. -/
theorem finalized_holder_stable (c : Cfg) (s : Store) (ops : List Op) (t : Nat) (hfin : s.fin.get t ≠ none) :
    (∀ x, Inv s → t ≠ 0 → s.utxo.get x = some t → (run c s ops).utxo.get x = some t) ∧
    (∀ d, s.deposit.get d = some t → (run c s ops).deposit.get d = some t) ∧
    (∀ b a, s.mint.get b = some (t, a) → (run c s ops).mint.get b = some (t, a)) :=
  ⟨fun x hi h0 hx => holder_stable_utxo c s ops x t hi hx h0 (Or.inl hfin),
   fun d hx => holder_stable_deposit c s ops d t hx (Or.inl hfin),
   fun b a hx => holder_stable_mint c s ops b (t, a) hx (Or.inl hfin)⟩

example : (run cfg0 sample [.lockUTXOs [(9, 1)] 8 true, .lockUTXOs [(9, 1), (9, 2)] 5 true,
    .snapshot 1 [{ id := 9, ins := [.genesis], outs := [⟨0, [1]⟩, ⟨164, [2]⟩, ⟨0, [3]⟩] }] .ok,
    .snapshot 2 [{ id := 5, ins := [.utxo 9 0], outs := [⟨0, [4]⟩] }] .ok]).utxo.get (9, 1) = some 6 := by decide

/-- `nonfork_holder_stable` (double-spend freedom of ordinary admission): over any history in
    which no call carries the fork flag — any mix of admissions by any transactions, body
    writes and finalizations — whoever holds a slot keeps it.  So of all conflicting non-fork
    requests for a slot exactly the first one wins, under every interleaving. -/
theorem nonfork_holder_stable (c : Cfg) (s : Store) (ops : List Op) (hnf : ∀ op ∈ ops, op.isFork = false) :
    (∀ x t, Inv s → t ≠ 0 → s.utxo.get x = some t → (run c s ops).utxo.get x = some t) ∧
    (∀ d t, s.deposit.get d = some t → (run c s ops).deposit.get d = some t) ∧
    (∀ b v, s.mint.get b = some v → (run c s ops).mint.get b = some v) :=
  ⟨fun x t hi h0 hx => holder_stable_utxo c s ops x t hi hx h0 (Or.inr hnf),
   fun d t hx => holder_stable_deposit c s ops d t hx (Or.inr hnf),
   fun b v hx => holder_stable_mint c s ops b v hx (Or.inr hnf)⟩

-- two conflicting admissions of the free output (9,2): the first wins in either order
example : (run cfg0 sample [.lockUTXOs [(9, 2)] 7 false, .lockUTXOs [(9, 2)] 8 false]).utxo.get (9, 2) = some 7 := by decide
example : (run cfg0 sample [.lockUTXOs [(9, 2)] 8 false, .lockUTXOs [(9, 2)] 7 false]).utxo.get (9, 2) = some 8 := by decide
/-- executable form of `Inv` -/
def invB (s : Store) : Bool := s.utxo.all (fun p => (s.fin.get p.1.1).isSome)

theorem inv_of_invB {s : Store} (h : invB s = true) : Inv s := by
  intro y hy
  cases hg : s.utxo.get y with
  | none => rw [hg] at hy; cases hy
  | some v =>
    have := List.all_eq_true.mp h (y, v) (Map.mem_of_get hg)
    exact this

example : Inv sample := inv_of_invB (by decide)

/-! ## the deposit slot key is injective in (chain, transaction, index) -/

theorem colon_not_digit : ¬ ':' ∈ Nat.toDigits 10 n := by
  intro h
  have := Nat.isDigit_of_mem_toDigits (by decide) (by decide) h
  simp [Char.isDigit] at this

theorem toDigits_inj {m n : Nat} (h : Nat.toDigits 10 m = Nat.toDigits 10 n) : m = n := by
  have hm := Nat.ofDigitChars_ten_toDigits (n := m)
  have hn := Nat.ofDigitChars_ten_toDigits (n := n)
  rw [h] at hm
  exact hm.symm.trans hn

/-- the part after the last `:` determines the split -/
theorem split_last_colon {a a' d d' : List Char} (hd : ¬ ':' ∈ d) (hd' : ¬ ':' ∈ d')
    (h : a ++ ':' :: d = a' ++ ':' :: d') : a = a' ∧ d = d' := by
  induction a generalizing a' with
  | nil =>
    cases a' with
    | nil => simp at h; exact ⟨rfl, h⟩
    | cons c r =>
      simp at h
      exact absurd (by rw [h.2]; simp) hd
  | cons c r ih =>
    cases a' with
    | nil =>
      simp at h
      exact absurd (by rw [← h.2]; simp) hd'
    | cons c' r' =>
      simp at h
      obtain ⟨rfl, h2⟩ := h
      obtain ⟨rfl, rfl⟩ := ih h2
      exact ⟨rfl, rfl⟩

/-- `depositKey_inj`: two deposits whose chain ids print with the same width (always 64 hex
    characters) and that differ in chain, transaction id or output index hash different texts —
    even when the transaction id itself contains `:` and digits. -/
theorem depositKey_inj (chain chain' tx tx' : List Char) (i i' : Nat)
    (hlen : chain.length = chain'.length)
    (h : DepositKey.text chain tx i = DepositKey.text chain' tx' i') :
    chain = chain' ∧ tx = tx' ∧ i = i' := by
  unfold DepositKey.text at h
  obtain ⟨hc, hr⟩ := List.append_inj h hlen
  simp only [List.cons.injEq, true_and] at hr
  obtain ⟨ht, hd⟩ := split_last_colon colon_not_digit colon_not_digit hr
  exact ⟨hc, ht, toDigits_inj hd⟩

example : DepositKey.text "ab".toList "0xabc:1".toList 1 ≠ DepositKey.text "ab".toList "0xabc".toList 11 := by decide
example : DepositKey.text "ab".toList "0xabc:1".toList 1 = "ab:0xabc:1:1".toList := by decide

end Mixin.C03
