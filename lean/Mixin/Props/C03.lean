import Mixin.Model.Locks
namespace Mixin.C03
open Mixin.KV Mixin.Locks

theorem multi_input_atomic (c : Cfg) (s : Store) (op : Op) (h : ∀ s', exec c s op ≠ .ok s') :
    step c s op = s := by
  unfold step
  split
  · next s' he => exact absurd he (h s')
  · rfl

end Mixin.C03
