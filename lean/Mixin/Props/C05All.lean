import Mixin.Props.C05
import Mixin.Props.BridgeC06C05
/-! Aggregator: the C05 obligations proper plus the bridge from the byte-level decoder model
    (C06) that states them over byte strings. `props/C05.json` builds this module. -/
