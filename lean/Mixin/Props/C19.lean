import Mixin.Model.Round
import Mixin.Facts.ExpectedC19
/-!
# C19 — a live round never spans a full round gap and holds no duplicates

Theorems about `Mixin.Model.Round` (model of `kernel/round.go`
`CacheRound.validateSnapshot / Gap / asFinal` and the closing assertion of
`common.ComputeRoundHash`).

Timestamps are natural numbers; the Go code computes `ts + gap` in `uint64`, the model
computes it modulo 2^64.  Every theorem that needs it carries the explicit hypothesis
`NoWrap gap l` (`ts + gap < 2^64` for the snapshots involved).  It is true of every timestamp
the admission path lets through (bounded by wall clock + 30 s, i.e. < 2^61 for the next
decades); `close_fails_when_wrapping` shows that the hypothesis cannot be dropped, and the
harness replays that witness on the real code (the outcome there is the same panic).
-/
namespace Mixin.C19
open Mixin.Round

/-! ## the invariant -/

/-- two snapshots may live in the same round -/
def Compatible (day : Nat) (a b : Snap) : Prop :=
  a.hash ≠ b.hash ∧ a.ts ≠ b.ts ∧ a.ts / day = b.ts / day ∧ ∀ t ∈ a.txs, t ∉ b.txs

/-- the round invariant: pairwise distinct hashes, pairwise distinct timestamps, pairwise
    disjoint transaction lists, one day, and any two timestamps less than a gap apart
    (equivalently `max ts < min ts + gap`, see `span_iff_max_min`); every member carries the
    round's number and a non-zero hash. -/
structure RInv (gap day : Nat) (r : Round) : Prop where
  pair : r.snaps.Pairwise (Compatible day)
  span : ∀ a ∈ r.snaps, ∀ b ∈ r.snaps, a.ts < b.ts + gap
  wf : ∀ a ∈ r.snaps, a.round = r.number ∧ a.hash ≠ 0

/-- no `ts + gap` wraps around 2^64 -/
def NoWrap (gap : Nat) (l : List Snap) : Prop := ∀ a ∈ l, a.ts + gap < two64

/-! ## helper lemmas -/

theorem compatible_symm {day : Nat} {a b : Snap} (h : Compatible day a b) : Compatible day b a := by
  obtain ⟨h1, h2, h3, h4⟩ := h
  exact ⟨fun e => h1 e.symm, fun e => h2 e.symm, h3.symm, fun t hb ha => h4 t ha hb⟩

theorem conflicts_false {day : Nat} {s cs : Snap} (h : conflicts day s cs = false) :
    Compatible day cs s := by
  simp only [conflicts, Bool.or_eq_false_iff, beq_eq_false_iff_ne, bne_eq_false_iff_eq,
    List.any_eq_false, List.contains_iff_mem] at h
  obtain ⟨⟨⟨h1, h2⟩, h3⟩, h4⟩ := h
  exact ⟨h1, h2, h3, fun t hc hs => h4 t hs hc⟩

theorem conflicts_false_iff {day : Nat} {s cs : Snap} :
    conflicts day s cs = false ↔ Compatible day cs s := by
  constructor
  · exact conflicts_false
  · intro ⟨h1, h2, h3, h4⟩
    simp only [conflicts, Bool.or_eq_false_iff, beq_eq_false_iff_ne, bne_eq_false_iff_eq,
      List.any_eq_false, List.contains_iff_mem]
    exact ⟨⟨⟨h1, h2⟩, h3⟩, fun t hs hc => h4 t hc hs⟩

theorem minTs_le : ∀ {l : List Snap} {a : Snap}, a ∈ l → minTs l ≤ a.ts
  | [], _, h => by cases h
  | [s], a, h => by simp at h; subst h; simp [minTs]
  | s :: t :: u, a, h => by
    have ih := @minTs_le (t :: u) a
    simp only [minTs]
    rcases List.mem_cons.mp h with h | h
    · subst h; exact Nat.min_le_left _ _
    · exact Nat.le_trans (Nat.min_le_right _ _) (ih h)

theorem le_maxTs : ∀ {l : List Snap} {a : Snap}, a ∈ l → a.ts ≤ maxTs l
  | [], _, h => by cases h
  | [s], a, h => by simp at h; subst h; simp [maxTs]
  | s :: t :: u, a, h => by
    have ih := @le_maxTs (t :: u) a
    simp only [maxTs]
    rcases List.mem_cons.mp h with h | h
    · subst h; exact Nat.le_max_left _ _
    · exact Nat.le_trans (ih h) (Nat.le_max_right _ _)

theorem minTs_mem : ∀ {l : List Snap}, l ≠ [] → ∃ a ∈ l, a.ts = minTs l
  | [], h => absurd rfl h
  | [s], _ => ⟨s, by simp, by simp [minTs]⟩
  | s :: t :: u, _ => by
    obtain ⟨a, ha, he⟩ := @minTs_mem (t :: u) (by simp)
    simp only [minTs]
    by_cases hc : s.ts ≤ minTs (t :: u)
    · exact ⟨s, by simp, by rw [Nat.min_eq_left hc]⟩
    · exact ⟨a, List.mem_cons_of_mem _ ha, by rw [Nat.min_eq_right (by omega)]; exact he⟩

theorem maxTs_mem : ∀ {l : List Snap}, l ≠ [] → ∃ a ∈ l, a.ts = maxTs l
  | [], h => absurd rfl h
  | [s], _ => ⟨s, by simp, by simp [maxTs]⟩
  | s :: t :: u, _ => by
    obtain ⟨a, ha, he⟩ := @maxTs_mem (t :: u) (by simp)
    simp only [maxTs]
    by_cases hc : maxTs (t :: u) ≤ s.ts
    · exact ⟨s, by simp, by rw [Nat.max_eq_left hc]⟩
    · exact ⟨a, List.mem_cons_of_mem _ ha, by rw [Nat.max_eq_right (by omega)]; exact he⟩

theorem u64_of_lt {x : Nat} (h : x < two64) : u64 x = x := Nat.mod_eq_of_lt h

/-- "any two timestamps are less than a gap apart" is the same as `max < min + gap` -/
theorem span_iff_max_min {gap : Nat} {l : List Snap} (hne : l ≠ []) :
    (∀ a ∈ l, ∀ b ∈ l, a.ts < b.ts + gap) ↔ maxTs l < minTs l + gap := by
  constructor
  · intro h
    obtain ⟨a, ha, hea⟩ := maxTs_mem hne
    obtain ⟨b, hb, heb⟩ := minTs_mem hne
    have := h a ha b hb
    omega
  · intro h a ha b hb
    have := le_maxTs ha
    have := minTs_le hb
    omega

/-- under the invariant `Gap()` does not panic and returns the extreme timestamps -/
theorem gapOf_of_inv {gap day : Nat} {r : Round} (hinv : RInv gap day r) (hne : r.snaps ≠ [])
    (hw : NoWrap gap r.snaps) :
    gapOf gap r.snaps = some (minTs r.snaps, maxTs r.snaps) ∧
      maxTs r.snaps < minTs r.snaps + gap := by
  have hspan := (span_iff_max_min hne).mp hinv.span
  obtain ⟨b, hb, heb⟩ := minTs_mem hne
  have hwb := hw b hb
  have hu : u64 (minTs r.snaps + gap) = minTs r.snaps + gap := by
    rw [← heb]; exact u64_of_lt hwb
  refine ⟨?_, hspan⟩
  unfold gapOf
  have : r.snaps.isEmpty = false := by
    cases h : r.snaps with
    | nil => exact absurd h hne
    | cons _ _ => rfl
  simp only [this, hu]
  have : ¬ (maxTs r.snaps ≥ minTs r.snaps + gap) := by omega
  simp [this]

/-! ## the property theorems -/

open Classical in
/-- **Exact acceptance rule.**  On a round satisfying the invariant, a well-formed candidate
    (right round number, non-zero hash) is accepted exactly when it is compatible with every
    stored snapshot and lies less than a gap from both ends; acceptance appends it (with
    `add = true`) or leaves the round alone (`add = false`); nothing panics. -/
theorem validate_spec {gap day : Nat} {r : Round} {s : Snap} {add : Bool}
    (hinv : RInv gap day r) (hw : NoWrap gap (s :: r.snaps))
    (hs : s.round = r.number ∧ s.hash ≠ 0) :
    validateSnapshot gap day r s add =
      if (∀ cs ∈ r.snaps, Compatible day cs s) ∧
          (∀ cs ∈ r.snaps, cs.ts < s.ts + gap ∧ s.ts < cs.ts + gap)
      then Outcome.ok (if add then { r with snaps := r.snaps ++ [s] } else r)
      else Outcome.reject := by
  have hws : s.ts + gap < two64 := hw s (by simp)
  have hwr : NoWrap gap r.snaps := fun a ha => hw a (List.mem_cons_of_mem _ ha)
  unfold validateSnapshot
  have h0 : ¬ (s.round ≠ r.number ∨ s.hash = 0) := by
    intro h; rcases h with h | h
    · exact h hs.1
    · exact hs.2 h
  simp only [h0, if_false]
  by_cases hc : r.snaps.any (conflicts day s) = true
  · -- a conflicting stored snapshot: both sides reject
    simp only [hc, if_true]
    have : ¬ ((∀ cs ∈ r.snaps, Compatible day cs s) ∧
        (∀ cs ∈ r.snaps, cs.ts < s.ts + gap ∧ s.ts < cs.ts + gap)) := by
      intro ⟨hall, _⟩
      obtain ⟨cs, hcs, hcf⟩ := List.any_eq_true.mp hc
      have := conflicts_false_iff.mpr (hall cs hcs)
      rw [this] at hcf; cases hcf
    simp [this]
  · have hc' : r.snaps.any (conflicts day s) = false := by
      cases h : r.snaps.any (conflicts day s) with
      | true => exact absurd h hc
      | false => rfl
    have hall : ∀ cs ∈ r.snaps, Compatible day cs s := by
      intro cs hcs
      exact conflicts_false (List.any_eq_false.mp hc' cs hcs |> fun h => by simpa using h)
    simp only [hc', Bool.false_eq_true, if_false]
    by_cases hne : r.snaps = []
    · -- empty round: sentinel start > end, nothing is measured
      have : gapOf gap r.snaps = some (sentinelStart, 0) := by simp [gapOf, hne]
      simp only [this]
      have hsent : ¬ (sentinelStart ≤ 0) := by decide
      simp [hsent, hne]
    · obtain ⟨hg, hspan⟩ := gapOf_of_inv hinv hne hwr
      simp only [hg]
      obtain ⟨b, hb, heb⟩ := minTs_mem hne
      obtain ⟨a, ha, hea⟩ := maxTs_mem hne
      have hu1 : u64 (s.ts + gap) = s.ts + gap := u64_of_lt hws
      have hu2 : u64 (minTs r.snaps + gap) = minTs r.snaps + gap := by
        rw [← heb]; exact u64_of_lt (hwr b hb)
      have hmm : minTs r.snaps ≤ maxTs r.snaps := by
        have := minTs_le ha; omega
      simp only [hu1, hu2]
      by_cases hnear : ∀ cs ∈ r.snaps, cs.ts < s.ts + gap ∧ s.ts < cs.ts + gap
      · have h1 := hnear a ha
        have h2 := hnear b hb
        have : ¬ (minTs r.snaps ≤ maxTs r.snaps ∧
            (s.ts < minTs r.snaps ∧ s.ts + gap ≤ maxTs r.snaps ∨
              s.ts > maxTs r.snaps ∧ minTs r.snaps + gap ≤ s.ts)) := by omega
        simp only [this, if_false]
        have : (∀ cs ∈ r.snaps, Compatible day cs s) ∧
          (∀ cs ∈ r.snaps, cs.ts < s.ts + gap ∧ s.ts < cs.ts + gap) := ⟨hall, hnear⟩
        rw [if_pos this]
      · have hrej : minTs r.snaps ≤ maxTs r.snaps ∧
            (s.ts < minTs r.snaps ∧ s.ts + gap ≤ maxTs r.snaps ∨
              s.ts > maxTs r.snaps ∧ minTs r.snaps + gap ≤ s.ts) := by
          refine ⟨hmm, ?_⟩
          apply Classical.byContradiction
          intro hno
          apply hnear
          intro cs hcs
          have := minTs_le hcs
          have := le_maxTs hcs
          omega
        simp only [hrej, and_self, if_true]
        have : ¬ ((∀ cs ∈ r.snaps, Compatible day cs s) ∧
          (∀ cs ∈ r.snaps, cs.ts < s.ts + gap ∧ s.ts < cs.ts + gap)) := fun h => hnear h.2
        rw [if_neg this]

/-- **The invariant is inductive.**  Whatever `validateSnapshot` accepts keeps the invariant. -/
theorem round_inv_step {gap day : Nat} (hgap : 0 < gap) {r r' : Round} {s : Snap} {add : Bool}
    (hinv : RInv gap day r) (hw : NoWrap gap (s :: r.snaps))
    (hok : validateSnapshot gap day r s add = .ok r') : RInv gap day r' := by
  by_cases hs : s.round = r.number ∧ s.hash ≠ 0
  · rw [validate_spec hinv hw hs] at hok
    split at hok
    · next hcond =>
      obtain ⟨hall, hnear⟩ := hcond
      injection hok with hok
      cases add with
      | false => simp at hok; subst hok; exact hinv
      | true =>
        simp at hok; subst hok
        refine ⟨?_, ?_, ?_⟩
        · simp only [List.pairwise_append]
          exact ⟨hinv.pair, by simp, fun a ha b hb => by
            simp at hb; subst hb; exact hall a ha⟩
        · intro a ha b hb
          simp only [List.mem_append, List.mem_singleton] at ha hb
          rcases ha with ha | ha <;> rcases hb with hb | hb
          · exact hinv.span a ha b hb
          · subst hb; exact (hnear a ha).1
          · subst ha; exact (hnear b hb).2
          · subst ha; subst hb; omega
        · intro a ha
          simp only [List.mem_append, List.mem_singleton] at ha
          rcases ha with ha | ha
          · exact hinv.wf a ha
          · subst ha; exact hs
    · cases hok
  · -- ill-formed candidate: the Go code panics, nothing is accepted
    unfold validateSnapshot at hok
    have : s.round ≠ r.number ∨ s.hash = 0 := by
      by_cases h1 : s.round = r.number
      · right
        apply Classical.byContradiction
        intro h2; exact hs ⟨h1, h2⟩
      · left; exact h1
    simp [this] at hok

theorem inv_empty (gap day n : Nat) : RInv gap day { number := n, snaps := [] } :=
  ⟨List.Pairwise.nil, fun _ h => absurd h (by simp), fun _ h => absurd h (by simp)⟩

theorem offer_inv {gap day : Nat} (hgap : 0 < gap) {r : Round} {s : Snap}
    (hinv : RInv gap day r) (hw : NoWrap gap (s :: r.snaps)) : RInv gap day (offer gap day r s) := by
  unfold offer
  split
  · next r' h => exact round_inv_step hgap hinv hw h
  · exact hinv

theorem offer_snaps_subset {gap day : Nat} {r : Round} {s : Snap} :
    ∀ a ∈ (offer gap day r s).snaps, a ∈ s :: r.snaps := by
  intro a ha
  unfold offer at ha
  split at ha
  · next r' h =>
    unfold validateSnapshot at h
    split at h
    · cases h
    · split at h
      · cases h
      · split at h
        · cases h
        · split at h
          · cases h
          · injection h with h; subst h
            simp at ha
            rcases ha with ha | ha
            · exact List.mem_cons_of_mem _ ha
            · subst ha; simp
  · exact List.mem_cons_of_mem _ ha

theorem offerAll_inv {gap day : Nat} (hgap : 0 < gap) :
    ∀ (cands : List Snap) {r : Round}, RInv gap day r → NoWrap gap (cands ++ r.snaps) →
      RInv gap day (offerAll gap day r cands) ∧
        ∀ a ∈ (offerAll gap day r cands).snaps, a ∈ cands ++ r.snaps
  | [], r, hinv, _ => ⟨hinv, fun a ha => by simpa [offerAll] using ha⟩
  | s :: t, r, hinv, hw => by
    have hw1 : NoWrap gap (s :: r.snaps) := by
      intro a ha
      apply hw a
      simp only [List.mem_cons, List.mem_append] at ha ⊢
      rcases ha with ha | ha
      · exact Or.inl (Or.inl ha)
      · exact Or.inr ha
    have h1 := offer_inv hgap hinv hw1
    have hsub := @offer_snaps_subset gap day r s
    have hw2 : NoWrap gap (t ++ (offer gap day r s).snaps) := by
      intro a ha
      apply hw a
      simp only [List.mem_cons, List.mem_append] at ha ⊢
      rcases ha with ha | ha
      · exact Or.inl (Or.inr ha)
      · have := hsub a ha
        simp only [List.mem_cons] at this
        rcases this with h | h
        · exact Or.inl (Or.inl h)
        · exact Or.inr h
    obtain ⟨h2, h3⟩ := offerAll_inv hgap t h1 hw2
    refine ⟨h2, ?_⟩
    intro a ha
    have := h3 a ha
    simp only [List.mem_cons, List.mem_append] at this ⊢
    rcases this with h | h
    · exact Or.inl (Or.inr h)
    · have := hsub a h
      simp only [List.mem_cons] at this
      rcases this with h | h
      · exact Or.inl (Or.inl h)
      · exact Or.inr h

/-- **Every reachable live round satisfies the invariant**: start from the empty round
    `n`, offer any sequence of candidates in any order (accepted ones are appended, rejected
    and panicking ones are skipped). The resulting round has pairwise distinct hashes and
    timestamps, pairwise disjoint transactions, lies within one day, and spans strictly less
    than the gap. -/
theorem round_inv_reachable {gap day : Nat} (hgap : 0 < gap) (n : Nat) (cands : List Snap)
    (hw : NoWrap gap cands) :
    let r := offerAll gap day { number := n, snaps := [] } cands
    r.snaps.Pairwise (fun a b =>
        a.hash ≠ b.hash ∧ a.ts ≠ b.ts ∧ a.ts / day = b.ts / day ∧ ∀ t ∈ a.txs, t ∉ b.txs) ∧
      (∀ a ∈ r.snaps, ∀ b ∈ r.snaps, a.ts < b.ts + gap) ∧
      (r.snaps ≠ [] → maxTs r.snaps < minTs r.snaps + gap) := by
  intro r
  have h := (offerAll_inv hgap cands (inv_empty gap day n) (by simpa using hw)).1
  exact ⟨h.pair, h.span, fun hne => (span_iff_max_min hne).mp h.span⟩

/-- **Closing never fails.** Under the invariant a non-empty round closes: the assertion
    inside `ComputeRoundHash` (and the identical one inside `Gap`) holds, `asFinal` returns
    start = smallest and end = largest timestamp, and `end < start + gap`. -/
theorem close_never_fails {gap day : Nat} {r : Round} (hinv : RInv gap day r)
    (hne : r.snaps ≠ []) (hw : NoWrap gap r.snaps) :
    asFinal gap r = .ok (minTs r.snaps) (maxTs r.snaps) ∧
      gapOf gap r.snaps = some (minTs r.snaps, maxTs r.snaps) ∧
      maxTs r.snaps < minTs r.snaps + gap := by
  obtain ⟨hg, hspan⟩ := gapOf_of_inv hinv hne hw
  refine ⟨?_, hg, hspan⟩
  unfold gapOf at hg
  unfold asFinal
  have hemp : r.snaps.isEmpty = false := by
    cases h : r.snaps with
    | nil => exact absurd h hne
    | cons _ _ => rfl
  simp only [hemp, Bool.false_eq_true, if_false] at hg ⊢
  split at hg
  · cases hg
  · next hlt => simp [hlt]

/-- closing after any accepted sequence (the two previous theorems combined) -/
theorem close_after_any_sequence {gap day : Nat} (hgap : 0 < gap) (n : Nat) (cands : List Snap)
    (hw : NoWrap gap cands) :
    let r := offerAll gap day { number := n, snaps := [] } cands
    r.snaps ≠ [] → ∃ a b, asFinal gap r = .ok a b ∧ b < a + gap := by
  intro r hne
  obtain ⟨hinv, hsub⟩ := offerAll_inv hgap cands (inv_empty gap day n) (by simpa using hw)
  have hw' : NoWrap gap r.snaps := fun a ha => hw a (by simpa using hsub a ha)
  obtain ⟨h1, _, h3⟩ := close_never_fails hinv hne hw'
  exact ⟨_, _, h1, h3⟩

/-- **A rejected (or panicking) candidate leaves the round as it was**, a validate-only call
    (`add = false`) never changes it, and an accepted candidate is appended and nothing else. -/
theorem reject_leaves_round {gap day : Nat} (r : Round) (s : Snap) :
    (∀ r', validateSnapshot gap day r s true ≠ .ok r') → offer gap day r s = r := by
  intro h
  unfold offer
  split
  · next r' h' => exact absurd h' (h r')
  · rfl

theorem accept_appends {gap day : Nat} {r r' : Round} {s : Snap} {add : Bool}
    (h : validateSnapshot gap day r s add = .ok r') :
    r' = if add then { r with snaps := r.snaps ++ [s] } else r := by
  unfold validateSnapshot at h
  split at h
  · cases h
  · split at h
    · cases h
    · split at h
      · cases h
      · split at h
        · cases h
        · injection h with h; exact h.symm

/-- The `NoWrap` hypothesis cannot be dropped: a single snapshot with `ts + gap ≥ 2^64` is
    accepted into the empty round (nothing is measured there) and the round then fails to
    close.  Replayed on the real `CacheRound` by the harness corpus. -/
theorem close_fails_when_wrapping :
    let s : Snap := { hash := 1, ts := two64 - 1, txs := [], round := 5 }
    let r := offer 3000000000 86400000000000 { number := 5, snaps := [] } s
    r.snaps = [s] ∧ asFinal 3000000000 r = .panic := by
  decide

/-! ## non-vacuity: concrete instances with the real constants -/

section Examples
open Mixin.Facts.Gen

/-- the constants the theorems are instantiated with satisfy `0 < gap` -/
theorem gap_pos : 0 < config_SnapshotRoundGap := Mixin.Facts.ExpectedC19.gap_pos

def g : Nat := 3000000000
def d : Nat := 86400000000000
def s1 : Snap := { hash := 11, ts := 1700000000000000000, txs := [1], round := 7 }
def s2 : Snap := { hash := 12, ts := 1700000002999999999, txs := [2, 3], round := 7 }
def s3 : Snap := { hash := 13, ts := 1700000003000000000, txs := [4], round := 7 }
def s0 : Snap := { hash := 14, ts := 1699999999999999999, txs := [5], round := 7 }
def r0 : Round := { number := 7, snaps := [] }

-- start + gap - 1 is accepted, start + gap is rejected, and after the end moved to
-- start + gap - 1 a candidate one nanosecond before the start is rejected as well
example : validateSnapshot g d r0 s1 true = .ok { number := 7, snaps := [s1] } := by decide
example : validateSnapshot g d { number := 7, snaps := [s1] } s2 true
    = .ok { number := 7, snaps := [s1, s2] } := by decide
example : validateSnapshot g d { number := 7, snaps := [s1] } s3 true = .reject := by decide
example : validateSnapshot g d { number := 7, snaps := [s1] } s0 true
    = .ok { number := 7, snaps := [s1, s0] } := by decide
example : validateSnapshot g d { number := 7, snaps := [s1, s2] } s0 true = .reject := by decide
example : asFinal g { number := 7, snaps := [s1, s2] } = .ok 1700000000000000000 1700000002999999999 := by
  decide
example : NoWrap g [s1, s2] := by
  intro a ha; simp at ha; rcases ha with h | h <;> subst h <;> decide
-- duplicates
example : validateSnapshot g d { number := 7, snaps := [s1] } { s2 with hash := 11 } true = .reject := by
  decide
example : validateSnapshot g d { number := 7, snaps := [s1] } { s2 with txs := [9, 1] } true = .reject := by
  decide
-- day leap: 1700006400e9 is a day boundary
example : validateSnapshot g d { number := 7, snaps := [{ s1 with ts := 1700006399999999999 }] }
    { s2 with ts := 1700006400000000000 } true = .reject := by decide

end Examples

end Mixin.C19
