import Mixin.Facts.ExpectedC26
import Mixin.Model.Work
/-!
# C26 — node work is credited exactly once per snapshot

Theorems about `Mixin.Model.Work` (the model of `storage/badger_work.go:WriteRoundWork`).

The specification is a *ledger that knows nothing about rounds or checkpoints* (`G`): a snapshot
of a node is credited when it is first seen — ever — by an accepted, non-stale submission with
`credit = true` (whose first new snapshot has signers: the code's own condition). The main theorem
shows that the per-round checkpoint of the code implements exactly this ledger for every history of
submissions whose snapshots (a) have distinct hashes within one call, (b) have duplicate-free
signer lists and (c) belong to one round each (`rnd`), whatever the interleaving of nodes, rounds,
re-submissions, growing sets, stale rounds, credit flags and panicking calls.
Hypotheses (a)–(c) are not asserted by the code; the harness runs the excluded points
(`submitx`) and they do double count there — see the report. The kernel's only caller reads the
works of one round from keys `(node, round, timestamp)`, which satisfies them.
-/
namespace Mixin.C26
open Mixin.Work

/-! ## counters -/

theorem getC_addC (k k' : Hash × Nat) (n : Nat) (m : List ((Hash × Nat) × Nat)) :
    getC k' (addC k n m) = if k = k' then getC k m + n else getC k' m := by
  simp [addC, getC]

theorem creditSigners_cons (node : Hash) (d : Nat) (si : Hash) (rest : List Hash)
    (m : List ((Hash × Nat) × Nat)) :
    creditSigners node d (si :: rest) m =
      creditSigners node d rest (if si = node then m else addC (si, d) 1 m) := by
  simp [creditSigners]

theorem getC_creditSigners (node : Hash) (d : Nat) (signers : List Hash) :
    ∀ (m : List ((Hash × Nat) × Nat)) (x : Hash) (d' : Nat),
      getC (x, d') (creditSigners node d signers m) =
        getC (x, d') m + (if x ≠ node ∧ d' = d then signers.count x else 0) := by
  induction signers with
  | nil => intro m x d'; simp [creditSigners]
  | cons si rest ih =>
    intro m x d'
    rw [creditSigners_cons, ih]
    by_cases hsn : si = node
    · subst hsn
      by_cases hx : x ≠ si ∧ d' = d
      · have : ¬ si = x := fun hc => hx.1 hc.symm
        simp [hx, List.count_cons, this]
      · simp [hx]
    · simp only [hsn, if_false, getC_addC]
      by_cases hk : (si, d) = (x, d')
      · cases hk
        simp [hsn, List.count_cons]; omega
      · by_cases hx : x ≠ node ∧ d' = d
        · have : ¬ si = x := by
            intro hc; apply hk; rw [hc, hx.2]
          simp [hk, hx, List.count_cons, this]
        · simp [hk, hx]

theorem count_allSigners (x : Hash) (fresh : List Snap) :
    (allSigners fresh).count x = signerCount x fresh := by
  induction fresh with
  | nil => simp [allSigners, signerCount]
  | cons w r ih =>
    simp only [allSigners, signerCount] at ih ⊢
    simp [List.count_append, ih]

theorem count_nodup (x : Hash) (l : List Hash) (hn : l.Nodup) :
    l.count x = if x ∈ l then 1 else 0 := by
  induction l with
  | nil => simp
  | cons a r ih =>
    have hc := List.nodup_cons.mp hn
    rw [List.count_cons, ih hc.2]
    by_cases hax : a = x
    · subst hax; simp [hc.1]
    · have : ¬ x = a := fun h => hax h.symm
      simp [hax, this]

theorem signerCount_nodup (x : Hash) (fresh : List Snap) (hn : ∀ w ∈ fresh, w.signers.Nodup) :
    signerCount x fresh = (fresh.filter (fun w => x ∈ w.signers)).length := by
  induction fresh with
  | nil => simp [signerCount]
  | cons w r ih =>
    have hw := hn w (by simp)
    have hr : ∀ w' ∈ r, w'.signers.Nodup := fun w' h => hn w' (by simp [h])
    simp only [signerCount, List.map_cons, List.sum_cons] at ih ⊢
    rw [ih hr, count_nodup x w.signers hw]
    by_cases hx : x ∈ w.signers
    · simp [List.filter, hx]; omega
    · simp [List.filter, hx]

theorem filter_length_const (F : List Snap) (p : Snap → Bool) (q : Snap → Prop) [DecidablePred q] (c : Prop)
    [Decidable c] (h : ∀ w ∈ F, (p w = true ↔ (q w ∧ c))) :
    (F.filter p).length = if c then (F.filter (fun w => q w)).length else 0 := by
  by_cases hc : c
  · simp only [hc, if_true]
    congr 1
    apply List.filter_congr
    intro w hw
    have := h w hw
    by_cases hq : q w
    · simp [hq, this, hc]
    · have hp : ¬ p w = true := fun hp => hq (this.mp hp).1
      simp [hq, hp]
  · simp only [hc, if_false, List.length_eq_zero_iff, List.filter_eq_nil_iff]
    intro w hw hp
    exact hc ((h w hw).mp hp).2

theorem filter_length_all (F : List Snap) (p : Snap → Bool) (c : Prop) [Decidable c]
    (h : ∀ w ∈ F, (p w = true ↔ c)) :
    (F.filter p).length = if c then F.length else 0 := by
  by_cases hc : c
  · simp only [hc, if_true]
    congr 1
    rw [List.filter_eq_self]
    intro w hw
    exact (h w hw).mpr hc
  · simp only [hc, if_false, List.length_eq_zero_iff, List.filter_eq_nil_iff]
    intro w hw hp
    exact hc ((h w hw).mp hp)

theorem nodup_map_pair (node : Hash) (l : List Hash) (hn : l.Nodup) :
    (l.map (fun h => (node, h))).Nodup := by
  induction l with
  | nil => simp
  | cons a r ih =>
    have hc := List.nodup_cons.mp hn
    simp only [List.map_cons, List.nodup_cons, List.mem_map, not_exists, not_and]
    refine ⟨?_, ih hc.2⟩
    intro x hx heq
    cases heq
    exact hc.1 hx

/-! ## the credit section -/

/-- the snapshots a call credits: all new ones, or none (first new snapshot without signers, or
    `credit = false`) -/
def creditedOf (fresh : List Snap) (credit : Bool) : List Snap :=
  match fresh with
  | [] => []
  | f0 :: _ => if f0.signers = [] ∨ credit = false then [] else fresh

theorem credit_counts (s1 s' : S) (node : Hash) (fresh : List Snap) (credit : Bool)
    (hcs : creditStep s1 node fresh credit = some s') (hn : ∀ w ∈ fresh, w.signers.Nodup) :
    s'.off = s1.off ∧
    (∀ n d, getC (n, d) s'.lead = getC (n, d) s1.lead +
      ((creditedOf fresh credit).filter (fun w => n = node ∧ day w = d)).length) ∧
    (∀ x d, getC (x, d) s'.sign = getC (x, d) s1.sign +
      ((creditedOf fresh credit).filter (fun w => x ∈ w.signers ∧ x ≠ node ∧ day w = d)).length) := by
  cases fresh with
  | nil =>
    simp only [creditStep] at hcs
    cases hcs
    simp [creditedOf]
  | cons f0 rest =>
    simp only [creditStep] at hcs
    by_cases hc : f0.signers = [] ∨ credit = false
    · simp only [hc, if_true] at hcs
      cases hcs
      simp [creditedOf, hc]
    · simp only [hc, if_false] at hcs
      by_cases hbad : ∃ w ∈ f0 :: rest, badWork (day f0) w
      · rw [if_pos hbad] at hcs; cases hcs
      · rw [if_neg hbad] at hcs
        by_cases hcnt : signerCount node (f0 :: rest) ≠ (f0 :: rest).length
        · rw [if_pos hcnt] at hcs; cases hcs
        · rw [if_neg hcnt] at hcs
          cases hcs
          have hcnt' : signerCount node (f0 :: rest) = (f0 :: rest).length := by
            simpa using hcnt
          have hday : ∀ w ∈ f0 :: rest, day w = day f0 := by
            intro w hw
            have : ¬ badWork (day f0) w := fun hb => hbad ⟨w, hw, hb⟩
            simp only [badWork, not_or, Decidable.not_not] at this
            exact this.2.1
          have hco : creditedOf (f0 :: rest) credit = f0 :: rest := by simp [creditedOf, hc]
          rw [hco]
          refine ⟨rfl, ?_, ?_⟩
          · intro n d
            simp only [getC_addC]
            have hl := filter_length_all (f0 :: rest) (fun w => decide (n = node ∧ day w = d))
              (n = node ∧ day f0 = d) (by
                intro w hw
                simp only [decide_eq_true_eq]
                rw [hday w hw])
            rw [hl, hcnt']
            by_cases hk : (node, day f0) = (n, d)
            · cases hk; simp
            · have : ¬ (n = node ∧ day f0 = d) := by
                intro h; apply hk; rw [h.1, h.2]
              simp [hk, this]
          · intro x d
            rw [getC_creditSigners, count_allSigners, signerCount_nodup x _ hn]
            have hl := filter_length_const (f0 :: rest)
              (fun w => decide (x ∈ w.signers ∧ x ≠ node ∧ day w = d))
              (fun w => x ∈ w.signers) (x ≠ node ∧ d = day f0) (by
                intro w hw
                simp only [decide_eq_true_eq]
                rw [hday w hw]
                constructor
                · intro h; exact ⟨h.1, h.2.1, h.2.2.symm⟩
                · intro h; exact ⟨h.1, h.2.1, h.2.2.symm⟩)
            rw [hl]

/-! ## the ledger -/

structure G where
  /-- `(node, snapshot hash)` pairs that an accepted, non-stale submission contained -/
  seen : List (Hash × Hash)
  /-- `(node, snapshot)` pairs that were credited -/
  credited : List (Hash × Snap)

def gEmpty : G := ⟨[], []⟩

/-- ledger update for one `WriteRoundWork` call: nothing if the call panics or is stale; else the
    snapshots never seen before (for that node) become seen, and are credited under the code's
    condition. No reference to the checkpoint. -/
def gStep (g : G) (s : S) (node : Hash) (round : Nat) (snaps : List Snap) (credit : Bool) : G :=
  if writeRoundWork s node round snaps credit = none ∨ (readOff node s.off).1 > round then g
  else
    { seen := (snaps.filter (fun ss => (node, ss.hash) ∉ g.seen)).map (fun ss => (node, ss.hash)) ++ g.seen,
      credited := (creditedOf (snaps.filter (fun ss => (node, ss.hash) ∉ g.seen)) credit).map
        (fun ss => (node, ss)) ++ g.credited }

/-- proposal credits the ledger gives `n` on day `d` -/
def leadSpec (g : G) (n : Hash) (d : Nat) : Nat :=
  (g.credited.filter (fun c => c.1 = n ∧ day c.2 = d)).length

/-- signing credits the ledger gives `x` on day `d`: credited snapshots of other nodes that `x` signed -/
def signSpec (g : G) (x : Hash) (d : Nat) : Nat :=
  (g.credited.filter (fun c => x ∈ c.2.signers ∧ x ≠ c.1 ∧ day c.2 = d)).length

/-- the preconditions of one call (not asserted by the code) -/
def WF (rnd : Hash → Hash → Nat) (node : Hash) (round : Nat) (snaps : List Snap) : Prop :=
  (snaps.map (·.hash)).Nodup ∧ ∀ ss ∈ snaps, rnd node ss.hash = round ∧ ss.signers.Nodup

structure J (rnd : Hash → Hash → Nat) (s : S) (g : G) : Prop where
  seenRound : ∀ n h, (n, h) ∈ g.seen → rnd n h ≤ (readOff n s.off).1 ∧
    (rnd n h = (readOff n s.off).1 → h ∈ (readOff n s.off).2)
  ckptSeen : ∀ n h, h ∈ (readOff n s.off).2 → (n, h) ∈ g.seen
  lead : ∀ n d, getC (n, d) s.lead = leadSpec g n d
  sign : ∀ x d, getC (x, d) s.sign = signSpec g x d
  nodup : (g.credited.map (fun c => (c.1, c.2.hash))).Nodup
  credSeen : ∀ c ∈ g.credited, (c.1, c.2.hash) ∈ g.seen

theorem J_empty (rnd : Hash → Hash → Nat) : J rnd empty gEmpty :=
  ⟨by simp [gEmpty], by simp [empty, readOff], by simp [empty, getC, leadSpec, gEmpty],
   by simp [empty, getC, signSpec, gEmpty], by simp [gEmpty], by simp [gEmpty]⟩

theorem creditedOf_sub (fresh : List Snap) (credit : Bool) : ∀ w ∈ creditedOf fresh credit, w ∈ fresh := by
  intro w hw
  cases fresh with
  | nil => simp [creditedOf] at hw
  | cons f0 rest =>
    simp only [creditedOf] at hw
    split at hw
    · simp at hw
    · exact hw

theorem creditedOf_sublist (fresh : List Snap) (credit : Bool) : (creditedOf fresh credit).Sublist fresh := by
  cases fresh with
  | nil => simp [creditedOf]
  | cons f0 rest =>
    simp only [creditedOf]
    split
    · exact List.nil_sublist _
    · exact List.Sublist.refl _

/-- the checkpoint filter of the code selects exactly the snapshots the ledger has never seen -/
theorem fresh_eq (rnd : Hash → Hash → Nat) (s : S) (g : G) (hJ : J rnd s g) (node : Hash) (round : Nat)
    (snaps fresh : List Snap) (hwf : WF rnd node round snaps)
    (h1 : (readOff node s.off).1 ≤ round)
    (hf : freshOf (readOff node s.off).1 (readOff node s.off).2 round snaps = some fresh) :
    fresh = snaps.filter (fun ss => (node, ss.hash) ∉ g.seen) := by
  unfold freshOf at hf
  by_cases hr : round = (readOff node s.off).1
  · simp only [hr, if_true] at hf
    split at hf
    · cases hf
      apply List.filter_congr
      intro ss hss
      have hrn := (hwf.2 ss hss).1
      by_cases hm : ss.hash ∈ (readOff node s.off).2
      · have := hJ.ckptSeen node ss.hash hm
        simp [hm, this]
      · have : (node, ss.hash) ∉ g.seen := by
          intro hs
          exact hm ((hJ.seenRound node ss.hash hs).2 (by rw [hrn, hr]))
        simp [hm, this]
    · cases hf
  · simp only [hr, if_false] at hf
    cases hf
    symm
    rw [List.filter_eq_self]
    intro ss hss
    have hrn := (hwf.2 ss hss).1
    have : (node, ss.hash) ∉ g.seen := by
      intro hs
      have := (hJ.seenRound node ss.hash hs).1
      omega
    simp [this]

theorem readOff_cons (node n : Hash) (v : Nat × List Hash) (m : List (Hash × (Nat × List Hash))) :
    readOff n ((node, v) :: m) = if node = n then v else readOff n m := by
  simp [readOff]

theorem filter_spec_append (node : Hash) (cl : List Snap) (old : List (Hash × Snap))
    (p : Hash × Snap → Bool) :
    ((cl.map (fun ss => (node, ss)) ++ old).filter p).length =
      (cl.filter (fun ss => p (node, ss))).length + (old.filter p).length := by
  rw [List.filter_append, List.length_append, List.filter_map, List.length_map]
  rfl

/-- one accepted call keeps the code's state and the ledger in step -/
theorem J_step (rnd : Hash → Hash → Nat) (s s' : S) (g : G) (hJ : J rnd s g) (node : Hash) (round : Nat)
    (snaps : List Snap) (credit : Bool) (hwf : WF rnd node round snaps)
    (hw : writeRoundWork s node round snaps credit = some s') :
    J rnd s' (gStep g s node round snaps credit) := by
  have hw0 := hw
  unfold writeRoundWork at hw
  simp only at hw
  by_cases hst : (readOff node s.off).1 > round
  · simp only [hst, if_true] at hw
    cases hw
    have : gStep g s node round snaps credit = g := by simp [gStep, hst]
    rw [this]; exact hJ
  · simp only [hst, if_false] at hw
    by_cases hfar : round > (readOff node s.off).1 + 1
    · simp [hfar] at hw
    · simp only [hfar, if_false] at hw
      cases hf : freshOf (readOff node s.off).1 (readOff node s.off).2 round snaps with
      | none => simp [hf] at hw
      | some fresh =>
        simp only [hf] at hw
        have hle : (readOff node s.off).1 ≤ round := by omega
        have hfe := fresh_eq rnd s g hJ node round snaps fresh hwf hle hf
        have hsub : ∀ w ∈ fresh, w ∈ snaps := by
          intro w hw'; rw [hfe] at hw'; exact (List.mem_filter.mp hw').1
        have hnd : ∀ w ∈ fresh, w.signers.Nodup := fun w hw' => (hwf.2 w (hsub w hw')).2
        have hcc := credit_counts _ s' node fresh credit hw hnd
        have hg : gStep g s node round snaps credit =
            { seen := fresh.map (fun ss => (node, ss.hash)) ++ g.seen,
              credited := (creditedOf fresh credit).map (fun ss => (node, ss)) ++ g.credited } := by
          unfold gStep
          rw [if_neg (by simp [hw0, hst]), ← hfe]
        rw [hg]
        have hoff : ∀ n, readOff n s'.off =
            if node = n then (round, snaps.map (·.hash)) else readOff n s.off := by
          intro n; rw [hcc.1]; exact readOff_cons node n _ _
        -- the missing-snapshot guard
        have hguard : round = (readOff node s.off).1 →
            ∀ id ∈ (readOff node s.off).2, id ∈ snaps.map (·.hash) := by
          intro hr
          apply Classical.byContradiction
          intro hcon
          unfold freshOf at hf
          rw [if_pos hr, if_neg hcon] at hf
          cases hf
        refine ⟨?_, ?_, ?_, ?_, ?_, ?_⟩
        · -- seenRound
          intro n h hm
          rw [hoff n]
          simp only [List.mem_append, List.mem_map] at hm
          by_cases hn : node = n
          · subst hn
            simp only [if_true]
            rcases hm with ⟨ss, hss, heq⟩ | hm
            · cases heq
              have := (hwf.2 ss (hsub ss hss)).1
              exact ⟨by omega, fun _ => List.mem_map.mpr ⟨ss, hsub ss hss, rfl⟩⟩
            · have ho := hJ.seenRound node h hm
              refine ⟨by omega, ?_⟩
              intro hr
              have hr' : round = (readOff node s.off).1 := by omega
              exact hguard hr' h (ho.2 (by omega))
          · simp only [hn, if_false]
            rcases hm with ⟨ss, _, heq⟩ | hm
            · cases heq; exact absurd rfl hn
            · exact hJ.seenRound n h hm
        · -- ckptSeen
          intro n h hm
          rw [hoff n] at hm
          simp only [List.mem_append, List.mem_map]
          by_cases hn : node = n
          · subst hn
            simp only [if_true, List.mem_map] at hm
            rcases hm with ⟨ss, hss, heq⟩
            by_cases hs : (node, ss.hash) ∈ g.seen
            · right; rw [← heq]; exact hs
            · left
              refine ⟨ss, ?_, by rw [heq]⟩
              rw [hfe]; exact List.mem_filter.mpr ⟨hss, by simp [hs]⟩
          · simp only [hn, if_false] at hm
            right; exact hJ.ckptSeen n h hm
        · -- lead
          intro n d
          rw [hcc.2.1 n d, hJ.lead n d]
          simp only [leadSpec]
          rw [filter_spec_append]
          have : ((creditedOf fresh credit).filter (fun ss =>
                decide ((node, ss).1 = n ∧ day (node, ss).2 = d))) =
              ((creditedOf fresh credit).filter (fun w => decide (n = node ∧ day w = d))) := by
            apply List.filter_congr
            intro w _
            simp only [decide_eq_decide]
            constructor
            · intro h; exact ⟨h.1.symm, h.2⟩
            · intro h; exact ⟨h.1.symm, h.2⟩
          rw [this]; omega
        · -- sign
          intro x d
          rw [hcc.2.2 x d, hJ.sign x d]
          simp only [signSpec]
          rw [filter_spec_append]
          have : ((creditedOf fresh credit).filter (fun ss =>
                decide (x ∈ (node, ss).2.signers ∧ x ≠ (node, ss).1 ∧ day (node, ss).2 = d))) =
              ((creditedOf fresh credit).filter (fun w => decide (x ∈ w.signers ∧ x ≠ node ∧ day w = d))) := rfl
          rw [this]; omega
        · -- nodup
          simp only [List.map_append, List.map_map]
          rw [List.nodup_append]
          refine ⟨?_, hJ.nodup, ?_⟩
          · have h1 : ((creditedOf fresh credit).map ((fun c : Hash × Snap => (c.1, c.2.hash)) ∘ fun ss => (node, ss)))
                = ((creditedOf fresh credit).map (·.hash)).map (fun h => (node, h)) := by
              simp [List.map_map, Function.comp_def]
            rw [h1]
            apply nodup_map_pair
            · have hs1 : ((creditedOf fresh credit).map (·.hash)).Sublist (snaps.map (·.hash)) := by
                apply List.Sublist.map
                rw [hfe]
                exact (creditedOf_sublist _ credit).trans List.filter_sublist
              exact List.Nodup.sublist hs1 hwf.1
          · intro a ha b hb hab
            subst hab
            simp only [List.mem_map, Function.comp] at ha hb
            rcases ha with ⟨ss, hss, heq⟩
            rcases hb with ⟨c, hc, heq'⟩
            have hin := hJ.credSeen c hc
            rw [heq', ← heq] at hin
            have hfr := creditedOf_sub fresh credit ss hss
            rw [hfe] at hfr
            have := (List.mem_filter.mp hfr).2
            simp at this
            exact this hin
        · -- credSeen
          intro c hc
          simp only [List.mem_append, List.mem_map] at hc ⊢
          rcases hc with ⟨ss, hss, heq⟩ | hc
          · left
            cases heq
            exact ⟨ss, creditedOf_sub fresh credit ss hss, rfl⟩
          · right; exact hJ.credSeen c hc

/-! ## histories -/

def gStepOp (g : G) (s : S) : Op → G
  | .submit node round snaps credit => gStep g s node round snaps credit
  | _ => g

def wfOp (rnd : Hash → Hash → Nat) : Op → Prop
  | .submit node round snaps _ => WF rnd node round snaps
  | _ => True

/-- code state and ledger after a history -/
def gRun : S → G → List Op → S × G
  | s, g, [] => (s, g)
  | s, g, op :: ops => gRun (step s op).1 (gStepOp g s op) ops

theorem J_run (rnd : Hash → Hash → Nat) (ops : List Op) :
    ∀ s g, J rnd s g → (∀ op ∈ ops, wfOp rnd op) → J rnd (gRun s g ops).1 (gRun s g ops).2 := by
  induction ops with
  | nil => intro s g hJ _; exact hJ
  | cons op ops ih =>
    intro s g hJ hwf
    have hrest : ∀ op' ∈ ops, wfOp rnd op' := fun o ho => hwf o (List.mem_cons_of_mem _ ho)
    simp only [gRun]
    apply ih _ _ _ hrest
    cases op with
    | submit node round snaps credit =>
      have hw : WF rnd node round snaps := hwf (.submit node round snaps credit) (by simp)
      simp only [step, gStepOp]
      cases hwr : writeRoundWork s node round snaps credit with
      | none =>
        have : gStep g s node round snaps credit = g := by simp [gStep, hwr]
        rw [this]; exact hJ
      | some s' => exact J_step rnd s s' g hJ node round snaps credit hw hwr
    | works node d => exact hJ
    | offset node => exact hJ

/-- **credit_exactly_once**: after every history of submissions (any nodes, rounds, repetitions,
    growing sets, stale rounds, credit flags, panicking calls) whose calls satisfy `WF`, the
    counters the code stores are exactly the ledger's: one proposal credit to the proposer and one
    signing credit to each other signer, on the snapshot's own day, for every credited snapshot —
    and no `(node, snapshot)` is in the ledger twice. -/
theorem credit_exactly_once (rnd : Hash → Hash → Nat) (ops : List Op) (hwf : ∀ op ∈ ops, wfOp rnd op) :
    (∀ n d, getC (n, d) (gRun empty gEmpty ops).1.lead = leadSpec (gRun empty gEmpty ops).2 n d) ∧
    (∀ x d, getC (x, d) (gRun empty gEmpty ops).1.sign = signSpec (gRun empty gEmpty ops).2 x d) ∧
    ((gRun empty gEmpty ops).2.credited.map (fun c => (c.1, c.2.hash))).Nodup := by
  have hJ := J_run rnd ops empty gEmpty (J_empty rnd) hwf
  exact ⟨hJ.lead, hJ.sign, hJ.nodup⟩

theorem gRun_state (ops : List Op) : ∀ s g, (gRun s g ops).1 = final s ops := by
  induction ops with
  | nil => intro s g; rfl
  | cons op ops ih => intro s g; simp [gRun, final, ih]

def exSnap (h : Hash) (t : Nat) (sg : List Hash) : Snap := ⟨h, 100 * dayLen + t, sg⟩

/-- a concrete history meeting the hypotheses: growing set, replay, next round, stale replay -/
def exOps : List Op :=
  [.submit 1 0 [exSnap 1 5 [1, 2]] true,
   .submit 1 0 [exSnap 1 5 [1, 2]] true,
   .submit 1 0 [exSnap 1 5 [1, 2], exSnap 2 6 [2, 1, 3]] true,
   .submit 1 1 [exSnap 3 7 [1, 2]] false,
   .submit 1 1 [exSnap 3 7 [1, 2], exSnap 4 8 [1, 3]] true,
   .submit 1 0 [exSnap 1 5 [1, 2]] true]

example : ∀ op ∈ exOps, wfOp (fun _ h => if h ≤ 2 then 0 else 1) op := by
  simp [exOps, wfOp, WF, exSnap]

example : (getC (1, 100) (final empty exOps).lead, getC (2, 100) (final empty exOps).sign,
    getC (3, 100) (final empty exOps).sign) = (3, 2, 2) := by decide

/-- **stale_round_noop**: a submission for a round below the checkpoint changes nothing -/
theorem stale_round_noop (s : S) (node : Hash) (round : Nat) (snaps : List Snap) (credit : Bool)
    (h : round < (readOff node s.off).1) :
    writeRoundWork s node round snaps credit = some s := by
  unfold writeRoundWork
  have : (readOff node s.off).1 > round := h
  simp [this]

/-- **growing_set_adds_delta**: re-submitting the checkpointed round with a set that contains the
    checkpoint runs the credit section on exactly the new snapshots (and panics iff that does);
    with `credit_counts`, the counters grow by the credits of the delta and nothing else. -/
theorem growing_set_adds_delta (s : S) (node : Hash) (snaps : List Snap) (credit : Bool)
    (hsup : ∀ id ∈ (readOff node s.off).2, id ∈ snaps.map (·.hash)) :
    writeRoundWork s node (readOff node s.off).1 snaps credit =
      creditStep { s with off := (node, ((readOff node s.off).1, snaps.map (·.hash))) :: s.off } node
        (snaps.filter (fun ss => ss.hash ∉ (readOff node s.off).2)) credit := by
  unfold writeRoundWork freshOf
  dsimp only
  rw [if_neg (by omega), if_neg (by omega), if_pos rfl, if_pos hsup]

/-- **resubmit_idempotent**: re-submitting the checkpointed round with the same set of snapshots
    (any order; after a crash or a retry) never panics and changes no counter; only the checkpoint
    is rewritten, with the same round and the same set. -/
theorem resubmit_idempotent (s : S) (node : Hash) (snaps : List Snap) (credit : Bool)
    (hsup : ∀ id ∈ (readOff node s.off).2, id ∈ snaps.map (·.hash))
    (hsub : ∀ ss ∈ snaps, ss.hash ∈ (readOff node s.off).2) :
    ∃ s', writeRoundWork s node (readOff node s.off).1 snaps credit = some s' ∧
      s'.lead = s.lead ∧ s'.sign = s.sign ∧
      readOff node s'.off = ((readOff node s.off).1, snaps.map (·.hash)) := by
  rw [growing_set_adds_delta s node snaps credit hsup]
  have : snaps.filter (fun ss => ss.hash ∉ (readOff node s.off).2) = [] := by
    rw [List.filter_eq_nil_iff]
    intro ss hss
    simp [hsub ss hss]
  rw [this]
  exact ⟨_, rfl, rfl, rfl, by simp [readOff]⟩

example : (step (final empty exOps) (.submit 1 1 [exSnap 4 8 [1, 3], exSnap 3 7 [1, 2]] true)).1.lead
    = (final empty exOps).lead := by decide

/-- the excluded points of `WF` do double count in the model, as they do in the code:
    the same hash twice in one call … -/
theorem duplicate_in_call_counterexample :
    getC (1, 100) (final empty [.submit 1 1 [exSnap 1 5 [1], exSnap 1 5 [1]] true]).lead = 2 := by decide

/-- … and a hash that comes back in the next round -/
theorem hash_in_two_rounds_counterexample :
    getC (1, 100) (final empty [.submit 1 1 [exSnap 1 5 [1]] true, .submit 1 2 [exSnap 1 5 [1]] true]).lead
      = 2 := by decide

/-! ## the read-back path (`AggregateMintWork`: records → reader → `WriteRoundWork`) -/

theorem mem_insertRec (k : RecKey) (v : Hash × List Hash) (l : List (RecKey × (Hash × List Hash))) :
    (k, v) ∈ insertRec k v l := by
  induction l with
  | nil => simp [insertRec]
  | cons x xs ih =>
    simp only [insertRec]
    split
    · simp
    · split
      · simp
      · exact List.mem_cons_of_mem _ ih

/-- **reader_identity**: a work record written for `(node, round)` is read back with its own
    hash, timestamp and signer list -/
theorem reader_identity (x : SR) (node : Hash) (round ts : Nat) (h : Hash) (sg : List Hash) :
    ({ hash := h, ts := ts, signers := sg } : Snap) ∈ readWorks (writeWork x node round ts h sg) node round := by
  simp only [readWorks, writeWork, List.mem_map, List.mem_filter]
  exact ⟨((node, round, ts), (h, sg)), ⟨mem_insertRec _ _ _, by simp⟩, rfl⟩

/-- **read_back_is_submit**: aggregating a round is `WriteRoundWork` applied to what the reader
    returns, so every theorem above applies to the aggregated round with the records as written -/
theorem read_back_is_submit (x : SR) (node : Hash) (round : Nat) (credit : Bool) :
    (submitRead x node round credit).map (·.s) =
      writeRoundWork x.s node round (readWorks x node round) credit := by
  unfold submitRead
  cases writeRoundWork x.s node round (readWorks x node round) credit <;> simp

/-- snapshots of one round signed by different quorums: each signer is credited for the snapshots
    it signed -/
example :
    let x := writeWork (writeWork (writeWork emptySR 1 1 (100 * dayLen + 1) 11 [1, 2, 3]) 1 1
      (100 * dayLen + 2) 12 [1, 4]) 1 1 (100 * dayLen + 3) 13 [3, 1]
    (submitRead x 1 1 true).map (fun y => (getC (1, 100) y.s.lead, getC (2, 100) y.s.sign,
      getC (3, 100) y.s.sign, getC (4, 100) y.s.sign)) = some (3, 1, 2, 1) := by decide

end Mixin.C26
