import Mixin.Model.Work
/-! # C26 — node work is credited exactly once per snapshot -/
namespace Mixin.C26
open Mixin.Work

/-- a submission for a round below the checkpoint changes nothing -/
theorem stale_round_noop (s : S) (node : Hash) (round : Nat) (snaps : List Snap) (credit : Bool)
    (h : round < (readOff node s.off).1) :
    writeRoundWork s node round snaps credit = some s := by
  unfold writeRoundWork
  have : (readOff node s.off).1 > round := h
  simp [this]

end Mixin.C26
