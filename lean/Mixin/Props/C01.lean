import Mixin.Proofs.Validate
/-!
  C01 — accepted transactions conserve value within one asset.

  `validate L O tx fork = accept i o` is the model of `VersionedTransaction.Validate` returning
  nil (lean/Mixin/Model/Validate.lean). The theorems hold for every ledger view, every oracle
  and every transaction: no hypothesis besides acceptance.
-/
namespace Mixin.C01
open Mixin.Validate

theorem accept_iff {L O tx fork i o} :
    validate L O tx fork = .accept i o ↔ validateM L O tx fork = .ok (i, o) := by
  unfold validate
  split <;> simp_all

/-- `UnspentOutputs` (common/utxo.go): every materialised output carries the transaction's asset -/
def materialise (tx : Tx) : List Utxo :=
  (tx.outputs.zipIdx.filter (fun p => p.1.type != otWithdrawalSubmit && p.1.type != otCustodianSlash)).map
    (fun p => { hash := tx.hash, index := p.2, type := p.1.type, asset := tx.asset, amount := p.1.amount,
                keys := p.1.keys, mask := p.1.mask, script := p.1.script, lock := 0 })

/-- the early return of `validateInputs` (mint / deposit input) only survives in a transaction
    with exactly one input, because the accepting mint and deposit validators demand it -/
theorem early_single {L O tx fork f i fl}
    (hl : inputsLoop L tx (txType tx) fork 0 tx.inputs {} = .ok (.early fl i))
    (hd : dispatch L O tx (txType tx) f = .ok ()) :
    ∃ x, tx.inputs = [x] ∧ i = inputAmount L x ∧ (x.mint.isSome ∨ x.deposit.isSome) := by
  obtain ⟨pre, x, post, he, hpre, _, hx⟩ := loop_early _ _ _ _ _ hl
  have htype : typeOfInputs tx.inputs = typeOfInputs (x :: post) := by
    rw [he]; exact typeOfInputs_append hpre _
  rcases hx with ⟨m, hm, ha⟩ | ⟨hm, d, hdp, ha⟩
  · have htt : txType tx = ttMint := by simp [txType, htype, typeOfInputs, hm]
    rw [htt] at hd
    obtain ⟨y, hy⟩ := validateMint_one (dispatch_mint hd)
    rw [hy] at he
    have : pre = [] ∧ post = [] ∧ y = x := by
      cases pre with
      | nil => simp at he; exact ⟨rfl, he.2, he.1⟩
      | cons p ps => cases ps <;> simp at he
    obtain ⟨_, _, rfl⟩ := this
    exact ⟨y, hy, by simp [inputAmount, hm, ha], Or.inl (by simp [hm])⟩
  · have htt : txType tx = ttDeposit := by simp [txType, htype, typeOfInputs, hm, hdp]
    rw [htt] at hd
    obtain ⟨y, hy⟩ := validateDeposit_one (dispatch_deposit hd)
    rw [hy] at he
    have : pre = [] ∧ post = [] ∧ y = x := by
      cases pre with
      | nil => simp at he; exact ⟨rfl, he.2, he.1⟩
      | cons p ps => cases ps <;> simp at he
    obtain ⟨_, _, rfl⟩ := this
    exact ⟨y, hy, by simp [inputAmount, hm, hdp, ha], Or.inr (by simp [hdp])⟩

/-- **validate_conserves.** A transaction accepted by `Validate`:
    (i) every ordinary input (no mint, no deposit data) is an existing output of `tx.asset`;
    (ii) the reported input amount is the sum over *all* inputs (spent outputs, deposit, mint),
         the reported output amount is the sum of all outputs, and the two are equal;
    (iii) the sum is positive; (iv) every output amount is positive. -/
theorem validate_conserves {L O tx fork i o} (h : validate L O tx fork = .accept i o) :
    (∀ inp ∈ tx.inputs, inp.mint = none → inp.deposit = none →
        ∃ u, L.utxo inp.hash inp.index = some u ∧ u.asset = tx.asset) ∧
    (tx.inputs.map (inputAmount L)).sum = i ∧
    (tx.outputs.map (·.amount)).sum = o ∧
    i = o ∧ 0 < i ∧ ∀ out ∈ tx.outputs, 0 < out.amount := by
  obtain ⟨_, _, f, hin, hpos, hout, hd⟩ := validateM_ok (accept_iff.1 h)
  -- outputs
  unfold validateOutputs at hout
  simp only [bind_ok, guardRej_ok, pure_ok] at hout
  obtain ⟨⟨sum, ghosts⟩, hloop, _, heq, _, _, hsum⟩ := hout
  obtain ⟨hs, hop⟩ := outputsLoop_ok _ _ _ _ _ hloop
  simp at heq hsum hs
  subst hsum
  have hio : i = sum := heq
  refine ⟨?_, ?_, by omega, hio, by omega, hop⟩
  · rcases validateInputs_ok hin with ⟨fl, hl⟩ | ⟨a, hl, _, _⟩
    · obtain ⟨x, hx, _, hsp⟩ := early_single hl hd
      intro inp hinp hm hdp
      rw [hx] at hinp
      simp at hinp
      subst hinp
      rcases hsp with h1 | h1 <;> simp_all
    · have := (loopSpec_sum _ _ _ _ (loop_full _ _ _ _ hl)).2
      intro inp hinp _ _
      exact (this inp hinp).2
  · rcases validateInputs_ok hin with ⟨fl, hl⟩ | ⟨a, hl, _, ha⟩
    · obtain ⟨x, hx, hamt, _⟩ := early_single hl hd
      simp [hx, hamt]
    · have := (loopSpec_sum _ _ _ _ (loop_full _ _ _ _ hl)).1
      simp at this
      omega

/-- **validate_inputs_distinct.** No stored output is counted twice: the (hash, index) references
    of an accepted transaction's inputs are pairwise different. -/
theorem validate_inputs_distinct {L O tx fork i o} (h : validate L O tx fork = .accept i o) :
    (tx.inputs.map inputKey).Nodup := by
  obtain ⟨_, _, f, hin, _, _, hd⟩ := validateM_ok (accept_iff.1 h)
  rcases validateInputs_ok hin with ⟨fl, hl⟩ | ⟨a, hl, _, _⟩
  · obtain ⟨x, hx, _, _⟩ := early_single hl hd
    simp [hx]
  · obtain ⟨h1, h2⟩ := loop_filter_nodup _ _ _ _ hl
    have := h2 (by simp)
    rw [h1] at this
    simpa using this

/-- **validate_single_asset.** All value an accepted transaction reads from the ledger and all
    outputs it materialises carry `tx.asset`; a mint creates XIN only. -/
theorem validate_single_asset {L O tx fork i o} (h : validate L O tx fork = .accept i o) :
    (∀ inp ∈ tx.inputs, inp.mint = none → inp.deposit = none →
        ∃ u, L.utxo inp.hash inp.index = some u ∧ u.asset = tx.asset) ∧
    (∀ u ∈ materialise tx, u.asset = tx.asset) ∧
    (txType tx = ttMint → tx.asset = xin) := by
  refine ⟨(validate_conserves h).1, ?_, ?_⟩
  · intro u hu
    simp only [materialise, List.mem_map] at hu
    obtain ⟨p, _, rfl⟩ := hu
    rfl
  · intro htt
    obtain ⟨_, _, f, _, _, _, hd⟩ := validateM_ok (accept_iff.1 h)
    rw [htt] at hd
    have hm := dispatch_mint hd
    unfold validateMint at hm
    split at hm
    · simp only [bind_ok, guardRej_ok] at hm
      obtain ⟨_, _, _, ha, _⟩ := hm
      simpa using ha
    · simp at hm



/-- **deposit_matches_bound_asset.** "Moves exactly one asset" for deposits: when the asset id of an
    accepted deposit is already bound to a token, the deposit names exactly that token — same
    chain and the same asset key (identifiers are interned byte strings: equality is byte-exact,
    not case-insensitive). -/
theorem deposit_matches_bound_asset {L O tx fork i o old}
    (h : validate L O tx fork = .accept i o) (ht : txType tx = ttDeposit)
    (hold : L.asset tx.asset = some old) :
    ∃ x d, tx.inputs = [x] ∧ x.deposit = some d ∧ old.chain = d.chain ∧ old.assetKey = d.assetKey := by
  obtain ⟨_, _, f, _, _, _, hd⟩ := validateM_ok (accept_iff.1 h)
  rw [ht] at hd
  have hv := dispatch_deposit hd
  obtain ⟨x, hx⟩ := validateDeposit_one hv
  obtain ⟨d, hdep⟩ := Option.isSome_iff_exists.1 (single_deposit hx ht)
  refine ⟨x, d, hx, hdep, ?_⟩
  unfold validateDeposit at hv
  simp only [bind_ok, guardRej_ok] at hv
  obtain ⟨_, _, _, _, _, _, hv⟩ := hv
  split at hv
  · simp at hv
  · simp only [bind_ok] at hv
    obtain ⟨_, hvd, _⟩ := hv
    unfold verifyDepositData at hvd
    simp only [hx, List.head?_cons, hdep, bind_ok, guardRej_ok, hold] at hvd
    obtain ⟨_, _, _, _, _, _, hvd⟩ := hvd
    split at hvd
    · simp at hvd
    · simp only [bind_ok, guardRej_ok] at hvd
      obtain ⟨_, _, hm⟩ := hvd
      simpa using hm


/-- the ledger invariant "stored outputs have positive amounts" (hypothesis `utxoPos` of
    C05.validate_total) is preserved by materialising an accepted transaction's outputs -/
theorem materialise_pos {L O tx fork i o} (h : validate L O tx fork = .accept i o) :
    ∀ u ∈ materialise tx, 0 < u.amount := by
  intro u hu
  simp only [materialise, List.mem_map, List.mem_filter] at hu
  obtain ⟨p, ⟨hp, _⟩, rfl⟩ := hu
  have hmem : p.1 ∈ tx.outputs := by
    have := List.mem_zipIdx hp
    simp at this
    have h2 := this.2
    rw [h2]; exact List.getElem_mem _
  exact (validate_conserves h).2.2.2.2.2 p.1 hmem

/-! ### Non-vacuity: the model accepts a 2-in / 3-out transfer, a deposit and a mint -/
namespace Example
open Mixin.Validate

def thr (n : Nat) : List Nat := [255, 254, n]

def oracle : Oracle :=
  { checkKey := fun k => 100 ≤ k && k < 200            -- ids 100..199 are valid points
    verify := fun k s => s == k + 1000                  -- signature id = key id + 1000
    aggVerify := fun _ _ _ => false
    claimSig := false, updParse := none, updSig := false, scalarOk := false, ghostEq := false }

def ledger : Ledger :=
  { utxos := [
      { hash := 10, index := 0, type := 0, asset := 7, amount := 20, keys := [101, 102], mask := 110, script := thr 2, lock := 0 },
      { hash := 11, index := 1, type := 0, asset := 7, amount := 10, keys := [103], mask := 111, script := thr 1, lock := 0 }],
    custodian := some { key := 150, addr := 50, nodes := [] },
    assets := [{ id := 8, chain := 8, assetKey := 60, balance := 5 }] }

def out (amount key mask : Nat) : Output :=
  { type := 0, amount := amount, keys := [key], mask := mask, script := thr 1, withdrawal := false }

def base : Tx :=
  { version := 5, asset := 7, inputs := [], outputs := [], references := [], extraLen := 0, extraId := 2,
    extra64 := 3, extraSpend := 0, sigs := none, agg := none, hash := 9, payloadSize := 300, cap := 1000 }

def transfer : Tx :=
  { base with
    inputs := [{ hash := 10, index := 0, genesis := false, deposit := none, mint := none },
               { hash := 11, index := 1, genesis := false, deposit := none, mint := none }],
    outputs := [out 15 120 130, out 10 121 131, out 5 122 132],
    sigs := some [[(0, 1101), (1, 1102)], [(0, 1103)]] }

example : validate ledger oracle transfer false = .accept 30 30 := by decide

def depositTx : Tx :=
  { base with
    asset := 8,
    inputs := [{ hash := 0, index := 0, genesis := false, mint := none,
                 deposit := some { chain := 8, assetKeyOk := true, assetKey := 60, txOk := true, uniq := 70, amount := 40 } }],
    outputs := [out 40 123 133],
    sigs := some [[(0, 1150)]] }

example : validate ledger oracle depositTx false = .accept 40 40 := by decide

def mintTx : Tx :=
  { base with
    asset := xin,
    inputs := [{ hash := 0, index := 0, genesis := false, deposit := none,
                 mint := some { universal := true, batch := 3, amount := 12 } }],
    outputs := [out 7 124 134, out 5 125 135],
    sigs := some [[(0, 1)]] }

example : validate ledger oracle mintTx false = .accept 12 12 := by decide

-- one unit more on an output, or a foreign-asset input, is rejected
example : validate ledger oracle { transfer with outputs := [out 16 120 130, out 10 121 131, out 5 122 132] } false = .reject := by decide
example : validate ledger oracle { transfer with asset := 8 } false = .reject := by decide

end Example
end Mixin.C01
