import Mixin.Props.C01
import Mixin.Props.C17
/-!
  Bridge C01 → C17.

  C17 (`Mixin.C17.supply_invariant`, model `Mixin.Ledger`) takes per-transaction conservation as the
  hypothesis `Conserving st tx`. C01 (`Mixin.C01.validate_conserves`, model `Mixin.Validate`) proves
  conservation for every transaction the model of `VersionedTransaction.Validate` accepts. This file
  translates a `Validate.Tx` into a `Ledger.Tx` and discharges `Conserving` from acceptance.

  **The translation `toLedgerTx`** keeps: the payload hash (as the transaction id), the asset, per
  input the section that wins in the code (Mint, else Deposit, else Genesis, else the `(hash, index)`
  reference — both models address outputs by `(hash, index)`, so no lookup in the ledger view is
  needed and the `Validate.Ledger` argument is unused), per output type / amount / keys, and the
  references. It **forgets**: version, extra (length, identifiers), signature maps and aggregate
  signature, payload size, the capacity constant, per output mask / script / withdrawal flag, per
  input the deposit's `assetKeyOk` / `txOk` flags and a deposit section or genesis flag shadowed by
  a mint section, the mint group flag. The two oracle bits of `Ledger.Tx` (`sigOk`, `custOk`) are
  set to `true`: the transaction was accepted. Output type bytes outside the nine known codes map to
  `OutType.unknown`.

  **State agreement `Agrees st L tx`** relates the `Ledger` model state (after `LockInputs`) to the
  ledger view `L` the validator read: the keys of the UTXO family are distinct, every ordinary
  input's entry carries the asset and amount the view showed and is locked by this transaction, and
  nothing else is locked by it.
-/
namespace Mixin.Bridge
open Mixin.Validate (otScript otWithdrawalSubmit otWithdrawalClaim otNodePledge otNodeAccept otNodeCancel
  otNodeRemove otCustodianUpdate otCustodianSlash)

/-! ### the translation -/

def toOutType (t : Nat) : Ledger.OutType :=
  if t = otScript then .script
  else if t = otWithdrawalSubmit then .withdrawalSubmit
  else if t = otWithdrawalClaim then .withdrawalClaim
  else if t = otNodePledge then .nodePledge
  else if t = otNodeAccept then .nodeAccept
  else if t = otNodeCancel then .nodeCancel
  else if t = otNodeRemove then .nodeRemove
  else if t = otCustodianUpdate then .custodianUpdate
  else if t = otCustodianSlash then .custodianSlash
  else .unknown

def toOutput (o : Validate.Output) : Ledger.Output := ⟨toOutType o.type, o.amount, o.keys⟩

def toInput (i : Validate.Input) : Ledger.Input :=
  match i.mint with
  | some m => .mint m.batch m.amount
  | none =>
    match i.deposit with
    | some d => .deposit d.uniq d.chain d.assetKey d.amount
    | none => if i.genesis then .genesis else .utxo i.hash i.index

def toLedgerTx (tx : Validate.Tx) (_L : Validate.Ledger) : Ledger.Tx :=
  { id := tx.hash, asset := tx.asset, inputs := tx.inputs.map toInput, outputs := tx.outputs.map toOutput,
    refs := tx.references, sigOk := true, custOk := true }

/-- the ledger view as a state of the `Ledger` model (UTXO family only): used by the examples -/
def toEntry (u : Validate.Utxo) : (Nat × Nat) × Ledger.UTXO :=
  ((u.hash, u.index), ⟨u.asset, toOutType u.type, u.amount, u.keys, if u.lock = 0 then none else some u.lock⟩)

/-! ### agreement between the Ledger-model state and the ledger view -/

structure Agrees (st : Ledger.State) (L : Validate.Ledger) (tx : Validate.Tx) : Prop where
  /-- the UTXO family is a map: one entry per `(hash, index)` -/
  nodupKeys : (st.utxo.map (·.1)).Nodup
  /-- every ordinary input's entry shows the asset and amount the validator read, and is locked by
      this transaction (`LockInputs` ran) -/
  inputs : ∀ inp ∈ tx.inputs, inp.mint = none → inp.deposit = none →
    ∀ u, L.utxo inp.hash inp.index = some u →
      ∃ e, Ledger.aget st.utxo (inp.hash, inp.index) = some e ∧ e.asset = u.asset ∧ e.amount = u.amount ∧
        e.lock = some tx.hash
  /-- nothing else is locked by this transaction -/
  only : ∀ p ∈ st.utxo, p.2.lock = some tx.hash →
    ∃ inp ∈ tx.inputs, inp.mint = none ∧ inp.deposit = none ∧ p.1 = (inp.hash, inp.index)

/-! ### sums over the UTXO family selected by key -/

abbrev Entries := List ((Nat × Nat) × Ledger.UTXO)

/-- amount of the entries satisfying a predicate that may look at the key -/
def sumE (p : (Nat × Nat) × Ledger.UTXO → Bool) : Entries → Nat
  | [] => 0
  | e :: r => (if p e then e.2.amount else 0) + sumE p r

theorem sumIf_eq_sumE (f : Ledger.UTXO → Bool) (l : Entries) : Ledger.sumIf f l = sumE (fun e => f e.2) l := by
  induction l with
  | nil => rfl
  | cons e r ih => obtain ⟨k, u⟩ := e; simp [Ledger.sumIf, sumE, ih]

theorem sumE_congr {p q : (Nat × Nat) × Ledger.UTXO → Bool} {l : Entries} (h : ∀ e ∈ l, p e = q e) :
    sumE p l = sumE q l := by
  induction l with
  | nil => rfl
  | cons e r ih =>
    simp only [sumE, h e (by simp)]
    rw [ih (fun x hx => h x (by simp [hx]))]

theorem sumE_false {l : Entries} : sumE (fun _ => false) l = 0 := by
  induction l with
  | nil => rfl
  | cons e r ih => simp [sumE, ih]

theorem sumE_add {p q s : (Nat × Nat) × Ledger.UTXO → Bool} {l : Entries}
    (h : ∀ e ∈ l, (p e = (q e || s e)) ∧ ¬ (q e = true ∧ s e = true)) : sumE p l = sumE q l + sumE s l := by
  induction l with
  | nil => rfl
  | cons e r ih =>
    have he := h e (by simp)
    have := ih (fun x hx => h x (by simp [hx]))
    simp only [sumE, this, he.1]
    cases hq : q e <;> cases hs : s e <;> simp_all <;> omega

theorem aget_of_mem {l : Entries} {k : Nat × Nat} {u : Ledger.UTXO} (hn : (l.map (·.1)).Nodup) (hm : (k, u) ∈ l) :
    Ledger.aget l k = some u := by
  induction l with
  | nil => simp at hm
  | cons e r ih =>
    obtain ⟨k', u'⟩ := e
    simp only [List.map_cons, List.nodup_cons] at hn
    rcases List.mem_cons.1 hm with h | h
    · cases h; simp [Ledger.aget]
    · have hne : k' ≠ k := by
        intro hc; subst hc
        exact hn.1 (List.mem_map.2 ⟨(k', u), h, rfl⟩)
      simp [Ledger.aget, hne, ih hn.2 h]

/-- the entries with one given key contribute what the lookup returns -/
theorem sumE_key (g : Ledger.UTXO → Bool) {l : Entries} (k : Nat × Nat) (hn : (l.map (·.1)).Nodup) :
    sumE (fun e => g e.2 && decide (e.1 = k)) l =
      match Ledger.aget l k with
      | some u => if g u then u.amount else 0
      | none => 0 := by
  induction l with
  | nil => rfl
  | cons e r ih =>
    obtain ⟨k', u'⟩ := e
    simp only [List.map_cons, List.nodup_cons] at hn
    by_cases hk : k' = k
    · subst hk
      have hr : sumE (fun e => g e.2 && decide (e.1 = k')) r = 0 := by
        rw [← sumE_false (l := r)]
        apply sumE_congr
        intro x hx
        have : x.1 ≠ k' := fun hc => hn.1 (List.mem_map.2 ⟨x, hx, hc⟩)
        simp [this]
      simp [sumE, Ledger.aget, hr]
    · have := ih hn.2
      simp only [sumE, Ledger.aget, hk, if_false]
      simp only [decide_false, Bool.and_false, Bool.false_eq_true, if_false, Nat.zero_add]
      exact this

/-- value selected by membership of the key in a duplicate-free key list = sum of the lookups -/
theorem sumE_keys (g : Ledger.UTXO → Bool) {l : Entries} (hn : (l.map (·.1)).Nodup) :
    ∀ (K : List (Nat × Nat)), K.Nodup →
    sumE (fun e => g e.2 && decide (e.1 ∈ K)) l =
      (K.map (fun k => match Ledger.aget l k with
        | some u => if g u then u.amount else 0
        | none => 0)).sum := by
  intro K
  induction K with
  | nil => intro _; simp [sumE_false]
  | cons k K ih =>
    intro hK
    simp only [List.nodup_cons] at hK
    rw [sumE_add (q := fun e => g e.2 && decide (e.1 = k)) (s := fun e => g e.2 && decide (e.1 ∈ K))]
    · rw [sumE_key g k hn, ih hK.2]; simp
    · intro e _
      constructor
      · cases hg : g e.2 with
        | false => simp
        | true => simp [List.mem_cons, Bool.decide_or]
      · intro ⟨h1, h2⟩
        simp at h1 h2
        exact hK.1 (h1.2 ▸ h2.2)

/-! ### what the ledger state has locked for the transaction -/

open Mixin.Validate in
theorem lockedBy_none {st : Ledger.State} {L : Validate.Ledger} {tx : Validate.Tx} (hA : Agrees st L tx)
    (hno : ∀ inp ∈ tx.inputs, ¬ (inp.mint = none ∧ inp.deposit = none)) (a : Nat) :
    Ledger.lockedBy st tx.hash a = 0 := by
  unfold Ledger.lockedBy
  rw [sumIf_eq_sumE, ← sumE_false (l := st.utxo)]
  apply sumE_congr
  intro e he
  by_cases hl : e.2.lock = some tx.hash
  · obtain ⟨inp, hi, h1, h2, _⟩ := hA.only e he hl
    exact absurd ⟨h1, h2⟩ (hno inp hi)
  · simp [hl]

open Mixin.Validate in
theorem lockedBy_agrees {st : Ledger.State} {L : Validate.Ledger} {tx : Validate.Tx} (hA : Agrees st L tx)
    (hd : (tx.inputs.map inputKey).Nodup)
    (hall : ∀ inp ∈ tx.inputs, Ordinary inp ∧ ∃ u, L.utxo inp.hash inp.index = some u ∧ u.asset = tx.asset)
    (a : Nat) :
    Ledger.lockedBy st tx.hash a = if a = tx.asset then (tx.inputs.map (inputAmount L)).sum else 0 := by
  unfold Ledger.lockedBy
  rw [sumIf_eq_sumE]
  have hpt : ∀ e ∈ st.utxo,
      (decide (e.2.asset = a) && decide (e.2.lock = some tx.hash)) =
      ((fun u : Ledger.UTXO => decide (u.asset = a)) e.2 && decide (e.1 ∈ tx.inputs.map inputKey)) := by
    intro e he
    congr 1
    apply decide_eq_decide.2
    constructor
    · intro hl
      obtain ⟨inp, hi, _, _, hk⟩ := hA.only e he hl
      exact List.mem_map.2 ⟨inp, hi, by simp [inputKey, hk]⟩
    · intro hk
      obtain ⟨inp, hi, hkk⟩ := List.mem_map.1 hk
      obtain ⟨ho, u, hu, _⟩ := hall inp hi
      obtain ⟨e', hg, _, _, hl⟩ := hA.inputs inp hi ho.2.1 ho.2.2 u hu
      have hm : (e.1, e.2) ∈ st.utxo := by simpa using he
      have := aget_of_mem hA.nodupKeys hm
      rw [← hkk] at this
      simp only [inputKey] at this
      rw [hg] at this
      cases this
      exact hl
  rw [sumE_congr hpt, sumE_keys (fun u : Ledger.UTXO => decide (u.asset = a)) hA.nodupKeys _ hd, List.map_map]
  have hterm : ∀ inp ∈ tx.inputs,
      ((fun k => match Ledger.aget st.utxo k with
        | some u => if decide (u.asset = a) then u.amount else 0
        | none => 0) ∘ inputKey) inp = if a = tx.asset then inputAmount L inp else 0 := by
    intro inp hi
    obtain ⟨ho, u, hu, hasset⟩ := hall inp hi
    obtain ⟨e', hg, ha, hamt, _⟩ := hA.inputs inp hi ho.2.1 ho.2.2 u hu
    simp only [Function.comp, inputKey, hg]
    have hia : inputAmount L inp = u.amount := by simp [inputAmount, ho.2.1, ho.2.2, hu]
    rw [hia, ha, hasset, hamt]
    by_cases e : a = tx.asset
    · simp [e]
    · have e' : ¬ tx.asset = a := fun x => e x.symm
      simp [e, e']
  rw [List.map_congr_left hterm]
  have hz : ∀ l : List Validate.Input, (l.map (fun _ => 0)).sum = 0 := by
    intro l; induction l <;> simp_all
  by_cases e : a = tx.asset
  · simp [e]
  · simp [e, hz]

/-! ### output sums of the translation -/

theorem toOutType_script : toOutType otScript = .script := by decide
theorem toOutType_submit : toOutType otWithdrawalSubmit = .withdrawalSubmit := by decide

theorem matSum_all {outs : List Validate.Output}
    (h : ∀ x ∈ outs, Ledger.materialised (toOutType x.type) = some true) :
    Ledger.matSum (outs.map toOutput) = (outs.map (·.amount)).sum := by
  induction outs with
  | nil => rfl
  | cons o r ih =>
    have ho := h o (by simp)
    simp [Ledger.matSum, toOutput, ho, ih (fun x hx => h x (by simp [hx]))]

theorem submitSum_none {outs : List Validate.Output} (h : ∀ x ∈ outs, toOutType x.type ≠ .withdrawalSubmit) :
    Ledger.submitSum (outs.map toOutput) = 0 := by
  induction outs with
  | nil => rfl
  | cons o r ih =>
    have ho := h o (by simp)
    simp [Ledger.submitSum, toOutput, ho, ih (fun x hx => h x (by simp [hx]))]

theorem mat_ne_submit {t : Nat} (h : Ledger.materialised (toOutType t) = some true) :
    toOutType t ≠ .withdrawalSubmit := by
  intro hc; rw [hc] at h; simp [Ledger.materialised] at h

theorem outputsType_no_submit : ∀ (outs : List Ledger.Output) (b : Bool),
    (∀ o ∈ outs, o.typ ≠ .withdrawalSubmit) → Ledger.outputsType outs b ≠ .withdrawalSubmit := by
  intro outs
  induction outs with
  | nil => intro b _; unfold Ledger.outputsType; split <;> simp
  | cons o r ih =>
    intro b h
    have ho := h o (by simp)
    have hr := fun b' => ih b' (fun x hx => h x (by simp [hx]))
    unfold Ledger.outputsType
    cases ht : o.typ <;> (try simp only []) <;> first | exact hr _ | exact absurd ht ho | simp

theorem outputsType_not_input_type : ∀ (outs : List Ledger.Output) (b : Bool),
    Ledger.outputsType outs b ≠ .mint ∧ Ledger.outputsType outs b ≠ .deposit := by
  intro outs
  induction outs with
  | nil => intro b; unfold Ledger.outputsType; split <;> simp
  | cons o r ih =>
    intro b
    unfold Ledger.outputsType
    cases ht : o.typ <;> simp [ih]

open Mixin.Validate in
theorem inputsType_ordinary {ins : List Validate.Input} (h : ∀ inp ∈ ins, Ordinary inp) :
    Ledger.inputsType (ins.map toInput) = none := by
  induction ins with
  | nil => rfl
  | cons x r ih =>
    have hx := h x (by simp)
    simp [toInput, hx.1, hx.2.1, hx.2.2, Ledger.inputsType, ih (fun y hy => h y (by simp [hy]))]

/-! ### the output types of an accepted transaction -/

open Mixin.Validate in
theorem typeOfOutputs_script : ∀ (outs : List Validate.Output) (b : Bool),
    typeOfOutputs outs b = ttScript → ∀ o ∈ outs, o.type = otScript := by
  intro outs
  induction outs with
  | nil => intro b _ o ho; simp at ho
  | cons x r ih =>
    intro b h o ho
    unfold typeOfOutputs at h
    split at h
    · exfalso
      revert h
      unfold outputTxType
      repeat' split
      all_goals decide
    · rcases List.mem_cons.1 ho with rfl | ho
      · -- the accumulated flag must stay true
        by_cases hx : (o.type == otScript) = true
        · simpa using hx
        · exfalso
          have hb : (b && o.type == otScript) = false := by simp [hx]
          rw [hb] at h
          have : ∀ (l : List Validate.Output), typeOfOutputs l false ≠ ttScript := by
            intro l
            induction l with
            | nil => simp [typeOfOutputs]; decide
            | cons y s ihs =>
              unfold typeOfOutputs
              split
              · unfold outputTxType
                repeat' split
                all_goals decide
              · simpa using ihs
          exact this r h
      · exact ih _ h o ho

open Mixin.Validate in
theorem special_materialised {t : Nat} (hs : isSpecialOutput t = true)
    (h1 : outputTxType t ≠ ttWithdrawalSubmit) (h2 : outputTxType t ≠ ttCustodianSlash) :
    Ledger.materialised (toOutType t) = some true := by
  simp only [isSpecialOutput, Bool.or_eq_true, beq_iff_eq] at hs
  rcases hs with ((((((h | h) | h) | h) | h) | h) | h) | h <;> subst h <;> first | decide | (exfalso; revert h1 h2; decide)

open Mixin.Validate in
/-- a single-output transaction without special inputs whose type is one of the node types -/
theorem single_special {o : Validate.Output} {T : Nat} (h : typeOfOutputs [o] true = T)
    (hs : T ≠ ttScript) (hu : T ≠ ttUnknown) (h1 : T ≠ ttWithdrawalSubmit) (h2 : T ≠ ttCustodianSlash) :
    Ledger.materialised (toOutType o.type) = some true := by
  unfold typeOfOutputs at h
  split at h
  · rename_i hsp
    exact special_materialised hsp (h ▸ h1) (h ▸ h2)
  · exfalso
    simp only [typeOfOutputs] at h
    split at h
    · exact hs h.symm
    · exact hu h.symm

open Mixin.Validate in
theorem one_output {tx : Validate.Tx} (h : (tx.outputs.length != 1) = false) : ∃ o, tx.outputs = [o] := by
  simp at h
  match hl : tx.outputs, h with
  | [x], _ => exact ⟨x, rfl⟩

open Mixin.Validate in
theorem single_node_output {tx : Validate.Tx} {T : Nat} (ht : txType tx = T) (h1 : (tx.outputs.length != 1) = false)
    (hm : T ≠ ttMint) (hd : T ≠ ttDeposit) (hu : T ≠ ttUnknown) (hs : T ≠ ttScript)
    (hw : T ≠ ttWithdrawalSubmit) (hc : T ≠ ttCustodianSlash) :
    ∀ x ∈ tx.outputs, Ledger.materialised (toOutType x.type) = some true := by
  obtain ⟨o, ho⟩ := one_output h1
  have hti : typeOfInputs tx.inputs = none :=
    typeOfInputs_none (by rw [ht]; exact hm) (by rw [ht]; exact hd) (by rw [ht]; exact hu)
  have hT : typeOfOutputs [o] true = T := by simpa [txType, hti, ho] using ht
  intro x hx
  rw [ho] at hx
  simp at hx
  subst hx
  exact single_special hT hs hu hw hc

open Mixin.Validate in
/-- **Output types of an accepted transaction.** Either it is a withdrawal submission (first output
    of submit type, every other output a script output), or every output is of a type that
    `UnspentOutputs` materialises. -/
theorem accepted_output_shape {L : Validate.Ledger} {O : Oracle} {tx : Validate.Tx} {fork : Bool} {i o : Nat}
    (h : Validate.validate L O tx fork = .accept i o) :
    (txType tx = ttWithdrawalSubmit ∧ ∃ s r, tx.outputs = s :: r ∧ s.type = otWithdrawalSubmit ∧
        ∀ x ∈ r, x.type = otScript) ∨
    (txType tx ≠ ttWithdrawalSubmit ∧ ∀ x ∈ tx.outputs, Ledger.materialised (toOutType x.type) = some true) := by
  obtain ⟨hs, _, f, hin, _, _, hd⟩ := validateM_ok (C01.accept_iff.1 h)
  have script_mat : ∀ x : Validate.Output, x.type = otScript →
      Ledger.materialised (toOutType x.type) = some true := by
    intro x hx; rw [hx]; decide
  unfold dispatch at hd
  split at hd
  · -- script
    rename_i ht
    have ht' : txType tx = ttScript := by simpa using ht
    right
    refine ⟨by rw [ht']; decide, ?_⟩
    have hti : typeOfInputs tx.inputs = none :=
      typeOfInputs_none (by rw [ht']; decide) (by rw [ht']; decide) (by rw [ht']; decide)
    have hto : typeOfOutputs tx.outputs true = ttScript := by simpa [txType, hti] using ht'
    intro x hx
    exact script_mat x (typeOfOutputs_script _ _ hto x hx)
  · split at hd
    · -- mint
      rename_i _ ht
      have ht' : txType tx = ttMint := by simpa using ht
      right
      refine ⟨by rw [ht']; decide, ?_⟩
      unfold validateMint at hd
      split at hd
      · simp only [bind_ok, guardRej_ok] at hd
        obtain ⟨_, h1, _⟩ := hd
        intro x hx
        apply script_mat
        have := List.any_eq_false.1 h1 x hx
        simpa using this
      · simp at hd
    · split at hd
      · -- deposit
        rename_i _ _ ht
        have ht' : txType tx = ttDeposit := by simpa using ht
        right
        refine ⟨by rw [ht']; decide, ?_⟩
        unfold validateDeposit at hd
        simp only [bind_ok, guardRej_ok] at hd
        obtain ⟨_, _, _, h2, _, h3, _⟩ := hd
        obtain ⟨x0, hx0⟩ := one_output h2
        intro x hx
        rw [hx0] at hx h3
        simp at hx h3
        subst hx
        exact script_mat x h3
      · split at hd
        · -- withdrawal submit
          rename_i _ _ _ ht
          have ht' : txType tx = ttWithdrawalSubmit := by simpa using ht
          left
          refine ⟨ht', ?_⟩
          unfold validateWithdrawalSubmit at hd
          simp only [bind_ok, guardRej_ok] at hd
          obtain ⟨_, _, _, h2, hrest⟩ := hd
          split at hrest
          · simp at hrest
          · rename_i submit hh
            simp only [bind_ok, guardRej_ok] at hrest
            obtain ⟨_, h3, _⟩ := hrest
            cases ho : tx.outputs with
            | nil => simp [ho] at hh
            | cons s r =>
              simp [ho] at hh h2
              subst hh
              exact ⟨s, r, rfl, by simpa using h3, h2⟩
        · split at hd
          · -- withdrawal claim
            rename_i _ _ _ _ ht
            have ht' : txType tx = ttWithdrawalClaim := by simpa using ht
            right
            refine ⟨by rw [ht']; decide, ?_⟩
            unfold validateWithdrawalClaim at hd
            simp only [bind_ok, guardRej_ok] at hd
            obtain ⟨_, _, _, _, _, h3, hrest⟩ := hd
            split at hrest
            · split at hrest
              · simp at hrest
              · rename_i claim hh
                simp only [bind_ok, guardRej_ok] at hrest
                obtain ⟨_, h4, _⟩ := hrest
                cases ho : tx.outputs with
                | nil => simp [ho] at hh
                | cons s r =>
                  simp [ho] at hh h3
                  subst hh
                  intro x hx
                  rcases List.mem_cons.1 hx with rfl | hx
                  · have : x.type = otWithdrawalClaim := by simpa using h4
                    rw [this]; decide
                  · exact script_mat x (h3 x hx)
            · simp at hrest
          · split at hd
            · -- node pledge
              rename_i _ _ _ _ _ ht
              have ht' : txType tx = ttNodePledge := by simpa using ht
              right
              refine ⟨by rw [ht']; decide, ?_⟩
              unfold validateNodePledge at hd
              simp only [bind_ok, guardRej_ok] at hd
              obtain ⟨_, _, _, h2, _⟩ := hd
              exact single_node_output ht' h2 (by decide) (by decide) (by decide) (by decide) (by decide) (by decide)
            · split at hd
              · -- node cancel
                rename_i _ _ _ _ _ _ ht
                have ht' : txType tx = ttNodeCancel := by simpa using ht
                right
                refine ⟨by rw [ht']; decide, ?_⟩
                unfold validateNodeCancel at hd
                simp only [bind_ok, guardRej_ok] at hd
                obtain ⟨_, _, _, _, _, _, hrest⟩ := hd
                split at hrest
                · rename_i sig cancel script inp _ ho _
                  simp only [bind_ok, guardRej_ok] at hrest
                  obtain ⟨_, _, _, h5, _⟩ := hrest
                  simp at h5
                  intro x hx
                  rw [ho] at hx
                  simp at hx
                  rcases hx with rfl | rfl
                  · rw [h5.1]; decide
                  · rw [h5.2]; decide
                · simp at hrest
              · split at hd
                · -- node accept
                  rename_i _ _ _ _ _ _ _ ht
                  have ht' : txType tx = ttNodeAccept := by simpa using ht
                  right
                  refine ⟨by rw [ht']; decide, ?_⟩
                  unfold validateNodeAccept at hd
                  simp only [bind_ok, guardRej_ok] at hd
                  obtain ⟨_, _, _, h2, _⟩ := hd
                  exact single_node_output ht' h2 (by decide) (by decide) (by decide) (by decide) (by decide) (by decide)
                · split at hd
                  · -- node remove
                    rename_i _ _ _ _ _ _ _ _ ht
                    have ht' : txType tx = ttNodeRemove := by simpa using ht
                    right
                    refine ⟨by rw [ht']; decide, ?_⟩
                    unfold validateNodeRemove at hd
                    simp only [bind_ok, guardRej_ok] at hd
                    obtain ⟨_, _, _, h2, _⟩ := hd
                    exact single_node_output ht' h2 (by decide) (by decide) (by decide) (by decide) (by decide) (by decide)
                  · split at hd
                    · -- custodian update
                      rename_i _ _ _ _ _ _ _ _ _ ht
                      have ht' : txType tx = ttCustodianUpdate := by simpa using ht
                      right
                      refine ⟨by rw [ht']; decide, ?_⟩
                      unfold validateCustodianUpdateNodes at hd
                      simp only [bind_ok, guardRej_ok] at hd
                      obtain ⟨_, _, _, _, hrest⟩ := hd
                      split at hrest
                      · rename_i out ho
                        simp only [bind_ok, guardRej_ok] at hrest
                        obtain ⟨_, h3, _⟩ := hrest
                        intro x hx
                        rw [ho] at hx
                        simp at hx
                        subst hx
                        have : x.type = otCustodianUpdate := by simpa using h3
                        rw [this]; decide
                      · simp at hrest
                    · simp at hd

/-! ### the bridge -/

open Mixin.Validate in
/-- **validate_accept_conserving.** The translation of a transaction accepted by the model of
    `Validate`, met in a `Ledger`-model state that agrees with the ledger view on what the
    transaction has locked, is `Conserving` in the sense of C17: nothing of another asset is locked
    by it, and value locked + value minted (deposit / mint amount) = value materialised + value
    burnt (withdrawal-submit outputs). -/
theorem validate_accept_conserving {L : Validate.Ledger} {O : Oracle} {tx : Validate.Tx} {fork : Bool}
    {i o : Nat} {st : Ledger.State}
    (h : Validate.validate L O tx fork = .accept i o) (hA : Agrees st L tx) :
    C17.Conserving st (toLedgerTx tx L) := by
  obtain ⟨hs, _, f, hin, _, _, hd⟩ := validateM_ok (C01.accept_iff.1 h)
  obtain ⟨_, hin1, _, _⟩ := structural_ok hs
  obtain ⟨_, hsumI, hsumO, hio, _, _⟩ := C01.validate_conserves h
  have hnd := C01.validate_inputs_distinct h
  have hshape := accepted_output_shape h
  -- value of the outputs = materialised + burnt, and the type of the translation
  rcases validateInputs_ok hin with ⟨fl, hl⟩ | ⟨a, hl, _, _⟩
  · -- a single mint / deposit input
    obtain ⟨x, hx, hamt, hsp⟩ := C01.early_single hl hd
    have hno : ∀ inp ∈ tx.inputs, ¬ (inp.mint = none ∧ inp.deposit = none) := by
      intro inp hi ⟨h1, h2⟩
      rw [hx] at hi; simp at hi; subst hi
      rcases hsp with h' | h' <;> simp_all
    have hlock := lockedBy_none hA hno
    have htt := early_type hl
    have hmat : ∀ y ∈ tx.outputs, Ledger.materialised (toOutType y.type) = some true := by
      rcases hshape with ⟨hw, _⟩ | ⟨_, hm⟩
      · rcases htt with h' | h' <;> (rw [h'] at hw; exact absurd hw (by decide))
      · exact hm
    refine ⟨fun b _ => by simpa [toLedgerTx] using hlock b, ?_⟩
    have hms := matSum_all hmat
    -- type and minted amount of the translation
    cases hm : x.mint with
    | some m =>
      have hty : Ledger.txType (toLedgerTx tx L) = .mint := by
        simp [Ledger.txType, toLedgerTx, hx, toInput, hm, Ledger.inputsType]
      have hminted : Ledger.minted (toLedgerTx tx L) = m.amount := by
        simp [Ledger.minted, hty]; simp [toLedgerTx, hx, toInput, hm]
      have hburnt : Ledger.burnt (toLedgerTx tx L) = 0 := by simp [Ledger.burnt, hty]
      have hia : inputAmount L x = m.amount := by simp [inputAmount, hm]
      have hl0 : Ledger.lockedBy st (toLedgerTx tx L).id (toLedgerTx tx L).asset = 0 := hlock _
      have hms' : Ledger.matSum (toLedgerTx tx L).outputs = (tx.outputs.map (·.amount)).sum := hms
      rw [hl0, hminted, hburnt, hms', hsumO, ← hio, hamt, hia]
      omega
    | none =>
      have hdp : x.deposit.isSome = true := by rcases hsp with h' | h' <;> simp_all
      obtain ⟨d, hd'⟩ := Option.isSome_iff_exists.1 hdp
      have hty : Ledger.txType (toLedgerTx tx L) = .deposit := by
        simp [Ledger.txType, toLedgerTx, hx, toInput, hm, hd', Ledger.inputsType]
      have hminted : Ledger.minted (toLedgerTx tx L) = d.amount := by
        simp [Ledger.minted, hty]; simp [toLedgerTx, hx, toInput, hm, hd']
      have hburnt : Ledger.burnt (toLedgerTx tx L) = 0 := by simp [Ledger.burnt, hty]
      have hia : inputAmount L x = d.amount := by simp [inputAmount, hm, hd']
      have hl0 : Ledger.lockedBy st (toLedgerTx tx L).id (toLedgerTx tx L).asset = 0 := hlock _
      have hms' : Ledger.matSum (toLedgerTx tx L).outputs = (tx.outputs.map (·.amount)).sum := hms
      rw [hl0, hminted, hburnt, hms', hsumO, ← hio, hamt, hia]
      omega
  · -- ordinary inputs only
    have hspec := loopSpec_sum _ _ _ _ (loop_full _ _ _ _ hl)
    have hall := hspec.2
    have hlock := lockedBy_agrees hA hnd hall
    refine ⟨fun b hb => by
      have := hlock b
      simp only [toLedgerTx] at hb ⊢
      rw [this]; simp [hb], ?_⟩
    have hit : Ledger.inputsType ((toLedgerTx tx L).inputs) = none :=
      inputsType_ordinary (fun inp hi => (hall inp hi).1)
    -- the first input is an output reference
    obtain ⟨x, rest, hx⟩ : ∃ x rest, tx.inputs = x :: rest := by
      cases hi : tx.inputs with
      | nil => simp [hi] at hin1
      | cons x r => exact ⟨x, r, rfl⟩
    have hxo := (hall x (by simp [hx])).1
    have hhead : (toLedgerTx tx L).inputs = .utxo x.hash x.index :: rest.map toInput := by
      simp [toLedgerTx, hx, toInput, hxo.1, hxo.2.1, hxo.2.2]
    have hty : Ledger.txType (toLedgerTx tx L) = Ledger.outputsType (tx.outputs.map toOutput) true := by
      simp only [Ledger.txType, hit]; rfl
    have hminted : Ledger.minted (toLedgerTx tx L) = 0 := by
      have hne := outputsType_not_input_type (tx.outputs.map toOutput) true
      unfold Ledger.minted
      rw [hhead]
      cases hT : Ledger.txType (toLedgerTx tx L) <;> simp_all
    have hl' := hlock tx.asset
    simp only [if_true] at hl'
    simp only [toLedgerTx] at hl' ⊢
    rw [hl', hsumI]
    rcases hshape with ⟨_, s, r, ho, hst, hr⟩ | ⟨_, hm⟩
    · -- withdrawal submission
      have hty' : Ledger.txType (toLedgerTx tx L) = .withdrawalSubmit := by
        rw [hty, ho]; simp [toOutput, hst, toOutType_submit, Ledger.outputsType]
      have hmr : ∀ y ∈ r, Ledger.materialised (toOutType y.type) = some true := by
        intro y hy; rw [hr y hy]; decide
      have hb : Ledger.burnt (toLedgerTx tx L) = s.amount := by
        simp only [Ledger.burnt, hty']
        simp only [toLedgerTx, ho, List.map_cons, Ledger.submitSum, toOutput, hst, toOutType_submit, if_true]
        have := submitSum_none (outs := r) (fun y hy => mat_ne_submit (hmr y hy))
        rw [this]; rfl
      have hms : Ledger.matSum ((toLedgerTx tx L).outputs) = (r.map (·.amount)).sum := by
        simp only [toLedgerTx, ho, List.map_cons, Ledger.matSum, toOutput, hst, toOutType_submit]
        have := matSum_all hmr
        rw [this]; simp [Ledger.materialised]
      simp only [toLedgerTx] at hminted hb hms
      rw [hminted, hb, hms]
      rw [ho] at hsumO
      simp at hsumO
      omega
    · have hns : Ledger.txType (toLedgerTx tx L) ≠ .withdrawalSubmit := by
        rw [hty]
        apply outputsType_no_submit
        intro y hy
        obtain ⟨z, hz, rfl⟩ := List.mem_map.1 hy
        exact mat_ne_submit (hm z hz)
      have hb : Ledger.burnt (toLedgerTx tx L) = 0 := by
        unfold Ledger.burnt
        cases hT : Ledger.txType (toLedgerTx tx L) <;> simp_all
      have hms := matSum_all hm
      simp only [toLedgerTx] at hminted hb hms
      rw [hminted, hb, hms, hsumO]
      omega

/-! ### C17 with the `Conserving` hypothesis discharged by C01 -/

/-- the hypothesis of a snapshot write, in terms of validation: each member finalized for the first
    time is the translation of a transaction accepted by the model of `Validate`, met in a state
    that agrees with the ledger view the validator read, with fresh outputs -/
def MembersValidated (cap : Ledger.Id → Nat) : List Ledger.Id → Ledger.State → Ledger.Snap → Prop
  | [], _, _ => True
  | t :: r, st, snap =>
    match Ledger.aget st.txs t with
    | none => True
    | some ltx =>
      (Ledger.aget st.fin ltx.id = none →
        (∃ (L : Validate.Ledger) (O : Validate.Oracle) (vtx : Validate.Tx) (fork : Bool) (i o : Nat),
          ltx = toLedgerTx vtx L ∧ Validate.validate L O vtx fork = .accept i o ∧ Agrees st L vtx) ∧
        C17.FreshOut st ltx) ∧
      (∀ st', Ledger.finalizeTransaction cap st ltx snap.id snap.ts = .ok st' →
        MembersValidated cap r { st' with unique := Ledger.aset st'.unique (t, snap.node) () } snap)

theorem membersValidated_conserve {cap : Ledger.Id → Nat} : ∀ (l : List Ledger.Id) (st : Ledger.State)
    (snap : Ledger.Snap), MembersValidated cap l st snap → C17.MembersConserve cap l st snap := by
  intro l
  induction l with
  | nil => intro st snap _; simp [C17.MembersConserve]
  | cons t r ih =>
    intro st snap h
    simp only [MembersValidated] at h
    simp only [C17.MembersConserve]
    split
    · trivial
    · rename_i ltx hg
      simp only [hg] at h
      refine ⟨fun hn => ?_, fun st' hf => ih _ _ (h.2 st' hf)⟩
      obtain ⟨⟨L, O, vtx, fork, i, o, rfl, hacc, hA⟩, hfresh⟩ := h.1 hn
      exact ⟨validate_accept_conserving hacc hA, hfresh⟩

/-- the histories of C17 whose snapshot members come out of the validator -/
inductive ReachV (P : Ledger.Params) : Ledger.State → Prop
  | init : ReachV P {}
  | validate {st} (tx : Ledger.Tx) (fork : Bool) : ReachV P st → ReachV P (Ledger.validate P st tx fork).2
  | lock {st} (tx : Ledger.Tx) (fork : Bool) : ReachV P st → Ledger.aget st.fin tx.id = none →
      ReachV P (Ledger.LockInputs st tx fork).2
  | put {st} (tx : Ledger.Tx) : ReachV P st → ReachV P (Ledger.WriteTransaction st tx).2
  | snap {st} (s : Ledger.Snap) (sg : Nat) : ReachV P st → MembersValidated P.cap s.txs st s →
      ReachV P (Ledger.WriteSnapshot P.cap st s sg).2

theorem reachV_reach {P : Ledger.Params} {st : Ledger.State} (h : ReachV P st) : C17.Reach P st := by
  induction h with
  | init => exact .init
  | validate tx fork _ ih => exact .validate tx fork ih
  | lock tx fork _ hn ih => exact .lock tx fork ih hn
  | put tx _ ih => exact .put tx ih
  | snap s sg _ hm ih => exact .snap s sg ih (membersValidated_conserve _ _ _ hm)

/-- **supply_invariant_of_validated.** C17's supply theorem with per-transaction conservation
    provided by C01: in every state reached by validations, input locks, body writes and snapshot
    writes whose first-time members are translations of transactions accepted by the model of
    `Validate` (in agreeing states, with fresh outputs), the recorded total of every asset equals
    the value in outputs not consumed by a finalized transaction, and is within capacity. -/
theorem supply_invariant_of_validated (P : Ledger.Params) {st : Ledger.State} (h : ReachV P st) :
    (∀ a, Ledger.readTotal st a = Ledger.unspent st a) ∧ (∀ a, Ledger.readTotal st a ≤ P.cap a) :=
  C17.supply_invariant P (reachV_reach h)

/-! ### Non-vacuity: a deposit, a transfer and a withdrawal submission, accepted by the model of
    `Validate`, translated, finalized in the `Ledger` model -/
namespace Example
open Mixin.Validate (Oracle)

def thr (n : Nat) : List Nat := [255, 254, n]

def oracle : Oracle :=
  { checkKey := fun k => 500 ≤ k, verify := fun k s => s == k + 1000, aggVerify := fun _ _ _ => false,
    claimSig := false, updParse := none, updSig := false, scalarOk := false, ghostEq := false }

def base : Validate.Tx :=
  { version := 5, asset := 2, inputs := [], outputs := [], references := [], extraLen := 0, extraId := 3,
    extra64 := 4, extraSpend := 0, sigs := none, agg := none, hash := 0, payloadSize := 300, cap := 1000 }

def sout (amount key : Nat) : Validate.Output :=
  { type := 0, amount := amount, keys := [key], mask := 600 + key, script := thr 1, withdrawal := false }

-- deposit of 300 into asset 2
def vdep : Validate.Tx :=
  { base with
    hash := 10,
    inputs := [{ hash := 0, index := 0, genesis := false, mint := none,
                 deposit := some { chain := 2, assetKeyOk := true, assetKey := 102, txOk := true, uniq := 1, amount := 300 } }],
    outputs := [sout 300 501], sigs := some [[(0, 1550)]] }
def Ldep : Validate.Ledger := { custodian := some { key := 550, addr := 50, nodes := [] } }

-- transfer spending (10, 0)
def vtr : Validate.Tx :=
  { base with
    hash := 12,
    inputs := [{ hash := 10, index := 0, genesis := false, deposit := none, mint := none }],
    outputs := [sout 100 502, sout 200 503], sigs := some [[(0, 1501)]] }
def Ltr : Validate.Ledger :=
  { utxos := [{ hash := 10, index := 0, type := 0, asset := 2, amount := 300, keys := [501], mask := 1101,
                script := thr 1, lock := 0 }] }

-- withdrawal submission of 50 spending (12, 1), 150 change
def vwd : Validate.Tx :=
  { base with
    hash := 13,
    inputs := [{ hash := 12, index := 1, genesis := false, deposit := none, mint := none }],
    outputs := [{ type := 161, amount := 50, keys := [], mask := 0, script := [], withdrawal := true }, sout 150 504],
    sigs := some [[(0, 1503)]] }
def Lwd : Validate.Ledger :=
  { utxos := [{ hash := 12, index := 1, type := 0, asset := 2, amount := 200, keys := [503], mask := 1103,
                script := thr 1, lock := 0 }] }

theorem acc_dep : Validate.validate Ldep oracle vdep false = .accept 300 300 := by decide
theorem acc_tr : Validate.validate Ltr oracle vtr false = .accept 300 300 := by decide
theorem acc_wd : Validate.validate Lwd oracle vwd false = .accept 200 200 := by decide

-- the translations are ordinary `Ledger` transactions
def dep : Ledger.Tx := toLedgerTx vdep Ldep
def tr : Ledger.Tx := toLedgerTx vtr Ltr
def wd : Ledger.Tx := toLedgerTx vwd Lwd
example : dep = ⟨10, 2, [.deposit 1 2 102 300], [⟨.script, 300, [501]⟩], [], true, true⟩ := by decide
example : tr = ⟨12, 2, [.utxo 10 0], [⟨.script, 100, [502]⟩, ⟨.script, 200, [503]⟩], [], true, true⟩ := by decide
example : wd = ⟨13, 2, [.utxo 12 1], [⟨.withdrawalSubmit, 50, []⟩, ⟨.script, 150, [504]⟩], [], true, true⟩ := by decide

-- the history in the `Ledger` model: lock, persist, finalize each of them
def capEx : Ledger.Id → Nat := fun _ => 1000
def s1 : Ledger.State := (Ledger.WriteTransaction (Ledger.LockInputs {} dep false).2 dep).2
def s2 : Ledger.State := (Ledger.WriteSnapshot capEx s1 ⟨100, 1, 1, 11, 8, [10]⟩ 0).2
def s3 : Ledger.State := (Ledger.WriteTransaction (Ledger.LockInputs s2 tr false).2 tr).2
def s4 : Ledger.State := (Ledger.WriteSnapshot capEx s3 ⟨101, 1, 1, 12, 9, [12]⟩ 0).2
def s5 : Ledger.State := (Ledger.WriteTransaction (Ledger.LockInputs s4 wd false).2 wd).2
def s6 : Ledger.State := (Ledger.WriteSnapshot capEx s5 ⟨102, 1, 1, 13, 10, [13]⟩ 0).2

-- each translation is finalized and the supply equality holds after each snapshot
example : Ledger.finalized s2 10 = true ∧ Ledger.readTotal s2 2 = 300 ∧ Ledger.unspent s2 2 = 300 := by decide
example : Ledger.finalized s4 12 = true ∧ Ledger.readTotal s4 2 = 300 ∧ Ledger.unspent s4 2 = 300 := by decide
example : Ledger.finalized s6 13 = true ∧ Ledger.readTotal s6 2 = 250 ∧ Ledger.unspent s6 2 = 250 := by decide

-- the states the transfer and the submission meet agree with the ledger views the validator read …
theorem agrees_tr : Agrees s3 Ltr vtr := by
  have hu : s3.utxo = [((10, 0), ⟨2, .script, 300, [501], some 12⟩)] := by decide
  refine ⟨by rw [hu]; decide, ?_, ?_⟩
  · intro inp hi _ _ u hu'
    have : inp = { hash := 10, index := 0, genesis := false, deposit := none, mint := none } := by
      simpa [vtr] using hi
    subst this
    have h0 : Ltr.utxo 10 0 = some ⟨10, 0, 0, 2, 300, [501], 1101, thr 1, 0⟩ := by decide
    have : u = ⟨10, 0, 0, 2, 300, [501], 1101, thr 1, 0⟩ := by
      have hu'' : Ltr.utxo 10 0 = some u := hu'
      rw [h0] at hu''; exact (Option.some.inj hu'').symm
    subst this
    exact ⟨⟨2, .script, 300, [501], some 12⟩, by rw [hu]; decide, rfl, rfl, rfl⟩
  · intro p hp _
    rw [hu] at hp
    simp at hp
    subst hp
    exact ⟨{ hash := 10, index := 0, genesis := false, deposit := none, mint := none }, by simp [vtr], rfl, rfl, rfl⟩

-- … so the bridge gives C17's hypothesis for them
example : C17.Conserving s3 tr := validate_accept_conserving acc_tr agrees_tr

theorem agrees_dep : Agrees (Ledger.LockInputs {} dep false).2 Ldep vdep := by
  have hu : (Ledger.LockInputs {} dep false).2.utxo = [] := by decide
  refine ⟨by rw [hu]; decide, ?_, ?_⟩
  · intro inp hi hm hd
    have : inp.deposit ≠ none := by
      simp only [vdep, List.mem_singleton] at hi
      subst hi; simp
    exact absurd hd this
  · intro p hp; rw [hu] at hp; simp at hp

example : C17.Conserving (Ledger.LockInputs {} dep false).2 dep := validate_accept_conserving acc_dep agrees_dep

end Example
end Mixin.Bridge
