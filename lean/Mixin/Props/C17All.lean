import Mixin.Props.C17
import Mixin.Props.BridgeC01C17
/-! C17 together with the bridge that discharges its `Conserving` hypothesis from C01
    (`Mixin.Bridge.validate_accept_conserving`, `Mixin.Bridge.supply_invariant_of_validated`). -/
