import Mixin.Model.RoundHash
import Mixin.Proofs.RoundHash
import Mixin.Facts.ExpectedC18
/-!
# C18 — round hashes are a deterministic function of the round's snapshot set

Theorems about `Mixin.Model.RoundHash` (model of `common/round.go:ComputeRoundHash`,
`storage/badger_validation.go:computeRoundHash`, `kernel/round.go:CacheRound.asFinal`).
The hash function `H` is an arbitrary parameter (blake3 in the code): nothing below needs
any property of it.
-/
namespace Mixin.C18
open Mixin.BytesSnap Mixin.RoundHash

/-! ## the master statement -/

/-- **The result is the specification applied to the multiset of (timestamp, hash) pairs.**
    `spec` sorts the pairs lexicographically and chains `H` over the hashes; start and end are
    the first and last timestamp; `none` (panic) on the empty round or when the span reaches the
    round gap. The defensive panics inside the hashing loop are unreachable. -/
theorem roundhash_spec {α : Type} (v : View α) (H : Bytes → Bytes) (node : Bytes) (number : Nat)
    (l : List α) :
    computeRoundHashG v H node number l = spec H node number (l.map (key v)) :=
  computeRoundHashG_eq_spec v H node number l

/-- Two supplies — possibly of different element types — whose (timestamp, hash) pairs are
    permutations of each other give the same hash, start and end (and panic alike). -/
theorem roundhash_keys_perm {α β : Type} (v : View α) (w : View β) (H : Bytes → Bytes)
    (node : Bytes) (number : Nat) (l₁ : List α) (l₂ : List β)
    (h : (l₁.map (key v)).Perm (l₂.map (key w))) :
    computeRoundHashG v H node number l₁ = computeRoundHashG w H node number l₂ := by
  rw [roundhash_spec, roundhash_spec]
  unfold spec
  rw [sortKeys_eq_of_perm h]

/-! ## order independence -/

/-- **Order independence.** Supplying the same snapshots in any other order gives the same
    round hash, start and end. -/
theorem roundhash_perm (H : Bytes → Bytes) (node : Bytes) (number : Nat) {l₁ l₂ : List Snap}
    (h : l₁.Perm l₂) :
    computeRoundHash H node number l₁ = computeRoundHash H node number l₂ :=
  roundhash_keys_perm snapView snapView H node number l₁ l₂ (h.map _)

/-- the same for the storage validator -/
theorem roundhash_perm_storage (H : Bytes → Bytes) (node : Bytes) (number : Nat)
    {l₁ l₂ : List SnapTopo} (h : l₁.Perm l₂) :
    computeRoundHashStorage H node number l₁ = computeRoundHashStorage H node number l₂ :=
  roundhash_keys_perm topoView topoView H node number l₁ l₂ (h.map _)

/-- non-vacuity: a rotation of three snapshots with equal timestamps -/
def exA : Snap := ⟨2, 100, List.replicate 32 3, 7⟩
def exB : Snap := ⟨2, 100, List.replicate 32 2, 8⟩
def exC : Snap := ⟨1, 101, List.replicate 32 1, 9⟩
example : [exA, exB, exC].Perm [exC, exA, exB] := by decide

/-! ## only (timestamp, hash) matter -/

/-- **Fields.** The result depends on the snapshots only through their (timestamp, hash)
    pairs: versions, signatures, transactions, references, topology (`rest`, `topo`) are
    irrelevant. -/
theorem roundhash_fields_only (H : Bytes → Bytes) (node : Bytes) (number : Nat) {l₁ l₂ : List Snap}
    (h : l₁.map (fun s => (s.ts, s.hash)) = l₂.map (fun s => (s.ts, s.hash))) :
    computeRoundHash H node number l₁ = computeRoundHash H node number l₂ :=
  roundhash_keys_perm snapView snapView H node number l₁ l₂ (by
    show (l₁.map (fun s => (s.ts, s.hash))).Perm (l₂.map (fun s => (s.ts, s.hash)))
    rw [h])

example : [exA, exB].map (fun s => (s.ts, s.hash)) =
    [{ exA with version := 9, rest := 1 }, { exB with rest := 5 }].map (fun s => (s.ts, s.hash)) := by
  decide

/-! ## the two implementations agree -/

/-- **Validator agreement.** The startup graph validator (`storage.computeRoundHash`) applied to
    snapshots-with-topology returns exactly what the live node (`common.ComputeRoundHash`)
    returns on the underlying snapshots — in whatever order each of them reads the round. -/
theorem validator_agrees (H : Bytes → Bytes) (node : Bytes) (number : Nat)
    (ls : List SnapTopo) (lc : List Snap) (h : (ls.map (·.snap)).Perm lc) :
    computeRoundHashStorage H node number ls = computeRoundHash H node number lc := by
  refine roundhash_keys_perm topoView snapView H node number ls lc ?_
  have : ls.map (key topoView) = (ls.map (·.snap)).map (key snapView) := by
    rw [List.map_map]; rfl
  rw [this]
  exact h.map _

/-- same supply order, as a special case -/
theorem validator_agrees_same_order (H : Bytes → Bytes) (node : Bytes) (number : Nat)
    (ls : List SnapTopo) :
    computeRoundHashStorage H node number ls = computeRoundHash H node number (ls.map (·.snap)) :=
  validator_agrees H node number ls _ (List.Perm.refl _)

/-- `CacheRound.asFinal` is the common computation on a non-empty round and `nil` on an empty one -/
theorem asFinal_agrees (H : Bytes → Bytes) (node : Bytes) (number : Nat) (l : List Snap) :
    asFinal H node number l =
      if l = [] then some none else (computeRoundHash H node number l).map some := by
  unfold asFinal
  cases l with
  | nil => rfl
  | cons a t =>
    simp only [List.length_cons, Nat.add_one_ne_zero, if_false, reduceCtorEq]
    cases computeRoundHash H node number (a :: t) <;> rfl

/-! ## what the value is -/

/-- **Start and end bound every timestamp**, the round spans less than the gap, and the hash is
    the `H`-chain over the sorted hashes starting from `H (node ‖ be64 number)`. -/
theorem roundhash_value (H : Bytes → Bytes) (node : Bytes) (number : Nat) (l : List Snap)
    {s e : Nat} {h : Bytes} (hr : computeRoundHash H node number l = some (s, e, h)) :
    (∀ x ∈ l, s ≤ x.ts ∧ x.ts ≤ e) ∧
    (∃ x ∈ l, x.ts = s) ∧ (∃ x ∈ l, x.ts = e) ∧
    e < (s + roundGap) % 2 ^ 64 ∧
    h = foldKeys H (H (node ++ beBytes 8 number)) (sortKeys (l.map (fun x => (x.ts, x.hash)))) := by
  unfold computeRoundHash at hr
  rw [roundhash_spec] at hr
  unfold spec at hr
  have hsorted := sortKeys_sorted (l.map (key snapView))
  have hperm := sortKeys_perm (l.map (key snapView))
  cases hk : sortKeys (l.map (key snapView)) with
  | nil => rw [hk] at hr; cases hr
  | cons k ks =>
    rw [hk] at hr hsorted hperm
    simp only [specSorted] at hr
    split at hr
    · cases hr
    · rename_i hgap
      injection hr with hr
      injection hr with hs hr
      injection hr with he hh
      have memkey : ∀ x ∈ l, key snapView x ∈ k :: ks :=
        fun x hx => hperm.mem_iff.mpr (List.mem_map_of_mem hx)
      have ofkey : ∀ q ∈ k :: ks, ∃ x ∈ l, x.ts = q.1 := by
        intro q hq
        obtain ⟨x, hx, hxe⟩ := List.mem_map.mp (hperm.mem_iff.mp hq)
        exact ⟨x, hx, by rw [← hxe]; rfl⟩
      refine ⟨?_, ?_, ?_, ?_, ?_⟩
      · intro x hx
        have h1 := sorted_first_le hsorted _ (memkey x hx)
        have h2 := sorted_ts_le_last hsorted _ (memkey x hx)
        rw [← hs, ← he]
        exact ⟨h1, h2⟩
      · rw [← hs]; exact ofkey k (by simp)
      · rw [← he]; exact ofkey _ (lastOr_mem k ks)
      · rw [← hs, ← he]; omega
      · rw [← hh, ← hk]; rfl

/-- the empty round has no hash (index out of range in the Go code; callers guard it) -/
theorem empty_round_panics (H : Bytes → Bytes) (node : Bytes) (n : Nat) :
    computeRoundHash H node n [] = none := by
  rw [computeRoundHash, roundhash_spec]
  simp [spec, sortKeys, specSorted]

/-- non-vacuity: a non-empty round inside the gap has a hash -/
theorem nonempty_round_has_hash (H : Bytes → Bytes) (node : Bytes) (n : Nat) (a : Snap)
    (ha : a.ts < 2 ^ 64 - roundGap) :
    ∃ h, computeRoundHash H node n [a] = some (a.ts, a.ts, h) := by
  have hg : 0 < roundGap := Mixin.Facts.ExpectedC18.roundGap_pos
  have hlt : roundGap < 2 ^ 64 := Mixin.Facts.ExpectedC18.roundGap_lt
  refine ⟨foldKeys H (H (node ++ beBytes 8 n)) [(a.ts, a.hash)], ?_⟩
  rw [computeRoundHash, roundhash_spec]
  have hk : sortKeys ([a].map (key snapView)) = [(a.ts, a.hash)] := by
    simp [sortKeys, key, snapView]
  have hn : ¬ (a.ts ≥ (a.ts + roundGap) % 2 ^ 64) := by
    rw [Nat.mod_eq_of_lt (by omega)]; omega
  unfold spec
  rw [hk]
  simp only [specSorted, lastOr, hn, if_false]

end Mixin.C18
