import Mixin.Model.RoundHash
import Mixin.Proofs.BytesSnap
namespace Mixin.C18
open Mixin.BytesSnap Mixin.RoundHash

theorem empty_round_panics (H : Bytes → Bytes) (node : Bytes) (n : Nat) :
    computeRoundHash H node n [] = none := by
  simp [computeRoundHash, computeRoundHashG, sortSnaps]

end Mixin.C18
