import Mixin.Model.Finality
import Mixin.Facts.ExpectedC09
/-!
# C09 — a snapshot is final only with a threshold certificate from historical keys

`verifyFinalization` of `Mixin.Model.Finality` over the membership views of
`Mixin.Model.Membership`. Signature validity is the oracle `O` (answers of the real crypto).
`certTs` is the snapshot timestamp (minus one minute for the one hard-coded mainnet hash).
-/
namespace Mixin.C09
open Mixin.Membership Mixin.Finality

/-! ## FullVerify -/

theorem selectKeys_some {publics : List Nat} {idx ks : List Nat} (h : selectKeys publics idx = some ks) :
    (∀ i ∈ idx, i < publics.length) ∧ ks = idx.map (fun i => publics.getD i 0) := by
  induction idx generalizing ks with
  | nil => simp [selectKeys] at h; simp [h]
  | cons i rest ih =>
    unfold selectKeys at h
    cases hp : publics[i]? with
    | none => simp [hp] at h
    | some k =>
      cases hr : selectKeys publics rest with
      | none => simp [hp, hr] at h
      | some ks' =>
        simp only [hp, hr, Option.some.injEq] at h
        obtain ⟨h1, h2⟩ := ih hr
        have hi : i < publics.length := by
          rcases List.getElem?_eq_some_iff.1 hp with ⟨hlt, _⟩; exact hlt
        refine ⟨?_, ?_⟩
        · intro j hj
          rcases List.mem_cons.1 hj with hj | hj
          · rw [hj]; exact hi
          · exact h1 j hj
        · rw [← h, h2]
          simp [List.getD, hp]

theorem selectKeys_of_range {publics : List Nat} {idx : List Nat} (h : ∀ i ∈ idx, i < publics.length) :
    selectKeys publics idx = some (idx.map (fun i => publics.getD i 0)) := by
  induction idx with
  | nil => rfl
  | cons i rest ih =>
    have hi := h i (by simp)
    have hr := ih (fun j hj => h j (List.mem_cons_of_mem i hj))
    have hp : publics[i]? = some publics[i] := List.getElem?_eq_getElem hi
    simp [selectKeys, hp, hr, List.getD]

/-- the keys a mask selects from a key vector -/
def masked (publics : List Nat) (mask : Nat) : List Nat := (maskKeys mask).map (fun i => publics.getD i 0)

/-- `FullVerify` succeeds exactly when the threshold is positive, the mask names at least threshold
    positions, every position lies inside the key vector, and the aggregate signature verifies over
    the hash with exactly the masked keys. -/
theorem fullVerify_iff (O : Oracle) (publics : List Nat) (thr hash mask sig : Nat) :
    fullVerify O publics thr hash mask sig = true ↔
      0 < thr ∧ thr ≤ (maskKeys mask).length ∧ (∀ i ∈ maskKeys mask, i < publics.length) ∧
      O (masked publics mask) hash sig = true := by
  unfold fullVerify masked
  constructor
  · intro h
    by_cases h0 : thr = 0
    · simp [h0] at h
    · simp only [h0, if_false] at h
      by_cases h1 : (maskKeys mask).length < thr
      · simp [h1] at h
      · simp only [h1, if_false] at h
        by_cases h2 : (maskKeys mask).isEmpty = true
        · simp [h2] at h
        · simp only [h2, if_false] at h
          cases hs : selectKeys publics (maskKeys mask) with
          | none => simp [hs] at h
          | some ks =>
            simp only [hs] at h
            obtain ⟨hr, hk⟩ := selectKeys_some hs
            exact ⟨by omega, by omega, hr, by rw [← hk]; exact h⟩
  · rintro ⟨h0, h1, hr, ho⟩
    have hne : (maskKeys mask).isEmpty = false := by
      cases hm : maskKeys mask with
      | nil => rw [hm] at h1; simp at h1; omega
      | cons a t => rfl
    have h0' : ¬ thr = 0 := by omega
    have h1' : ¬ (maskKeys mask).length < thr := by omega
    simp only [h0', h1', hne, if_false, Bool.false_eq_true, selectKeys_of_range hr]
    exact ho

theorem freshVerify_true {O : Oracle} {cids publics : List Nat} {thr hash mask sig : Nat}
    (h : fullVerify O publics thr hash mask sig = true) :
    freshVerify O cids publics thr hash mask sig = ((maskKeys mask).map (fun k => cids.getD k 0), true) := by
  simp [freshVerify, h]

theorem freshVerify_false {O : Oracle} {cids publics : List Nat} {thr hash mask sig : Nat}
    (h : fullVerify O publics thr hash mask sig = false) :
    freshVerify O cids publics thr hash mask sig = ([], false) := by
  simp [freshVerify, h]

theorem freshVerify_snd (O : Oracle) (cids publics : List Nat) (thr hash mask sig : Nat) :
    (freshVerify O cids publics thr hash mask sig).2 = fullVerify O publics thr hash mask sig := by
  cases h : fullVerify O publics thr hash mask sig
  · rw [freshVerify_false h]
  · rw [freshVerify_true h]

/-! ## the verification cache -/

def enc (r : List Nat × Bool) : Option (List Nat) := if r.2 then some r.1 else none

/-- memo-table invariant: every entry is the fresh result for its key. The key holds hash, signature,
    all public keys, threshold and mask; signer ids are not in the key but are a function `idOf` of
    the public keys (`IdForNetwork` = hash of the signer address for the node's network). -/
def TableOk (O : Oracle) (idOf : Nat → Nat) (t : Table) : Prop :=
  ∀ e ∈ t, e.2 = enc (freshVerify O (e.1.publics.map idOf) e.1.publics e.1.thr e.1.hash e.1.mask e.1.sig)

theorem tableOk_nil (O : Oracle) (idOf : Nat → Nat) : TableOk O idOf [] := by intro e he; cases he

/-- evicting entries keeps the invariant -/
theorem tableOk_sublist {O : Oracle} {idOf : Nat → Nat} {t t' : Table} (h : TableOk O idOf t)
    (hs : t'.Sublist t) : TableOk O idOf t' := fun e he => h e (hs.subset he)

theorem decodeHit_enc (O : Oracle) (cids publics : List Nat) (thr hash mask sig : Nat) :
    decodeHit mask (enc (freshVerify O cids publics thr hash mask sig)) =
      freshVerify O cids publics thr hash mask sig := by
  cases h : fullVerify O publics thr hash mask sig
  · rw [freshVerify_false h]; rfl
  · rw [freshVerify_true h]
    have hpos := ((fullVerify_iff O publics thr hash mask sig).1 h)
    have hlen : 0 < (maskKeys mask).length := by omega
    simp [enc, decodeHit, hlen]

theorem cacheVerifyCosi_hit {O : Oracle} {t : Table} {hash sig mask : Nat} {cids publics : List Nat} {thr : Nat}
    {v : Option (List Nat)} (h : tableGet t ⟨hash, sig, publics, thr, mask⟩ = some v) :
    cacheVerifyCosi O t hash sig mask cids publics thr = (decodeHit mask v, t) := by
  simp only [cacheVerifyCosi, h]

theorem cacheVerifyCosi_miss {O : Oracle} {t : Table} {hash sig mask : Nat} {cids publics : List Nat} {thr : Nat}
    (h : tableGet t ⟨hash, sig, publics, thr, mask⟩ = none) :
    cacheVerifyCosi O t hash sig mask cids publics thr =
      (freshVerify O cids publics thr hash mask sig,
        (⟨hash, sig, publics, thr, mask⟩, enc (freshVerify O cids publics thr hash mask sig)) :: t) := by
  simp only [cacheVerifyCosi, h, enc]

/-- **cache_transparent**: with a table satisfying the invariant (in particular the empty table, or
    any table after arbitrary evictions), `cacheVerifyCosi` returns what a fresh verification returns
    and leaves a table satisfying the invariant. -/
theorem cache_transparent (O : Oracle) (idOf : Nat → Nat) (t : Table) (ht : TableOk O idOf t)
    (hash sig mask : Nat) (cids publics : List Nat) (thr : Nat) (hid : cids = publics.map idOf) :
    (cacheVerifyCosi O t hash sig mask cids publics thr).1 = freshVerify O cids publics thr hash mask sig ∧
    TableOk O idOf (cacheVerifyCosi O t hash sig mask cids publics thr).2 := by
  cases hg : tableGet t ⟨hash, sig, publics, thr, mask⟩ with
  | some v =>
    rw [cacheVerifyCosi_hit hg]
    refine ⟨?_, ht⟩
    unfold tableGet at hg
    cases hf : t.find? (fun e => e.1 == (⟨hash, sig, publics, thr, mask⟩ : CKey)) with
    | none => simp [hf] at hg
    | some e =>
      simp only [hf, Option.some.injEq] at hg
      have hm := List.mem_of_find?_eq_some hf
      have hk := List.find?_some hf
      simp only [beq_iff_eq] at hk
      have he := ht e hm
      rw [hk] at he
      simp only at he
      rw [← hg, he, ← hid]
      exact decodeHit_enc O cids publics thr hash mask sig
  | none =>
    rw [cacheVerifyCosi_miss hg]
    refine ⟨rfl, ?_⟩
    intro e he
    rcases List.mem_cons.1 he with he | he
    · rw [he]; simp only; rw [← hid]
    · exact ht e he

/-! ## verifyFinalization -/

/-- the guards in front of the certificate check -/
def guardsOk (fc : FConsts) (n : Node) (s : Snap) : Prop :=
  s.version = fc.version ∧ s.hasSig = true ∧ s.mask ≠ 0 ∧ n.epoch ≤ certTs fc s

/-- ids are a function of the public keys in every key vector of the chain -/
def KeysIdOf (c : Consts) (idOf : Nat → Nat) (n : Node) (ch : Chain) : Prop :=
  ∀ round ts, (consensusKeys c n ch round ts).map Prod.fst = ((consensusKeys c n ch round ts).map Prod.snd).map idOf

/-- a certificate for the key vector and threshold of timestamp `ts` -/
def CertAt (c : Consts) (O : Oracle) (n : Node) (ch : Chain) (s : Snap) (ts : Nat) : Prop :=
  let keys := consensusKeys c n ch s.round ts
  consensusThreshold c n ts true ≤ (maskKeys s.mask).length ∧
  (∀ i ∈ maskKeys s.mask, i < keys.length) ∧
  O (masked (keys.map Prod.snd) s.mask) s.hash s.sig = true

theorem certAt_iff (c : Consts) (O : Oracle) (n : Node) (ch : Chain) (s : Snap) (ts : Nat) :
    fullVerify O ((consensusKeys c n ch s.round ts).map Prod.snd) (consensusThreshold c n ts true) s.hash s.mask s.sig = true ↔
      CertAt c O n ch s ts := by
  rw [fullVerify_iff]
  unfold CertAt
  have hpos : 0 < consensusThreshold c n ts true := by
    simp only [consensusThreshold]; split <;> omega
  simp only [List.length_map]
  constructor
  · rintro ⟨_, h1, h2, h3⟩; exact ⟨h1, h2, h3⟩
  · rintro ⟨h1, h2, h3⟩; exact ⟨hpos, h1, h2, h3⟩

instance (fc : FConsts) (n : Node) (s : Snap) : Decidable (guardsOk fc n s) := by
  unfold guardsOk; exact inferInstance

instance (c : Consts) (O : Oracle) (n : Node) (ch : Chain) (s : Snap) (ts : Nat) : Decidable (CertAt c O n ch s ts) := by
  unfold CertAt; exact inferInstance

/-- the primary attempt -/
def primary (c : Consts) (fc : FConsts) (O : Oracle) (n : Node) (ch : Chain) (t : Table) (s : Snap) :
    (List Nat × Bool) × Table :=
  cacheVerifyCosi O t s.hash s.sig s.mask
    ((consensusKeys c n ch s.round (certTs fc s)).map Prod.fst)
    ((consensusKeys c n ch s.round (certTs fc s)).map Prod.snd)
    (consensusThreshold c n (certTs fc s) true)

theorem vf_guard_fail (c : Consts) (fc : FConsts) (O : Oracle) (n : Node) (ch : Chain) (t : Table) (s : Snap)
    (h : ¬ guardsOk fc n s) : verifyFinalization c fc O n ch t s = (([], false), t) := by
  unfold guardsOk at h
  unfold verifyFinalization
  by_cases hv : s.version = fc.version
  · by_cases hs : s.hasSig = true
    · by_cases hm : s.mask = 0
      · simp [hv, hm]
      · have he : certTs fc s < n.epoch := by
          by_cases hc : certTs fc s < n.epoch
          · exact hc
          · exact absurd ⟨hv, hs, hm, by omega⟩ h
        simp [hv, hs, hm, he]
    · have hs' : s.hasSig = false := by simpa using hs
      simp [hv, hs']
  · simp [hv]

theorem vf_guard_ok (c : Consts) (fc : FConsts) (O : Oracle) (n : Node) (ch : Chain) (t : Table) (s : Snap)
    (h : guardsOk fc n s) :
    verifyFinalization c fc O n ch t s =
      if (primary c fc O n ch t s).1.2 || usePredictive c n (certTs fc s) then primary c fc O n ch t s
      else if (certTs fc s - n.epoch) / c.hour % 24 < c.acceptBegin || (certTs fc s - n.epoch) / c.hour % 24 > c.acceptEnd
        then primary c fc O n ch t s
      else if (consensusKeys c n ch s.round (legacyTs c n (certTs fc s))).length ≤
          (consensusKeys c n ch s.round (certTs fc s)).length then primary c fc O n ch t s
      else cacheVerifyCosi O (primary c fc O n ch t s).2 s.hash s.sig s.mask
        ((consensusKeys c n ch s.round (legacyTs c n (certTs fc s))).map Prod.fst)
        ((consensusKeys c n ch s.round (legacyTs c n (certTs fc s))).map Prod.snd)
        (consensusThreshold c n (legacyTs c n (certTs fc s)) true) := by
  obtain ⟨hv, hs, hm, he⟩ := h
  have he' : ¬ certTs fc s < n.epoch := by omega
  unfold verifyFinalization primary
  simp only [hv, hs, hm, he', ne_eq, not_true_eq_false, if_false, Bool.not_true, Bool.false_or,
    decide_false, Bool.false_eq_true, List.length_map]

theorem primary_spec (c : Consts) (fc : FConsts) (O : Oracle) (idOf : Nat → Nat) (n : Node) (ch : Chain)
    (t : Table) (s : Snap) (ht : TableOk O idOf t) (hid : KeysIdOf c idOf n ch) :
    (primary c fc O n ch t s).1 = freshVerify O
      ((consensusKeys c n ch s.round (certTs fc s)).map Prod.fst)
      ((consensusKeys c n ch s.round (certTs fc s)).map Prod.snd)
      (consensusThreshold c n (certTs fc s) true) s.hash s.mask s.sig ∧
    TableOk O idOf (primary c fc O n ch t s).2 :=
  cache_transparent O idOf t ht s.hash s.sig s.mask _ _ _ (hid _ _)

/-- In the predictive signer-set mode (every non-mainnet network, mainnet after the fork) the verdict
    of `verifyFinalization`, through any table satisfying the invariant, is exactly: guards pass and
    there is a threshold certificate for the consensus key vector at the snapshot's timestamp; the
    reported signers are the ids at the masked positions (empty on rejection). -/
theorem final_iff (c : Consts) (fc : FConsts) (O : Oracle) (idOf : Nat → Nat) (n : Node) (ch : Chain)
    (t : Table) (s : Snap) (ht : TableOk O idOf t) (hid : KeysIdOf c idOf n ch)
    (hpred : usePredictive c n (certTs fc s) = true) :
    (verifyFinalization c fc O n ch t s).1 =
      (if guardsOk fc n s ∧ CertAt c O n ch s (certTs fc s) then
        ((maskKeys s.mask).map (fun k => ((consensusKeys c n ch s.round (certTs fc s)).map Prod.fst).getD k 0), true)
       else ([], false)) ∧
    TableOk O idOf (verifyFinalization c fc O n ch t s).2 := by
  by_cases hg : guardsOk fc n s
  · rw [vf_guard_ok c fc O n ch t s hg]
    simp only [hpred, Bool.or_true, if_true]
    obtain ⟨hr, hok⟩ := primary_spec c fc O idOf n ch t s ht hid
    refine ⟨?_, hok⟩
    rw [hr]
    by_cases hc : CertAt c O n ch s (certTs fc s)
    · rw [if_pos ⟨hg, hc⟩]
      exact freshVerify_true ((certAt_iff c O n ch s _).2 hc)
    · have hne : ¬ (guardsOk fc n s ∧ CertAt c O n ch s (certTs fc s)) := fun h => hc h.2
      rw [if_neg hne]
      apply freshVerify_false
      cases hfv : fullVerify O ((consensusKeys c n ch s.round (certTs fc s)).map Prod.snd)
        (consensusThreshold c n (certTs fc s) true) s.hash s.mask s.sig
      · rfl
      · exact absurd ((certAt_iff c O n ch s _).1 hfv) hc
  · rw [vf_guard_fail c fc O n ch t s hg]
    have hne : ¬ (guardsOk fc n s ∧ CertAt c O n ch s (certTs fc s)) := fun h => hg h.1
    rw [if_neg hne]
    exact ⟨rfl, ht⟩

/-- **final_sound**: accepted as final (predictive mode) only with version, signature and non-zero mask
    present, timestamp not before the epoch, at least `ConsensusThreshold(ts, true)` mask bits, every
    bit inside `ConsensusKeys(round, ts)`, and the aggregate signature valid over the snapshot hash
    with exactly the masked keys; the signers are the ids at those positions. -/
theorem final_sound (c : Consts) (fc : FConsts) (O : Oracle) (idOf : Nat → Nat) (n : Node) (ch : Chain)
    (t : Table) (s : Snap) (ht : TableOk O idOf t) (hid : KeysIdOf c idOf n ch)
    (hpred : usePredictive c n (certTs fc s) = true)
    (hfin : (verifyFinalization c fc O n ch t s).1.2 = true) :
    guardsOk fc n s ∧ CertAt c O n ch s (certTs fc s) ∧
    (verifyFinalization c fc O n ch t s).1.1 =
      (maskKeys s.mask).map (fun k => ((consensusKeys c n ch s.round (certTs fc s)).map Prod.fst).getD k 0) := by
  obtain ⟨h1, _⟩ := final_iff c fc O idOf n ch t s ht hid hpred
  by_cases hc : guardsOk fc n s ∧ CertAt c O n ch s (certTs fc s)
  · rw [if_pos hc] at h1
    exact ⟨hc.1, hc.2, by rw [h1]⟩
  · rw [if_neg hc] at h1
    rw [h1] at hfin; cases hfin

/-- **final_sensitive**: whatever is changed — mask, signature, hash, key vector (through timestamp,
    round or history) — if for the changed snapshot the oracle rejects the masked keys, or the mask
    has fewer bits than the threshold, or a bit points outside the key vector, the snapshot is
    rejected (predictive mode, any table satisfying the invariant). -/
theorem final_sensitive (c : Consts) (fc : FConsts) (O : Oracle) (idOf : Nat → Nat) (n : Node) (ch : Chain)
    (t : Table) (s : Snap) (ht : TableOk O idOf t) (hid : KeysIdOf c idOf n ch)
    (hpred : usePredictive c n (certTs fc s) = true)
    (hbad : O (masked ((consensusKeys c n ch s.round (certTs fc s)).map Prod.snd) s.mask) s.hash s.sig = false ∨
      (maskKeys s.mask).length < consensusThreshold c n (certTs fc s) true ∨
      (∃ i ∈ maskKeys s.mask, (consensusKeys c n ch s.round (certTs fc s)).length ≤ i)) :
    (verifyFinalization c fc O n ch t s).1 = ([], false) := by
  obtain ⟨h1, _⟩ := final_iff c fc O idOf n ch t s ht hid hpred
  have hne : ¬ (guardsOk fc n s ∧ CertAt c O n ch s (certTs fc s)) := by
    rintro ⟨_, hc1, hc2, hc3⟩
    rcases hbad with hb | hb | ⟨i, hi, hb⟩
    · rw [hb] at hc3; cases hc3
    · omega
    · have := hc2 i hi; omega
  rw [if_neg hne] at h1
  exact h1

/-- a remembered result never changes verdict or signers: from any table satisfying the invariant
    the result equals the result from the empty table -/
theorem final_cache_transparent (c : Consts) (fc : FConsts) (O : Oracle) (idOf : Nat → Nat) (n : Node) (ch : Chain)
    (t : Table) (s : Snap) (ht : TableOk O idOf t) (hid : KeysIdOf c idOf n ch)
    (hpred : usePredictive c n (certTs fc s) = true) :
    (verifyFinalization c fc O n ch t s).1 = (verifyFinalization c fc O n ch [] s).1 := by
  rw [(final_iff c fc O idOf n ch t s ht hid hpred).1,
    (final_iff c fc O idOf n ch [] s (tableOk_nil O idOf) hid hpred).1]

/-
Legacy mode (mainnet before `mainnetConsensusNodeRemovalSignerSetForkAt`), stated separately: the
certificate may be for the key vector at the snapshot timestamp or, inside the node-operation window
and only when that vector is longer, for the key vector at the hour before the window.
-/
theorem final_sound_legacy_partial (c : Consts) (fc : FConsts) (O : Oracle) (idOf : Nat → Nat) (n : Node) (ch : Chain)
    (t : Table) (s : Snap) (ht : TableOk O idOf t) (hid : KeysIdOf c idOf n ch)
    (hfin : (verifyFinalization c fc O n ch t s).1.2 = true) :
    guardsOk fc n s ∧
    (CertAt c O n ch s (certTs fc s) ∨ CertAt c O n ch s (legacyTs c n (certTs fc s))) := by
  by_cases hg : guardsOk fc n s
  · refine ⟨hg, ?_⟩
    rw [vf_guard_ok c fc O n ch t s hg] at hfin
    obtain ⟨hr, hok⟩ := primary_spec c fc O idOf n ch t s ht hid
    have hprim : (primary c fc O n ch t s).1.2 = true → CertAt c O n ch s (certTs fc s) := by
      intro h; rw [hr, freshVerify_snd] at h; exact (certAt_iff c O n ch s _).1 h
    by_cases hp : (primary c fc O n ch t s).1.2 = true
    · exact Or.inl (hprim hp)
    · have hp' : (primary c fc O n ch t s).1.2 = false := by simpa using hp
      split at hfin
      · rw [hp'] at hfin; cases hfin
      · split at hfin
        · rw [hp'] at hfin; cases hfin
        · split at hfin
          · rw [hp'] at hfin; cases hfin
          · right
            obtain ⟨hr2, _⟩ := cache_transparent O idOf (primary c fc O n ch t s).2 hok s.hash s.sig s.mask
              ((consensusKeys c n ch s.round (legacyTs c n (certTs fc s))).map Prod.fst)
              ((consensusKeys c n ch s.round (legacyTs c n (certTs fc s))).map Prod.snd)
              (consensusThreshold c n (legacyTs c n (certTs fc s)) true) (hid _ _)
            rw [hr2, freshVerify_snd] at hfin
            exact (certAt_iff c O n ch s _).1 hfin
  · rw [vf_guard_fail c fc O n ch t s hg] at hfin; cases hfin

/-! ## which (key vector, threshold) pairs the verifier is called with -/

theorem cache_table_mem {O : Oracle} {t : Table} {hash sig mask : Nat} {cids publics : List Nat} {thr : Nat}
    {e : CKey × Option (List Nat)} (h : e ∈ (cacheVerifyCosi O t hash sig mask cids publics thr).2) :
    e ∈ t ∨ e.1 = ⟨hash, sig, publics, thr, mask⟩ := by
  cases hg : tableGet t ⟨hash, sig, publics, thr, mask⟩ with
  | some v => rw [cacheVerifyCosi_hit hg] at h; exact Or.inl h
  | none =>
    rw [cacheVerifyCosi_miss hg] at h
    rcases List.mem_cons.1 h with h | h
    · exact Or.inr (by rw [h])
    · exact Or.inl h

/-- **verify_attempts**: starting from an empty table, the table `verifyFinalization` leaves behind
    records every `cacheVerifyCosi` call it made; each of them used a key vector and a threshold that
    form one of the pairs of `finalizationAttempts` — in particular the legacy retry verifies the
    legacy key vector against the threshold *of the legacy timestamp*. -/
theorem verify_attempts (c : Consts) (fc : FConsts) (O : Oracle) (n : Node) (ch : Chain) (s : Snap) :
    ∀ e ∈ (verifyFinalization c fc O n ch [] s).2,
      ∃ a ∈ finalizationAttempts c n ch s.round (certTs fc s),
        e.1.publics = a.1.map Prod.snd ∧ e.1.thr = a.2 := by
  intro e he
  by_cases hg : guardsOk fc n s
  · rw [vf_guard_ok c fc O n ch [] s hg] at he
    have hep : ¬ certTs fc s < n.epoch := by have := hg.2.2.2; omega
    have hprim : ∀ x ∈ (primary c fc O n ch [] s).2,
        x.1.publics = (consensusKeys c n ch s.round (certTs fc s)).map Prod.snd ∧
        x.1.thr = consensusThreshold c n (certTs fc s) true := by
      intro x hx
      unfold primary at hx
      rcases cache_table_mem hx with h | h
      · cases h
      · rw [h]; exact ⟨rfl, rfl⟩
    unfold finalizationAttempts
    simp only [hep, if_false]
    by_cases hp : usePredictive c n (certTs fc s) = true
    · simp only [hp, Bool.or_true, if_true] at he ⊢
      exact ⟨(consensusKeys c n ch s.round (certTs fc s), consensusThreshold c n (certTs fc s) true), by simp, hprim e he⟩
    · have hp' : usePredictive c n (certTs fc s) = false := by simpa using hp
      simp only [hp', Bool.or_false, Bool.false_eq_true, if_false] at he ⊢
      by_cases h1 : (primary c fc O n ch [] s).1.2 = true
      · simp only [h1, if_true] at he
        split
        · exact ⟨(consensusKeys c n ch s.round (certTs fc s), consensusThreshold c n (certTs fc s) true), by simp, hprim e he⟩
        · split
          · exact ⟨(consensusKeys c n ch s.round (certTs fc s), consensusThreshold c n (certTs fc s) true), by simp, hprim e he⟩
          · exact ⟨_, List.mem_cons_self .., hprim e he⟩
      · simp only [h1, if_false, Bool.false_eq_true] at he
        by_cases hw : (decide ((certTs fc s - n.epoch) / c.hour % 24 < c.acceptBegin) ||
            decide ((certTs fc s - n.epoch) / c.hour % 24 > c.acceptEnd)) = true
        · simp only [hw, if_true] at he ⊢
          exact ⟨(consensusKeys c n ch s.round (certTs fc s), consensusThreshold c n (certTs fc s) true), by simp, hprim e he⟩
        · simp only [hw, if_false, Bool.false_eq_true] at he ⊢
          by_cases hl : (consensusKeys c n ch s.round (legacyTs c n (certTs fc s))).length ≤
              (consensusKeys c n ch s.round (certTs fc s)).length
          · simp only [hl, if_true] at he ⊢
            exact ⟨(consensusKeys c n ch s.round (certTs fc s), consensusThreshold c n (certTs fc s) true), by simp, hprim e he⟩
          · simp only [hl, if_false] at he ⊢
            rcases cache_table_mem he with h | h
            · exact ⟨_, List.mem_cons_self .., hprim e h⟩
            · exact ⟨_, List.mem_cons_of_mem _ (List.mem_cons_self ..), by rw [h]; exact ⟨rfl, rfl⟩⟩
  · rw [vf_guard_fail c fc O n ch [] s hg] at he
    cases he

/-! ### non-vacuity: 7 genesis nodes, a 5-of-7 certificate is accepted, 4-of-7 is not -/
def g (i : Nat) : Rec := { ts := 0, id := 1000 + i, signer := i, payee := 200 + i, state := .accepted, tx := 300 + i }
def node7 : Node := ⟨0, false, 1001, 1, [1001, 1002, 1003, 1004, 1005, 1006, 1007], [g 1, g 2, g 3, g 4, g 5, g 6, g 7]⟩
def goodO : Oracle := fun ks h sg => ks == [1, 2, 3, 4, 5] && h == 77 && sg == 99
def snap5 : Snap := { version := 2, hasSig := true, mask := 31, sig := 99, hash := 77, hack := false, ts := 1000, round := 1 }
example : (verifyFinalization genConsts genFConsts goodO node7 ⟨none⟩ [] snap5).1 = ([1001, 1002, 1003, 1004, 1005], true) := by decide
example : (verifyFinalization genConsts genFConsts goodO node7 ⟨none⟩ [] { snap5 with mask := 15 }).1 = ([], false) := by decide
example : (verifyFinalization genConsts genFConsts goodO node7 ⟨none⟩ [] { snap5 with hash := 78 }).1 = ([], false) := by decide
example : usePredictive genConsts node7 (certTs genFConsts snap5) = true := by decide
example : KeysIdOf genConsts (fun k => 1000 + k) node7 ⟨none⟩ → True := fun _ => trivial

end Mixin.C09
