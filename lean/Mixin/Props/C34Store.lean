import Mixin.Props.C34
import Mixin.Model.CustodianStore
/-!
# C34, continued — the stored custodian history and the kernel-level validator

`storage/badger_custodian.go` and `kernel/custodian.go` (model: `Mixin.CustodianStore`).
-/
namespace Mixin.C34
open Mixin.Proto Mixin.Custodian Mixin.CustodianStore

/-! ## the lookup -/

/-- every record's transaction is stored (`writeTransaction` runs before the record is set) -/
def StoreInv (s : Store) : Prop := ∀ e ∈ s.entries, (s.txs.lookup e.tx).isSome = true

/-- a transaction hash determines the transaction: if `hash` is already stored, it is stored with
    this very extra (the hash function assumption, stated as an explicit hypothesis) -/
def TxConsistent (s : Store) (hash extra : Bytes) : Prop := ∀ x, s.txs.lookup hash = some x → x = extra

theorem parseItem_congr (V : Verifier) {txs txs' : List (Bytes × Bytes)} (cache : Option Cache) (e : Entry) (g : Bool)
    (h : txs'.lookup e.tx = txs.lookup e.tx) : parseItem V txs' cache e g = parseItem V txs cache e g := by
  unfold parseItem
  rw [h]

theorem readLoop_congr (V : Verifier) {txs txs' : List (Bytes × Bytes)} (t : Nat) :
    ∀ (l : List Entry) (g : Bool) (found : Option Found) (cache : Option Cache),
      (∀ e ∈ l, txs'.lookup e.tx = txs.lookup e.tx) →
      readLoop V txs' t l g found cache = readLoop V txs t l g found cache
  | [], _, _, _, _ => rfl
  | e :: rest, g, found, cache, h => by
    unfold readLoop
    rw [parseItem_congr V cache e g (h e (by simp))]
    split_ifs
    · rfl
    · cases parseItem V txs cache e g with
      | none => rfl
      | some r => exact readLoop_congr V t rest false (some r.1) r.2 (fun x hx => h x (by simp [hx]))

theorem lookup_cons_consistent {s : Store} {hash extra : Bytes} (hinv : StoreInv s) (hc : TxConsistent s hash extra) :
    ∀ e ∈ s.entries, ((hash, extra) :: s.txs).lookup e.tx = s.txs.lookup e.tx := by
  intro e he
  have hs := hinv e he
  by_cases heq : e.tx = hash
  · cases hl : s.txs.lookup e.tx with
    | none => rw [hl] at hs; cases hs
    | some x =>
      have : x = extra := hc x (by rw [← heq]; exact hl)
      subst this
      simp [List.lookup, heq]
  · have : (e.tx == hash) = false := by simpa using heq
    simp [List.lookup, this]

/-- records after `t` are never looked at (mirrors `Mixin.C11.custodian_prefix_stable`) -/
theorem readLoop_insert (V : Verifier) (txs : List (Bytes × Bytes)) (t : Nat) (e : Entry) (he : t < e.ts) :
    ∀ (l : List Entry) (g : Bool) (found : Option Found) (cache : Option Cache),
      readLoop V txs t (insertKey e l) g found cache = readLoop V txs t l g found cache
  | [], g, found, cache => by simp [insertKey, readLoop, he]
  | x :: xs, g, found, cache => by
    unfold insertKey
    by_cases h1 : e.ts < x.ts
    · have hx : x.ts > t := by omega
      simp [h1, readLoop, he, hx]
    · by_cases h2 : e.ts = x.ts
      · have hx : x.ts > t := by omega
        simp [h1, h2, readLoop, hx]
      · simp only [h1, h2, if_false]
        unfold readLoop
        by_cases hx : x.ts > t
        · simp [hx]
        · simp only [hx, if_false]
          cases parseItem V txs cache x g with
          | none => rfl
          | some r => exact readLoop_insert V txs t e he xs false (some r.1) r.2

/-! ## the writer -/

theorem write_entries (V : Verifier) (s : Store) (T : Nat) (hash extra : Bytes) (g : Bool) :
    (writeCustodianNodes V s T hash extra g).2 = s.entries ∨
    ((writeCustodianNodes V s T hash extra g).1 = .written ∧
      (writeCustodianNodes V s T hash extra g).2 = insertKey ⟨T, hash⟩ s.entries) := by
  unfold writeCustodianNodes
  split
  · left; rfl
  · split_ifs
    · left; rfl
    · split
      · left; rfl
      · right; exact ⟨rfl, rfl⟩
      · split_ifs
        · left; rfl
        · left; rfl
        · left; rfl
        · right; exact ⟨rfl, rfl⟩

/-- shape of the store after `finalize`: untouched, or the transaction stored (and marked), or
    additionally one record set at `T` -/
theorem finalize_shape (V : Verifier) (s : Store) (hash extra : Bytes) (g : Bool) (T : Nat) :
    (finalize V s hash extra g T).2 = s ∨
    (∃ fin, (finalize V s hash extra g T).2 = ⟨s.entries, (hash, extra) :: s.txs, fin⟩) ∨
    (∃ fin, (finalize V s hash extra g T).1 = .written ∧
      (finalize V s hash extra g T).2 = ⟨insertKey ⟨T, hash⟩ s.entries, (hash, extra) :: s.txs, fin⟩) := by
  unfold finalize
  simp only []
  split_ifs
  · right; left; exact ⟨_, rfl⟩
  · have hw := write_entries V ⟨s.entries, (hash, extra) :: s.txs, hash :: s.finalized⟩ T hash extra g
    generalize writeCustodianNodes V ⟨s.entries, (hash, extra) :: s.txs, hash :: s.finalized⟩ T hash extra g = w at hw
    obtain ⟨o, es⟩ := w
    cases o with
    | written =>
      rcases hw with hw | hw
      · right; left; simp only at hw; subst hw; exact ⟨_, rfl⟩
      · right; right; simp only at hw; obtain ⟨_, hw⟩ := hw; subst hw; exact ⟨_, rfl, rfl⟩
    | unchanged => right; left; exact ⟨_, rfl⟩
    | error => left; rfl
    | panic => left; rfl

/-- **custodian_history_append_only.** Whatever a finalization does (write a record, return
    without one, fail), `ReadCustodian` answers for every earlier timestamp as before. -/
theorem custodian_history_append_only (V : Verifier) (s : Store) (hash extra : Bytes) (g : Bool) (T : Nat)
    (hinv : StoreInv s) (hc : TxConsistent s hash extra) (t : Nat) (ht : t < T) (cache : Option Cache) :
    readCustodian V (finalize V s hash extra g T).2 t cache = readCustodian V s t cache := by
  have hl := lookup_cons_consistent hinv hc
  rcases finalize_shape V s hash extra g T with h | ⟨fin, h⟩ | ⟨fin, _, h⟩
  · rw [h]
  · rw [h]; exact readLoop_congr V t s.entries true none cache hl
  · rw [h]
    unfold readCustodian
    simp only []
    rw [readLoop_insert V _ t ⟨T, hash⟩ ht]
    exact readLoop_congr V t s.entries true none cache hl

/-- **No staleness guard in storage** (what a `write_rejects_stale` would have to contradict): the
    outcome of `writeCustodianNodes` at `T` does not depend on records later than `T`, so an update
    dated before the newest record is written like any other. Timestamp monotonicity of consensus
    snapshots is enforced by the kernel (`validateConsensusTransactionReferences`), not here. -/
theorem write_ignores_later_records (V : Verifier) (s : Store) (T : Nat) (hash extra : Bytes) (g : Bool)
    (e : Entry) (he : T < e.ts) :
    (writeCustodianNodes V { s with entries := insertKey e s.entries } T hash extra g).1 =
      (writeCustodianNodes V s T hash extra g).1 := by
  unfold writeCustodianNodes readCustodian
  simp only []
  rw [readLoop_insert V s.txs T e he]
  cases parseExtra V g extra with
  | none => rfl
  | some now =>
    simp only []
    split_ifs
    · rfl
    · cases readLoop V s.txs T s.entries true none none with
      | none => rfl
      | some r =>
        obtain ⟨f, c⟩ := r
        cases f with
        | none => rfl
        | some prev => simp only []; split_ifs <;> rfl

/-- the guards at an occupied timestamp: same custodian → nothing is written, another custodian → panic -/
theorem write_same_timestamp (V : Verifier) (s : Store) (T : Nat) (hash extra : Bytes) (g : Bool) (now : Request)
    (prev : Found) (c : Option Cache) (hp : parseExtra V g extra = some now) (hn : now.nodes.length ≤ maxStoredNodes)
    (hr : readCustodian V s T none = some (some prev, c)) (hts : prev.ts = T) :
    writeCustodianNodes V s T hash extra g =
      (if now.custodian = prev.req.custodian then .unchanged else .panic, s.entries) := by
  unfold writeCustodianNodes
  rw [hp]
  simp only []
  rw [if_neg (by omega), hr]
  simp only []
  rw [if_neg (by omega), if_pos hts]
  split_ifs <;> rfl


/-! ## what validation accepted is what finalization stores and what later lookups return -/

theorem parseItem_none_cache {V : Verifier} {txs : List (Bytes × Bytes)} {e : Entry} {g : Bool} {f : Found}
    {c : Option Cache} (h : parseItem V txs none e g = some (f, c)) : c = none := by
  unfold parseItem at h
  simp only [] at h
  split at h
  · cases h
  · simp only [Option.some.injEq, Prod.mk.injEq] at h; exact h.2.symm

theorem readLoop_mono (V : Verifier) (txs : List (Bytes × Bytes)) (T t : Nat) (hT : T ≤ t) :
    ∀ (l : List Entry) (g : Bool) (found : Option Found), (∀ x ∈ l, x.ts ≤ T) →
      readLoop V txs t l g found none = readLoop V txs T l g found none
  | [], _, _, _ => rfl
  | x :: xs, g, found, h => by
    have hx := h x (by simp)
    unfold readLoop
    rw [if_neg (by omega), if_neg (by omega)]
    cases hp : parseItem V txs none x g with
    | none => rfl
    | some r =>
      obtain ⟨f, c⟩ := r
      have := parseItem_none_cache hp
      subst this
      exact readLoop_mono V txs T t hT xs false (some f) (fun y hy => h y (by simp [hy]))

/-- a lookup without a cache returns no cache -/
theorem readLoop_none_cache (V : Verifier) (txs : List (Bytes × Bytes)) (t : Nat) :
    ∀ (l : List Entry) (g : Bool) (found r : Option Found) (c : Option Cache),
      readLoop V txs t l g found none = some (r, c) → c = none
  | [], _, _, _, _, h => by simp only [readLoop, Option.some.injEq, Prod.mk.injEq] at h; exact h.2.symm
  | x :: xs, g, found, r, c, h => by
    unfold readLoop at h
    split_ifs at h
    · simp only [Option.some.injEq, Prod.mk.injEq] at h; exact h.2.symm
    · cases hp : parseItem V txs none x g with
      | none => rw [hp] at h; cases h
      | some q =>
        obtain ⟨f, c'⟩ := q
        rw [hp] at h
        have := parseItem_none_cache hp
        subst this
        exact readLoop_none_cache V txs t xs false (some f) r c h

/-- a found record carries the timestamp of one of the records, or is the initial one -/
theorem readLoop_found_ts (V : Verifier) (txs : List (Bytes × Bytes)) (t : Nat) :
    ∀ (l : List Entry) (g : Bool) (found : Option Found) (f : Found) (c : Option Cache),
      readLoop V txs t l g found none = some (some f, c) → found = some f ∨ ∃ e ∈ l, e.ts = f.ts
  | [], _, found, f, c, h => by
    simp only [readLoop, Option.some.injEq, Prod.mk.injEq] at h; exact Or.inl h.1
  | x :: xs, g, found, f, c, h => by
    unfold readLoop at h
    split_ifs at h
    · simp only [Option.some.injEq, Prod.mk.injEq] at h; exact Or.inl h.1
    · cases hp : parseItem V txs none x g with
      | none => rw [hp] at h; cases h
      | some q =>
        obtain ⟨f', c'⟩ := q
        rw [hp] at h
        have hc := parseItem_none_cache hp
        subst hc
        rcases readLoop_found_ts V txs t xs false (some f') f c h with h1 | ⟨e, he, hts⟩
        · right
          refine ⟨x, by simp, ?_⟩
          simp only [Option.some.injEq] at h1
          subst h1
          unfold parseItem at hp
          simp only [] at hp
          split at hp
          · cases hp
          · simp only [Option.some.injEq, Prod.mk.injEq] at hp; rw [← hp.1]
        · exact Or.inr ⟨e, by simp [he], hts⟩

/-- traversing `l ++ [e]` when everything is at or before the asked time -/
theorem readLoop_snoc (V : Verifier) (txs : List (Bytes × Bytes)) (t : Nat) (e : Entry) (he : e.ts ≤ t) :
    ∀ (l : List Entry) (g : Bool) (found : Option Found) (f : Found), (∀ x ∈ l, x.ts ≤ t) → l ≠ [] →
      readLoop V txs t l g found none = some (some f, none) →
      readLoop V txs t (l ++ [e]) g found none =
        match parseItem V txs none e false with
        | none => none
        | some (cur, _) => some (some cur, none)
  | [], _, _, _, _, hne, _ => absurd rfl hne
  | x :: xs, g, found, f, hle, _, h => by
    have hx := hle x (by simp)
    unfold readLoop at h
    rw [if_neg (by omega)] at h
    simp only [List.cons_append]
    unfold readLoop
    rw [if_neg (by omega)]
    cases hp : parseItem V txs none x g with
    | none => rw [hp] at h; cases h
    | some q =>
      obtain ⟨f', c'⟩ := q
      rw [hp] at h
      have hc := parseItem_none_cache hp
      subst hc
      simp only []
      cases xs with
      | nil =>
        simp only [List.nil_append]
        unfold readLoop
        rw [if_neg (by omega)]
        cases hq : parseItem V txs none e false with
        | none => rfl
        | some q2 =>
          obtain ⟨cur, c2⟩ := q2
          have := parseItem_none_cache hq
          subst this
          simp [readLoop]
      | cons y ys =>
        exact readLoop_snoc V txs t e he (y :: ys) false (some f') f (fun z hz => hle z (by simp [hz])) (by simp) h

theorem insertKey_last (e : Entry) : ∀ l : List Entry, (∀ x ∈ l, x.ts < e.ts) → insertKey e l = l ++ [e]
  | [], _ => rfl
  | x :: xs, h => by
    have hx := h x (by simp)
    unfold insertKey
    rw [if_neg (by omega), if_neg (by omega), insertKey_last e xs (fun y hy => h y (by simp [hy]))]
    rfl

/-- **stored_update_is_canonical / accepted ⇒ written ⇒ read.** If the common validator accepts the
    transaction against the stored history at `T`, the transaction was not finalized before, every
    record is older than `T` (consensus timestamps increase strictly), and the update has at most
    fifty entries (the writer panics above — the validator does not check this), then finalization
    writes the record, the update is in canonical form, and every lookup at `t ≥ T` returns exactly
    the accepted request with this transaction and timestamp. -/
theorem accepted_update_is_stored (V : Verifier) (xin : Bytes) (tx : Tx) (s : Store) (T : Nat) (hash : Bytes)
    (hacc : validate V xin tx (storeReadOf (readCustodian V s T none)) = .accept)
    (hinv : StoreInv s) (hc : TxConsistent s hash tx.extra) (hnew : s.finalized.contains hash = false)
    (hlast : ∀ e ∈ s.entries, e.ts < T)
    (hmax : ∀ req, parseExtra V false tx.extra = some req → req.nodes.length ≤ maxStoredNodes) :
    ∃ req s', parseExtra V false tx.extra = some req ∧ Canonical V false tx.extra req ∧
      finalize V s hash tx.extra false T = (.written, s') ∧
      s'.entries = s.entries ++ [⟨T, hash⟩] ∧
      ∀ t, T ≤ t → readCustodian V s' t none = some (some ⟨req, hash, T⟩, none) := by
  obtain ⟨req, prev, out, hreq, hcan, _, _, _, _, hstore, _⟩ := custodian_accept_sound hacc
  -- the lookup at T found a record, older than T
  cases hr : readCustodian V s T none with
  | none => rw [hr] at hstore; cases hstore
  | some r =>
    obtain ⟨fo, c0⟩ := r
    cases fo with
    | none => rw [hr] at hstore; cases hstore
    | some f =>
      have hc0 : c0 = none := readLoop_none_cache V s.txs T s.entries true none (some f) c0 hr
      subst hc0
      have hfts : f.ts < T := by
        rcases readLoop_found_ts V s.txs T s.entries true none f none hr with h | ⟨e, he, hts⟩
        · cases h
        · rw [← hts]; exact hlast e he
      have hne : s.entries ≠ [] := by
        intro h0
        unfold readCustodian at hr
        rw [h0] at hr
        simp [readLoop] at hr
      have hl := lookup_cons_consistent hinv hc
      let s2 : Store := ⟨s.entries, (hash, tx.extra) :: s.txs, hash :: s.finalized⟩
      have hr2 : readCustodian V s2 T none = some (some f, none) := by
        unfold readCustodian
        rw [readLoop_congr V T s.entries true none none hl]
        exact hr
      have hw : writeCustodianNodes V s2 T hash tx.extra false = (.written, insertKey ⟨T, hash⟩ s.entries) := by
        unfold writeCustodianNodes
        rw [hreq]
        simp only []
        rw [if_neg (by have := hmax req hreq; omega), hr2]
        simp only []
        rw [if_neg (by omega), if_neg (by omega)]
      refine ⟨req, ⟨insertKey ⟨T, hash⟩ s.entries, (hash, tx.extra) :: s.txs, hash :: s.finalized⟩, hreq, hcan, ?_, ?_, ?_⟩
      · unfold finalize
        simp only [hnew, Bool.false_eq_true, if_false]
        rw [show (⟨s.entries, (hash, tx.extra) :: s.txs, hash :: s.finalized⟩ : Store) = s2 from rfl, hw]
      · exact insertKey_last ⟨T, hash⟩ s.entries hlast
      · intro t ht
        unfold readCustodian
        simp only []
        rw [insertKey_last ⟨T, hash⟩ s.entries hlast]
        have hle : ∀ x ∈ s.entries, x.ts ≤ t := fun x hx => by have := hlast x hx; omega
        have hleT : ∀ x ∈ s.entries, x.ts ≤ T := fun x hx => by have := hlast x hx; omega
        have hrt : readLoop V ((hash, tx.extra) :: s.txs) t s.entries true none none = some (some f, none) := by
          rw [readLoop_mono V _ T t ht s.entries true none hleT]
          exact hr2
        rw [readLoop_snoc V _ t ⟨T, hash⟩ ht s.entries true none f hle hne hrt]
        have hp : parseItem V ((hash, tx.extra) :: s.txs) none ⟨T, hash⟩ false = some (⟨req, hash, T⟩, none) := by
          simp [parseItem, List.lookup, hreq]
        rw [hp]


/-- `finalize` keeps the store invariant (every record's transaction is stored) -/
theorem finalize_inv (V : Verifier) (s : Store) (hash extra : Bytes) (g : Bool) (T : Nat)
    (hinv : StoreInv s) (hc : TxConsistent s hash extra) : StoreInv (finalize V s hash extra g T).2 := by
  have hl := lookup_cons_consistent hinv hc
  have hold : ∀ e ∈ s.entries, (((hash, extra) :: s.txs).lookup e.tx).isSome = true := by
    intro e he; rw [hl e he]; exact hinv e he
  rcases finalize_shape V s hash extra g T with h | ⟨fin, h⟩ | ⟨fin, _, h⟩
  · rw [h]; exact hinv
  · rw [h]; exact hold
  · rw [h]
    intro e he
    simp only at he ⊢
    have hmem : ∀ (l : List Entry), e ∈ insertKey ⟨T, hash⟩ l → e = ⟨T, hash⟩ ∨ e ∈ l := by
      intro l
      induction l with
      | nil => intro h; simpa [insertKey] using h
      | cons x xs ih =>
        intro h
        unfold insertKey at h
        split_ifs at h
        · simpa using h
        · rw [List.mem_cons] at h; rcases h with h | h
          · exact Or.inl h
          · exact Or.inr (by simp [h])
        · rw [List.mem_cons] at h; rcases h with h | h
          · exact Or.inr (by simp [h])
          · rcases ih h with h | h
            · exact Or.inl h
            · exact Or.inr (by simp [h])
    rcases hmem s.entries he with h | h
    · subst h; simp [List.lookup]
    · exact hold e h

/-! ## the parse cache -/

/-- every cache entry is the parse result of its key -/
def CacheOk (V : Verifier) (txs : List (Bytes × Bytes)) (c : Cache) : Prop :=
  ∀ k v, c.lookup k = some v → ∃ extra, txs.lookup k.1 = some extra ∧ parseExtra V k.2 extra = some v

theorem lookup_append_single {k k' : Bytes × Bool} {v v' : Request} (c : Cache)
    (h : (c ++ [(k', v')]).lookup k = some v) : c.lookup k = some v ∨ (c.lookup k = none ∧ k = k' ∧ v = v') := by
  induction c with
  | nil =>
    simp only [List.nil_append, List.lookup] at h
    split at h
    · rename_i heq
      simp only [Option.some.injEq] at h
      exact Or.inr ⟨rfl, by simpa using heq, h.symm⟩
    · cases h
  | cons x xs ih =>
    obtain ⟨xk, xv⟩ := x
    simp only [List.cons_append, List.lookup] at h ⊢
    cases hk : (k == xk) with
    | true => simp only [hk] at h ⊢; exact Or.inl h
    | false => simp only [hk] at h ⊢; exact ih h

/-- **The parse cache is transparent**: a lookup served through a cache whose entries are parse
    results returns the record (or error) of the uncached lookup and leaves such a cache
    (mirrors `Mixin.C11.custodian_cache_transparent` for the byte-level parser). -/
theorem read_cache_transparent (V : Verifier) (txs : List (Bytes × Bytes)) (t : Nat) :
    ∀ (l : List Entry) (g : Bool) (found : Option Found) (c : Cache), CacheOk V txs c →
      (readLoop V txs t l g found (some c)).map Prod.fst = (readLoop V txs t l g found none).map Prod.fst ∧
      ∀ r c', readLoop V txs t l g found (some c) = some (r, c') → ∃ c'', c' = some c'' ∧ CacheOk V txs c''
  | [], g, found, c, hc => by
    simp only [readLoop, Option.map_some, true_and]
    intro r c' h
    simp only [Option.some.injEq, Prod.mk.injEq] at h
    exact ⟨c, h.2.symm, hc⟩
  | e :: rest, g, found, c, hc => by
    unfold readLoop
    by_cases hgt : e.ts > t
    · simp only [hgt, if_true, Option.map_some, true_and]
      intro r c' h
      simp only [Option.some.injEq, Prod.mk.injEq] at h
      exact ⟨c, h.2.symm, hc⟩
    · simp only [hgt, if_false]
      -- one item
      have key : (parseItem V txs (some c) e g = none ∧ parseItem V txs none e g = none) ∨
          ∃ f c1, parseItem V txs (some c) e g = some (f, some c1) ∧ parseItem V txs none e g = some (f, none) ∧
            CacheOk V txs c1 := by
        unfold parseItem
        simp only []
        cases hl : c.lookup (e.tx, g) with
        | some v =>
          obtain ⟨extra, h1, h2⟩ := hc _ _ hl
          right
          refine ⟨⟨v, e.tx, e.ts⟩, c, ?_, ?_, hc⟩ <;> simp [h1, h2]
        | none =>
          cases h1 : txs.lookup e.tx with
          | none => left; simp
          | some extra =>
            cases h2 : parseExtra V g extra with
            | none => left; simp [h2]
            | some cur =>
              right
              refine ⟨⟨cur, e.tx, e.ts⟩, c ++ [((e.tx, g), cur)], ?_, ?_, ?_⟩
              · simp [h2]
              · simp [h2]
              intro k v hk
              rcases lookup_append_single c hk with hk | ⟨_, hk1, hk2⟩
              · exact hc k v hk
              · subst hk1; subst hk2; exact ⟨extra, h1, h2⟩
      rcases key with ⟨h1, h2⟩ | ⟨f, c1, h1, h2, hok⟩
      · rw [h1, h2]; exact ⟨rfl, by intro r c' h; cases h⟩
      · rw [h1, h2]
        exact read_cache_transparent V txs t rest false (some f) c1 hok

/-! ## kernel/custodian.go -/

theorem checkNodes_sound (V : Verifier) (all : List KNode) : ∀ nodes : List Node, checkNodes V all nodes = true →
    ∀ n ∈ nodes, ∃ cn, nodeFilter all n.nodeId = some cn ∧ cn.payee = n.payeeAddr ∧
      V cn.signer (n.extra.take 161) n.signerSig = true
  | [], _, n, hn => by cases hn
  | m :: rest, h, n, hn => by
    unfold checkNodes at h
    cases hf : nodeFilter all m.nodeId with
    | none => rw [hf] at h; cases h
    | some cn =>
      rw [hf] at h
      simp only [] at h
      split_ifs at h with h1 h2
      rw [List.mem_cons] at hn
      rcases hn with rfl | hn
      · exact ⟨cn, hf, by simpa using h1, by simpa [Node.signed] using h2⟩
      · exact checkNodes_sound V all rest h n hn

/-- the kernel-level validator alone: gates, freshness of an unfinalized snapshot, canonical form,
    approval by the custodian current at the snapshot's time, and for every entry a kernel node
    with that node id, the same payee address and a valid signer signature over the first 161 bytes -/
theorem kernel_validate_sound {V : Verifier} {gate finalized : Bool} {ts gts thr : Nat} {extra : Bytes}
    {store : StoreRead} {all : List KNode}
    (h : kernelValidate V gate finalized ts gts thr extra store all = .accept) :
    gate = true ∧ (finalized = true ∨ gts ≤ ts + thr * 2) ∧
    ∃ req prev, parseExtra V false extra = some req ∧ Canonical V false extra req ∧
      store = .found prev ∧
      V (prev.custodian.take 32) (req.custodian ++ flattenExtras req.nodes) req.signature = true ∧
      ∀ n ∈ req.nodes, ∃ cn, nodeFilter all n.nodeId = some cn ∧ cn.payee = n.payeeAddr ∧
        V cn.signer (n.extra.take 161) n.signerSig = true := by
  unfold kernelValidate at h
  split_ifs at h with hg hst
  cases hreq : parseExtra V false extra with
  | none => rw [hreq] at h; cases h
  | some req =>
  rw [hreq] at h
  simp only [] at h
  cases store with
  | error => split_ifs at h
  | none => split_ifs at h
  | found prev =>
  simp only [] at h
  split_ifs at h with hcount happ hnodes
  have hcan := parse_sound hreq
  have hprefix : extra.take (extra.length - 64) = req.custodian ++ flattenExtras req.nodes := by
    have hl := hcan.layout
    have hs := hcan.sig_len
    have : extra.length - 64 = (req.custodian ++ flattenExtras req.nodes).length := by
      rw [hl]; simp only [List.length_append]; omega
    rw [this, hl]
    exact List.take_left' rfl
  rw [hprefix] at happ
  refine ⟨by simpa using hg, ?_, req, prev, rfl, hcan, rfl, by simpa using happ, checkNodes_sound V all _ hnodes⟩
  by_cases hf : finalized = true
  · exact Or.inl hf
  · right
    have : ¬ (ts + thr * 2 < gts) := fun hlt => hst ⟨by simpa using hf, hlt⟩
    omega

/-- **accepted_custodian_update_sound (kernel level).** A custodian update snapshot passes both the
    transaction validation (`common`) and the kernel's snapshot validation against the same lookup
    `ReadCustodian(ts)`. Then the gates passed (election, epoch, hour window: `gate`, C29), and the
    full statement of C34 holds: canonical, sorted, distinct keys, payee and custodian signatures,
    approval by the current custodian, price paid, same custodian ⇒ same node set — and in addition
    every entry names a kernel node with that payee and carries that node's signer signature. -/
theorem accepted_custodian_update_sound {V : Verifier} {xin : Bytes} {tx : Tx} {store : StoreRead}
    {gate finalized : Bool} {ts gts thr : Nat} {all : List KNode}
    (hc : validate V xin tx store = .accept)
    (hk : kernelValidate V gate finalized ts gts thr tx.extra store all = .accept) :
    gate = true ∧
    ∃ req prev out,
      parseExtra V false tx.extra = some req ∧ Canonical V false tx.extra req ∧
      StrictSorted req.nodes ∧ SpendKeysDistinct req.nodes ∧ FullySigned V req.nodes ∧
      nodesMinimumCount ≤ req.nodes.length ∧
      store = .found prev ∧ tx.outputs = [out] ∧
      V (prev.custodian.take 32) (req.custodian ++ flattenExtras req.nodes) req.signature = true ∧
      price prev.nodes req.nodes ≤ out.amount ∧
      (req.custodian = prev.custodian →
        (∀ kv ∈ prev.nodes, kv.1 ∈ req.nodes.map Node.custAddr) ∧ prev.nodes.length = req.nodes.length) ∧
      ∀ n ∈ req.nodes, ∃ cn, nodeFilter all n.nodeId = some cn ∧ cn.payee = n.payeeAddr ∧
        V cn.signer (n.extra.take 161) n.signerSig = true := by
  obtain ⟨req, prev, out, hreq, hcan, hs, hd, hsig, hn, hst, hout, _, _, _, _, _, happ, hprice, hsame⟩ :=
    custodian_accept_sound hc
  obtain ⟨hg, _, req', prev', hreq', _, hst', _, hnodes⟩ := kernel_validate_sound hk
  rw [hreq] at hreq'
  simp only [Option.some.injEq] at hreq'
  subst hreq'
  exact ⟨hg, req, prev, out, hreq, hcan, hs, hd, hsig, hn, hst, hout, happ, hprice, hsame, hnodes⟩

/-! ## non-vacuity -/

example : insertKey ⟨5, [1]⟩ [⟨3, [2]⟩, ⟨7, [3]⟩] = [⟨3, [2]⟩, ⟨5, [1]⟩, ⟨7, [3]⟩] := by decide
example : readCustodian (fun _ _ _ => true) ⟨[⟨3, [2]⟩], [], []⟩ 2 none = some (none, none) := rfl
example : readCustodian (fun _ _ _ => true) ⟨[⟨3, [2]⟩], [], []⟩ 3 none = none := rfl
example : (finalize (fun _ _ _ => true) Store.empty [1] [] true 9).1 = .panic := by decide
example : nodeFilter [⟨[1], [2], [3]⟩, ⟨[1], [4], [5]⟩] [1] = some ⟨[1], [4], [5]⟩ := by decide
example : kernelValidate (fun _ _ _ => true) false true 0 0 0 [] .none [] = .reject := by decide
example : StoreInv Store.empty := by intro e he; cases he

end Mixin.C34
